/-
Helper lemmas for property C02 (Model/Storage.lean).  Ordinary public theorems; the counted property theorems are in
Props/C02.lean.
-/
import EzdxfVerif.Model.Storage

namespace EzdxfVerif.Storage
open EzdxfVerif.XTags
open EzdxfVerif.Gen.StorageTables

/-! ## shape of the items found by `parseItems` -/

/-- a closed application-data group: start tag, content without a closing tag, closing tag -/
def GroupShape (g : List Tag) : Prop :=
  ∃ st mid c, g = st :: (mid ++ [c]) ∧ isAppStart st = true ∧ isAppClose st c = true ∧ ∀ t ∈ mid, isAppClose st t = false

def ItemShape (hc : Nat) : Item → Prop
  | .handle t => t.code = hc
  | .owner t => t.code = 330 ∧ hc ≠ 330
  | .group g => GroupShape g

/-- the rest starts at an end-of-class tag -/
def HeadEnd (rest : List Tag) : Prop := rest = [] ∨ ∃ h tl, rest = h :: tl ∧ isEndOfClass h = true

theorem isAppStart_code {t : Tag} (h : isAppStart t = true) : t.code = 102 := by
  simp only [isAppStart, Bool.and_eq_true, beq_iff_eq] at h; exact h.1

theorem isEndOfClass_code {t : Tag} (h : isEndOfClass t = true) : t.code = 100 ∨ t.code = 101 ∨ t.code = 1001 := by
  simp only [isEndOfClass, isEO, Bool.or_eq_true, Bool.and_eq_true, beq_iff_eq] at h
  rcases h with (h | h) | h
  · exact Or.inl h
  · exact Or.inr (Or.inl h.1)
  · exact Or.inr (Or.inr h)

/-- generalised statement about `parseItems`: with a pending group `(st, g)` the first item is the completed group -/
theorem parseItems_shape (hc : Nat) (ts : List Tag) (cur : Option (Tag × List Tag)) (items : List Item) (rest : List Tag)
    (h : parseItems hc ts cur = some (items, rest)) :
    HeadEnd rest ∧
    (match cur with
     | none => ∀ i ∈ items, ItemShape hc i
     | some (st, g) => ∃ mid c is', items = .group (g ++ mid ++ [c]) :: is' ∧ isAppClose st c = true
         ∧ (∀ t ∈ mid, isAppClose st t = false) ∧ ∀ i ∈ is', ItemShape hc i) := by
  induction ts generalizing cur items rest with
  | nil =>
    cases cur with
    | none => simp only [parseItems, Option.some.injEq, Prod.mk.injEq] at h; obtain ⟨rfl, rfl⟩ := h; exact ⟨Or.inl rfl, by simp⟩
    | some p => simp [parseItems] at h
  | cons t r ih =>
    cases cur with
    | some p =>
      obtain ⟨st, g⟩ := p
      simp only [parseItems] at h
      split at h
      · rename_i hclose
        split at h
        · rename_i is rest' hp
          simp only [Option.some.injEq, Prod.mk.injEq] at h
          obtain ⟨rfl, rfl⟩ := h
          have := ih none is rest' hp
          exact ⟨this.1, [], t, is, by simp, hclose, by simp, this.2⟩
        · cases h
      · rename_i hclose
        have := ih (some (st, g ++ [t])) items rest h
        obtain ⟨he, mid, c, is', hi, hc', hm, hs⟩ := this
        refine ⟨he, t :: mid, c, is', by simp [hi], hc', ?_, hs⟩
        intro x hx
        simp only [List.mem_cons] at hx
        rcases hx with rfl | hx
        · simpa using hclose
        · exact hm x hx
    | none =>
      simp only [parseItems] at h
      split at h
      · rename_i hstart
        have := ih (some (t, [t])) items rest h
        obtain ⟨he, mid, c, is', hi, hc', hm, hs⟩ := this
        refine ⟨he, ?_⟩
        intro i hi'
        rw [hi] at hi'
        simp only [List.mem_cons] at hi'
        rcases hi' with rfl | hi'
        · exact ⟨t, mid, c, by simp, hstart, hc', hm⟩
        · exact hs i hi'
      · split at h
        · rename_i hend
          simp only [Option.some.injEq, Prod.mk.injEq] at h
          obtain ⟨rfl, rfl⟩ := h
          exact ⟨Or.inr ⟨t, r, rfl, hend⟩, by simp⟩
        · split at h
          · rename_i hcode
            split at h
            · rename_i is rest' hp
              simp only [Option.some.injEq, Prod.mk.injEq] at h
              obtain ⟨rfl, rfl⟩ := h
              have := ih none is rest' hp
              refine ⟨this.1, ?_⟩
              intro i hi
              simp only [List.mem_cons] at hi
              rcases hi with rfl | hi
              · simpa [ItemShape] using hcode
              · exact this.2 i hi
            · cases h
          · rename_i hcode
            split at h
            · rename_i hown
              split at h
              · rename_i is rest' hp
                simp only [Option.some.injEq, Prod.mk.injEq] at h
                obtain ⟨rfl, rfl⟩ := h
                have := ih none is rest' hp
                refine ⟨this.1, ?_⟩
                intro i hi
                simp only [List.mem_cons] at hi
                rcases hi with rfl | hi
                · simp only [beq_iff_eq] at hown hcode
                  exact ⟨hown, fun e => hcode (by rw [hown, e])⟩
                · exact this.2 i hi
              · cases h
            · cases h

/-! ## `collect_base_class` computes the items: placeholders for groups, groups in `appdata` -/

/-- the base class `collectBase` builds for the items: group `k` becomes the placeholder (102, k) -/
def encode (n : Nat) : List Item → List Tag
  | [] => []
  | .handle t :: is => t :: encode n is
  | .owner t :: is => t :: encode n is
  | .group _ :: is => ⟨102, .ref n⟩ :: encode (n + 1) is

def groupsOf : List Item → List (List Tag)
  | [] => []
  | .group g :: is => g :: groupsOf is
  | _ :: is => groupsOf is

theorem parseItems_collectBase (hc : Nat) (ts : List Tag) (cur : Option (Tag × List Tag)) (items : List Item)
    (rest : List Tag) (b : List Tag) (a : List (List Tag))
    (h : parseItems hc ts cur = some (items, rest)) :
    match cur with
    | none => collectBase ts b a none = some (b ++ encode a.length items, a ++ groupsOf items, rest)
    | some (st, g) => ∃ g' is', items = .group g' :: is' ∧
        collectBase ts b a (some (st, g)) = some (b ++ encode (a.length + 1) is', a ++ g' :: groupsOf is', rest) := by
  induction ts generalizing cur items rest b a with
  | nil =>
    cases cur with
    | none =>
      simp only [parseItems, Option.some.injEq, Prod.mk.injEq] at h; obtain ⟨rfl, rfl⟩ := h
      simp [collectBase, encode, groupsOf]
    | some p => simp [parseItems] at h
  | cons t r ih =>
    cases cur with
    | some p =>
      obtain ⟨st, g⟩ := p
      simp only [parseItems] at h
      split at h
      · rename_i hclose
        split at h
        · rename_i is rest' hp
          simp only [Option.some.injEq, Prod.mk.injEq] at h
          obtain ⟨rfl, rfl⟩ := h
          have := ih none is rest' b (a ++ [g ++ [t]]) hp
          simp only at this
          refine ⟨g ++ [t], is, rfl, ?_⟩
          simp only [collectBase, hclose, if_true, this]
          simp
        · cases h
      · rename_i hclose
        have := ih (some (st, g ++ [t])) items rest b a h
        obtain ⟨g', is', hi, hc'⟩ := this
        refine ⟨g', is', hi, ?_⟩
        simp only [collectBase, hclose]
        exact hc'
    | none =>
      simp only [parseItems] at h
      split at h
      · rename_i hstart
        have := ih (some (t, [t])) items rest (b ++ [⟨t.code, .ref a.length⟩]) a h
        obtain ⟨g', is', hi, hc'⟩ := this
        simp only [collectBase, hstart, if_true, hi, encode, groupsOf]
        rw [hc', isAppStart_code hstart]
        simp
      · rename_i hstart
        split at h
        · rename_i hend
          simp only [Option.some.injEq, Prod.mk.injEq] at h
          obtain ⟨rfl, rfl⟩ := h
          simp [collectBase, hstart, hend, encode, groupsOf]
        · rename_i hend
          split at h
          · split at h
            · rename_i is rest' hp
              simp only [Option.some.injEq, Prod.mk.injEq] at h
              obtain ⟨rfl, rfl⟩ := h
              have := ih none is rest' (b ++ [t]) a hp
              simp only at this
              simp [collectBase, hstart, hend, this, encode, groupsOf]
            · cases h
          · split at h
            · split at h
              · rename_i is rest' hp
                simp only [Option.some.injEq, Prod.mk.injEq] at h
                obtain ⟨rfl, rfl⟩ := h
                have := ih none is rest' (b ++ [t]) a hp
                simp only at this
                simp [collectBase, hstart, hend, this, encode, groupsOf]
              · cases h
            · cases h

/-! ## the part after the base class -/

theorem collectGroups_flatten (s p : Tag → Bool) (ts : List Tag) :
    (collectGroups s p ts).1.flatten ++ (collectGroups s p ts).2 = ts := by
  fun_induction collectGroups s p ts with
  | case1 => rfl
  | case2 t r hs g ih =>
    simp only [List.flatten_cons, List.cons_append, List.append_assoc, g, ih,
      List.takeWhile_append_dropWhile]
  | case3 t r hs => rfl

/-- what `collectGroups` leaves over is empty, or starts with a tag that is no start tag and is either the untouched input or
    a stop tag -/
theorem collectGroups_rem (s p : Tag → Bool) (ts : List Tag) :
    (collectGroups s p ts).2 = [] ∨
      ∃ h tl, (collectGroups s p ts).2 = h :: tl ∧ s h = false ∧ ((collectGroups s p ts).2 = ts ∨ p h = true) := by
  fun_induction collectGroups s p ts with
  | case1 => exact Or.inl rfl
  | case2 t r hs g ih =>
    simp only [g]
    rcases ih with ih | ⟨h, tl, h1, h2, h3⟩
    · exact Or.inl ih
    · refine Or.inr ⟨h, tl, h1, h2, Or.inr ?_⟩
      rcases h3 with h3 | h3
      · -- remainder = dropWhile (not stop) r, so its head is a stop tag
        rw [h3] at h1
        have := List.head?_dropWhile_not (fun x => !p x) r
        rw [h1] at this
        simpa using this
      · exact h3
  | case3 t r hs =>
    refine Or.inr ⟨t, r, rfl, ?_, Or.inl rfl⟩
    simpa using hs

theorem collectGroups_nonempty (s p : Tag → Bool) (ts : List Tag) :
    ∀ g ∈ (collectGroups s p ts).1, ∃ t r, g = t :: r ∧ s t = true := by
  fun_induction collectGroups s p ts with
  | case1 => simp
  | case2 t r hs g ih =>
    intro x hx
    simp only [List.mem_cons] at hx
    rcases hx with rfl | hx
    · exact ⟨t, _, rfl, hs⟩
    · exact ih x hx
  | case3 t r hs => simp

/-- after subclasses, embedded objects and XDATA nothing is left, when the rest starts at an end-of-class tag -/
theorem rest_consumed (rest : List Tag) (h : HeadEnd rest) :
    let subs := collectGroups (fun t => t.code == 100) isEndOfClass rest
    let emb := collectGroups isEO (fun t => isEO t || t.code == 1001) subs.2
    (collectGroups (fun t => t.code == 1001) (fun t => t.code == 1001) emb.2).2 = [] := by
  intro subs emb
  -- head of subs.2: an end-of-class tag that is no subclass marker
  have h2 : subs.2 = [] ∨ ∃ x tl, subs.2 = x :: tl ∧ (isEO x = true ∨ x.code = 1001) := by
    rcases collectGroups_rem (fun t => t.code == 100) isEndOfClass rest with e | ⟨x, tl, e1, e2, e3⟩
    · exact Or.inl e
    · refine Or.inr ⟨x, tl, e1, ?_⟩
      have hx : isEndOfClass x = true := by
        rcases e3 with e3 | e3
        · have e4 := e3.symm.trans e1
          rcases h with h | ⟨y, tl', hy, hy'⟩
          · rw [h] at e4; cases e4
          · rw [hy] at e4; cases e4; exact hy'
        · exact e3
      simp only [beq_eq_false_iff_ne, ne_eq] at e2
      simp only [isEndOfClass, Bool.or_eq_true, beq_iff_eq] at hx
      rcases hx with (hx | hx) | hx
      · exact absurd hx e2
      · exact Or.inl hx
      · exact Or.inr hx
  have h3 : emb.2 = [] ∨ ∃ x tl, emb.2 = x :: tl ∧ x.code = 1001 := by
    rcases collectGroups_rem isEO (fun t => isEO t || t.code == 1001) subs.2 with e | ⟨x, tl, e1, e2, e3⟩
    · exact Or.inl e
    · refine Or.inr ⟨x, tl, e1, ?_⟩
      rcases e3 with e3 | e3
      · have e4 := e3.symm.trans e1
        rcases h2 with h2 | ⟨y, tl', hy, hy'⟩
        · rw [h2] at e4; cases e4
        · rw [hy] at e4; cases e4
          rcases hy' with hy' | hy'
          · rw [hy'] at e2; cases e2
          · exact hy'
      · simp only [Bool.or_eq_true, beq_iff_eq] at e3
        rcases e3 with e3 | e3
        · rw [e3] at e2; cases e2
        · exact e3
  rcases collectGroups_rem (fun t => t.code == 1001) (fun t => t.code == 1001) emb.2 with e | ⟨x, tl, e1, e2, e3⟩
  · exact e
  · exfalso
    simp only [beq_eq_false_iff_ne, ne_eq] at e2
    rcases e3 with e3 | e3
    · have e4 := e3.symm.trans e1
      rcases h3 with h3 | ⟨y, tl', hy, hy'⟩
      · rw [h3] at e4; cases e4
      · rw [hy] at e4; cases e4; exact e2 hy'
    · simp only [beq_iff_eq] at e3; exact e2 e3

/-! ## dict and set containers -/

theorem nodupV_iff (l : List V) : nodupV l = true ↔ l.Nodup := by
  induction l with
  | nil => simp [nodupV]
  | cons a r ih => simp [nodupV, List.nodup_cons, ih]

theorem nodupN_iff (l : List Nat) : nodupN l = true ↔ l.Nodup := by
  induction l with
  | nil => simp [nodupN]
  | cons a r ih => simp [nodupN, List.nodup_cons, ih]

theorem dictSet_fresh {β : Type} (d : List (V × β)) (k : V) (v : β) (h : k ∉ d.map (·.1)) :
    dictSet d k v = d ++ [(k, v)] := by
  unfold dictSet
  have : d.any (fun p => p.1 == k) = false := by
    rw [Bool.eq_false_iff]
    intro hc
    rw [List.any_eq_true] at hc
    obtain ⟨x, hx, hk⟩ := hc
    simp only [beq_iff_eq] at hk
    exact h (by rw [← hk]; exact List.mem_map_of_mem hx)
  simp [this]

theorem dedup_of_nodup_map (f : V → Nat) (l : List V) (h : (l.map f).Nodup) : dedup l = l := by
  induction l with
  | nil => rfl
  | cons a r ih =>
    simp only [List.map_cons, List.nodup_cons] at h
    simp only [dedup, ih h.2]
    congr 1
    rw [List.filter_eq_self]
    intro b hb
    simp only [bne_iff_ne, ne_eq]
    intro e
    subst e
    exact h.1 (List.mem_map_of_mem hb)

theorem xdataLoad_spec (gs : List (List Tag)) (d : List (V × List Tag))
    (hne : ∀ g ∈ gs, ∃ t r, g = t :: r) (hv : ∀ g ∈ gs, g.all validX = true)
    (hk : (d.map (·.1) ++ gs.map groupKey).Nodup) :
    xdataLoad gs d = d ++ gs.map (fun g => (groupKey g, g)) := by
  induction gs generalizing d with
  | nil => simp [xdataLoad]
  | cons g r ih =>
    obtain ⟨t, tl, rfl⟩ := hne _ (List.mem_cons_self)
    have hf : (t :: tl).filter validX = t :: tl := by
      rw [List.filter_eq_self]
      have := hv _ (List.mem_cons_self)
      rw [List.all_eq_true] at this
      exact this
    simp only [xdataLoad, hf]
    have hfresh : t.val ∉ d.map (·.1) := by
      intro hm
      rw [List.nodup_append] at hk
      exact hk.2.2 _ hm _ (by simp [groupKey]) rfl
    rw [dictSet_fresh d t.val (t :: tl) hfresh]
    rw [ih (d ++ [(t.val, t :: tl)]) (fun g hg => hne g (List.mem_cons_of_mem _ hg))
      (fun g hg => hv g (List.mem_cons_of_mem _ hg))
      (by simpa [groupKey, List.append_assoc] using hk)]
    simp [groupKey]

theorem xdata_flatten (gs : List (List Tag)) (hv : ∀ g ∈ gs, g.all validX = true) :
    ((gs.map (fun g => (groupKey g, g))).map (fun p => p.2.filter validX)).flatten = gs.flatten := by
  induction gs with
  | nil => rfl
  | cons g r ih =>
    have hf : g.filter validX = g := by
      rw [List.filter_eq_self]
      have := hv _ (List.mem_cons_self)
      rw [List.all_eq_true] at this
      exact this
    simp only [List.map_cons, List.flatten_cons, hf]
    rw [ih (fun g hg => hv g (List.mem_cons_of_mem _ hg))]

/-! ## `setup_app_data` on the groups of well-formed items -/

def othersOf : List Item → List (V × List Tag)
  | [] => []
  | i :: is => if i.kind == .appdata then (groupKey i.tags, i.tags) :: othersOf is else othersOf is

def xdictOf : List Item → Option V
  | [] => none
  | i :: is =>
    if i.kind == .xdict then (match i.tags with | [_, h, _] => some h.val | _ => none) else xdictOf is

def reactorsOf : List Item → Option (List V)
  | [] => none
  | i :: is => if i.kind == .reactors then some ((groupBody i.tags).map (·.val)) else reactorsOf is

theorem countKind_cons (k : BasePart) (i : Item) (is : List Item) :
    countKind k (i :: is) = (if i.kind == k then 1 else 0) + countKind k is := by
  simp only [countKind, List.filter_cons]
  split <;> simp <;> omega

theorem groupBody_shape (st : Tag) (mid : List Tag) (c : Tag) : groupBody (st :: (mid ++ [c])) = mid := by
  simp [groupBody]

theorem kind_group (g : List Tag) :
    (Item.group g).kind = (if groupKey g == .str acadReactors then BasePart.reactors
      else if groupKey g == .str acadXDictionary then .xdict else .appdata) := rfl

theorem kind_of_shape (st : Tag) (r : List Tag) :
    (Item.group (st :: r)).kind = (if st.val == .str acadReactors then BasePart.reactors
      else if st.val == .str acadXDictionary then .xdict else .appdata) := rfl

theorem getLast_shape (st : Tag) (mid : List Tag) (c : Tag) : (st :: (mid ++ [c])).getLast? = some c := by
  rw [show st :: (mid ++ [c]) = (st :: mid) ++ [c] from rfl, List.getLast?_append]; simp

theorem reactorVals_valid (vs : List V) (h : ∀ v ∈ vs, (hexKeyV v).isSome = true) : reactorVals vs = vs := by
  unfold reactorVals
  split
  · rw [List.filter_eq_self]; exact h
  · rfl

theorem setupApp_spec (alive : V → Bool) (hc : Nat) (items : List Item) (ad : AD)
    (hs : ∀ i ∈ items, ItemShape hc i) (hw : items.all (itemWF alive) = true)
    (hk : (ad.appdata.map (·.1) ++ (othersOf items).map (·.1)).Nodup)
    (hx : countKind .xdict items ≤ 1) (hx' : ad.xdict.isSome = true → countKind .xdict items = 0)
    (hr : countKind .reactors items ≤ 1) (hr' : ad.reactors.isSome = true → countKind .reactors items = 0) :
    setupApp (groupsOf items) ad
      = .ok ⟨ad.appdata ++ othersOf items, ad.xdict.or (xdictOf items), ad.reactors.or (reactorsOf items)⟩ := by
  induction items generalizing ad with
  | nil => simp [groupsOf, setupApp, othersOf, xdictOf, reactorsOf]
  | cons i is ih =>
    have hs' : ∀ j ∈ is, ItemShape hc j := fun j hj => hs j (List.mem_cons_of_mem _ hj)
    have hwi : itemWF alive i = true := by
      rw [List.all_eq_true] at hw; exact hw i List.mem_cons_self
    have hw' : is.all (itemWF alive) = true := by
      rw [List.all_eq_true] at hw ⊢; exact fun j hj => hw j (List.mem_cons_of_mem _ hj)
    rw [countKind_cons] at hx hr hx' hr'
    cases i with
    | handle t =>
      simp only [Item.kind] at hx hr hx' hr'
      have := ih ad hs' hw' (by simpa [othersOf, Item.kind] using hk) (by simpa using hx) (by simpa using hx')
        (by simpa using hr) (by simpa using hr')
      simpa [groupsOf, othersOf, xdictOf, reactorsOf, Item.kind] using this
    | owner t =>
      simp only [Item.kind] at hx hr hx' hr'
      have := ih ad hs' hw' (by simpa [othersOf, Item.kind] using hk) (by simpa using hx) (by simpa using hx')
        (by simpa using hr) (by simpa using hr')
      simpa [groupsOf, othersOf, xdictOf, reactorsOf, Item.kind] using this
    | group g =>
      obtain ⟨st, mid, c, rfl, hst, hcl, hmid⟩ := hs _ List.mem_cons_self
      simp only [itemWF, groupWF, Bool.and_eq_true, getLast_shape, groupBody_shape,
        show groupKey (st :: (mid ++ [c])) = st.val from rfl] at hwi
      obtain ⟨hlast, hwg⟩ := hwi
      have hc' : c = closeBrace := by simpa using hlast
      simp only [groupsOf, setupApp]
      by_cases hre : st.val = .str acadReactors
      · -- reactors group
        have hkind : (Item.group (st :: (mid ++ [c]))).kind = .reactors := by
          rw [kind_of_shape]; simp [hre]
        simp only [hkind, beq_self_eq_true, if_true] at hx hr hx' hr'
        have hx2 : ((BasePart.reactors == BasePart.xdict) = true) = False := by decide
        simp only [hx2, if_false, Nat.zero_add] at hx hx'
        have hcnt : countKind .reactors is = 0 := by omega
        have hnone : ad.reactors = none := by
          cases hh : ad.reactors with
          | none => rfl
          | some v => have := hr' (by simp [hh]); omega
        simp only [hre, beq_self_eq_true, if_true, Bool.and_eq_true] at hwg
        obtain ⟨⟨hall, hnd⟩, hne⟩ := hwg
        have hdd : dedup (mid.map (·.val)) = mid.map (·.val) := by
          apply dedup_of_nodup_map (fun v => (hexKeyV v).getD 0)
          rw [nodupN_iff] at hnd
          rw [List.map_map]
          exact hnd
        have hvalid : reactorVals (mid.map (·.val)) = mid.map (·.val) := by
          apply reactorVals_valid
          intro v hv
          obtain ⟨t, ht, rfl⟩ := List.mem_map.mp hv
          have := List.all_eq_true.mp hall t ht
          simp only [Bool.and_eq_true] at this
          exact this.2
        have hstep : setupAppStep ad (st :: (mid ++ [c]))
            = .ok { ad with reactors := some (mid.map (·.val)) } := by
          simp only [setupAppStep, hre, beq_self_eq_true, if_true, List.dropLast_concat, hvalid, hdd]
        rw [hstep]
        simp only
        have := ih { ad with reactors := some (mid.map (·.val)) } hs' hw'
          (by simpa [othersOf, hkind] using hk) hx hx' (by omega) (fun _ => hcnt)
        rw [this]
        simp [othersOf, xdictOf, reactorsOf, hkind, hnone, Item.tags, groupBody_shape]
      · by_cases hxd : st.val = .str acadXDictionary
        · -- extension dictionary group
          have hne : ¬ (acadXDictionary = acadReactors) := by decide
          have hkind : (Item.group (st :: (mid ++ [c]))).kind = .xdict := by
            rw [kind_of_shape]; simp [hxd, hne]
          simp only [hkind, beq_self_eq_true, if_true] at hx hr hx' hr'
          have hx2 : ((BasePart.xdict == BasePart.reactors) = true) = False := by decide
          simp only [hx2, if_false, Nat.zero_add] at hr hr'
          have hcnt : countKind .xdict is = 0 := by omega
          have hnone : ad.xdict = none := by
            cases hh : ad.xdict with
            | none => rfl
            | some v => have := hx' (by simp [hh]); omega
          simp only [hxd, V.str.injEq, hne, beq_iff_eq, if_false, if_true] at hwg
          -- the group has exactly three tags
          match mid, hwg with
          | [h], hwg =>
            simp only [List.cons_append, List.nil_append, Bool.and_eq_true, beq_iff_eq] at hwg
            have hkind' : (Item.group [st, h, c]).kind = .xdict := hkind
            have hstep : setupAppStep ad (st :: ([h] ++ [c])) = .ok { ad with xdict := some h.val } := by
              simp [setupAppStep, hxd, hne, hwg.1]
            rw [hstep]
            simp only
            have := ih { ad with xdict := some h.val } hs' hw'
              (by simpa [othersOf, hkind'] using hk) (by omega) (fun _ => hcnt) hr hr'
            rw [this]
            simp [othersOf, xdictOf, reactorsOf, hkind', hnone, Item.tags]
          | [], hwg => simp at hwg
          | _ :: _ :: _, hwg => simp at hwg
        · -- other application data
          have hkind : (Item.group (st :: (mid ++ [c]))).kind = .appdata := by
            rw [kind_of_shape]; simp [hre, hxd]
          simp only [hkind] at hx hr hx' hr'
          have hx2 : ((BasePart.appdata == BasePart.reactors) = true) = False := by decide
          have hx3 : ((BasePart.appdata == BasePart.xdict) = true) = False := by decide
          simp only [hx2, hx3, if_false, Nat.zero_add] at hx hr hx' hr'
          have hstep : setupAppStep ad (st :: (mid ++ [c]))
              = .ok { ad with appdata := dictSet ad.appdata st.val (st :: (mid ++ [c])) } := by
            simp only [setupAppStep, beq_iff_eq, hre, hxd, if_false, getLast_shape, hc', if_true]
          rw [hstep]
          simp only
          have hfresh : st.val ∉ ad.appdata.map (·.1) := by
            intro hm
            rw [List.nodup_append] at hk
            exact hk.2.2 _ hm _ (by simp [othersOf, hkind, Item.tags, groupKey]) rfl
          rw [dictSet_fresh _ _ _ hfresh]
          have := ih { ad with appdata := ad.appdata ++ [(st.val, st :: (mid ++ [c]))] } hs' hw'
            (by simpa [othersOf, hkind, Item.tags, groupKey, List.append_assoc] using hk) hx hx' hr hr'
          rw [this]
          simp [othersOf, xdictOf, reactorsOf, hkind, Item.tags, groupKey]

/-! ## the handle / owner scan of `DXFNamespace.__init__` -/

def hOf : List Item → Option V
  | [] => none
  | .handle t :: _ => some t.val
  | _ :: is => hOf is

def oOf : List Item → Option V
  | [] => none
  | .owner t :: _ => some t.val
  | _ :: is => oOf is

theorem hcOf_cases (v : V) : hcOf v = 5 ∨ hcOf v = 105 := by
  unfold hcOf; split <;> simp

theorem scanHO_spec (hc n : Nat) (items : List Item) (h o : Option V) (hs : ∀ i ∈ items, ItemShape hc i)
    (hc2 : hc ≠ 102)
    (hh : countKind .handle items + (if h.isSome then 1 else 0) = 1)
    (ho : countKind .owner items + (if o.isSome then 1 else 0) = 1) :
    scanHO hc (encode n items) h o = (h.or (hOf items), o.or (oOf items)) := by
  induction items generalizing n h o with
  | nil => simp [encode, scanHO, hOf, oOf]
  | cons i is ih =>
    have hs' : ∀ j ∈ is, ItemShape hc j := fun j hj => hs j (List.mem_cons_of_mem _ hj)
    rw [countKind_cons] at hh ho
    cases i with
    | handle t =>
      have hcode : t.code = hc := hs _ List.mem_cons_self
      simp only [Item.kind, beq_self_eq_true, if_true] at hh
      have hx2 : ((BasePart.handle == BasePart.owner) = true) = False := by decide
      simp only [Item.kind, hx2, if_false, Nat.zero_add] at ho
      have hnone : h = none := by
        cases h with
        | none => rfl
        | some v => simp at hh <;> omega
      subst hnone
      simp only [encode, scanHO, hcode, beq_self_eq_true, if_true]
      split
      · rename_i htr
        cases o with
        | none => simp [optTruthy] at htr
        | some ov => simp [hOf]
      · rw [ih n (some t.val) o hs' (by simp; omega) ho]
        simp [hOf, oOf]
    | owner t =>
      obtain ⟨hcode, hne⟩ := hs _ List.mem_cons_self
      simp only [Item.kind, beq_self_eq_true, if_true] at ho
      have hx2 : ((BasePart.owner == BasePart.handle) = true) = False := by decide
      simp only [Item.kind, hx2, if_false, Nat.zero_add] at hh
      have hnone : o = none := by
        cases o with
        | none => rfl
        | some v => simp at ho <;> omega
      subst hnone
      have hne' : ((330 : Nat) == hc) = false := by
        rw [beq_eq_false_iff_ne]; exact fun e => hne e.symm
      simp only [encode, scanHO, hcode, hne', beq_self_eq_true, if_true, Bool.false_eq_true, if_false]
      split
      · rename_i htr
        cases h with
        | none => simp [optTruthy] at htr
        | some hv => simp [oOf]
      · rw [ih n h (some t.val) hs' hh (by simp; omega)]
        simp [oOf, hOf]
    | group g =>
      have e1 : ((Item.group g).kind == BasePart.handle) = false := by
        rw [kind_group]; split <;> (try split) <;> decide
      have e2 : ((Item.group g).kind == BasePart.owner) = false := by
        rw [kind_group]; split <;> (try split) <;> decide
      simp only [e1, e2, Bool.false_eq_true, if_false, Nat.zero_add] at hh ho
      have h1 : ((102 : Nat) == hc) = false := by
        rw [beq_eq_false_iff_ne]; exact fun e => hc2 e.symm
      simp only [encode, scanHO, h1, Bool.false_eq_true, if_false]
      have h2 : ((102 : Nat) == 330) = false := by decide
      simp only [h2, Bool.false_eq_true, if_false]
      rw [ih (n + 1) h o hs' hh ho]
      simp [hOf, oOf]

/-! ## sorting -/

theorem sortedLE_tail' (a : Nat) (l : List Nat) (h : sortedLE (a :: l) = true) : sortedLE l = true := by
  cases l with
  | nil => rfl
  | cons b r => simp only [sortedLE, Bool.and_eq_true] at h; exact h.2

theorem mem_insertBy {α : Type} (k : α → Nat) (a x : α) (l : List α) : x ∈ insertBy k a l ↔ x = a ∨ x ∈ l := by
  induction l with
  | nil => simp [insertBy]
  | cons b r ih =>
    simp only [insertBy]
    split
    · simp
    · simp only [List.mem_cons, ih]
      constructor
      · rintro (h | h | h) <;> simp [h]
      · rintro (h | h | h) <;> simp [h]

theorem mem_isort {α : Type} (k : α → Nat) (x : α) (l : List α) : x ∈ isort k l ↔ x ∈ l := by
  induction l with
  | nil => simp [isort]
  | cons a r ih => simp [isort, mem_insertBy, ih]

theorem insertBy_map {α β : Type} (k : β → Nat) (f : α → β) (a : α) (l : List α) :
    insertBy k (f a) (l.map f) = (insertBy (fun x => k (f x)) a l).map f := by
  induction l with
  | nil => rfl
  | cons b r ih =>
    simp only [List.map_cons, insertBy]
    split
    · rfl
    · simp [ih]

theorem isort_map {α β : Type} (k : β → Nat) (f : α → β) (l : List α) :
    isort k (l.map f) = (isort (fun x => k (f x)) l).map f := by
  induction l with
  | nil => rfl
  | cons a r ih => simp only [List.map_cons, isort, ih, insertBy_map]

theorem insertBy_perm {α : Type} (k : α → Nat) (a : α) (l : List α) : (insertBy k a l).Perm (a :: l) := by
  induction l with
  | nil => exact List.Perm.refl _
  | cons b r ih =>
    simp only [insertBy]
    split
    · exact List.Perm.refl _
    · exact (List.Perm.cons b ih).trans (List.Perm.swap a b r)

theorem isort_perm {α : Type} (k : α → Nat) (l : List α) : (isort k l).Perm l := by
  induction l with
  | nil => exact List.Perm.refl _
  | cons a r ih => exact (insertBy_perm k a _).trans (List.Perm.cons a ih)

/-- sorting a strictly ascending list changes nothing -/
theorem isort_ascending {α : Type} (k : α → Nat) (l : List α) (h : ascending (l.map k) = true) : isort k l = l := by
  induction l with
  | nil => rfl
  | cons a r ih =>
    cases r with
    | nil => rfl
    | cons b r' =>
      simp only [List.map_cons, ascending, Bool.and_eq_true, decide_eq_true_eq] at h
      have := ih (by simpa [ascending] using h.2)
      simp only [isort] at this ⊢
      rw [this]
      simp [insertBy, h.1]

theorem insertBy_sorted {α : Type} (k : α → Nat) (a : α) (l : List α) (h : sortedLE (l.map k) = true) :
    sortedLE ((insertBy k a l).map k) = true := by
  induction l with
  | nil => rfl
  | cons b r ih =>
    simp only [insertBy]
    split
    · rename_i hlt
      simp only [List.map_cons, sortedLE, Bool.and_eq_true, decide_eq_true_eq]
      exact ⟨Nat.le_of_lt hlt, by simpa using h⟩
    · rename_i hge
      have hr : sortedLE (r.map k) = true := sortedLE_tail' _ _ (by simpa using h)
      have ih' := ih hr
      cases r with
      | nil =>
        simp only [insertBy, List.map_cons, List.map_nil, sortedLE, Bool.and_eq_true, decide_eq_true_eq]
        exact ⟨by omega, trivial⟩
      | cons c r' =>
        simp only [insertBy] at ih' ⊢
        split
        · rename_i h2
          simp only [h2, if_true] at ih'
          simp only [List.map_cons, sortedLE, Bool.and_eq_true, decide_eq_true_eq] at ih' h ⊢
          exact ⟨by omega, ih'⟩
        · rename_i h2
          simp only [h2, if_false] at ih'
          simp only [List.map_cons, sortedLE, Bool.and_eq_true, decide_eq_true_eq] at ih' h ⊢
          exact ⟨h.1, ih'⟩

theorem isort_sorted {α : Type} (k : α → Nat) (l : List α) : sortedLE ((isort k l).map k) = true := by
  induction l with
  | nil => rfl
  | cons a r ih => exact insertBy_sorted k a _ ih

theorem ascending_of_sorted_nodup (l : List Nat) (h : sortedLE l = true) (hn : l.Nodup) : ascending l = true := by
  induction l with
  | nil => rfl
  | cons a r ih =>
    cases r with
    | nil => rfl
    | cons b r' =>
      simp only [sortedLE, Bool.and_eq_true, decide_eq_true_eq] at h
      simp only [ascending, Bool.and_eq_true, decide_eq_true_eq]
      rw [List.nodup_cons] at hn
      refine ⟨?_, ih h.2 hn.2⟩
      have : a ≠ b := fun e => hn.1 (by simp [e])
      omega

theorem isort_strict {α : Type} (k : α → Nat) (l : List α) (hn : (l.map k).Nodup) :
    ascending ((isort k l).map k) = true :=
  ascending_of_sorted_nodup _ (isort_sorted k l) ((((isort_perm k l).map k).nodup_iff).mpr hn)

/-! ## the exported base class is the canonical arrangement of the items -/

theorem ofKind_cons (k : BasePart) (i : Item) (is : List Item) :
    ofKind k (i :: is) = (if i.kind == k then i.normTags else []) ++ ofKind k is := by
  simp only [ofKind, List.filter_cons]
  split <;> simp

theorem ofKind_zero (k : BasePart) (items : List Item) (h : countKind k items = 0) : ofKind k items = [] := by
  simp only [countKind, List.length_eq_zero_iff] at h
  simp [ofKind, h]

theorem ofKind_appdata (items : List Item) :
    ofKind .appdata items = ((othersOf items).map (·.2)).flatten := by
  induction items with
  | nil => rfl
  | cons i is ih =>
    rw [ofKind_cons, othersOf]
    by_cases h : i.kind = .appdata
    · have : i.normTags = i.tags := by
        simp [Item.normTags, h]
      simp [h, this, ih]
    · simp [h, ih]

theorem tag_eta (t : Tag) : (⟨t.code, t.val⟩ : Tag) = t := by cases t; rfl

theorem ofKind_xdict (alive : V → Bool) (hc : Nat) (items : List Item)
    (hs : ∀ i ∈ items, ItemShape hc i) (hw : items.all (itemWF alive) = true)
    (hx : countKind .xdict items ≤ 1) :
    ofKind .xdict items = xdictOut alive (xdictOf items) := by
  induction items with
  | nil => rfl
  | cons i is ih =>
    have hs' : ∀ j ∈ is, ItemShape hc j := fun j hj => hs j (List.mem_cons_of_mem _ hj)
    have hwi : itemWF alive i = true := by
      rw [List.all_eq_true] at hw; exact hw i List.mem_cons_self
    have hw' : is.all (itemWF alive) = true := by
      rw [List.all_eq_true] at hw ⊢; exact fun j hj => hw j (List.mem_cons_of_mem _ hj)
    rw [countKind_cons] at hx
    rw [ofKind_cons, xdictOf]
    by_cases hk : i.kind = .xdict
    · simp only [hk, beq_self_eq_true, if_true] at hx ⊢
      rw [ofKind_zero _ _ (by omega)]
      cases i with
      | handle t => simp [Item.kind] at hk
      | owner t => simp [Item.kind] at hk
      | group g =>
        obtain ⟨st, mid, c, rfl, hst, hcl, hmid⟩ := hs _ List.mem_cons_self
        rw [kind_of_shape] at hk
        have hre : ¬ st.val = .str acadReactors := by
          intro e; simp [e] at hk
        have hxd : st.val = .str acadXDictionary := by
          by_cases e : st.val = .str acadXDictionary
          · exact e
          · simp [hre, e] at hk
        have hne : ¬ (acadXDictionary = acadReactors) := by decide
        simp only [itemWF, groupWF, Bool.and_eq_true, getLast_shape,
          show groupKey (st :: (mid ++ [c])) = st.val from rfl, hxd, V.str.injEq, hne, beq_iff_eq,
          if_false, if_true] at hwi
        obtain ⟨hlast, hwg⟩ := hwi
        have hc' : c = closeBrace := by simpa using hlast
        match mid, hwg with
        | [h], hwg =>
          simp only [List.cons_append, List.nil_append, Bool.and_eq_true, beq_iff_eq] at hwg
          have hn : (Item.group [st, h, c]).normTags = [st, h, c] := by
            have : (Item.group [st, h, c]).kind = .xdict := by
              rw [kind_of_shape]; simp [hxd, hne]
            simp [Item.normTags, this, Item.tags]
          have hst' : st = ⟨102, .str acadXDictionary⟩ := by
            rw [← tag_eta st, isAppStart_code hst, hxd]
          have hh : h = ⟨360, h.val⟩ := by
            rw [← tag_eta h, hwg.1]; rfl
          simp only [List.cons_append, List.nil_append, hn, Item.tags, List.append_nil, xdictOut, hwg.2, if_true]
          rw [hst', hc']
          conv => lhs; rw [hh]
          rfl
        | [], hwg => simp at hwg
        | _ :: _ :: _, hwg => simp at hwg
    · have hk' : (i.kind == BasePart.xdict) = false := by simpa using hk
      simp only [hk', Bool.false_eq_true, if_false, Nat.zero_add, List.nil_append] at hx ⊢
      exact ih hs' hw' hx

theorem ofKind_reactors (alive : V → Bool) (hc : Nat) (items : List Item)
    (hs : ∀ i ∈ items, ItemShape hc i) (hw : items.all (itemWF alive) = true)
    (hx : countKind .reactors items ≤ 1) :
    reactorsPart (reactorsOf items) = .ok (ofKind .reactors items) := by
  induction items with
  | nil => rfl
  | cons i is ih =>
    have hs' : ∀ j ∈ is, ItemShape hc j := fun j hj => hs j (List.mem_cons_of_mem _ hj)
    have hwi : itemWF alive i = true := by
      rw [List.all_eq_true] at hw; exact hw i List.mem_cons_self
    have hw' : is.all (itemWF alive) = true := by
      rw [List.all_eq_true] at hw ⊢; exact fun j hj => hw j (List.mem_cons_of_mem _ hj)
    rw [countKind_cons] at hx
    rw [ofKind_cons, reactorsOf]
    by_cases hk : i.kind = .reactors
    · simp only [hk, beq_self_eq_true, if_true] at hx ⊢
      rw [ofKind_zero _ _ (by omega)]
      cases i with
      | handle t => simp [Item.kind] at hk
      | owner t => simp [Item.kind] at hk
      | group g =>
        obtain ⟨st, mid, c, rfl, hst, hcl, hmid⟩ := hs _ List.mem_cons_self
        have hre : st.val = .str acadReactors := by
          rw [kind_of_shape] at hk
          by_cases e : st.val = .str acadReactors
          · exact e
          · exfalso; revert hk; simp only [beq_iff_eq, e, if_false]; split <;> decide
        simp only [itemWF, groupWF, Bool.and_eq_true, getLast_shape, groupBody_shape,
          show groupKey (st :: (mid ++ [c])) = st.val from rfl, hre, beq_self_eq_true, if_true] at hwi
        obtain ⟨hlast, ⟨hall, hnd⟩, hne⟩ := hwi
        have hc' : c = closeBrace := by simpa using hlast
        have hn : (Item.group (st :: (mid ++ [c]))).normTags = st :: (isort hexKeyT mid ++ [c]) := by
          simp [Item.normTags, hk, Item.tags, sortGroup, groupBody_shape, getLast_shape]
        rw [hn]
        simp only [Item.tags, groupBody_shape, List.append_nil]
        rw [List.all_eq_true] at hall
        -- the set of handles is not empty
        cases hm : mid with
        | nil => simp [hm] at hne
        | cons m1 mr =>
          rw [← hm]
          have hmap : mid.map (·.val) = m1.val :: mr.map (·.val) := by simp [hm]
          have hpart : reactorsPart (some (mid.map (·.val))) = reactorsOut (mid.map (·.val)) := by
            rw [hmap]; rfl
          rw [hpart]
          have hkeys : (mid.map (·.val)).all (fun v => (hexKeyV v).isSome) = true := by
            rw [List.all_eq_true]
            intro v hv
            obtain ⟨t, ht, rfl⟩ := List.mem_map.mp hv
            have := hall t ht
            simp only [Bool.and_eq_true] at this
            exact this.2
          simp only [reactorsOut, hkeys, if_true]
          have hst' : st = ⟨102, .str acadReactors⟩ := by
            rw [← tag_eta st, isAppStart_code hst, hre]
          have hsorted : (isort (fun v => (hexKeyV v).getD 0) (mid.map (·.val))).map (fun v => (⟨reactorHandleCode, v⟩ : Tag))
              = isort hexKeyT mid := by
            rw [isort_map (fun v => (hexKeyV v).getD 0) (·.val) mid, List.map_map]
            have : (fun x : Tag => (hexKeyV x.val).getD 0) = hexKeyT := rfl
            rw [this]
            conv => rhs; rw [← List.map_id (isort hexKeyT mid)]
            apply List.map_congr_left
            intro t ht
            rw [mem_isort] at ht
            have := hall t ht
            simp only [Bool.and_eq_true, beq_iff_eq] at this
            simp only [Function.comp, id]
            rw [← this.1]
          rw [hsorted, hst', hc']
          rfl
    · have hk' : (i.kind == BasePart.reactors) = false := by simpa using hk
      simp only [hk', Bool.false_eq_true, if_false, Nat.zero_add, List.nil_append] at hx ⊢
      exact ih hs' hw' hx

theorem ofKind_handle (hc : Nat) (items : List Item) (hs : ∀ i ∈ items, ItemShape hc i)
    (hh : countKind .handle items = 1) :
    ∃ v, hOf items = some v ∧ ofKind .handle items = [⟨hc, v⟩] := by
  induction items with
  | nil => simp [countKind] at hh
  | cons i is ih =>
    have hs' : ∀ j ∈ is, ItemShape hc j := fun j hj => hs j (List.mem_cons_of_mem _ hj)
    rw [countKind_cons] at hh
    rw [ofKind_cons]
    cases i with
    | handle t =>
      have hcode : t.code = hc := hs _ List.mem_cons_self
      simp only [Item.kind, beq_self_eq_true, if_true] at hh
      refine ⟨t.val, rfl, ?_⟩
      rw [ofKind_zero _ _ (by omega)]
      simp [Item.kind, Item.normTags, Item.tags]
      rw [← hcode]
    | owner t =>
      simp only [Item.kind] at hh
      have hx2 : ((BasePart.owner == BasePart.handle) = true) = False := by decide
      simp only [hx2, if_false, Nat.zero_add] at hh
      obtain ⟨v, h1, h2⟩ := ih hs' hh
      exact ⟨v, by simpa [hOf] using h1, by simpa [Item.kind] using h2⟩
    | group g =>
      have e1 : ((Item.group g).kind == BasePart.handle) = false := by
        rw [kind_group]; split <;> (try split) <;> decide
      simp only [e1, Bool.false_eq_true, if_false, Nat.zero_add] at hh
      obtain ⟨v, h1, h2⟩ := ih hs' hh
      exact ⟨v, by simpa [hOf] using h1, by simpa [e1] using h2⟩

theorem ofKind_owner (hc : Nat) (items : List Item) (hs : ∀ i ∈ items, ItemShape hc i)
    (hh : countKind .owner items = 1) :
    ∃ v, oOf items = some v ∧ ofKind .owner items = [⟨330, v⟩] := by
  induction items with
  | nil => simp [countKind] at hh
  | cons i is ih =>
    have hs' : ∀ j ∈ is, ItemShape hc j := fun j hj => hs j (List.mem_cons_of_mem _ hj)
    rw [countKind_cons] at hh
    rw [ofKind_cons]
    cases i with
    | owner t =>
      have hcode : t.code = 330 := (hs _ List.mem_cons_self).1
      simp only [Item.kind, beq_self_eq_true, if_true] at hh
      refine ⟨t.val, rfl, ?_⟩
      rw [ofKind_zero _ _ (by omega)]
      simp [Item.kind, Item.normTags, Item.tags]
      rw [← hcode]
    | handle t =>
      simp only [Item.kind] at hh
      have hx2 : ((BasePart.handle == BasePart.owner) = true) = False := by decide
      simp only [hx2, if_false, Nat.zero_add] at hh
      obtain ⟨v, h1, h2⟩ := ih hs' hh
      exact ⟨v, by simpa [oOf] using h1, by simpa [Item.kind] using h2⟩
    | group g =>
      have e1 : ((Item.group g).kind == BasePart.owner) = false := by
        rw [kind_group]; split <;> (try split) <;> decide
      simp only [e1, Bool.false_eq_true, if_false, Nat.zero_add] at hh
      obtain ⟨v, h1, h2⟩ := ih hs' hh
      exact ⟨v, by simpa [oOf] using h1, by simpa [e1] using h2⟩

/-! ## export (load t) = canon t -/

theorem othersOf_keys (items : List Item) :
    (othersOf items).map (·.1) = (items.filter (fun i => i.kind == .appdata)).map (fun i => groupKey i.tags) := by
  induction items with
  | nil => rfl
  | cons i is ih =>
    simp only [othersOf, List.filter_cons]
    split <;> simp [ih]

/-- the facts packed in `entityWF` -/
theorem entityWF_unpack (alive : V → Bool) (t : List Tag) (h : entityWF alive t = true) :
    ∃ t0 r items rest, t = t0 :: r ∧ t0.code = 0 ∧ strOnly t = true ∧
      parseItems (hcOf t0.val) r none = some (items, rest) ∧ itemsWF alive items = true ∧ restWF rest = true := by
  cases t with
  | nil => simp [entityWF] at h
  | cons t0 r =>
    simp only [entityWF, Bool.and_eq_true, beq_iff_eq] at h
    obtain ⟨⟨h0, hstr⟩, hm⟩ := h
    cases hp : parseItems (hcOf t0.val) r none with
    | none => rw [hp] at hm; cases hm
    | some p =>
      obtain ⟨items, rest⟩ := p
      rw [hp] at hm
      simp only [Bool.and_eq_true] at hm
      exact ⟨t0, r, items, rest, rfl, h0, hstr, hp, hm.1, hm.2⟩

theorem itemsWF_unpack (alive : V → Bool) (items : List Item) (h : itemsWF alive items = true) :
    countKind .handle items = 1 ∧ countKind .owner items = 1 ∧ countKind .xdict items ≤ 1 ∧ countKind .reactors items ≤ 1
      ∧ ((othersOf items).map (·.1)).Nodup ∧ items.all (itemWF alive) = true := by
  simp only [itemsWF, Bool.and_eq_true, beq_iff_eq, decide_eq_true_eq] at h
  obtain ⟨⟨⟨⟨⟨h1, h2⟩, h3⟩, h4⟩, h5⟩, h6⟩ := h
  refine ⟨h1, h2, h3, h4, ?_, h6⟩
  rw [othersOf_keys, ← nodupV_iff]
  exact h5

theorem roundtrip_canon (alive : V → Bool) (t : List Tag) (h : entityWF alive t = true) :
    roundtrip alive t = .ok (canon t) := by
  obtain ⟨t0, r, items, rest, rfl, h0, hstr, hp, hiw, hrw⟩ := entityWF_unpack alive t h
  obtain ⟨hch, hco, hcx, hcr, hkeys, hall⟩ := itemsWF_unpack alive items hiw
  obtain ⟨hhead, hshape⟩ := parseItems_shape _ r none items rest hp
  simp only at hshape
  have hcb := parseItems_collectBase (hcOf t0.val) r none items rest [t0] [] hp
  simp only [List.length_nil, List.nil_append] at hcb
  -- ExtendedTags._setup
  have hns : isAppStart t0 = false := by simp [isAppStart, h0]
  have hne : isEndOfClass t0 = false := by simp [isEndOfClass, isEO, h0]
  have hsetup : setup (t0 :: r) = .ok ⟨(t0 :: encode 0 items) ::
        (collectGroups (fun t => t.code == 100) isEndOfClass rest).1, groupsOf items,
        (collectGroups isEO (fun t => isEO t || t.code == 1001)
          (collectGroups (fun t => t.code == 100) isEndOfClass rest).2).1, restXdata rest⟩ := by
    have hcons := rest_consumed rest hhead
    simp only at hcons
    simp only [setup, collectBase, hns, hne, Bool.false_eq_true, if_false, List.nil_append, hcb, hcons, if_true]
    rfl
  have hcases := hcOf_cases t0.val
  have hc102 : hcOf t0.val ≠ 102 := by rcases hcases with e | e <;> rw [e] <;> decide
  -- setup_app_data
  have happ := setupApp_spec alive (hcOf t0.val) items ⟨[], none, none⟩ hshape hall (by simpa using hkeys)
    hcx (by simp) hcr (by simp)
  simp only [List.nil_append, Option.none_or] at happ
  -- handle and owner
  have hscan : scanHO (hcOf t0.val) (t0 :: encode 0 items) none none = (hOf items, oOf items) := by
    have e1 : (t0.code == hcOf t0.val) = false := by
      rw [h0]; rcases hcases with e | e <;> rw [e] <;> decide
    have e2 : (t0.code == 330) = false := by rw [h0]; decide
    simp only [scanHO, e1, e2, Bool.false_eq_true, if_false]
    rw [scanHO_spec _ 0 items none none hshape hc102 (by simp [hch]) (by simp [hco])]
    simp
  obtain ⟨hv, hh1, hh2⟩ := ofKind_handle _ items hshape hch
  obtain ⟨ov, ho1, ho2⟩ := ofKind_owner _ items hshape hco
  -- XDATA
  have hxw : (restXdata rest).all (fun g => g.all validX) = true ∧ nodupV ((restXdata rest).map groupKey) = true := by
    simpa [restWF, Bool.and_eq_true] using hrw
  have hxv : ∀ g ∈ restXdata rest, g.all validX = true := by
    have := hxw.1; rw [List.all_eq_true] at this; exact this
  have hxl : xdataLoad (restXdata rest) [] = (restXdata rest).map (fun g => (groupKey g, g)) := by
    have := xdataLoad_spec (restXdata rest) []
      (fun g hg => by
        obtain ⟨t, r, e, _⟩ := collectGroups_nonempty _ _ _ g hg
        exact ⟨t, r, e⟩) hxv (by simpa [nodupV_iff] using hxw.2)
    simpa using this
  -- load
  have hload : load (t0 :: r) = .ok ⟨t0.val, hOf items, oOf items, othersOf items, xdictOf items, reactorsOf items,
      (collectGroups (fun t => t.code == 100) isEndOfClass rest).1,
      (collectGroups isEO (fun t => isEO t || t.code == 1001)
          (collectGroups (fun t => t.code == 100) isEndOfClass rest).2).1,
      (restXdata rest).map (fun g => (groupKey g, g))⟩ := by
    simp only [load, hsetup, happ, hscan, hxl]
  -- export
  have hre := ofKind_reactors alive _ items hshape hall hcr
  have hxd := ofKind_xdict alive _ items hshape hall hcx
  have hflat : (collectGroups (fun t => t.code == 100) isEndOfClass rest).1.flatten ++
      ((collectGroups isEO (fun t => isEO t || t.code == 1001)
          (collectGroups (fun t => t.code == 100) isEndOfClass rest).2).1.flatten ++ (restXdata rest).flatten) = rest := by
    have h1 := collectGroups_flatten (fun t => t.code == 100) isEndOfClass rest
    have h2 := collectGroups_flatten isEO (fun t => isEO t || t.code == 1001)
      (collectGroups (fun t => t.code == 100) isEndOfClass rest).2
    have h3 := collectGroups_flatten (fun t => t.code == 1001) (fun t => t.code == 1001)
      (collectGroups isEO (fun t => isEO t || t.code == 1001)
        (collectGroups (fun t => t.code == 100) isEndOfClass rest).2).2
    have hcons := rest_consumed rest hhead
    simp only at hcons
    rw [hcons, List.append_nil] at h3
    simp only [restXdata]
    rw [h3, h2, h1]
  simp only [roundtrip, hload, exportEnt, hre]
  simp only [entityOrder, baseOrder, storageOrder, List.flatMap_cons, List.flatMap_nil, List.append_nil,
    basePart, storagePart, xdataOut, hh1, ho1, Option.getD_some, xdata_flatten _ hxv, ← hxd, ← ofKind_appdata,
    canon, hp, canonItems, hh2, ho2]
  have ht0 : (⟨structureMarker, t0.val⟩ : Tag) = t0 := by
    rw [← tag_eta t0, h0]; rfl
  rw [ht0]
  simp only [List.cons_append, List.append_assoc, List.nil_append, ownerCode]
  conv => rhs; rw [← hflat]

/-! ## `canon` only rearranges; it is the identity on inputs that are already in ezdxf's order -/

theorem parseItems_flatten (hc : Nat) (ts : List Tag) (cur : Option (Tag × List Tag)) (items : List Item)
    (rest : List Tag) (h : parseItems hc ts cur = some (items, rest)) :
    (match cur with | none => [] | some (_, g) => g) ++ ts = items.flatMap Item.tags ++ rest := by
  induction ts generalizing cur items rest with
  | nil =>
    cases cur with
    | none => simp only [parseItems, Option.some.injEq, Prod.mk.injEq] at h; obtain ⟨rfl, rfl⟩ := h; rfl
    | some p => simp [parseItems] at h
  | cons t r ih =>
    cases cur with
    | some p =>
      obtain ⟨st, g⟩ := p
      simp only [parseItems] at h
      split at h
      · split at h
        · rename_i is rest' hp
          simp only [Option.some.injEq, Prod.mk.injEq] at h
          obtain ⟨rfl, rfl⟩ := h
          have := ih none is rest' hp
          simp only [List.nil_append] at this
          simp [Item.tags, this]
        · cases h
      · have := ih (some (st, g ++ [t])) items rest h
        simpa using this
    | none =>
      simp only [parseItems] at h
      split at h
      · have := ih (some (t, [t])) items rest h
        simpa using this
      · split at h
        · simp only [Option.some.injEq, Prod.mk.injEq] at h
          obtain ⟨rfl, rfl⟩ := h
          simp
        · split at h
          · split at h
            · rename_i is rest' hp
              simp only [Option.some.injEq, Prod.mk.injEq] at h
              obtain ⟨rfl, rfl⟩ := h
              have := ih none is rest' hp
              simp only [List.nil_append] at this ⊢
              simp [Item.tags, this]
            · cases h
          · split at h
            · split at h
              · rename_i is rest' hp
                simp only [Option.some.injEq, Prod.mk.injEq] at h
                obtain ⟨rfl, rfl⟩ := h
                have := ih none is rest' hp
                simp only [List.nil_append] at this ⊢
                simp [Item.tags, this]
              · cases h
            · cases h

theorem canonItems_cons (i : Item) (is : List Item) :
    canonItems (i :: is) =
      ((if i.kind == .handle then i.normTags else []) ++ ofKind .handle is) ++
      ((if i.kind == .appdata then i.normTags else []) ++ ofKind .appdata is) ++
      ((if i.kind == .xdict then i.normTags else []) ++ ofKind .xdict is) ++
      ((if i.kind == .reactors then i.normTags else []) ++ ofKind .reactors is) ++
      ((if i.kind == .owner then i.normTags else []) ++ ofKind .owner is) := by
  simp only [canonItems, ofKind_cons]

theorem sortedLE_head (a : Nat) (l : List Nat) (h : sortedLE (a :: l) = true) : ∀ x ∈ l, a ≤ x := by
  induction l generalizing a with
  | nil => simp
  | cons b r ih =>
    simp only [sortedLE, Bool.and_eq_true, decide_eq_true_eq] at h
    intro x hx
    simp only [List.mem_cons] at hx
    rcases hx with rfl | hx
    · exact h.1
    · exact Nat.le_trans h.1 (ih b h.2 x hx)

theorem sortedLE_tail (a : Nat) (l : List Nat) (h : sortedLE (a :: l) = true) : sortedLE l = true := by
  cases l with
  | nil => rfl
  | cons b r => simp only [sortedLE, Bool.and_eq_true] at h; exact h.2

theorem ofKind_nil_of_lt (k : BasePart) (items : List Item) (h : ∀ x ∈ items, stage k < stage x.kind) :
    ofKind k items = [] := by
  apply ofKind_zero
  simp only [countKind, List.length_eq_zero_iff, List.filter_eq_nil_iff, beq_iff_eq]
  intro x hx e
  have := h x hx
  rw [e] at this
  omega

theorem normTags_sorted (hc : Nat) (i : Item) (hs : ItemShape hc i) (h : itemSorted i = true) : i.normTags = i.tags := by
  unfold Item.normTags
  split
  · rename_i hk
    cases i with
    | handle t => simp [Item.kind] at hk
    | owner t => simp [Item.kind] at hk
    | group g =>
      obtain ⟨st, mid, c, rfl, -, -, -⟩ := hs
      have hre : st.val = .str acadReactors := by
        rw [kind_of_shape] at hk
        by_cases e : st.val = .str acadReactors
        · exact e
        · exfalso; revert hk; simp only [beq_iff_eq, e, if_false]; split <;> decide
      simp only [itemSorted, show groupKey (st :: (mid ++ [c])) = st.val from rfl, hre, beq_self_eq_true, if_true,
        groupBody_shape] at h
      simp [Item.tags, sortGroup, groupBody_shape, getLast_shape, isort_ascending hexKeyT mid h]
  · rfl

theorem canonItems_ordered (hc : Nat) (items : List Item) (hs : ∀ i ∈ items, ItemShape hc i)
    (h : baseOrdered items = true) : canonItems items = items.flatMap Item.tags := by
  induction items with
  | nil => rfl
  | cons i is ih =>
    simp only [baseOrdered, List.map_cons, List.all_cons, Bool.and_eq_true] at h
    obtain ⟨hsort, hsi, hsr⟩ := h
    have hs' : ∀ j ∈ is, ItemShape hc j := fun j hj => hs j (List.mem_cons_of_mem _ hj)
    have hle := sortedLE_head _ _ hsort
    have hle' : ∀ x ∈ is, stage i.kind ≤ stage x.kind := by
      intro x hx
      exact hle _ (List.mem_map_of_mem (f := fun i => stage i.kind) hx)
    have ih' := ih hs' (by simp only [baseOrdered, Bool.and_eq_true]; exact ⟨sortedLE_tail _ _ hsort, hsr⟩)
    have hn := normTags_sorted hc i (hs i List.mem_cons_self) hsi
    rw [canonItems_cons, hn, List.flatMap_cons, ← ih']
    have hlt : ∀ k, stage k < stage i.kind → ofKind k is = [] := by
      intro k hk
      exact ofKind_nil_of_lt k is (fun x hx => Nat.lt_of_lt_of_le hk (hle' x hx))
    cases hk : i.kind with
    | handle => simp [canonItems]
    | appdata =>
      have e0 := hlt .handle (by rw [hk]; decide)
      simp [canonItems, e0]
    | xdict =>
      have e0 := hlt .handle (by rw [hk]; decide)
      have e1 := hlt .appdata (by rw [hk]; decide)
      simp [canonItems, e0, e1]
    | reactors =>
      have e0 := hlt .handle (by rw [hk]; decide)
      have e1 := hlt .appdata (by rw [hk]; decide)
      have e2 := hlt .xdict (by rw [hk]; decide)
      simp [canonItems, e0, e1, e2]
    | owner =>
      have e0 := hlt .handle (by rw [hk]; decide)
      have e1 := hlt .appdata (by rw [hk]; decide)
      have e2 := hlt .xdict (by rw [hk]; decide)
      have e3 := hlt .reactors (by rw [hk]; decide)
      simp [canonItems, e0, e1, e2, e3]

theorem canon_ordered_id (t : List Tag) (ho : entityOrdered t = true) : canon t = t := by
  cases t with
  | nil => rfl
  | cons t0 r =>
    simp only [entityOrdered] at ho
    cases hp : parseItems (hcOf t0.val) r none with
    | none => rw [hp] at ho; cases ho
    | some p =>
      obtain ⟨items, rest⟩ := p
      rw [hp] at ho
      simp only at ho
      have hshape := (parseItems_shape _ r none items rest hp).2
      simp only at hshape
      have hflat := parseItems_flatten _ r none items rest hp
      simp only [List.nil_append] at hflat
      simp only [canon, hp, canonItems_ordered _ items hshape ho]
      rw [hflat]; rfl

theorem perm_move {α : Type} (A X Y : List α) : (X ++ (A ++ Y)).Perm (A ++ (X ++ Y)) := by
  rw [← List.append_assoc, ← List.append_assoc]
  exact List.Perm.append_right Y List.perm_append_comm

theorem normTags_perm (hc : Nat) (i : Item) (hs : ItemShape hc i) : i.normTags.Perm i.tags := by
  unfold Item.normTags
  split
  · rename_i hk
    cases i with
    | handle t => simp [Item.kind] at hk
    | owner t => simp [Item.kind] at hk
    | group g =>
      obtain ⟨st, mid, c, rfl, -, -, -⟩ := hs
      simp only [Item.tags, sortGroup, groupBody_shape, getLast_shape]
      exact List.Perm.cons st (List.Perm.append_right [c] (isort_perm hexKeyT mid))
  · exact List.Perm.refl _

theorem canonItems_perm (hc : Nat) (items : List Item) (hs : ∀ i ∈ items, ItemShape hc i) :
    (canonItems items).Perm (items.flatMap Item.tags) := by
  induction items with
  | nil => exact List.Perm.refl _
  | cons i is ih =>
    have hs' : ∀ j ∈ is, ItemShape hc j := fun j hj => hs j (List.mem_cons_of_mem _ hj)
    have ih' := ih hs'
    have hn := normTags_perm hc i (hs i List.mem_cons_self)
    rw [canonItems_cons, List.flatMap_cons]
    refine List.Perm.trans ?_ (List.Perm.append hn ih')
    simp only [canonItems]
    cases hk : i.kind with
    | handle => simp
    | appdata =>
      simp only [show (BasePart.appdata == BasePart.handle) = false from rfl, beq_self_eq_true, if_true,
        show (BasePart.appdata == BasePart.xdict) = false from rfl,
        show (BasePart.appdata == BasePart.reactors) = false from rfl,
        show (BasePart.appdata == BasePart.owner) = false from rfl, Bool.false_eq_true, if_false, List.nil_append,
        List.append_assoc]
      exact perm_move _ _ _
    | xdict =>
      simp only [show (BasePart.xdict == BasePart.handle) = false from rfl, beq_self_eq_true, if_true,
        show (BasePart.xdict == BasePart.appdata) = false from rfl,
        show (BasePart.xdict == BasePart.reactors) = false from rfl,
        show (BasePart.xdict == BasePart.owner) = false from rfl, Bool.false_eq_true, if_false, List.nil_append,
        List.append_assoc]
      rw [← List.append_assoc (ofKind .handle is)]
      refine (perm_move _ _ _).trans ?_
      simp [List.append_assoc]
    | reactors =>
      simp only [show (BasePart.reactors == BasePart.handle) = false from rfl, beq_self_eq_true, if_true,
        show (BasePart.reactors == BasePart.appdata) = false from rfl,
        show (BasePart.reactors == BasePart.xdict) = false from rfl,
        show (BasePart.reactors == BasePart.owner) = false from rfl, Bool.false_eq_true, if_false, List.nil_append,
        List.append_assoc]
      rw [← List.append_assoc (ofKind .appdata is), ← List.append_assoc (ofKind .handle is)]
      refine (perm_move _ _ _).trans ?_
      simp [List.append_assoc]
    | owner =>
      simp only [show (BasePart.owner == BasePart.handle) = false from rfl, beq_self_eq_true, if_true,
        show (BasePart.owner == BasePart.appdata) = false from rfl,
        show (BasePart.owner == BasePart.xdict) = false from rfl,
        show (BasePart.owner == BasePart.reactors) = false from rfl, Bool.false_eq_true, if_false, List.nil_append,
        List.append_assoc]
      rw [← List.append_assoc (ofKind .xdict is), ← List.append_assoc (ofKind .appdata is),
        ← List.append_assoc (ofKind .handle is)]
      refine (perm_move _ _ _).trans ?_
      simp [List.append_assoc]

theorem canon_perm (t : List Tag) : (canon t).Perm t := by
  cases t with
  | nil => exact List.Perm.refl _
  | cons t0 r =>
    simp only [canon]
    cases hp : parseItems (hcOf t0.val) r none with
    | none => exact List.Perm.refl _
    | some p =>
      obtain ⟨items, rest⟩ := p
      simp only
      have hshape := (parseItems_shape _ r none items rest hp).2
      simp only at hshape
      have hflat := parseItems_flatten _ r none items rest hp
      simp only [List.nil_append] at hflat
      rw [hflat]
      exact List.Perm.cons t0 (List.Perm.append_right rest (canonItems_perm _ items hshape))

/-! ## parsing the tags of well-shaped items gives the items back -/

theorem parseItems_pending (hc : Nat) (st c : Tag) (mid acc R : List Tag)
    (hm : ∀ t ∈ mid, isAppClose st t = false) (hc' : isAppClose st c = true) :
    parseItems hc (mid ++ c :: R) (some (st, acc)) =
      (match parseItems hc R none with
       | some (is, rest) => some (.group (acc ++ mid ++ [c]) :: is, rest)
       | none => none) := by
  induction mid generalizing acc with
  | nil =>
    simp only [List.nil_append, parseItems, hc', if_true, List.append_nil]
    cases parseItems hc R none with
    | none => rfl
    | some p => rfl
  | cons m mr ih =>
    have h1 : isAppClose st m = false := hm m List.mem_cons_self
    simp only [List.cons_append, parseItems, h1, Bool.false_eq_true, if_false]
    rw [ih (acc ++ [m]) (fun t ht => hm t (List.mem_cons_of_mem _ ht))]
    simp [List.append_assoc]

theorem parseItems_of_items (hc : Nat) (hhc : hc = 5 ∨ hc = 105) (items : List Item) (rest : List Tag)
    (hs : ∀ i ∈ items, ItemShape hc i) (hr : HeadEnd rest) :
    parseItems hc (items.flatMap Item.tags ++ rest) none = some (items, rest) := by
  induction items with
  | nil =>
    rcases hr with rfl | ⟨h, tl, rfl, he⟩
    · rfl
    · have : isAppStart h = false := by
        have := isEndOfClass_code he
        simp only [isAppStart, Bool.and_eq_false_iff, beq_eq_false_iff_ne]
        left; omega
      simp [parseItems, this, he]
  | cons i is ih =>
    have hs' : ∀ j ∈ is, ItemShape hc j := fun j hj => hs j (List.mem_cons_of_mem _ hj)
    have ih' := ih hs'
    cases i with
    | handle t =>
      have hcode : t.code = hc := hs _ List.mem_cons_self
      have h1 : isAppStart t = false := by
        simp only [isAppStart, Bool.and_eq_false_iff, beq_eq_false_iff_ne]; left; omega
      have h2 : isEndOfClass t = false := by
        simp only [isEndOfClass, isEO, Bool.or_eq_false_iff, Bool.and_eq_false_iff, beq_eq_false_iff_ne]
        refine ⟨⟨by omega, Or.inl (by omega)⟩, by omega⟩
      simp [Item.tags, parseItems, h1, h2, hcode, ih']
    | owner t =>
      obtain ⟨hcode, hne⟩ := hs _ List.mem_cons_self
      have h1 : isAppStart t = false := by
        simp only [isAppStart, Bool.and_eq_false_iff, beq_eq_false_iff_ne]; left; omega
      have h2 : isEndOfClass t = false := by
        simp only [isEndOfClass, isEO, Bool.or_eq_false_iff, Bool.and_eq_false_iff, beq_eq_false_iff_ne]
        refine ⟨⟨by omega, Or.inl (by omega)⟩, by omega⟩
      have h3 : ((330 : Nat) == hc) = false := by
        rw [beq_eq_false_iff_ne]; omega
      simp only [List.flatMap_cons, Item.tags, List.cons_append, List.nil_append, parseItems, h1, h2, hcode, h3,
        Bool.false_eq_true, if_false, beq_self_eq_true, if_true, ih']
    | group g =>
      obtain ⟨st, mid, c, rfl, hst, hcl, hmid⟩ := hs _ List.mem_cons_self
      simp only [List.flatMap_cons, Item.tags, List.cons_append, List.append_assoc, parseItems, hst, if_true]
      rw [parseItems_pending hc st c mid [st] _ hmid hcl]
      simp only [List.nil_append, ih']
      rfl

/-! ## the items of `canon t` -/

def Item.norm (i : Item) : Item :=
  match i with
  | .group g => if i.kind == .reactors then .group (sortGroup g) else i
  | _ => i

def byKind (k : BasePart) (items : List Item) : List Item := (items.filter (fun i => i.kind == k)).map Item.norm

def cItems (items : List Item) : List Item :=
  byKind .handle items ++ byKind .appdata items ++ byKind .xdict items ++ byKind .reactors items ++ byKind .owner items

theorem norm_tags (i : Item) : i.norm.tags = i.normTags := by
  cases i with
  | handle t => simp [Item.norm, Item.normTags, Item.kind, Item.tags]
  | owner t => simp [Item.norm, Item.normTags, Item.kind, Item.tags]
  | group g =>
    simp only [Item.norm, Item.normTags]
    split <;> simp [Item.tags]

theorem sortGroup_key (st : Tag) (r : List Tag) : groupKey (sortGroup (st :: r)) = st.val := rfl

theorem norm_kind (hc : Nat) (i : Item) (hs : ItemShape hc i) : i.norm.kind = i.kind := by
  cases i with
  | handle t => rfl
  | owner t => rfl
  | group g =>
    obtain ⟨st, mid, c, rfl, -, -, -⟩ := hs
    simp only [Item.norm]
    split
    · simp only [kind_group, sortGroup_key]; rfl
    · rfl

theorem byKind_tags (k : BasePart) (items : List Item) : (byKind k items).flatMap Item.tags = ofKind k items := by
  simp only [byKind, ofKind, List.flatMap_map, norm_tags]

theorem cItems_tags (items : List Item) : (cItems items).flatMap Item.tags = canonItems items := by
  simp only [cItems, canonItems, List.flatMap_append, byKind_tags]

theorem mem_byKind (hc : Nat) (k : BasePart) (items : List Item) (hs : ∀ i ∈ items, ItemShape hc i) (j : Item)
    (hj : j ∈ byKind k items) : ∃ i ∈ items, j = i.norm ∧ j.kind = k := by
  simp only [byKind, List.mem_map, List.mem_filter, beq_iff_eq] at hj
  obtain ⟨i, ⟨hi, hk⟩, rfl⟩ := hj
  exact ⟨i, hi, rfl, by rw [norm_kind hc i (hs i hi), hk]⟩

theorem mem_cItems (hc : Nat) (items : List Item) (hs : ∀ i ∈ items, ItemShape hc i) (j : Item)
    (hj : j ∈ cItems items) : ∃ i ∈ items, j = i.norm := by
  simp only [cItems, List.mem_append] at hj
  rcases hj with (((hj | hj) | hj) | hj) | hj <;>
    (obtain ⟨i, hi, e, _⟩ := mem_byKind hc _ items hs j hj; exact ⟨i, hi, e⟩)

/-- facts about a well-formed reactors group that survive sorting -/
theorem norm_shape_wf (alive : V → Bool) (hc : Nat) (i : Item) (hs : ItemShape hc i) (hw : itemWF alive i = true) :
    ItemShape hc i.norm ∧ itemWF alive i.norm = true ∧ itemSorted i.norm = true := by
  cases i with
  | handle t => exact ⟨hs, rfl, rfl⟩
  | owner t => exact ⟨hs, rfl, rfl⟩
  | group g =>
    obtain ⟨st, mid, c, rfl, hst, hcl, hmid⟩ := hs
    simp only [Item.norm]
    by_cases hre : st.val = .str acadReactors
    · have hk : (Item.group (st :: (mid ++ [c]))).kind = .reactors := by rw [kind_of_shape]; simp [hre]
      simp only [hk, beq_self_eq_true, if_true]
      simp only [itemWF, groupWF, Bool.and_eq_true, getLast_shape, groupBody_shape,
        show groupKey (st :: (mid ++ [c])) = st.val from rfl, hre, beq_self_eq_true, if_true] at hw
      obtain ⟨hlast, ⟨hall, hnd⟩, hne⟩ := hw
      have hsg : sortGroup (st :: (mid ++ [c])) = st :: (isort hexKeyT mid ++ [c]) := by
        simp [sortGroup, groupBody_shape, getLast_shape]
      rw [hsg]
      rw [List.all_eq_true] at hall
      have hall' : ∀ t ∈ isort hexKeyT mid, (t.code == reactorHandleCode && (hexKeyV t.val).isSome) = true :=
        fun t ht => hall t ((mem_isort _ _ _).mp ht)
      have hperm := isort_perm hexKeyT mid
      refine ⟨⟨st, isort hexKeyT mid, c, rfl, hst, hcl, fun t ht => hmid t ((mem_isort _ _ _).mp ht)⟩, ?_, ?_⟩
      · simp only [itemWF, groupWF, Bool.and_eq_true, getLast_shape, groupBody_shape,
          show groupKey (st :: (isort hexKeyT mid ++ [c])) = st.val from rfl, hre, beq_self_eq_true, if_true]
        refine ⟨hlast, ⟨?_, ?_⟩, ?_⟩
        · rw [List.all_eq_true]; exact hall'
        · rw [nodupN_iff] at hnd ⊢
          exact ((hperm.map hexKeyT).nodup_iff).mpr hnd
        · cases hm : mid with
          | nil => simp [hm] at hne
          | cons a r =>
            have := hperm.length_eq
            rw [hm] at this
            cases hi : isort hexKeyT (a :: r) with
            | nil => rw [hi] at this; simp at this
            | cons _ _ => rfl
      · -- sorted and pairwise different = strictly ascending
        simp only [itemSorted, show groupKey (st :: (isort hexKeyT mid ++ [c])) = st.val from rfl, hre,
          beq_self_eq_true, if_true, groupBody_shape]
        rw [nodupN_iff] at hnd
        exact isort_strict hexKeyT mid hnd
    · have hk : ((Item.group (st :: (mid ++ [c]))).kind == BasePart.reactors) = false := by
        rw [kind_of_shape]
        simp only [beq_iff_eq, hre, if_false]
        split <;> decide
      simp only [hk, Bool.false_eq_true, if_false]
      refine ⟨⟨st, mid, c, rfl, hst, hcl, hmid⟩, hw, ?_⟩
      simp [itemSorted, show groupKey (st :: (mid ++ [c])) = st.val from rfl, hre]

theorem kind_byKind (hc : Nat) (j : BasePart) (items : List Item) (hs : ∀ i ∈ items, ItemShape hc i) :
    ∀ x ∈ byKind j items, x.kind = j := by
  intro x hx
  obtain ⟨i, _, _, hk⟩ := mem_byKind hc j items hs x hx
  exact hk

theorem filter_byKind (hc : Nat) (k j : BasePart) (items : List Item) (hs : ∀ i ∈ items, ItemShape hc i) :
    (byKind j items).filter (fun i => i.kind == k) = if j = k then byKind j items else [] := by
  have hk := kind_byKind hc j items hs
  split
  · rename_i e
    rw [List.filter_eq_self]
    intro a ha
    rw [hk a ha, e]; simp
  · rename_i e
    rw [List.filter_eq_nil_iff]
    intro a ha
    rw [hk a ha]
    simpa using e

theorem filter_cItems (hc : Nat) (k : BasePart) (items : List Item) (hs : ∀ i ∈ items, ItemShape hc i) :
    (cItems items).filter (fun i => i.kind == k) = byKind k items := by
  simp only [cItems, List.filter_append, filter_byKind hc k _ items hs]
  cases k <;> simp

theorem countKind_cItems (hc : Nat) (k : BasePart) (items : List Item) (hs : ∀ i ∈ items, ItemShape hc i) :
    countKind k (cItems items) = countKind k items := by
  simp only [countKind, filter_cItems hc k items hs, byKind, List.length_map]

theorem norm_of_not_reactors (i : Item) (h : (i.kind == BasePart.reactors) = false) : i.norm = i := by
  cases i with
  | handle t => rfl
  | owner t => rfl
  | group g => simp [Item.norm, h]

theorem sortedLE_append (l1 l2 : List Nat) (h1 : sortedLE l1 = true) (h2 : sortedLE l2 = true)
    (h : ∀ a ∈ l1, ∀ b ∈ l2, a ≤ b) : sortedLE (l1 ++ l2) = true := by
  induction l1 with
  | nil => simpa using h2
  | cons a r ih =>
    have ih' := ih (sortedLE_tail' _ _ h1) (fun x hx y hy => h x (List.mem_cons_of_mem _ hx) y hy)
    cases r with
    | nil =>
      cases l2 with
      | nil => rfl
      | cons b r2 =>
        simp only [List.cons_append, List.nil_append, sortedLE, Bool.and_eq_true, decide_eq_true_eq]
        exact ⟨h a List.mem_cons_self b List.mem_cons_self, by simpa using h2⟩
    | cons c r' =>
      simp only [List.cons_append, sortedLE, Bool.and_eq_true, decide_eq_true_eq] at h1 ih' ⊢
      exact ⟨h1.1, ih'⟩

theorem sortedLE_const (j : Nat) (l : List Nat) (h : ∀ x ∈ l, x = j) : sortedLE l = true := by
  induction l with
  | nil => rfl
  | cons a r ih =>
    cases r with
    | nil => rfl
    | cons b r' =>
      simp only [sortedLE, Bool.and_eq_true, decide_eq_true_eq]
      refine ⟨?_, ih (fun x hx => h x (List.mem_cons_of_mem _ hx))⟩
      rw [h a List.mem_cons_self, h b (by simp)]
      exact Nat.le_refl _

theorem stages_byKind (hc : Nat) (j : BasePart) (items : List Item) (hs : ∀ i ∈ items, ItemShape hc i) :
    ∀ x ∈ (byKind j items).map (fun i => stage i.kind), x = stage j := by
  intro x hx
  obtain ⟨i, hi, rfl⟩ := List.mem_map.mp hx
  rw [kind_byKind hc j items hs i hi]

theorem cItems_wf (alive : V → Bool) (hc : Nat) (items : List Item) (hs : ∀ i ∈ items, ItemShape hc i)
    (hw : itemsWF alive items = true) :
    (∀ i ∈ cItems items, ItemShape hc i) ∧ itemsWF alive (cItems items) = true ∧ baseOrdered (cItems items) = true := by
  have hall : items.all (itemWF alive) = true := (itemsWF_unpack alive items hw).2.2.2.2.2
  rw [List.all_eq_true] at hall
  have hmem : ∀ j ∈ cItems items, ItemShape hc j ∧ itemWF alive j = true ∧ itemSorted j = true := by
    intro j hj
    obtain ⟨i, hi, rfl⟩ := mem_cItems hc items hs j hj
    exact norm_shape_wf alive hc i (hs i hi) (hall i hi)
  refine ⟨fun j hj => (hmem j hj).1, ?_, ?_⟩
  · simp only [itemsWF, Bool.and_eq_true, beq_iff_eq, decide_eq_true_eq] at hw ⊢
    obtain ⟨⟨⟨⟨⟨h1, h2⟩, h3⟩, h4⟩, h5⟩, h6⟩ := hw
    simp only [countKind_cItems hc _ items hs]
    refine ⟨⟨⟨⟨⟨h1, h2⟩, h3⟩, h4⟩, ?_⟩, ?_⟩
    · rw [filter_cItems hc _ items hs]
      have : byKind .appdata items = items.filter (fun i => i.kind == .appdata) := by
        simp only [byKind]
        conv => rhs; rw [← List.map_id (items.filter (fun i => i.kind == .appdata))]
        apply List.map_congr_left
        intro a ha
        simp only [List.mem_filter, beq_iff_eq] at ha
        simp only [id]
        apply norm_of_not_reactors
        rw [ha.2]; rfl
      rw [this]; exact h5
    · rw [List.all_eq_true]; exact fun j hj => (hmem j hj).2.1
  · simp only [baseOrdered, Bool.and_eq_true]
    refine ⟨?_, ?_⟩
    · simp only [cItems, List.map_append]
      have c0 := stages_byKind hc .handle items hs
      have c1 := stages_byKind hc .appdata items hs
      have c2 := stages_byKind hc .xdict items hs
      have c3 := stages_byKind hc .reactors items hs
      have c4 := stages_byKind hc .owner items hs
      refine sortedLE_append _ _ (sortedLE_append _ _ (sortedLE_append _ _ (sortedLE_append _ _
        (sortedLE_const _ _ c0) (sortedLE_const _ _ c1) ?_) (sortedLE_const _ _ c2) ?_) (sortedLE_const _ _ c3) ?_)
        (sortedLE_const _ _ c4) ?_
      · intro a ha b hb; rw [c0 a ha, c1 b hb]; decide
      · intro a ha b hb
        rw [c2 b hb]
        simp only [List.mem_append] at ha
        rcases ha with ha | ha
        · rw [c0 a ha]; decide
        · rw [c1 a ha]; decide
      · intro a ha b hb
        rw [c3 b hb]
        simp only [List.mem_append] at ha
        rcases ha with (ha | ha) | ha
        · rw [c0 a ha]; decide
        · rw [c1 a ha]; decide
        · rw [c2 a ha]; decide
      · intro a ha b hb
        rw [c4 b hb]
        simp only [List.mem_append] at ha
        rcases ha with ((ha | ha) | ha) | ha
        · rw [c0 a ha]; decide
        · rw [c1 a ha]; decide
        · rw [c2 a ha]; decide
        · rw [c3 a ha]; decide
    · rw [List.all_eq_true]; exact fun j hj => (hmem j hj).2.2

theorem strOnly_perm (a b : List Tag) (h : a.Perm b) (hs : strOnly b = true) : strOnly a = true := by
  simp only [strOnly, List.all_eq_true] at hs ⊢
  exact fun x hx => hs x (h.subset hx)

/-- `canon t` is again well-formed, and it is in ezdxf's order -/
theorem canon_wf (alive : V → Bool) (t : List Tag) (h : entityWF alive t = true) :
    entityWF alive (canon t) = true ∧ entityOrdered (canon t) = true := by
  obtain ⟨t0, r, items, rest, rfl, h0, hstr, hp, hiw, hrw⟩ := entityWF_unpack alive t h
  obtain ⟨hhead, hshape⟩ := parseItems_shape _ r none items rest hp
  simp only at hshape
  obtain ⟨hs2, hw2, ho2⟩ := cItems_wf alive _ items hshape hiw
  have hparse : parseItems (hcOf t0.val) (canonItems items ++ rest) none = some (cItems items, rest) := by
    rw [← cItems_tags]
    exact parseItems_of_items _ (hcOf_cases _) (cItems items) rest hs2 hhead
  have hc : canon (t0 :: r) = t0 :: (canonItems items ++ rest) := by
    simp only [canon, hp]; rfl
  have hstr' : strOnly (canon (t0 :: r)) = true := strOnly_perm _ _ (canon_perm _) hstr
  rw [hc] at hstr' ⊢
  constructor
  · simp only [entityWF, hparse, h0, hstr', hw2, hrw, beq_self_eq_true, Bool.and_self]
  · simp only [entityOrdered, hparse, ho2]

/-! ## document level: sections that ezdxf does not manage -/

/-- one section of a well-formed file: SECTION head record (name + further tags, e.g. the HEADER variables), body records -/
structure Sec where
  name : List Nat
  extra : List Tag
  body : List Rec

def Sec.head (s : Sec) : Rec := ⟨0, .str sSECTION⟩ :: ⟨2, .str s.name⟩ :: s.extra

/-- the records of the section as `group_tags` delivers them -/
def Sec.recs (s : Sec) : List Rec := s.head :: s.body ++ [[endsecTag]]

/-- all tags of the section in file order, including (0, ENDSEC) -/
def Sec.tags (s : Sec) : List Tag := (s.head :: s.body).flatten ++ [endsecTag]

def fileOf (secs : List Sec) : List Rec := secs.flatMap Sec.recs ++ [[eofTag]]

/-- body records are ordinary records -/
def ordinary (r : Rec) : Bool := !isType sSECTION r && !isType sENDSEC r && !isType sEOF r

def secWF (s : Sec) : Bool := s.body.all ordinary

theorem loadLoop_body (body rest : List Rec) (S : List (V × List Rec)) (cur : List Rec) (e : Bool)
    (h : body.all ordinary = true) :
    loadLoop (body ++ rest) ⟨S, cur, e⟩ = loadLoop rest ⟨S, cur ++ body, e⟩ := by
  induction body generalizing cur with
  | nil => simp
  | cons b r ih =>
    simp only [List.all_cons, Bool.and_eq_true] at h
    obtain ⟨hb, hr⟩ := h
    simp only [ordinary, Bool.and_eq_true, Bool.not_eq_true'] at hb
    obtain ⟨⟨h1, h2⟩, h3⟩ := hb
    simp only [List.cons_append, loadLoop, loadStep, h1, h2, h3, Bool.false_eq_true, if_false]
    rw [ih (cur ++ [b]) hr]
    simp [List.append_assoc]

theorem loadLoop_secs (secs : List Sec) (rest : List Rec) (S : List (V × List Rec)) (e : Bool)
    (hwf : ∀ s ∈ secs, secWF s = true)
    (hn : (S.map (·.1) ++ secs.map (fun s => V.str s.name)).Nodup) :
    loadLoop (secs.flatMap Sec.recs ++ rest) ⟨S, [], e⟩
      = loadLoop rest ⟨S ++ secs.map (fun s => (V.str s.name, s.head :: s.body)), [], e⟩ := by
  induction secs generalizing S with
  | nil => simp
  | cons s r ih =>
    have hs : secWF s = true := hwf s List.mem_cons_self
    have h1 : isType sSECTION s.head = true := by simp [Sec.head, isType]
    have h2 : isType sSECTION [endsecTag] = false := by decide
    have h3 : isType sENDSEC [endsecTag] = true := by decide
    simp only [List.flatMap_cons, Sec.recs, List.cons_append, List.append_assoc, loadLoop, loadStep, h1, if_true,
      inside, Bool.false_eq_true, if_false]
    rw [loadLoop_body s.body _ S [s.head] e hs]
    simp only [List.cons_append, List.nil_append, loadLoop, loadStep, h2, h3, Bool.false_eq_true, if_false, if_true,
      inside, h1, Bool.not_true]
    have hname : sectionName s.head = some (.str s.name) := by simp [Sec.head, sectionName]
    simp only [hname]
    have hfresh : V.str s.name ∉ S.map (·.1) := by
      intro hm
      rw [List.nodup_append] at hn
      exact hn.2.2 _ hm _ (by simp) rfl
    rw [dictSet_fresh _ _ _ hfresh]
    rw [ih (S ++ [(V.str s.name, s.head :: s.body)]) (fun x hx => hwf x (List.mem_cons_of_mem _ hx))
      (by simpa [List.append_assoc] using hn)]
    simp [List.append_assoc]

theorem loadStructure_file (secs : List Sec) (hwf : ∀ s ∈ secs, secWF s = true)
    (hn : (secs.map (fun s => s.name)).Nodup) :
    loadStructure (fileOf secs) = .ok (secs.map (fun s => (V.str s.name, s.head :: s.body))) := by
  have hn' : (([] : List (V × List Rec)).map (·.1) ++ secs.map (fun s => V.str s.name)).Nodup := by
    simp only [List.map_nil, List.nil_append]
    have : secs.map (fun s => V.str s.name) = (secs.map (fun s => s.name)).map V.str := by simp [List.map_map]
    rw [this]
    exact List.Pairwise.map V.str (fun a b h e => h (V.str.inj e)) hn
  simp only [loadStructure, fileOf]
  rw [loadLoop_secs secs [[eofTag]] [] false hwf hn']
  have h1 : isType sSECTION [eofTag] = false := by decide
  have h2 : isType sENDSEC [eofTag] = false := by decide
  have h3 : isType sEOF [eofTag] = true := by decide
  simp [loadLoop, loadStep, h1, h2, h3, inside]

def unmanaged (s : Sec) : Bool := !isDeleted (.str s.name) && !isManaged (.str s.name)

theorem passSections_file (secs : List Sec) (hwf : ∀ s ∈ secs, secWF s = true)
    (hn : (secs.map (fun s => s.name)).Nodup) :
    passSections (fileOf secs) = .ok ((secs.filter unmanaged).flatMap Sec.tags) := by
  simp only [passSections, loadStructure_file secs hwf hn]
  congr 1
  simp only [storedSections, List.filter_filter]
  clear hwf hn
  induction secs with
  | nil => rfl
  | cons s r ih =>
    simp only [exportStored, List.map_cons, List.filter_cons, unmanaged] at ih ⊢
    by_cases h1 : isDeleted (.str s.name) = true
    · simp only [h1, Bool.not_true, Bool.false_eq_true, if_false, Bool.false_and, Bool.and_false]
      exact ih
    · simp only [Bool.not_eq_true] at h1
      by_cases h2 : isManaged (.str s.name) = true
      · simp only [h1, h2, Bool.not_false, Bool.not_true, Bool.false_eq_true, if_false, Bool.and_false,
          Bool.false_and]
        exact ih
      · simp only [Bool.not_eq_true] at h2
        simp only [h1, h2, Bool.not_false, if_true, Bool.and_self, List.map_cons, List.flatMap_cons, Sec.tags]
        rw [ih]

end EzdxfVerif.Storage

/-
Helper lemmas for property C02 (Model/Storage.lean).  Ordinary public theorems; the counted property theorems are in
Props/C02.lean.
-/
import EzdxfVerif.Model.Storage

namespace EzdxfVerif.Storage
open EzdxfVerif.XTags
open EzdxfVerif.Gen.StorageTables

/-! ## shape of the items found by `parseItems` -/

/-- a closed application-data group: start tag, content without a closing tag, closing tag -/
def GroupShape (g : List Tag) : Prop :=
  ∃ st mid c, g = st :: (mid ++ [c]) ∧ isAppStart st = true ∧ isAppClose st c = true ∧ ∀ t ∈ mid, isAppClose st t = false

def ItemShape (hc : Nat) : Item → Prop
  | .handle t => t.code = hc
  | .owner t => t.code = 330 ∧ hc ≠ 330
  | .group g => GroupShape g

/-- the rest starts at an end-of-class tag -/
def HeadEnd (rest : List Tag) : Prop := rest = [] ∨ ∃ h tl, rest = h :: tl ∧ isEndOfClass h = true

theorem isAppStart_code {t : Tag} (h : isAppStart t = true) : t.code = 102 := by
  simp only [isAppStart, Bool.and_eq_true, beq_iff_eq] at h; exact h.1

theorem isEndOfClass_code {t : Tag} (h : isEndOfClass t = true) : t.code = 100 ∨ t.code = 101 ∨ t.code = 1001 := by
  simp only [isEndOfClass, isEO, Bool.or_eq_true, Bool.and_eq_true, beq_iff_eq] at h
  rcases h with (h | h) | h
  · exact Or.inl h
  · exact Or.inr (Or.inl h.1)
  · exact Or.inr (Or.inr h)

/-- generalised statement about `parseItems`: with a pending group `(st, g)` the first item is the completed group -/
theorem parseItems_shape (hc : Nat) (ts : List Tag) (cur : Option (Tag × List Tag)) (items : List Item) (rest : List Tag)
    (h : parseItems hc ts cur = some (items, rest)) :
    HeadEnd rest ∧
    (match cur with
     | none => ∀ i ∈ items, ItemShape hc i
     | some (st, g) => ∃ mid c is', items = .group (g ++ mid ++ [c]) :: is' ∧ isAppClose st c = true
         ∧ (∀ t ∈ mid, isAppClose st t = false) ∧ ∀ i ∈ is', ItemShape hc i) := by
  induction ts generalizing cur items rest with
  | nil =>
    cases cur with
    | none => simp only [parseItems, Option.some.injEq, Prod.mk.injEq] at h; obtain ⟨rfl, rfl⟩ := h; exact ⟨Or.inl rfl, by simp⟩
    | some p => simp [parseItems] at h
  | cons t r ih =>
    cases cur with
    | some p =>
      obtain ⟨st, g⟩ := p
      simp only [parseItems] at h
      split at h
      · rename_i hclose
        split at h
        · rename_i is rest' hp
          simp only [Option.some.injEq, Prod.mk.injEq] at h
          obtain ⟨rfl, rfl⟩ := h
          have := ih none is rest' hp
          exact ⟨this.1, [], t, is, by simp, hclose, by simp, this.2⟩
        · cases h
      · rename_i hclose
        have := ih (some (st, g ++ [t])) items rest h
        obtain ⟨he, mid, c, is', hi, hc', hm, hs⟩ := this
        refine ⟨he, t :: mid, c, is', by simp [hi], hc', ?_, hs⟩
        intro x hx
        simp only [List.mem_cons] at hx
        rcases hx with rfl | hx
        · simpa using hclose
        · exact hm x hx
    | none =>
      simp only [parseItems] at h
      split at h
      · rename_i hstart
        have := ih (some (t, [t])) items rest h
        obtain ⟨he, mid, c, is', hi, hc', hm, hs⟩ := this
        refine ⟨he, ?_⟩
        intro i hi'
        rw [hi] at hi'
        simp only [List.mem_cons] at hi'
        rcases hi' with rfl | hi'
        · exact ⟨t, mid, c, by simp, hstart, hc', hm⟩
        · exact hs i hi'
      · split at h
        · rename_i hend
          simp only [Option.some.injEq, Prod.mk.injEq] at h
          obtain ⟨rfl, rfl⟩ := h
          exact ⟨Or.inr ⟨t, r, rfl, hend⟩, by simp⟩
        · split at h
          · rename_i hcode
            split at h
            · rename_i is rest' hp
              simp only [Option.some.injEq, Prod.mk.injEq] at h
              obtain ⟨rfl, rfl⟩ := h
              have := ih none is rest' hp
              refine ⟨this.1, ?_⟩
              intro i hi
              simp only [List.mem_cons] at hi
              rcases hi with rfl | hi
              · simpa [ItemShape] using hcode
              · exact this.2 i hi
            · cases h
          · rename_i hcode
            split at h
            · rename_i hown
              split at h
              · rename_i is rest' hp
                simp only [Option.some.injEq, Prod.mk.injEq] at h
                obtain ⟨rfl, rfl⟩ := h
                have := ih none is rest' hp
                refine ⟨this.1, ?_⟩
                intro i hi
                simp only [List.mem_cons] at hi
                rcases hi with rfl | hi
                · simp only [beq_iff_eq] at hown hcode
                  exact ⟨hown, fun e => hcode (by rw [hown, e])⟩
                · exact this.2 i hi
              · cases h
            · cases h

/-! ## `collect_base_class` computes the items: placeholders for groups, groups in `appdata` -/

/-- the base class `collectBase` builds for the items: group `k` becomes the placeholder (102, k) -/
def encode (n : Nat) : List Item → List Tag
  | [] => []
  | .handle t :: is => t :: encode n is
  | .owner t :: is => t :: encode n is
  | .group _ :: is => ⟨102, .ref n⟩ :: encode (n + 1) is

def groupsOf : List Item → List (List Tag)
  | [] => []
  | .group g :: is => g :: groupsOf is
  | _ :: is => groupsOf is

theorem parseItems_collectBase (hc : Nat) (ts : List Tag) (cur : Option (Tag × List Tag)) (items : List Item)
    (rest : List Tag) (b : List Tag) (a : List (List Tag))
    (h : parseItems hc ts cur = some (items, rest)) :
    match cur with
    | none => collectBase ts b a none = some (b ++ encode a.length items, a ++ groupsOf items, rest)
    | some (st, g) => ∃ g' is', items = .group g' :: is' ∧
        collectBase ts b a (some (st, g)) = some (b ++ encode (a.length + 1) is', a ++ g' :: groupsOf is', rest) := by
  induction ts generalizing cur items rest b a with
  | nil =>
    cases cur with
    | none =>
      simp only [parseItems, Option.some.injEq, Prod.mk.injEq] at h; obtain ⟨rfl, rfl⟩ := h
      simp [collectBase, encode, groupsOf]
    | some p => simp [parseItems] at h
  | cons t r ih =>
    cases cur with
    | some p =>
      obtain ⟨st, g⟩ := p
      simp only [parseItems] at h
      split at h
      · rename_i hclose
        split at h
        · rename_i is rest' hp
          simp only [Option.some.injEq, Prod.mk.injEq] at h
          obtain ⟨rfl, rfl⟩ := h
          have := ih none is rest' b (a ++ [g ++ [t]]) hp
          simp only at this
          refine ⟨g ++ [t], is, rfl, ?_⟩
          simp only [collectBase, hclose, if_true, this]
          simp
        · cases h
      · rename_i hclose
        have := ih (some (st, g ++ [t])) items rest b a h
        obtain ⟨g', is', hi, hc'⟩ := this
        refine ⟨g', is', hi, ?_⟩
        simp only [collectBase, hclose]
        exact hc'
    | none =>
      simp only [parseItems] at h
      split at h
      · rename_i hstart
        have := ih (some (t, [t])) items rest (b ++ [⟨t.code, .ref a.length⟩]) a h
        obtain ⟨g', is', hi, hc'⟩ := this
        simp only [collectBase, hstart, if_true, hi, encode, groupsOf]
        rw [hc', isAppStart_code hstart]
        simp
      · rename_i hstart
        split at h
        · rename_i hend
          simp only [Option.some.injEq, Prod.mk.injEq] at h
          obtain ⟨rfl, rfl⟩ := h
          simp [collectBase, hstart, hend, encode, groupsOf]
        · rename_i hend
          split at h
          · split at h
            · rename_i is rest' hp
              simp only [Option.some.injEq, Prod.mk.injEq] at h
              obtain ⟨rfl, rfl⟩ := h
              have := ih none is rest' (b ++ [t]) a hp
              simp only at this
              simp [collectBase, hstart, hend, this, encode, groupsOf]
            · cases h
          · split at h
            · split at h
              · rename_i is rest' hp
                simp only [Option.some.injEq, Prod.mk.injEq] at h
                obtain ⟨rfl, rfl⟩ := h
                have := ih none is rest' (b ++ [t]) a hp
                simp only at this
                simp [collectBase, hstart, hend, this, encode, groupsOf]
              · cases h
            · cases h

/-! ## the part after the base class -/

theorem collectGroups_flatten (s p : Tag → Bool) (ts : List Tag) :
    (collectGroups s p ts).1.flatten ++ (collectGroups s p ts).2 = ts := by
  fun_induction collectGroups s p ts with
  | case1 => rfl
  | case2 t r hs g ih =>
    simp only [List.flatten_cons, List.cons_append, List.append_assoc, g, ih,
      List.takeWhile_append_dropWhile]
  | case3 t r hs => rfl

/-- what `collectGroups` leaves over is empty, or starts with a tag that is no start tag and is either the untouched input or
    a stop tag -/
theorem collectGroups_rem (s p : Tag → Bool) (ts : List Tag) :
    (collectGroups s p ts).2 = [] ∨
      ∃ h tl, (collectGroups s p ts).2 = h :: tl ∧ s h = false ∧ ((collectGroups s p ts).2 = ts ∨ p h = true) := by
  fun_induction collectGroups s p ts with
  | case1 => exact Or.inl rfl
  | case2 t r hs g ih =>
    simp only [g]
    rcases ih with ih | ⟨h, tl, h1, h2, h3⟩
    · exact Or.inl ih
    · refine Or.inr ⟨h, tl, h1, h2, Or.inr ?_⟩
      rcases h3 with h3 | h3
      · -- remainder = dropWhile (not stop) r, so its head is a stop tag
        rw [h3] at h1
        have := List.head?_dropWhile_not (fun x => !p x) r
        rw [h1] at this
        simpa using this
      · exact h3
  | case3 t r hs =>
    refine Or.inr ⟨t, r, rfl, ?_, Or.inl rfl⟩
    simpa using hs

theorem collectGroups_nonempty (s p : Tag → Bool) (ts : List Tag) :
    ∀ g ∈ (collectGroups s p ts).1, ∃ t r, g = t :: r ∧ s t = true := by
  fun_induction collectGroups s p ts with
  | case1 => simp
  | case2 t r hs g ih =>
    intro x hx
    simp only [List.mem_cons] at hx
    rcases hx with rfl | hx
    · exact ⟨t, _, rfl, hs⟩
    · exact ih x hx
  | case3 t r hs => simp

/-- after subclasses, embedded objects and XDATA nothing is left, when the rest starts at an end-of-class tag -/
theorem rest_consumed (rest : List Tag) (h : HeadEnd rest) :
    let subs := collectGroups (fun t => t.code == 100) isEndOfClass rest
    let emb := collectGroups isEO (fun t => isEO t || t.code == 1001) subs.2
    (collectGroups (fun t => t.code == 1001) (fun t => t.code == 1001) emb.2).2 = [] := by
  intro subs emb
  -- head of subs.2: an end-of-class tag that is no subclass marker
  have h2 : subs.2 = [] ∨ ∃ x tl, subs.2 = x :: tl ∧ (isEO x = true ∨ x.code = 1001) := by
    rcases collectGroups_rem (fun t => t.code == 100) isEndOfClass rest with e | ⟨x, tl, e1, e2, e3⟩
    · exact Or.inl e
    · refine Or.inr ⟨x, tl, e1, ?_⟩
      have hx : isEndOfClass x = true := by
        rcases e3 with e3 | e3
        · have e4 := e3.symm.trans e1
          rcases h with h | ⟨y, tl', hy, hy'⟩
          · rw [h] at e4; cases e4
          · rw [hy] at e4; cases e4; exact hy'
        · exact e3
      simp only [beq_eq_false_iff_ne, ne_eq] at e2
      simp only [isEndOfClass, Bool.or_eq_true, beq_iff_eq] at hx
      rcases hx with (hx | hx) | hx
      · exact absurd hx e2
      · exact Or.inl hx
      · exact Or.inr hx
  have h3 : emb.2 = [] ∨ ∃ x tl, emb.2 = x :: tl ∧ x.code = 1001 := by
    rcases collectGroups_rem isEO (fun t => isEO t || t.code == 1001) subs.2 with e | ⟨x, tl, e1, e2, e3⟩
    · exact Or.inl e
    · refine Or.inr ⟨x, tl, e1, ?_⟩
      rcases e3 with e3 | e3
      · have e4 := e3.symm.trans e1
        rcases h2 with h2 | ⟨y, tl', hy, hy'⟩
        · rw [h2] at e4; cases e4
        · rw [hy] at e4; cases e4
          rcases hy' with hy' | hy'
          · rw [hy'] at e2; cases e2
          · exact hy'
      · simp only [Bool.or_eq_true, beq_iff_eq] at e3
        rcases e3 with e3 | e3
        · rw [e3] at e2; cases e2
        · exact e3
  rcases collectGroups_rem (fun t => t.code == 1001) (fun t => t.code == 1001) emb.2 with e | ⟨x, tl, e1, e2, e3⟩
  · exact e
  · exfalso
    simp only [beq_eq_false_iff_ne, ne_eq] at e2
    rcases e3 with e3 | e3
    · have e4 := e3.symm.trans e1
      rcases h3 with h3 | ⟨y, tl', hy, hy'⟩
      · rw [h3] at e4; cases e4
      · rw [hy] at e4; cases e4; exact e2 hy'
    · simp only [beq_iff_eq] at e3; exact e2 e3

/-! ## dict and set containers -/

theorem nodupV_iff (l : List V) : nodupV l = true ↔ l.Nodup := by
  induction l with
  | nil => simp [nodupV]
  | cons a r ih => simp [nodupV, List.nodup_cons, ih]

theorem nodupN_iff (l : List Nat) : nodupN l = true ↔ l.Nodup := by
  induction l with
  | nil => simp [nodupN]
  | cons a r ih => simp [nodupN, List.nodup_cons, ih]

theorem dictSet_fresh {β : Type} (d : List (V × β)) (k : V) (v : β) (h : k ∉ d.map (·.1)) :
    dictSet d k v = d ++ [(k, v)] := by
  unfold dictSet
  have : d.any (fun p => p.1 == k) = false := by
    rw [Bool.eq_false_iff]
    intro hc
    rw [List.any_eq_true] at hc
    obtain ⟨x, hx, hk⟩ := hc
    simp only [beq_iff_eq] at hk
    exact h (by rw [← hk]; exact List.mem_map_of_mem hx)
  simp [this]

theorem dedup_of_nodup_map (f : V → Nat) (l : List V) (h : (l.map f).Nodup) : dedup l = l := by
  induction l with
  | nil => rfl
  | cons a r ih =>
    simp only [List.map_cons, List.nodup_cons] at h
    simp only [dedup, ih h.2]
    congr 1
    rw [List.filter_eq_self]
    intro b hb
    simp only [bne_iff_ne, ne_eq]
    intro e
    subst e
    exact h.1 (List.mem_map_of_mem hb)

theorem xdataLoad_spec (gs : List (List Tag)) (d : List (V × List Tag))
    (hne : ∀ g ∈ gs, ∃ t r, g = t :: r) (hv : ∀ g ∈ gs, g.all validX = true)
    (hk : (d.map (·.1) ++ gs.map groupKey).Nodup) :
    xdataLoad gs d = d ++ gs.map (fun g => (groupKey g, g)) := by
  induction gs generalizing d with
  | nil => simp [xdataLoad]
  | cons g r ih =>
    obtain ⟨t, tl, rfl⟩ := hne _ (List.mem_cons_self)
    have hf : (t :: tl).filter validX = t :: tl := by
      rw [List.filter_eq_self]
      have := hv _ (List.mem_cons_self)
      rw [List.all_eq_true] at this
      exact this
    simp only [xdataLoad, hf]
    have hfresh : t.val ∉ d.map (·.1) := by
      intro hm
      rw [List.nodup_append] at hk
      exact hk.2.2 _ hm _ (by simp [groupKey]) rfl
    rw [dictSet_fresh d t.val (t :: tl) hfresh]
    rw [ih (d ++ [(t.val, t :: tl)]) (fun g hg => hne g (List.mem_cons_of_mem _ hg))
      (fun g hg => hv g (List.mem_cons_of_mem _ hg))
      (by simpa [groupKey, List.append_assoc] using hk)]
    simp [groupKey]

theorem xdata_flatten (gs : List (List Tag)) (hv : ∀ g ∈ gs, g.all validX = true) :
    ((gs.map (fun g => (groupKey g, g))).map (fun p => p.2.filter validX)).flatten = gs.flatten := by
  induction gs with
  | nil => rfl
  | cons g r ih =>
    have hf : g.filter validX = g := by
      rw [List.filter_eq_self]
      have := hv _ (List.mem_cons_self)
      rw [List.all_eq_true] at this
      exact this
    simp only [List.map_cons, List.flatten_cons, hf]
    rw [ih (fun g hg => hv g (List.mem_cons_of_mem _ hg))]

/-! ## `setup_app_data` on the groups of well-formed items -/

def othersOf : List Item → List (V × List Tag)
  | [] => []
  | i :: is => if i.kind == .appdata then (groupKey i.tags, i.tags) :: othersOf is else othersOf is

def xdictOf : List Item → Option V
  | [] => none
  | i :: is =>
    if i.kind == .xdict then (match i.tags with | [_, h, _] => some h.val | _ => none) else xdictOf is

def reactorsOf : List Item → Option (List V)
  | [] => none
  | i :: is => if i.kind == .reactors then some ((groupBody i.tags).map (·.val)) else reactorsOf is

theorem countKind_cons (k : BasePart) (i : Item) (is : List Item) :
    countKind k (i :: is) = (if i.kind == k then 1 else 0) + countKind k is := by
  simp only [countKind, List.filter_cons]
  split <;> simp <;> omega

theorem groupBody_shape (st : Tag) (mid : List Tag) (c : Tag) : groupBody (st :: (mid ++ [c])) = mid := by
  simp [groupBody]

theorem kind_group (g : List Tag) :
    (Item.group g).kind = (if groupKey g == .str acadReactors then BasePart.reactors
      else if groupKey g == .str acadXDictionary then .xdict else .appdata) := rfl

theorem kind_of_shape (st : Tag) (r : List Tag) :
    (Item.group (st :: r)).kind = (if st.val == .str acadReactors then BasePart.reactors
      else if st.val == .str acadXDictionary then .xdict else .appdata) := rfl

theorem getLast_shape (st : Tag) (mid : List Tag) (c : Tag) : (st :: (mid ++ [c])).getLast? = some c := by
  rw [show st :: (mid ++ [c]) = (st :: mid) ++ [c] from rfl, List.getLast?_append]; simp

theorem setupApp_spec (alive : V → Bool) (hc : Nat) (items : List Item) (ad : AD)
    (hs : ∀ i ∈ items, ItemShape hc i) (hw : items.all (itemWF alive) = true)
    (hk : (ad.appdata.map (·.1) ++ (othersOf items).map (·.1)).Nodup)
    (hx : countKind .xdict items ≤ 1) (hx' : ad.xdict.isSome = true → countKind .xdict items = 0)
    (hr : countKind .reactors items ≤ 1) (hr' : ad.reactors.isSome = true → countKind .reactors items = 0) :
    setupApp (groupsOf items) ad
      = .ok ⟨ad.appdata ++ othersOf items, ad.xdict.or (xdictOf items), ad.reactors.or (reactorsOf items)⟩ := by
  induction items generalizing ad with
  | nil => simp [groupsOf, setupApp, othersOf, xdictOf, reactorsOf]
  | cons i is ih =>
    have hs' : ∀ j ∈ is, ItemShape hc j := fun j hj => hs j (List.mem_cons_of_mem _ hj)
    have hwi : itemWF alive i = true := by
      rw [List.all_eq_true] at hw; exact hw i List.mem_cons_self
    have hw' : is.all (itemWF alive) = true := by
      rw [List.all_eq_true] at hw ⊢; exact fun j hj => hw j (List.mem_cons_of_mem _ hj)
    rw [countKind_cons] at hx hr hx' hr'
    cases i with
    | handle t =>
      simp only [Item.kind] at hx hr hx' hr'
      have := ih ad hs' hw' (by simpa [othersOf, Item.kind] using hk) (by simpa using hx) (by simpa using hx')
        (by simpa using hr) (by simpa using hr')
      simpa [groupsOf, othersOf, xdictOf, reactorsOf, Item.kind] using this
    | owner t =>
      simp only [Item.kind] at hx hr hx' hr'
      have := ih ad hs' hw' (by simpa [othersOf, Item.kind] using hk) (by simpa using hx) (by simpa using hx')
        (by simpa using hr) (by simpa using hr')
      simpa [groupsOf, othersOf, xdictOf, reactorsOf, Item.kind] using this
    | group g =>
      obtain ⟨st, mid, c, rfl, hst, hcl, hmid⟩ := hs _ List.mem_cons_self
      simp only [itemWF, groupWF, Bool.and_eq_true, getLast_shape, groupBody_shape,
        show groupKey (st :: (mid ++ [c])) = st.val from rfl] at hwi
      obtain ⟨hlast, hwg⟩ := hwi
      have hc' : c = closeBrace := by simpa using hlast
      simp only [groupsOf, setupApp]
      by_cases hre : st.val = .str acadReactors
      · -- reactors group
        have hkind : (Item.group (st :: (mid ++ [c]))).kind = .reactors := by
          rw [kind_of_shape]; simp [hre]
        simp only [hkind, beq_self_eq_true, if_true] at hx hr hx' hr'
        have hx2 : ((BasePart.reactors == BasePart.xdict) = true) = False := by decide
        simp only [hx2, if_false, Nat.zero_add] at hx hx'
        have hcnt : countKind .reactors is = 0 := by omega
        have hnone : ad.reactors = none := by
          cases hh : ad.reactors with
          | none => rfl
          | some v => have := hr' (by simp [hh]); omega
        simp only [hre, beq_self_eq_true, if_true, Bool.and_eq_true] at hwg
        obtain ⟨⟨hall, hnd⟩, hne⟩ := hwg
        have hdd : dedup (mid.map (·.val)) = mid.map (·.val) := by
          apply dedup_of_nodup_map (fun v => (hexKeyV v).getD 0)
          rw [nodupN_iff] at hnd
          rw [List.map_map]
          exact hnd
        have hstep : setupAppStep ad (st :: (mid ++ [c]))
            = .ok { ad with reactors := some (mid.map (·.val)) } := by
          simp only [setupAppStep, hre, beq_self_eq_true, if_true, List.dropLast_concat, hdd]
        rw [hstep]
        simp only
        have := ih { ad with reactors := some (mid.map (·.val)) } hs' hw'
          (by simpa [othersOf, hkind] using hk) hx hx' (by omega) (fun _ => hcnt)
        rw [this]
        simp [othersOf, xdictOf, reactorsOf, hkind, hnone, Item.tags, groupBody_shape]
      · by_cases hxd : st.val = .str acadXDictionary
        · -- extension dictionary group
          have hne : ¬ (acadXDictionary = acadReactors) := by decide
          have hkind : (Item.group (st :: (mid ++ [c]))).kind = .xdict := by
            rw [kind_of_shape]; simp [hxd, hne]
          simp only [hkind, beq_self_eq_true, if_true] at hx hr hx' hr'
          have hx2 : ((BasePart.xdict == BasePart.reactors) = true) = False := by decide
          simp only [hx2, if_false, Nat.zero_add] at hr hr'
          have hcnt : countKind .xdict is = 0 := by omega
          have hnone : ad.xdict = none := by
            cases hh : ad.xdict with
            | none => rfl
            | some v => have := hx' (by simp [hh]); omega
          simp only [hxd, V.str.injEq, hne, beq_iff_eq, if_false, if_true] at hwg
          -- the group has exactly three tags
          match mid, hwg with
          | [h], hwg =>
            simp only [List.cons_append, List.nil_append, Bool.and_eq_true, beq_iff_eq] at hwg
            have hkind' : (Item.group [st, h, c]).kind = .xdict := hkind
            have hstep : setupAppStep ad (st :: ([h] ++ [c])) = .ok { ad with xdict := some h.val } := by
              simp [setupAppStep, hxd, hne, hwg.1]
            rw [hstep]
            simp only
            have := ih { ad with xdict := some h.val } hs' hw'
              (by simpa [othersOf, hkind'] using hk) (by omega) (fun _ => hcnt) hr hr'
            rw [this]
            simp [othersOf, xdictOf, reactorsOf, hkind', hnone, Item.tags]
          | [], hwg => simp at hwg
          | _ :: _ :: _, hwg => simp at hwg
        · -- other application data
          have hkind : (Item.group (st :: (mid ++ [c]))).kind = .appdata := by
            rw [kind_of_shape]; simp [hre, hxd]
          simp only [hkind] at hx hr hx' hr'
          have hx2 : ((BasePart.appdata == BasePart.reactors) = true) = False := by decide
          have hx3 : ((BasePart.appdata == BasePart.xdict) = true) = False := by decide
          simp only [hx2, hx3, if_false, Nat.zero_add] at hx hr hx' hr'
          have hstep : setupAppStep ad (st :: (mid ++ [c]))
              = .ok { ad with appdata := dictSet ad.appdata st.val (st :: (mid ++ [c])) } := by
            simp only [setupAppStep, beq_iff_eq, hre, hxd, if_false, getLast_shape, hc', if_true]
          rw [hstep]
          simp only
          have hfresh : st.val ∉ ad.appdata.map (·.1) := by
            intro hm
            rw [List.nodup_append] at hk
            exact hk.2.2 _ hm _ (by simp [othersOf, hkind, Item.tags, groupKey]) rfl
          rw [dictSet_fresh _ _ _ hfresh]
          have := ih { ad with appdata := ad.appdata ++ [(st.val, st :: (mid ++ [c]))] } hs' hw'
            (by simpa [othersOf, hkind, Item.tags, groupKey, List.append_assoc] using hk) hx hx' hr hr'
          rw [this]
          simp [othersOf, xdictOf, reactorsOf, hkind, Item.tags, groupKey]

/-! ## the handle / owner scan of `DXFNamespace.__init__` -/

def hOf : List Item → Option V
  | [] => none
  | .handle t :: _ => some t.val
  | _ :: is => hOf is

def oOf : List Item → Option V
  | [] => none
  | .owner t :: _ => some t.val
  | _ :: is => oOf is

theorem hcOf_cases (v : V) : hcOf v = 5 ∨ hcOf v = 105 := by
  unfold hcOf; split <;> simp

theorem scanHO_spec (hc n : Nat) (items : List Item) (h o : Option V) (hs : ∀ i ∈ items, ItemShape hc i)
    (hc2 : hc ≠ 102)
    (hh : countKind .handle items + (if h.isSome then 1 else 0) = 1)
    (ho : countKind .owner items + (if o.isSome then 1 else 0) = 1) :
    scanHO hc (encode n items) h o = (h.or (hOf items), o.or (oOf items)) := by
  induction items generalizing n h o with
  | nil => simp [encode, scanHO, hOf, oOf]
  | cons i is ih =>
    have hs' : ∀ j ∈ is, ItemShape hc j := fun j hj => hs j (List.mem_cons_of_mem _ hj)
    rw [countKind_cons] at hh ho
    cases i with
    | handle t =>
      have hcode : t.code = hc := hs _ List.mem_cons_self
      simp only [Item.kind, beq_self_eq_true, if_true] at hh
      have hx2 : ((BasePart.handle == BasePart.owner) = true) = False := by decide
      simp only [Item.kind, hx2, if_false, Nat.zero_add] at ho
      have hnone : h = none := by
        cases h with
        | none => rfl
        | some v => simp at hh <;> omega
      subst hnone
      simp only [encode, scanHO, hcode, beq_self_eq_true, if_true]
      split
      · rename_i htr
        cases o with
        | none => simp [optTruthy] at htr
        | some ov => simp [hOf]
      · rw [ih n (some t.val) o hs' (by simp; omega) ho]
        simp [hOf, oOf]
    | owner t =>
      obtain ⟨hcode, hne⟩ := hs _ List.mem_cons_self
      simp only [Item.kind, beq_self_eq_true, if_true] at ho
      have hx2 : ((BasePart.owner == BasePart.handle) = true) = False := by decide
      simp only [Item.kind, hx2, if_false, Nat.zero_add] at hh
      have hnone : o = none := by
        cases o with
        | none => rfl
        | some v => simp at ho <;> omega
      subst hnone
      have hne' : ((330 : Nat) == hc) = false := by
        rw [beq_eq_false_iff_ne]; exact fun e => hne e.symm
      simp only [encode, scanHO, hcode, hne', beq_self_eq_true, if_true, Bool.false_eq_true, if_false]
      split
      · rename_i htr
        cases h with
        | none => simp [optTruthy] at htr
        | some hv => simp [oOf]
      · rw [ih n h (some t.val) hs' hh (by simp; omega)]
        simp [oOf, hOf]
    | group g =>
      have e1 : ((Item.group g).kind == BasePart.handle) = false := by
        rw [kind_group]; split <;> (try split) <;> decide
      have e2 : ((Item.group g).kind == BasePart.owner) = false := by
        rw [kind_group]; split <;> (try split) <;> decide
      simp only [e1, e2, Bool.false_eq_true, if_false, Nat.zero_add] at hh ho
      have h1 : ((102 : Nat) == hc) = false := by
        rw [beq_eq_false_iff_ne]; exact fun e => hc2 e.symm
      simp only [encode, scanHO, h1, Bool.false_eq_true, if_false]
      have h2 : ((102 : Nat) == 330) = false := by decide
      simp only [h2, Bool.false_eq_true, if_false]
      rw [ih (n + 1) h o hs' hh ho]
      simp [hOf, oOf]

/-! ## sorting -/

theorem mem_insertBy {α : Type} (k : α → Nat) (a x : α) (l : List α) : x ∈ insertBy k a l ↔ x = a ∨ x ∈ l := by
  induction l with
  | nil => simp [insertBy]
  | cons b r ih =>
    simp only [insertBy]
    split
    · simp
    · simp only [List.mem_cons, ih]
      constructor
      · rintro (h | h | h) <;> simp [h]
      · rintro (h | h | h) <;> simp [h]

theorem mem_isort {α : Type} (k : α → Nat) (x : α) (l : List α) : x ∈ isort k l ↔ x ∈ l := by
  induction l with
  | nil => simp [isort]
  | cons a r ih => simp [isort, mem_insertBy, ih]

theorem insertBy_map {α β : Type} (k : β → Nat) (f : α → β) (a : α) (l : List α) :
    insertBy k (f a) (l.map f) = (insertBy (fun x => k (f x)) a l).map f := by
  induction l with
  | nil => rfl
  | cons b r ih =>
    simp only [List.map_cons, insertBy]
    split
    · rfl
    · simp [ih]

theorem isort_map {α β : Type} (k : β → Nat) (f : α → β) (l : List α) :
    isort k (l.map f) = (isort (fun x => k (f x)) l).map f := by
  induction l with
  | nil => rfl
  | cons a r ih => simp only [List.map_cons, isort, ih, insertBy_map]

theorem insertBy_perm {α : Type} (k : α → Nat) (a : α) (l : List α) : (insertBy k a l).Perm (a :: l) := by
  induction l with
  | nil => exact List.Perm.refl _
  | cons b r ih =>
    simp only [insertBy]
    split
    · exact List.Perm.refl _
    · exact (List.Perm.cons b ih).trans (List.Perm.swap a b r)

theorem isort_perm {α : Type} (k : α → Nat) (l : List α) : (isort k l).Perm l := by
  induction l with
  | nil => exact List.Perm.refl _
  | cons a r ih => exact (insertBy_perm k a _).trans (List.Perm.cons a ih)

/-- sorting a strictly ascending list changes nothing -/
theorem isort_ascending {α : Type} (k : α → Nat) (l : List α) (h : ascending (l.map k) = true) : isort k l = l := by
  induction l with
  | nil => rfl
  | cons a r ih =>
    cases r with
    | nil => rfl
    | cons b r' =>
      simp only [List.map_cons, ascending, Bool.and_eq_true, decide_eq_true_eq] at h
      have := ih (by simpa [ascending] using h.2)
      simp only [isort] at this ⊢
      rw [this]
      simp [insertBy, h.1]

/-! ## the exported base class is the canonical arrangement of the items -/

theorem ofKind_cons (k : BasePart) (i : Item) (is : List Item) :
    ofKind k (i :: is) = (if i.kind == k then i.normTags else []) ++ ofKind k is := by
  simp only [ofKind, List.filter_cons]
  split <;> simp

theorem ofKind_zero (k : BasePart) (items : List Item) (h : countKind k items = 0) : ofKind k items = [] := by
  simp only [countKind, List.length_eq_zero_iff] at h
  simp [ofKind, h]

theorem ofKind_appdata (items : List Item) :
    ofKind .appdata items = ((othersOf items).map (·.2)).flatten := by
  induction items with
  | nil => rfl
  | cons i is ih =>
    rw [ofKind_cons, othersOf]
    by_cases h : i.kind = .appdata
    · have : i.normTags = i.tags := by
        simp [Item.normTags, h]
      simp [h, this, ih]
    · simp [h, ih]

theorem tag_eta (t : Tag) : (⟨t.code, t.val⟩ : Tag) = t := by cases t; rfl

theorem ofKind_xdict (alive : V → Bool) (hc : Nat) (items : List Item)
    (hs : ∀ i ∈ items, ItemShape hc i) (hw : items.all (itemWF alive) = true)
    (hx : countKind .xdict items ≤ 1) :
    ofKind .xdict items = xdictOut alive (xdictOf items) := by
  induction items with
  | nil => rfl
  | cons i is ih =>
    have hs' : ∀ j ∈ is, ItemShape hc j := fun j hj => hs j (List.mem_cons_of_mem _ hj)
    have hwi : itemWF alive i = true := by
      rw [List.all_eq_true] at hw; exact hw i List.mem_cons_self
    have hw' : is.all (itemWF alive) = true := by
      rw [List.all_eq_true] at hw ⊢; exact fun j hj => hw j (List.mem_cons_of_mem _ hj)
    rw [countKind_cons] at hx
    rw [ofKind_cons, xdictOf]
    by_cases hk : i.kind = .xdict
    · simp only [hk, beq_self_eq_true, if_true] at hx ⊢
      rw [ofKind_zero _ _ (by omega)]
      cases i with
      | handle t => simp [Item.kind] at hk
      | owner t => simp [Item.kind] at hk
      | group g =>
        obtain ⟨st, mid, c, rfl, hst, hcl, hmid⟩ := hs _ List.mem_cons_self
        rw [kind_of_shape] at hk
        have hre : ¬ st.val = .str acadReactors := by
          intro e; simp [e] at hk
        have hxd : st.val = .str acadXDictionary := by
          by_cases e : st.val = .str acadXDictionary
          · exact e
          · simp [hre, e] at hk
        have hne : ¬ (acadXDictionary = acadReactors) := by decide
        simp only [itemWF, groupWF, Bool.and_eq_true, getLast_shape,
          show groupKey (st :: (mid ++ [c])) = st.val from rfl, hxd, V.str.injEq, hne, beq_iff_eq,
          if_false, if_true] at hwi
        obtain ⟨hlast, hwg⟩ := hwi
        have hc' : c = closeBrace := by simpa using hlast
        match mid, hwg with
        | [h], hwg =>
          simp only [List.cons_append, List.nil_append, Bool.and_eq_true, beq_iff_eq] at hwg
          have hn : (Item.group [st, h, c]).normTags = [st, h, c] := by
            have : (Item.group [st, h, c]).kind = .xdict := by
              rw [kind_of_shape]; simp [hxd, hne]
            simp [Item.normTags, this, Item.tags]
          have hst' : st = ⟨102, .str acadXDictionary⟩ := by
            rw [← tag_eta st, isAppStart_code hst, hxd]
          have hh : h = ⟨360, h.val⟩ := by
            rw [← tag_eta h, hwg.1]; rfl
          simp only [List.cons_append, List.nil_append, hn, Item.tags, List.append_nil, xdictOut, hwg.2, if_true]
          rw [hst', hc']
          conv => lhs; rw [hh]
          rfl
        | [], hwg => simp at hwg
        | _ :: _ :: _, hwg => simp at hwg
    · have hk' : (i.kind == BasePart.xdict) = false := by simpa using hk
      simp only [hk', Bool.false_eq_true, if_false, Nat.zero_add, List.nil_append] at hx ⊢
      exact ih hs' hw' hx

end EzdxfVerif.Storage

/-
The Bézier approximation of a circular arc (`cubic_bezier_arc_parameters`, Model/BBoxTree.lean: `arcSegment`,
`rotByQuarterTan`) reaches every axis extreme of the arc: for a segment that crosses a ray from the center (direction
`d`), the curve has a point ON that ray at distance >= 1 (intermediate value theorem over the reals for the cubic,
radial identity of Lemmas/BBoxSelect.lean carried over to real parameters).
-/
import Mathlib.Analysis.SpecialFunctions.Trigonometric.Inverse
import Mathlib.Analysis.SpecialFunctions.Trigonometric.Arctan
import Mathlib.Tactic.LinearCombination
import Mathlib.Tactic.FieldSimp
import Mathlib.Tactic.Linarith
import Mathlib.Tactic.Ring
import EzdxfVerif.Model.BBoxTree
namespace EzdxfVerif.BBox.Lemmas
open EzdxfVerif.BBox

/-- the cubic Bézier polynomial with real parameter (Bernstein form) -/
noncomputable def bezR (a0 a1 a2 a3 : ℝ) (t : ℝ) : ℝ :=
  (1 - t) ^ 3 * a0 + 3 * (1 - t) ^ 2 * t * a1 + 3 * (1 - t) * t ^ 2 * a2 + t ^ 3 * a3

/-- at rational parameters it is the model's `bezier4` -/
theorem bezR_cast (p0 p1 p2 p3 t : ℚ) : bezR p0 p1 p2 p3 t = ((bezier4 p0 p1 p2 p3 t : ℚ) : ℝ) := by
  unfold bezR bezier4; push_cast; ring

theorem bezR_continuous (a0 a1 a2 a3 : ℝ) : Continuous (bezR a0 a1 a2 a3) := by
  unfold bezR; fun_prop

theorem bezR_pos (a0 a1 a2 a3 t : ℝ) (h0 : 0 ≤ t) (h1 : t ≤ 1) (p0 : 0 < a0) (p1 : 0 < a1) (p2 : 0 < a2) (p3 : 0 < a3) :
    0 < bezR a0 a1 a2 a3 t := by
  unfold bezR
  have hu : 0 ≤ 1 - t := by linarith
  rcases eq_or_lt_of_le h0 with rfl | ht
  · simp; exact p0
  · have : 0 < t ^ 3 * a3 := by positivity
    have : 0 ≤ (1 - t) ^ 3 * a0 := by positivity
    have : 0 ≤ 3 * (1 - t) ^ 2 * t * a1 := by positivity
    have : 0 ≤ 3 * (1 - t) * t ^ 2 * a2 := by positivity
    linarith

/-- the control points of the segment that starts at `s`, as reals -/
noncomputable def arcX (u : ℚ) (s : V2) (t : ℝ) : ℝ :=
  let cp := arcSegment s (rotByQuarterTan u s) (arcTangentLength u)
  bezR cp.1.x cp.2.1.x cp.2.2.1.x cp.2.2.2.x t

noncomputable def arcY (u : ℚ) (s : V2) (t : ℝ) : ℝ :=
  let cp := arcSegment s (rotByQuarterTan u s) (arcTangentLength u)
  bezR cp.1.y cp.2.1.y cp.2.2.1.y cp.2.2.2.y t

/-- the radial identity for real parameters -/
theorem arc_norm2_real (u : ℚ) (s : V2) (t : ℝ) :
    arcX u s t ^ 2 + arcY u s t ^ 2 =
      ((s.x : ℝ) ^ 2 + (s.y : ℝ) ^ 2) * (1 + (u : ℝ) ^ 6 * (2 * t - 1) ^ 2 * (1 - (2 * t - 1) ^ 2) ^ 2 / (1 + (u : ℝ) ^ 2) ^ 2) := by
  have hpos : (1 + (u : ℝ) ^ 2) ≠ 0 := by positivity
  have hpos' : (1 + (u : ℝ) * u) ≠ 0 := by nlinarith [mul_self_nonneg (u : ℝ)]
  simp only [arcX, arcY, arcSegment, rotByQuarterTan, arcTangentLength, bezR]
  push_cast
  field_simp
  ring

theorem arc_norm2_real_ge (u : ℚ) (s : V2) (hs : s.x * s.x + s.y * s.y = 1) (t : ℝ) :
    1 ≤ arcX u s t ^ 2 + arcY u s t ^ 2 := by
  rw [arc_norm2_real]
  have h1 : ((s.x : ℝ) ^ 2 + (s.y : ℝ) ^ 2) = 1 := by
    have := congrArg (fun q : ℚ => (q : ℝ)) hs
    push_cast at this
    nlinarith [this]
  rw [h1, one_mul]
  have : 0 ≤ (u : ℝ) ^ 6 * (2 * t - 1) ^ 2 * (1 - (2 * t - 1) ^ 2) ^ 2 / (1 + (u : ℝ) ^ 2) ^ 2 := by positivity
  linarith

/-- Every ray from the center that the segment crosses is reached at distance >= 1: if the start point `s` is on or
    to the right of the ray with unit direction `d`, the end point `e` on or to the left, and both are in front of the
    center (`d . s > 0`, `d . e > 0`: the segment spans at most 180 degrees around `d`), then some point `B(t)` of the
    approximating curve lies on the ray (`d x B(t) = 0`) with `d . B(t) >= 1`. -/
theorem arc_ray_reached (u : ℚ) (s d : V2) (hs : s.x * s.x + s.y * s.y = 1) (hd : d.x * d.x + d.y * d.y = 1) (hu : 0 ≤ u)
    (hcs : d.x * s.y - d.y * s.x ≤ 0)
    (hce : 0 ≤ d.x * (rotByQuarterTan u s).y - d.y * (rotByQuarterTan u s).x)
    (hds : 0 < d.x * s.x + d.y * s.y)
    (hde : 0 < d.x * (rotByQuarterTan u s).x + d.y * (rotByQuarterTan u s).y) :
    ∃ t : ℝ, 0 ≤ t ∧ t ≤ 1 ∧ (d.x : ℝ) * arcY u s t - d.y * arcX u s t = 0 ∧ 1 ≤ (d.x : ℝ) * arcX u s t + d.y * arcY u s t := by
  set e := rotByQuarterTan u s with he
  set L := arcTangentLength u with hL
  have hL0 : 0 ≤ L := by simp only [hL, arcTangentLength]; linarith
  -- cross and dot products of the curve with d are Bézier polynomials of the cross and dot products of the control points
  have hcross : ∀ t : ℝ, (d.x : ℝ) * arcY u s t - d.y * arcX u s t =
      bezR ((d.x * s.y - d.y * s.x : ℚ)) ((d.x * (s.y + s.x * L) - d.y * (s.x + -s.y * L) : ℚ))
        ((d.x * (e.y + -e.x * L) - d.y * (e.x + e.y * L) : ℚ)) ((d.x * e.y - d.y * e.x : ℚ)) t := by
    intro t
    simp only [arcX, arcY, arcSegment, bezR, ← he, ← hL]
    push_cast; ring
  have hdot : ∀ t : ℝ, (d.x : ℝ) * arcX u s t + d.y * arcY u s t =
      bezR ((d.x * s.x + d.y * s.y : ℚ)) ((d.x * (s.x + -s.y * L) + d.y * (s.y + s.x * L) : ℚ))
        ((d.x * (e.x + e.y * L) + d.y * (e.y + -e.x * L) : ℚ)) ((d.x * e.x + d.y * e.y : ℚ)) t := by
    intro t
    simp only [arcX, arcY, arcSegment, bezR, ← he, ← hL]
    push_cast; ring
  -- intermediate value theorem for the cross product
  have hcont : ContinuousOn (fun t : ℝ => (d.x : ℝ) * arcY u s t - d.y * arcX u s t) (Set.Icc 0 1) := by
    have : (fun t : ℝ => (d.x : ℝ) * arcY u s t - d.y * arcX u s t) = bezR _ _ _ _ := funext hcross
    rw [this]; exact (bezR_continuous _ _ _ _).continuousOn
  have h0v : (d.x : ℝ) * arcY u s 0 - d.y * arcX u s 0 ≤ 0 := by
    rw [hcross]; simp only [bezR]; norm_num
    have := (Rat.cast_le (K := ℝ)).mpr hcs
    push_cast at this
    linarith
  have h1v : 0 ≤ (d.x : ℝ) * arcY u s 1 - d.y * arcX u s 1 := by
    rw [hcross]; simp only [bezR]; norm_num
    have := (Rat.cast_le (K := ℝ)).mpr hce
    push_cast at this
    linarith
  obtain ⟨t, ⟨t0, t1⟩, ht⟩ := intermediate_value_Icc (zero_le_one) hcont ⟨h0v, h1v⟩
  have ht : (d.x : ℝ) * arcY u s t - d.y * arcX u s t = 0 := ht
  refine ⟨t, t0, t1, ht, ?_⟩
  -- the dot product is positive: all four control values are
  have c1 : (0 : ℚ) < d.x * (s.x + -s.y * L) + d.y * (s.y + s.x * L) := by nlinarith
  have c2 : (0 : ℚ) < d.x * (e.x + e.y * L) + d.y * (e.y + -e.x * L) := by nlinarith
  have hg : 0 < (d.x : ℝ) * arcX u s t + d.y * arcY u s t := by
    rw [hdot]
    exact bezR_pos _ _ _ _ t t0 t1 (by exact_mod_cast hds) (by exact_mod_cast c1) (by exact_mod_cast c2) (by exact_mod_cast hde)
  -- |B|^2 = dot^2 + cross^2 >= 1
  have hd' : (d.x : ℝ) ^ 2 + (d.y : ℝ) ^ 2 = 1 := by
    have := congrArg (fun q : ℚ => (q : ℝ)) hd
    push_cast at this
    nlinarith [this]
  have hn := arc_norm2_real_ge u s hs t
  have hsum : ((d.x : ℝ) * arcX u s t + d.y * arcY u s t) ^ 2 + ((d.x : ℝ) * arcY u s t - d.y * arcX u s t) ^ 2 =
      arcX u s t ^ 2 + arcY u s t ^ 2 := by
    have : ((d.x : ℝ) * arcX u s t + d.y * arcY u s t) ^ 2 + ((d.x : ℝ) * arcY u s t - d.y * arcX u s t) ^ 2 =
        ((d.x : ℝ) ^ 2 + (d.y : ℝ) ^ 2) * (arcX u s t ^ 2 + arcY u s t ^ 2) := by ring
    rw [this, hd', one_mul]
  rw [ht] at hsum
  nlinarith


/-! ## real parameters and angles: the statement about arcs -/

/-- `rotByQuarterTan` with real arguments -/
noncomputable def rotQ (u sx sy : ℝ) : ℝ × ℝ :=
  (sx * (((1 - u * u) / (1 + u * u)) * ((1 - u * u) / (1 + u * u)) - (2 * u / (1 + u * u)) * (2 * u / (1 + u * u))) -
      sy * (2 * (2 * u / (1 + u * u)) * ((1 - u * u) / (1 + u * u))),
   sy * (((1 - u * u) / (1 + u * u)) * ((1 - u * u) / (1 + u * u)) - (2 * u / (1 + u * u)) * (2 * u / (1 + u * u))) +
      sx * (2 * (2 * u / (1 + u * u)) * ((1 - u * u) / (1 + u * u))))

/-- the approximating curve of the segment that starts at `(sx, sy)` with `u = tan(segment_angle / 4)`, real arguments
    (`arcSegment` with `arcTangentLength`) -/
noncomputable def arcXr (u sx sy t : ℝ) : ℝ :=
  bezR sx (sx + -sy * (4 / 3 * u)) ((rotQ u sx sy).1 + (rotQ u sx sy).2 * (4 / 3 * u)) (rotQ u sx sy).1 t

noncomputable def arcYr (u sx sy t : ℝ) : ℝ :=
  bezR sy (sy + sx * (4 / 3 * u)) ((rotQ u sx sy).2 + -(rotQ u sx sy).1 * (4 / 3 * u)) (rotQ u sx sy).2 t

/-- for rational arguments these are the model's curve -/
theorem arcXr_cast (u : ℚ) (s : V2) (t : ℝ) : arcXr u s.x s.y t = arcX u s t ∧ arcYr u s.x s.y t = arcY u s t := by
  simp only [arcXr, arcYr, arcX, arcY, rotQ, arcSegment, rotByQuarterTan, arcTangentLength, bezR]
  push_cast
  exact ⟨rfl, rfl⟩

theorem arc_norm2_r (u sx sy t : ℝ) :
    arcXr u sx sy t ^ 2 + arcYr u sx sy t ^ 2 =
      (sx ^ 2 + sy ^ 2) * (1 + u ^ 6 * (2 * t - 1) ^ 2 * (1 - (2 * t - 1) ^ 2) ^ 2 / (1 + u ^ 2) ^ 2) := by
  have hpos : (1 + u ^ 2) ≠ 0 := by positivity
  have hpos' : (1 + u * u) ≠ 0 := by nlinarith [mul_self_nonneg u]
  simp only [arcXr, arcYr, rotQ, bezR]
  field_simp
  ring

theorem w_bound_r (t : ℝ) (h0 : 0 ≤ t) (h1 : t ≤ 1) :
    0 ≤ (2 * t - 1) ^ 2 * (1 - (2 * t - 1) ^ 2) ^ 2 ∧ (2 * t - 1) ^ 2 * (1 - (2 * t - 1) ^ 2) ^ 2 ≤ 4 / 27 := by
  constructor
  · positivity
  · have hz1 : (2 * t - 1) ^ 2 ≤ 1 := by nlinarith
    have e : 4 / 27 - (2 * t - 1) ^ 2 * (1 - (2 * t - 1) ^ 2) ^ 2 =
        (4 - 3 * (2 * t - 1) ^ 2) * (1 - 3 * (2 * t - 1) ^ 2) ^ 2 / 27 := by ring
    have : 0 ≤ (4 - 3 * (2 * t - 1) ^ 2) * (1 - 3 * (2 * t - 1) ^ 2) ^ 2 / 27 := by
      apply div_nonneg _ (by norm_num)
      apply mul_nonneg (by linarith) (by positivity)
    linarith

theorem arc_radial_r (u sx sy t : ℝ) (hs : sx ^ 2 + sy ^ 2 = 1) (h0 : 0 ≤ t) (h1 : t ≤ 1) :
    1 ≤ arcXr u sx sy t ^ 2 + arcYr u sx sy t ^ 2 ∧
      arcXr u sx sy t ^ 2 + arcYr u sx sy t ^ 2 ≤ 1 + 4 * u ^ 6 / (27 * (1 + u ^ 2) ^ 2) := by
  rw [arc_norm2_r, hs, one_mul]
  obtain ⟨b0, b1⟩ := w_bound_r t h0 h1
  have hD : 0 < (1 + u ^ 2) ^ 2 := by positivity
  have hu6 : 0 ≤ u ^ 6 := by positivity
  have e : u ^ 6 * (2 * t - 1) ^ 2 * (1 - (2 * t - 1) ^ 2) ^ 2 / (1 + u ^ 2) ^ 2 =
      u ^ 6 * ((2 * t - 1) ^ 2 * (1 - (2 * t - 1) ^ 2) ^ 2) / (1 + u ^ 2) ^ 2 := by ring
  rw [e]
  constructor
  · have : 0 ≤ u ^ 6 * ((2 * t - 1) ^ 2 * (1 - (2 * t - 1) ^ 2) ^ 2) / (1 + u ^ 2) ^ 2 :=
      div_nonneg (mul_nonneg hu6 b0) (le_of_lt hD)
    linarith
  · have h27 : 4 * u ^ 6 / (27 * (1 + u ^ 2) ^ 2) = u ^ 6 * (4 / 27) / (1 + u ^ 2) ^ 2 := by
      field_simp
    rw [h27]
    have : u ^ 6 * ((2 * t - 1) ^ 2 * (1 - (2 * t - 1) ^ 2) ^ 2) / (1 + u ^ 2) ^ 2 ≤ u ^ 6 * (4 / 27) / (1 + u ^ 2) ^ 2 :=
      div_le_div_of_nonneg_right (mul_le_mul_of_nonneg_left b1 hu6) (le_of_lt hD)
    linarith

/-- the ray theorem for real data -/
theorem arc_ray_reached_r (u sx sy dx dy : ℝ) (hs : sx ^ 2 + sy ^ 2 = 1) (hd : dx ^ 2 + dy ^ 2 = 1) (hu : 0 ≤ u)
    (hcs : dx * sy - dy * sx ≤ 0) (hce : 0 ≤ dx * (rotQ u sx sy).2 - dy * (rotQ u sx sy).1)
    (hds : 0 < dx * sx + dy * sy) (hde : 0 < dx * (rotQ u sx sy).1 + dy * (rotQ u sx sy).2) :
    ∃ t : ℝ, 0 ≤ t ∧ t ≤ 1 ∧ dx * arcYr u sx sy t - dy * arcXr u sx sy t = 0 ∧ 1 ≤ dx * arcXr u sx sy t + dy * arcYr u sx sy t ∧
      (dx * arcXr u sx sy t + dy * arcYr u sx sy t) ^ 2 ≤ 1 + 4 * u ^ 6 / (27 * (1 + u ^ 2) ^ 2) := by
  set ex := (rotQ u sx sy).1 with hex
  set ey := (rotQ u sx sy).2 with hey
  set L := 4 / 3 * u with hL
  have hL0 : 0 ≤ L := by rw [hL]; linarith
  have hcross : ∀ t : ℝ, dx * arcYr u sx sy t - dy * arcXr u sx sy t =
      bezR (dx * sy - dy * sx) (dx * (sy + sx * L) - dy * (sx + -sy * L))
        (dx * (ey + -ex * L) - dy * (ex + ey * L)) (dx * ey - dy * ex) t := by
    intro t
    simp only [arcXr, arcYr, bezR, ← hex, ← hey, ← hL]
    ring
  have hdot : ∀ t : ℝ, dx * arcXr u sx sy t + dy * arcYr u sx sy t =
      bezR (dx * sx + dy * sy) (dx * (sx + -sy * L) + dy * (sy + sx * L))
        (dx * (ex + ey * L) + dy * (ey + -ex * L)) (dx * ex + dy * ey) t := by
    intro t
    simp only [arcXr, arcYr, bezR, ← hex, ← hey, ← hL]
    ring
  have hcont : ContinuousOn (fun t : ℝ => dx * arcYr u sx sy t - dy * arcXr u sx sy t) (Set.Icc 0 1) := by
    have : (fun t : ℝ => dx * arcYr u sx sy t - dy * arcXr u sx sy t) = bezR _ _ _ _ := funext hcross
    rw [this]; exact (bezR_continuous _ _ _ _).continuousOn
  have h0v : dx * arcYr u sx sy 0 - dy * arcXr u sx sy 0 ≤ 0 := by
    rw [hcross]; simp only [bezR]; norm_num; linarith
  have h1v : 0 ≤ dx * arcYr u sx sy 1 - dy * arcXr u sx sy 1 := by
    rw [hcross]; simp only [bezR]; norm_num; linarith
  obtain ⟨t, ⟨t0, t1⟩, ht⟩ := intermediate_value_Icc (zero_le_one) hcont ⟨h0v, h1v⟩
  have ht : dx * arcYr u sx sy t - dy * arcXr u sx sy t = 0 := ht
  have c1 : 0 < dx * (sx + -sy * L) + dy * (sy + sx * L) := by nlinarith
  have c2 : 0 < dx * (ex + ey * L) + dy * (ey + -ex * L) := by nlinarith
  have hg : 0 < dx * arcXr u sx sy t + dy * arcYr u sx sy t := by
    rw [hdot]; exact bezR_pos _ _ _ _ t t0 t1 hds c1 c2 hde
  obtain ⟨hn, hn'⟩ := arc_radial_r u sx sy t hs t0 t1
  have hsum : (dx * arcXr u sx sy t + dy * arcYr u sx sy t) ^ 2 + (dx * arcYr u sx sy t - dy * arcXr u sx sy t) ^ 2 =
      arcXr u sx sy t ^ 2 + arcYr u sx sy t ^ 2 := by
    have : (dx * arcXr u sx sy t + dy * arcYr u sx sy t) ^ 2 + (dx * arcYr u sx sy t - dy * arcXr u sx sy t) ^ 2 =
        (dx ^ 2 + dy ^ 2) * (arcXr u sx sy t ^ 2 + arcYr u sx sy t ^ 2) := by ring
    rw [this, hd, one_mul]
  rw [ht] at hsum
  refine ⟨t, t0, t1, ht, by nlinarith, by nlinarith⟩

/-- with `u = tan(a / 4)` the end point of the model is the start point rotated by the angle `a` -/
theorem rotQ_trig (θ α : ℝ) (h0 : -(Real.pi / 2) < α / 4) (h1 : α / 4 < Real.pi / 2) :
    rotQ (Real.tan (α / 4)) (Real.cos θ) (Real.sin θ) = (Real.cos (θ + α), Real.sin (θ + α)) := by
  have hc : 0 < Real.cos (α / 4) := Real.cos_pos_of_mem_Ioo ⟨h0, h1⟩
  have hc' : Real.cos (α / 4) ≠ 0 := ne_of_gt hc
  have hsc := Real.sin_sq_add_cos_sq (α / 4)
  have e2 : α / 2 = 2 * (α / 4) := by ring
  have e4 : α = 2 * (α / 2) := by ring
  have hden : 1 + Real.tan (α / 4) * Real.tan (α / 4) = 1 / Real.cos (α / 4) ^ 2 := by
    rw [Real.tan_eq_sin_div_cos]; field_simp; nlinarith
  have hcos2 : (1 - Real.tan (α / 4) * Real.tan (α / 4)) / (1 + Real.tan (α / 4) * Real.tan (α / 4)) = Real.cos (α / 2) := by
    rw [hden, e2, Real.cos_two_mul', Real.tan_eq_sin_div_cos]; field_simp
  have hsin2 : 2 * Real.tan (α / 4) / (1 + Real.tan (α / 4) * Real.tan (α / 4)) = Real.sin (α / 2) := by
    rw [hden, e2, Real.sin_two_mul, Real.tan_eq_sin_div_cos]; field_simp
  have hca : Real.cos (α / 2) * Real.cos (α / 2) - Real.sin (α / 2) * Real.sin (α / 2) = Real.cos α := by
    conv_rhs => rw [e4, Real.cos_two_mul']
    ring
  have hsa : 2 * Real.sin (α / 2) * Real.cos (α / 2) = Real.sin α := by
    conv_rhs => rw [e4, Real.sin_two_mul]
  simp only [rotQ, hcos2, hsin2, hca, hsa, Real.cos_add, Real.sin_add]


theorem bezR_zero (a0 a1 a2 a3 : ℝ) : bezR a0 a1 a2 a3 0 = a0 := by simp [bezR]
theorem bezR_one (a0 a1 a2 a3 : ℝ) : bezR a0 a1 a2 a3 1 = a3 := by simp [bezR]

/-- `tan(pi/8) < 5/12` -/
theorem tan_pi_div_eight_le : Real.tan (Real.pi / 8) ≤ 5 / 12 := by
  have hpos : 0 < Real.tan (Real.pi / 8) :=
    Real.tan_pos_of_pos_of_lt_pi_div_two (by positivity) (by linarith [Real.pi_pos])
  have h4 : Real.tan (Real.pi / 4) = 1 := Real.tan_pi_div_four
  have e : Real.pi / 4 = 2 * (Real.pi / 8) := by ring
  rw [e, Real.tan_two_mul] at h4
  by_contra hc
  have hc' : 5 / 12 < Real.tan (Real.pi / 8) := not_le.mp hc
  by_cases hz : 1 - Real.tan (Real.pi / 8) ^ 2 = 0
  · rw [hz, div_zero] at h4; exact zero_ne_one h4
  · rw [div_eq_one_iff_eq hz] at h4
    nlinarith

/-- For EVERY direction `φ` inside an arc segment `[θ, θ + α]` (`0 < α <= 90 degrees`, the segments the code builds) the
    Bézier curve with the control points of `cubic_bezier_arc_parameters` crosses the ray at angle `φ` at a distance `ρ`
    with `1 <= ρ <= 1.0004`: the approximation covers the whole angular range of the arc, never inside the circle and
    at most 0.04 % outside -/
theorem arc_segment_covers (θ α φ : ℝ) (hα0 : 0 < α) (hα : α ≤ Real.pi / 2) (h1 : θ ≤ φ) (h2 : φ ≤ θ + α) :
    ∃ t : ℝ, 0 ≤ t ∧ t ≤ 1 ∧ ∃ ρ : ℝ, 1 ≤ ρ ∧ ρ ≤ 1 + 4 / 10000 ∧
      arcXr (Real.tan (α / 4)) (Real.cos θ) (Real.sin θ) t = ρ * Real.cos φ ∧
      arcYr (Real.tan (α / 4)) (Real.cos θ) (Real.sin θ) t = ρ * Real.sin φ := by
  have hpi := Real.pi_pos
  have hq0 : -(Real.pi / 2) < α / 4 := by linarith
  have hq1 : α / 4 < Real.pi / 2 := by linarith
  have hrot := rotQ_trig θ α hq0 hq1
  rcases eq_or_lt_of_le h1 with rfl | h1'
  · exact ⟨0, le_rfl, by norm_num, 1, le_rfl, by norm_num, by simp [arcXr, bezR_zero], by simp [arcYr, bezR_zero]⟩
  rcases eq_or_lt_of_le h2 with rfl | h2'
  · refine ⟨1, by norm_num, le_rfl, 1, le_rfl, by norm_num, ?_, ?_⟩
    · simp only [arcXr, bezR_one, hrot, one_mul]
    · simp only [arcYr, bezR_one, hrot, one_mul]
  set u := Real.tan (α / 4) with hu
  have hu0 : 0 ≤ u := Real.tan_nonneg_of_nonneg_of_le_pi_div_two (by linarith) (by linarith)
  have hu1 : u ≤ 5 / 12 := by
    have hle : α / 4 ≤ Real.pi / 8 := by linarith
    rcases eq_or_lt_of_le hle with he | hlt
    · rw [hu, he]; exact tan_pi_div_eight_le
    · exact le_trans (le_of_lt (Real.tan_lt_tan_of_lt_of_lt_pi_div_two hq0 (by linarith) hlt)) tan_pi_div_eight_le
  have hs : Real.cos θ ^ 2 + Real.sin θ ^ 2 = 1 := by nlinarith [Real.sin_sq_add_cos_sq θ]
  have hd : Real.cos φ ^ 2 + Real.sin φ ^ 2 = 1 := by nlinarith [Real.sin_sq_add_cos_sq φ]
  have hcs : Real.cos φ * Real.sin θ - Real.sin φ * Real.cos θ ≤ 0 := by
    have : Real.sin (θ - φ) ≤ 0 := Real.sin_nonpos_of_nonpos_of_neg_pi_le (by linarith) (by linarith)
    rw [Real.sin_sub] at this; linarith
  have hce : 0 ≤ Real.cos φ * (rotQ u (Real.cos θ) (Real.sin θ)).2 - Real.sin φ * (rotQ u (Real.cos θ) (Real.sin θ)).1 := by
    rw [hrot]
    have : 0 ≤ Real.sin (θ + α - φ) := Real.sin_nonneg_of_nonneg_of_le_pi (by linarith) (by linarith)
    rw [Real.sin_sub] at this; linarith
  have hds : 0 < Real.cos φ * Real.cos θ + Real.sin φ * Real.sin θ := by
    have : 0 < Real.cos (θ - φ) := Real.cos_pos_of_mem_Ioo ⟨by linarith, by linarith⟩
    rw [Real.cos_sub] at this; linarith
  have hde : 0 < Real.cos φ * (rotQ u (Real.cos θ) (Real.sin θ)).1 + Real.sin φ * (rotQ u (Real.cos θ) (Real.sin θ)).2 := by
    rw [hrot]
    have : 0 < Real.cos (θ + α - φ) := Real.cos_pos_of_mem_Ioo ⟨by linarith, by linarith⟩
    rw [Real.cos_sub] at this; linarith
  obtain ⟨t, t0, t1, hc0, hρ1, hρ2⟩ := arc_ray_reached_r u (Real.cos θ) (Real.sin θ) (Real.cos φ) (Real.sin φ) hs hd hu0 hcs hce hds hde
  refine ⟨t, t0, t1, Real.cos φ * arcXr u (Real.cos θ) (Real.sin θ) t + Real.sin φ * arcYr u (Real.cos θ) (Real.sin θ) t, hρ1, ?_, ?_, ?_⟩
  · -- the numeric bound for u <= 5/12
    have h6 : u ^ 6 ≤ (5 / 12 : ℝ) ^ 6 := pow_le_pow_left₀ hu0 hu1 6
    have hD : (1 : ℝ) ≤ (1 + u ^ 2) ^ 2 := by nlinarith [sq_nonneg u, sq_nonneg (u ^ 2)]
    have hfrac : 4 * u ^ 6 / (27 * (1 + u ^ 2) ^ 2) ≤ 4 * u ^ 6 / 27 := by
      apply div_le_div_of_nonneg_left (by positivity) (by norm_num) (by linarith)
    have h2' : 4 * u ^ 6 / 27 ≤ 4 * (5 / 12 : ℝ) ^ 6 / 27 := by
      apply div_le_div_of_nonneg_right _ (by norm_num); linarith
    have hnum : 4 * (5 / 12 : ℝ) ^ 6 / 27 ≤ (1 + 4 / 10000) ^ 2 - 1 := by norm_num
    nlinarith
  · linear_combination (-Real.sin φ) * hc0 - arcXr u (Real.cos θ) (Real.sin θ) t * hd
  · linear_combination (Real.cos φ) * hc0 - arcYr u (Real.cos θ) (Real.sin θ) t * hd


/-! ## the converse: every point of the approximating curve lies on a ray of the arc's sector -/

theorem bezR_nonneg (a0 a1 a2 a3 t : ℝ) (h0 : 0 ≤ t) (h1 : t ≤ 1) (p0 : 0 ≤ a0) (p1 : 0 ≤ a1) (p2 : 0 ≤ a2) (p3 : 0 ≤ a3) :
    0 ≤ bezR a0 a1 a2 a3 t := by
  unfold bezR
  have hu : 0 ≤ 1 - t := by linarith
  positivity

/-- `sin a - (4/3) tan(a/4) cos a >= 0` in terms of `u = tan(a/4)`, `0 <= u <= 1` -/
theorem wedge_coeff (u : ℝ) (h0 : 0 ≤ u) (h1 : u ≤ 1) :
    0 ≤ 2 * (2 * u / (1 + u * u)) * ((1 - u * u) / (1 + u * u)) -
      4 / 3 * u * (((1 - u * u) / (1 + u * u)) * ((1 - u * u) / (1 + u * u)) - (2 * u / (1 + u * u)) * (2 * u / (1 + u * u))) := by
  have hpos : (1 + u * u) ≠ 0 := by nlinarith [mul_self_nonneg u]
  have e : 2 * (2 * u / (1 + u * u)) * ((1 - u * u) / (1 + u * u)) -
      4 / 3 * u * (((1 - u * u) / (1 + u * u)) * ((1 - u * u) / (1 + u * u)) - (2 * u / (1 + u * u)) * (2 * u / (1 + u * u))) =
      4 * u * (2 + 3 * u ^ 2 - u ^ 4) / (3 * (1 + u * u) ^ 2) := by
    field_simp; ring
  rw [e]
  apply div_nonneg _ (by positivity)
  have h4 : u ^ 4 ≤ 1 := pow_le_one₀ h0 h1
  have : 0 ≤ 2 + 3 * u ^ 2 - u ^ 4 := by nlinarith [sq_nonneg u]
  positivity

theorem rotQ_sin_nonneg (u : ℝ) (h0 : 0 ≤ u) (h1 : u ≤ 1) :
    0 ≤ 2 * (2 * u / (1 + u * u)) * ((1 - u * u) / (1 + u * u)) := by
  have hpos : 0 < 1 + u * u := by nlinarith [mul_self_nonneg u]
  have : 0 ≤ 1 - u * u := by nlinarith
  positivity

/-- the curve stays in the sector between the start and the end direction -/
theorem arc_in_wedge (u sx sy t : ℝ) (hs : sx ^ 2 + sy ^ 2 = 1) (hu0 : 0 ≤ u) (hu1 : u ≤ 1) (t0 : 0 ≤ t) (t1 : t ≤ 1) :
    0 ≤ sx * arcYr u sx sy t - sy * arcXr u sx sy t ∧
    0 ≤ arcXr u sx sy t * (rotQ u sx sy).2 - arcYr u sx sy t * (rotQ u sx sy).1 := by
  have hw := wedge_coeff u hu0 hu1
  have hsn := rotQ_sin_nonneg u hu0 hu1
  have hpos : (1 + u * u) ≠ 0 := by nlinarith [mul_self_nonneg u]
  have hL : 0 ≤ 4 / 3 * u := by linarith
  constructor
  · have e : sx * arcYr u sx sy t - sy * arcXr u sx sy t =
        bezR 0 ((sx ^ 2 + sy ^ 2) * (4 / 3 * u))
          ((sx ^ 2 + sy ^ 2) * (2 * (2 * u / (1 + u * u)) * ((1 - u * u) / (1 + u * u)) -
            4 / 3 * u * (((1 - u * u) / (1 + u * u)) * ((1 - u * u) / (1 + u * u)) - (2 * u / (1 + u * u)) * (2 * u / (1 + u * u)))))
          ((sx ^ 2 + sy ^ 2) * (2 * (2 * u / (1 + u * u)) * ((1 - u * u) / (1 + u * u)))) t := by
      simp only [arcXr, arcYr, rotQ, bezR]; ring
    rw [e, hs]
    exact bezR_nonneg _ _ _ _ t t0 t1 le_rfl (by linarith) (by linarith) (by linarith)
  · have e : arcXr u sx sy t * (rotQ u sx sy).2 - arcYr u sx sy t * (rotQ u sx sy).1 =
        bezR ((sx ^ 2 + sy ^ 2) * (2 * (2 * u / (1 + u * u)) * ((1 - u * u) / (1 + u * u))))
          ((sx ^ 2 + sy ^ 2) * (2 * (2 * u / (1 + u * u)) * ((1 - u * u) / (1 + u * u)) -
            4 / 3 * u * (((1 - u * u) / (1 + u * u)) * ((1 - u * u) / (1 + u * u)) - (2 * u / (1 + u * u)) * (2 * u / (1 + u * u)))))
          (((rotQ u sx sy).1 ^ 2 + (rotQ u sx sy).2 ^ 2) * (4 / 3 * u)) 0 t := by
      simp only [arcXr, arcYr, rotQ, bezR]; ring
    have hnorm : (rotQ u sx sy).1 ^ 2 + (rotQ u sx sy).2 ^ 2 = sx ^ 2 + sy ^ 2 := by
      simp only [rotQ]; field_simp; ring
    rw [e, hnorm, hs]
    exact bezR_nonneg _ _ _ _ t t0 t1 (by linarith) (by linarith) (by linarith) le_rfl

/-- Every point of the approximating curve of the segment `[θ, θ + α]` (`0 < α <= 90 degrees`) is `ρ (cos ψ, sin ψ)` for
    some angle `ψ` of the segment and `1 <= ρ <= 1.0004`: together with `arc_segment_covers` the Hausdorff distance
    between the approximating curve and the true arc is at most 0.0004 (times the radius) -/
theorem arc_curve_in_sector (θ α t : ℝ) (hα0 : 0 < α) (hα : α ≤ Real.pi / 2) (t0 : 0 ≤ t) (t1 : t ≤ 1) :
    ∃ ψ : ℝ, θ ≤ ψ ∧ ψ ≤ θ + α ∧ ∃ ρ : ℝ, 1 ≤ ρ ∧ ρ ≤ 1 + 4 / 10000 ∧
      arcXr (Real.tan (α / 4)) (Real.cos θ) (Real.sin θ) t = ρ * Real.cos ψ ∧
      arcYr (Real.tan (α / 4)) (Real.cos θ) (Real.sin θ) t = ρ * Real.sin ψ := by
  have hpi := Real.pi_pos
  have hq0 : -(Real.pi / 2) < α / 4 := by linarith
  have hq1 : α / 4 < Real.pi / 2 := by linarith
  have hrot := rotQ_trig θ α hq0 hq1
  set u := Real.tan (α / 4) with hu
  have hu0 : 0 ≤ u := Real.tan_nonneg_of_nonneg_of_le_pi_div_two (by linarith) (by linarith)
  have hu1 : u ≤ 5 / 12 := by
    have hle : α / 4 ≤ Real.pi / 8 := by linarith
    rcases eq_or_lt_of_le hle with he | hlt
    · rw [hu, he]; exact tan_pi_div_eight_le
    · exact le_trans (le_of_lt (Real.tan_lt_tan_of_lt_of_lt_pi_div_two hq0 (by linarith) hlt)) tan_pi_div_eight_le
  have hs : Real.cos θ ^ 2 + Real.sin θ ^ 2 = 1 := by nlinarith [Real.sin_sq_add_cos_sq θ]
  obtain ⟨hw1, hw2⟩ := arc_in_wedge u (Real.cos θ) (Real.sin θ) t hs hu0 (by linarith) t0 t1
  rw [hrot] at hw2
  simp only at hw2
  obtain ⟨hn, hn'⟩ := arc_radial_r u (Real.cos θ) (Real.sin θ) t hs t0 t1
  -- the dot product of the curve point with a direction (c, s) as a Bézier polynomial of the control values
  have hdot : ∀ c s : ℝ, c * arcXr u (Real.cos θ) (Real.sin θ) t + s * arcYr u (Real.cos θ) (Real.sin θ) t =
      bezR (c * Real.cos θ + s * Real.sin θ)
        ((c * Real.cos θ + s * Real.sin θ) + 4 / 3 * u * (-(c * Real.sin θ - s * Real.cos θ)))
        ((c * Real.cos (θ + α) + s * Real.sin (θ + α)) + 4 / 3 * u * (c * Real.sin (θ + α) - s * Real.cos (θ + α)))
        (c * Real.cos (θ + α) + s * Real.sin (θ + α)) t := by
    intro c s
    simp only [arcXr, arcYr, hrot, bezR]; ring
  -- the numeric bound
  have hbound : 1 + 4 * u ^ 6 / (27 * (1 + u ^ 2) ^ 2) ≤ (1 + 4 / 10000) ^ 2 := by
    have h6 : u ^ 6 ≤ (5 / 12 : ℝ) ^ 6 := pow_le_pow_left₀ hu0 hu1 6
    have hD : (1 : ℝ) ≤ (1 + u ^ 2) ^ 2 := by nlinarith [sq_nonneg u, sq_nonneg (u ^ 2)]
    have hfrac : 4 * u ^ 6 / (27 * (1 + u ^ 2) ^ 2) ≤ 4 * u ^ 6 / 27 := by
      apply div_le_div_of_nonneg_left (by positivity) (by norm_num) (by linarith)
    have h2' : 4 * u ^ 6 / 27 ≤ 4 * (5 / 12 : ℝ) ^ 6 / 27 := by
      apply div_le_div_of_nonneg_right _ (by norm_num); linarith
    have hnum : 4 * (5 / 12 : ℝ) ^ 6 / 27 ≤ (1 + 4 / 10000) ^ 2 - 1 := by norm_num
    linarith
  have hL0 : 0 ≤ 4 / 3 * u := by linarith
  generalize arcXr u (Real.cos θ) (Real.sin θ) t = X at hw1 hw2 hn hn' hdot ⊢
  generalize arcYr u (Real.cos θ) (Real.sin θ) t = Y at hw1 hw2 hn hn' hdot ⊢
  -- f ψ = cross((cos ψ, sin ψ), Q) changes sign on [θ, θ + α]
  have hcont : ContinuousOn (fun ψ : ℝ => Real.cos ψ * Y - Real.sin ψ * X) (Set.Icc θ (θ + α)) := by
    apply Continuous.continuousOn; fun_prop
  have hfb : Real.cos (θ + α) * Y - Real.sin (θ + α) * X ≤ 0 := by linarith
  obtain ⟨ψ, ⟨p0, p1⟩, hψ⟩ := intermediate_value_Icc' (by linarith : θ ≤ θ + α) hcont ⟨hfb, hw1⟩
  have hψ : Real.cos ψ * Y - Real.sin ψ * X = 0 := hψ
  have hd : Real.cos ψ ^ 2 + Real.sin ψ ^ 2 = 1 := by nlinarith [Real.sin_sq_add_cos_sq ψ]
  have hcs : Real.cos ψ * Real.sin θ - Real.sin ψ * Real.cos θ ≤ 0 := by
    have : Real.sin (θ - ψ) ≤ 0 := Real.sin_nonpos_of_nonpos_of_neg_pi_le (by linarith) (by linarith)
    rw [Real.sin_sub] at this; linarith
  have hce : 0 ≤ Real.cos ψ * Real.sin (θ + α) - Real.sin ψ * Real.cos (θ + α) := by
    have : 0 ≤ Real.sin (θ + α - ψ) := Real.sin_nonneg_of_nonneg_of_le_pi (by linarith) (by linarith)
    rw [Real.sin_sub] at this; linarith
  have hds : 0 ≤ Real.cos ψ * Real.cos θ + Real.sin ψ * Real.sin θ := by
    have : 0 ≤ Real.cos (θ - ψ) := Real.cos_nonneg_of_mem_Icc ⟨by linarith, by linarith⟩
    rw [Real.cos_sub] at this; linarith
  have hde : 0 ≤ Real.cos ψ * Real.cos (θ + α) + Real.sin ψ * Real.sin (θ + α) := by
    have : 0 ≤ Real.cos (θ + α - ψ) := Real.cos_nonneg_of_mem_Icc ⟨by linarith, by linarith⟩
    rw [Real.cos_sub] at this; linarith
  have hg : 0 ≤ Real.cos ψ * X + Real.sin ψ * Y := by
    rw [hdot]
    exact bezR_nonneg _ _ _ _ t t0 t1 hds (add_nonneg hds (mul_nonneg hL0 (by linarith)))
      (add_nonneg hde (mul_nonneg hL0 hce)) hde
  have hsum : (Real.cos ψ * X + Real.sin ψ * Y) ^ 2 = X ^ 2 + Y ^ 2 := by
    have : (Real.cos ψ * X + Real.sin ψ * Y) ^ 2 + (Real.cos ψ * Y - Real.sin ψ * X) ^ 2 =
        (Real.cos ψ ^ 2 + Real.sin ψ ^ 2) * (X ^ 2 + Y ^ 2) := by ring
    rw [hψ, hd] at this; linarith
  generalize hρ : Real.cos ψ * X + Real.sin ψ * Y = ρ at hg hsum
  have hρ1 : 1 ≤ ρ := by nlinarith
  have hρ2 : ρ ≤ 1 + 4 / 10000 := by
    have : ρ ^ 2 ≤ (1 + 4 / 10000) ^ 2 := by linarith
    nlinarith
  refine ⟨ψ, p0, p1, ρ, hρ1, hρ2, ?_, ?_⟩
  · rw [← hρ]; linear_combination (-Real.sin ψ) * hψ - X * hd
  · rw [← hρ]; linear_combination (Real.cos ψ) * hψ - Y * hd


/-! ## a whole arc: `n` equal segments of at most 90 degrees -/

/-- every angle of `[a0, a0 + n α]` lies in one of the `n` segments `[a0 + k α, a0 + (k + 1) α]` -/
theorem segment_of_angle (a0 α φ : ℝ) (n : ℕ) (hn : 0 < n) (hα : 0 < α) (h0 : a0 ≤ φ) (h1 : φ ≤ a0 + n * α) :
    ∃ k : ℕ, k < n ∧ a0 + k * α ≤ φ ∧ φ ≤ a0 + k * α + α := by
  by_cases hend : φ = a0 + n * α
  · refine ⟨n - 1, Nat.sub_lt hn Nat.one_pos, ?_, ?_⟩
    · have : ((n - 1 : ℕ) : ℝ) = (n : ℝ) - 1 := by
        rw [Nat.cast_sub (Nat.one_le_of_lt hn)]; simp
      rw [this, hend]; nlinarith
    · have : ((n - 1 : ℕ) : ℝ) = (n : ℝ) - 1 := by
        rw [Nat.cast_sub (Nat.one_le_of_lt hn)]; simp
      rw [this, hend]; nlinarith
  · have hlt : φ < a0 + n * α := lt_of_le_of_ne h1 hend
    have hx0 : 0 ≤ (φ - a0) / α := div_nonneg (by linarith) (le_of_lt hα)
    refine ⟨⌊(φ - a0) / α⌋₊, ?_, ?_, ?_⟩
    · rw [Nat.floor_lt hx0, div_lt_iff₀ hα]; linarith
    · have := Nat.floor_le hx0
      rw [le_div_iff₀ hα] at this; linarith
    · have := Nat.lt_floor_add_one ((φ - a0) / α)
      rw [div_lt_iff₀ hα] at this; nlinarith

/-- the whole arc: `cubic_bezier_arc_parameters(a0, a0 + n α)` with `n` segments of angle `α <= 90 degrees`; segment `k`
    starts at the angle `a0 + k α`.  Every direction of the arc is met by one of the segment curves at a distance in
    [1, 1.0004]. -/
theorem arc_path_covers (a0 α φ : ℝ) (n : ℕ) (hn : 0 < n) (hα0 : 0 < α) (hα : α ≤ Real.pi / 2) (h0 : a0 ≤ φ) (h1 : φ ≤ a0 + n * α) :
    ∃ k : ℕ, k < n ∧ ∃ t : ℝ, 0 ≤ t ∧ t ≤ 1 ∧ ∃ ρ : ℝ, 1 ≤ ρ ∧ ρ ≤ 1 + 4 / 10000 ∧
      arcXr (Real.tan (α / 4)) (Real.cos (a0 + k * α)) (Real.sin (a0 + k * α)) t = ρ * Real.cos φ ∧
      arcYr (Real.tan (α / 4)) (Real.cos (a0 + k * α)) (Real.sin (a0 + k * α)) t = ρ * Real.sin φ := by
  obtain ⟨k, hk, l1, l2⟩ := segment_of_angle a0 α φ n hn hα0 h0 h1
  exact ⟨k, hk, arc_segment_covers (a0 + k * α) α φ hα0 hα l1 l2⟩


/-! ## round 2: the segment count and the angle normalisation around `cubic_bezier_arc_parameters` -/

/-- `arc_count = max(math.ceil(delta_angle / math.pi * 2.0), segments)`, `segment_angle = delta_angle / arc_count`:
    at least one segment, every segment spans at most 90 degrees, and the segments add up to the sweep exactly -/
theorem arc_count_spec (Δ : ℝ) (segs : ℕ) (hΔ : 0 < Δ) :
    let n := max ⌈Δ / Real.pi * 2⌉₊ segs
    0 < n ∧ 0 < Δ / n ∧ Δ / n ≤ Real.pi / 2 ∧ (n : ℝ) * (Δ / n) = Δ := by
  intro n
  have hpi := Real.pi_pos
  have hx : 0 < Δ / Real.pi * 2 := by positivity
  have hc : 0 < ⌈Δ / Real.pi * 2⌉₊ := Nat.ceil_pos.mpr hx
  have hn : 0 < n := lt_of_lt_of_le hc (le_max_left _ _)
  have hnr : (0 : ℝ) < n := by exact_mod_cast hn
  refine ⟨hn, by positivity, ?_, by field_simp⟩
  have h1 : Δ / Real.pi * 2 ≤ (n : ℝ) := by
    calc Δ / Real.pi * 2 ≤ (⌈Δ / Real.pi * 2⌉₊ : ℝ) := Nat.le_ceil _
      _ ≤ (n : ℝ) := by exact_mod_cast le_max_left _ _
  rw [div_le_iff₀ hnr]
  have : Δ = Δ / Real.pi * 2 * (Real.pi / 2) := by field_simp
  nlinarith

/-- the whole arc `[a0, a0 + Δ]` as the code splits it (`n = max(ceil(Δ / 90 deg), segments)` equal segments): every
    direction of the arc is met by one of the segment curves at a distance in [1, 1.0004], exactly the partition
    `[a0 + k α, a0 + (k + 1) α]`, `k < n`, `n α = Δ` -/
theorem arc_whole_covers (a0 Δ φ : ℝ) (segs : ℕ) (hΔ : 0 < Δ) (h0 : a0 ≤ φ) (h1 : φ ≤ a0 + Δ) :
    let n := max ⌈Δ / Real.pi * 2⌉₊ segs
    ∃ k : ℕ, k < n ∧ ∃ t : ℝ, 0 ≤ t ∧ t ≤ 1 ∧ ∃ ρ : ℝ, 1 ≤ ρ ∧ ρ ≤ 1 + 4 / 10000 ∧
      arcXr (Real.tan (Δ / n / 4)) (Real.cos (a0 + k * (Δ / n))) (Real.sin (a0 + k * (Δ / n))) t = ρ * Real.cos φ ∧
      arcYr (Real.tan (Δ / n / 4)) (Real.cos (a0 + k * (Δ / n))) (Real.sin (a0 + k * (Δ / n))) t = ρ * Real.sin φ := by
  intro n
  obtain ⟨hn, hα0, hα, hsum⟩ := arc_count_spec Δ segs hΔ
  exact arc_path_covers a0 (Δ / n) φ n hn hα0 hα h0 (by rw [hsum]; exact h1)

/-- and no segment curve leaves the sector of the whole arc: every point of segment `k < n` is `ρ (cos ψ, sin ψ)` with
    `a0 <= ψ <= a0 + Δ`, `1 <= ρ <= 1.0004` (each angle of the arc is covered, nothing outside it: "exactly once" up to
    the shared end points of neighbouring segments) -/
theorem arc_whole_in_sector (a0 Δ t : ℝ) (segs k : ℕ) (hΔ : 0 < Δ) (t0 : 0 ≤ t) (t1 : t ≤ 1)
    (hk : k < max ⌈Δ / Real.pi * 2⌉₊ segs) :
    let n := max ⌈Δ / Real.pi * 2⌉₊ segs
    ∃ ψ : ℝ, a0 ≤ ψ ∧ ψ ≤ a0 + Δ ∧ ∃ ρ : ℝ, 1 ≤ ρ ∧ ρ ≤ 1 + 4 / 10000 ∧
      arcXr (Real.tan (Δ / n / 4)) (Real.cos (a0 + k * (Δ / n))) (Real.sin (a0 + k * (Δ / n))) t = ρ * Real.cos ψ ∧
      arcYr (Real.tan (Δ / n / 4)) (Real.cos (a0 + k * (Δ / n))) (Real.sin (a0 + k * (Δ / n))) t = ρ * Real.sin ψ := by
  intro n
  obtain ⟨hn, hα0, hα, hsum⟩ := arc_count_spec Δ segs hΔ
  obtain ⟨ψ, p0, p1, ρ, r1, r2, hx, hy⟩ := arc_curve_in_sector (a0 + k * (Δ / n)) (Δ / n) t hα0 hα t0 t1
  have hkr : (k : ℝ) + 1 ≤ (n : ℝ) := by exact_mod_cast hk
  have hk0 : (0 : ℝ) ≤ (k : ℝ) := by positivity
  refine ⟨ψ, ?_, ?_, ρ, r1, r2, hx, hy⟩
  · nlinarith
  · have : (k : ℝ) * (Δ / n) + Δ / n ≤ (n : ℝ) * (Δ / n) := by nlinarith
    linarith

/-- the angle normalisation of `cubic_bezier_from_arc` in degrees: `start' = s % 360` (Python `%`: in [0, 360)),
    `end' = s + span`, raised by full turns `while start' > end'` -/
noncomputable def fromArcStart (s : ℝ) : ℝ := s - 360 * ⌊s / 360⌋
noncomputable def fromArcEnd (s span : ℝ) : ℝ := s + span + 360 * ⌈(fromArcStart s - (s + span)) / 360⌉₊

/-- For the start angles that `bulge_to_arc` (atan2) and the ARC/ELLIPSE converters deliver, `-360 <= s < 360`, and a sweep
    `0 < span <= 360` (with `span < 360` for negative `s`) the normalised interval has the same start direction and
    exactly the sweep `span`.  (Outside this range the function is wrong: for `s >= 360` it adds `floor(s/360)` full turns
    to the sweep, for `s < 0` and `span = 360` it raises ValueError: see reports/C15.md.) -/
theorem from_arc_normalised (s span : ℝ) (hs0 : -360 ≤ s) (hs1 : s < 360) (hsp0 : 0 < span)
    (hneg : s < 0 → span < 360) :
    fromArcStart s = (if s < 0 then s + 360 else s) ∧ fromArcEnd s span - fromArcStart s = span := by
  by_cases hs : s < 0
  · have hfl : ⌊s / 360⌋ = -1 := by
      rw [Int.floor_eq_iff]
      constructor
      · push_cast; linarith
      · push_cast; linarith
    have hst : fromArcStart s = s + 360 := by simp [fromArcStart, hfl]
    have hc : ⌈(fromArcStart s - (s + span)) / 360⌉₊ = 1 := by
      rw [hst, Nat.ceil_eq_iff (by norm_num)]
      have := hneg hs
      constructor
      · push_cast; linarith
      · push_cast; linarith
    refine ⟨by simp [hs, hst], ?_⟩
    unfold fromArcEnd; rw [hc, hst]; push_cast; ring
  · have hs' : 0 ≤ s := not_lt.mp hs
    have hfl : ⌊s / 360⌋ = 0 := by
      rw [Int.floor_eq_iff]
      constructor
      · push_cast; positivity
      · push_cast; linarith
    have hst : fromArcStart s = s := by simp [fromArcStart, hfl]
    have hc : ⌈(fromArcStart s - (s + span)) / 360⌉₊ = 0 := by
      rw [hst, Nat.ceil_eq_zero]; linarith
    refine ⟨by simp [hs, hst], ?_⟩
    unfold fromArcEnd; rw [hc, hst]; push_cast; ring

end EzdxfVerif.BBox.Lemmas

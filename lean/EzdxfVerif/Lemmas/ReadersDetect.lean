/-
C08  lemmas for Model/ReadersDetect.lean: every reader's (version, encoding) decision on a file that starts with a HEADER
section written variable by variable equals the declarative `specInfo`.
-/
import EzdxfVerif.Lemmas.Readers
import EzdxfVerif.Model.ReadersDetect

namespace EzdxfVerif.Readers

/-! ## facts about one written variable -/

theorem hvar_value (v : HVar) (h : hvarOK v = true) :
    ∃ x xs, v.value = x :: xs ∧ (∀ t ∈ x :: xs, t.code ≠ 0 ∧ t.code ≠ 9 ∧ t.code ≠ 999) ∧
      (x.code = 10 → xs ≠ [] ∧ v.name ≠ "$ACADVER" ∧ v.name ≠ "$DWGCODEPAGE") := by
  simp only [hvarOK, Bool.and_eq_true, List.all_eq_true, bne_iff_ne] at h
  obtain ⟨h1, h2⟩ := h
  cases hv : v.value with
  | nil => rw [hv] at h2; simp at h2
  | cons x xs =>
    rw [hv] at h1 h2
    refine ⟨x, xs, rfl, fun t ht => ⟨(h1 t ht).1.1, (h1 t ht).1.2, (h1 t ht).2⟩, ?_⟩
    intro hx
    simp only [Bool.or_eq_true, bne_iff_ne, Bool.and_eq_true, Bool.not_eq_true', List.isEmpty_eq_false_iff] at h2
    rcases h2 with h2 | h2
    · exact absurd hx h2
    · exact ⟨h2.1.1, h2.1.2, h2.2⟩

theorem renderVars_cons (v : HVar) (vs : List HVar) : renderVars (v :: vs) = ⟨9, v.name⟩ :: (v.value ++ renderVars vs) := by
  simp [renderVars, HVar.tags]

theorem specFold_cons (tbl : List (String × String)) (v : HVar) (vs : List HVar) (i : Info) :
    specFold tbl (v :: vs) i = specFold tbl vs (setVar tbl i v.name v.text) := by
  simp [specFold]

theorem setVar_other (tbl : List (String × String)) (i : Info) (n val : String) (h1 : n ≠ "$ACADVER") (h2 : n ≠ "$DWGCODEPAGE") :
    setVar tbl i n val = i := by
  simp [setVar, h1, h2]

/-- variables that are not counted do not change the decision -/
theorem specFold_uncounted (tbl : List (String × String)) (vs : List HVar) (i : Info)
    (h : (vs.filter (fun v => isCounted v.name)).length = 0) : specFold tbl vs i = i := by
  induction vs generalizing i with
  | nil => rfl
  | cons v r ih =>
    cases hc : isCounted v.name with
    | true => simp [List.filter, hc] at h
    | false =>
      simp only [List.filter, hc] at h
      rw [specFold_cons]
      have h1 : v.name ≠ "$ACADVER" := by intro hh; simp [isCounted, hh] at hc
      have h2 : v.name ≠ "$DWGCODEPAGE" := by intro hh; simp [isCounted, hh] at hc
      rw [setVar_other tbl i _ _ h1 h2]
      exact ih i h

/-- the first tag of what follows a variable: the next variable name or ENDSEC -/
def nextOK (l : List Tag) : Prop := ∃ t r, l = t :: r ∧ (t.code = 9 ∨ t = tENDSEC)

theorem nextOK_vars (vs : List HVar) (rest : List Tag) : nextOK (renderVars vs ++ tENDSEC :: rest) := by
  cases vs with
  | nil => exact ⟨tENDSEC, rest, by simp [renderVars], Or.inr rfl⟩
  | cons v r => exact ⟨⟨9, v.name⟩, _, by rw [renderVars_cons]; rfl, Or.inl rfl⟩

/-! ## dxf_info -/

/-- value tags behind the first one are skipped by the scan state -/
theorem infoLoop_skip (tbl : List (String × String)) (ys l : List Tag) (i : Info) (f : Nat)
    (h : ∀ t ∈ ys, t.code ≠ 0 ∧ t.code ≠ 9 ∧ t.code ≠ 999) :
    infoLoop tbl (ys ++ l) .scan i f = infoLoop tbl l .scan i f := by
  induction ys with
  | nil => rfl
  | cons y r ih =>
    obtain ⟨h0, h9, _⟩ := h y (by simp)
    have hne : y ≠ tENDSEC := by intro hh; rw [hh] at h0; simp [tENDSEC] at h0
    simp only [List.cons_append, infoLoop, h9, ne_eq, not_false_eq_true, if_true, hne, if_false]
    exact ih (fun t ht => h t (by simp [ht]))

/-- after the y tag of a point: an optional z tag, then the scan state -/
theorem infoLoop_ptZ (tbl : List (String × String)) (ys l : List Tag) (i : Info) (f : Nat)
    (h : ∀ t ∈ ys, t.code ≠ 0 ∧ t.code ≠ 9 ∧ t.code ≠ 999) (hl : nextOK l) :
    infoLoop tbl (ys ++ l) .ptZ i f = infoLoop tbl l .scan i f := by
  cases ys with
  | nil =>
    obtain ⟨t, r, rfl, ht⟩ := hl
    rcases ht with ht | rfl
    · simp [infoLoop, ht]
    · simp [infoLoop, tENDSEC]
  | cons y r =>
    obtain ⟨h0, h9, _⟩ := h y (by simp)
    have hne : y ≠ tENDSEC := by intro hh; rw [hh] at h0; simp [tENDSEC] at h0
    have hr := infoLoop_skip tbl r l i f (fun t ht => h t (by simp [ht]))
    by_cases h30 : y.code = 30
    · simp only [List.cons_append, infoLoop, h30, if_true]; exact hr
    · simp only [List.cons_append, infoLoop, h30, if_false, h9, ne_eq, not_false_eq_true, if_true, hne]; exact hr

theorem infoLoop_vars (tbl : List (String × String)) (vars : List HVar) (rest : List Tag) (i : Info) (found : Nat)
    (hok : ∀ v ∈ vars, hvarOK v = true)
    (hcnt : found + (vars.filter (fun v => isCounted v.name)).length ≤ 5) (hlt : found < 5) :
    infoLoop tbl (renderVars vars ++ tENDSEC :: rest) .scan i found = specFold tbl vars i := by
  induction vars generalizing i found with
  | nil => simp [renderVars, infoLoop, specFold, tENDSEC]
  | cons v vs ih =>
    obtain ⟨x, xs, hv, hcodes, hpt⟩ := hvar_value v (hok v (by simp))
    have hoks : ∀ w ∈ vs, hvarOK w = true := fun w hw => hok w (by simp [hw])
    rw [renderVars_cons, specFold_cons, hv]
    have hxs : ∀ t ∈ xs, t.code ≠ 0 ∧ t.code ≠ 9 ∧ t.code ≠ 999 := fun t ht => hcodes t (by simp [ht])
    have htext : v.text = x.val := by simp [HVar.text, hv]
    -- the name tag, then the first value tag
    simp only [List.cons_append, List.append_assoc, infoLoop, ne_eq, not_true_eq_false, if_false]
    -- the value the code hands to set_header_var
    have hval : setVar tbl i v.name (if x.code = 10 then "<point>" else x.val) = setVar tbl i v.name v.text := by
      by_cases hx : x.code = 10
      · obtain ⟨_, h1, h2⟩ := hpt hx
        rw [setVar_other tbl i _ _ h1 h2, setVar_other tbl i _ _ h1 h2]
      · simp [hx, htext]
    rw [hval]
    cases hc : isCounted v.name with
    | true =>
      simp only [List.filter, hc, List.length_cons] at hcnt
      simp only [if_true]
      by_cases h5 : found + 1 ≥ 5
      · simp only [h5, if_true]
        have : (vs.filter (fun v => isCounted v.name)).length = 0 := by omega
        rw [specFold_uncounted tbl vs _ this]
      · simp only [h5, if_false]
        have hrec := ih (setVar tbl i v.name v.text) (found + 1) hoks (by omega) (by omega)
        by_cases hx : x.code = 10
        · obtain ⟨hne, _, _⟩ := hpt hx
          simp only [hx, if_true]
          cases xs with
          | nil => exact absurd rfl hne
          | cons y ys =>
            simp only [List.cons_append, infoLoop]
            rw [infoLoop_ptZ tbl ys _ _ _ (fun t ht => hxs t (by simp [ht])) (nextOK_vars vs rest)]
            exact hrec
        · simp only [hx, if_false]
          rw [infoLoop_skip tbl xs _ _ _ hxs]
          exact hrec
    | false =>
      simp only [List.filter, hc] at hcnt
      simp only [Bool.false_eq_true, if_false]
      have h5 : ¬ found ≥ 5 := by omega
      simp only [h5, if_false]
      have hrec := ih (setVar tbl i v.name v.text) found hoks hcnt hlt
      by_cases hx : x.code = 10
      · obtain ⟨hne, _, _⟩ := hpt hx
        simp only [hx, if_true]
        cases xs with
        | nil => exact absurd rfl hne
        | cons y ys =>
          simp only [List.cons_append, infoLoop]
          rw [infoLoop_ptZ tbl ys _ _ _ (fun t ht => hxs t (by simp [ht])) (nextOK_vars vs rest)]
          exact hrec
      · simp only [hx, if_false]
        rw [infoLoop_skip tbl xs _ _ _ hxs]
        exact hrec

/-! ## fileindex.load -/

theorem idxInfo_skip (tbl : List (String × String)) (ys l : List Tag) (pc : Int) (pv : String) (info : Info)
    (h : ∀ t ∈ ys, t.code ≠ 0 ∧ t.code ≠ 9 ∧ t.code ≠ 999) (hpc : pc ≠ 0) :
    ∃ pc' pv', pc' ≠ 0 ∧
      idxInfoLoop tbl (ys ++ l) ⟨true, pc, pv, none, info⟩ = idxInfoLoop tbl l ⟨true, pc', pv', none, info⟩ := by
  induction ys generalizing pc pv with
  | nil => exact ⟨pc, pv, hpc, rfl⟩
  | cons y r ih =>
    obtain ⟨h0, h9, _⟩ := h y (by simp)
    have hy : (y.code : Int) ≠ 0 := by exact_mod_cast h0
    obtain ⟨pc', pv', h1, h2⟩ := ih (y.code : Int) y.val (fun t ht => h t (by simp [ht])) hy
    refine ⟨pc', pv', h1, ?_⟩
    rw [← h2]
    simp [idxInfoLoop, h9, h0, hpc]

theorem idxInfo_vars (tbl : List (String × String)) (vars : List HVar) (l : List Tag) (pc : Int) (pv : String) (info : Info)
    (hok : ∀ v ∈ vars, hvarOK v = true) (hpc : pc ≠ 0) :
    ∃ pc' pv', pc' ≠ 0 ∧
      idxInfoLoop tbl (renderVars vars ++ l) ⟨true, pc, pv, none, info⟩ =
        idxInfoLoop tbl l ⟨true, pc', pv', none, specFold tbl vars info⟩ := by
  induction vars generalizing pc pv info with
  | nil => exact ⟨pc, pv, hpc, rfl⟩
  | cons v vs ih =>
    obtain ⟨x, xs, hv, hcodes, _⟩ := hvar_value v (hok v (by simp))
    have hoks : ∀ w ∈ vs, hvarOK w = true := fun w hw => hok w (by simp [hw])
    have hxs : ∀ t ∈ xs, t.code ≠ 0 ∧ t.code ≠ 9 ∧ t.code ≠ 999 := fun t ht => hcodes t (by simp [ht])
    obtain ⟨hx0, hx9, _⟩ := hcodes x (by simp)
    have hxi : (x.code : Int) ≠ 0 := by exact_mod_cast hx0
    have htext : v.text = x.val := by simp [HVar.text, hv]
    rw [renderVars_cons, specFold_cons, hv, htext]
    simp only [List.cons_append, List.append_assoc]
    by_cases hA : v.name = "$ACADVER"
    · obtain ⟨p1, q1, hp1, e1⟩ := idxInfo_skip tbl xs (renderVars vs ++ l) pc pv (setVar tbl info v.name x.val) hxs hpc
      obtain ⟨p2, q2, hp2, e2⟩ := ih p1 q1 (setVar tbl info v.name x.val) hoks hp1
      refine ⟨p2, q2, hp2, ?_⟩
      rw [← e2, ← e1]
      simp [idxInfoLoop, hA, setVar]
    · by_cases hC : v.name = "$DWGCODEPAGE"
      · obtain ⟨p1, q1, hp1, e1⟩ := idxInfo_skip tbl xs (renderVars vs ++ l) pc pv (setVar tbl info v.name x.val) hxs hpc
        obtain ⟨p2, q2, hp2, e2⟩ := ih p1 q1 (setVar tbl info v.name x.val) hoks hp1
        refine ⟨p2, q2, hp2, ?_⟩
        rw [← e2, ← e1]
        simp [idxInfoLoop, hC, setVar]
      · rw [setVar_other tbl info _ _ hA hC]
        obtain ⟨p1, q1, hp1, e1⟩ := idxInfo_skip tbl (x :: xs) (renderVars vs ++ l) pc pv info hcodes hpc
        obtain ⟨p2, q2, hp2, e2⟩ := ih p1 q1 info hoks hp1
        refine ⟨p2, q2, hp2, ?_⟩
        rw [← e2, ← e1]
        simp [idxInfoLoop, hA, hC]

/-- a section body outside the HEADER section: nothing is decided there -/
theorem idxInfo_body (tbl : List (String × String)) (b l : List Tag) (pc : Int) (pv : String) (info : Info)
    (hb : bodyOK b = true) (hprev : ¬(pc = 0 ∧ pv = "SECTION")) :
    ∃ pc' pv', ¬(pc' = 0 ∧ pv' = "SECTION") ∧
      idxInfoLoop tbl (b ++ l) ⟨false, pc, pv, none, info⟩ = idxInfoLoop tbl l ⟨false, pc', pv', none, info⟩ := by
  induction b generalizing pc pv with
  | nil => exact ⟨pc, pv, hprev, rfl⟩
  | cons t r ih =>
    obtain ⟨ht, hr⟩ := bodyOK_cons t r hb
    by_cases h0 : t.code = 0
    · have hne : ¬(t.val = "SECTION" ∨ t.val = "ENDSEC" ∨ t.val = "EOF") := fun hv => ht ⟨h0, hv⟩
      simp only [not_or] at hne
      obtain ⟨pc', pv', h1, h2⟩ := ih 0 t.val hr (by simp [hne.1])
      refine ⟨pc', pv', h1, ?_⟩
      rw [← h2]
      simp [idxInfoLoop, h0, hne.2.2]
    · have hti : (t.code : Int) ≠ 0 := by exact_mod_cast h0
      obtain ⟨pc', pv', h1, h2⟩ := ih (t.code : Int) t.val hr (fun h => hti h.1)
      refine ⟨pc', pv', h1, ?_⟩
      rw [← h2]
      by_cases h2c : t.code = 2 ∧ pc = 0 ∧ pv = "SECTION"
      · exact absurd ⟨h2c.2.1, h2c.2.2⟩ hprev
      · simp [idxInfoLoop, h0, h2c]

/-- the sections behind the HEADER section (none of them is called HEADER) leave the decision alone -/
theorem idxInfo_secs (tbl : List (String × String)) (secs : List Section) (hdr : Bool) (pc : Int) (pv : String) (info : Info)
    (h : ∀ s ∈ secs, s.name ≠ "HEADER" ∧ bodyOK s.body = true) :
    idxInfoLoop tbl (render secs) ⟨hdr, pc, pv, none, info⟩ = info := by
  induction secs generalizing hdr pc pv with
  | nil => simp [render, idxInfoLoop, tEOF]
  | cons s r ih =>
    obtain ⟨hn, hb⟩ := h s (by simp)
    obtain ⟨pc', pv', _, e⟩ := idxInfo_body tbl s.body (tENDSEC :: render r) 2 s.name info hb (by simp)
    have hr := ih false 0 "ENDSEC" (fun x hx => h x (by simp [hx]))
    have : render (s :: r) = tSECTION :: ⟨2, s.name⟩ :: (s.body ++ tENDSEC :: render r) := by
      simp [render, renderSec]
    rw [this]
    simp only [idxInfoLoop, tSECTION, Bool.and_eq_true, decide_eq_true_eq]
    simp only [show ¬((0 : Nat) = 9) by decide, and_false, if_false, if_true,
      show ("SECTION" = "EOF") = False by decide, hn, decide_false]
    simp only [show ¬((2 : Nat) = 9) by decide, and_false, if_false, show ¬((2 : Nat) = 0) by decide, true_and, and_self, if_true]
    rw [e]
    simp only [idxInfoLoop, tENDSEC, Bool.false_eq_true, false_and, if_false, if_true,
      show ("ENDSEC" = "EOF") = False by decide]
    exact hr

theorem indexInfo_header (tbl : List (String × String)) (vars : List HVar) (secs : List Section)
    (hok : ∀ v ∈ vars, hvarOK v = true) (hs : ∀ s ∈ secs, s.name ≠ "HEADER" ∧ bodyOK s.body = true) :
    indexInfo tbl (headerFile vars (render secs)) = specInfo tbl vars := by
  obtain ⟨pc', pv', _, e⟩ := idxInfo_vars tbl vars (tENDSEC :: render secs) 2 "HEADER" Info.default hok (by decide)
  have hr := idxInfo_secs tbl secs true 0 "ENDSEC" (specFold tbl vars Info.default) hs
  unfold indexInfo specInfo headerFile
  congr 1
  simp only [idxInfoLoop, tSECTION, Bool.false_eq_true, false_and, if_false, if_true,
    show ("SECTION" = "EOF") = False by decide]
  simp only [show ¬((2 : Nat) = 0) by decide, if_false, true_and, and_self, if_true, decide_true]
  rw [e]
  simp only [idxInfoLoop, tENDSEC, show ¬((0 : Nat) = 9) by decide, and_false, if_false, if_true,
    show ("ENDSEC" = "EOF") = False by decide]
  exact hr

/-! ## single_pass_modelspace, first loop -/

theorem spInfo_skip (tbl : List (String × String)) (ys l : List Tag) (pc : Int) (info : Info)
    (h : ∀ t ∈ ys, t.code ≠ 0 ∧ t.code ≠ 9 ∧ t.code ≠ 999) (hpc : pc ≠ 0) :
    ∃ pc', pc' ≠ 0 ∧ spInfoLoop tbl (ys ++ l) ⟨none, pc, info⟩ = spInfoLoop tbl l ⟨none, pc', info⟩ := by
  induction ys generalizing pc with
  | nil => exact ⟨pc, hpc, rfl⟩
  | cons y r ih =>
    obtain ⟨h0, h9, _⟩ := h y (by simp)
    have hy : (y.code : Int) ≠ 0 := by exact_mod_cast h0
    obtain ⟨pc', h1, h2⟩ := ih (y.code : Int) (fun t ht => h t (by simp [ht])) hy
    refine ⟨pc', h1, ?_⟩
    rw [← h2]
    simp [spInfoLoop, h9, h0, hpc]

theorem spInfo_vars (tbl : List (String × String)) (vars : List HVar) (l : List Tag) (pc : Int) (info : Info)
    (hok : ∀ v ∈ vars, hvarOK v = true) (hpc : pc ≠ 0) :
    ∃ pc', pc' ≠ 0 ∧
      spInfoLoop tbl (renderVars vars ++ l) ⟨none, pc, info⟩ = spInfoLoop tbl l ⟨none, pc', specFold tbl vars info⟩ := by
  induction vars generalizing pc info with
  | nil => exact ⟨pc, hpc, rfl⟩
  | cons v vs ih =>
    obtain ⟨x, xs, hv, hcodes, _⟩ := hvar_value v (hok v (by simp))
    have hoks : ∀ w ∈ vs, hvarOK w = true := fun w hw => hok w (by simp [hw])
    have hxs : ∀ t ∈ xs, t.code ≠ 0 ∧ t.code ≠ 9 ∧ t.code ≠ 999 := fun t ht => hcodes t (by simp [ht])
    obtain ⟨hx0, hx9, _⟩ := hcodes x (by simp)
    have hxi : (x.code : Int) ≠ 0 := by exact_mod_cast hx0
    have htext : v.text = x.val := by simp [HVar.text, hv]
    rw [renderVars_cons, specFold_cons, hv, htext]
    simp only [List.cons_append, List.append_assoc]
    by_cases hC : v.name = "$DWGCODEPAGE"
    · obtain ⟨p1, hp1, e1⟩ := spInfo_skip tbl xs (renderVars vs ++ l) (x.code : Int) (setVar tbl info v.name x.val) hxs hxi
      obtain ⟨p2, hp2, e2⟩ := ih p1 (setVar tbl info v.name x.val) hoks hp1
      refine ⟨p2, hp2, ?_⟩
      rw [← e2, ← e1]
      simp [spInfoLoop, hC, setVar, hx9, hx0]
    · by_cases hA : v.name = "$ACADVER"
      · obtain ⟨p1, hp1, e1⟩ := spInfo_skip tbl xs (renderVars vs ++ l) (x.code : Int) (setVar tbl info v.name x.val) hxs hxi
        obtain ⟨p2, hp2, e2⟩ := ih p1 (setVar tbl info v.name x.val) hoks hp1
        refine ⟨p2, hp2, ?_⟩
        rw [← e2, ← e1]
        simp [spInfoLoop, hA, setVar, hx9, hx0]
      · rw [setVar_other tbl info _ _ hA hC]
        obtain ⟨p1, hp1, e1⟩ := spInfo_skip tbl (x :: xs) (renderVars vs ++ l) 9 info hcodes (by decide)
        obtain ⟨p2, hp2, e2⟩ := ih p1 info hoks hp1
        refine ⟨p2, hp2, ?_⟩
        rw [← e2, ← e1]
        simp [spInfoLoop, hA, hC]

theorem spInfo_header (tbl : List (String × String)) (vars : List HVar) (rest : List Tag)
    (hok : ∀ v ∈ vars, hvarOK v = true) :
    spInfo tbl (headerFile vars rest) = specInfo tbl vars := by
  obtain ⟨pc', _, e⟩ := spInfo_vars tbl vars (tENDSEC :: rest) 2 Info.default hok (by decide)
  have h : spInfoLoop tbl (headerFile vars rest) ⟨none, -1, Info.default⟩ = specFold tbl vars Info.default := by
    have h1 : spInfoLoop tbl (headerFile vars rest) ⟨none, -1, Info.default⟩ =
        spInfoLoop tbl (renderVars vars ++ tENDSEC :: rest) ⟨none, 2, Info.default⟩ := by
      simp [headerFile, spInfoLoop, tSECTION]
    rw [h1, e]
    simp [spInfoLoop, tENDSEC]
  simp [spInfo, specInfo, h]

/-! ## dxf_info on the whole file -/

theorem asciiLoad_prefix' (a b : List Tag) (h : ∀ t ∈ a, t.code ≠ 999 ∧ t ≠ tEOF) :
    asciiLoad (a ++ b) = a ++ asciiLoad b := by
  induction a with
  | nil => rfl
  | cons t r ih =>
    obtain ⟨h1, h2⟩ := h t (by simp)
    simp only [List.cons_append, asciiLoad, h2, if_false, h1]
    rw [ih (fun x hx => h x (by simp [hx]))]

theorem renderVars_clean (vars : List HVar) (hok : ∀ v ∈ vars, hvarOK v = true) :
    ∀ t ∈ renderVars vars, t.code ≠ 999 ∧ t ≠ tEOF := by
  intro t ht
  simp only [renderVars, List.mem_flatMap, HVar.tags, List.mem_cons] at ht
  obtain ⟨v, hv, rfl | ht⟩ := ht
  · exact ⟨by simp, by simp [tEOF]⟩
  · obtain ⟨x, xs, hval, hcodes, _⟩ := hvar_value v (hok v hv)
    rw [hval] at ht
    obtain ⟨h0, _, h999⟩ := hcodes t ht
    exact ⟨h999, by intro h; rw [h] at h0; simp [tEOF] at h0⟩

/-- the header part of the file passes `ascii_tags_loader` unchanged -/
theorem asciiLoad_headerFile (vars : List HVar) (rest : List Tag) (hok : ∀ v ∈ vars, hvarOK v = true) :
    asciiLoad (headerFile vars rest) = tSECTION :: ⟨2, "HEADER"⟩ :: (renderVars vars ++ tENDSEC :: asciiLoad rest) := by
  have := asciiLoad_prefix' (tSECTION :: ⟨2, "HEADER"⟩ :: (renderVars vars ++ [tENDSEC])) rest (by
    intro t ht
    simp only [List.mem_cons, List.mem_append, List.not_mem_nil, or_false] at ht
    rcases ht with rfl | rfl | ht | rfl
    · exact ⟨by decide, by decide⟩
    · exact ⟨by decide, by simp [tEOF]⟩
    · exact renderVars_clean vars hok t ht
    · exact ⟨by decide, by decide⟩)
  simpa [headerFile] using this

theorem dxfInfo_header (tbl : List (String × String)) (vars : List HVar) (rest : List Tag)
    (hok : ∀ v ∈ vars, hvarOK v = true) (hcnt : (vars.filter (fun v => isCounted v.name)).length ≤ 5) :
    dxfInfo tbl (headerFile vars rest) = specInfo tbl vars := by
  unfold dxfInfo
  rw [asciiLoad_headerFile vars rest hok]
  simp only [and_self, if_true]
  rw [infoLoop_vars tbl vars (asciiLoad rest) Info.default 0 hok (by omega) (by omega)]
  rfl

/-! ## recover.detect_encoding -/

def cpOf (tbl : List (String × String)) (vars : List HVar) : Option String :=
  (vars.find? (fun v => v.name = "$DWGCODEPAGE")).map (fun v => toEncoding tbl v.text)

def verOf (vars : List HVar) : Option String :=
  (vars.find? (fun v => v.name = "$ACADVER")).map (fun v => v.text)

/-- what `detect_encoding` needs of the two decisive variables: `$DWGCODEPAGE` is written with group code 3, `$ACADVER`
    with group code 1 and a non-empty value -/
def recVarOK (v : HVar) : Bool :=
  match v.value with
  | [] => false
  | x :: _ =>
    (v.name != "$DWGCODEPAGE" || x.code == 3) && (v.name != "$ACADVER" || (x.code == 1 && x.val != ""))

def recDecide (e v : String) : String := if v < "AC1021" then e else "utf-8"

theorem recEnc_skip (tbl : List (String × String)) (ys l : List Tag) (enc ver : Option String)
    (h : ∀ t ∈ ys, t.code ≠ 0 ∧ t.code ≠ 9 ∧ t.code ≠ 999) (hb : ¬(enc.isSome ∧ ver.isSome)) :
    recEncLoop tbl (ys ++ l) ⟨enc, ver, none⟩ = recEncLoop tbl l ⟨enc, ver, none⟩ := by
  induction ys with
  | nil => rfl
  | cons y r ih =>
    obtain ⟨_, h9, _⟩ := h y (by simp)
    have ihr := ih (fun t ht => h t (by simp [ht]))
    simp only [List.cons_append, recEncLoop, h9, if_false, reduceCtorEq, and_false]
    cases enc <;> cases ver <;> simp_all

def orOpt {α : Type} (a b : Option α) : Option α := match a with | some x => some x | none => b

@[simp] theorem orOpt_some {α : Type} (x : α) (b : Option α) : orOpt (some x) b = some x := rfl
@[simp] theorem orOpt_none {α : Type} (b : Option α) : orOpt none b = b := rfl
@[simp] theorem orOpt_none_right {α : Type} (a : Option α) : orOpt a none = a := by cases a <;> rfl

theorem filter_len_le_one_tail (p : HVar → Bool) (w : HVar) (ws : List HVar) (hw : p w = true)
    (h : ((w :: ws).filter p).length ≤ 1) : ∀ v ∈ ws, p v = false := by
  intro v hv
  cases hp : p v with
  | false => rfl
  | true =>
    have hm : v ∈ ws.filter p := List.mem_filter.mpr ⟨hv, hp⟩
    have := List.length_pos_of_mem hm
    simp only [List.filter, hw, List.length_cons] at h
    omega

theorem recEnc_vars (tbl : List (String × String)) (vars : List HVar) (l : List Tag) (enc ver : Option String)
    (hok : ∀ v ∈ vars, hvarOK v = true ∧ recVarOK v = true)
    (hb : ¬(enc.isSome ∧ ver.isSome))
    (hvne : ∀ v0, ver = some v0 → v0 ≠ "")
    (he : enc.isSome → ∀ v ∈ vars, v.name ≠ "$DWGCODEPAGE")
    (hv : ver.isSome → ∀ v ∈ vars, v.name ≠ "$ACADVER")
    (hu1 : (vars.filter (fun v => decide (v.name = "$DWGCODEPAGE"))).length ≤ 1)
    (hu2 : (vars.filter (fun v => decide (v.name = "$ACADVER"))).length ≤ 1) :
    recEncLoop tbl (renderVars vars ++ l) ⟨enc, ver, none⟩ =
      match orOpt enc (cpOf tbl vars), orOpt ver (verOf vars) with
      | some e, some v => recDecide e v
      | e', v' => recEncLoop tbl l ⟨e', v', none⟩ := by
  induction vars generalizing enc ver with
  | nil =>
    simp only [renderVars, List.flatMap_nil, List.nil_append, cpOf, verOf, List.find?_nil, Option.map_none, orOpt_none_right]
    cases enc <;> cases ver <;> simp_all
  | cons w ws ih =>
    obtain ⟨hw1, hw2⟩ := hok w (by simp)
    obtain ⟨x, xs, hval, hcodes, _⟩ := hvar_value w hw1
    have hoks : ∀ v ∈ ws, hvarOK v = true ∧ recVarOK v = true := fun v hv => hok v (by simp [hv])
    have hxs : ∀ t ∈ xs, t.code ≠ 0 ∧ t.code ≠ 9 ∧ t.code ≠ 999 := fun t ht => hcodes t (by simp [ht])
    obtain ⟨hx0, hx9, _⟩ := hcodes x (by simp)
    have htext : w.text = x.val := by simp [HVar.text, hval]
    simp only [recVarOK, hval, Bool.and_eq_true, Bool.or_eq_true, bne_iff_ne, beq_iff_eq] at hw2
    rw [renderVars_cons, hval]
    simp only [List.cons_append, List.append_assoc]
    by_cases hC : w.name = "$DWGCODEPAGE"
    · -- the code page variable
      have hx3 : x.code = 3 := by rcases hw2.1 with h | h; exact absurd hC h; exact h
      have hencN : enc = none := by
        cases henc : enc with
        | none => rfl
        | some e => exact absurd hC (he (by simp [henc]) w (by simp))
      subst hencN
      have hwsC : ∀ v ∈ ws, v.name ≠ "$DWGCODEPAGE" := by
        intro v hv
        have := filter_len_le_one_tail (fun v => decide (v.name = "$DWGCODEPAGE")) w ws (by simp [hC]) hu1 v hv
        simpa using this
      have hAne : w.name ≠ "$ACADVER" := by rw [hC]; decide
      have hcp : cpOf tbl (w :: ws) = some (toEncoding tbl x.val) := by simp [cpOf, hC, htext]
      have hvo : verOf (w :: ws) = verOf ws := by simp [verOf, hAne]
      rw [hcp, hvo]
      cases hver : ver with
      | some v0 =>
        have hv0 : v0 ≠ "" := hvne v0 hver
        simp [recEncLoop, hC, hx3, recDecide, hv0]
      | none =>
        have hrec := ih (some (toEncoding tbl x.val)) none hoks (by simp) (by simp) (fun _ => hwsC) (by simp)
          (by simp only [List.filter, hC, decide_true, List.length_cons] at hu1; omega)
          (by simp only [List.filter, hAne, decide_false] at hu2; exact hu2)
        have hskip := recEnc_skip tbl xs (renderVars ws ++ l) (some (toEncoding tbl x.val)) none hxs (by simp)
        simp only [orOpt_none, orOpt_some] at hrec ⊢
        rw [← hrec, ← hskip]
        simp [recEncLoop, hC, hx3]
    · by_cases hA : w.name = "$ACADVER"
      · have hx1 : x.code = 1 ∧ x.val ≠ "" := by rcases hw2.2 with h | h; exact absurd hA h; exact h
        have hverN : ver = none := by
          cases hver : ver with
          | none => rfl
          | some e => exact absurd hA (hv (by simp [hver]) w (by simp))
        subst hverN
        have hwsA : ∀ v ∈ ws, v.name ≠ "$ACADVER" := by
          intro v hv
          have := filter_len_le_one_tail (fun v => decide (v.name = "$ACADVER")) w ws (by simp [hA]) hu2 v hv
          simpa using this
        have hcp : cpOf tbl (w :: ws) = cpOf tbl ws := by simp [cpOf, hC]
        have hvo : verOf (w :: ws) = some x.val := by simp [verOf, hA, htext]
        rw [hcp, hvo]
        cases henc : enc with
        | some e0 =>
          simp [recEncLoop, hC, hA, hx1.1, hx1.2, recDecide]
        | none =>
          have hrec := ih none (some x.val) hoks (by simp) (by intro v0 h; cases h; exact hx1.2) (by simp) (fun _ => hwsA)
            (by simp only [List.filter, hC, decide_false] at hu1; exact hu1)
            (by simp only [List.filter, hA, decide_true, List.length_cons] at hu2; omega)
          have hskip := recEnc_skip tbl xs (renderVars ws ++ l) none (some x.val) hxs (by simp)
          simp only [orOpt_none, orOpt_some] at hrec ⊢
          rw [← hrec, ← hskip]
          simp [recEncLoop, hC, hA, hx1.1]
      · -- any other variable
        have hcp : cpOf tbl (w :: ws) = cpOf tbl ws := by simp [cpOf, hC]
        have hvo : verOf (w :: ws) = verOf ws := by simp [verOf, hA]
        rw [hcp, hvo]
        have hrec := ih enc ver hoks hb hvne (fun h v hv => he h v (by simp [hv])) (fun h v hm => hv h v (by simp [hm]))
          (by simp only [List.filter, hC, decide_false] at hu1; exact hu1)
          (by simp only [List.filter, hA, decide_false] at hu2; exact hu2)
        have hskip := recEnc_skip tbl (x :: xs) (renderVars ws ++ l) enc ver hcodes hb
        rw [← hrec, ← hskip]
        simp only [recEncLoop, hC, hA, if_true, if_false, List.cons_append]
        cases enc <;> cases ver <;> simp_all

/-! ## the declarative decision in terms of the two variables -/

theorem specFold_version_keep (tbl : List (String × String)) (vs : List HVar) (i : Info)
    (h : ∀ v ∈ vs, v.name ≠ "$ACADVER") : (specFold tbl vs i).version = i.version := by
  induction vs generalizing i with
  | nil => rfl
  | cons v r ih =>
    rw [specFold_cons, ih _ (fun x hx => h x (by simp [hx]))]
    have := h v (by simp)
    simp only [setVar, this, if_false]
    split <;> rfl

theorem specFold_encoding_keep (tbl : List (String × String)) (vs : List HVar) (i : Info)
    (h : ∀ v ∈ vs, v.name ≠ "$DWGCODEPAGE") : (specFold tbl vs i).encoding = i.encoding := by
  induction vs generalizing i with
  | nil => rfl
  | cons v r ih =>
    rw [specFold_cons, ih _ (fun x hx => h x (by simp [hx]))]
    have := h v (by simp)
    simp only [setVar, this, if_false]
    split <;> rfl

theorem specFold_version (tbl : List (String × String)) (vs : List HVar) (i : Info)
    (hu : (vs.filter (fun v => decide (v.name = "$ACADVER"))).length ≤ 1) :
    (specFold tbl vs i).version = (verOf vs).getD i.version := by
  induction vs generalizing i with
  | nil => rfl
  | cons v r ih =>
    by_cases hA : v.name = "$ACADVER"
    · have hr : ∀ w ∈ r, w.name ≠ "$ACADVER" := by
        intro w hw
        have := filter_len_le_one_tail (fun v => decide (v.name = "$ACADVER")) v r (by simp [hA]) hu w hw
        simpa using this
      rw [specFold_cons, specFold_version_keep tbl r _ hr]
      simp [verOf, hA, setVar]
    · rw [specFold_cons, ih _ (by simp only [List.filter, hA, decide_false] at hu; exact hu)]
      have : (setVar tbl i v.name v.text).version = i.version := by
        simp only [setVar, hA, if_false]; split <;> rfl
      simp [verOf, hA, this]

theorem specFold_encoding (tbl : List (String × String)) (vs : List HVar) (i : Info)
    (hu : (vs.filter (fun v => decide (v.name = "$DWGCODEPAGE"))).length ≤ 1) :
    (specFold tbl vs i).encoding = (cpOf tbl vs).getD i.encoding := by
  induction vs generalizing i with
  | nil => rfl
  | cons v r ih =>
    by_cases hC : v.name = "$DWGCODEPAGE"
    · have hr : ∀ w ∈ r, w.name ≠ "$DWGCODEPAGE" := by
        intro w hw
        have := filter_len_le_one_tail (fun v => decide (v.name = "$DWGCODEPAGE")) v r (by simp [hC]) hu w hw
        simpa using this
      have hA : v.name ≠ "$ACADVER" := by rw [hC]; decide
      rw [specFold_cons, specFold_encoding_keep tbl r _ hr]
      simp [cpOf, hC, setVar, hA]
    · rw [specFold_cons, ih _ (by simp only [List.filter, hC, decide_false] at hu; exact hu)]
      have : (setVar tbl i v.name v.text).encoding = i.encoding := by
        simp only [setVar, hC, if_false]; split <;> rfl
      simp [cpOf, hC, this]

/-- recover's `detect_encoding` on a file whose header holds `$DWGCODEPAGE` (group code 3) and `$ACADVER` (group code 1,
    non-empty) exactly once each: the same encoding as every other reader, whatever follows the header -/
theorem recoverEnc_header (tbl : List (String × String)) (vars : List HVar) (rest : List Tag)
    (hok : ∀ v ∈ vars, hvarOK v = true ∧ recVarOK v = true)
    (hu1 : (vars.filter (fun v => decide (v.name = "$DWGCODEPAGE"))).length = 1)
    (hu2 : (vars.filter (fun v => decide (v.name = "$ACADVER"))).length = 1) :
    recoverEnc tbl (headerFile vars rest) = (specInfo tbl vars).encoding := by
  have hok1 : ∀ v ∈ vars, hvarOK v = true := fun v hv => (hok v hv).1
  unfold recoverEnc
  rw [asciiLoad_headerFile vars rest hok1]
  have hstep : recEncLoop tbl (tSECTION :: ⟨2, "HEADER"⟩ :: (renderVars vars ++ tENDSEC :: asciiLoad rest)) ⟨none, none, none⟩
      = recEncLoop tbl (renderVars vars ++ tENDSEC :: asciiLoad rest) ⟨none, none, none⟩ := by
    simp [recEncLoop, tSECTION]
  rw [hstep, recEnc_vars tbl vars _ none none hok (by simp) (by simp) (by simp) (by simp) (by omega) (by omega)]
  -- both variables are present
  have hcp : ∃ e, cpOf tbl vars = some e := by
    have : 0 < (vars.filter (fun v => decide (v.name = "$DWGCODEPAGE"))).length := by omega
    obtain ⟨w, hw⟩ := List.exists_mem_of_length_pos this
    obtain ⟨hw1, hw2⟩ := List.mem_filter.mp hw
    cases hf : vars.find? (fun v => decide (v.name = "$DWGCODEPAGE")) with
    | none => exact absurd hw2 (by simpa using (List.find?_eq_none.mp hf) w hw1)
    | some x => exact ⟨toEncoding tbl x.text, by simp [cpOf, hf]⟩
  have hve : ∃ v, verOf vars = some v := by
    have : 0 < (vars.filter (fun v => decide (v.name = "$ACADVER"))).length := by omega
    obtain ⟨w, hw⟩ := List.exists_mem_of_length_pos this
    obtain ⟨hw1, hw2⟩ := List.mem_filter.mp hw
    cases hf : vars.find? (fun v => decide (v.name = "$ACADVER")) with
    | none => exact absurd hw2 (by simpa using (List.find?_eq_none.mp hf) w hw1)
    | some x => exact ⟨x.text, by simp [verOf, hf]⟩
  obtain ⟨e, he⟩ := hcp
  obtain ⟨v, hv⟩ := hve
  simp only [orOpt_none, he, hv]
  have h1 := specFold_version tbl vars Info.default (by omega)
  have h2 := specFold_encoding tbl vars Info.default (by omega)
  rw [hv] at h1; rw [he] at h2
  simp only [Option.getD_some] at h1 h2
  simp only [specInfo, Info.final, recDecide, h1]
  split <;> simp [h2]

/-! ## Binary DXF: `scan_params` -/

theorem strOf_bytesOf (s : String) : strOf (bytesOf s) = s := by
  simp [strOf, bytesOf, List.map_map, Function.comp_def]

theorem bytesOf_length (s : String) : (bytesOf s).length = s.length := by simp [bytesOf, String.length]

/-- a match inside a prefix of the data is a match in the data -/
theorem findSub_append (pat a b : List Nat) (pos fuel p : Nat) (h : findSub pat a pos fuel = some p) :
    findSub pat (a ++ b) pos fuel = some p := by
  induction fuel generalizing pos with
  | zero => simp [findSub] at h
  | succ n ih =>
    simp only [findSub] at h ⊢
    split at h
    · simp at h
    · rename_i hle
      simp only [not_or, Nat.not_lt] at hle
      have hle2 : ¬(pos + pat.length > 1024 ∨ pos + pat.length > (a ++ b).length) := by
        simp only [List.length_append, not_or, Nat.not_lt]; omega
      simp only [hle2, if_false]
      have hwin : ((a ++ b).drop pos).take pat.length = (a.drop pos).take pat.length := by
        rw [List.drop_append_of_le_length (by omega), List.take_append_of_le_length (by simp; omega)]
      rw [hwin]
      split at h
      · rename_i hm; simp only [hm, if_true]; exact h
      · rename_i hm; simp only [hm, if_false]; exact ih (pos + 1) h

/-- the code page value is read up to its zero byte: for EVERY data that continues, behind the `$DWGCODEPAGE` name found
    at `p`, with the value tag `binTag r12 3 cp` (code page name of at least 5 characters starting with `A`, no zero
    byte), the scan returns `toencoding(cp)` - 3-digit and 4-digit code pages alike -/
theorem scanCodepage_full (tbl : List (String × String)) (r12 : Bool) (pre rest : List Nat) (cp : String) (tl : List Char)
    (hA : cp.toList = 'A' :: tl) (h5 : 5 ≤ cp.length) (h0 : ∀ c ∈ cp.toList, c.toNat ≠ 0) :
    scanCodepage tbl true (pre ++ bytesOf "$DWGCODEPAGE" ++ [0] ++ binTag r12 3 cp ++ rest) pre.length
      = some (toEncoding tbl cp) := by
  have hb : bytesOf cp = 65 :: tl.map Char.toNat := by simp [bytesOf, hA]
  have hlen : (bytesOf cp).length = cp.length := bytesOf_length cp
  have hnz : ∀ x ∈ bytesOf cp, x ≠ 0 := by
    intro x hx
    simp only [bytesOf, List.mem_map] at hx
    obtain ⟨c, hc, rfl⟩ := hx
    exact h0 c hc
  -- the data behind the name and its zero byte
  have hsplit : ∀ (w : List Nat), (pre ++ bytesOf "$DWGCODEPAGE" ++ [0] ++ (w ++ bytesOf cp ++ [0]) ++ rest)
      = (pre ++ bytesOf "$DWGCODEPAGE" ++ [0] ++ w) ++ (bytesOf cp ++ (0 :: rest)) := by
    intro w; simp [List.append_assoc]
  have hpl : ∀ (w : List Nat), (pre ++ bytesOf "$DWGCODEPAGE" ++ [0] ++ w).length = pre.length + 13 + w.length := by
    intro w; simp [bytesOf]; omega
  have htail : ((bytesOf cp).drop 5 ++ (0 :: rest)).takeWhile (· ≠ 0) = (bytesOf cp).drop 5 := by
    have : ∀ x ∈ (bytesOf cp).drop 5, (decide (x ≠ 0)) = true := fun x hx => by simpa using hnz x (List.mem_of_mem_drop hx)
    rw [List.takeWhile_append_of_pos this]
    simp
  have hfinal : ∀ (start : Nat) (front : List Nat), front.length = start →
      (let data := front ++ (bytesOf cp ++ (0 :: rest))
       let tail := data.drop (start + 5)
       let n := (tail.takeWhile (· ≠ 0)).length
       if n = tail.length then none else some (toEncoding tbl (strOf ((data.drop start).take (5 + n)))))
      = some (toEncoding tbl cp) := by
    intro start front hf
    have hd : (front ++ (bytesOf cp ++ (0 :: rest))).drop (start + 5) = (bytesOf cp).drop 5 ++ (0 :: rest) := by
      rw [← hf, List.drop_append, List.drop_append_of_le_length (by omega)]
      have h1 : List.drop (front.length + 5) front = [] := List.drop_eq_nil_of_le (by omega)
      have h2 : front.length + 5 - front.length = 5 := by omega
      rw [h1, h2]; rfl
    have hd2 : (front ++ (bytesOf cp ++ (0 :: rest))).drop start = bytesOf cp ++ (0 :: rest) := by
      rw [← hf]; simp
    simp only [hd, hd2, htail]
    have hn : ((bytesOf cp).drop 5).length ≠ ((bytesOf cp).drop 5 ++ (0 :: rest)).length := by simp
    simp only [hn, if_false]
    have : 5 + ((bytesOf cp).drop 5).length = (bytesOf cp).length := by simp; omega
    rw [this, List.take_left' rfl, strOf_bytesOf]
  unfold scanCodepage
  cases r12 with
  | true =>
    -- 1-byte group code: `data[p + 14]` is the `A` of the value
    have hdata := hsplit [3]
    simp only [binTag, if_true] at hdata ⊢
    rw [hdata]
    have hget : byteAt ((pre ++ bytesOf "$DWGCODEPAGE" ++ [0] ++ [3]) ++ (bytesOf cp ++ (0 :: rest))) (pre.length + 14) = some 65 := by
      unfold byteAt
      rw [List.getElem?_append_right (by rw [hpl]; simp), hpl, hb]
      simp
    rw [hget]
    simp only [ne_eq, not_true_eq_false, if_false]
    exact hfinal (pre.length + 14) _ (by rw [hpl]; simp)
  | false =>
    have hdata := hsplit [3 % 256, 3 / 256]
    simp only [binTag, Bool.false_eq_true, if_false] at hdata ⊢
    rw [hdata]
    have hget : byteAt ((pre ++ bytesOf "$DWGCODEPAGE" ++ [0] ++ [3 % 256, 3 / 256]) ++ (bytesOf cp ++ (0 :: rest))) (pre.length + 14) = some 0 := by
      unfold byteAt
      rw [List.getElem?_append_left (by rw [hpl]; simp)]
      rw [List.getElem?_append_right (by simp [bytesOf])]
      simp [bytesOf]
    rw [hget]
    simp only [ne_eq, show ¬((0 : Nat) = 65) by decide, not_false_eq_true, if_true]
    exact hfinal (pre.length + 15) _ (by rw [hpl]; simp)

end EzdxfVerif.Readers

/-
Helper lemmas for property C12, session 3: `InsertCoordinateSystem.transform` (regenerated kernel `icsScales`) in readable
form, and the vector algebra behind `insert_transform_law`.
-/
import EzdxfVerif.Lemmas.Transform

namespace EzdxfVerif.Transform
open EzdxfVerif.Rat3 EzdxfVerif.Gen

/-- `Vec3.normalize()` as the code computes it: v * (1 / |v|) with the root `r` supplied -/
def nrm (r : Rat) (v : V3) : V3 := ⟨v.x * (1 / r), v.y * (1 / r), v.z * (1 / r)⟩

/-- `Vec3.isclose(other, abs_tol=tol)`: math.isclose component by component (rel_tol = 1e-9) -/
def Close3 (a b : V3) (tol : Rat) : Prop :=
  (pyIsclose a.x b.x tol9 tol = true ∧ pyIsclose a.y b.y tol9 tol = true) ∧ pyIsclose a.z b.z tol9 tol = true
instance (a b : V3) (tol : Rat) : Decidable (Close3 a b tol) := by unfold Close3; infer_instance

/-- the two axes of the block reference in its OCS: (c, s, 0) and (-s, c, 0) for the rotation (c, s) -/
def Ins.xDir (i : Ins) : V3 := ⟨i.rot.x, i.rot.y, 0⟩
def Ins.yDir (i : Ins) : V3 := ⟨-i.rot.y, i.rot.x, 0⟩

/-- images of the three axes of the block reference under `m` (WCS) -/
def insX (old : Ocs) (m : M44) (i : Ins) : V3 := applyDir m (old.toWcs i.xDir)
def insY (old : Ocs) (m : M44) (i : Ins) : V3 := applyDir m (old.toWcs i.yDir)
def insZ (old : Ocs) (m : M44) : V3 := applyDir m old.uz

/-- readable form of the scale / orthogonality / handedness part of `InsertCoordinateSystem.transform` -/
def icsSpec (sqrt : Rat → Rat) (old : Ocs) (m : M44) (i : Ins) (tol : Rat) : Except PyErr (Rat × Rat × Rat × V3) :=
  let r1 := sqrt (magSq (insX old m i))
  let r2 := sqrt (magSq (insY old m i))
  let r3 := sqrt (magSq (insZ old m))
  if r1 = 0 then .error .zeroDivision else
  if r2 = 0 then .error .zeroDivision else
  if r3 = 0 then .error .zeroDivision else
  let nx := nrm r1 (insX old m i)
  let ny := nrm r2 (insY old m i)
  let nz := nrm r3 (insZ old m)
  if (tol < pyAbs (V3.dot nx nz) ∨ tol < pyAbs (V3.dot nx ny)) ∨ tol < pyAbs (V3.dot nz ny) then .error .valueError
  else if ¬ Close3 (V3.cross nz nx) ny tol then .ok (r1 * i.sx, -(r2 * i.sy), r3 * i.sz, nz)
  else .ok (r1 * i.sx, r2 * i.sy, r3 * i.sz, nz)

theorem icsScales_spec (sqrt : Rat → Rat) (old : Ocs) (m : M44) (i : Ins) (tol : Rat) :
    icsScales sqrt old m i tol = icsSpec sqrt old m i tol := by
  obtain ⟨t, M⟩ := old
  cases t
  · simp only [icsScales, icsSpec, TransformKernels.icsScalesS, TransformKernels.icsScales, TransformKernels.icsScales_rad1,
      TransformKernels.icsScales_rad2, TransformKernels.icsScales_rad3, insX, insY, insZ, Ins.xDir, Ins.yDir, nrm, Close3,
      magSq, V3.dot, V3.cross, applyDir, TransformKernels.mTransformDirection, Ocs.toWcs, Ocs.uz, TransformKernels.ocsToWcs,
      tol9, Bool.false_eq_true, if_false]
  · simp only [icsScales, icsSpec, TransformKernels.icsScalesS, TransformKernels.icsScales, TransformKernels.icsScales_rad1,
      TransformKernels.icsScales_rad2, TransformKernels.icsScales_rad3, insX, insY, insZ, Ins.xDir, Ins.yDir, nrm, Close3,
      magSq, V3.dot, V3.cross, applyDir, TransformKernels.mTransformDirection, Ocs.toWcs, Ocs.uz, M44.uz,
      TransformKernels.ocsToWcs, tol9, if_true]

/-! ## vector algebra in an orthonormal right-handed frame -/

theorem dot_comm (u v : V3) : V3.dot u v = V3.dot v u := by simp only [V3.dot]; ring

/-- every vector is the sum of its three components in an orthonormal frame -/
theorem frame_expand (o : Ocs) (h : o.Orthonormal) (v : V3) :
    v = V3.add (V3.add (V3.smul (V3.dot v o.ux) o.ux) (V3.smul (V3.dot v o.uy) o.uy)) (V3.smul (V3.dot v o.uz) o.uz) := by
  have := toWcs_fromWcs o h v
  rw [fromWcs_spec, toWcs_spec] at this
  exact this.symm

/-- n × a = b and n × b = -a in a right-handed orthonormal frame (a, b, n) -/
theorem frame_cross (o : Ocs) (h : o.Orthonormal) (hr : o.RightHanded) :
    V3.cross o.uz o.ux = o.uy ∧ V3.cross o.uz o.uy = V3.smul (-1) o.ux := by
  obtain ⟨hxx, hyy, hzz, hxy, hxz, hyz⟩ := h
  unfold Ocs.RightHanded at hr
  rw [← hr]
  generalize o.ux = a at *; generalize o.uy = b at *
  obtain ⟨a1, a2, a3⟩ := a; obtain ⟨b1, b2, b3⟩ := b
  simp only [V3.dot, V3.cross, V3.smul, V3.mk.injEq] at *
  refine ⟨⟨?_, ?_, ?_⟩, ⟨?_, ?_, ?_⟩⟩
  · linear_combination b1 * hxx - a1 * hxy
  · linear_combination b2 * hxx - a2 * hxy
  · linear_combination b3 * hxx - a3 * hxy
  · linear_combination b1 * hxy - a1 * hyy
  · linear_combination b2 * hxy - a2 * hyy
  · linear_combination b3 * hxy - a3 * hyy

/-- two perpendicular plane vectors (x1, x2), (y1, y2) of lengths r1, r2: the second is ± r2 times the first one turned by
    +90° and normalised -/
theorem perp2 (x1 x2 y1 y2 r1 r2 : Rat) (hr1 : 0 < r1) (hx : x1 * x1 + x2 * x2 = r1 * r1) (hy : y1 * y1 + y2 * y2 = r2 * r2)
    (hxy : x1 * y1 + x2 * y2 = 0) :
    (y1 = r2 * (-(x2 / r1)) ∧ y2 = r2 * (x1 / r1)) ∨ (y1 = -r2 * (-(x2 / r1)) ∧ y2 = -r2 * (x1 / r1)) := by
  have hne : r1 ≠ 0 := ne_of_gt hr1
  set d := (-x2 * y1 + x1 * y2) / r1 with hd
  have e1 : y1 = d * (-(x2 / r1)) := by
    rw [hd]; field_simp
    linear_combination (-y1) * hx + x1 * hxy
  have e2 : y2 = d * (x1 / r1) := by
    rw [hd]; field_simp
    linear_combination (-y2) * hx + x2 * hxy
  have hdd : (d - r2) * (d + r2) = 0 := by
    have : d * d * (r1 * r1) = r2 * r2 * (r1 * r1) := by
      rw [hd]; field_simp
      linear_combination (y1 * y1 + y2 * y2) * hx + (r1 * r1) * hy - (x1 * y1 + x2 * y2) * hxy
    have h2 : r1 * r1 ≠ 0 := mul_ne_zero hne hne
    have : d * d = r2 * r2 := mul_right_cancel₀ h2 this
    linear_combination this
  rcases mul_eq_zero.mp hdd with h | h
  · left
    have : d = r2 := by linarith
    rw [this] at e1 e2; exact ⟨e1, e2⟩
  · right
    have : d = -r2 := by linarith
    rw [this] at e1 e2; exact ⟨e1, e2⟩

theorem tol9_pos : 0 < tol9 ∧ tol9 < 1 := by unfold tol9; constructor <;> norm_num

/-- `math.isclose(w, -w, abs_tol=tol)` with tol < 1 forces |w| < 1/2 -/
theorem isclose_neg_small (w tol : Rat) (h1 : tol < 1) (h : pyIsclose w (-w) tol9 tol = true) : w * w < 1 / 4 := by
  obtain ⟨e0, e1⟩ := tol9_pos
  generalize tol9 = e at *
  simp only [pyIsclose, Bool.or_eq_true, decide_eq_true_eq] at h
  rcases h with (h | h | h) | h
  · have : w = 0 := by linarith
    rw [this]; norm_num
  · unfold pyAbs at h
    split_ifs at h <;> nlinarith
  · unfold pyAbs at h
    split_ifs at h <;> nlinarith
  · unfold pyAbs at h
    split_ifs at h <;> nlinarith

/-- a unit vector is never `isclose` to its negative (tol < 1): the handedness test of the code is decisive -/
theorem not_close3_neg (w : V3) (tol : Rat) (h1 : tol < 1) (hw : V3.dot w w = 1) : ¬ Close3 w (V3.smul (-1) w) tol := by
  intro ⟨⟨hx, hy⟩, hz⟩
  simp only [V3.smul, neg_mul, one_mul] at hx hy hz
  have a := isclose_neg_small w.x tol h1 hx
  have b := isclose_neg_small w.y tol h1 hy
  have c := isclose_neg_small w.z tol h1 hz
  simp only [V3.dot] at hw
  linarith

theorem close3_refl (w : V3) (tol : Rat) : Close3 w w tol := by
  simp [Close3, pyIsclose]


theorem dot_nrm (r s : Rat) (u v : V3) : V3.dot (nrm r u) (nrm s v) = V3.dot u v * (1 / r) * (1 / s) := by
  simp only [nrm, V3.dot]; ring

theorem nrm_smul (r : Rat) (v : V3) : nrm r v = V3.smul (1 / r) v := by
  simp only [nrm, V3.smul, V3.mk.injEq]; refine ⟨?_, ?_, ?_⟩ <;> ring

/-- the direction of the new y-axis of a block reference whose x-axis has the new-OCS coordinates (x1, x2) of length r1 -/
def wDir (o : Ocs) (x1 x2 r1 : Rat) : V3 := V3.add (V3.smul (-(x2 / r1)) o.ux) (V3.smul (x1 / r1) o.uy)

/-- geometry of three mutually orthogonal image axes X, Y, Z in the new OCS whose z-axis is Z / |Z| -/
theorem ins_frame (new : Ocs) (hn : new.Orthonormal) (hrh : new.RightHanded) (X Y Z : V3) (r1 r2 r3 : Rat)
    (hs1 : r1 * r1 = magSq X) (hp1 : 0 < r1) (hs2 : r2 * r2 = magSq Y) (hp3 : 0 < r3)
    (hxy : V3.dot X Y = 0) (hxz : V3.dot X Z = 0) (hyz : V3.dot Y Z = 0) (hnew : new.uz = nrm r3 Z) :
    X = V3.smul r1 (V3.add (V3.smul (V3.dot X new.ux / r1) new.ux) (V3.smul (V3.dot X new.uy / r1) new.uy)) ∧
    Z = V3.smul r3 new.uz ∧
    V3.dot X new.ux * V3.dot X new.ux + V3.dot X new.uy * V3.dot X new.uy = magSq X ∧
    V3.cross new.uz (nrm r1 X) = wDir new (V3.dot X new.ux) (V3.dot X new.uy) r1 ∧
    V3.dot (wDir new (V3.dot X new.ux) (V3.dot X new.uy) r1) (wDir new (V3.dot X new.ux) (V3.dot X new.uy) r1) = 1 ∧
    (Y = V3.smul r2 (wDir new (V3.dot X new.ux) (V3.dot X new.uy) r1) ∨
     Y = V3.smul (-r2) (wDir new (V3.dot X new.ux) (V3.dot X new.uy) r1)) := by
  have hr1 : r1 ≠ 0 := ne_of_gt hp1
  have hr3 : r3 ≠ 0 := ne_of_gt hp3
  simp only [wDir]
  have hXn : V3.dot X new.uz = 0 := by
    rw [hnew]; simp only [nrm, V3.dot] at *; linear_combination (1 / r3) * hxz
  have hYn : V3.dot Y new.uz = 0 := by
    rw [hnew]; simp only [nrm, V3.dot] at *; linear_combination (1 / r3) * hyz
  have eX := frame_expand new hn X
  have eY := frame_expand new hn Y
  have pXX := fromWcs_dot new hn X X
  have pYY := fromWcs_dot new hn Y Y
  have pXY := fromWcs_dot new hn X Y
  simp only [fromWcs_spec] at pXX pYY pXY
  obtain ⟨cA, cB⟩ := frame_cross new hn hrh
  obtain ⟨hxx, hyy, hzz, hab, haz, hbz⟩ := hn
  rw [hXn] at eX pXX pXY
  rw [hYn] at eY pYY pXY
  have hZ : Z = V3.smul r3 new.uz := by
    rw [hnew]; simp only [nrm, V3.smul]; ext <;> simp <;> field_simp
  generalize V3.dot X new.ux = x1 at *
  generalize V3.dot X new.uy = x2 at *
  generalize V3.dot Y new.ux = y1 at *
  generalize V3.dot Y new.uy = y2 at *
  have hX2 : x1 * x1 + x2 * x2 = r1 * r1 := by
    rw [hs1]; simp only [magSq]; rw [← pXX]; simp only [V3.dot]; ring
  have hY2 : y1 * y1 + y2 * y2 = r2 * r2 := by
    rw [hs2]; simp only [magSq]; rw [← pYY]; simp only [V3.dot]; ring
  have hXY2 : x1 * y1 + x2 * y2 = 0 := by
    rw [← hxy, ← pXY]; simp only [V3.dot]; ring
  have hP := perp2 x1 x2 y1 y2 r1 r2 hp1 hX2 hY2 hXY2
  clear pXX pYY pXY hnew hXn hYn
  generalize new.ux = a at *; generalize new.uy = b at *; generalize new.uz = n at *
  obtain ⟨a1, a2, a3⟩ := a; obtain ⟨b1, b2, b3⟩ := b; obtain ⟨n1, n2, n3⟩ := n
  refine ⟨?_, hZ, ?_, ?_, ?_, ?_⟩
  · conv_lhs => rw [eX]
    simp only [V3.add, V3.smul, V3.mk.injEq]
    refine ⟨?_, ?_, ?_⟩ <;> field_simp <;> ring
  · rw [hs1] at hX2; exact hX2
  · conv_lhs => rw [eX]
    simp only [V3.cross, V3.smul, V3.add, nrm, V3.mk.injEq] at cA cB ⊢
    obtain ⟨cA1, cA2, cA3⟩ := cA; obtain ⟨cB1, cB2, cB3⟩ := cB
    refine ⟨?_, ?_, ?_⟩
    · linear_combination (x1 / r1) * cA1 + (x2 / r1) * cB1
    · linear_combination (x1 / r1) * cA2 + (x2 / r1) * cB2
    · linear_combination (x1 / r1) * cA3 + (x2 / r1) * cB3
  · simp only [V3.dot, V3.add, V3.smul] at *
    have : (x2 / r1) * (x2 / r1) + (x1 / r1) * (x1 / r1) = 1 := by field_simp; linarith
    linear_combination (x2 / r1 * (x2 / r1)) * hxx + (x1 / r1 * (x1 / r1)) * hyy - 2 * (x2 / r1) * (x1 / r1) * hab + this
  · rcases hP with ⟨h1, h2⟩ | ⟨h1, h2⟩
    · left
      conv_lhs => rw [eY]
      simp only [V3.add, V3.smul, V3.mk.injEq]
      rw [h1, h2]
      refine ⟨?_, ?_, ?_⟩ <;> ring
    · right
      conv_lhs => rw [eY]
      simp only [V3.add, V3.smul, V3.mk.injEq]
      rw [h1, h2]
      refine ⟨?_, ?_, ?_⟩ <;> ring


/-- the three scaled axes of `insertMatrix` (no base point) -/
theorem insertMatrix_axes (o : Ocs) (i : Ins) :
    (insertMatrix o i ⟨0, 0, 0⟩).ux = V3.smul i.sx (V3.add (V3.smul i.rot.x o.ux) (V3.smul i.rot.y o.uy)) ∧
    (insertMatrix o i ⟨0, 0, 0⟩).uy = V3.smul i.sy (V3.add (V3.smul (-i.rot.y) o.ux) (V3.smul i.rot.x o.uy)) ∧
    (insertMatrix o i ⟨0, 0, 0⟩).uz = V3.smul i.sz o.uz := by
  simp [insertMatrix, M44.ux, M44.uy, M44.uz]

/-- the images under `m` of the scaled axes of the OLD block reference are sx·X, sy·Y, sz·Z (no hypothesis on the old OCS) -/
theorem old_axes_image (old : Ocs) (m : M44) (i : Ins) :
    applyDir m (insertMatrix old i ⟨0, 0, 0⟩).ux = V3.smul i.sx (insX old m i) ∧
    applyDir m (insertMatrix old i ⟨0, 0, 0⟩).uy = V3.smul i.sy (insY old m i) ∧
    applyDir m (insertMatrix old i ⟨0, 0, 0⟩).uz = V3.smul i.sz (insZ old m) := by
  obtain ⟨e1, e2, e3⟩ := insertMatrix_axes old i
  rw [e1, e2, e3]
  simp only [insX, insY, insZ, Ins.xDir, Ins.yDir, toWcs_spec, applyDir_smul, applyDir_add]
  generalize applyDir m old.ux = a; generalize applyDir m old.uy = b; generalize applyDir m old.uz = c
  simp only [V3.add, V3.smul, V3.mk.injEq]
  refine ⟨⟨?_, ?_, ?_⟩, ⟨?_, ?_, ?_⟩, trivial⟩ <;> ring

/-- value of the regenerated kernel when the three image axes are exactly orthogonal: scale factors = lengths of the image axes
    times the old factors, y negated exactly when the image frame is left-handed; no error for any 0 ≤ tol < 1 -/
theorem icsScales_orthogonal (sqrt : Rat → Rat) (old new : Ocs) (m : M44) (i : Ins) (tol : Rat)
    (hn : new.Orthonormal) (hrh : new.RightHanded)
    (hs1 : sqrt (magSq (insX old m i)) * sqrt (magSq (insX old m i)) = magSq (insX old m i)) (hp1 : 0 < sqrt (magSq (insX old m i)))
    (hs2 : sqrt (magSq (insY old m i)) * sqrt (magSq (insY old m i)) = magSq (insY old m i)) (hp2 : 0 < sqrt (magSq (insY old m i)))
    (hp3 : 0 < sqrt (magSq (insZ old m)))
    (hxy : V3.dot (insX old m i) (insY old m i) = 0) (hxz : V3.dot (insX old m i) (insZ old m) = 0)
    (hyz : V3.dot (insY old m i) (insZ old m) = 0) (ht0 : 0 ≤ tol) (ht1 : tol < 1)
    (hnew : new.uz = nrm (sqrt (magSq (insZ old m))) (insZ old m)) :
    ∃ ys, icsScales sqrt old m i tol
        = .ok (sqrt (magSq (insX old m i)) * i.sx, ys, sqrt (magSq (insZ old m)) * i.sz, new.uz) ∧
      V3.smul ys (wDir new (V3.dot (insX old m i) new.ux) (V3.dot (insX old m i) new.uy) (sqrt (magSq (insX old m i))))
        = V3.smul i.sy (insY old m i) := by
  obtain ⟨_, _, _, hW, hWW, hY⟩ := ins_frame new hn hrh (insX old m i) (insY old m i) (insZ old m) _ _ _ hs1 hp1 hs2 hp3 hxy hxz hyz hnew
  rw [icsScales_spec]
  simp only [icsSpec, ne_of_gt hp1, ne_of_gt hp2, ne_of_gt hp3, if_false, dot_nrm]
  have hzy : V3.dot (insZ old m) (insY old m i) = 0 := by rw [dot_comm]; exact hyz
  have hno : ¬ ((tol < pyAbs (V3.dot (insX old m i) (insZ old m) * (1 / sqrt (magSq (insX old m i))) * (1 / sqrt (magSq (insZ old m)))) ∨
      tol < pyAbs (V3.dot (insX old m i) (insY old m i) * (1 / sqrt (magSq (insX old m i))) * (1 / sqrt (magSq (insY old m i))))) ∨
      tol < pyAbs (V3.dot (insZ old m) (insY old m i) * (1 / sqrt (magSq (insZ old m))) * (1 / sqrt (magSq (insY old m i))))) := by
    rw [hxz, hxy, hzy]
    simp only [zero_mul, pyAbs, le_refl, if_true]
    intro h
    rcases h with (h | h) | h <;> linarith
  rw [if_neg hno, ← hnew, hW]
  generalize wDir new (V3.dot (insX old m i) new.ux) (V3.dot (insX old m i) new.uy) (sqrt (magSq (insX old m i))) = W at *
  have hr2 : sqrt (magSq (insY old m i)) ≠ 0 := ne_of_gt hp2
  generalize sqrt (magSq (insY old m i)) = r2 at *
  generalize sqrt (magSq (insX old m i)) = r1 at *
  generalize sqrt (magSq (insZ old m)) = r3 at *
  generalize insY old m i = Y at *
  rcases hY with hY | hY
  · have hny : nrm r2 Y = W := by
      rw [nrm_smul, hY]
      simp only [V3.smul]; ext <;> simp <;> field_simp
    rw [hny, if_neg (not_not.mpr (close3_refl W tol))]
    refine ⟨_, rfl, ?_⟩
    rw [hY]
    simp only [V3.smul, V3.mk.injEq]; refine ⟨?_, ?_, ?_⟩ <;> ring
  · have hny : nrm r2 Y = V3.smul (-1) W := by
      rw [nrm_smul, hY]
      simp only [V3.smul]; ext <;> simp <;> field_simp
    rw [hny, if_pos (not_close3_neg W tol ht1 hWW)]
    refine ⟨_, rfl, ?_⟩
    rw [hY]
    simp only [V3.smul, V3.mk.injEq]; refine ⟨?_, ?_, ?_⟩ <;> ring

theorem dir2_insX (old new : Ocs) (m : M44) (i : Ins) :
    dir2 ⟨m, old, new, true⟩ i.rot = ⟨V3.dot (insX old m i) new.ux, V3.dot (insX old m i) new.uy⟩ := by
  simp only [dir2, direction_spec, fromWcs_spec, insX, Ins.xDir]

/-- insert_transform_law, core: for three exactly orthogonal image axes `Ins.transform` succeeds, and the transformed block
    reference (rotation normalised, as `Insert.matrix44()` sees it) has the images of the old scaled axes as its scaled axes
    and the image of the old insertion point as its insertion point -/
theorem ins_transform_axes (sqrt : Rat → Rat) (old new : Ocs) (m : M44) (i : Ins) (tol : Rat)
    (hn : new.Orthonormal) (hrh : new.RightHanded)
    (hs1 : sqrt (magSq (insX old m i)) * sqrt (magSq (insX old m i)) = magSq (insX old m i)) (hp1 : 0 < sqrt (magSq (insX old m i)))
    (hs2 : sqrt (magSq (insY old m i)) * sqrt (magSq (insY old m i)) = magSq (insY old m i)) (hp2 : 0 < sqrt (magSq (insY old m i)))
    (hp3 : 0 < sqrt (magSq (insZ old m)))
    (hxy : V3.dot (insX old m i) (insY old m i) = 0) (hxz : V3.dot (insX old m i) (insZ old m) = 0)
    (hyz : V3.dot (insY old m i) (insZ old m) = 0) (ht0 : 0 ≤ tol) (ht1 : tol < 1)
    (hnew : new.uz = nrm (sqrt (magSq (insZ old m))) (insZ old m)) :
    ∃ i', Ins.transform sqrt old new m i tol = .ok i' ∧
      (insertMatrix new (i'.unitRot sqrt) ⟨0, 0, 0⟩).ux = applyDir m (insertMatrix old i ⟨0, 0, 0⟩).ux ∧
      (insertMatrix new (i'.unitRot sqrt) ⟨0, 0, 0⟩).uy = applyDir m (insertMatrix old i ⟨0, 0, 0⟩).uy ∧
      (insertMatrix new (i'.unitRot sqrt) ⟨0, 0, 0⟩).uz = applyDir m (insertMatrix old i ⟨0, 0, 0⟩).uz ∧
      new.toWcs (i'.unitRot sqrt).insert = apply m (old.toWcs i.insert) ∧
      i'.sx = sqrt (magSq (insX old m i)) * i.sx ∧ (i'.sy = sqrt (magSq (insY old m i)) * i.sy ∨ i'.sy = -(sqrt (magSq (insY old m i)) * i.sy)) ∧
      i'.sz = sqrt (magSq (insZ old m)) * i.sz := by
  obtain ⟨ys, hk, hys⟩ := icsScales_orthogonal sqrt old new m i tol hn hrh hs1 hp1 hs2 hp2 hp3 hxy hxz hyz ht0 ht1 hnew
  obtain ⟨eX, eZ, hP, _, hWW, hYW⟩ := ins_frame new hn hrh (insX old m i) (insY old m i) (insZ old m) _ _ _ hs1 hp1 hs2 hp3 hxy hxz hyz hnew
  obtain ⟨o1, o2, o3⟩ := old_axes_image old m i
  refine ⟨⟨(OcsT.mk m old new true).vertex i.insert, sqrt (magSq (insX old m i)) * i.sx, ys, sqrt (magSq (insZ old m)) * i.sz,
    dir2 ⟨m, old, new, true⟩ i.rot⟩, ?_, ?_, ?_, ?_, ?_, rfl, ?_, rfl⟩
  · simp only [Ins.transform, hk]
  · rw [o1, (insertMatrix_axes new _).1]
    simp only [Ins.unitRot, dir2_insX, hP]
    generalize V3.add (V3.smul (V3.dot (insX old m i) new.ux / sqrt (magSq (insX old m i))) new.ux)
      (V3.smul (V3.dot (insX old m i) new.uy / sqrt (magSq (insX old m i))) new.uy) = V at *
    generalize sqrt (magSq (insX old m i)) = r1 at *
    generalize insX old m i = X at *
    rw [eX]
    simp only [V3.smul, V3.mk.injEq]; refine ⟨?_, ?_, ?_⟩ <;> ring
  · rw [o2, (insertMatrix_axes new _).2.1, ← hys]
    simp only [Ins.unitRot, dir2_insX, hP, wDir]
  · rw [o3, (insertMatrix_axes new _).2.2]
    simp only [Ins.unitRot]
    generalize sqrt (magSq (insZ old m)) = r3 at *
    generalize insZ old m = Z at *
    rw [eZ]
    simp only [V3.smul, V3.mk.injEq]; refine ⟨?_, ?_, ?_⟩ <;> ring
  · simp only [Ins.unitRot, vertex_spec]
    exact toWcs_fromWcs _ hn _
  · -- the y factor is ± |Y|·sy: from ys·W = sy·Y with Y = ± |Y|·W and |W| = 1
    generalize wDir new (V3.dot (insX old m i) new.ux) (V3.dot (insX old m i) new.uy) (sqrt (magSq (insX old m i))) = W at *
    generalize sqrt (magSq (insY old m i)) = r2 at *
    generalize insY old m i = Y at *
    have key : ∀ k : Rat, V3.smul ys W = V3.smul k W → ys = k := by
      intro k h
      have : (ys - k) * V3.dot W W = 0 := by
        simp only [V3.smul, V3.mk.injEq] at h
        obtain ⟨h1, h2, h3⟩ := h
        simp only [V3.dot]
        linear_combination W.x * h1 + W.y * h2 + W.z * h3
      rw [hWW, mul_one] at this
      linarith
    rcases hYW with h | h
    · left; apply key; rw [hys, h]; simp only [V3.smul, V3.mk.injEq]; refine ⟨?_, ?_, ?_⟩ <;> ring
    · right; apply key; rw [hys, h]; simp only [V3.smul, V3.mk.injEq]; refine ⟨?_, ?_, ?_⟩ <;> ring


/-- cosine of the angle between two image axes as the code computes it (dot product of the normalised vectors) -/
def cosOf (sqrt : Rat → Rat) (u v : V3) : Rat := V3.dot u v * (1 / sqrt (magSq u)) * (1 / sqrt (magSq v))

/-- `InsertTransformationError` is raised exactly when no image axis is null and one of the three cosines exceeds `tol` -/
theorem ins_error_iff (sqrt : Rat → Rat) (old new : Ocs) (m : M44) (i : Ins) (tol : Rat) :
    Ins.transform sqrt old new m i tol = .error .insertTransformation ↔
      (sqrt (magSq (insX old m i)) ≠ 0 ∧ sqrt (magSq (insY old m i)) ≠ 0 ∧ sqrt (magSq (insZ old m)) ≠ 0 ∧
       ((tol < pyAbs (cosOf sqrt (insX old m i) (insZ old m)) ∨ tol < pyAbs (cosOf sqrt (insX old m i) (insY old m i))) ∨
        tol < pyAbs (cosOf sqrt (insZ old m) (insY old m i)))) := by
  simp only [Ins.transform, icsScales_spec, icsSpec, dot_nrm, cosOf]
  by_cases h1 : sqrt (magSq (insX old m i)) = 0
  · simp [h1]
  by_cases h2 : sqrt (magSq (insY old m i)) = 0
  · simp [h1, h2]
  by_cases h3 : sqrt (magSq (insZ old m)) = 0
  · simp [h1, h2, h3]
  simp only [h1, h2, h3, if_false, ne_eq, not_false_eq_true, true_and]
  split_ifs <;> simp_all

/-- an INSERT (any orthonormal OCS, any rotation direction, non-zero scale factors) has mutually orthogonal scaled axes -/
theorem insertMatrix_orthogonal (o : Ocs) (h : o.Orthonormal) (i : Ins) :
    V3.dot (insertMatrix o i ⟨0, 0, 0⟩).ux (insertMatrix o i ⟨0, 0, 0⟩).uy = 0 ∧
    V3.dot (insertMatrix o i ⟨0, 0, 0⟩).ux (insertMatrix o i ⟨0, 0, 0⟩).uz = 0 ∧
    V3.dot (insertMatrix o i ⟨0, 0, 0⟩).uy (insertMatrix o i ⟨0, 0, 0⟩).uz = 0 := by
  obtain ⟨e1, e2, e3⟩ := insertMatrix_axes o i
  rw [e1, e2, e3]
  obtain ⟨hxx, hyy, hzz, hxy, hxz, hyz⟩ := h
  generalize o.ux = a at *; generalize o.uy = b at *; generalize o.uz = n at *
  simp only [V3.dot, V3.add, V3.smul] at *
  refine ⟨?_, ?_, ?_⟩
  · linear_combination (-(i.sx * i.sy * i.rot.x * i.rot.y)) * hxx + (i.sx * i.sy * i.rot.x * i.rot.y) * hyy
      + (i.sx * i.sy * (i.rot.x * i.rot.x - i.rot.y * i.rot.y)) * hxy
  · linear_combination (i.sx * i.sz * i.rot.x) * hxz + (i.sx * i.sz * i.rot.y) * hyz
  · linear_combination (-(i.sy * i.sz * i.rot.y)) * hxz + (i.sy * i.sz * i.rot.x) * hyz


end EzdxfVerif.Transform

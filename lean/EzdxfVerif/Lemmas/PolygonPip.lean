/-
Lemmas/PolygonPip.lean — `is_point_in_polygon_2d` (ray casting with a tolerance band on the boundary test) against the exact
winding number: helper lemmas for `Props/C19.lean`.
-/
import EzdxfVerif.Model.Polygon
import Mathlib.Tactic.Ring
import Mathlib.Tactic.Linarith
import Mathlib.Tactic.FieldSimp
import Mathlib.Algebra.Order.Field.Basic

namespace EzdxfVerif.Lemmas.Pip
open EzdxfVerif.Polygon EzdxfVerif.Gen

private theorem pipToggle_prop (p a b : Pt) : PolygonKernels.pipToggle p.x p.y a.x a.y b.x b.y = true ↔
    (((a.y ≤ p.y ∧ p.y < b.y) ∨ (b.y ≤ p.y ∧ p.y < a.y)) ∧ p.x < (b.x - a.x) * (p.y - a.y) / (b.y - a.y) + a.x) := by
  simp only [PolygonKernels.pipToggle, Bool.and_eq_true, Bool.or_eq_true, decide_eq_true_eq]

/-- the crossing test of the code (with its division) is the exact, division free crossing rule of the winding number -/
theorem pipToggle_iff (p a b : Pt) : PolygonKernels.pipToggle p.x p.y a.x a.y b.x b.y = true ↔ wnStep p a b ≠ 0 := by
  rw [pipToggle_prop]
  unfold wnStep sideOf
  by_cases h1 : a.y ≤ p.y
  · rw [if_pos h1]
    by_cases h2 : p.y < b.y
    · have hd : 0 < b.y - a.y := by linarith
      have key : p.x < (b.x - a.x) * (p.y - a.y) / (b.y - a.y) + a.x ↔
          0 < (b.x - a.x) * (p.y - a.y) - (b.y - a.y) * (p.x - a.x) := by
        rw [← sub_lt_iff_lt_add, lt_div_iff₀ hd]
        constructor <;> intro h <;> linarith
      constructor
      · rintro ⟨_, h⟩
        rw [if_pos ⟨h2, key.mp h⟩]; decide
      · intro h
        refine ⟨Or.inl ⟨h1, h2⟩, key.mpr ?_⟩
        by_contra hc
        rw [if_neg (fun hh => hc hh.2)] at h
        exact h rfl
    · rw [if_neg (fun hh => h2 hh.1)]
      constructor
      · rintro ⟨hh | hh, _⟩
        · exact absurd hh.2 h2
        · linarith [hh.1, hh.2]
      · intro h; exact absurd rfl h
  · rw [if_neg h1]
    have hlt : p.y < a.y := not_le.mp h1
    by_cases h2 : b.y ≤ p.y
    · have hd : b.y - a.y < 0 := by linarith
      have key : p.x < (b.x - a.x) * (p.y - a.y) / (b.y - a.y) + a.x ↔
          (b.x - a.x) * (p.y - a.y) - (b.y - a.y) * (p.x - a.x) < 0 := by
        rw [← sub_lt_iff_lt_add, lt_div_iff_of_neg hd]
        constructor <;> intro h <;> linarith
      constructor
      · rintro ⟨_, h⟩
        rw [if_pos ⟨h2, key.mp h⟩]; decide
      · intro h
        refine ⟨Or.inr ⟨h2, hlt⟩, key.mpr ?_⟩
        by_contra hc
        rw [if_neg (fun hh => hc hh.2)] at h
        exact h rfl
    · rw [if_neg (fun hh => h2 hh.1)]
      constructor
      · rintro ⟨hh | hh, _⟩
        · exact absurd hh.1 h1
        · exact absurd hh.1 h2
      · intro h; exact absurd rfl h

theorem wnStep_range (p a b : Pt) : wnStep p a b = 0 ∨ wnStep p a b = 1 ∨ wnStep p a b = -1 := by
  unfold wnStep
  split_ifs <;> simp

/-- the loop of `is_point_in_polygon_2d` away from the boundary band: the flag `inside` is toggled once for every edge
with a non-zero contribution to the winding number -/
theorem pipLoop_parity (p : Pt) (tol : Rat) : ∀ (l : List Pt) (a : Pt) (ins r : Bool),
    pipLoop p.x p.y tol a l ins = some r → (r = true ↔ (ins = true ↔ windingGo p a l % 2 = 0))
  | [], a, ins, r, h => by
    simp only [pipLoop, Option.some.injEq] at h
    simp [windingGo, h]
  | b :: rest, a, ins, r, h => by
    simp only [pipLoop] at h
    split_ifs at h with hb ht
    · have ih := pipLoop_parity p tol rest b _ r h
      have hw : wnStep p a b ≠ 0 := (pipToggle_iff p a b).mp ht
      have e : (wnStep p a b + windingGo p b rest) % 2 = 0 ↔ ¬ (windingGo p b rest % 2 = 0) := by
        rcases wnStep_range p a b with h0 | h0 | h0
        · exact absurd h0 hw
        · rw [h0]; omega
        · rw [h0]; omega
      rw [ih]
      simp only [windingGo]
      rw [e]
      cases ins <;> simp
    · have ih := pipLoop_parity p tol rest b _ r h
      have hw : wnStep p a b = 0 := by
        by_contra hc
        exact ht ((pipToggle_iff p a b).mpr hc)
      rw [ih]
      simp only [windingGo, hw, zero_add]

/-- the loop answers "boundary" only when some edge passes the band test -/
theorem pipLoop_none (p : Pt) (tol : Rat) : ∀ (l : List Pt) (a : Pt) (ins : Bool),
    pipLoop p.x p.y tol a l ins = none → ∃ e ∈ clipEdges a l, PolygonKernels.pipOnEdge p.x p.y e.1.x e.1.y e.2.x e.2.y tol = true
  | [], a, ins, h => by simp [pipLoop] at h
  | b :: rest, a, ins, h => by
    simp only [pipLoop] at h
    split_ifs at h with hb
    · exact ⟨(a, b), by simp [clipEdges], hb⟩
    · obtain ⟨e, he, h2⟩ := pipLoop_none p tol rest b _ h
      exact ⟨e, by simp only [clipEdges, List.mem_cons]; exact Or.inr he, h2⟩
    · obtain ⟨e, he, h2⟩ := pipLoop_none p tol rest b _ h
      exact ⟨e, by simp only [clipEdges, List.mem_cons]; exact Or.inr he, h2⟩

theorem pipLoop_some (p : Pt) (tol : Rat) : ∀ (l : List Pt) (a : Pt) (ins r : Bool),
    pipLoop p.x p.y tol a l ins = some r → ∀ e ∈ clipEdges a l, PolygonKernels.pipOnEdge p.x p.y e.1.x e.1.y e.2.x e.2.y tol = false
  | [], a, ins, r, _ => by simp [clipEdges]
  | b :: rest, a, ins, r, h => by
    simp only [pipLoop] at h
    intro e he
    simp only [clipEdges, List.mem_cons] at he
    split_ifs at h with hb ht
    · rcases he with rfl | he
      · simpa using hb
      · exact pipLoop_some p tol rest b _ r h e he
    · rcases he with rfl | he
      · simpa using hb
      · exact pipLoop_some p tol rest b _ r h e he

private theorem rabs_le_zero (e : Rat) : PolygonKernels.rabs e ≤ 0 ↔ e = 0 := by
  unfold PolygonKernels.rabs
  split_ifs with h
  · constructor
    · intro h2; linarith
    · intro h2; linarith
  · constructor
    · intro h2; linarith [not_lt.mp h]
    · intro h2; linarith

private theorem ite_min (u v : Rat) : (if v < u then v else u) = min u v := by
  by_cases h : v < u
  · simp [h, min_eq_right h.le]
  · simp [h, min_eq_left (not_lt.mp h)]
private theorem ite_max (u v : Rat) : (if v < u then u else v) = max u v := by
  by_cases h : v < u
  · simp [h, max_eq_left h.le]
  · simp [h, max_eq_right (not_lt.mp h)]

/-- the band test with tolerance 0 is the exact "point on closed segment" test -/
theorem pipOnEdge_zero_iff (p a b : Pt) :
    PolygonKernels.pipOnEdge p.x p.y a.x a.y b.x b.y 0 = true ↔ onSegment a b p := by
  simp only [PolygonKernels.pipOnEdge, Bool.and_eq_true, decide_eq_true_eq, onSegment, sideOf]
  rw [ite_min, ite_max, ite_min, ite_max, rabs_le_zero]
  constructor
  · rintro ⟨⟨h1, h2⟩, ⟨h3, h4⟩, h5⟩
    exact ⟨by linarith, h1, h2, h3, h4⟩
  · rintro ⟨h0, h1, h2, h3, h4⟩
    exact ⟨⟨h1, h2⟩, ⟨h3, h4⟩, by linarith⟩

end EzdxfVerif.Lemmas.Pip

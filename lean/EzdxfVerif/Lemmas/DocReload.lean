/-
Effect of add_entity / move_to_layout / write+read on what a layout shows (refinement lemmas for Props/C05).
-/
import EzdxfVerif.Lemmas.DocEffects
namespace EzdxfVerif.Doc

def fAdd (s : State) (k : Nat) (x : Ent) : Ent := { x with owner := some k, psp := isPaperBr s k }
def fUnl (x : Ent) : Ent := { x with owner := none, psp := false }
def fDead (x : Ent) : Ent := { x with alive := false }

/-- every live entity is stored in the entity database -/
def DbInv (s : State) : Prop := ∀ x ∈ s.ents, x.alive = true → x.indb = true

theorem DbInv.of_ents {s s' : State} (h : DbInv s) (he : s'.ents = s.ents) : DbInv s' := by
  intro x hx; rw [he] at hx; exact h x hx

theorem DbInv.setEnt {s s' : State} (h : DbInv s) (e : Nat) (f : Ent → Ent)
    (hf : ∀ x, (f x).alive = true → x.alive = true ∧ (f x).indb = x.indb)
    (he : s'.ents = Doc.setEnt s.ents e f) : DbInv s' := by
  intro x hx ha
  rw [he] at hx
  simp only [Doc.setEnt, List.mem_map] at hx
  obtain ⟨y, hy, rfl⟩ := hx
  split at ha
  · rename_i hye
    simp only [hye, ↓reduceIte]
    obtain ⟨h1, h2⟩ := hf y ha
    rw [h2]; exact h y hy h1
  · rename_i hye
    simp only [hye, ↓reduceIte]
    exact h y hy ha

theorem newEnt_DbInv (s : State) (k h seed : Nat) (r : Option Str) (hd : DbInv s) (subs : List Nat) :
    DbInv (newEnt s k h seed r subs).1 := by
  unfold newEnt
  split
  · exact hd
  · split
    · intro x hx ha
      simp only [List.mem_append, List.mem_singleton] at hx
      rcases hx with hx | rfl
      · exact hd x hx ha
      · rfl
    · exact hd

theorem unlinkCore_DbInv {s s' : State} {k e : Nat} (h : unlinkCore s k e = some s') (hd : DbInv s) : DbInv s' := by
  unfold unlinkCore at h
  split at h
  · cases h; exact hd
  · split at h
    · cases h
    · split at h
      · cases h
        exact hd.setEnt e fUnl (fun x hx => ⟨hx, rfl⟩) rfl
      · cases h

theorem addExisting_DbInv (s : State) (k e : Nat) (hd : DbInv s) : DbInv (addExisting s k e).1 := by
  unfold addExisting
  split
  · split
    · exact hd
    · split
      · exact hd
      · exact hd.setEnt e (fAdd s k) (fun x hx => ⟨hx, rfl⟩) rfl
  · exact hd

theorem destroyEnt_DbInv (s : State) (e : Nat) (hd : DbInv s) : DbInv (destroyEnt s e) :=
  hd.setEnt e fDead (fun x hx => by simp [fDead] at hx) rfl

theorem dropContainer_DbInv (s : State) (br : Nat) (hd : DbInv s) : DbInv (dropContainer s br) := by
  intro x hx ha
  simp only [dropContainer, List.mem_map] at hx
  obtain ⟨y, hy, rfl⟩ := hx
  split at ha
  · simp at ha
  · rename_i hc
    simp only [hc, ↓reduceIte]
    exact hd y hy ha

theorem dropAll_DbInv : ∀ (l : List Nat) (s : State), DbInv s → DbInv (dropAll s l)
  | [], _, h => h
  | a :: r, s, h => by
    simp only [dropAll, List.foldl_cons]
    exact dropAll_DbInv r _ (dropContainer_DbInv s a h)

theorem step_DbInv (s : State) (op : Op) (hd : DbInv s) : DbInv (step s op).1 := by
  cases op with
  | add k h seed => exact newEnt_DbInv _ _ _ _ _ hd _
  | ins k name h seed => exact newEnt_DbInv _ _ _ _ _ hd _
  | unlink k e =>
    simp only [step]
    split
    · rename_i s' h; exact unlinkCore_DbInv h hd
    · exact hd
  | addex k e => exact addExisting_DbInv _ _ _ hd
  | move k1 e k2 =>
    simp only [step]
    split
    · exact hd
    · split
      · exact hd
      · rename_i s1 h1
        have h2 := addExisting_DbInv s1 k2 e (unlinkCore_DbInv h1 hd)
        split
        · rename_i s2 heq; rw [heq] at h2; exact h2
        · exact hd
  | del k e =>
    simp only [step]
    split
    · exact hd
    · rename_i s1 h1; exact destroyEnt_DbInv _ _ (unlinkCore_DbInv h1 hd)
  | destroy e => exact destroyEnt_DbInv _ _ hd
  | copy e k h subs seed =>
    simp only [step]
    split
    · split
      · split
        · exact newEnt_DbInv _ _ _ _ _ hd _
        · exact hd
      · exact hd
    · exact hd
  | addL k r h subs seed => exact newEnt_DbInv _ _ _ _ _ hd _
  | explode e news seed =>
    rcases explode_cases s e news seed with ⟨er, h0⟩ | ⟨x, name, k, b, s', hx, hal, hr, ho', hsp, hb, hshape, hfresh, htexts, hcore, hstep⟩
    · rw [h0]; exact hd
    · rw [hstep]
      obtain ⟨s2, h2, rfl⟩ := explodeCore_parts hcore
      refine DbInv.setEnt (s := destroyEnt s2 e) ?_ e (fun y => { y with subs := y.subs.drop (y.subs.length - 1) })
        (fun _ ha => ⟨ha, rfl⟩) rfl
      apply destroyEnt_DbInv
      refine unlinkCore_DbInv h2 ?_
      intro y hy ha
      simp only [explodeMid, List.mem_append] at hy
      rcases hy with hy | hy
      · exact hd y hy ha
      · exact (explodeEnts_props s k _ news _ y hy).2.2
  | audit seed =>
    simp only [step]; split
    · have h2 : DbInv (auditLayouts (auditSpaces s)) := by
        obtain ⟨bl, hbl⟩ := auditLayouts_eq (auditSpaces s)
        exact (dropAll_DbInv (orphanBlocks (auditSpaces s)) (auditSpaces s) (hd.of_ents rfl)).of_ents (by rw [hbl])
      intro y hy ha
      have hy : y ∈ (auditEntities (auditLayouts (auditSpaces s))).ents := hy
      simp only [auditEntities, List.mem_map] at hy
      obtain ⟨z, hz, rfl⟩ := hy
      split at ha
      · simp at ha
      · rename_i hnt
        simp only [hnt]
        exact h2 z hz ha
    · exact hd
  | addEntry t n seed =>
    simp only [step]; split
    · exact hd
    · split
      · exact hd.of_ents rfl
      · exact hd
  | delEntry t n => simp only [step]; split <;> first | exact hd | exact hd.of_ents rfl
  | dupEntry t a b seed =>
    simp only [step]; split
    · exact hd
    · split
      · exact hd.of_ents rfl
      · exact hd
  | newGroup n h seed =>
    simp only [step]; split
    · exact hd
    · split
      · exact hd.of_ents rfl
      · exact hd
  | setGroup n ms =>
    simp only [step]; split
    · exact hd
    · split
      · exact hd.of_ents rfl
      · exact hd
  | delGroup n => simp only [step]; split <;> first | exact hd | exact hd.of_ents rfl
  | purge =>
    intro x hx ha
    simp only [step, List.mem_map] at hx
    obtain ⟨y, hy, rfl⟩ := hx
    simp only at ha ⊢
    simp [hd y hy ha, ha]
  | newBlock name br seed =>
    simp only [step]
    split
    · exact hd
    · split
      · exact hd.of_ents rfl
      · exact hd
  | delBlock name safe =>
    simp only [step]
    split
    · exact hd
    · split
      · exact hd
      · exact dropContainer_DbInv _ _ hd
  | renBlock a b => exact hd.of_ents (renameBlock_ents s a b)
  | newLayout name br seed =>
    simp only [step]
    split
    · exact hd
    · split
      · exact hd
      · split
        · exact hd.of_ents rfl
        · exact hd
  | delLayout name =>
    simp only [step]
    split
    · exact hd
    · split
      · exact hd
      · split
        · exact hd
        · apply dropContainer_DbInv
          apply DbInv.of_ents (s := s) hd
          show (if activeBr s = some _ then _ else s).ents = s.ents
          split
          · split
            · exact setActive_ents _ _
            · rfl
          · rfl
  | renLayout a b =>
    simp only [step]
    split
    · exact hd
    · split
      · exact hd
      · split
        · exact hd
        · exact hd.of_ents rfl
  | activate name => exact hd.of_ents (setActive_ents s name)
  | addLayer name seed =>
    simp only [step]
    split
    · exact hd
    · split
      · exact hd.of_ents rfl
      · exact hd
  | delLayer name =>
    simp only [step]
    split
    · exact hd.of_ents rfl
    · exact hd
  | reload seed =>
    simp only [step]
    split
    · intro x hx ha
      simp only [List.mem_map] at hx
      obtain ⟨y, hy, rfl⟩ := hx
      split at ha
      · rename_i hk
        simp only [hk, ↓reduceIte]
        exact hd y hy ha
      · simp at ha
    · exact hd
  | foreign kind e =>
    simp only [step]
    split <;> exact hd

theorem db_inv_reachable (s : State) (ops : List Op) (hd : DbInv s) : DbInv (run s ops) := by
  induction ops generalizing s with
  | nil => exact hd
  | cons op r ih => exact ih _ (step_DbInv s op hd)

/-! ### add_entity / move_to_layout -/

theorem isAlive_congr_find {s s' : State} (x : Nat) (h : findEnt s' x = findEnt s x) : isAlive s' x = isAlive s x := by
  simp only [isAlive, h]

theorem addExisting_ok (s : State) (k e : Nat) (hok : (addExisting s k e).2 = .ok) :
    ∃ sp, spaceOf s k = some sp ∧ isAlive s e = true ∧
      (addExisting s k e).1.spaces = setSpace s.spaces k (· ++ [e]) ∧
      (addExisting s k e).1.ents = setEnt s.ents e (fAdd s k) := by
  cases hx : findEnt s e with
  | none => simp [addExisting, hx] at hok
  | some x =>
    cases hsp : spaceOf s k with
    | none => simp [addExisting, hx, hsp] at hok
    | some sp =>
      by_cases hal : x.alive = true
      · by_cases hdb : x.indb = true
        · refine ⟨sp, rfl, by simp [isAlive, hx, hal], ?_, ?_⟩
          · simp only [addExisting, hx, hsp, hal, hdb, Bool.not_true, Bool.false_eq_true, ↓reduceIte]
          · simp only [addExisting, hx, hsp, hal, hdb, Bool.not_true, Bool.false_eq_true, ↓reduceIte]
            rfl
        · simp [addExisting, hx, hsp, hal, hdb] at hok
      · simp [addExisting, hx, hsp, hal] at hok

/-- `layout.add_entity(e)` accepted: `e` is appended to this layout, every other layout is unchanged -/
theorem spec_addex (s : State) (k e : Nat) (hok : (addExisting s k e).2 = .ok) :
    isAlive s e = true ∧ content (addExisting s k e).1 k = content s k ++ [e] ∧
    ∀ k', k' ≠ k → content (addExisting s k e).1 k' = content s k' := by
  obtain ⟨sp, hsp, hae, hS, hE⟩ := addExisting_ok s k e hok
  have halive : ∀ y, isAlive (addExisting s k e).1 y = isAlive s y := by
    intro y
    simp only [isAlive, findEnt, hE]
    exact isAlive_setEnt_owner _ _ _ _ (fun _ => rfl) (fun _ => rfl)
  have hfun := funext halive
  refine ⟨hae, ?_, ?_⟩
  · simp only [content, spaceOf, hS, spaceOf_setSpace, ↓reduceIte, hfun]
    unfold spaceOf at hsp
    rw [hsp]
    simp [List.filter_append, hae]
  · intro k' hk'
    simp only [content, spaceOf, hS, spaceOf_setSpace, hk', ↓reduceIte, hfun]

/-- `layout.move_to_layout(e, target)` accepted: `e` leaves the source layout and is appended to the target;
    all other layouts are unchanged -/
theorem spec_move (s : State) (k1 e k2 : Nat) (hne : k1 ≠ k2) (hok : (step s (.move k1 e k2)).2 = .ok) :
    content (step s (.move k1 e k2)).1 k1 = (content s k1).erase e ∧
    content (step s (.move k1 e k2)).1 k2 = content s k2 ++ [e] ∧
    ∀ k', k' ≠ k1 → k' ≠ k2 → content (step s (.move k1 e k2)).1 k' = content s k' := by
  by_cases hae : isAlive s e = true
  · cases h1 : unlinkCore s k1 e with
    | none => simp [step, hae, h1] at hok
    | some s1 =>
      have hu := spec_unlink s s1 k1 e h1 hae
      cases hr : addExisting s1 k2 e with
      | mk s2 o2 =>
        cases o2 with
        | err e' => simp [step, hae, h1, hr] at hok
        | ok =>
          have hok2 : (addExisting s1 k2 e).2 = .ok := by rw [hr]
          have ha := spec_addex s1 k2 e hok2
          rw [hr] at ha
          have hst : (step s (.move k1 e k2)).1 = s2 := by simp [step, hae, h1, hr]
          rw [hst]
          refine ⟨?_, ?_, ?_⟩
          · rw [ha.2.2 k1 hne, hu.1]
          · rw [ha.2.1, hu.2 k2 (Ne.symm hne)]
          · intro k' h1' h2'
            rw [ha.2.2 k' h2', hu.2 k' h1']
  · simp [step, hae] at hok

/-! ### write + read -/

theorem find_map_h (ents : List Ent) (g : Ent → Ent) (hg : ∀ x, (g x).h = x.h) (x : Nat) :
    (ents.map g).find? (·.h = x) = (ents.find? (·.h = x)).map g := by
  induction ents with
  | nil => rfl
  | cons a t ih =>
    simp only [List.map_cons, List.find?_cons, hg]
    split
    · rfl
    · exact ih

theorem spaceOf_map_filter (sp : List (Nat × List Nat)) (q : Nat → Bool) (k : Nat) :
    ((sp.map (fun p => (p.1, p.2.filter q))).find? (·.1 = k)).map (·.2) =
    ((sp.find? (·.1 = k)).map (·.2)).map (·.filter q) := by
  induction sp with
  | nil => rfl
  | cons a t ih =>
    simp only [List.map_cons, List.find?_cons]
    by_cases h : a.1 = k
    · simp [h]
    · have hd : decide (a.fst = k) = false := by simp [h]
      simp only [hd]
      exact ih

/-- the entity list after write + read: linked live database entities survive, everything else is gone -/
def reloadEnts (s : State) : List Ent :=
  s.ents.map (fun x => if (x.alive && x.indb && x.owner.isSome) = true then x else { x with alive := false, indb := false })

theorem isAlive_reload_le (s : State) (x : Nat) :
    (match (reloadEnts s).find? (·.h = x) with | some y => y.alive | none => false) = true → isAlive s x = true := by
  unfold reloadEnts
  rw [find_map_h _ _ (fun y => by split <;> rfl)]
  simp only [isAlive, findEnt]
  cases s.ents.find? (·.h = x) with
  | none => simp
  | some y =>
    simp only [Option.map_some]
    split
    · exact id
    · simp

theorem isAlive_reload_listed (s : State) (ho : OwnerInv s) (hd : DbInv s) (k x : Nat) (sp : List Nat)
    (hsp : spaceOf s k = some sp) (hx : x ∈ sp) (ha : isAlive s x = true) :
    (match (reloadEnts s).find? (·.h = x) with | some y => y.alive | none => false) = true := by
  have hmem : (k, sp) ∈ s.spaces := find_some_mem hsp
  have hk := ho (k, sp) hmem x hx
  simp only [keepInSpace, ha, Bool.not_true, Bool.false_or, beq_iff_eq, ownerOf] at hk
  unfold reloadEnts
  rw [find_map_h _ _ (fun y => by split <;> rfl)]
  simp only [isAlive, findEnt] at ha hk
  cases hf : s.ents.find? (·.h = x) with
  | none => simp [hf] at ha
  | some y =>
    simp only [hf] at ha hk
    have hy : y ∈ s.ents := List.mem_of_find?_eq_some hf
    have hdb := hd y hy ha
    simp [ha, hdb, hk]

theorem reload_state (s : State) (seed : Nat) (hseed : s.next ≤ seed) :
    (step s (.reload seed)).2 = .ok ∧ (step s (.reload seed)).1.ents = reloadEnts s ∧
    (step s (.reload seed)).1.spaces = s.spaces.map (fun p => (p.1, p.2.filter (isAlive s))) := by
  simp only [step, hseed, decide_true, ↓reduceIte]
  refine ⟨trivial, ?_, ?_⟩ <;> first | rfl | trivial

/-- `doc.write()` followed by `ezdxf.read()` in a reachable state (every listed live entity is owned by the
    layout that lists it and is stored in the database): every layout and block shows exactly what it showed -/
theorem spec_reload (s : State) (seed : Nat) (ho : OwnerInv s) (hd : DbInv s) (hseed : s.next ≤ seed) (k : Nat) :
    (step s (.reload seed)).2 = .ok ∧ content (step s (.reload seed)).1 k = content s k := by
  obtain ⟨hok, hE, hS⟩ := reload_state s seed hseed
  refine ⟨hok, ?_⟩
  have hal' : ∀ x, isAlive (step s (.reload seed)).1 x =
      (match (reloadEnts s).find? (·.h = x) with | some y => y.alive | none => false) := by
    intro x; simp only [isAlive, findEnt, hE]; try rfl
  simp only [content, spaceOf, hS]
  rw [spaceOf_map_filter]
  cases hsp : (s.spaces.find? (·.1 = k)).map (·.2) with
  | none => simp
  | some sp =>
    simp only [Option.map_some, Option.getD_some, List.filter_filter]
    apply List.filter_congr
    intro x hx
    have h1 := isAlive_reload_le s x
    have h2 := isAlive_reload_listed s ho hd k x sp hsp hx
    rw [← hal' x] at h1 h2
    cases hA : isAlive s x <;> cases hB : isAlive (step s (.reload seed)).1 x <;> simp_all

theorem isAlive_reload_mem (s : State) (ho : OwnerInv s) (hd : DbInv s) (p : Nat × List Nat) (hp : p ∈ s.spaces)
    (x : Nat) (hx : x ∈ p.2) (ha : isAlive s x = true) :
    (match (reloadEnts s).find? (·.h = x) with | some y => y.alive | none => false) = true := by
  have hk := ho p hp x hx
  simp only [keepInSpace, ha, Bool.not_true, Bool.false_or, beq_iff_eq, ownerOf] at hk
  unfold reloadEnts
  rw [find_map_h _ _ (fun y => by split <;> rfl)]
  simp only [isAlive, findEnt] at ha hk
  cases hf : s.ents.find? (·.h = x) with
  | none => simp [hf] at ha
  | some y =>
    simp only [hf] at ha hk
    have hy : y ∈ s.ents := List.mem_of_find?_eq_some hf
    have hdb := hd y hy ha
    simp [ha, hdb, hk]

theorem reloadEnts_idem (s : State) (s1 : State) (h1 : s1.ents = reloadEnts s) : reloadEnts s1 = s1.ents := by
  unfold reloadEnts at *
  rw [h1, List.map_map]
  apply List.map_congr_left
  intro x _
  simp only [Function.comp]
  by_cases hk : (x.alive && x.indb && x.owner.isSome) = true
  · simp only [hk, ↓reduceIte]
  · simp only [hk, ↓reduceIte, Bool.false_and, Bool.false_eq_true]

/-- a second save/load cycle changes nothing further: after one write+read, another write+read returns the
    same state (only the handle generator moves to the value stored in the second file) -/
theorem reload_twice (s : State) (seed seed2 : Nat) (ho : OwnerInv s) (hd : DbInv s) (hseed : s.next ≤ seed)
    (hseed2 : seed ≤ seed2) :
    let s1 := (step s (.reload seed)).1
    let s2 := (step s1 (.reload seed2)).1
    (step s1 (.reload seed2)).2 = .ok ∧ s2.ents = s1.ents ∧ s2.spaces = s1.spaces ∧ s2.blocks = s1.blocks ∧
      s2.layouts = s1.layouts ∧ s2.layers = s1.layers ∧ s2.next = seed2 := by
  intro s1 s2
  obtain ⟨_, hE, hS⟩ := reload_state s seed hseed
  have hn1 : s1.next = seed := by simp [s1, step, hseed]
  have hseed1 : s1.next ≤ seed2 := by omega
  obtain ⟨hok2, hE2, hS2⟩ := reload_state s1 seed2 hseed1
  have hL1 : s1.layers.contains [48] = true := by
    simp only [s1, step, hseed, decide_true, ↓reduceIte]
    split
    · assumption
    · simp
  refine ⟨hok2, ?_, ?_, ?_, ?_, ?_, ?_⟩
  · show (step s1 (.reload seed2)).1.ents = s1.ents
    rw [hE2]; exact reloadEnts_idem s s1 hE
  · show (step s1 (.reload seed2)).1.spaces = s1.spaces
    rw [hS2]
    have hS' : s1.spaces = s.spaces.map (fun p => (p.1, p.2.filter (isAlive s))) := hS
    rw [hS', List.map_map]
    apply List.map_congr_left
    intro p hp
    simp only [Function.comp, List.filter_filter]
    congr 1
    apply List.filter_congr
    intro x hx
    have := isAlive_reload_mem s ho hd p hp x hx
    have hal1 : isAlive s1 x = (match (reloadEnts s).find? (·.h = x) with | some y => y.alive | none => false) := by
      simp only [isAlive, findEnt]; rw [show s1.ents = reloadEnts s from hE]; try rfl
    rw [← hal1] at this
    cases hA : isAlive s x <;> cases hB : isAlive s1 x <;> simp_all
  · simp [s2, step, hseed1]
  · simp [s2, step, hseed1]
  · show (step s1 (.reload seed2)).1.layers = s1.layers
    simp only [step, hseed1, decide_true, ↓reduceIte, hL1]
  · simp [s2, step, hseed1]

end EzdxfVerif.Doc

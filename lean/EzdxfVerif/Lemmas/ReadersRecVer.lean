/-
C08  lemmas for Model/ReadersRecVer.lean: recover's version decision on a well-formed file is the `$ACADVER` of its header.
-/
import EzdxfVerif.Lemmas.Readers
import EzdxfVerif.Lemmas.ReadersDetect
import EzdxfVerif.Model.ReadersRecVer

namespace EzdxfVerif.Readers

/-- value tags are no `(9, $ACADVER)` tags -/
theorem recVersion_skip (strip : String → String) (ys l : List Tag)
    (h : ∀ t ∈ ys, t.code ≠ 0 ∧ t.code ≠ 9 ∧ t.code ≠ 999) :
    recVersionLoop strip (ys ++ l) false = recVersionLoop strip l false := by
  induction ys with
  | nil => rfl
  | cons y r ih =>
    obtain ⟨_, h9, _⟩ := h y (by simp)
    have hne : y ≠ ⟨9, "$ACADVER"⟩ := by intro hh; rw [hh] at h9; exact h9 rfl
    simp only [List.cons_append, recVersionLoop, Bool.false_eq_true, if_false, hne]
    exact ih (fun t ht => h t (by simp [ht]))

/-- what `_detect_dxf_version` needs of `$ACADVER`: `AC` + four digits, unpadded -/
def verVarOK (strip : String → String) (v : HVar) : Bool :=
  v.name != "$ACADVER" || (isAcVersion v.text && strip v.text == v.text)

theorem recVersion_vars (strip : String → String) (vars : List HVar) (l : List Tag)
    (hok : ∀ v ∈ vars, hvarOK v = true ∧ verVarOK strip v = true) :
    recVersionLoop strip (renderVars vars ++ l) false = (verOf vars).getD (recVersionLoop strip l false) := by
  induction vars with
  | nil => simp [renderVars, verOf]
  | cons v vs ih =>
    obtain ⟨h1, h2⟩ := hok v (by simp)
    obtain ⟨x, xs, hv, hcodes, _⟩ := hvar_value v h1
    have htext : v.text = x.val := by simp [HVar.text, hv]
    rw [renderVars_cons, hv]
    simp only [List.cons_append, List.append_assoc]
    by_cases hA : v.name = "$ACADVER"
    · simp only [verVarOK, hA, bne_self_eq_false, Bool.false_or, Bool.and_eq_true, beq_iff_eq] at h2
      rw [htext] at h2
      simp [recVersionLoop, hA, h2.1, h2.2, verOf, htext]
    · have hne : (⟨9, v.name⟩ : Tag) ≠ ⟨9, "$ACADVER"⟩ := by intro hh; exact hA (by simpa using hh)
      have step : ∀ rest, recVersionLoop strip (⟨9, v.name⟩ :: rest) false = recVersionLoop strip rest false := by
        intro rest; simp [recVersionLoop, hne]
      have := recVersion_skip strip (x :: xs) (renderVars vs ++ l) hcodes
      simp only [List.cons_append] at this
      rw [step, this, ih (fun w hw => hok w (by simp [hw]))]
      simp [verOf, hA]

theorem merge_other_key (k : String) (secs : List Section) (hn : ∀ s ∈ secs, s.name ≠ k) (d : List (String × List Tag)) :
    dictGet (mergeSections d (secs.map secTags)) k = dictGet d k := by
  induction secs generalizing d with
  | nil => simp [mergeSections]
  | cons s r ih =>
    have hs := hn s (by simp)
    simp only [List.map_cons, secTags, mergeSections, if_true]
    cases hg : dictGet d s.name with
    | some old => simp only []; rw [ih (fun x hx => hn x (by simp [hx])), dictGet_dictSet_ne _ _ _ _ hs]
    | none => simp only []; rw [ih (fun x hx => hn x (by simp [hx])), dictGet_append_ne _ _ _ _ hs]

/-- the HEADER section recover hands to `_detect_dxf_version` for a well-formed file: SECTION, name, body - no orphans -/
theorem recoverHeader_file (cfg : Cfg) (hb : List Tag) (secs : List Section)
    (hbody : bodyOK hb = true) (hs : ∀ s ∈ secs, s.name ≠ "HEADER" ∧ bodyOK s.body = true)
    (hA : asciiLoad (render (⟨"HEADER", hb⟩ :: secs)) = render (⟨"HEADER", hb⟩ :: secs))
    (hC : compileB cfg (render (⟨"HEADER", hb⟩ :: secs)) = render (⟨"HEADER", hb⟩ :: secs)) :
    recoverHeader cfg (render (⟨"HEADER", hb⟩ :: secs)) = tSECTION :: ⟨2, "HEADER"⟩ :: hb := by
  unfold recoverHeader
  rw [hA, hC]
  have hbodies : ∀ s ∈ (⟨"HEADER", hb⟩ : Section) :: secs, bodyOK s.body = true := by
    intro s hsm
    rcases List.mem_cons.mp hsm with rfl | hsm
    · exact hbody
    · exact (hs s hsm).2
  have hfold : (render (⟨"HEADER", hb⟩ :: secs)).foldl rStep ⟨[], [], false, []⟩ =
      ⟨((⟨"HEADER", hb⟩ :: secs).map secTags).reverse, [], false, []⟩ := by
    unfold render
    rw [rFold_secs _ hbodies]
    simp [rStep, tEOF]
  rw [hfold]
  simp only [List.reverse_reverse, List.map_cons, secTags, mergeSections, if_true, dictGet]
  rw [merge_other_key "HEADER" secs (fun s hsm => (hs s hsm).1)]
  simp [dictGet, rescueOrphans]

end EzdxfVerif.Readers

/-
Completeness of the agreement of the two decoders on the argument-free sub-grammar (lemmas for Props/C20).
-/
import EzdxfVerif.Lemmas.TextEditorX
import EzdxfVerif.Lemmas.TextLinesSpec
namespace EzdxfVerif.Text

theorem fastLoop_N' (sp : Special) (r : Str) : fastLoop sp ('\\' :: 'N' :: r) = ' ' :: fastLoop sp r := by
  conv => lhs; rw [fastLoop.eq_def]
  simp [mem_one]

/-- one ordinary character (not backslash, not percent): the decoders agree on `c :: r` iff `c` is no control
    character other than LF and they agree on `r` -/
theorem char_step (sp : Special) (c : Char) (r : Str) (hb : c ≠ '\\') (hp : c ≠ '%') :
    (slowLoop sp (c :: r) = fastLoop sp (c :: r)) ↔ ((32 ≤ c.toNat ∨ c = '\n') ∧ slowLoop sp r = fastLoop sp r) := by
  have hs : specialAt sp c r = none := by simp [specialAt, hp]
  by_cases hbr : c = '{' ∨ c = '}'
  · rw [slowLoop_brace sp c r hbr, fastLoop_brace sp c r hbr]
    have : 32 ≤ c.toNat := by rcases hbr with h | h <;> subst h <;> decide
    simp [this]
  · have e1 : c ≠ '{' := fun hh => hbr (Or.inl hh)
    have e2 : c ≠ '}' := fun hh => hbr (Or.inr hh)
    rw [fastLoop_copy sp c r hb e1 e2 hp]
    by_cases ht : c = '\t'
    · subst ht
      rw [slowLoop_tab]
      have h9 : ¬ (32 ≤ ('\t' : Char).toNat ∨ ('\t' : Char) = '\n') := by decide
      constructor
      · intro hh; injection hh with h1 _; exact absurd h1 (by decide)
      · intro hh; exact absurd hh.1 h9
    · by_cases hn : c = '\n'
      · subst hn
        rw [slowLoop_lf]
        constructor
        · intro hh; injection hh with _ h2; exact ⟨Or.inr rfl, h2⟩
        · intro hh; rw [hh.2]
      · by_cases h32 : c.toNat < 32
        · rw [slowLoop_ctl sp c r hb ht hn h32]
          constructor
          · intro hh; injection hh with h1 _
            exfalso; subst h1; revert h32; decide
          · intro hh
            rcases hh.1 with h' | h'
            · omega
            · exact absurd h' hn
        · rw [slowLoop_char sp c r hb ht hn h32 hs hbr]
          constructor
          · intro hh; injection hh with _ h2; exact ⟨Or.inl (by omega), h2⟩
          · intro hh; rw [hh.2]

theorem argFree_iff (sp : Special) (d : Str) (h : argFree d = true) :
    slowLoop sp d = fastLoop sp d ↔ argFreeAgree d = true := by
  fun_induction argFree d with
  | case1 => simp [slowLoop_nil, fastLoop_nil, argFreeAgree]
  | case2 =>
    rw [slowLoop_bs_end]
    have : fastLoop sp ['\\'] = [] := by rw [fastLoop.eq_def]; simp
    simp [this, argFreeAgree]
  | case3 d r2 ih =>
    simp only [Bool.and_eq_true] at h
    have ih' := ih h.2
    have hd := h.1
    simp only [isSimpleCmd, Bool.or_eq_true, beq_iff_eq] at hd
    simp only [argFreeAgree, ↓reduceIte, Bool.and_eq_true, bne_iff_ne, ne_eq]
    rcases hd with ((((((((((hd | hd) | hd) | hd) | hd) | hd) | hd) | hd) | hd) | hd) | hd) | hd
    · subst hd; rw [slowLoop_esc sp _ r2 (by simp), fastLoop_esc sp _ r2 (by simp)]; simp [ih']
    · subst hd; rw [slowLoop_esc sp _ r2 (by simp), fastLoop_esc sp _ r2 (by simp)]; simp [ih']
    · subst hd; rw [slowLoop_esc sp _ r2 (by simp), fastLoop_esc sp _ r2 (by simp)]; simp [ih']
    · subst hd; rw [slowLoop_P, fastLoop_P]; simp [ih']
    all_goals first
      | (subst hd; rw [slowLoop_X, fastLoop_one sp 'X' r2 (by simp)]; simp [ih'])
      | (subst hd; rw [slowLoop_N, fastLoop_N']; simp)
      | (subst hd
         rw [slowLoop_cmd sp _ r2 r2 (by decide) (by decide) (by decide) (by decide) (by decide) (by decide)
           (parseProperties_stroke _ r2 (by rw [mem_stroke]; simp)), fastLoop_one sp _ r2 (by simp)]
         simp [ih'])
  | case4 c r hc ih =>
    simp only [Bool.and_eq_true, bne_iff_ne, ne_eq] at h
    rw [char_step sp c r hc h.1, ih h.2]
    conv => rhs; rw [argFreeAgree.eq_def]
    simp [hc]

/-- in the argument-free sub-grammar no LF is ever a character of a word: every LF of the joined result is a
    paragraph break -/
theorem argFree_no_lf_char (sp : Special) (d : Str) (h : argFree d = true) :
    ∀ x ∈ slowItems sp d, x ≠ some '\n' := by
  fun_induction argFree d with
  | case1 => simp [slowItems_nil]
  | case2 => rw [slowItems_bs_end]; simp
  | case3 d r2 ih =>
    simp only [Bool.and_eq_true] at h
    have ih' := ih h.2
    have hd := h.1
    simp only [isSimpleCmd, Bool.or_eq_true, beq_iff_eq] at hd
    rcases hd with ((((((((((hd | hd) | hd) | hd) | hd) | hd) | hd) | hd) | hd) | hd) | hd) | hd
    · subst hd; rw [slowItems_esc sp _ r2 (by simp)]; intro x hx; simp only [List.mem_cons] at hx; rcases hx with rfl | hx; (· simp); exact ih' x hx
    · subst hd; rw [slowItems_esc sp _ r2 (by simp)]; intro x hx; simp only [List.mem_cons] at hx; rcases hx with rfl | hx; (· simp); exact ih' x hx
    · subst hd; rw [slowItems_esc sp _ r2 (by simp)]; intro x hx; simp only [List.mem_cons] at hx; rcases hx with rfl | hx; (· simp); exact ih' x hx
    · subst hd; rw [slowItems_P]; intro x hx; simp only [List.mem_cons] at hx; rcases hx with rfl | hx; (· simp); exact ih' x hx
    all_goals first
      | (subst hd; rw [slowItems_X]; exact ih')
      | (subst hd; rw [slowItems_N]; intro x hx; simp only [List.mem_cons] at hx; rcases hx with rfl | hx; (· simp); exact ih' x hx)
      | (subst hd
         rw [slowItems_cmd sp _ r2 r2 (by decide) (by decide) (by decide) (by decide) (by decide) (by decide)
           (parseProperties_stroke _ r2 (by rw [mem_stroke]; simp))]
         exact ih')
  | case4 c r hc ih =>
    simp only [Bool.and_eq_true, bne_iff_ne, ne_eq] at h
    have ih' := ih h.2
    have hs : specialAt sp c r = none := by simp [specialAt, h.1]
    by_cases hbr : c = '{' ∨ c = '}'
    · rw [slowItems_brace sp c r hbr]; exact ih'
    · by_cases ht : c = '\t'
      · subst ht; rw [slowItems_tab]; intro x hx; simp only [List.mem_cons] at hx
        rcases hx with rfl | rfl | rfl | rfl | hx
        · simp
        · simp
        · simp
        · simp
        · exact ih' x hx
      · by_cases hn : c = '\n'
        · subst hn; rw [slowItems_lf]; intro x hx; simp only [List.mem_cons] at hx; rcases hx with rfl | hx; (· simp); exact ih' x hx
        · by_cases h32 : c.toNat < 32
          · rw [slowItems_ctl sp c r hc ht hn h32]; intro x hx; simp only [List.mem_cons] at hx; rcases hx with rfl | hx; (· simp); exact ih' x hx
          · rw [slowItems_char sp c r hc ht hn h32 hs hbr]; intro x hx; simp only [List.mem_cons] at hx
            rcases hx with rfl | hx
            · simpa using hn
            · exact ih' x hx


end EzdxfVerif.Text

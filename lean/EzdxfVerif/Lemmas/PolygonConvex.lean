/-
Lemmas/PolygonConvex.lean — `is_convex_polygon_2d`: what the sign loop decides.  Helper lemmas for `Props/C19.lean`.
-/
import EzdxfVerif.Model.Polygon
import Mathlib.Tactic.Ring
import Mathlib.Tactic.Linarith
import Mathlib.Tactic.Tauto

namespace EzdxfVerif.Lemmas.Convex
open EzdxfVerif.Polygon EzdxfVerif.Gen

theorem convexSign_pm (d : Rat) : PolygonKernels.convexSign d = 1 ∨ PolygonKernels.convexSign d = -1 := by
  unfold PolygonKernels.convexSign
  split_ifs
  · right; rfl
  · left; rfl

/-- the property the loop decides for the corners it evaluates: one common sign `s` of all significant determinants -/
def Agree (strict : Bool) (eps : Rat) (g : Rat) (cs : List (Pt × Pt × Pt)) : Prop :=
  ∃ s : Rat, (s = 1 ∨ s = -1) ∧ (g ≠ 0 → s = g) ∧
    (g = 0 → ∃ c ∈ cs, PolygonKernels.convexSignificant (cornerDet c) eps = true) ∧
    ∀ c ∈ cs, (PolygonKernels.convexSignificant (cornerDet c) eps = true → PolygonKernels.convexSign (cornerDet c) = s) ∧
      (strict = true → PolygonKernels.convexSignificant (cornerDet c) eps = true)

theorem convexLoop_spec (strict : Bool) (eps : Rat) : ∀ (rest : List Pt) (pp p : Pt) (g : Rat), (g = 0 ∨ g = 1 ∨ g = -1) →
    (convexLoop strict eps pp p g rest = true ↔ Agree strict eps g (convexCorners pp p rest))
  | [], pp, p, g, hg => by
    simp only [convexLoop, convexCorners, decide_eq_true_eq, Agree]
    constructor
    · intro h
      refine ⟨g, ?_, fun _ => rfl, fun h0 => absurd h0 h, fun c hc => by simp at hc⟩
      rcases hg with h0 | h0 | h0
      · exact absurd h0 h
      · exact Or.inl h0
      · exact Or.inr h0
    · rintro ⟨s, _, _, h3, _⟩ h0
      obtain ⟨c, hc, _⟩ := h3 h0
      simp at hc
  | v :: rest, pp, p, g, hg => by
    unfold convexLoop convexCorners
    by_cases hcl : closeDefault v p = true
    · rw [if_pos hcl, if_pos hcl]
      exact convexLoop_spec strict eps rest pp p g hg
    · rw [if_neg hcl, if_neg hcl]
      dsimp only
      have hdet : cornerDet (pp, p, v) = PolygonKernels.convexDet p.x p.y v.x v.y pp.x pp.y := rfl
      by_cases hsig : PolygonKernels.convexSignificant (PolygonKernels.convexDet p.x p.y v.x v.y pp.x pp.y) eps = true
      · rw [if_pos hsig]
        have hcur := convexSign_pm (PolygonKernels.convexDet p.x p.y v.x v.y pp.x pp.y)
        generalize hc : PolygonKernels.convexSign (PolygonKernels.convexDet p.x p.y v.x v.y pp.x pp.y) = cur at hcur
        have hcur0 : cur ≠ 0 := by rcases hcur with h | h <;> rw [h] <;> norm_num
        by_cases hg' : (if g = 0 then cur else g) ≠ cur
        · rw [if_pos hg']
          constructor
          · intro h; exact absurd h Bool.false_ne_true
          · rintro ⟨s, _, h2, _, h4⟩
            exfalso
            have e1 : s = cur := by
              have := (h4 (pp, p, v) (by simp)).1 (by rw [hdet]; exact hsig)
              rw [hdet, hc] at this
              exact this.symm
            by_cases hg0 : g = 0
            · rw [if_pos hg0] at hg'; exact hg' rfl
            · rw [if_neg hg0] at hg'
              exact hg' ((h2 hg0).symm.trans e1)
        · rw [if_neg hg']
          have hgc : (if g = 0 then cur else g) = cur := not_not.mp hg'
          rw [hgc]
          rw [convexLoop_spec strict eps rest p v cur (Or.inr hcur)]
          constructor
          · rintro ⟨s, h1, h2, _, h4⟩
            have e1 : s = cur := h2 hcur0
            refine ⟨s, h1, ?_, fun _ => ⟨(pp, p, v), by simp, by rw [hdet]; exact hsig⟩, ?_⟩
            · intro hg0
              rw [if_neg hg0] at hgc
              rw [e1, hgc]
            · intro c hcm
              rcases List.mem_cons.mp hcm with rfl | hcm
              · exact ⟨fun _ => by rw [hdet, hc, e1], fun _ => by rw [hdet]; exact hsig⟩
              · exact h4 c hcm
          · rintro ⟨s, h1, _, _, h4⟩
            have e1 : s = cur := by
              have := (h4 (pp, p, v) (by simp)).1 (by rw [hdet]; exact hsig)
              rw [hdet, hc] at this
              exact this.symm
            exact ⟨s, h1, fun _ => e1, fun h0 => absurd h0 hcur0, fun c hcm => h4 c (List.mem_cons_of_mem _ hcm)⟩
      · rw [if_neg hsig]
        by_cases hst : strict = true
        · rw [if_pos hst]
          constructor
          · intro h; exact absurd h Bool.false_ne_true
          · rintro ⟨s, _, _, _, h4⟩
            have := (h4 (pp, p, v) (by simp)).2 hst
            rw [hdet] at this
            exact absurd this hsig
        · rw [if_neg hst]
          rw [convexLoop_spec strict eps rest p v g hg]
          constructor
          · rintro ⟨s, h1, h2, h3, h4⟩
            refine ⟨s, h1, h2, ?_, ?_⟩
            · intro h0
              obtain ⟨c, hcm, hs⟩ := h3 h0
              exact ⟨c, List.mem_cons_of_mem _ hcm, hs⟩
            · intro c hcm
              rcases List.mem_cons.mp hcm with rfl | hcm
              · exact ⟨fun h => by rw [hdet] at h; exact absurd h hsig, fun h => absurd h hst⟩
              · exact h4 c hcm
          · rintro ⟨s, h1, h2, h3, h4⟩
            refine ⟨s, h1, h2, ?_, fun c hcm => h4 c (List.mem_cons_of_mem _ hcm)⟩
            intro h0
            obtain ⟨c, hcm, hs⟩ := h3 h0
            rcases List.mem_cons.mp hcm with rfl | hcm
            · rw [hdet] at hs; exact absurd hs hsig
            · exact ⟨c, hcm, hs⟩

/-- without coincident neighbours the loop evaluates every corner of the closed polygon -/
theorem convexCorners_all : ∀ (rest : List Pt) (pp p : Pt),
    (∀ e ∈ pairsOf (p :: rest), closeDefault e.2 e.1 = false) → convexCorners pp p rest = triplesOf (pp :: p :: rest)
  | [], pp, p, _ => rfl
  | v :: rest, pp, p, h => by
    have h1 : closeDefault v p = false := h (p, v) (by simp [pairsOf])
    simp only [convexCorners, h1, Bool.false_eq_true, if_false, triplesOf]
    rw [convexCorners_all rest p v (fun e he => h e (by simp only [pairsOf, List.mem_cons]; exact Or.inr he))]

end EzdxfVerif.Lemmas.Convex

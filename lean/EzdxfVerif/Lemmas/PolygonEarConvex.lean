/-
Lemmas/PolygonEarConvex.lean — completion of earcut for strictly convex rings: every cursor position is an ear, the main loop
never needs its second or third pass.  Helper lemmas for `Props/C19.lean`.
-/
import EzdxfVerif.Model.Polygon
import EzdxfVerif.Lemmas.PolygonEar
import Mathlib.Tactic.Ring
import Mathlib.Tactic.Linarith

namespace EzdxfVerif.Lemmas.EarConvex
open EzdxfVerif.Polygon EzdxfVerif.Gen

/-- a ring (listed from the cursor) is strictly convex and counter-clockwise: any three of its nodes, taken in ring order, make a
strict counter-clockwise turn (`area < 0` in the sign convention of the code) -/
def ConvexRing (l : List Node) : Prop := ∀ x y z : Node, [x, y, z].Sublist l → area x y z < 0

theorem area_cyclic (x y z : Node) : area x y z = area y z x := by
  simp only [area, PolygonKernels.area]; ring

theorem ConvexRing.sub {l l' : List Node} (h : ConvexRing l) (hs : l'.Sublist l) : ConvexRing l' :=
  fun x y z hxyz => h x y z (hxyz.trans hs)

theorem sublist_snoc_three (t : List Node) (b x y z : Node) (h : [x, y, z].Sublist (t ++ [b])) :
    [x, y, z].Sublist t ∨ (z = b ∧ [x, y].Sublist t) := by
  rw [List.sublist_append_iff] at h
  obtain ⟨l1, l2, he, h1, h2⟩ := h
  have h2' : l2 = [] ∨ l2 = [b] := by
    cases h2 with
    | cons _ h => left; exact List.sublist_nil.mp h
    | cons_cons _ h => right; rw [List.sublist_nil.mp h]
  rcases h2' with rfl | rfl
  · left
    rw [List.append_nil] at he
    rw [he]; exact h1
  · right
    have hl : l1.length = 2 := by
      have := congrArg List.length he
      simp at this; omega
    match l1, hl, he with
    | [p, q], _, he =>
      simp only [List.cons_append, List.nil_append, List.cons.injEq, and_true] at he
      obtain ⟨rfl, rfl, rfl⟩ := he
      exact ⟨rfl, h1⟩

theorem ConvexRing.rotl {b : Node} {t : List Node} (h : ConvexRing (b :: t)) : ConvexRing (t ++ [b]) := by
  intro x y z hs
  rcases sublist_snoc_three t b x y z hs with h1 | ⟨rfl, h1⟩
  · exact h x y z (h1.trans (List.sublist_cons_self _ _))
  · rw [area_cyclic x y z, area_cyclic y z x]
    exact h z x y (List.Sublist.cons_cons _ h1)

theorem windows3_sub : ∀ (l : List Node) (w : Node × Node × Node), w ∈ windows3 l → [w.1, w.2.1, w.2.2].Sublist l
  | [], w, h => by simp [windows3] at h
  | [_], w, h => by simp [windows3] at h
  | [_, _], w, h => by simp [windows3] at h
  | a :: b :: c :: t, w, h => by
    simp only [windows3, List.mem_cons] at h
    rcases h with rfl | h
    · exact List.Sublist.cons_cons _ (List.Sublist.cons_cons _ (List.Sublist.cons_cons _ (List.nil_sublist _)))
    · exact (windows3_sub (b :: c :: t) w h).trans (List.sublist_cons_self _ _)

theorem lastOr_mem (c : Node) (r : List Node) : lastOr c r ∈ c :: r := by
  induction r generalizing c with
  | nil => simp [lastOr]
  | cons q qs ih => simp only [lastOr]; exact List.mem_cons_of_mem _ (ih q)

theorem lastOr_sub (c : Node) (r : List Node) (hr : r ≠ []) : [c, lastOr c r].Sublist (c :: r) := by
  match r, hr with
  | q :: qs, _ =>
    simp only [lastOr]
    exact List.Sublist.cons_cons _ (List.singleton_sublist.mpr (lastOr_mem q qs))

/-- a strictly convex ring of at least three nodes: the cursor node is an ear -/
theorem isEar_of_convex (b c : Node) (r : List Node) (hr : r ≠ []) (h : ConvexRing (b :: c :: r)) :
    isEar (b :: c :: r) = true := by
  have ha : area (lastOr c r) b c < 0 := by
    rw [area_cyclic]
    exact h b c (lastOr c r) (List.Sublist.cons_cons _ (lastOr_sub c r hr))
  simp only [isEar]
  have hre : PolygonKernels.isEarReflex (lastOr c r).x (lastOr c r).y b.x b.y c.x c.y = false := by
    have : ¬ (0 ≤ area (lastOr c r) b c) := not_le.mpr ha
    simpa [PolygonKernels.isEarReflex, area] using this
  rw [hre]
  simp only [Bool.false_eq_true, if_false, Bool.not_eq_true', List.any_eq_false]
  intro w hw
  have hw2 : area w.1 w.2.1 w.2.2 < 0 :=
    h w.1 w.2.1 w.2.2 ((windows3_sub (c :: r) w hw).trans (List.sublist_cons_self _ _))
  by_contra hb
  have hb' : PolygonKernels.isEarBlocked (lastOr c r).x (lastOr c r).y b.x b.y c.x c.y w.1.x w.1.y w.2.1.x w.2.1.y w.2.2.x w.2.2.y
      = true := by simpa using hb
  have := ((Lemmas.Ear.isEarBlocked_iff _ _ _ _ _ _ ha).mp hb').2
  linarith

/-- the main loop on a strictly convex ring: every step cuts the ear at the cursor; the run is complete with `n - 2` triangles
and never enters the second or third pass -/
theorem earcutLinked_convex : ∀ (fuel : Nat) (l : List Node) (pass : Nat), ConvexRing l → l.length ≤ fuel → 0 < fuel →
    (earcutLinked fuel l 0 pass).complete ∧ (earcutLinked fuel l 0 pass).tris.length = l.length - 2
  | 0, _, _, _, _, h => absurd h (Nat.lt_irrefl 0)
  | fuel + 1, l, pass, hc, hlen, _ => by
    unfold earcutLinked
    by_cases h3 : l.length < 3
    · rw [if_pos h3]
      refine ⟨⟨?_, rfl, rfl⟩, ?_⟩
      · intro r hr
        simp only [List.mem_singleton] at hr
        subst hr; exact h3
      · simp only [List.length_nil]; omega
    · rw [if_neg h3]
      match l, hc, hlen, h3 with
      | [], _, _, h3 => simp at h3
      | [_], _, _, h3 => simp at h3
      | [_, _], _, _, h3 => simp at h3
      | b :: c :: q :: qs, hc, hlen, h3 =>
        have hear := isEar_of_convex b c (q :: qs) (by simp) hc
        rw [if_pos hear]
        have hc' : ConvexRing (rotl (c :: q :: qs)) := (hc.sub (List.sublist_cons_self _ _)).rotl
        have hl' : (rotl (c :: q :: qs)).length ≤ fuel := by
          rw [rotl_length]; simp only [List.length_cons] at hlen ⊢; omega
        have hf' : 0 < fuel := by simp only [List.length_cons] at hlen; omega
        obtain ⟨k1, k2⟩ := earcutLinked_convex fuel (rotl (c :: q :: qs)) pass hc' hl' hf'
        refine ⟨⟨k1.1, k1.2.1, k1.2.2⟩, ?_⟩
        simp only [List.length_cons, k2, rotl_length]
        omega

/-! ## non-overlap for strictly convex rings: every triangle is separated from every later one by the line of its cut edge -/

def triVerts (t : Tri) : List Node := [t.1, t.2.1, t.2.2]

/-- the two triangles lie in opposite closed half-planes of a proper line `p q`: their interiors are disjoint -/
def Separated (t1 t2 : Tri) : Prop :=
  ∃ p q : Node, (p.x ≠ q.x ∨ p.y ≠ q.y) ∧ (∀ v ∈ triVerts t1, area p q v ≤ 0) ∧ (∀ v ∈ triVerts t2, 0 ≤ area p q v)

theorem area_swap (x y z : Node) : area x z y = - area x y z := by
  simp only [area, PolygonKernels.area]; ring

theorem area_self_right (x y : Node) : area x y y = 0 := by simp only [area, PolygonKernels.area]; ring
theorem area_self_mid (x y : Node) : area x y x = 0 := by simp only [area, PolygonKernels.area]; ring

theorem mem_before_last : ∀ (r : List Node) (c v : Node), v ∈ r → v = lastOr c r ∨ [v, lastOr c r].Sublist r
  | [], _, v, h => by simp at h
  | [q], c, v, h => by
    simp only [List.mem_singleton] at h
    left; simp [lastOr, h]
  | q :: q' :: qs, c, v, h => by
    simp only [lastOr]
    rcases List.mem_cons.mp h with rfl | h
    · right
      exact lastOr_sub v (q' :: qs) (by simp)
    · rcases mem_before_last (q' :: qs) q v h with h1 | h1
      · left; simpa [lastOr] using h1
      · right
        simp only [lastOr] at h1
        exact h1.trans (List.sublist_cons_self _ _)

/-- all nodes other than the cursor lie on the far side of (or on) the cut edge `c → a` of the ear `a b c` -/
theorem far_side (b c : Node) (r : List Node) (h : ConvexRing (b :: c :: r)) :
    ∀ v ∈ c :: r, 0 ≤ area c (lastOr c r) v := by
  intro v hv
  rcases List.mem_cons.mp hv with rfl | hv
  · exact le_of_eq (area_self_mid _ _).symm
  · rcases mem_before_last r v v hv with h1 | h1
    · have : lastOr v r = lastOr c r := by
        match r, hv with
        | q :: qs, _ => rfl
      rw [← this, ← h1]
      exact le_of_eq (area_self_right _ _).symm
    · have hl : lastOr v r = lastOr c r := by
        match r, hv with
        | q :: qs, _ => rfl
      rw [hl] at h1
      have := h c v (lastOr c r) (List.Sublist.cons _ (List.Sublist.cons_cons _ h1))
      rw [area_swap]
      linarith

theorem earcutLinked_convex_sep : ∀ (fuel : Nat) (l : List Node) (pass : Nat), ConvexRing l → l.length ≤ fuel → 0 < fuel →
    (∀ t ∈ (earcutLinked fuel l 0 pass).tris, ∀ v ∈ triVerts t, v ∈ l) ∧
    List.Pairwise Separated (earcutLinked fuel l 0 pass).tris
  | 0, _, _, _, _, h => absurd h (Nat.lt_irrefl 0)
  | fuel + 1, l, pass, hc, hlen, _ => by
    unfold earcutLinked
    by_cases h3 : l.length < 3
    · rw [if_pos h3]
      exact ⟨fun t ht => by simp at ht, List.Pairwise.nil⟩
    · rw [if_neg h3]
      match l, hc, hlen, h3 with
      | [], _, _, h3 => simp at h3
      | [_], _, _, h3 => simp at h3
      | [_, _], _, _, h3 => simp at h3
      | b :: c :: q :: qs, hc, hlen, h3 =>
        have hear := isEar_of_convex b c (q :: qs) (by simp) hc
        rw [if_pos hear]
        have hc' : ConvexRing (rotl (c :: q :: qs)) := (hc.sub (List.sublist_cons_self _ _)).rotl
        have hl' : (rotl (c :: q :: qs)).length ≤ fuel := by
          rw [rotl_length]; simp only [List.length_cons] at hlen ⊢; omega
        have hf' : 0 < fuel := by simp only [List.length_cons] at hlen; omega
        obtain ⟨k1, k2⟩ := earcutLinked_convex_sep fuel (rotl (c :: q :: qs)) pass hc' hl' hf'
        have hmem : ∀ v, v ∈ rotl (c :: q :: qs) ↔ v ∈ c :: q :: qs := by
          intro v; simp only [rotl, List.mem_append, List.mem_cons, List.mem_singleton]; tauto
        have ha : area (lastOr c (q :: qs)) b c < 0 := by
          rw [area_cyclic]
          exact hc b c _ (List.Sublist.cons_cons _ (lastOr_sub c (q :: qs) (by simp)))
        constructor
        · intro t ht v hv
          simp only [List.mem_cons] at ht
          rcases ht with rfl | ht
          · simp only [triVerts, List.mem_cons, List.not_mem_nil, or_false] at hv
            rcases hv with rfl | rfl | rfl
            · exact List.mem_cons_of_mem _ (lastOr_mem c (q :: qs))
            · simp
            · simp
          · exact List.mem_cons_of_mem _ ((hmem v).mp (k1 t ht v hv))
        · refine List.Pairwise.cons ?_ k2
          intro t ht
          refine ⟨c, lastOr c (q :: qs), ?_, ?_, ?_⟩
          · by_contra hne
            simp only [not_or, not_not] at hne
            have : area (lastOr c (q :: qs)) b c = 0 := by
              simp only [area, PolygonKernels.area, hne.1, hne.2]; ring
            linarith
          · intro v hv
            simp only [triVerts, List.mem_cons, List.not_mem_nil, or_false] at hv
            rcases hv with rfl | rfl | rfl
            · exact le_of_eq (area_self_right _ _)
            · rw [area_cyclic]; exact le_of_lt ha
            · exact le_of_eq (area_self_mid _ _)
          · intro v hv
            exact far_side b c (q :: qs) hc v ((hmem v).mp (k1 t ht v hv))

end EzdxfVerif.Lemmas.EarConvex

/-
Lemmas for the path and entity-tree part of C15 (Model/BBoxTree.lean); the counted statements are in Props/C15.lean.
-/
import EzdxfVerif.Lemmas.BBox
import EzdxfVerif.Model.BBoxTree
namespace EzdxfVerif.BBox.Lemmas
open EzdxfVerif.BBox

/-! ## affine maps -/

theorem Aff.apply_comp (t m : Aff) (p : V3) : (t.comp m).apply p = t.apply (m.apply p) := by
  simp only [Aff.apply, Aff.comp, V3.mk.injEq]
  refine ⟨by ring, by ring, by ring⟩

theorem Aff.apply_one (p : V3) : Aff.one.apply p = p := by
  cases p; simp [Aff.apply, Aff.one]

theorem Aff.comp_one (m : Aff) : m.comp Aff.one = m := by
  cases m; simp [Aff.comp, Aff.one]

theorem Aff.one_comp (m : Aff) : Aff.one.comp m = m := by
  cases m; simp [Aff.comp, Aff.one]

theorem Aff.comp_assoc (a b c : Aff) : (a.comp b).comp c = a.comp (b.comp c) := by
  simp only [Aff.comp, Aff.mk.injEq]
  refine ⟨by ring, by ring, by ring, by ring, by ring, by ring, by ring, by ring, by ring, by ring, by ring, by ring⟩

theorem Cmd.map_comp (t m : Aff) (c : Cmd) : c.map (t.comp m) = (c.map m).map t := by
  cases c <;> simp [Cmd.map, Aff.apply_comp]

theorem Cmd.map_one (c : Cmd) : c.map Aff.one = c := by
  cases c <;> simp [Cmd.map, Aff.apply_one]

theorem Path.map_comp (t m : Aff) (p : Path) : p.map (t.comp m) = (p.map m).map t := by
  simp [Path.map, Aff.apply_comp, Cmd.map_comp]

theorem Path.map_one (p : Path) : p.map Aff.one = p := by
  cases p with
  | mk s cs =>
    simp only [Path.map, Aff.apply_one, Path.mk.injEq, true_and]
    induction cs with
    | nil => rfl
    | cons c t ih => simp [Cmd.map_one, ih]

theorem Path.map_isEmpty (a : Aff) (p : Path) : (p.map a).isEmpty = p.isEmpty := by
  simp [Path.map, Path.isEmpty]

theorem Cmd.map_endPoint (a : Aff) (c : Cmd) : (c.map a).endPoint = a.apply c.endPoint := by
  cases c <;> rfl

/-! ## Bézier curves and paths are affinely invariant -/

theorem bezier4V_map (a : Aff) (p0 p1 p2 p3 : V3) (t : Rat) :
    bezier4V (a.apply p0) (a.apply p1) (a.apply p2) (a.apply p3) t = a.apply (bezier4V p0 p1 p2 p3 t) := by
  simp only [bezier4V, bezier4, Aff.apply, V3.mk.injEq]
  refine ⟨by ring, by ring, by ring⟩

theorem bezier3V_map (a : Aff) (p0 p1 p2 : V3) (t : Rat) :
    bezier3V (a.apply p0) (a.apply p1) (a.apply p2) t = a.apply (bezier3V p0 p1 p2 t) := by
  simp only [bezier3V, bezier3, Aff.apply, V3.mk.injEq]
  refine ⟨by ring, by ring, by ring⟩

theorem segPoint_map (a : Aff) (s : V3) (c : Cmd) (t : Rat) :
    segPoint (a.apply s) (c.map a) t = a.apply (segPoint s c t) := by
  cases c with
  | lineTo e =>
    simp only [segPoint, Cmd.map, Aff.apply, V3.mk.injEq]
    refine ⟨by ring, by ring, by ring⟩
  | curve3To c e => simp only [segPoint, Cmd.map, bezier3V_map]
  | curve4To c1 c2 e => simp only [segPoint, Cmd.map, bezier4V_map]
  | moveTo e => simp only [segPoint, Cmd.map]

theorem segsFrom_map (a : Aff) (cs : List Cmd) : ∀ s : V3,
    segsFrom (a.apply s) (cs.map (Cmd.map a)) = (segsFrom s cs).map (fun sc => (a.apply sc.1, sc.2.map a)) := by
  induction cs with
  | nil => intro s; rfl
  | cons c t ih => intro s; simp only [List.map_cons, segsFrom, Cmd.map_endPoint, ih]

/-- the image of a point of a path under an affine map is a point of the transformed path -/
theorem onPath_map (a : Aff) (p : Path) (q : V3) (h : OnPath p q) : OnPath (p.map a) (a.apply q) := by
  obtain ⟨hne, h⟩ := h
  refine ⟨by simpa [Path.map] using hne, ?_⟩
  rcases h with rfl | ⟨sc, hsc, t, h0, h1, rfl⟩
  · exact Or.inl rfl
  · refine Or.inr ⟨(a.apply sc.1, sc.2.map a), ?_, t, h0, h1, ?_⟩
    · simp only [Path.map, segsFrom_map]
      exact List.mem_map.mpr ⟨sc, hsc, rfl⟩
    · exact (segPoint_map a sc.1 sc.2 t).symm

/-! ## boxes are convex: a segment whose control points are in a box stays in the box -/

theorem line_between (s e t m M : Rat) (h0 : 0 ≤ t) (h1 : t ≤ 1) (ls : m ≤ s) (le : m ≤ e) (us : s ≤ M) (ue : e ≤ M) :
    m ≤ s + (e - s) * t ∧ s + (e - s) * t ≤ M := by
  have hu : 0 ≤ 1 - t := by linarith
  have e1 : s + (e - s) * t - m = (1 - t) * (s - m) + t * (e - m) := by ring
  have e2 : M - (s + (e - s) * t) = (1 - t) * (M - s) + t * (M - e) := by ring
  have a0 : 0 ≤ s - m := by linarith
  have a1 : 0 ≤ e - m := by linarith
  have b0 : 0 ≤ M - s := by linarith
  have b1 : 0 ≤ M - e := by linarith
  have g1 : 0 ≤ s + (e - s) * t - m := by rw [e1]; positivity
  have g2 : 0 ≤ M - (s + (e - s) * t) := by rw [e2]; positivity
  constructor <;> linarith

theorem segPoint_inside (b : Box3) (s : V3) (c : Cmd) (t : Rat) (h0 : 0 ≤ t) (h1 : t ≤ 1)
    (hs : b.inside s = true) (hv : ∀ v ∈ c.verts, b.inside v = true) : b.inside (segPoint s c t) = true := by
  cases b with
  | empty => simp [Box3.inside] at hs
  | mk lo hi =>
    rw [inside_mk_iff] at hs
    obtain ⟨s1, s2, s3, s4, s5, s6⟩ := hs
    cases c with
    | lineTo e =>
      have he := hv e (by simp [Cmd.verts])
      rw [inside_mk_iff] at he
      obtain ⟨e1, e2, e3, e4, e5, e6⟩ := he
      simp only [segPoint, inside_mk_iff]
      obtain ⟨x1, x2⟩ := line_between s.x e.x t lo.x hi.x h0 h1 s1 e1 s2 e2
      obtain ⟨y1, y2⟩ := line_between s.y e.y t lo.y hi.y h0 h1 s3 e3 s4 e4
      obtain ⟨z1, z2⟩ := line_between s.z e.z t lo.z hi.z h0 h1 s5 e5 s6 e6
      exact ⟨x1, x2, y1, y2, z1, z2⟩
    | curve3To c e =>
      have hc := hv c (by simp [Cmd.verts])
      have he := hv e (by simp [Cmd.verts])
      rw [inside_mk_iff] at hc he
      obtain ⟨c1, c2, c3, c4, c5, c6⟩ := hc
      obtain ⟨e1, e2, e3, e4, e5, e6⟩ := he
      simp only [segPoint, bezier3V, inside_mk_iff]
      obtain ⟨x1, x2⟩ := bezier3_between s.x c.x e.x t lo.x hi.x h0 h1 s1 c1 e1 s2 c2 e2
      obtain ⟨y1, y2⟩ := bezier3_between s.y c.y e.y t lo.y hi.y h0 h1 s3 c3 e3 s4 c4 e4
      obtain ⟨z1, z2⟩ := bezier3_between s.z c.z e.z t lo.z hi.z h0 h1 s5 c5 e5 s6 c6 e6
      exact ⟨x1, x2, y1, y2, z1, z2⟩
    | curve4To c d e =>
      have hc := hv c (by simp [Cmd.verts])
      have hd := hv d (by simp [Cmd.verts])
      have he := hv e (by simp [Cmd.verts])
      rw [inside_mk_iff] at hc hd he
      obtain ⟨c1, c2, c3, c4, c5, c6⟩ := hc
      obtain ⟨d1, d2, d3, d4, d5, d6⟩ := hd
      obtain ⟨e1, e2, e3, e4, e5, e6⟩ := he
      simp only [segPoint, bezier4V, inside_mk_iff]
      obtain ⟨x1, x2⟩ := bezier4_between s.x c.x d.x e.x t lo.x hi.x h0 h1 s1 c1 d1 e1 s2 c2 d2 e2
      obtain ⟨y1, y2⟩ := bezier4_between s.y c.y d.y e.y t lo.y hi.y h0 h1 s3 c3 d3 e3 s4 c4 d4 e4
      obtain ⟨z1, z2⟩ := bezier4_between s.z c.z d.z e.z t lo.z hi.z h0 h1 s5 c5 d5 e5 s6 c6 d6 e6
      exact ⟨x1, x2, y1, y2, z1, z2⟩
    | moveTo e =>
      have he := hv e (by simp [Cmd.verts])
      simpa [segPoint] using he

theorem endPoint_mem_verts (c : Cmd) : c.endPoint ∈ c.verts := by
  cases c <;> simp [Cmd.endPoint, Cmd.verts]

/-- a box that contains the start point and all stored vertices contains every point of the path -/
theorem segs_inside (b : Box3) (cs : List Cmd) : ∀ (s : V3), b.inside s = true →
    (∀ v ∈ cs.flatMap Cmd.verts, b.inside v = true) →
    ∀ sc ∈ segsFrom s cs, ∀ t : Rat, 0 ≤ t → t ≤ 1 → b.inside (segPoint sc.1 sc.2 t) = true := by
  induction cs with
  | nil => intro s _ _ sc hsc; simp [segsFrom] at hsc
  | cons c r ih =>
    intro s hs hv sc hsc t h0 h1
    simp only [segsFrom, List.mem_cons] at hsc
    have hvc : ∀ v ∈ c.verts, b.inside v = true := fun v hvm => hv v (by simp [hvm])
    rcases hsc with rfl | hsc
    · exact segPoint_inside b s c t h0 h1 hs hvc
    · exact ih c.endPoint (hvc _ (endPoint_mem_verts c)) (fun v hvm => hv v (by
        simp only [List.flatMap_cons, List.mem_append]; exact Or.inr hvm)) sc hsc t h0 h1

/-- fast mode: every point of a (multi-)path lies in the box of its control vertices -/
theorem fast_contains_path (p : Path) (q : V3) (h : OnPath p q) : (extents3 p.controlVertices).inside q = true := by
  obtain ⟨hne, h⟩ := h
  have hcv : p.controlVertices = p.start :: p.cmds.flatMap Cmd.verts := by
    simp [Path.controlVertices, hne]
  have hall : ∀ v ∈ p.controlVertices, (extents3 p.controlVertices).inside v = true :=
    fun v hv => extents_contains_all _ v hv
  rcases h with rfl | ⟨sc, hsc, t, h0, h1, rfl⟩
  · exact hall _ (by simp [hcv])
  · exact segs_inside _ p.cmds p.start (hall _ (by simp [hcv])) (fun v hv => hall v (by simp [hcv, hv])) sc hsc t h0 h1

/-! ## `precise_bbox` -/

/-- the pen position after a command is the end point of the command, for EVERY kind of command -/
theorem preciseStep_pen (sb : SegBoxes) (s : V3) (c : Cmd) : (Path.preciseStep sb s c).2 = c.endPoint := by
  cases c <;> rfl

theorem preciseLoop_eq (sb : SegBoxes) (cs : List Cmd) : ∀ s : V3,
    Path.preciseLoop sb s cs = (segsFrom s cs).flatMap (fun sc => (Path.preciseStep sb sc.1 sc.2).1) := by
  induction cs with
  | nil => intro s; rfl
  | cons c r ih => intro s; simp only [Path.preciseLoop, segsFrom, List.flatMap_cons, preciseStep_pen, ih]

/-- a point inside a box whose corners are inside `b` is inside `b` -/
theorem inside_of_corners (b c : Box3) (h : ∀ x ∈ c.iter, b.inside x = true) (q : V3) (hq : c.inside q = true) :
    b.inside q = true := by
  cases c with
  | empty => simp [Box3.inside] at hq
  | mk lo hi =>
    have hl := h lo (by simp [Box3.iter])
    have hh := h hi (by simp [Box3.iter])
    cases b with
    | empty => simp [Box3.inside] at hl
    | mk blo bhi =>
      rw [inside_mk_iff] at hl hh hq ⊢
      obtain ⟨l1, l2, l3, l4, l5, l6⟩ := hl
      obtain ⟨g1, g2, g3, g4, g5, g6⟩ := hh
      obtain ⟨q1, q2, q3, q4, q5, q6⟩ := hq
      exact ⟨by linarith, by linarith, by linarith, by linarith, by linarith, by linarith⟩

theorem bezier4V_one (p0 p1 p2 p3 : V3) : bezier4V p0 p1 p2 p3 1 = p3 := by
  cases p3; simp only [bezier4V, bezier4, V3.mk.injEq]; refine ⟨by ring, by ring, by ring⟩

theorem bezier4V_zero (p0 p1 p2 p3 : V3) : bezier4V p0 p1 p2 p3 0 = p0 := by
  cases p0; simp only [bezier4V, bezier4, V3.mk.injEq]; refine ⟨by ring, by ring, by ring⟩

theorem bezier3V_one (p0 p1 p2 : V3) : bezier3V p0 p1 p2 1 = p2 := by
  cases p2; simp only [bezier3V, bezier3, V3.mk.injEq]; refine ⟨by ring, by ring, by ring⟩

theorem bezier3V_zero (p0 p1 p2 : V3) : bezier3V p0 p1 p2 0 = p0 := by
  cases p0; simp only [bezier3V, bezier3, V3.mk.injEq]; refine ⟨by ring, by ring, by ring⟩

/-- one segment: if the pen is inside `b` and the points the loop appends are inside `b`, the whole segment and
    the new pen position are inside `b` -/
theorem SegBoxes.Sound.soundOn {sb : SegBoxes} (hs : sb.Sound) (p : Path) : p.SoundOn sb := by
  intro sc _
  rcases sc with ⟨s, c⟩
  cases c with
  | lineTo e => trivial
  | moveTo e => trivial
  | curve3To c e => exact fun t h0 h1 => hs.2 s c e t h0 h1
  | curve4To c1 c2 e => exact fun t h0 h1 => hs.1 s c1 c2 e t h0 h1

theorem step_inside (sb : SegBoxes) (b : Box3) (s : V3) (c : Cmd) (hs : sb.SoundAt s c) (hpen : b.inside s = true)
    (hpts : ∀ x ∈ (Path.preciseStep sb s c).1, b.inside x = true) :
    b.inside c.endPoint = true ∧ ∀ t : Rat, 0 ≤ t → t ≤ 1 → b.inside (segPoint s c t) = true := by
  cases c with
  | lineTo e =>
    have he : b.inside e = true := hpts e (by simp [Path.preciseStep])
    exact ⟨he, fun t h0 h1 => segPoint_inside b s _ t h0 h1 hpen (by simpa [Cmd.verts] using he)⟩
  | moveTo e =>
    have he : b.inside e = true := hpts e (by simp [Path.preciseStep])
    exact ⟨he, fun t _ _ => by simpa [segPoint] using he⟩
  | curve3To c e =>
    have hin : ∀ t : Rat, 0 ≤ t → t ≤ 1 → b.inside (bezier3V s c e t) = true := fun t h0 h1 =>
      inside_of_corners b _ (by simpa [Path.preciseStep] using hpts) _ (hs t h0 h1)
    refine ⟨?_, fun t h0 h1 => hin t h0 h1⟩
    have := hin 1 (by norm_num) (by norm_num)
    rwa [bezier3V_one] at this
  | curve4To c1 c2 e =>
    have hin : ∀ t : Rat, 0 ≤ t → t ≤ 1 → b.inside (bezier4V s c1 c2 e t) = true := fun t h0 h1 =>
      inside_of_corners b _ (by simpa [Path.preciseStep] using hpts) _ (hs t h0 h1)
    refine ⟨?_, fun t h0 h1 => hin t h0 h1⟩
    have := hin 1 (by norm_num) (by norm_num)
    rwa [bezier4V_one] at this

theorem loop_inside (sb : SegBoxes) (b : Box3) (cs : List Cmd) : ∀ s : V3, (∀ sc ∈ segsFrom s cs, sb.SoundAt sc.1 sc.2) →
    b.inside s = true → (∀ x ∈ Path.preciseLoop sb s cs, b.inside x = true) →
    ∀ sc ∈ segsFrom s cs, ∀ t : Rat, 0 ≤ t → t ≤ 1 → b.inside (segPoint sc.1 sc.2 t) = true := by
  induction cs with
  | nil => intro s _ _ _ sc hsc; simp [segsFrom] at hsc
  | cons c r ih =>
    intro s hs hpen hpts sc hsc t h0 h1
    simp only [Path.preciseLoop, List.mem_append] at hpts
    obtain ⟨he, hseg⟩ := step_inside sb b s c (hs (s, c) (by simp [segsFrom])) hpen (fun x hx => hpts x (Or.inl hx))
    simp only [segsFrom, List.mem_cons] at hsc
    rcases hsc with rfl | hsc
    · exact hseg t h0 h1
    · refine ih c.endPoint (fun sc' h' => hs sc' (by simp [segsFrom, h'])) he (fun x hx => hpts x (Or.inr ?_)) sc hsc t h0 h1
      rw [preciseStep_pen]; exact hx

/-- precise mode: with segment boxes that contain their curves, `precise_bbox` contains every point of the
    (multi-)path -/
theorem precise_contains_path (sb : SegBoxes) (p : Path) (hs : p.SoundOn sb) (q : V3) (h : OnPath p q) :
    (p.preciseBBox sb).inside q = true := by
  obtain ⟨hne, h⟩ := h
  have hb : p.preciseBBox sb = extents3 (p.start :: Path.preciseLoop sb p.start p.cmds) := by
    simp [Path.preciseBBox, hne]
  rw [hb]
  have hall : ∀ v ∈ p.start :: Path.preciseLoop sb p.start p.cmds,
      (extents3 (p.start :: Path.preciseLoop sb p.start p.cmds)).inside v = true :=
    fun v hv => extents_contains_all _ v hv
  rcases h with rfl | ⟨sc, hsc, t, h0, h1, rfl⟩
  · exact hall _ (by simp)
  · exact loop_inside sb _ p.cmds p.start hs (hall _ (by simp)) (fun x hx => hall x (by simp [hx])) sc hsc t h0 h1

/-- all points of a list inside a box: so are the corners of the box of the list -/
theorem extents_corners_inside (b : Box3) (l : List V3) (h : ∀ x ∈ l, b.inside x = true) :
    ∀ x ∈ (extents3 l).iter, b.inside x = true := by
  cases l with
  | nil => simp [extents3, Box3.iter]
  | cons v t =>
    have hc : b.allInside (v :: t) = true := by
      cases b with
      | empty => have := h v (by simp); simp [Box3.inside] at this
      | mk lo hi =>
        simp only [Box3.allInside, Box3.hasData, List.isEmpty_cons, Bool.not_false, Bool.true_and, List.all_eq_true]
        exact h
    rw [all_inside_eq_contains_extents] at hc
    simp only [extents3, Box3.contains, Bool.and_eq_true] at hc
    intro x hx
    simp only [extents3, Box3.iter, List.mem_cons, List.not_mem_nil, or_false] at hx
    rcases hx with rfl | rfl
    · exact hc.1
    · exact hc.2

theorem loop_in_control (sb : SegBoxes) (hc : sb.InControl) (b : Box3) (cs : List Cmd) : ∀ s : V3, b.inside s = true →
    (∀ v ∈ cs.flatMap Cmd.verts, b.inside v = true) → ∀ x ∈ Path.preciseLoop sb s cs, b.inside x = true := by
  induction cs with
  | nil => intro s _ _ x hx; simp [Path.preciseLoop] at hx
  | cons c r ih =>
    intro s hpen hv x hx
    have hvc : ∀ v ∈ c.verts, b.inside v = true := fun v hvm => hv v (by simp [hvm])
    simp only [Path.preciseLoop, List.mem_append] at hx
    rcases hx with hx | hx
    · cases c with
      | lineTo e => simp only [Path.preciseStep, List.mem_singleton] at hx; subst hx; exact hvc _ (by simp [Cmd.verts])
      | moveTo e => simp only [Path.preciseStep, List.mem_singleton] at hx; subst hx; exact hvc _ (by simp [Cmd.verts])
      | curve3To c e =>
        exact hc.2 b s c e hpen (hvc _ (by simp [Cmd.verts])) (hvc _ (by simp [Cmd.verts])) x (by simpa [Path.preciseStep] using hx)
      | curve4To c1 c2 e =>
        exact hc.1 b s c1 c2 e hpen (hvc _ (by simp [Cmd.verts])) (hvc _ (by simp [Cmd.verts])) (hvc _ (by simp [Cmd.verts])) x
          (by simpa [Path.preciseStep] using hx)
    · rw [preciseStep_pen] at hx
      exact ih c.endPoint (hvc _ (endPoint_mem_verts c)) (fun v hvm => hv v (by
        simp only [List.flatMap_cons, List.mem_append]; exact Or.inr hvm)) x hx

/-- fast mode is never smaller than precise mode, for a whole multi-path -/
theorem fast_contains_precise_path (sb : SegBoxes) (hc : sb.InControl) (p : Path) (hne : p.cmds ≠ []) :
    (extents3 p.controlVertices).contains (p.preciseBBox sb) = true := by
  have hb : p.preciseBBox sb = extents3 (p.start :: Path.preciseLoop sb p.start p.cmds) := by
    simp [Path.preciseBBox, hne]
  have hcv : p.controlVertices = p.start :: p.cmds.flatMap Cmd.verts := by
    simp [Path.controlVertices, hne]
  have hall : ∀ v ∈ p.controlVertices, (extents3 p.controlVertices).inside v = true :=
    fun v hv => extents_contains_all _ v hv
  rw [hb, ← all_inside_eq_contains_extents]
  have hne' : (extents3 p.controlVertices).hasData = true := by rw [hcv]; rfl
  simp only [Box3.allInside, hne', List.isEmpty_cons, Bool.not_false, Bool.true_and, List.all_eq_true]
  intro x hx
  simp only [List.mem_cons] at hx
  rcases hx with rfl | hx
  · exact hall _ (by simp [hcv])
  · exact loop_in_control sb hc _ p.cmds p.start (hall _ (by simp [hcv])) (fun v hv => hall v (by simp [hcv, hv])) x hx


/-! ## entity trees: `xform`, `decompose` -/

/-- the composition of a stack of transformations (head applied first) -/
def compAll (ts : List Aff) : Aff := ts.foldl (fun acc t => t.comp acc) Aff.one

theorem foldl_comp (ts : List Aff) : ∀ init : Aff, ts.foldl (fun acc t => t.comp acc) init = (compAll ts).comp init := by
  induction ts with
  | nil => intro init; simp [compAll, Aff.one_comp]
  | cons t r ih =>
    intro init
    simp only [List.foldl_cons, compAll]
    rw [ih, ih (t.comp Aff.one), Aff.comp_one, Aff.comp_assoc]

theorem compAll_nil : compAll [] = Aff.one := rfl

theorem compAll_cons (m : Aff) (ts : List Aff) : compAll (m :: ts) = (compAll ts).comp m := by
  simp only [compAll, List.foldl_cons]
  rw [foldl_comp, Aff.comp_one]; rfl

theorem foldl_map_path (ts : List Aff) : ∀ p : Path, ts.foldl (fun p t => p.map t) p = p.map (compAll ts) := by
  induction ts with
  | nil => intro p; simp [compAll, Path.map_one]
  | cons t r ih => intro p; simp only [List.foldl_cons]; rw [ih, compAll_cons, Path.map_comp]

theorem decompose_nil (repr : Aff → Bool) : decompose repr .nil = [] := by simp [decompose]

theorem decompose_leaf (repr : Aff → Bool) (k : Option Nat) (p : Path) (r : Forest) :
    decompose repr (.leaf k p r) = ⟨k, p⟩ :: decompose repr r := by simp [decompose]

theorem decompose_insert (repr : Aff → Bool) (k : Option Nat) (m : Aff) (a : List Leaf) (b r : Forest) :
    decompose repr (.insert k m a b r) = a ++ decompose repr (xform repr [m] b) ++ decompose repr r := by
  simp [decompose]

theorem decompose_append (repr : Aff → Bool) (f g : Forest) :
    decompose repr (f.append g) = decompose repr f ++ decompose repr g := by
  induction f with
  | nil => simp [Forest.append, decompose_nil]
  | leaf k p r ih => simp [Forest.append, decompose_leaf, ih]
  | insert k m a b r _ ih => simp [Forest.append, decompose_insert, ih]

/-- a virtual leaf: no key, the path in the coordinates of the composed transformation -/
def vleaf (tp : Aff × Path) : Leaf := ⟨none, tp.2.map tp.1⟩

/-- The flat stream behind a stack of transformations: whatever `repr` decides (INSERT absorbed or replaced by
    its transformed content), the decomposition of the transformed virtual copies is the list of all leaves with
    the composed matrix of the stack and of their ancestors. -/
theorem xform_decompose (repr : Aff → Bool) : ∀ (ts : List Aff) (f : Forest), f.noAtts = true →
    decompose repr (xform repr ts f) = (placements (compAll ts) f).map vleaf
  | ts, .nil, _ => by simp [xform, decompose_nil, placements]
  | ts, .leaf k p r, h => by
    have ih := xform_decompose repr ts r (by simpa [Forest.noAtts] using h)
    simp [xform, decompose_leaf, placements, ih, foldl_map_path, vleaf]
  | [], .insert k m a b r, h => by
    simp only [Forest.noAtts, Bool.and_eq_true, List.isEmpty_iff] at h
    obtain ⟨⟨ha, hb⟩, hr⟩ := h
    subst ha
    have ih1 := xform_decompose repr [m] b hb
    have ih2 := xform_decompose repr [] r hr
    simp [xform, decompose_insert, placements, ih1, ih2, compAll_cons]
  | t :: ts, .insert k m a b r, h => by
    simp only [Forest.noAtts, Bool.and_eq_true, List.isEmpty_iff] at h
    obtain ⟨⟨ha, hb⟩, hr⟩ := h
    subst ha
    have ih2 := xform_decompose repr (t :: ts) r hr
    by_cases hrep : repr (t.comp m) = true
    · have ih1 := xform_decompose repr ts (.insert none (t.comp m) [] b .nil) (by simp [Forest.noAtts, hb])
      simp only [xform, hrep, if_true, decompose_append, ih2, mapAtts, List.map_nil, ih1]
      simp [placements, compAll_cons, Aff.comp_assoc]
    · have ih1 := xform_decompose repr (m :: t :: ts) b hb
      simp [xform, hrep, decompose_append, ih1, ih2, placements, compAll_cons]
termination_by ts f => (f.size, ts.length)
decreasing_by
  all_goals simp_wf
  all_goals simp only [Forest.size, Prod.lex_def]
  all_goals omega

/-- the flat stream of a layout, as a specification: real entities keep their key, everything below an INSERT is
    a virtual leaf under the composed matrix -/
def topLeaves : Forest → List Leaf
  | .nil => []
  | .leaf k p r => ⟨k, p⟩ :: topLeaves r
  | .insert _ m a b r => a ++ (placements m b).map vleaf ++ topLeaves r

theorem decompose_top (repr : Aff → Bool) (f : Forest) (h : f.plainBlocks = true) : decompose repr f = topLeaves f := by
  induction f with
  | nil => simp [decompose_nil, topLeaves]
  | leaf k p r ih => simp [decompose_leaf, topLeaves, ih (by simpa [Forest.plainBlocks] using h)]
  | insert k m a b r _ ih =>
    simp only [Forest.plainBlocks, Bool.and_eq_true] at h
    rw [decompose_insert, xform_decompose repr [m] b h.1, ih h.2, compAll_cons, compAll_nil, Aff.one_comp]
    rfl

theorem placements_paths_one_comp (m : Aff) (b : Forest) : placements (Aff.one.comp m) b = placements m b := by
  rw [Aff.one_comp]

theorem topLeaves_paths (f : Forest) : (topLeaves f).map Leaf.path = worldPaths f := by
  unfold worldPaths
  induction f with
  | nil => rfl
  | leaf k p r ih => simp [topLeaves, placements, Path.map_one, ih]
  | insert k m a b r _ ih =>
    simp only [topLeaves, placements, List.map_append, List.map_map, ih, Aff.one_comp]
    congr 1
    congr 1
    · apply List.map_congr_left; intro l _; simp [Path.map_one]

theorem topLeaves_keys (f : Forest) : ∀ l ∈ topLeaves f, ∀ k, l.key = some k → k ∈ f.handles := by
  induction f with
  | nil => intro l hl; simp [topLeaves] at hl
  | leaf k p r ih =>
    intro l hl k' hk
    simp only [topLeaves, List.mem_cons] at hl
    rcases hl with rfl | hl
    · simp only at hk; simp [Forest.handles, hk]
    · simp only [Forest.handles, List.mem_append]; exact Or.inr (ih l hl k' hk)
  | insert k m a b r _ ih =>
    intro l hl k' hk
    simp only [topLeaves, List.mem_append, List.mem_map] at hl
    simp only [Forest.handles, List.mem_append, List.mem_flatMap]
    rcases hl with (hl | ⟨tp, _, rfl⟩) | hl
    · exact Or.inl (Or.inr ⟨l, hl, by simp [hk]⟩)
    · simp [vleaf] at hk
    · exact Or.inr (ih l hl k' hk)

theorem decompose_heads (repr : Aff → Bool) (f : Forest) : decompose repr f = f.heads.flatMap (decompose repr) := by
  induction f with
  | nil => simp [Forest.heads, decompose_nil]
  | leaf k p r ih => simp [Forest.heads, decompose_leaf, decompose_nil, ← ih]
  | insert k m a b r _ ih => simp [Forest.heads, decompose_insert, decompose_nil, ← ih]

/-! ## the folds over entity collections -/

theorem extendAll_eq (bs : List Box3) : extendAll bs = extents3 (bs.flatMap Box3.iter) := (extend_all_spec bs).1

theorem flatMap_iter_filter (bs : List Box3) : (bs.filter Box3.hasData).flatMap Box3.iter = bs.flatMap Box3.iter := by
  induction bs with
  | nil => rfl
  | cons b t ih => cases b <;> simp [List.filter_cons, Box3.hasData, Box3.iter, ih]

theorem extendAll_filter (bs : List Box3) : extendAll (bs.filter Box3.hasData) = extendAll bs := by
  rw [extendAll_eq, extendAll_eq, flatMap_iter_filter]

theorem extents_append_congr (m l l' : List V3) (h : extents3 l = extents3 l') : extents3 (m ++ l) = extents3 (m ++ l') := by
  rw [← (extents_append_iter m l).1, h, (extents_append_iter m l').1]

theorem extendAll_nested (bss : List (List Box3)) : extendAll (bss.map extendAll) = extendAll bss.flatten := by
  rw [extendAll_eq, extendAll_eq]
  induction bss with
  | nil => rfl
  | cons b t ih =>
    simp only [List.map_cons, List.flatMap_cons, List.flatten_cons, List.flatMap_append]
    rw [extendAll_eq, (extents_append_iter _ _).2]
    exact extents_append_congr _ _ _ ih

theorem multiRecursive_plain (c : Cache) (qs : List Prim) :
    multiRecursive false c qs = ((qs.map Prim.box).filter Box3.hasData, c) := multi_recursive_plain c qs

theorem multiFlat_plain (c : Cache) (es : List Ent) :
    multiFlat false c es = ((es.map Ent.flatBox).filter Box3.hasData, c) := by
  induction es with
  | nil => rfl
  | cons e t ih => simp only [multiFlat, ent_step_plain, ih, List.map_cons, List.filter_cons]

theorem flatten_map_prims (es : List Ent) :
    (es.map (fun e => e.prims.map Prim.box)).flatten = (es.flatMap Ent.prims).map Prim.box := by
  induction es with
  | nil => rfl
  | cons e t ih => simp [ih]

/-- `extents` without a cache: the box of the boxes of ALL primitives of all entities -/
theorem extents_flat (c : Cache) (es : List Ent) :
    extentsOf false c es = (extendAll ((es.flatMap Ent.prims).map Prim.box), c) := by
  simp only [extentsOf, multiFlat_plain, extendAll_filter, Prod.mk.injEq, and_true]
  have : es.map Ent.flatBox = (es.map (fun e => e.prims.map Prim.box)).map extendAll := by
    simp only [List.map_map]
    apply List.map_congr_left
    intro e _
    simp [Ent.flatBox, extendAll_filter]
  rw [this, extendAll_nested, flatten_map_prims]

/-- `multi_flat` and `multi_recursive` describe the same box -/
theorem flat_vs_recursive (c : Cache) (es : List Ent) :
    extendAll (multiFlat false c es).1 = extendAll (multiRecursive false c (es.flatMap Ent.prims)).1 ∧
      (extentsOf false c es).1 = extendAll (multiRecursive false c (es.flatMap Ent.prims)).1 := by
  have h := extents_flat c es
  simp only [multiRecursive_plain, extendAll_filter]
  constructor
  · have : (extentsOf false c es).1 = extendAll (multiFlat false c es).1 := rfl
    rw [← this, h]
  · rw [h]

theorem mem_prim_boxes_of_subset (es es' : List Ent) (h : ∀ e ∈ es, e ∈ es') :
    ∀ q, q ∈ ((es.flatMap Ent.prims).map Prim.box).flatMap Box3.iter →
      q ∈ ((es'.flatMap Ent.prims).map Prim.box).flatMap Box3.iter := by
  intro q hq
  simp only [List.mem_flatMap, List.mem_map] at hq ⊢
  obtain ⟨b, ⟨pr, ⟨e, he, hpr⟩, rfl⟩, hqb⟩ := hq
  exact ⟨_, ⟨pr, ⟨e, h e he, hpr⟩, rfl⟩, hqb⟩

/-- adding entities never shrinks the extents -/
theorem extents_mono (c c' : Cache) (es es' : List Ent) (h : ∀ e ∈ es, e ∈ es') (q : V3)
    (hq : (extentsOf false c es).1.inside q = true) : (extentsOf false c' es').1.inside q = true := by
  rw [extents_flat, extendAll_eq] at hq ⊢
  simp only at hq ⊢
  rw [inside_extents_iff] at hq ⊢
  have hm := mem_prim_boxes_of_subset es es' h
  obtain ⟨⟨a1, b1, c1⟩, ⟨a2, b2, c2⟩, ⟨a3, b3, c3⟩, ⟨a4, b4, c4⟩, ⟨a5, b5, c5⟩, ⟨a6, b6, c6⟩⟩ := hq
  exact ⟨⟨a1, hm _ b1, c1⟩, ⟨a2, hm _ b2, c2⟩, ⟨a3, hm _ b3, c3⟩, ⟨a4, hm _ b4, c4⟩, ⟨a5, hm _ b5, c5⟩, ⟨a6, hm _ b6, c6⟩⟩

/-- the extents depend only on the SET of entities: order and repetitions are irrelevant -/
theorem extents_set (c c' : Cache) (es es' : List Ent) (h : ∀ e, e ∈ es ↔ e ∈ es') :
    (extentsOf false c es).1 = (extentsOf false c' es').1 := by
  rw [extents_flat, extents_flat, extendAll_eq, extendAll_eq]
  apply extents_congr
  intro q
  exact ⟨mem_prim_boxes_of_subset es es' (fun e he => (h e).mp he) q,
    mem_prim_boxes_of_subset es' es (fun e he => (h e).mpr he) q⟩

/-! ## nested_bbox -/

/-- the boxes of all leaves of the tree in world coordinates (any nesting depth) -/
def worldBoxes (sb : SegBoxes) (fast : Bool) (f : Forest) : List Box3 :=
  ((worldPaths f).filter (fun p => !p.isEmpty)).map (Path.box sb fast)

theorem prims_toEnts (repr : Aff → Bool) (sb : SegBoxes) (fast : Bool) (f : Forest) :
    (toEnts repr sb fast f).flatMap Ent.prims = primsOf repr sb fast f := by
  simp only [toEnts, primsOf, List.flatMap_map]
  rw [decompose_heads repr f]
  induction f.heads with
  | nil => rfl
  | cons h t ih => simp [List.filter_append, ih]

theorem primsOf_boxes (repr : Aff → Bool) (sb : SegBoxes) (fast : Bool) (f : Forest) (h : f.plainBlocks = true) :
    (primsOf repr sb fast f).map Prim.box = worldBoxes sb fast f := by
  simp only [primsOf, worldBoxes, List.map_map]
  rw [← topLeaves_paths, decompose_top repr f h]
  induction topLeaves f with
  | nil => rfl
  | cons l t ih =>
    simp only [List.filter_cons, List.map_cons]
    by_cases hl : l.path.isEmpty = true <;> simp [hl, ih]

/-- `extents` of an entity tree = the box of the boxes of all leaves, each under the composed transformation of
    its ancestors, at any nesting depth, whatever `repr` decides -/
theorem nested_bbox (repr : Aff → Bool) (sb : SegBoxes) (fast : Bool) (c : Cache) (f : Forest) (h : f.plainBlocks = true) :
    extentsOf false c (toEnts repr sb fast f) = (extendAll (worldBoxes sb fast f), c) := by
  rw [extents_flat, prims_toEnts, primsOf_boxes repr sb fast f h]

theorem extendAll_map_extents (ls : List (List V3)) : extendAll (ls.map extents3) = extents3 ls.flatten := by
  rw [extendAll_eq]
  induction ls with
  | nil => rfl
  | cons l t ih =>
    simp only [List.map_cons, List.flatMap_cons, List.flatten_cons]
    rw [(extents_append_iter _ _).2]
    exact extents_append_congr _ _ _ ih

/-- fast mode: the extents of a tree are exactly the box of all transformed control vertices -/
theorem nested_bbox_fast (sb : SegBoxes) (f : Forest) :
    extendAll (worldBoxes sb true f) = extents3 ((worldPaths f).flatMap Path.controlVertices) := by
  have : worldBoxes sb true f = (((worldPaths f).filter (fun p => !p.isEmpty)).map Path.controlVertices).map extents3 := by
    simp [worldBoxes, Path.box, List.map_map, Function.comp_def]
  rw [this, extendAll_map_extents]
  congr 1
  induction worldPaths f with
  | nil => rfl
  | cons p t ih =>
    by_cases hp : p.isEmpty = true
    · have : p.controlVertices = [] := by simp [Path.controlVertices, Path.isEmpty] at hp ⊢; simp [hp]
      simp [hp, this, ih, List.flatMap_cons]
    · simp only [Bool.not_eq_true] at hp
      simp [hp, List.flatMap_cons, ← ih, List.flatten_cons]

theorem mem_worldPaths (f : Forest) (tp : Aff × Path) (h : tp ∈ placements Aff.one f) : tp.2.map tp.1 ∈ worldPaths f :=
  List.mem_map.mpr ⟨tp, h, rfl⟩

/-- containment at any depth: the image of every point of every leaf under the composed transformation of its
    ancestors lies in the extents (fast mode; precise mode with sound segment boxes) -/
theorem nested_contains (repr : Aff → Bool) (sb : SegBoxes) (fast : Bool) (c : Cache)
    (f : Forest) (hs : fast = false → ∀ p ∈ worldPaths f, p.SoundOn sb) (h : f.plainBlocks = true) (tp : Aff × Path) (htp : tp ∈ placements Aff.one f) (q : V3)
    (hq : OnPath tp.2 q) : (extentsOf false c (toEnts repr sb fast f)).1.inside (tp.1.apply q) = true := by
  rw [nested_bbox repr sb fast c f h]
  have hon := onPath_map tp.1 tp.2 q hq
  have hne : (tp.2.map tp.1).isEmpty = false := by
    have := hon.1
    simp only [Path.isEmpty, List.isEmpty_eq_false_iff]
    exact this
  have hb : Path.box sb fast (tp.2.map tp.1) ∈ worldBoxes sb fast f := by
    simp only [worldBoxes, List.mem_map, List.mem_filter]
    exact ⟨_, ⟨mem_worldPaths f tp htp, by simp [hne]⟩, rfl⟩
  refine (extend_all_spec _).2 _ hb _ ?_
  cases fast with
  | true => simpa [Path.box] using fast_contains_path _ _ hon
  | false => simpa [Path.box] using precise_contains_path sb _ (hs rfl _ (mem_worldPaths f tp htp)) _ hon


/-! ## `ezdxf.path.tools.bbox` -/

theorem extend_box_iter (acc : Box3) (l : List V3) : acc.extend (extents3 l).iter = acc.extend l := by
  cases l with
  | nil => rfl
  | cons v t =>
    show extents3 ((extents3 (v :: t)).iter ++ acc.iter) = extents3 ((v :: t) ++ acc.iter)
    exact (extents_append_iter _ _).2

/-- `bbox(paths, fast)` = the box of the boxes of the paths -/
theorem pathsBBox_spec (sb : SegBoxes) (fast : Bool) (ps : List Path) :
    pathsBBox sb fast ps = extendAll (ps.map (Path.box sb fast)) := by
  unfold pathsBBox extendAll
  generalize Box3.empty = acc
  induction ps generalizing acc with
  | nil => rfl
  | cons p t ih =>
    simp only [List.foldl_cons, List.map_cons]
    rw [ih]
    congr 1
    cases fast with
    | true => simp only [Path.box, if_true]; exact (extend_box_iter acc _).symm
    | false =>
      simp only [Path.box, Bool.false_eq_true, if_false]
      cases h : p.preciseBBox sb with
      | empty => simp [Box3.hasData, Box3.iter, Box3.extend]
      | mk lo hi => simp [Box3.hasData]

/-! ## the cache only ever learns keys of real entities -/

theorem get_keys (c : Cache) (key : Option Nat) : (c.get key).2.keys = c.keys := by
  simp only [Cache.keys, get_boxes]

theorem store_keys (c : Cache) (key : Option Nat) (b : Box3) : ∀ k ∈ (c.store key b).keys, k ∈ c.keys ∨ key = some k := by
  intro k hk
  cases key with
  | none => exact Or.inl hk
  | some k' =>
    simp only [Cache.store, Cache.keys, List.map_cons, List.mem_cons, List.mem_map, List.mem_filter] at hk
    rcases hk with rfl | ⟨e, ⟨he, _⟩, rfl⟩
    · exact Or.inr rfl
    · exact Or.inl (List.mem_map.mpr ⟨e, he, rfl⟩)

theorem primStep_keys (uc : Bool) (c : Cache) (q : Prim) :
    ∀ k ∈ (primStep uc c q).2.keys, k ∈ c.keys ∨ q.key = some k := by
  intro k hk
  cases uc with
  | false => exact Or.inl (by simpa [primStep] using hk)
  | true =>
    simp only [primStep, if_true] at hk
    have hg := get_keys c q.key
    rcases hgq : c.get q.key with ⟨o, c'⟩
    rw [hgq] at hk hg
    cases o with
    | some b => simp only at hk hg; exact Or.inl (hg ▸ hk)
    | none =>
      simp only at hk hg
      split at hk
      · rcases store_keys c' q.key q.box k hk with h | h
        · exact Or.inl (hg ▸ h)
        · exact Or.inr h
      · exact Or.inl (hg ▸ hk)

theorem multiRecursive_keys (uc : Bool) (qs : List Prim) : ∀ c : Cache,
    ∀ k ∈ (multiRecursive uc c qs).2.keys, k ∈ c.keys ∨ ∃ q ∈ qs, q.key = some k := by
  induction qs with
  | nil => intro c k hk; exact Or.inl hk
  | cons q t ih =>
    intro c k hk
    simp only [multiRecursive] at hk
    rcases ih _ k hk with h | ⟨q', hq', hk'⟩
    · rcases primStep_keys uc c q k h with h | h
      · exact Or.inl h
      · exact Or.inr ⟨q, by simp, h⟩
    · exact Or.inr ⟨q', by simp [hq'], hk'⟩

theorem entStep_keys (uc : Bool) (c : Cache) (e : Ent) :
    ∀ k ∈ (entStep uc c e).2.keys, k ∈ c.keys ∨ e.key = some k ∨ ∃ q ∈ e.prims, q.key = some k := by
  intro k hk
  cases uc with
  | false =>
    simp only [entStep, Bool.false_eq_true, if_false] at hk
    rcases multiRecursive_keys false e.prims c k hk with h | h
    · exact Or.inl h
    · exact Or.inr (Or.inr h)
  | true =>
    simp only [entStep, if_true] at hk
    have hg := get_keys c e.key
    rcases hge : c.get e.key with ⟨o, c'⟩
    rw [hge] at hk hg
    cases o with
    | some b => simp only at hk hg; exact Or.inl (hg ▸ hk)
    | none =>
      simp only at hk hg
      rcases store_keys _ e.key _ k hk with h | h
      · rcases multiRecursive_keys true e.prims c' k h with h | h
        · exact Or.inl (hg ▸ h)
        · exact Or.inr (Or.inr h)
      · exact Or.inr (Or.inl h)

theorem multiFlat_keys (uc : Bool) (es : List Ent) : ∀ c : Cache,
    ∀ k ∈ (multiFlat uc c es).2.keys, k ∈ c.keys ∨ ∃ e ∈ es, e.key = some k ∨ ∃ q ∈ e.prims, q.key = some k := by
  induction es with
  | nil => intro c k hk; exact Or.inl hk
  | cons e t ih =>
    intro c k hk
    simp only [multiFlat] at hk
    rcases ih _ k hk with h | ⟨e', he', hk'⟩
    · rcases entStep_keys uc c e k h with h | h
      · exact Or.inl h
      · exact Or.inr ⟨e, by simp, h⟩
    · exact Or.inr ⟨e', by simp [he'], hk'⟩

theorem heads_keys (f : Forest) : ∀ h ∈ f.heads, ∀ k, h.headKey = some k → k ∈ f.handles := by
  induction f with
  | nil => intro h hh; simp [Forest.heads] at hh
  | leaf k p r ih =>
    intro h hh k' hk
    simp only [Forest.heads, List.mem_cons] at hh
    rcases hh with rfl | hh
    · simp only [Forest.headKey] at hk; simp [Forest.handles, hk]
    · simp only [Forest.handles, List.mem_append]; exact Or.inr (ih h hh k' hk)
  | insert k m a b r _ ih =>
    intro h hh k' hk
    simp only [Forest.heads, List.mem_cons] at hh
    rcases hh with rfl | hh
    · simp only [Forest.headKey] at hk; simp [Forest.handles, hk]
    · simp only [Forest.handles, List.mem_append]; exact Or.inr (ih h hh k' hk)

theorem heads_handles (f : Forest) : ∀ h ∈ f.heads, ∀ k ∈ h.handles, k ∈ f.handles := by
  induction f with
  | nil => intro h hh; simp [Forest.heads] at hh
  | leaf k p r ih =>
    intro h hh k' hk
    simp only [Forest.heads, List.mem_cons] at hh
    rcases hh with rfl | hh
    · simp only [Forest.handles, List.append_nil] at hk; simp [Forest.handles, hk]
    · simp only [Forest.handles, List.mem_append]; exact Or.inr (ih h hh k' hk)
  | insert k m a b r _ ih =>
    intro h hh k' hk
    simp only [Forest.heads, List.mem_cons] at hh
    rcases hh with rfl | hh
    · simp only [Forest.handles, List.append_nil] at hk
      simp only [Forest.handles, List.mem_append]; exact Or.inl (List.mem_append.mp hk)
    · simp only [Forest.handles, List.mem_append]; exact Or.inr (ih h hh k' hk)

theorem heads_plain (f : Forest) (hp : f.plainBlocks = true) : ∀ h ∈ f.heads, h.plainBlocks = true := by
  induction f with
  | nil => intro h hh; simp [Forest.heads] at hh
  | leaf k p r ih =>
    intro h hh
    simp only [Forest.heads, List.mem_cons] at hh
    rcases hh with rfl | hh
    · rfl
    · exact ih (by simpa [Forest.plainBlocks] using hp) h hh
  | insert k m a b r _ ih =>
    intro h hh
    simp only [Forest.plainBlocks, Bool.and_eq_true] at hp
    simp only [Forest.heads, List.mem_cons] at hh
    rcases hh with rfl | hh
    · simp [Forest.plainBlocks, hp.1]
    · exact ih hp.2 h hh

/-- Virtual entities are never cached: whatever the cache contained before and whatever the hit/miss pattern, after
    `multi_flat` over a tree every key in the cache is an old key or the handle of a real entity (a top-level entity or
    an ATTRIB attached to a top-level INSERT) -/
theorem tree_cache_keys (repr : Aff → Bool) (sb : SegBoxes) (fast uc : Bool) (c : Cache) (f : Forest)
    (hp : f.plainBlocks = true) :
    ∀ k ∈ (multiFlat uc c (toEnts repr sb fast f)).2.keys, k ∈ c.keys ∨ k ∈ f.handles := by
  intro k hk
  rcases multiFlat_keys uc _ c k hk with h | ⟨e, he, h⟩
  · exact Or.inl h
  · right
    simp only [toEnts, List.mem_map] at he
    obtain ⟨hd, hhd, rfl⟩ := he
    rcases h with h | ⟨q, hq, hqk⟩
    · exact heads_keys f hd hhd k h
    · simp only [primsOf, List.mem_map, List.mem_filter] at hq
      obtain ⟨l, ⟨hl, _⟩, rfl⟩ := hq
      rw [decompose_top repr hd (heads_plain f hp hd hhd)] at hl
      exact heads_handles f hd hhd k (topLeaves_keys hd l hl k hqk)


/-! ## coherence of the keys of a tree follows from "handles are unique" -/

def Functional (l : List (Nat × Box3)) : Prop := ∀ p ∈ l, ∀ p' ∈ l, p.1 = p'.1 → p.2 = p'.2

theorem truthOf_mem (es : List Ent) (h : Functional (keyBoxes es)) (k : Nat) (b : Box3) (hp : (k, b) ∈ keyBoxes es) :
    truthOf es k = b := by
  unfold truthOf
  cases hf : (keyBoxes es).find? (fun p => p.1 == k) with
  | none =>
    have := List.find?_eq_none.mp hf (k, b) hp
    simp at this
  | some p =>
    have hm := List.mem_of_find?_eq_some hf
    have hk := List.find?_some hf
    simp only [beq_iff_eq] at hk
    exact h p hm (k, b) hp hk

theorem coherent_of_functional (es : List Ent) (h : Functional (keyBoxes es)) : ∀ e ∈ es, e.Coherent (truthOf es) := by
  intro e he
  constructor
  · intro q hq k hk
    refine (truthOf_mem es h k q.box ?_).symm
    simp only [keyBoxes, List.mem_flatMap]
    refine ⟨e, he, ?_⟩
    simp only [entPairs, List.mem_append, List.mem_flatMap, List.mem_map]
    exact Or.inr ⟨q, hq, k, by simp [hk], rfl⟩
  · intro k hk
    refine (truthOf_mem es h k e.flatBox ?_).symm
    simp only [keyBoxes, List.mem_flatMap]
    refine ⟨e, he, ?_⟩
    simp only [entPairs, List.mem_append, List.mem_map]
    exact Or.inl ⟨k, by simp [hk], rfl⟩

theorem functional_append (a b : List (Nat × Box3)) (ha : Functional a) (hb : Functional b)
    (hd : ∀ p ∈ a, ∀ p' ∈ b, p.1 ≠ p'.1) : Functional (a ++ b) := by
  intro p hp p' hp' e
  rcases List.mem_append.mp hp with h | h <;> rcases List.mem_append.mp hp' with h' | h'
  · exact ha p h p' h' e
  · exact absurd e (hd p h p' h')
  · exact absurd e.symm (hd p' h' p h)
  · exact hb p h p' h' e

/-- distinct keys: two leaves of the list with the same key are the same leaf -/
theorem nodup_keys_inj (a : List Leaf) (hn : (a.flatMap (fun l => l.key.toList)).Nodup) :
    ∀ l ∈ a, ∀ l' ∈ a, ∀ k, l.key = some k → l'.key = some k → l = l' := by
  induction a with
  | nil => intro l hl; simp at hl
  | cons x xs ih =>
    simp only [List.flatMap_cons, List.nodup_append] at hn
    obtain ⟨_, hxs, hdis⟩ := hn
    intro l hl l' hl' k hk hk'
    have inx : ∀ y : Leaf, y ∈ xs → y.key = some k → k ∈ xs.flatMap (fun l => l.key.toList) := by
      intro y hy hyk
      exact List.mem_flatMap.mpr ⟨y, hy, by simp [hyk]⟩
    rcases List.mem_cons.mp hl with rfl | hlx <;> rcases List.mem_cons.mp hl' with rfl | hlx'
    · rfl
    · exact absurd rfl (hdis k (by simp [hk]) k (inx l' hlx' hk'))
    · exact absurd rfl (hdis k (by simp [hk']) k (inx l hlx hk))
    · exact ih hxs l hlx l' hlx' k hk hk'

theorem box_is_extents (sb : SegBoxes) (fast : Bool) (p : Path) : ∃ l, p.box sb fast = extents3 l := by
  cases fast with
  | true => exact ⟨p.controlVertices, by simp [Path.box]⟩
  | false =>
    simp only [Path.box, Bool.false_eq_true, if_false, Path.preciseBBox]
    split
    · exact ⟨[], rfl⟩
    · exact ⟨_, rfl⟩

theorem extendAll_single (l : List V3) : extendAll ([extents3 l].filter Box3.hasData) = extents3 l := by
  rw [extendAll_filter, extendAll_eq]
  simp only [List.flatMap_cons, List.flatMap_nil, List.append_nil]
  exact extents_iter_self _ (extents_wf l)

theorem primsOf_leaf (repr : Aff → Bool) (sb : SegBoxes) (fast : Bool) (k : Option Nat) (p : Path) :
    primsOf repr sb fast (.leaf k p .nil) = if p.isEmpty then [] else [⟨k, p.box sb fast⟩] := by
  simp only [primsOf, decompose_leaf, decompose_nil, List.filter_cons, List.filter_nil]
  by_cases h : p.isEmpty = true <;> simp [h]

/-- the (key, box) pairs of one top-level entity are functional if its handles are distinct -/
theorem functional_head (repr : Aff → Bool) (sb : SegBoxes) (fast : Bool) (h : Forest) (hh : h.heads = [h])
    (hp : h.plainBlocks = true) (hn : h.handles.Nodup) :
    Functional (entPairs ⟨h.headKey, primsOf repr sb fast h⟩) := by
  cases h with
  | nil => simp [Forest.heads] at hh
  | leaf k p r =>
    have hr : r = .nil := by
      cases r with
      | nil => rfl
      | leaf _ _ _ => simp [Forest.heads] at hh
      | insert _ _ _ _ _ => simp [Forest.heads] at hh
    subst hr
    obtain ⟨l, hl⟩ := box_is_extents sb fast p
    intro q hq q' hq' _
    have key : ∀ x ∈ entPairs ⟨(Forest.leaf k p .nil).headKey, primsOf repr sb fast (.leaf k p .nil)⟩, x.2 = (if p.isEmpty then Box3.empty else extents3 l) := by
      intro x hx
      simp only [entPairs, Forest.headKey, primsOf_leaf, Ent.flatBox, List.mem_append, List.mem_map, List.mem_flatMap] at hx
      by_cases hpe : p.isEmpty = true
      · simp only [hpe, if_true] at hx ⊢
        rcases hx with ⟨_, _, rfl⟩ | ⟨_, hx, _⟩
        · simp [extendAll]
        · simp at hx
      · simp only [hpe, if_false, Bool.false_eq_true] at hx ⊢
        rcases hx with ⟨_, _, rfl⟩ | ⟨qq, hqq, _, _, rfl⟩
        · simp only [List.map_cons, List.map_nil]; rw [hl]; exact extendAll_single l
        · simp only [List.mem_singleton] at hqq; subst hqq; exact hl
    rw [key q hq, key q' hq']
  | insert k m a b r =>
    have hr : r = .nil := by
      cases r with
      | nil => rfl
      | leaf _ _ _ => simp [Forest.heads] at hh
      | insert _ _ _ _ _ => simp [Forest.heads] at hh
    subst hr
    simp only [Forest.handles, List.append_nil, List.nodup_append] at hn
    obtain ⟨_, hna, hdis⟩ := hn
    -- the keyed primitives are exactly the keyed non-empty ATTRIBs
    have hprims : ∀ q ∈ primsOf repr sb fast (.insert k m a b .nil), ∀ k', q.key = some k' →
        ∃ l ∈ a, l.key = some k' ∧ q.box = l.path.box sb fast := by
      intro q hq k' hk'
      simp only [primsOf, List.mem_map, List.mem_filter] at hq
      obtain ⟨l, ⟨hl, _⟩, rfl⟩ := hq
      rw [decompose_top repr _ hp] at hl
      simp only [topLeaves, List.append_nil, List.mem_append, List.mem_map] at hl
      rcases hl with hl | ⟨tp, _, rfl⟩
      · exact ⟨l, hl, hk', rfl⟩
      · simp [vleaf] at hk'
    intro q hq q' hq' e
    simp only [entPairs, Forest.headKey, List.mem_append, List.mem_map, List.mem_flatMap] at hq hq'
    have ina : ∀ (l : Leaf) (k' : Nat), l ∈ a → l.key = some k' → k' ∈ a.flatMap (fun l => l.key.toList) :=
      fun l k' hl hk' => List.mem_flatMap.mpr ⟨l, hl, by simp [hk']⟩
    rcases hq with ⟨k1, hk1, rfl⟩ | ⟨q1, hq1, k1, hk1, rfl⟩ <;> rcases hq' with ⟨k2, hk2, rfl⟩ | ⟨q2, hq2, k2, hk2, rfl⟩
    · rfl
    · obtain ⟨l, hl, hlk, _⟩ := hprims q2 hq2 k2 (by simpa using hk2)
      simp only at e
      exact absurd e (hdis k1 hk1 k2 (ina l k2 hl hlk))
    · obtain ⟨l, hl, hlk, _⟩ := hprims q1 hq1 k1 (by simpa using hk1)
      simp only at e
      exact absurd e.symm (hdis k2 hk2 k1 (ina l k1 hl hlk))
    · obtain ⟨l1, hl1, hlk1, hb1⟩ := hprims q1 hq1 k1 (by simpa using hk1)
      obtain ⟨l2, hl2, hlk2, hb2⟩ := hprims q2 hq2 k2 (by simpa using hk2)
      simp only at e
      subst e
      have := nodup_keys_inj a hna l1 hl1 l2 hl2 k1 hlk1 hlk2
      subst this
      simp only [hb1, hb2]

/-- every key of the (key, box) pairs of a tree is the handle of a real entity -/
theorem keyBoxes_keys (repr : Aff → Bool) (sb : SegBoxes) (fast : Bool) (f : Forest) (hp : f.plainBlocks = true) :
    ∀ p ∈ keyBoxes (toEnts repr sb fast f), p.1 ∈ f.handles := by
  intro p hpm
  simp only [keyBoxes, toEnts, List.mem_flatMap, List.mem_map] at hpm
  obtain ⟨e, ⟨hd, hhd, rfl⟩, hpe⟩ := hpm
  simp only [entPairs, List.mem_append, List.mem_map, List.mem_flatMap] at hpe
  rcases hpe with ⟨k, hk, rfl⟩ | ⟨q, hq, k, hk, rfl⟩
  · exact heads_keys f hd hhd k (by simpa using hk)
  · simp only [primsOf, List.mem_map, List.mem_filter] at hq
    obtain ⟨l, ⟨hl, _⟩, rfl⟩ := hq
    rw [decompose_top repr hd (heads_plain f hp hd hhd)] at hl
    exact heads_handles f hd hhd k (topLeaves_keys hd l hl k (by simpa using hk))

theorem heads_single_leaf (k : Option Nat) (p : Path) : (Forest.leaf k p .nil).heads = [Forest.leaf k p .nil] := rfl
theorem heads_single_insert (k : Option Nat) (m : Aff) (a : List Leaf) (b : Forest) :
    (Forest.insert k m a b .nil).heads = [Forest.insert k m a b .nil] := rfl

/-- "handles are unique" makes the keys of a tree coherent -/
theorem functional_tree (repr : Aff → Bool) (sb : SegBoxes) (fast : Bool) (f : Forest) (hp : f.plainBlocks = true)
    (hn : f.handles.Nodup) : Functional (keyBoxes (toEnts repr sb fast f)) := by
  induction f with
  | nil => intro p hpm; simp [keyBoxes, toEnts, Forest.heads] at hpm
  | leaf k p r ih =>
    have hpr : r.plainBlocks = true := by simpa [Forest.plainBlocks] using hp
    simp only [Forest.handles, List.nodup_append] at hn
    obtain ⟨hnk, hnr, hdis⟩ := hn
    have e : keyBoxes (toEnts repr sb fast (.leaf k p r)) =
        entPairs ⟨(Forest.leaf k p .nil).headKey, primsOf repr sb fast (.leaf k p .nil)⟩ ++ keyBoxes (toEnts repr sb fast r) := by
      simp [keyBoxes, toEnts, Forest.heads]
    rw [e]
    refine functional_append _ _ (functional_head repr sb fast _ (heads_single_leaf k p) rfl
      (by simpa [Forest.handles] using hnk)) (ih hpr hnr) ?_
    intro x hx x' hx'
    have h1 := keyBoxes_keys repr sb fast (.leaf k p .nil) rfl x (by simpa [keyBoxes, toEnts, Forest.heads] using hx)
    have h2 := keyBoxes_keys repr sb fast r hpr x' hx'
    simp only [Forest.handles, List.append_nil] at h1
    exact hdis x.1 h1 x'.1 h2
  | insert k m a b r _ ih =>
    simp only [Forest.plainBlocks, Bool.and_eq_true] at hp
    have hn' := hn
    simp only [Forest.handles, List.nodup_append] at hn
    obtain ⟨hnh, hnr, hdis⟩ := hn
    have hph : (Forest.insert k m a b .nil).plainBlocks = true := by simp [Forest.plainBlocks, hp.1]
    have e : keyBoxes (toEnts repr sb fast (.insert k m a b r)) =
        entPairs ⟨(Forest.insert k m a b .nil).headKey, primsOf repr sb fast (.insert k m a b .nil)⟩ ++ keyBoxes (toEnts repr sb fast r) := by
      simp [keyBoxes, toEnts, Forest.heads]
    rw [e]
    refine functional_append _ _ (functional_head repr sb fast _ (heads_single_insert k m a b) hph
      (by simpa [Forest.handles, List.nodup_append] using hnh)) (ih hp.2 hnr) ?_
    intro x hx x' hx'
    have h1 := keyBoxes_keys repr sb fast (.insert k m a b .nil) hph x (by simpa [keyBoxes, toEnts, Forest.heads] using hx)
    have h2 := keyBoxes_keys repr sb fast r hp.2 x' hx'
    simp only [Forest.handles, List.append_nil] at h1
    exact hdis x.1 h1 x'.1 h2


/-! ## INSERT matrix, MINSERT grids -/

theorem insertAff_apply (base scale ins : V3) (co si : Rat) (p : V3) :
    (insertAff base scale ins co si).apply p =
      ⟨co * (scale.x * (p.x - base.x)) - si * (scale.y * (p.y - base.y)) + ins.x,
       si * (scale.x * (p.x - base.x)) + co * (scale.y * (p.y - base.y)) + ins.y,
       scale.z * (p.z - base.z) + ins.z⟩ := by
  simp only [insertAff, Aff.apply, V3.mk.injEq]
  refine ⟨by ring, by ring, by ring⟩

theorem gridAff_apply (m : Aff) (co si ox oy : Rat) (p : V3) :
    (gridAff m co si ox oy).apply p =
      ⟨(m.apply p).x + (co * ox - si * oy), (m.apply p).y + (si * ox + co * oy), (m.apply p).z⟩ := by
  simp only [gridAff, Aff.apply, V3.mk.injEq]
  refine ⟨by ring, by ring, trivial⟩

theorem placements_append (acc : Aff) (f g : Forest) : placements acc (f.append g) = placements acc f ++ placements acc g := by
  induction f generalizing acc with
  | nil => simp [Forest.append, placements]
  | leaf k p r ih => simp [Forest.append, placements, ih]
  | insert k m a b r _ ih => simp [Forest.append, placements, ih]

theorem placements_row (acc m : Aff) (co si cs : Rat) (oy : Rat) (block : Forest) (cols : List Nat) :
    placements acc (cols.foldr (fun (c : Nat) a => Forest.insert none (gridAff m co si ((c : Rat) * cs) oy) [] block a) .nil) =
      cols.flatMap (fun (c : Nat) => placements (acc.comp (gridAff m co si ((c : Rat) * cs) oy)) block) := by
  induction cols with
  | nil => rfl
  | cons c t ih => simp [placements, ih]

/-- the leaves of a MINSERT grid: the block content once per cell (rows outside, columns inside), each under the
    matrix of the INSERT moved by the rotated, unscaled cell offset -/
theorem placements_gridCells (acc m : Aff) (co si cs rs : Rat) (cols : Nat) (block : Forest) (rows : Nat) :
    placements acc (gridCells m co si cs rs cols block rows) =
      (List.range rows).flatMap (fun (r : Nat) => (List.range cols).flatMap (fun (c : Nat) =>
        placements (acc.comp (gridAff m co si ((c : Rat) * cs) ((r : Rat) * rs))) block)) := by
  induction rows with
  | zero => rfl
  | succ r ih =>
    simp only [gridCells, placements_append, ih, placements_row, List.range_succ, List.flatMap_append, List.flatMap_cons,
      List.flatMap_nil, List.append_nil]

/-- a MINSERT contributes exactly the leaves of its grid cells (the wrapper of the model is transparent) -/
theorem placements_minsert (key : Option Nat) (m : Aff) (co si cs rs : Rat) (cols rows : Nat) (block rest : Forest) :
    placements Aff.one (minsert key m co si cs rs cols rows block rest) =
      (List.range rows).flatMap (fun (r : Nat) => (List.range cols).flatMap (fun (c : Nat) =>
        placements (gridAff m co si ((c : Rat) * cs) ((r : Rat) * rs)) block)) ++ placements Aff.one rest := by
  simp only [minsert, placements, List.map_nil, List.nil_append, Aff.one_comp, placements_gridCells]

theorem gridCells_noAtts (m : Aff) (co si cs rs : Rat) (cols : Nat) (block : Forest) (hb : block.noAtts = true) (rows : Nat) :
    (gridCells m co si cs rs cols block rows).noAtts = true := by
  have append_noAtts : ∀ f g : Forest, f.noAtts = true → g.noAtts = true → (f.append g).noAtts = true := by
    intro f g hf hg
    induction f with
    | nil => simpa [Forest.append] using hg
    | leaf k p r ih => simp only [Forest.append, Forest.noAtts] at hf ⊢; exact ih hf
    | insert k m a b r _ ih =>
      simp only [Forest.append, Forest.noAtts, Bool.and_eq_true] at hf ⊢
      exact ⟨hf.1, ih hf.2⟩
  have row : ∀ (oy : Rat) (l : List Nat),
      (l.foldr (fun (c : Nat) a => Forest.insert none (gridAff m co si ((c : Rat) * cs) oy) [] block a) .nil).noAtts = true := by
    intro oy l
    induction l with
    | nil => rfl
    | cons c t ih => simp [Forest.noAtts, hb, ih]
  induction rows with
  | zero => rfl
  | succ r ih => exact append_noAtts _ _ ih (row _ _)

theorem minsert_plainBlocks (key : Option Nat) (m : Aff) (co si cs rs : Rat) (cols rows : Nat) (block rest : Forest)
    (hb : block.noAtts = true) (hr : rest.plainBlocks = true) :
    (minsert key m co si cs rs cols rows block rest).plainBlocks = true := by
  simp [minsert, Forest.plainBlocks, gridCells_noAtts m co si cs rs cols block hb rows, hr]


/-! ## `Cache.invalidate` -/

/-- the loop visits every entity: the result only depends on the SET of invalidated keys -/
theorem invalidate_boxes (ks : List (Option Nat)) : ∀ c : Cache,
    (c.invalidate ks).boxes = c.boxes.filter (fun e => !(ks.contains (some e.1))) ∧
      (c.invalidate ks).hits = c.hits ∧ (c.invalidate ks).misses = c.misses := by
  induction ks with
  | nil => intro c; simp [Cache.invalidate]
  | cons k t ih =>
    intro c
    cases k with
    | none =>
      have := ih c
      simp only [Cache.invalidate, List.foldl_cons] at this ⊢
      refine ⟨?_, this.2⟩
      rw [this.1]
      apply List.filter_congr
      intro e _
      simp
    | some k =>
      have := ih { c with boxes := c.boxes.filter (fun e => !(e.1 == k)) }
      simp only [Cache.invalidate, List.foldl_cons] at this ⊢
      refine ⟨?_, this.2⟩
      rw [this.1, List.filter_filter]
      apply List.filter_congr
      intro e _
      by_cases h : e.1 = k
      · simp [h]
      · simp [h]

/-- after the entities whose boxes changed have been invalidated (together with any other entities, cached or not, in
    any order), the cache satisfies the invariant for the NEW boxes -/
theorem invalidate_inv (truth truth' : Nat → Box3) (c : Cache) (ks : List (Option Nat)) (hc : c.Inv truth)
    (hch : ∀ k, truth k ≠ truth' k → some k ∈ ks) : (c.invalidate ks).Inv truth' := by
  intro e he
  rw [(invalidate_boxes ks c).1, List.mem_filter] at he
  obtain ⟨hm, hn⟩ := he
  have hnot : some e.1 ∉ ks := by simpa using hn
  have : truth e.1 = truth' e.1 := by
    by_contra hne
    exact hnot (hch e.1 hne)
  rw [hc e hm, this]


/-! ## collapsed control points: the curve is its chord -/

theorem collapsed_cubic_on_chord (s e : V3) (t : Rat) (h0 : 0 ≤ t) (h1 : t ≤ 1) :
    bezier4V s s e e t = segPoint s (.lineTo e) (3 * t ^ 2 - 2 * t ^ 3) ∧ 0 ≤ 3 * t ^ 2 - 2 * t ^ 3 ∧ 3 * t ^ 2 - 2 * t ^ 3 ≤ 1 := by
  refine ⟨?_, ?_, ?_⟩
  · simp only [bezier4V, bezier4, segPoint, V3.mk.injEq]; refine ⟨by ring, by ring, by ring⟩
  · have : 3 * t ^ 2 - 2 * t ^ 3 = t ^ 2 * (3 - 2 * t) := by ring
    rw [this]; exact mul_nonneg (by positivity) (by linarith)
  · have : 1 - (3 * t ^ 2 - 2 * t ^ 3) = (1 - t) ^ 2 * (1 + 2 * t) := by ring
    have h : 0 ≤ (1 - t) ^ 2 * (1 + 2 * t) := mul_nonneg (by positivity) (by linarith)
    linarith

theorem collapsed_quadratic_on_chord (s e : V3) (t : Rat) (h0 : 0 ≤ t) (h1 : t ≤ 1) :
    (bezier3V s s e t = segPoint s (.lineTo e) (t ^ 2) ∧ 0 ≤ t ^ 2 ∧ t ^ 2 ≤ 1) ∧
    (bezier3V s e e t = segPoint s (.lineTo e) (2 * t - t ^ 2) ∧ 0 ≤ 2 * t - t ^ 2 ∧ 2 * t - t ^ 2 ≤ 1) := by
  refine ⟨⟨?_, by positivity, by nlinarith⟩, ⟨?_, by nlinarith, by nlinarith⟩⟩
  · simp only [bezier3V, bezier3, segPoint, V3.mk.injEq]; refine ⟨by ring, by ring, by ring⟩
  · simp only [bezier3V, bezier3, segPoint, V3.mk.injEq]; refine ⟨by ring, by ring, by ring⟩

/-- one round of `add_bezier4p` keeps the geometry: every point of the cubic curve is a point of one of the segments the
    round appends (pen position tracked) -/
theorem addBezier4Step_geometry (near same : V3 → V3 → Bool) (hnear : ∀ a b, near a b = true → a = b)
    (hsame : ∀ a b, same a b = true → a = b) (pen s c1 c2 e : V3) (t : Rat) (h0 : 0 ≤ t) (h1 : t ≤ 1) :
    ∃ sc ∈ segsFrom pen (addBezier4Step near same pen s c1 c2 e), ∃ u : Rat, 0 ≤ u ∧ u ≤ 1 ∧
      bezier4V s c1 c2 e t = segPoint sc.1 sc.2 u := by
  by_cases hl : (same s c1 && same e c2) = true
  · have hl' := hl
    simp only [Bool.and_eq_true] at hl'
    have e1 := hsame s c1 hl'.1
    have e2 := hsame e c2 hl'.2
    subst e1; subst e2
    obtain ⟨hc, u0, u1⟩ := collapsed_cubic_on_chord s e t h0 h1
    by_cases hn : near s pen = true
    · have := hnear s pen hn; subst this
      exact ⟨(s, .lineTo e), by simp [addBezier4Step, hn, hl, segsFrom], _, u0, u1, hc⟩
    · exact ⟨(s, .lineTo e), by simp [addBezier4Step, hn, hl, segsFrom, Cmd.endPoint], _, u0, u1, hc⟩
  · by_cases hn : near s pen = true
    · have := hnear s pen hn; subst this
      exact ⟨(s, .curve4To c1 c2 e), by simp [addBezier4Step, hn, hl, segsFrom], t, h0, h1, rfl⟩
    · exact ⟨(s, .curve4To c1 c2 e), by simp [addBezier4Step, hn, hl, segsFrom, Cmd.endPoint], t, h0, h1, rfl⟩

theorem addBezier3Step_geometry (near same : V3 → V3 → Bool) (hnear : ∀ a b, near a b = true → a = b)
    (hsame : ∀ a b, same a b = true → a = b) (pen s c e : V3) (t : Rat) (h0 : 0 ≤ t) (h1 : t ≤ 1) :
    ∃ sc ∈ segsFrom pen (addBezier3Step near same pen s c e), ∃ u : Rat, 0 ≤ u ∧ u ≤ 1 ∧
      bezier3V s c e t = segPoint sc.1 sc.2 u := by
  obtain ⟨⟨q1, a0, a1⟩, ⟨q2, b0, b1⟩⟩ := collapsed_quadratic_on_chord s e t h0 h1
  have key : ∀ cmd : Cmd, (s, cmd) ∈ segsFrom pen ((if near s pen = true then [] else [Cmd.lineTo s]) ++ [cmd]) := by
    intro cmd
    by_cases hn : near s pen = true
    · have := hnear s pen hn; subst this; simp [hn, segsFrom]
    · simp [hn, segsFrom, Cmd.endPoint]
  by_cases hl : (same s c || same e c) = true
  · have hmem : (s, Cmd.lineTo e) ∈ segsFrom pen (addBezier3Step near same pen s c e) := by
      simpa [addBezier3Step, hl] using key (.lineTo e)
    simp only [Bool.or_eq_true] at hl
    rcases hl with h | h
    · have := hsame s c h; subst this
      exact ⟨_, hmem, _, a0, a1, q1⟩
    · have := hsame e c h; subst this
      exact ⟨_, hmem, _, b0, b1, q2⟩
  · have hmem : (s, Cmd.curve3To c e) ∈ segsFrom pen (addBezier3Step near same pen s c e) := by
      simpa [addBezier3Step, hl] using key (.curve3To c e)
    exact ⟨_, hmem, t, h0, h1, rfl⟩

end EzdxfVerif.BBox.Lemmas

/-
Lemmas for the single-fault clause of C07 on the front-end model: `group_tags` is LOCAL - the entity groups of a tag
stream that is a concatenation of well-formed groups are exactly those groups, so whatever happens to the tags of one
entity (value / code edits, dropped, duplicated, inserted, swapped tags, a lost or an additional (0, ..) tag) leaves
the groups of all other entities untouched.  Counted statements are re-exported from Props/C07.lean.
-/
import EzdxfVerif.Model.Recover
namespace EzdxfVerif.Lemmas.RecoverFault
open EzdxfVerif.Recover EzdxfVerif.Gen.RecoverTables

/-- a tag group as `group_tags(tags, 0)` produces it: a code-0 tag followed by tags with other codes -/
def WFGroup (g : List CTag) : Prop := ∃ h tl, g = h :: tl ∧ h.code = 0 ∧ ∀ x ∈ tl, x.code ≠ 0

theorem groupGo_nozero (tl : List CTag) (h0 : ∀ x ∈ tl, x.code ≠ 0) :
    ∀ (c rest : List CTag), groupGo (some c) (tl ++ rest) = groupGo (some (tl.reverse ++ c)) rest := by
  induction tl with
  | nil => intro c rest; rfl
  | cons t r ih =>
    intro c rest
    have ht : (t.code == 0) = false := by simpa using h0 t (by simp)
    have : groupGo (some c) (t :: r ++ rest) = groupGo (some (t :: c)) (r ++ rest) := by
      simp only [List.cons_append]
      conv => lhs; unfold groupGo
      simp [ht]
    rw [this, ih (fun x hx => h0 x (by simp [hx])) (t :: c) rest]
    simp

theorem groupGo_flatten (es : List (List CTag)) (hes : ∀ g ∈ es, WFGroup g) :
    ∀ c : List CTag, groupGo (some c) es.flatten = c.reverse :: es := by
  induction es with
  | nil => intro c; simp [groupGo]
  | cons g r ih =>
    intro c
    obtain ⟨h, tl, rfl, h0, htl⟩ := hes g (by simp)
    have hh : (h.code == 0) = true := by simp [h0]
    have : groupGo (some c) ((h :: tl) :: r).flatten = [c.reverse] ++ groupGo (some [h]) (tl ++ r.flatten) := by
      simp only [List.flatten_cons, List.cons_append]
      conv => lhs; unfold groupGo
      simp [hh]
    rw [this, groupGo_nozero tl htl [h] r.flatten, ih (fun x hx => hes x (by simp [hx]))]
    simp

/-- `group_tags` of a section made of well-formed groups: the section head and exactly those groups, whatever the
    head carries behind its two tags (`junk`: the tail of a first entity that lost its (0, ..) tag) -/
theorem groupTags_section (s n : CTag) (hs : s.code = 0) (hn : n.code ≠ 0) (junk : List CTag)
    (hj : ∀ x ∈ junk, x.code ≠ 0) (es : List (List CTag)) (hes : ∀ g ∈ es, WFGroup g) :
    groupTags (s :: n :: (junk ++ es.flatten)) = (s :: n :: junk) :: es := by
  have h := groupGo_flatten (((s :: n :: junk)) :: es) (by
    intro g hg
    rcases List.mem_cons.1 hg with h | h
    · rw [h]
      refine ⟨s, n :: junk, rfl, hs, ?_⟩
      intro x hx
      rcases List.mem_cons.1 hx with h1 | h1
      · rw [h1]; exact hn
      · exact hj x h1
    · exact hes g h) []
  -- groupGo (some []) emits an empty first group; compare with groupGo none
  unfold groupTags
  have hs' : (s.code == 0) = true := by simp [hs]
  have e1 : groupGo none (s :: n :: (junk ++ es.flatten)) = groupGo (some [s]) (n :: (junk ++ es.flatten)) := by
    conv => lhs; unfold groupGo
    simp [hs']
  have e2 : groupGo (some []) (((s :: n :: junk)) :: es).flatten
      = [[]] ++ groupGo (some [s]) (n :: (junk ++ es.flatten)) := by
    simp only [List.flatten_cons, List.cons_append]
    conv => lhs; unfold groupGo
    simp [hs']
  rw [e1]
  rw [e2] at h
  simpa using h

/-- `check_entities` works group by group -/
theorem checkEntities_append (r12 : Bool) (xs ys gs : List (List CTag)) (h : checkEntities r12 (xs ++ ys) = .ok gs) :
    ∃ gx gy, gs = gx ++ gy ∧ checkEntities r12 xs = .ok gx ∧ checkEntities r12 ys = .ok gy := by
  induction xs generalizing gs with
  | nil => exact ⟨[], gs, rfl, rfl, h⟩
  | cons x r ih =>
    simp only [List.cons_append] at h
    unfold checkEntities at h
    split at h
    · simp at h
    · next x' hx' =>
      split at h
      · simp at h
      · next r' hr' =>
        simp only [Except.ok.injEq] at h
        obtain ⟨gx, gy, e, h1, h2⟩ := ih r' hr'
        refine ⟨x' :: gx, gy, by rw [← h, e]; rfl, ?_, h2⟩
        unfold checkEntities
        rw [hx', h1]

theorem checkEntities_length (r12 : Bool) : ∀ xs gs : List (List CTag), checkEntities r12 xs = .ok gs → gs.length = xs.length := by
  intro xs
  induction xs with
  | nil => intro gs h; simp only [checkEntities, Except.ok.injEq] at h; rw [← h]
  | cons x r ih =>
    intro gs h
    unfold checkEntities at h
    split at h
    · simp at h
    · split at h
      · simp at h
      · next r' hr' =>
        simp only [Except.ok.injEq] at h
        rw [← h]; simp [ih r' hr']

/-! ### the detected DXF version does not depend on the body of the ENTITIES section -/

def tSection : CTag := ⟨0, .str sSection⟩
def tEndsec : CTag := ⟨0, .str sEndsec⟩
def tEntName : CTag := ⟨2, .str sEntities⟩
def isStruct (t : CTag) : Bool :=
  t.code == 0 && (t.val == .str sSection || t.val == .str sEndsec || t.val == .str sEof)

theorem step_nonstruct (s : RS) (t : CTag) (h : isStruct t = false) : s.step t = s.collect t := by
  unfold RS.step
  unfold isStruct at h
  by_cases hc : (t.code == 0) = true
  · simp only [hc, Bool.true_and, Bool.or_eq_false_iff] at h
    simp [hc, h.1.1, h.1.2, h.2]
  · simp [hc]

theorem fold_inside (body : List CTag) (hb : ∀ x ∈ body, isStruct x = false) :
    ∀ s : RS, s.inside = true → body.foldl RS.step s = { s with collector := body.reverse ++ s.collector } := by
  induction body with
  | nil => intro s _; simp
  | cons t r ih =>
    intro s hs
    have ht := hb t (by simp)
    rw [List.foldl_cons, step_nonstruct s t ht]
    have : s.collect t = { s with collector := t :: s.collector } := by simp [RS.collect, hs]
    rw [this, ih (fun x hx => hb x (by simp [hx])) { s with collector := t :: s.collector } (by simpa using hs)]
    simp

def Inv (s : RS) : Prop := s.inside = false → s.collector = []

theorem step_inv (s : RS) (t : CTag) (h : Inv s) : Inv (s.step t) := by
  unfold RS.step RS.close RS.collect Inv at *
  repeat' split
  all_goals simp_all

theorem fold_inv (l : List CTag) : ∀ s : RS, Inv s → Inv (l.foldl RS.step s) := by
  induction l with
  | nil => intro s h; exact h
  | cons t r ih => intro s h; exact ih _ (step_inv s t h)

/-- the sections already closed are a frame: `rebuild_sections` only ever pushes on top of them -/
def withBase (s : RS) (X : List (List CTag)) : RS := { s with sections := s.sections ++ X }

theorem step_frame (s : RS) (X : List (List CTag)) (t : CTag) : (withBase s X).step t = withBase (s.step t) X := by
  unfold RS.step RS.close RS.collect withBase
  repeat' split
  all_goals simp_all

theorem fold_frame (l : List CTag) (X : List (List CTag)) : ∀ s : RS,
    l.foldl RS.step (withBase s X) = withBase (l.foldl RS.step s) X := by
  induction l with
  | nil => intro s; rfl
  | cons t r ih => intro s; rw [List.foldl_cons, step_frame, ih, List.foldl_cons]

def beforeOf (a : List CTag) : List (List CTag) :=
  let sa := a.foldl RS.step RS.init
  (if sa.inside then sa.collector.reverse :: sa.sections else sa.sections).reverse

def restState (a t : List CTag) : RS := t.foldl RS.step ⟨[], [], false, (a.foldl RS.step RS.init).orphans⟩

/-- `rebuild_sections` of  a ++ SECTION (2,ENTITIES) body ENDSEC ++ t : everything but the ENTITIES section itself is a
    function of `a` and `t` alone -/
theorem rebuild_frame (a body t : List CTag) (hb : ∀ x ∈ body, isStruct x = false) :
    rebuildSections (a ++ tSection :: tEntName :: body ++ tEndsec :: t)
      = beforeOf a ++ (tSection :: tEntName :: body) :: (restState a t).sections.reverse ++ [(restState a t).orphans.reverse] := by
  have ainv := fold_inv a RS.init (by intro _; rfl)
  unfold beforeOf restState
  generalize hsa : a.foldl RS.step RS.init = sa at ainv
  let s1 : RS := { sections := if sa.inside then sa.collector.reverse :: sa.sections else sa.sections,
                   collector := [tSection], inside := true, orphans := sa.orphans }
  have hs1 : sa.step tSection = s1 := by
    unfold RS.step RS.close
    cases hi : sa.inside
    · have := ainv hi
      simp [tSection, s1, hi, this]
    · simp [tSection, s1, hi]
  have hs2 : (tEntName :: body).foldl RS.step s1 = { s1 with collector := (tEntName :: body).reverse ++ [tSection] } :=
    fold_inside (tEntName :: body)
      (by intro x hx
          rcases List.mem_cons.1 hx with h | h
          · subst h; rfl
          · exact hb x h) s1 rfl
  let s3 : RS := { sections := (tSection :: tEntName :: body) :: s1.sections, collector := [], inside := false,
                   orphans := sa.orphans }
  have hs3 : RS.step { s1 with collector := (tEntName :: body).reverse ++ [tSection] } tEndsec = s3 := by
    simp [RS.step, RS.close, tEndsec, s3, s1, sSection, sEndsec]
  have hfold : (a ++ tSection :: tEntName :: body ++ tEndsec :: t).foldl RS.step RS.init = t.foldl RS.step s3 := by
    have : a ++ tSection :: tEntName :: body ++ tEndsec :: t = a ++ (tSection :: ((tEntName :: body) ++ (tEndsec :: t))) := by simp
    rw [this, List.foldl_append, hsa, List.foldl_cons, hs1, List.foldl_append, hs2, List.foldl_cons, hs3]
  have hbase : s3 = withBase ⟨[], [], false, sa.orphans⟩ ((tSection :: tEntName :: body) :: s1.sections) := by
    simp [s3, withBase]
  unfold rebuildSections RS.finish
  rw [hfold, hbase, fold_frame]
  simp [withBase, s1]

abbrev hdrOf (d : RawDict) : Option (List CTag) := (d.find? (fun e => e.1 == sHeader)).map (·.2)

/-- same keys in the same order, same HEADER entry -/
def Same (d d' : RawDict) : Prop := d.map (·.1) = d'.map (·.1) ∧ hdrOf d = hdrOf d'

theorem any_keys (d : RawDict) (name : Str) : d.any (fun e => e.1 == name) = (d.map (·.1)).any (· == name) := by
  induction d with
  | nil => rfl
  | cons e r ih => simp [ih]

theorem find_map_comm (p : Str × List CTag → Bool) (f : Str × List CTag → Str × List CTag) (hk : ∀ e, p (f e) = p e) :
    ∀ d : RawDict, (d.map f).find? p = (d.find? p).map f := by
  intro d
  induction d with
  | nil => rfl
  | cons e r ih =>
    simp only [List.map_cons, List.find?_cons, hk]
    cases p e
    · simpa using ih
    · rfl

theorem find_append' (p : Str × List CTag → Bool) (d : RawDict) (x : Str × List CTag) :
    (d ++ [x]).find? p = (d.find? p).or (if p x then some x else none) := by
  induction d with
  | nil => simp [List.find?_cons]; cases p x <;> rfl
  | cons e r ih =>
    simp only [List.cons_append, List.find?_cons]
    cases p e
    · simpa using ih
    · rfl

theorem hdr_map (g : List CTag → List CTag) (d : RawDict) :
    hdrOf (d.map (fun e => if e.1 == sHeader then (e.1, g e.2) else e)) = (hdrOf d).map g := by
  unfold hdrOf
  rw [find_map_comm (fun e => e.1 == sHeader) (fun e => if e.1 == sHeader then (e.1, g e.2) else e)
    (by intro e; show ((if e.1 == sHeader then (e.1, g e.2) else e).1 == sHeader) = (e.1 == sHeader); split <;> rfl)]
  cases h : d.find? (fun e => e.1 == sHeader) with
  | none => rfl
  | some e =>
    have he : (e.1 == sHeader) = true := by have := List.find?_some h; exact this
    have he' : e.1 = sHeader := eq_of_beq he
    simp [he']

theorem hdr_map_other (name : Str) (hn : (name == sHeader) = false) (g : List CTag → List CTag) (d : RawDict) :
    hdrOf (d.map (fun e => if e.1 == name then (e.1, g e.2) else e)) = hdrOf d := by
  unfold hdrOf
  rw [find_map_comm (fun e => e.1 == sHeader) (fun e => if e.1 == name then (e.1, g e.2) else e)
    (by intro e; show ((if e.1 == name then (e.1, g e.2) else e).1 == sHeader) = (e.1 == sHeader); split <;> rfl)]
  cases h : d.find? (fun e => e.1 == sHeader) with
  | none => rfl
  | some e =>
    have he : (e.1 == sHeader) = true := by have := List.find?_some h; exact this
    have hne : (e.1 == name) = false := by
      cases hx : e.1 == name
      · rfl
      · have h1 := eq_of_beq hx
        have h2 := eq_of_beq he
        rw [← h1, h2] at hn
        simp at hn
    have hne' : ¬ e.1 = name := by simpa using hne
    simp [hne']

theorem hdr_append (d : RawDict) (name : Str) (sec : List CTag) :
    hdrOf (d ++ [(name, sec)]) = (hdrOf d).or (if name == sHeader then some sec else none) := by
  unfold hdrOf
  rw [find_append']
  cases d.find? (fun e => e.1 == sHeader) with
  | some e => rfl
  | none => simp only [Option.none_or]; split <;> rfl

theorem addSection_same (d d' : RawDict) (name : Str) (sec sec' : List CTag)
    (hs : (name == sHeader) = true → sec = sec') (h : Same d d') :
    Same (addSection d name sec) (addSection d' name sec') := by
  obtain ⟨hk, hh⟩ := h
  have hany : d.any (fun e => e.1 == name) = d'.any (fun e => e.1 == name) := by
    rw [any_keys, any_keys, hk]
  unfold addSection
  rw [← hany]
  cases hp : d.any (fun e => e.1 == name)
  · -- new key
    simp only [Bool.false_eq_true, if_false]
    refine ⟨by simp [hk], ?_⟩
    rw [hdr_append, hdr_append, hh]
    cases hn : name == sHeader
    · rfl
    · rw [hs hn]
  · simp only [if_true]
    refine ⟨?_, ?_⟩
    · have e1 : ∀ (x : RawDict) (sc : List CTag), (x.map (fun e => if e.1 == name then (e.1, e.2 ++ sc.drop 2) else e)).map (·.1)
          = x.map (·.1) := by
        intro x sc
        rw [List.map_map]
        apply List.map_congr_left
        intro e _
        simp only [Function.comp]
        split <;> rfl
      rw [e1, e1, hk]
    · cases hn : name == sHeader
      · rw [hdr_map_other name hn (· ++ sec.drop 2), hdr_map_other name hn (· ++ sec'.drop 2)]
        exact hh
      · have hname := eq_of_beq hn
        have hsec := hs hn
        subst hname
        subst hsec
        rw [hdr_map (· ++ sec.drop 2), hdr_map (· ++ sec.drop 2), hh]

/-- two sections at the same position: identical, or both an ENTITIES section -/
def SecRel (s s' : List CTag) : Prop := s = s' ∨ ∃ b b', s = tSection :: tEntName :: b ∧ s' = tSection :: tEntName :: b'

theorem collectStep_same (cfg : Cfg) (d d' r r' : RawDict) (sec sec' : List CTag) (hrel : SecRel sec sec')
    (h : Same d d') (h1 : collectStep cfg d sec = .ok r) (h2 : collectStep cfg d' sec' = .ok r') : Same r r' := by
  rcases hrel with rfl | ⟨b, b', rfl, rfl⟩
  · cases sec with
    | nil =>
      simp only [collectStep] at h1 h2
      by_cases hf : cfg.fixSection = true
      · simp only [hf, if_true, Except.ok.injEq] at h1 h2
        rw [← h1, ← h2]; exact h
      · simp [hf] at h1
    | cons t0 rest =>
      cases rest with
      | nil =>
        simp only [collectStep] at h1 h2
        by_cases hf : cfg.fixSection = true
        · simp only [hf, if_true, Except.ok.injEq] at h1 h2
          rw [← h1, ← h2]; exact h
        · simp [hf] at h1
      | cons t1 tl =>
        simp only [collectStep] at h1 h2
        cases hv : t1.val with
        | str name =>
          rw [hv] at h1 h2
          simp only at h1 h2
          by_cases hc : (t1.code == 2) = true
          · simp only [hc, if_true, Except.ok.injEq] at h1 h2
            rw [← h1, ← h2]
            exact addSection_same d d' _ _ _ (fun _ => rfl) h
          · simp [hc] at h1 h2
            rw [← h1, ← h2]; exact h
        | num => rw [hv] at h1 h2; simp only [Except.ok.injEq] at h1 h2; rw [← h1, ← h2]; exact h
        | bin => rw [hv] at h1 h2; simp only [Except.ok.injEq] at h1 h2; rw [← h1, ← h2]; exact h
        | vtx => rw [hv] at h1 h2; simp only [Except.ok.injEq] at h1 h2; rw [← h1, ← h2]; exact h
  · simp only [collectStep, tEntName, beq_self_eq_true, if_true, Except.ok.injEq] at h1 h2
    rw [← h1, ← h2]
    exact addSection_same d d' sEntities _ _ (by intro hc; exact absurd hc (by decide)) h

def SecsRel : List (List CTag) → List (List CTag) → Prop
  | [], [] => True
  | x :: xs, y :: ys => SecRel x y ∧ SecsRel xs ys
  | _, _ => False

theorem collectSections_same (cfg : Cfg) : ∀ (secs secs' : List (List CTag)) (d d' r r' : RawDict),
    SecsRel secs secs' → Same d d' →
      collectSections cfg d secs = .ok r → collectSections cfg d' secs' = .ok r' → Same r r' := by
  intro secs
  induction secs with
  | nil =>
    intro secs' d d' r r' hf h h1 h2
    cases secs' with
    | nil => simp only [collectSections, Except.ok.injEq] at h1 h2; rw [← h1, ← h2]; exact h
    | cons _ _ => exact absurd hf (by simp [SecsRel])
  | cons x xs ih =>
    intro secs' d d' r r' hf h h1 h2
    cases secs' with
    | nil => exact absurd hf (by simp [SecsRel])
    | cons y ys =>
      obtain ⟨hxy, hrest⟩ := hf
      unfold collectSections at h1 h2
      split at h1
      · simp at h1
      · next d1 hd1 =>
        split at h2
        · simp at h2
        · next d2 hd2 => exact ih ys d1 d2 r r' hrest (collectStep_same cfg d d' d1 d2 _ _ hxy h hd1 hd2) h1 h2

theorem secsRel_refl (l : List (List CTag)) : SecsRel l l := by
  induction l with
  | nil => trivial
  | cons x r ih => exact ⟨Or.inl rfl, ih⟩

theorem secsRel_mid (X Z : List (List CTag)) (b b' : List CTag) :
    SecsRel (X ++ (tSection :: tEntName :: b) :: Z) (X ++ (tSection :: tEntName :: b') :: Z) := by
  induction X with
  | nil => exact ⟨Or.inr ⟨b, b', rfl, rfl⟩, secsRel_refl Z⟩
  | cons x r ih => exact ⟨Or.inl rfl, ih⟩

/-- the version `load_section_dict` detects is a function of the HEADER entry and the orphans -/
theorem finishDict_version (d d' : RawDict) (orph : List CTag) (h : Same d d') :
    (finishDict d orph).1 = (finishDict d' orph).1 := by
  obtain ⟨hk, hh⟩ := h
  have hany : d.any (fun e => e.1 == sHeader) = d'.any (fun e => e.1 == sHeader) := by
    rw [any_keys, any_keys, hk]
  unfold finishDict
  simp only
  congr 1
  rw [← hany]
  have key : ∀ x : RawDict, ((x.map (fun e => if e.1 == sHeader then (e.1, e.2 ++ rescueOrphans none orph) else e)).find?
      (fun e => e.1 == sHeader)).map (·.2) = hdrOf (x.map (fun e => if e.1 == sHeader then (e.1, (· ++ rescueOrphans none orph) e.2) else e)) := by
    intro x; rfl
  rw [key, key, hdr_map (fun x => x ++ rescueOrphans none orph), hdr_map (fun x => x ++ rescueOrphans none orph)]
  cases hp : d.any (fun e => e.1 == sHeader)
  · simp only [Bool.false_eq_true, if_false]
    rw [hdr_append, hdr_append, hh]
  · simp only [if_true]
    rw [hh]

/-- **version independence**: two tag streams that differ only inside the body of the ENTITIES section are loaded
    with the same DXF version (hence the same R12 mode) -/
theorem version_independent (cfg : Cfg) (a t b b' : List CTag) (hb : ∀ x ∈ b, isStruct x = false)
    (hb' : ∀ x ∈ b', isStruct x = false) (v v' : Str) (d d' : SectionDict)
    (h1 : loadSectionDict cfg (rebuildSections (a ++ tSection :: tEntName :: b ++ tEndsec :: t)) = .ok (v, d))
    (h2 : loadSectionDict cfg (rebuildSections (a ++ tSection :: tEntName :: b' ++ tEndsec :: t)) = .ok (v', d')) :
    v = v' := by
  rw [rebuild_frame a b t hb] at h1
  rw [rebuild_frame a b' t hb'] at h2
  generalize beforeOf a = X at h1 h2
  generalize (restState a t).sections.reverse = Y at h1 h2
  generalize (restState a t).orphans.reverse = O at h1 h2
  unfold loadSectionDict at h1 h2
  have hsplit : ∀ body : List CTag,
      splitOrphans (X ++ (tSection :: tEntName :: body) :: Y ++ [O]) =
        if O.head? == some ⟨0, .str sSection⟩ then (X ++ (tSection :: tEntName :: body) :: Y ++ [O], [])
        else (X ++ (tSection :: tEntName :: body) :: Y, O) := by
    intro body
    have e : X ++ (tSection :: tEntName :: body) :: Y ++ [O] = (X ++ (tSection :: tEntName :: body) :: Y) ++ [O] := by simp
    unfold splitOrphans
    rw [e]
    simp only [List.getLast?_append, List.getLast?_singleton, Option.some_or, Option.getD_some, List.dropLast_concat]
  rw [hsplit b] at h1
  rw [hsplit b'] at h2
  have hrel : ∀ Z : List (List CTag), SecsRel (X ++ (tSection :: tEntName :: b) :: Z) (X ++ (tSection :: tEntName :: b') :: Z) :=
    fun Z => secsRel_mid X Z b b'
  have hnil : Same ([] : RawDict) [] := ⟨rfl, rfl⟩
  split at h1
  · simp at h1
  · next raw hraw =>
    split at h2
    · simp at h2
    · next raw' hraw' =>
      simp only [Except.ok.injEq] at h1 h2
      by_cases ho : (O.head? == some ⟨0, .str sSection⟩) = true
      · simp only [ho, if_true] at hraw hraw' h1 h2
        have e : ∀ body : List CTag, X ++ (tSection :: tEntName :: body) :: Y ++ [O] = X ++ (tSection :: tEntName :: body) :: (Y ++ [O]) := by
          intro body; simp
        rw [e b] at hraw
        rw [e b'] at hraw'
        have hs := collectSections_same cfg _ _ [] [] raw raw' (hrel (Y ++ [O])) hnil hraw hraw'
        have hv : v = (finishDict raw []).1 := by rw [h1]
        have hv' : v' = (finishDict raw' []).1 := by rw [h2]
        rw [hv, hv']
        exact finishDict_version raw raw' [] hs
      · simp only [ho, Bool.false_eq_true, if_false] at hraw hraw' h1 h2
        have hs := collectSections_same cfg _ _ [] [] raw raw' (hrel Y) hnil hraw hraw'
        have hv : v = (finishDict raw O).1 := by rw [h1]
        have hv' : v' = (finishDict raw' O).1 := by rw [h2]
        rw [hv, hv']
        exact finishDict_version raw raw' O hs

end EzdxfVerif.Lemmas.RecoverFault

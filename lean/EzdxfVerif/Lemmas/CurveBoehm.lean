/-
Helper lemmas for C13 (not counted): Boehm's knot insertion identity for the Cox - de Boor recursion.

The recursion of `Model/Curve.lean` (`cdb`) is restated over a knot FUNCTION `K : Nat → Rat`
(`cdbF`, `cdb U = cdbF (kget U)`; the `if d = 0 then 0` guards of `cdb` are what Lean's `x / 0 = 0`
computes anyway).  For the knot function `insK K k t` (= `K` with `t` inserted behind index `k`)

    N_{i,p}[K] = α_{i,p} · N_{i,p}[K'] + (1 − α_{i+1,p}) · N_{i+1,p}[K']        (Boehm 1980)

with `α_{i,p} = 1` for `i + p ≤ k`, `0` for `i > k` and `(t − K_i)/(K_{i+p} − K_i)` between — the
coefficients `insert_knot` uses — is proved for the polynomial PIECES of a non-empty span `s'` of
`K'` (degree-0 layer `δ_{s'}`), all degrees, by induction on the degree.  The three coefficient
identities of the induction step hold whenever the denominators over `K'` are non-zero; where one
vanishes the piece it multiplies is identically zero (`cdbF_zero_of_den`).
-/
import EzdxfVerif.Model.Curve
import Mathlib.Tactic.Ring
import Mathlib.Tactic.FieldSimp
import Mathlib.Tactic.Linarith
import Mathlib.Tactic.LinearCombination

namespace EzdxfVerif.Lemmas.Curve
open EzdxfVerif.Curve

/-- Cox - de Boor recursion over a knot function (no guards: `x / 0 = 0`) -/
def cdbF (K : Nat → Rat) (u : Rat) (base : Nat → Rat) : Nat → Nat → Rat
  | 0, i => base i
  | p + 1, i =>
    (u - K i) / (K (i + p + 1) - K i) * cdbF K u base p i
    + (K (i + p + 2) - u) / (K (i + p + 2) - K (i + 1)) * cdbF K u base p (i + 1)

theorem cdb_eq_cdbF (U : List Rat) (u : Rat) (base : Nat → Rat) :
    ∀ p i, cdb U u base p i = cdbF (kget U) u base p i
  | 0, _ => rfl
  | p + 1, i => by
    simp only [cdb, cdbF, cdb_eq_cdbF U u base p]
    congr 1 <;> split <;> simp_all

/-- degree-0 layer of the pieces of span `s` -/
def delta (s : Nat) : Nat → Rat := fun i => if i = s then 1 else 0

theorem spanPiece_eq_cdbF (U : List Rat) (u : Rat) (s p i : Nat) :
    spanPiece U u s p i = cdbF (kget U) u (delta s) p i := by
  simp only [spanPiece]; exact cdb_eq_cdbF U u _ p i

theorem cdbF_vanish (K : Nat → Rat) (u : Rat) (s : Nat) :
    ∀ (p i : Nat), (s < i ∨ i + p < s) → cdbF K u (delta s) p i = 0
  | 0, i, h => by
    simp only [cdbF, delta]
    rw [if_neg]; omega
  | p + 1, i, h => by
    simp only [cdbF, cdbF_vanish K u s p i (by omega), cdbF_vanish K u s p (i + 1) (by omega)]
    simp

/-- a piece whose support `[K_i, K_{i+p+1}]` is a single point is identically zero (the non-empty span `s` cannot
    lie inside it) -/
theorem cdbF_zero_of_den (K : Nat → Rat) (u : Rat) (s M : Nat)
    (hmono : ∀ a b, a ≤ b → b ≤ M → K a ≤ K b) (hs : K s < K (s + 1)) (p i : Nat) (hi : i + p + 1 ≤ M)
    (hz : K (i + p + 1) = K i) : cdbF K u (delta s) p i = 0 := by
  by_cases h : s < i ∨ i + p < s
  · exact cdbF_vanish K u s p i h
  · exfalso
    have h1 := hmono i s (by omega) (by omega)
    have h2 := hmono (s + 1) (i + p + 1) (by omega) hi
    linarith

section boehm
variable (K : Nat → Rat) (k : Nat) (t u : Rat)

/-- the knot function after `knots.insert(k + 1, t)` -/
def insK (j : Nat) : Rat := if j ≤ k then K j else if j = k + 1 then t else K (j - 1)

/-- Boehm's coefficients (`a` of `new_point` between, clipped to 1 / 0 outside) -/
def alpha (i p : Nat) : Rat := if i + p ≤ k then 1 else if k < i then 0 else (t - K i) / (K (i + p) - K i)

theorem insK_le {j : Nat} (h : j ≤ k) : insK K k t j = K j := by simp [insK, h]
theorem insK_eq : insK K k t (k + 1) = t := by simp [insK]
theorem insK_gt {j : Nat} (h : k + 2 ≤ j) : insK K k t j = K (j - 1) := by
  simp only [insK]; rw [if_neg (by omega), if_neg (by omega)]

theorem alpha_one {i p : Nat} (h : i + p ≤ k) : alpha K k t i p = 1 := by simp [alpha, h]
theorem alpha_zero {i p : Nat} (h : k < i) : alpha K k t i p = 0 := by
  simp only [alpha]; rw [if_neg (by omega), if_pos h]
theorem alpha_mid {i p : Nat} (h1 : k < i + p) (h2 : i ≤ k) :
    alpha K k t i p = (t - K i) / (K (i + p) - K i) := by
  simp only [alpha]; rw [if_neg (by omega), if_neg (by omega)]

theorem insK_mono (M : Nat) (hmono : ∀ a b, a ≤ b → b ≤ M → K a ≤ K b) (hk1 : k + 1 ≤ M)
    (hlo : K k ≤ t) (hhi : t ≤ K (k + 1)) :
    ∀ a b, a ≤ b → b ≤ M + 1 → insK K k t a ≤ insK K k t b := by
  intro a b hab hb
  rcases Nat.lt_or_ge k a with ha | ha
  · -- k < a ≤ b
    rcases Nat.lt_or_ge (k + 1) a with ha2 | ha2
    · rw [insK_gt K k t (by omega : k + 2 ≤ a), insK_gt K k t (by omega : k + 2 ≤ b)]
      exact hmono _ _ (by omega) (by omega)
    · have : a = k + 1 := by omega
      subst this
      rcases Nat.lt_or_ge (k + 1) b with hb2 | hb2
      · rw [insK_eq, insK_gt K k t (by omega : k + 2 ≤ b)]
        exact le_trans hhi (hmono _ _ (by omega) (by omega))
      · have : b = k + 1 := by omega
        subst this; exact le_refl _
  · rw [insK_le K k t ha]
    rcases Nat.lt_or_ge k b with hb1 | hb1
    · rcases Nat.lt_or_ge (k + 1) b with hb2 | hb2
      · rw [insK_gt K k t (by omega : k + 2 ≤ b)]
        exact hmono _ _ (by omega) (by omega)
      · have : b = k + 1 := by omega
        subst this; rw [insK_eq]
        exact le_trans (hmono _ _ ha (by omega)) hlo
    · rw [insK_le K k t hb1]; exact hmono _ _ hab (by omega)

variable (M : Nat) (hmono : ∀ a b, a ≤ b → b ≤ M → K a ≤ K b) (hk : K k < K (k + 1))
include hmono hk

/-- coefficient of `N'_{i,p}` in the induction step -/
theorem boehm_c0 (i p : Nat) (hi : i + p + 1 ≤ M) (x : Rat)
    (hx : insK K k t (i + p + 1) = insK K k t i → x = 0) :
    (u - K i) / (K (i + p + 1) - K i) * (alpha K k t i p * x)
      = alpha K k t i (p + 1) * ((u - insK K k t i) / (insK K k t (i + p + 1) - insK K k t i) * x) := by
  by_cases h1 : i + p + 1 ≤ k
  · rw [alpha_one K k t (by omega : i + p ≤ k), alpha_one K k t (by omega : i + (p + 1) ≤ k),
      insK_le K k t (by omega : i ≤ k), insK_le K k t h1]
    ring
  · by_cases h2 : k < i
    · rw [alpha_zero K k t h2, alpha_zero K k t h2]; ring
    · have hik : i ≤ k := by omega
      have hpos : K i < K (i + p + 1) := by
        have a1 := hmono i k hik (by omega)
        have a2 := hmono (k + 1) (i + p + 1) (by omega) hi
        linarith
      rw [insK_le K k t hik] at hx ⊢
      rw [alpha_mid K k t (by omega : k < i + (p + 1)) hik]
      by_cases h3 : i + p ≤ k
      · have e : i + p + 1 = k + 1 := by omega
        rw [alpha_one K k t h3]
        rw [e] at hx ⊢
        rw [insK_eq] at hx ⊢
        by_cases ht : t = K i
        · rw [hx ht]; ring
        · have hd1 : K (k + 1) - K i ≠ 0 := by rw [← e]; linarith
          have hd2 : t - K i ≠ 0 := sub_ne_zero.mpr ht
          have e2 : i + (p + 1) = k + 1 := by omega
          rw [e2]
          field_simp
      · rw [alpha_mid K k t (by omega : k < i + p) hik,
          insK_gt K k t (by omega : k + 2 ≤ i + p + 1)]
        have e1 : i + p + 1 - 1 = i + p := by omega
        have e2 : i + (p + 1) = i + p + 1 := by omega
        rw [e1, e2]; ring

/-- coefficient of `N'_{i+2,p}` in the induction step -/
theorem boehm_c2 (i p : Nat) (hi : i + p + 2 ≤ M) (x : Rat)
    (hx : insK K k t (i + p + 3) = insK K k t (i + 2) → x = 0) :
    (K (i + p + 2) - u) / (K (i + p + 2) - K (i + 1)) * ((1 - alpha K k t (i + 2) p) * x)
      = (1 - alpha K k t (i + 1) (p + 1)) *
          ((insK K k t (i + p + 3) - u) / (insK K k t (i + p + 3) - insK K k t (i + 2)) * x) := by
  by_cases h1 : i + p + 2 ≤ k
  · rw [alpha_one K k t (by omega : i + 2 + p ≤ k), alpha_one K k t (by omega : i + 1 + (p + 1) ≤ k)]; ring
  · by_cases h2 : k < i + 1
    · rw [alpha_zero K k t (by omega : k < i + 2), alpha_zero K k t h2,
        insK_gt K k t (by omega : k + 2 ≤ i + p + 3), insK_gt K k t (by omega : k + 2 ≤ i + 2)]
      have e1 : i + p + 3 - 1 = i + p + 2 := by omega
      have e2 : i + 2 - 1 = i + 1 := by omega
      rw [e1, e2]; ring
    · have hik : i + 1 ≤ k := by omega
      have hpos : K (i + 1) < K (i + p + 2) := by
        have a1 := hmono (i + 1) k hik (by omega)
        have a2 := hmono (k + 1) (i + p + 2) (by omega) hi
        linarith
      rw [alpha_mid K k t (by omega : k < i + 1 + (p + 1)) hik,
        insK_gt K k t (by omega : k + 2 ≤ i + p + 3)] at *
      have e1 : i + p + 3 - 1 = i + p + 2 := by omega
      have e2 : i + 1 + (p + 1) = i + p + 2 := by omega
      rw [e1] at hx ⊢
      rw [e2]
      have hd : K (i + p + 2) - K (i + 1) ≠ 0 := by linarith
      by_cases h3 : k < i + 2
      · have e : i + 2 = k + 1 := by omega
        rw [alpha_zero K k t h3]
        rw [e] at hx ⊢
        rw [insK_eq] at hx ⊢
        by_cases ht : K (i + p + 2) = t
        · rw [hx ht]; ring
        · have hd2 : K (i + p + 2) - t ≠ 0 := sub_ne_zero.mpr ht
          field_simp
          ring
      · have hik2 : i + 2 ≤ k := by omega
        have hpos2 : K (i + 2) < K (i + p + 2) := by
          have a1 := hmono (i + 2) k hik2 (by omega)
          have a2 := hmono (k + 1) (i + p + 2) (by omega) hi
          linarith
        rw [alpha_mid K k t (by omega : k < i + 2 + p) hik2, insK_le K k t hik2]
        have e3 : i + 2 + p = i + p + 2 := by omega
        rw [e3]
        have hd2 : K (i + p + 2) - K (i + 2) ≠ 0 := by linarith
        field_simp
        ring

/-- coefficient of `N'_{i+1,p}` in the induction step -/
theorem boehm_c1 (i p : Nat) (hi : i + p + 2 ≤ M) (x : Rat)
    (hx : insK K k t (i + p + 2) = insK K k t (i + 1) → x = 0) :
    ((u - K i) / (K (i + p + 1) - K i) * (1 - alpha K k t (i + 1) p)
        + (K (i + p + 2) - u) / (K (i + p + 2) - K (i + 1)) * alpha K k t (i + 1) p) * x
      = (alpha K k t i (p + 1) * ((insK K k t (i + p + 2) - u) / (insK K k t (i + p + 2) - insK K k t (i + 1)))
        + (1 - alpha K k t (i + 1) (p + 1)) *
            ((u - insK K k t (i + 1)) / (insK K k t (i + p + 2) - insK K k t (i + 1)))) * x := by
  by_cases h1 : i + p + 2 ≤ k
  · rw [alpha_one K k t (by omega : i + 1 + p ≤ k), alpha_one K k t (by omega : i + (p + 1) ≤ k),
      alpha_one K k t (by omega : i + 1 + (p + 1) ≤ k), insK_le K k t h1, insK_le K k t (by omega : i + 1 ≤ k)]
    ring
  · by_cases h2 : k < i
    · rw [alpha_zero K k t (by omega : k < i + 1), alpha_zero K k t h2, alpha_zero K k t (by omega : k < i + 1),
        insK_gt K k t (by omega : k + 2 ≤ i + p + 2), insK_gt K k t (by omega : k + 2 ≤ i + 1)]
      have e1 : i + p + 2 - 1 = i + p + 1 := by omega
      have e2 : i + 1 - 1 = i := by omega
      rw [e1, e2]; ring
    · have hik : i ≤ k := by omega
      by_cases h3 : i + p + 1 ≤ k
      · -- i + p + 1 = k
        have e : i + p + 2 = k + 1 := by omega
        have hpos : K (i + 1) < K (k + 1) := by
          have a1 := hmono (i + 1) k (by omega) (by omega)
          linarith
        rw [alpha_one K k t (by omega : i + 1 + p ≤ k), alpha_one K k t (by omega : i + (p + 1) ≤ k),
          alpha_mid K k t (by omega : k < i + 1 + (p + 1)) (by omega : i + 1 ≤ k)]
        rw [insK_le K k t (by omega : i + 1 ≤ k)] at hx ⊢
        have e2 : i + 1 + (p + 1) = k + 1 := by omega
        rw [e2]
        rw [e] at hx ⊢
        rw [insK_eq] at hx ⊢
        by_cases ht : t = K (i + 1)
        · rw [hx ht]; ring
        · have hd1 : K (k + 1) - K (i + 1) ≠ 0 := by linarith
          have hd2 : t - K (i + 1) ≠ 0 := sub_ne_zero.mpr ht
          field_simp
          ring
      · -- i ≤ k < i + p + 1
        have hposA : K i < K (i + p + 1) := by
          have a1 := hmono i k hik (by omega)
          have a2 := hmono (k + 1) (i + p + 1) (by omega) (by omega)
          linarith
        have hdA : K (i + p + 1) - K i ≠ 0 := by linarith
        rw [alpha_mid K k t (by omega : k < i + (p + 1)) hik, insK_gt K k t (by omega : k + 2 ≤ i + p + 2)] at *
        have e1 : i + p + 2 - 1 = i + p + 1 := by omega
        have e2 : i + (p + 1) = i + p + 1 := by omega
        rw [e1] at hx ⊢
        rw [e2]
        by_cases h4 : k < i + 1
        · -- i = k
          have e : i + 1 = k + 1 := by omega
          rw [alpha_zero K k t h4, alpha_zero K k t h4]
          rw [e] at hx ⊢
          rw [insK_eq] at hx ⊢
          by_cases ht : K (i + p + 1) = t
          · rw [hx ht]; ring
          · have hd2 : K (i + p + 1) - t ≠ 0 := sub_ne_zero.mpr ht
            field_simp
            ring
        · -- i < k
          have hik1 : i + 1 ≤ k := by omega
          have hposB : K (i + 1) < K (i + p + 1) := by
            have a1 := hmono (i + 1) k hik1 (by omega)
            have a2 := hmono (k + 1) (i + p + 1) (by omega) (by omega)
            linarith
          have hposC : K (i + 1) < K (i + p + 2) := by
            have a2 := hmono (i + p + 1) (i + p + 2) (by omega) hi
            linarith
          rw [alpha_mid K k t (by omega : k < i + 1 + p) hik1,
            alpha_mid K k t (by omega : k < i + 1 + (p + 1)) hik1, insK_le K k t hik1]
          have e3 : i + 1 + p = i + p + 1 := by omega
          have e4 : i + 1 + (p + 1) = i + p + 2 := by omega
          rw [e3, e4]
          have hdB : K (i + p + 1) - K (i + 1) ≠ 0 := by linarith
          have hdC : K (i + p + 2) - K (i + 1) ≠ 0 := by linarith
          field_simp
          ring

/-- **Boehm's identity** for the polynomial pieces: `s'` a non-empty span of the refined knots, `s` the span of the
    old knots it lies in -/
theorem boehm_pieces (hk1 : k + 1 ≤ M) (hlo : K k ≤ t) (hhi : t ≤ K (k + 1))
    (s' : Nat) (hs' : insK K k t s' < insK K k t (s' + 1)) :
    ∀ (p i : Nat), i + p + 1 ≤ M →
      cdbF K u (delta (if s' ≤ k then s' else s' - 1)) p i
        = alpha K k t i p * cdbF (insK K k t) u (delta s') p i
          + (1 - alpha K k t (i + 1) p) * cdbF (insK K k t) u (delta s') p (i + 1)
  | 0, i, _ => by
    simp only [cdbF, delta, alpha, Nat.add_zero]
    by_cases h1 : s' ≤ k
    · simp only [h1, if_true]
      by_cases h2 : i ≤ k
      · by_cases h3 : i + 1 ≤ k
        · simp [h2, h3]
        · have : i = k := by omega
          subst this
          simp only [le_refl, if_true, h3, if_false, Nat.lt_succ_self, sub_zero, one_mul]
          rw [if_neg (by omega : ¬ i + 1 = s')]; ring
      · rw [if_neg h2, if_pos (by omega : k < i), if_neg (by omega : ¬ i + 1 ≤ k), if_pos (by omega : k < i + 1),
          if_neg (by omega : ¬ i = s'), if_neg (by omega : ¬ i + 1 = s')]
        ring
    · simp only [h1, if_false]
      by_cases h2 : i ≤ k
      · by_cases h3 : i + 1 ≤ k
        · rw [if_pos h2, if_pos h3, if_neg (by omega : ¬ i = s' - 1), if_neg (by omega : ¬ i = s')]; ring
        · have : i = k := by omega
          subst this
          rw [if_pos h2, if_neg h3, if_pos (by omega : i < i + 1), if_neg (by omega : ¬ i = s')]
          by_cases h4 : i = s' - 1
          · rw [if_pos h4, if_pos (by omega : i + 1 = s')]; ring
          · rw [if_neg h4, if_neg (by omega : ¬ i + 1 = s')]; ring
      · rw [if_neg h2, if_pos (by omega : k < i), if_neg (by omega : ¬ i + 1 ≤ k), if_pos (by omega : k < i + 1)]
        by_cases h4 : i = s' - 1
        · rw [if_pos h4, if_pos (by omega : i + 1 = s')]; ring
        · rw [if_neg h4, if_neg (by omega : ¬ i + 1 = s')]; ring
  | p + 1, i, hi => by
    have hm' := insK_mono K k t M hmono hk1 hlo hhi
    have ih0 := boehm_pieces hk1 hlo hhi s' hs' p i (by omega)
    have ih1 := boehm_pieces hk1 hlo hhi s' hs' p (i + 1) (by omega)
    have z0 : insK K k t (i + p + 1) = insK K k t i → cdbF (insK K k t) u (delta s') p i = 0 :=
      fun hz => cdbF_zero_of_den (insK K k t) u s' (M + 1) hm' hs' p i (by omega) hz
    have z1 : insK K k t (i + p + 2) = insK K k t (i + 1) → cdbF (insK K k t) u (delta s') p (i + 1) = 0 :=
      fun hz => cdbF_zero_of_den (insK K k t) u s' (M + 1) hm' hs' p (i + 1) (by omega)
        (by rw [show i + 1 + p + 1 = i + p + 2 by omega]; exact hz)
    have z2 : insK K k t (i + p + 3) = insK K k t (i + 2) → cdbF (insK K k t) u (delta s') p (i + 2) = 0 :=
      fun hz => cdbF_zero_of_den (insK K k t) u s' (M + 1) hm' hs' p (i + 2) (by omega)
        (by rw [show i + 2 + p + 1 = i + p + 3 by omega]; exact hz)
    have c0 := boehm_c0 K k t u M hmono hk i p (by omega) _ z0
    have c1 := boehm_c1 K k t u M hmono hk i p (by omega) _ z1
    have c2 := boehm_c2 K k t u M hmono hk i p (by omega) _ z2
    simp only [cdbF]
    rw [ih0, ih1]
    have e1 : i + 1 + p + 1 = i + p + 2 := by omega
    have e2 : i + 1 + p + 2 = i + p + 3 := by omega
    have e3 : i + 1 + 1 = i + 2 := by omega
    rw [e1, e2, e3]
    linear_combination c0 + c1 + c2

end boehm

end EzdxfVerif.Lemmas.Curve

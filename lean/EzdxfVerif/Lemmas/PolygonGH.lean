/-
Lemmas/PolygonGH.lean — Greiner-Hormann, phase 2 (entry/exit marks) and the pieces walked by phase 3.  Helper lemmas for
`Props/C19.lean`.
-/
import EzdxfVerif.Model.Polygon
import Mathlib.Tactic.Ring
import Mathlib.Tactic.Linarith

namespace EzdxfVerif.Lemmas.GH
open EzdxfVerif.Polygon

/-- the list starts with `e` and alternates -/
def AltFrom : Bool → List Bool → Prop
  | _, [] => True
  | e, x :: xs => x = e ∧ AltFrom (!e) xs

theorem marks_alternate : ∀ (l : List Bool) (e : Bool), AltFrom e ((ghMark e l).filterMap id)
  | [], _ => trivial
  | true :: rest, e => by
    simp only [ghMark, List.filterMap_cons, id]
    exact ⟨rfl, marks_alternate rest (!e)⟩
  | false :: rest, e => by
    simp only [ghMark, List.filterMap_cons_none, id]
    exact marks_alternate rest e

theorem marks_complementary : ∀ (l : List Bool) (e : Bool), ghMark (!e) l = (ghMark e l).map (Option.map not)
  | [], _ => rfl
  | true :: rest, e => by
    simp only [ghMark, List.map_cons, Option.map_some]
    rw [marks_complementary rest (!e)]
  | false :: rest, e => by
    simp only [ghMark, List.map_cons, Option.map_none]
    rw [marks_complementary rest e]

theorem marks_length : ∀ (l : List Bool) (e : Bool), (ghMark e l).length = l.length
  | [], _ => rfl
  | true :: rest, e => by simp [ghMark, marks_length rest]
  | false :: rest, e => by simp [ghMark, marks_length rest]

theorem lastSome_map_not : ∀ (m : List (Option Bool)), ghLastSome (m.map (Option.map not)) = (ghLastSome m).map not
  | [] => rfl
  | some e :: rest => by
    simp only [List.map_cons, Option.map_some, ghLastSome, lastSome_map_not rest]
    cases ghLastSome rest <;> rfl
  | none :: rest => by
    simp only [List.map_cons, Option.map_none, ghLastSome, lastSome_map_not rest]

private theorem used_aux : ∀ (m : List (Option Bool)) (c : Bool),
    ghUsedGo (some !c) (m.map (Option.map not)) = (ghUsedGo (some c) m).map not
  | [], _ => rfl
  | some e :: rest, c => by
    simp only [List.map_cons, Option.map_some, ghUsedGo]
    exact used_aux rest e
  | none :: rest, c => by
    simp only [List.map_cons, Option.map_none, ghUsedGo]
    rw [used_aux rest c]
    cases c <;> rfl

/-- complementary marks select complementary boundary pieces (when there is at least one intersection node) -/
theorem used_complementary (m : List (Option Bool)) (h : ghLastSome m ≠ none) :
    ghUsed (m.map (Option.map not)) = (ghUsed m).map not := by
  unfold ghUsed
  rw [lastSome_map_not]
  match hl : ghLastSome m, h with
  | some c, _ =>
    simp only [Option.map_some]
    exact used_aux m c

/-- the last mark: equal to the first one for an odd number of intersection nodes, opposite for an even number -/
theorem lastSome_mark : ∀ (l : List Bool) (e : Bool),
    ghLastSome (ghMark e l) = if l.count true = 0 then none else some (if l.count true % 2 = 0 then !e else e)
  | [], _ => rfl
  | false :: rest, e => by
    simp only [ghMark, ghLastSome, lastSome_mark rest e]
    simp
  | true :: rest, e => by
    simp only [ghMark, ghLastSome, lastSome_mark rest (!e)]
    have hc : (true :: rest).count true = rest.count true + 1 := by simp
    rw [hc]
    by_cases h0 : rest.count true = 0
    · simp [h0]
    · simp only [h0, if_false, Nat.add_eq_zero_iff, one_ne_zero, and_false]
      by_cases hp : rest.count true % 2 = 0
      · have : (rest.count true + 1) % 2 ≠ 0 := by omega
        simp [hp, this]
      · have : (rest.count true + 1) % 2 = 0 := by omega
        simp [hp, this]

end EzdxfVerif.Lemmas.GH

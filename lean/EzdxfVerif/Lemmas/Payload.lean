/-
Helper lemmas for the payload codecs of C01 (Model/Payload.lean); the counted theorems are in Props/C01.lean.
-/
import EzdxfVerif.Model.Payload

namespace EzdxfVerif.Payload
open EzdxfVerif.Schema

/-! ### generic list facts -/

theorem filter_none {α : Type} (p : α → Bool) (l : List α) (h : ∀ x ∈ l, p x = false) : l.filter p = [] :=
  List.filter_eq_nil_iff.mpr (by intro x hx; simp [h x hx])

theorem filter_all {α : Type} (p : α → Bool) (l : List α) (h : ∀ x ∈ l, p x = true) : l.filter p = l :=
  List.filter_eq_self.mpr h

theorem filter_map_code {α : Type} (f : α → Tag) (p : Tag → Bool) (b : Bool) (l : List α)
    (h : ∀ x, p (f x) = b) : (l.map f).filter p = if b then l.map f else [] := by
  cases b
  · simp only [Bool.false_eq_true, if_false]
    exact filter_none _ _ (by intro t ht; obtain ⟨x, _, rfl⟩ := List.mem_map.mp ht; exact h x)
  · simp only [if_true]
    exact filter_all _ _ (by intro t ht; obtain ⟨x, _, rfl⟩ := List.mem_map.mp ht; exact h x)

/-! ### SPLINE -/

/-- the loop of `load_spline_data` sorts the tags by group code -/
theorem spline_fold (tags : List Tag) : ∀ σ : Spline × List Tag,
    tags.foldl splineStep σ =
      (⟨σ.1.knots ++ (tags.filter (·.code == 40)).map (fun t => dblOf t.val),
        σ.1.weights ++ (tags.filter (·.code == 41)).map (fun t => dblOf t.val),
        σ.1.ctrl ++ (tags.filter (·.code == 10)).map (fun t => p3Of t.val),
        σ.1.fit ++ (tags.filter (·.code == 11)).map (fun t => p3Of t.val)⟩,
       σ.2 ++ tags.filter (fun t => splineFree t && splineKeeps t)) := by
  induction tags with
  | nil => intro σ; simp
  | cons t rest ih =>
    intro σ
    rw [List.foldl_cons, ih]
    by_cases h10 : t.code = 10
    · simp [splineStep, splineFree, h10]
    · by_cases h11 : t.code = 11
      · simp [splineStep, splineFree, h11]
      · by_cases h40 : t.code = 40
        · simp [splineStep, splineFree, h40]
        · by_cases h41 : t.code = 41
          · simp [splineStep, splineFree, h41]
          · by_cases hn : ((t.code == 12 || t.code == 13) && isNullVec t.val) = true
            · have hp : (splineFree t && splineKeeps t) = false := by simp [splineKeeps, hn]
              have c10 : (t.code == 10) = false := by simpa using h10
              have c11 : (t.code == 11) = false := by simpa using h11
              have c40 : (t.code == 40) = false := by simpa using h40
              have c41 : (t.code == 41) = false := by simpa using h41
              simp [splineStep, List.filter_cons, hp, c10, c11, c40, c41, hn]
            · have hp : (splineFree t && splineKeeps t) = true := by
                simp only [Bool.not_eq_true] at hn
                simp [splineFree, splineKeeps, h10, h11, h40, h41, hn]
              have c10 : (t.code == 10) = false := by simpa using h10
              have c11 : (t.code == 11) = false := by simpa using h11
              have c40 : (t.code == 40) = false := by simpa using h40
              have c41 : (t.code == 41) = false := by simpa using h41
              simp only [Bool.not_eq_true] at hn
              simp [splineStep, List.filter_cons, hp, c10, c11, c40, c41, hn]

theorem loadSpline_eq_filters (tags : List Tag) :
    loadSpline tags =
      (⟨(tags.filter (·.code == 40)).map (fun t => dblOf t.val),
        (tags.filter (·.code == 41)).map (fun t => dblOf t.val),
        (tags.filter (·.code == 10)).map (fun t => p3Of t.val),
        (tags.filter (·.code == 11)).map (fun t => p3Of t.val)⟩,
       tags.filter (fun t => splineFree t && splineKeeps t)) := by
  unfold loadSpline; rw [spline_fold]; simp

/-- the tags of a homogeneous run filtered by a group code -/
theorem filter_run {α : Type} (g : α → Tag) (c' c : Int) (l : List α) (h : ∀ x, (g x).code = c') :
    (l.map g).filter (·.code == c) = if c' = c then l.map g else [] := by
  by_cases hc : c' = c
  · simp only [hc, if_true]
    exact filter_all _ _ (by intro t ht; obtain ⟨x, _, rfl⟩ := List.mem_map.mp ht; simp [h x, hc])
  · simp only [hc, if_false]
    exact filter_none _ _ (by intro t ht; obtain ⟨x, _, rfl⟩ := List.mem_map.mp ht; simp [h x, hc])

theorem filter_run_pred {α : Type} (g : α → Tag) (p : Tag → Bool) (b : Bool) (l : List α)
    (h : ∀ x, p (g x) = b) : (l.map g).filter p = if b then l.map g else [] :=
  filter_map_code g p b l h

theorem free_no_code (l : List Tag) (h : ∀ t ∈ l, splineFree t = true) (c : Int)
    (hc : c = 10 ∨ c = 11 ∨ c = 40 ∨ c = 41) : l.filter (·.code == c) = [] := by
  apply filter_none
  intro t ht
  have := h t ht
  simp only [splineFree, Bool.not_eq_true', Bool.or_eq_false_iff, beq_eq_false_iff_ne] at this
  rcases hc with rfl | rfl | rfl | rfl <;> simp [this]

@[simp] theorem tagD_code (c : Int) (b : Nat) : (tagD c b).code = c := rfl
@[simp] theorem tagN_code (c : Int) (b : Nat) : (tagN c b).code = c := rfl
@[simp] theorem tagI_code (c : Int) (b : Int) : (tagI c b).code = c := rfl
@[simp] theorem tagS_code (c : Int) (b : List Nat) : (tagS c b).code = c := rfl
@[simp] theorem tagP3_code (c : Int) (b : P3) : (tagP3 c b).code = c := rfl
@[simp] theorem tagP2_code (c : Int) (b : P2) : (tagP2 c b).code = c := rfl
@[simp] theorem tagD_val (c : Int) (b : Nat) : dblOf (tagD c b).val = b := rfl
@[simp] theorem tagP3_val (c : Int) (b : P3) : p3Of (tagP3 c b).val = b := rfl
@[simp] theorem tagP2_val (c : Int) (b : P2) : p2Of (tagP2 c b).val = b := rfl
@[simp] theorem tagI_val (c : Int) (b : Int) : intOf (tagI c b).val = b := rfl
@[simp] theorem tagN_val (c : Int) (b : Nat) : intOf (tagN c b).val = Int.ofNat b := rfl

theorem spline_roundtrip' (a1 a2 : List Tag) (d : Spline)
    (h1 : ∀ t ∈ a1, splineFree t = true) (h2 : ∀ t ∈ a2, splineFree t = true) :
    loadSpline (exportSpline a1 a2 d) = (d, (a1 ++ splineCounts d ++ a2).filter splineKeeps) := by
  rw [loadSpline_eq_filters]
  have hc : ∀ t ∈ splineCounts d, splineFree t = true := by
    intro t ht; simp [splineCounts] at ht; rcases ht with rfl | rfl | rfl <;> rfl
  have hpre : ∀ t ∈ a1 ++ splineCounts d ++ a2, splineFree t = true := by
    intro t ht
    rcases List.mem_append.mp ht with h | h
    · rcases List.mem_append.mp h with h | h
      · exact h1 t h
      · exact hc t h
    · exact h2 t h
  have e : exportSpline a1 a2 d = (a1 ++ splineCounts d ++ a2) ++ exportSplineData d := by
    simp [exportSpline]
  rw [e]
  generalize a1 ++ splineCounts d ++ a2 = pre at hpre
  have f10 := free_no_code pre hpre 10 (by simp)
  have f11 := free_no_code pre hpre 11 (by simp)
  have f40 := free_no_code pre hpre 40 (by simp)
  have f41 := free_no_code pre hpre 41 (by simp)
  have fk : pre.filter (fun t => splineFree t && splineKeeps t) = pre.filter splineKeeps := by
    apply List.filter_congr; intro t ht; simp [hpre t ht]
  have fd : (exportSplineData d).filter (fun t => splineFree t && splineKeeps t) = [] := by
    apply filter_none
    intro t ht
    simp only [exportSplineData, List.mem_append, List.mem_map] at ht
    rcases ht with ((⟨x, _, rfl⟩ | ⟨x, _, rfl⟩) | ⟨x, _, rfl⟩) | ⟨x, _, rfl⟩ <;> simp [splineFree]
  simp only [List.filter_append, f10, f11, f40, f41, fk, fd, List.nil_append, List.append_nil]
  simp only [exportSplineData, List.filter_append, filter_run (tagD 40) 40 _ _ (fun _ => rfl),
    filter_run (tagD 41) 41 _ _ (fun _ => rfl), filter_run (tagP3 10) 10 _ _ (fun _ => rfl),
    filter_run (tagP3 11) 11 _ _ (fun _ => rfl)]
  simp [List.map_map, Function.comp_def]

/-! ### MESH -/

theorem cutAt_append (c : Int) (pre : List Tag) (t : Tag) (rest : List Tag)
    (hpre : ∀ x ∈ pre, (x.code == c) = false) (ht : t.code = c) :
    cutAt c (pre ++ t :: rest) = some (pre, rest) := by
  induction pre with
  | nil => simp [cutAt, ht]
  | cons x xs ih =>
    have hx := hpre x (by simp)
    have := ih (fun y hy => hpre y (by simp [hy]))
    simp [cutAt, hx, this]

theorem run_block (c : Int) (l rest : List Tag) (h : ∀ x ∈ l, x.code = c)
    (hr : ∀ t, rest.head? = some t → t.code ≠ c) : run c (l ++ rest) = l := by
  unfold run
  induction l with
  | nil =>
    cases rest with
    | nil => simp
    | cons t r => simp [List.takeWhile_cons, hr t rfl]
  | cons x xs ih =>
    have hx := h x (by simp)
    have := ih (fun y hy => h y (by simp [hy]))
    simp [List.takeWhile_cons, hx, this]

theorem face_fill (xs : List Int) : ∀ (face : List Int) (acc : List (List Int)),
    (xs.map (tagI 90)).foldl faceStep ⟨(xs.length : Int), face, acc⟩ = ⟨0, face ++ xs, acc⟩ := by
  induction xs with
  | nil => intro face acc; simp
  | cons x xs ih =>
    intro face acc
    have h0 : (((xs.length + 1 : Nat) : Int) == 0) = false := by
      simp only [beq_eq_false_iff_ne, ne_eq]; omega
    have h1 : ((xs.length + 1 : Nat) : Int) - 1 = (xs.length : Int) := by omega
    simp only [List.map_cons, List.foldl_cons, List.length_cons, faceStep, h0, Bool.false_eq_true, if_false, h1,
      tagI_val]
    rw [ih]; simp

theorem face_one (f : List Int) (cur : List Int) (acc : List (List Int)) :
    (faceTags f).foldl faceStep ⟨0, cur, acc⟩ = ⟨0, f, if cur = [] then acc else acc ++ [cur]⟩ := by
  have := face_fill f [] (if cur = [] then acc else acc ++ [cur])
  simp only [faceTags, List.foldl_cons, faceStep, beq_self_eq_true, if_true, tagN_val]
  simpa using this

theorem faces_all (fs : List (List Int)) (hf : ∀ f ∈ fs, f ≠ []) : ∀ (cur : List Int) (acc : List (List Int)),
    ((fs.flatMap faceTags).foldl faceStep ⟨0, cur, acc⟩).finish = (FaceSt.finish ⟨0, cur, acc⟩) ++ fs := by
  induction fs with
  | nil => intro cur acc; simp
  | cons f rest ih =>
    intro cur acc
    have hne : f ≠ [] := hf f (by simp)
    rw [List.flatMap_cons, List.foldl_append, face_one, ih (fun g hg => hf g (by simp [hg]))]
    simp [FaceSt.finish, hne]

theorem createFaceList_faces (fs : List (List Int)) (hf : ∀ f ∈ fs, f ≠ []) :
    createFaceList (fs.flatMap faceTags) = fs := by
  unfold createFaceList
  rw [faces_all fs hf]; simp [FaceSt.finish]

theorem faceTags_length (fs : List (List Int)) : (fs.flatMap faceTags).length = tagCount fs := by
  induction fs with
  | nil => simp [tagCount]
  | cons f rest ih =>
    simp only [List.flatMap_cons, List.length_append, ih]
    simp [tagCount, faceTags]; omega

theorem faceTags_code (fs : List (List Int)) : ∀ t ∈ fs.flatMap faceTags, t.code = 90 := by
  intro t ht
  obtain ⟨f, _, hft⟩ := List.mem_flatMap.mp ht
  simp only [faceTags, List.mem_cons, List.mem_map] at hft
  rcases hft with rfl | ⟨x, _, rfl⟩ <;> rfl

/-- the four count-prefixed blocks of `load_mesh_data`, each found by its count tag and cut out -/
theorem loadMesh_blocks (f32 : Nat → Nat) (pre V F E C post : List Tag) (t92 t93 t94 t95 : Tag)
    (hpre : ∀ t ∈ pre, meshFree t = true)
    (h92 : t92.code = 92) (h93 : t93.code = 93) (h94 : t94.code = 94) (h95 : t95.code = 95)
    (hV : ∀ t ∈ V, t.code = 10) (hF : ∀ t ∈ F, t.code = 90) (hE : ∀ t ∈ E, t.code = 90)
    (hC : ∀ t ∈ C, t.code = 140) (hpost : ∀ t, post.head? = some t → t.code ≠ 140)
    (hcount : tagCount (createFaceList F) = F.length) :
    loadMesh f32 (pre ++ t92 :: (V ++ t93 :: (F ++ t94 :: (E ++ t95 :: (C ++ post))))) =
      some (⟨V.map (fun t => p3Of t.val), createFaceList F, E.map (fun t => intOf t.val),
             C.map (fun t => f32 (dblOf t.val))⟩, pre ++ post) := by
  have free : ∀ c : Int, (c = 92 ∨ c = 93 ∨ c = 94 ∨ c = 95) → ∀ x ∈ pre, (x.code == c) = false := by
    intro c hc x hx
    have := hpre x hx
    simp only [meshFree, Bool.not_eq_true', Bool.or_eq_false_iff, beq_eq_false_iff_ne] at this
    rcases hc with rfl | rfl | rfl | rfl <;> simp [this]
  unfold loadMesh
  rw [cutAt_append 92 pre t92 _ (free 92 (by simp)) h92]
  simp only
  rw [run_block 10 V _ hV (by intro t ht; simp at ht; subst ht; simp [h93])]
  simp only [List.drop_left]
  rw [cutAt_append 93 pre t93 _ (free 93 (by simp)) h93]
  simp only
  rw [run_block 90 F _ hF (by intro t ht; simp at ht; subst ht; simp [h94])]
  rw [hcount]
  simp only [List.drop_left]
  rw [cutAt_append 94 pre t94 _ (free 94 (by simp)) h94]
  simp only
  rw [run_block 90 E _ hE (by intro t ht; simp at ht; subst ht; simp [h95])]
  simp only [List.length_map, List.drop_left]
  rw [cutAt_append 95 pre t95 _ (free 95 (by simp)) h95]
  simp only
  rw [run_block 140 C _ hC hpost]
  simp only [List.length_map, List.drop_left]

theorem mesh_roundtrip' (f32 : Nat → Nat) (pre post : List Tag) (m : Mesh)
    (hpre : ∀ t ∈ pre, meshFree t = true) (hf : ∀ f ∈ m.faces, f ≠ [])
    (hc : ∀ c ∈ m.creases, f32 c = c) (h0 : f32 0 = 0) :
    loadMesh f32 (pre ++ exportMesh m ++ post) =
      some ({ m with creases := fixCreases (m.edges.length / 2) m.creases }, pre ++ tagN 90 0 :: post) := by
  have e : pre ++ exportMesh m ++ post =
      pre ++ tagN 92 m.verts.length :: (m.verts.map (tagP3 10) ++ tagN 93 (tagCount m.faces) ::
        (m.faces.flatMap faceTags ++ tagN 94 (m.edges.length / 2) :: (m.edges.map (tagI 90) ++
          tagN 95 m.creases.length :: ((fixCreases (m.edges.length / 2) m.creases).map (tagD 140) ++
            (tagN 90 0 :: post))))) := by
    simp [exportMesh]
  rw [e, loadMesh_blocks f32 pre _ _ _ _ _ _ _ _ _ hpre rfl rfl rfl rfl
    (by intro t ht; obtain ⟨x, _, rfl⟩ := List.mem_map.mp ht; rfl)
    (faceTags_code m.faces)
    (by intro t ht; obtain ⟨x, _, rfl⟩ := List.mem_map.mp ht; rfl)
    (by intro t ht; obtain ⟨x, _, rfl⟩ := List.mem_map.mp ht; rfl)
    (by intro t ht; simp at ht; subst ht; decide)
    (by rw [createFaceList_faces m.faces hf, faceTags_length])]
  rw [createFaceList_faces m.faces hf]
  have hfix : ∀ c ∈ fixCreases (m.edges.length / 2) m.creases, f32 c = c := by
    intro c hcm
    simp only [fixCreases, List.mem_append, List.mem_replicate] at hcm
    rcases hcm with h | ⟨_, rfl⟩
    · exact hc c (List.mem_of_mem_take h)
    · exact h0
  congr 2
  cases m with
  | mk verts faces edges creases =>
    simp only [List.map_map, Function.comp_def, tagP3_val, tagI_val, tagD_val, List.map_id', Mesh.mk.injEq, true_and]
    simp only at hfix
    conv => rhs; rw [← List.map_id (fixCreases (edges.length / 2) creases)]
    exact List.map_congr_left (fun c hcm => by simpa using hfix c hcm)

/-! ### MTEXT content -/

/-- C20's `split_join` (Props/C20.lean) on the same model function `Text.splitMText`; repeated here so that
    the C01 build does not depend on another property's generated tables -/
theorem split_join' (size : Nat) (h : 2 ≤ size) (s : Str) : (Text.splitMText size h s).flatten = s := by
  fun_induction Text.splitMText size h s with
  | case1 r hr => simp [List.length_eq_zero_iff.mp hr]
  | case2 r hr hlt => simp
  | case3 r hr hlt hc ih =>
    simp only [List.flatten_cons, ih]
    have hsz : size ≤ r.length := by omega
    have h1 : (r.take size).dropLast = r.take (size - 1) := by
      rw [List.dropLast_eq_take, List.take_take, List.length_take]
      congr 1; omega
    rw [h1, List.take_append_drop]
  | case4 r hr hlt hc ih =>
    simp only [List.flatten_cons, ih, List.take_append_drop]

@[simp] theorem charsOf_strTag (c : Int) (s : Str) : charsOf (strTag c s).val = s := by
  simp [charsOf, strTag, strOf, List.map_map, Function.comp_def]

@[simp] theorem strTag_code (c : Int) (s : Str) : (strTag c s).code = c := rfl

theorem mtext_free_fold (l : List Tag) (h : ∀ t ∈ l, mtextFree t = true) : ∀ σ : MTextSt,
    l.foldl mtextStep σ = { σ with out := σ.out ++ l } := by
  induction l with
  | nil => intro σ; simp
  | cons t rest ih =>
    intro σ
    have ht := h t (by simp)
    simp only [mtextFree, Bool.not_eq_true', Bool.or_eq_false_iff, beq_eq_false_iff_ne] at ht
    rw [List.foldl_cons, ih (fun x hx => h x (by simp [hx]))]
    simp [mtextStep, ht]

theorem mtext_chunks_fold (cs : List Str) : ∀ σ : MTextSt,
    ((mtextTags cs).foldl mtextStep σ).out = σ.out ∧
    (((mtextTags cs).foldl mtextStep σ).parts ++ [((mtextTags cs).foldl mtextStep σ).tail]).flatten =
      σ.parts.flatten ++ cs.flatten := by
  fun_induction mtextTags cs with
  | case1 => intro σ; simp [mtextStep]
  | case2 c => intro σ; simp [mtextStep]
  | case3 c d rest ih =>
    intro σ
    have := ih (mtextStep σ (strTag 3 c))
    simp only [List.foldl_cons]
    refine ⟨by rw [this.1]; simp [mtextStep], ?_⟩
    rw [this.2]; simp [mtextStep]

theorem escapeLE_clean (s : Str) : ∀ c ∈ escapeLE s, c ≠ '\r' ∧ c ≠ '\n' := by
  intro c hc
  simp only [escapeLE, List.mem_flatMap, List.mem_filter] at hc
  obtain ⟨x, ⟨_, hx⟩, hcx⟩ := hc
  by_cases hn : x = '\n'
  · simp only [hn, if_true, List.mem_cons, List.not_mem_nil, or_false] at hcx
    rcases hcx with rfl | rfl <;> decide
  · simp only [hn, if_false, List.mem_cons, List.not_mem_nil, or_false] at hcx
    subst hcx
    exact ⟨by simpa using hx, hn⟩

theorem escapeLE_id (s : Str) (h : ∀ c ∈ s, c ≠ '\r' ∧ c ≠ '\n') : escapeLE s = s := by
  induction s with
  | nil => rfl
  | cons c r ih =>
    have hc := h c (by simp)
    have := ih (fun x hx => h x (by simp [hx]))
    simp only [escapeLE] at this ⊢
    simp [List.filter_cons, hc.1, hc.2, this]

theorem escapeLE_idem (s : Str) : escapeLE (escapeLE s) = escapeLE s := escapeLE_id _ (escapeLE_clean s)

theorem mtext_roundtrip' (pre post : List Tag) (text : Str)
    (h1 : ∀ t ∈ pre, mtextFree t = true) (h2 : ∀ t ∈ post, mtextFree t = true) :
    loadMText (pre ++ exportMText text ++ post) = (escapeLE text, pre ++ post) := by
  unfold loadMText exportMText
  simp only [List.foldl_append]
  rw [mtext_free_fold pre h1]
  generalize hσ : ({ tail := [], parts := [], out := [] ++ pre } : MTextSt) = σ0
  have hc := mtext_chunks_fold (Text.splitMText 250 (by decide) (escapeLE text)) σ0
  rw [mtext_free_fold post h2]
  simp only
  rw [hc.1, hc.2, split_join']
  subst hσ
  simp [escapeLE_idem]

/-- C20's `split_chunk_bounds` on the same model function -/
theorem split_bounds' (size : Nat) (h : 2 ≤ size) (s : Str) :
    ∀ c ∈ Text.splitMText size h s, c.length ≤ size := by
  fun_induction Text.splitMText size h s with
  | case1 r hr => simp
  | case2 r hr hlt => intro c hc; simp at hc; subst hc; omega
  | case3 r hr hlt hc ih =>
    intro c hmem
    simp only [List.mem_cons] at hmem
    rcases hmem with rfl | hmem
    · simp only [List.length_dropLast, List.length_take]; omega
    · exact ih c hmem
  | case4 r hr hlt hc ih =>
    intro c hmem
    simp only [List.mem_cons] at hmem
    rcases hmem with rfl | hmem
    · simp only [List.length_take]; omega
    · exact ih c hmem

theorem mtextTags_bounded (n : Nat) (cs : List Str) (h : ∀ c ∈ cs, c.length ≤ n) :
    ∀ t ∈ mtextTags cs, (strOf t.val).length ≤ n ∧ (t.code = 1 ∨ t.code = 3) := by
  fun_induction mtextTags cs with
  | case1 => intro t ht; simp at ht; subst ht; simp [strTag, strOf]
  | case2 c =>
    intro t ht; simp at ht; subst ht
    have := h c (by simp)
    simp [strTag, strOf, this]
  | case3 c d rest ih =>
    intro t ht
    simp only [List.mem_cons] at ht
    rcases ht with rfl | ht
    · have := h c (by simp)
      simp [strTag, strOf, this]
    · exact ih (fun x hx => h x (by simp [hx])) t (by simpa using ht)

theorem mtext_chunks_bounded (text : Str) :
    ∀ t ∈ exportMText text, (strOf t.val).length ≤ 250 ∧ (t.code = 1 ∨ t.code = 3) :=
  mtextTags_bounded 250 _ (split_bounds' 250 (by decide) (escapeLE text))

/-! ### DICTIONARY -/

theorem dictSet_fresh (acc : DItems) (k h : List Nat) (hk : ∀ kv ∈ acc, kv.1 ≠ k) :
    dictSet acc k h = acc ++ [(k, h)] := by
  induction acc with
  | nil => rfl
  | cons x rest ih =>
    have hx := hk x (by simp)
    have := ih (fun y hy => hk y (by simp [hy]))
    obtain ⟨k', h'⟩ := x
    simp only at hx
    simp [dictSet, hx, this]

theorem dict_free_fold (l : List Tag) (h : ∀ t ∈ l, dictFree t = true) (vc : Int) (acc : DItems) :
    l.foldl dictStep ⟨none, none, vc, acc⟩ = ⟨none, none, vc, acc⟩ := by
  induction l with
  | nil => rfl
  | cons t rest ih =>
    have ht := h t (by simp)
    simp only [dictFree, Bool.not_eq_true', Bool.or_eq_false_iff, beq_eq_false_iff_ne] at ht
    rw [List.foldl_cons]
    have : dictStep ⟨none, none, vc, acc⟩ t = ⟨none, none, vc, acc⟩ := by
      simp [dictStep, ht]
    rw [this]; exact ih (fun x hx => h x (by simp [hx]))

theorem dict_pair (vc c : Int) (hc : c = 350 ∨ c = 360) (acc : DItems) (k h : List Nat) :
    [tagS 3 k, tagS c h].foldl dictStep ⟨none, none, vc, acc⟩ = ⟨none, none, c, dictSet acc k h⟩ := by
  rcases hc with rfl | rfl <;> simp [dictStep, tagS, strOf]

theorem dict_items_fold (c : Int) (hc : c = 350 ∨ c = 360) (items : DItems) :
    ∀ (vc : Int) (acc : DItems),
      (acc ++ items).Pairwise (fun a b => a.1 ≠ b.1) →
      (items.flatMap (fun kv => [tagS 3 kv.1, tagS c kv.2])).foldl dictStep ⟨none, none, vc, acc⟩ =
        ⟨none, none, if items = [] then vc else c, acc ++ items⟩ := by
  induction items with
  | nil => intro vc acc _; simp
  | cons kv rest ih =>
    intro vc acc hp
    rw [List.flatMap_cons, List.foldl_append, dict_pair vc c hc acc kv.1 kv.2]
    have hfresh : ∀ x ∈ acc, x.1 ≠ kv.1 := by
      intro x hx
      have := List.pairwise_append.mp hp
      exact this.2.2 x hx kv (by simp)
    rw [dictSet_fresh acc kv.1 kv.2 hfresh]
    have hp' : ((acc ++ [(kv.1, kv.2)]) ++ rest).Pairwise (fun a b => a.1 ≠ b.1) := by
      simpa using hp
    rw [ih c (acc ++ [(kv.1, kv.2)]) hp']
    simp

theorem dict_roundtrip' (pre post : List Tag) (d : Dict)
    (h1 : ∀ t ∈ pre, dictFree t = true) (h2 : ∀ t ∈ post, dictFree t = true)
    (hc : d.valueCode = 350 ∨ d.valueCode = 360)
    (hk : d.items.Pairwise (fun a b => a.1 ≠ b.1)) :
    loadDict (pre ++ exportDict d ++ post) = ⟨if d.items = [] then 350 else d.valueCode, d.items⟩ := by
  unfold loadDict exportDict
  simp only [List.foldl_append]
  rw [dict_free_fold pre h1, dict_items_fold d.valueCode hc d.items 350 [] (by simpa using hk),
    dict_free_fold post h2]
  simp

/-! ### HATCH / MPOLYGON boundary paths -/

theorem takeWhile_block (p : Tag → Bool) (l rest : List Tag) (h : ∀ x ∈ l, p x = true)
    (hr : ∀ t, rest.head? = some t → p t = false) : (l ++ rest).takeWhile p = l := by
  induction l with
  | nil =>
    cases rest with
    | nil => simp
    | cons t r => simp [List.takeWhile_cons, hr t rfl]
  | cons x xs ih =>
    have hx := h x (by simp)
    have := ih (fun y hy => h y (by simp [hy]))
    simp [List.takeWhile_cons, hx, this]

theorem groupAux_free (c : Int) (l rest : List Tag) (h : ∀ t ∈ l, t.code ≠ c) :
    groupAux c (l ++ rest) = (l ++ (groupAux c rest).1, (groupAux c rest).2) := by
  induction l with
  | nil => simp
  | cons x xs ih =>
    have hx : (x.code == c) = false := by simpa using h x (by simp)
    have := ih (fun y hy => h y (by simp [hy]))
    simp [groupAux, hx, this]

/-- a stream of records, each starting with its split tag and free of it otherwise, is cut into exactly these records -/
theorem groupAux_records {α : Type} (c : Int) (f : α → List Tag) (xs : List α)
    (h : ∀ x ∈ xs, ∃ hd b, f x = hd :: b ∧ hd.code = c ∧ ∀ t ∈ b, t.code ≠ c) :
    groupAux c (xs.flatMap f) = ([], xs.map f) := by
  induction xs with
  | nil => simp [groupAux]
  | cons x rest ih =>
    obtain ⟨hd, b, hf, hc, hb⟩ := h x (by simp)
    have ih' := ih (fun y hy => h y (by simp [hy]))
    have hcb : (hd.code == c) = true := by simp [hc]
    simp only [List.flatMap_cons, hf, List.cons_append, groupAux, hcb, if_true, List.map_cons]
    rw [groupAux_free c b _ hb, ih']
    simp

theorem groupTags_records {α : Type} (c : Int) (f : α → List Tag) (xs : List α) (pre : List Tag)
    (hpre : ∀ t ∈ pre, t.code ≠ c)
    (h : ∀ x ∈ xs, ∃ hd b, f x = hd :: b ∧ hd.code = c ∧ ∀ t ∈ b, t.code ≠ c) :
    groupTags c (pre ++ xs.flatMap f) = xs.map f := by
  unfold groupTags
  rw [groupAux_free c pre _ hpre, groupAux_records c f xs h]

@[simp] theorem tagS_val (c : Int) (b : List Nat) : strOf (tagS c b).val = b := rfl

theorem popRev_handles (rs : List (List Nat)) (t : Tag) (ht : t.code = 97) (R : List Tag) :
    ∀ acc, popRev (rs.map (tagS 330) ++ t :: R) acc = (R, rs.reverse ++ acc) := by
  induction rs with
  | nil => intro acc; simp [popRev, ht]
  | cons r rest ih => intro acc; simp [popRev, ih]

/-- the handles written by `export_source_boundary_objects` are popped off again, whatever is in front -/
theorem popSrc_export (body : List Tag) (hs : List (List Nat)) : popSrc (body ++ exportSrc hs) = (body, hs) := by
  unfold popSrc exportSrc
  have e : (body ++ tagN 97 hs.length :: hs.map (tagS 330)).reverse =
      hs.reverse.map (tagS 330) ++ tagN 97 hs.length :: body.reverse := by simp [List.map_reverse]
  rw [e, popRev_handles _ _ rfl]
  simp

theorem popSrc_none (l : List Tag) (t : Tag) (h1 : t.code ≠ 330) (h2 : t.code ≠ 97) :
    popSrc (l ++ [t]) = (l ++ [t], []) := by
  unfold popSrc
  simp [popRev, h1, h2]

/-! #### edges -/

theorem spl_knots (ks : List Nat) : ∀ (d r p : Int) (k : List Nat) (c : List P2) (w : List Nat) (f : List P2) (s e : Option P2),
    (ks.map (tagD 40)).foldl splStep ⟨d, r, p, k, c, w, f, s, e⟩ = ⟨d, r, p, k ++ ks, c, w, f, s, e⟩ := by
  induction ks with
  | nil => intros; simp
  | cons x xs ih => intros; simp [splStep, ih]

theorem spl_ctrl (cs : List P2) : ∀ (d r p : Int) (k : List Nat) (c : List P2) (w : List Nat) (f : List P2) (s e : Option P2),
    (cs.map (tagP2 10)).foldl splStep ⟨d, r, p, k, c, w, f, s, e⟩ = ⟨d, r, p, k, c ++ cs, w, f, s, e⟩ := by
  induction cs with
  | nil => intros; simp
  | cons x xs ih => intros; simp [splStep, ih]

theorem spl_fit (fs : List P2) : ∀ (d r p : Int) (k : List Nat) (c : List P2) (w : List Nat) (f : List P2) (s e : Option P2),
    (fs.map (tagP2 11)).foldl splStep ⟨d, r, p, k, c, w, f, s, e⟩ = ⟨d, r, p, k, c, w, f ++ fs, s, e⟩ := by
  induction fs with
  | nil => intros; simp
  | cons x xs ih => intros; simp [splStep, ih]

theorem spl_rational (pw : List (P2 × Nat)) : ∀ (d r p : Int) (k : List Nat) (c : List P2) (w : List Nat) (f : List P2) (s e : Option P2),
    (pw.flatMap (fun x => [tagP2 10 x.1, tagD 42 x.2])).foldl splStep ⟨d, r, p, k, c, w, f, s, e⟩ =
      ⟨d, r, p, k, c ++ pw.map (·.1), w ++ pw.map (·.2), f, s, e⟩ := by
  induction pw with
  | nil => intros; simp
  | cons x xs ih => intros; simp [splStep, ih]

theorem spl_opt12 (o : Option P2) (d r p : Int) (k : List Nat) (c : List P2) (w : List Nat) (f : List P2) (e : Option P2) :
    (optTag 12 o).foldl splStep ⟨d, r, p, k, c, w, f, none, e⟩ = ⟨d, r, p, k, c, w, f, o, e⟩ := by
  cases o <;> simp [optTag, splStep]

theorem spl_opt13 (o : Option P2) (d r p : Int) (k : List Nat) (c : List P2) (w : List Nat) (f : List P2) (s : Option P2) :
    (optTag 13 o).foldl splStep ⟨d, r, p, k, c, w, f, s, none⟩ = ⟨d, r, p, k, c, w, f, s, o⟩ := by
  cases o <;> simp [optTag, splStep]

theorem spline_edge_roundtrip (comp : Nat → Nat) (sub : P2 → P2 → P2) (r2010 : Bool) (deg rat per : Int)
    (knots : List Nat) (ctrl : List P2) (weights : List Nat) (fit : List P2) (st et : Option P2)
    (hw : weights = [] ∨ weights.length = ctrl.length) :
    loadSplineEdge (edgeBody comp sub r2010 (.spline deg rat per knots ctrl weights fit st et)) =
      canonSpline sub deg per knots ctrl weights fit st et := by
  unfold loadSplineEdge edgeBody canonSpline
  simp only [List.foldl_append, List.foldl_cons, List.foldl_nil]
  generalize (if fit = [] then (st, et) else reqTangents sub ctrl st et) = tg
  have pre : splStep (splStep (splStep (splStep (splStep ⟨3, 0, 0, [], [], [], [], none, none⟩ (tagI 94 deg))
      (tagI 73 (boolInt (weights != [])))) (tagI 74 per)) (tagN 95 knots.length)) (tagN 96 ctrl.length) =
      ⟨deg, boolInt (weights != []), per, [], [], [], [], none, none⟩ := by
    simp [splStep]
  rw [pre, spl_knots]
  have hctrl : (if (weights != []) = true then (ctrl.zip weights).flatMap (fun pw => [tagP2 10 pw.1, tagD 42 pw.2])
      else ctrl.map (tagP2 10)).foldl splStep ⟨deg, boolInt (weights != []), per, [] ++ knots, [], [], [], none, none⟩ =
      ⟨deg, boolInt (weights != []), per, knots, ctrl, weights, [], none, none⟩ := by
    by_cases hwe : weights = []
    · subst hwe; simp [spl_ctrl]
    · have hl : weights.length = ctrl.length := by rcases hw with h | h; exact absurd h hwe; exact h
      have hb : (weights != []) = true := by simpa using hwe
      simp only [hb, if_true]
      rw [spl_rational]
      simp [List.map_fst_zip, List.map_snd_zip, hl]
  rw [hctrl]
  have hfit : (if (fit != []) = true then tagN 97 fit.length :: fit.map (tagP2 11) else if r2010 = true then [tagN 97 0] else []).foldl
      splStep ⟨deg, boolInt (weights != []), per, knots, ctrl, weights, [], none, none⟩ =
      ⟨deg, boolInt (weights != []), per, knots, ctrl, weights, fit, none, none⟩ := by
    by_cases hf : fit = []
    · subst hf; cases r2010 <;> simp [splStep]
    · have hb : (fit != []) = true := by simpa using hf
      simp only [hb, if_true, List.foldl_cons]
      have : splStep ⟨deg, boolInt (weights != []), per, knots, ctrl, weights, [], none, none⟩ (tagN 97 fit.length) =
          ⟨deg, boolInt (weights != []), per, knots, ctrl, weights, [], none, none⟩ := by simp [splStep]
      rw [this, spl_fit]; simp
  rw [hfit, spl_opt12, spl_opt13]
  rfl

theorem edge_roundtrip' (comp : Nat → Nat) (sub : P2 → P2 → P2) (r2010 : Bool) (e : Edge) (h : edgeExportOK e = true) :
    loadEdgeGroup comp (exportEdge comp sub r2010 e) = [canonEdge comp sub e] := by
  cases e with
  | line s e => simp [exportEdge, edgeBody, loadEdgeGroup, edgeType, loadLineEdge, lineStep, canonEdge]
  | arc c r sa ea ccw =>
    cases ccw <;>
      simp [exportEdge, edgeBody, loadEdgeGroup, edgeType, loadArcEdge, arcStep, canonEdge, boolInt, truthVal, tagI, intOf]
  | ellipse c maj ratio sa ea ccw =>
    cases ccw <;>
      simp [exportEdge, edgeBody, loadEdgeGroup, edgeType, loadEllipseEdge, ellipseStep, canonEdge, boolInt, truthVal, tagI, intOf]
  | spline deg rat per knots ctrl weights fit st et =>
    have hw : weights = [] ∨ weights.length = ctrl.length := by
      simp only [edgeExportOK, Bool.and_eq_true, Bool.or_eq_true, beq_iff_eq] at h
      rcases h.1 with h1 | h1
      · exact Or.inl (by simpa using h1)
      · exact Or.inr (by simpa using h1)
    have := spline_edge_roundtrip comp sub r2010 deg rat per knots ctrl weights fit st et hw
    simp only [exportEdge, loadEdgeGroup, edgeType, tagI_val]
    simp [this, canonEdge]

/-- group codes that occur behind the (72, type) tag of an edge -/
def edgeCodes : List Int := [10, 11, 12, 13, 40, 42, 50, 51, 73, 74, 94, 95, 96, 97]

theorem optTag_code (c : Int) (o : Option P2) : ∀ t ∈ optTag c o, t.code = c := by
  cases o <;> simp [optTag]

theorem edgeBody_codes (comp : Nat → Nat) (sub : P2 → P2 → P2) (r2010 : Bool) (e : Edge) :
    ∀ t ∈ edgeBody comp sub r2010 e, edgeCodes.contains t.code = true := by
  intro t ht
  cases e with
  | line s e =>
    simp only [edgeBody, List.mem_cons, List.not_mem_nil, or_false] at ht
    rcases ht with rfl | rfl <;> simp [edgeCodes]
  | arc c r sa ea ccw =>
    simp only [edgeBody, List.mem_cons, List.not_mem_nil, or_false] at ht
    rcases ht with rfl | rfl | rfl | rfl | rfl <;> simp [edgeCodes]
  | ellipse c maj ratio sa ea ccw =>
    simp only [edgeBody, List.mem_cons, List.not_mem_nil, or_false] at ht
    rcases ht with rfl | rfl | rfl | rfl | rfl | rfl <;> simp [edgeCodes]
  | spline deg rat per knots ctrl weights fit st et =>
    simp only [edgeBody, List.mem_append, List.mem_cons, List.not_mem_nil, or_false, List.mem_map] at ht
    rcases ht with ((((h | h) | h) | h) | h) | h
    · rcases h with rfl | rfl | rfl | rfl | rfl <;> simp [edgeCodes]
    · obtain ⟨x, _, rfl⟩ := h; simp [edgeCodes]
    · split at h
      · obtain ⟨x, _, hx⟩ := List.mem_flatMap.mp h
        simp only [List.mem_cons, List.not_mem_nil, or_false] at hx
        rcases hx with rfl | rfl <;> simp [edgeCodes]
      · obtain ⟨x, _, rfl⟩ := List.mem_map.mp h; simp [edgeCodes]
    · split at h
      · simp only [List.mem_cons, List.mem_map] at h
        rcases h with rfl | ⟨x, _, rfl⟩ <;> simp [edgeCodes]
      · split at h
        · simp only [List.mem_cons, List.not_mem_nil, or_false] at h; subst h; simp [edgeCodes]
        · simp at h
    · rw [optTag_code 12 _ t h]; simp [edgeCodes]
    · rw [optTag_code 13 _ t h]; simp [edgeCodes]

theorem edgeCodes_ne (c : Int) (h : edgeCodes.contains c = true) : c ≠ 72 ∧ c ≠ 92 ∧ c ≠ 91 := by
  simp only [edgeCodes, List.contains_eq_mem, List.mem_cons, List.not_mem_nil, or_false, decide_eq_true_eq] at h
  omega

theorem edgeCodes_path (c : Int) (h : edgeCodes.contains c = true) : pathCodes.contains c = true := by
  simp only [edgeCodes, List.contains_eq_mem, List.mem_cons, List.not_mem_nil, or_false, decide_eq_true_eq] at h
  rcases h with rfl | rfl | rfl | rfl | rfl | rfl | rfl | rfl | rfl | rfl | rfl | rfl | rfl | rfl <;> decide

/-- all edges of an edge path come back in order -/
theorem edges_roundtrip' (comp : Nat → Nat) (sub : P2 → P2 → P2) (r2010 : Bool) (pre : List Tag) (es : List Edge)
    (hpre : ∀ t ∈ pre, t.code ≠ 72) (h : ∀ e ∈ es, edgeExportOK e = true) :
    loadEdges comp (pre ++ es.flatMap (exportEdge comp sub r2010)) = es.map (canonEdge comp sub) := by
  unfold loadEdges
  rw [groupTags_records 72 _ es pre hpre]
  · induction es with
    | nil => rfl
    | cons e rest ih =>
      have := ih (fun x hx => h x (by simp [hx]))
      simp only [List.map_cons, List.flatMap_cons, edge_roundtrip' comp sub r2010 e (h e (by simp)), this]
      rfl
  · intro e _
    exact ⟨tagI 72 (edgeType e), edgeBody comp sub r2010 e, rfl, rfl,
      fun t ht => (edgeCodes_ne _ (edgeBody_codes comp sub r2010 e t ht)).1⟩

/-! #### polyline paths -/

theorem poly_verts_bulge (vs : List (Nat × Nat × Nat)) : ∀ (f c : Int) (acc : List (Nat × Nat × Nat)),
    (vs.flatMap (fun v => [tagP2 10 (v.1, v.2.1), tagD 42 v.2.2])).foldl polyStep ⟨f, c, acc, false⟩ =
      ⟨f, c, acc ++ vs, false⟩ := by
  induction vs with
  | nil => intros; simp
  | cons v rest ih =>
    intro f c acc
    obtain ⟨x, y, b⟩ := v
    simp [polyStep, ih, List.dropLast_concat]

theorem poly_verts_plain (vs : List (Nat × Nat × Nat)) : ∀ (f c : Int) (acc : List (Nat × Nat × Nat)),
    (vs.flatMap (fun v => [tagP2 10 (v.1, v.2.1)])).foldl polyStep ⟨f, c, acc, false⟩ =
      ⟨f, c, acc ++ vs.map (fun v => (v.1, v.2.1, 0)), false⟩ := by
  induction vs with
  | nil => intros; simp
  | cons v rest ih =>
    intro f c acc
    obtain ⟨x, y, b⟩ := v
    simp [polyStep, ih]

theorem poly_body_fold (hatch : Bool) (flags closed : Int) (verts : List (Nat × Nat × Nat)) :
    (tagI 92 flags ::
      ((if hatch then [tagI 72 (boolInt (hasBulge verts)), tagI 73 closed]
        else [tagI 73 closed, tagI 72 (boolInt (hasBulge verts))]) ++
      [tagN 93 verts.length] ++
      verts.flatMap (fun v => if hasBulge verts then [tagP2 10 (v.1, v.2.1), tagD 42 v.2.2] else [tagP2 10 (v.1, v.2.1)]))).foldl
      polyStep ⟨0, 0, [], false⟩ =
    ⟨flags, closed, if hasBulge verts then verts else verts.map (fun v => (v.1, v.2.1, 0)), false⟩ := by
  have pre : ((tagI 92 flags ::
      (if hatch then [tagI 72 (boolInt (hasBulge verts)), tagI 73 closed]
        else [tagI 73 closed, tagI 72 (boolInt (hasBulge verts))])) ++ [tagN 93 verts.length]).foldl
      polyStep ⟨0, 0, [], false⟩ = ⟨flags, closed, [], false⟩ := by
    cases hatch <;> simp [polyStep]
  rw [← List.cons_append, ← List.cons_append, List.foldl_append, pre]
  cases hb : hasBulge verts
  · simp only [Bool.false_eq_true, if_false]
    rw [poly_verts_plain]; simp
  · simp only [if_true]
    rw [poly_verts_bulge]; simp

theorem popSrc_keep (l : List Tag) (h : ∀ t ∈ l, t.code ≠ 330 ∧ t.code ≠ 97) : popSrc l = (l, []) := by
  unfold popSrc
  cases hr : l.reverse with
  | nil =>
    have : l = [] := by simpa using hr
    subst this; simp [popRev]
  | cons t r =>
    have hl : l = (t :: r).reverse := by rw [← hr]; simp
    have ht := h t (by rw [hl]; simp)
    simp only [popRev]
    have h1 : (t.code == 330) = false := by simpa using ht.1
    have h2 : (t.code == 97) = false := by simpa using ht.2
    simp [h1, h2, hl]

/-- the body of a polyline path (everything behind the 92 tag, without the source boundary objects) -/
def polyBody (hatch : Bool) (closed : Int) (verts : List (Nat × Nat × Nat)) : List Tag :=
  (if hatch then [tagI 72 (boolInt (hasBulge verts)), tagI 73 closed]
    else [tagI 73 closed, tagI 72 (boolInt (hasBulge verts))]) ++
  [tagN 93 verts.length] ++
  verts.flatMap (fun v => if hasBulge verts then [tagP2 10 (v.1, v.2.1), tagD 42 v.2.2] else [tagP2 10 (v.1, v.2.1)])

def polyCodes : List Int := [10, 42, 72, 73, 93]

theorem polyBody_codes (hatch : Bool) (closed : Int) (verts : List (Nat × Nat × Nat)) :
    ∀ t ∈ polyBody hatch closed verts, polyCodes.contains t.code = true := by
  intro t ht
  simp only [polyBody, List.mem_append, List.mem_cons, List.not_mem_nil, or_false, List.mem_flatMap] at ht
  rcases ht with (h | h) | ⟨v, _, h⟩
  · cases hatch <;> simp at h <;> rcases h with rfl | rfl <;> simp [polyCodes]
  · subst h; simp [polyCodes]
  · split at h <;> simp at h
    · rcases h with rfl | rfl <;> simp [polyCodes]
    · subst h; simp [polyCodes]

theorem polyCodes_facts (c : Int) (h : polyCodes.contains c = true) :
    c ≠ 92 ∧ c ≠ 330 ∧ c ≠ 97 ∧ pathCodes.contains c = true := by
  simp only [polyCodes, List.contains_eq_mem, List.mem_cons, List.not_mem_nil, or_false, decide_eq_true_eq] at h
  rcases h with rfl | rfl | rfl | rfl | rfl <;> decide

theorem exportSrc_codes (hs : List (List Nat)) : ∀ t ∈ exportSrc hs, t.code = 97 ∨ t.code = 330 := by
  intro t ht
  simp only [exportSrc, List.mem_cons, List.mem_map] at ht
  rcases ht with rfl | ⟨x, _, rfl⟩
  · exact Or.inl rfl
  · exact Or.inr rfl

theorem exportPath_poly (comp : Nat → Nat) (sub : P2 → P2 → P2) (r2010 hatch : Bool) (flags closed : Int)
    (verts : List (Nat × Nat × Nat)) (src : List (List Nat)) :
    exportPath comp sub r2010 hatch (.poly flags closed verts src) =
      (tagI 92 flags :: polyBody hatch closed verts) ++ (if hatch then exportSrc src else []) := by
  simp [exportPath, polyBody]

theorem path_roundtrip' (comp : Nat → Nat) (sub : P2 → P2 → P2) (r2010 hatch : Bool) (p : BPath)
    (h : pathOK p = true) :
    loadPath comp (exportPath comp sub r2010 hatch p) = some (canonPath comp sub hatch p) := by
  cases p with
  | poly flags closed verts src =>
    have hb : polyBit flags = true := by simpa [pathOK] using h
    rw [exportPath_poly]
    have hfold := poly_body_fold hatch flags closed verts
    have hpop : popSrc (tagI 92 flags :: (polyBody hatch closed verts ++ (if hatch then exportSrc src else []))) =
        (tagI 92 flags :: polyBody hatch closed verts, if hatch then src else []) := by
      rw [← List.cons_append]
      cases hatch
      · simp only [Bool.false_eq_true, if_false, List.append_nil]
        apply popSrc_keep
        intro t ht
        simp only [List.mem_cons] at ht
        rcases ht with rfl | ht
        · exact ⟨by simp, by simp⟩
        · have := polyCodes_facts _ (polyBody_codes false closed verts t ht)
          exact ⟨this.2.1, this.2.2.1⟩
      · simp only [if_true]; exact popSrc_export _ _
    simp only [List.cons_append, loadPath, tagI_val, hb, if_true, hpop]
    have e : tagI 92 flags :: polyBody hatch closed verts = tagI 92 flags ::
        ((if hatch then [tagI 72 (boolInt (hasBulge verts)), tagI 73 closed]
          else [tagI 73 closed, tagI 72 (boolInt (hasBulge verts))]) ++ [tagN 93 verts.length] ++
        verts.flatMap (fun v => if hasBulge verts then [tagP2 10 (v.1, v.2.1), tagD 42 v.2.2] else [tagP2 10 (v.1, v.2.1)])) := rfl
    rw [e, hfold]
    simp [canonPath]
  | edges flags es src =>
    have hb : polyBit flags = false := by
      have : (!polyBit flags && es.all edgeExportOK) = true := by simpa [pathOK] using h
      simp only [Bool.and_eq_true, Bool.not_eq_true'] at this; exact this.1
    have hes : ∀ e ∈ es, edgeExportOK e = true := by
      have : (!polyBit flags && es.all edgeExportOK) = true := by simpa [pathOK] using h
      simp only [Bool.and_eq_true, List.all_eq_true] at this; exact this.2
    have e : exportPath comp sub r2010 hatch (.edges flags es src) =
        ([tagI 92 flags, tagN 93 es.length] ++ es.flatMap (exportEdge comp sub r2010)) ++ exportSrc src := by
      simp [exportPath]
    have hload : loadPath comp (([tagI 92 flags, tagN 93 es.length] ++ es.flatMap (exportEdge comp sub r2010)) ++ exportSrc src) =
        some (.edges flags (loadEdges comp ([tagI 92 flags, tagN 93 es.length] ++ es.flatMap (exportEdge comp sub r2010))) src) := by
      simp only [List.cons_append, List.nil_append, loadPath, tagI_val, hb, Bool.false_eq_true, if_false]
      have := popSrc_export (tagI 92 flags :: tagN 93 es.length :: es.flatMap (exportEdge comp sub r2010)) src
      simp only [List.cons_append] at this
      rw [this]
    rw [e, hload, edges_roundtrip' comp sub r2010 _ es (by intro t ht; simp at ht; rcases ht with rfl | rfl <;> simp) hes]
    rfl

/-- every tag of an exported path carries a group code of `PATH_CODES`, only the first one is a 92 tag -/
theorem exportPath_shape (comp : Nat → Nat) (sub : P2 → P2 → P2) (r2010 hatch : Bool) (p : BPath) :
    ∃ hd b, exportPath comp sub r2010 hatch p = hd :: b ∧ hd.code = 92 ∧
      (∀ t ∈ b, t.code ≠ 92) ∧ (∀ t ∈ b, pathCodes.contains t.code = true) := by
  cases p with
  | poly flags closed verts src =>
    refine ⟨tagI 92 flags, polyBody hatch closed verts ++ (if hatch then exportSrc src else []), ?_, rfl, ?_, ?_⟩
    · rw [exportPath_poly]; rfl
    · intro t ht
      rcases List.mem_append.mp ht with h | h
      · exact (polyCodes_facts _ (polyBody_codes hatch closed verts t h)).1
      · cases hatch
        · simp at h
        · rcases exportSrc_codes src t (by simpa using h) with h | h <;> omega
    · intro t ht
      rcases List.mem_append.mp ht with h | h
      · exact (polyCodes_facts _ (polyBody_codes hatch closed verts t h)).2.2.2
      · cases hatch
        · simp at h
        · rcases exportSrc_codes src t (by simpa using h) with h | h <;> simp [h, pathCodes]
  | edges flags es src =>
    refine ⟨tagI 92 flags, tagN 93 es.length :: es.flatMap (exportEdge comp sub r2010) ++ exportSrc src, rfl, rfl, ?_, ?_⟩
    · intro t ht
      simp only [List.cons_append, List.mem_cons, List.mem_append, List.mem_flatMap] at ht
      rcases ht with rfl | ⟨e, _, he⟩ | h
      · simp
      · simp only [exportEdge, List.mem_cons] at he
        rcases he with rfl | he
        · simp
        · exact (edgeCodes_ne _ (edgeBody_codes comp sub r2010 e t he)).2.1
      · rcases exportSrc_codes src t h with h | h <;> omega
    · intro t ht
      simp only [List.cons_append, List.mem_cons, List.mem_append, List.mem_flatMap] at ht
      rcases ht with rfl | ⟨e, _, he⟩ | h
      · simp [pathCodes]
      · simp only [exportEdge, List.mem_cons] at he
        rcases he with rfl | he
        · simp [pathCodes]
        · exact edgeCodes_path _ (edgeBody_codes comp sub r2010 e t he)
      · rcases exportSrc_codes src t h with h | h <;> simp [h, pathCodes]

theorem mapM_some {α β : Type} (f : α → Option β) (g : α → β) (l : List α) (h : ∀ x ∈ l, f x = some (g x)) :
    l.mapM f = some (l.map g) := by
  induction l with
  | nil => rfl
  | cons x rest ih =>
    have := ih (fun y hy => h y (by simp [hy]))
    simp [List.mapM_cons, h x (by simp), this]

theorem paths_roundtrip' (comp : Nat → Nat) (sub : P2 → P2 → P2) (r2010 hatch : Bool) (ps : List BPath)
    (h : ∀ p ∈ ps, pathOK p = true) :
    loadPaths comp (exportPaths comp sub r2010 hatch ps) = some (ps.map (canonPath comp sub hatch)) := by
  unfold loadPaths exportPaths
  have := groupTags_records 92 (exportPath comp sub r2010 hatch) ps [] (by simp)
    (by intro p _; obtain ⟨hd, b, e, hc, hb, _⟩ := exportPath_shape comp sub r2010 hatch p; exact ⟨hd, b, e, hc, hb⟩)
  simp only [List.nil_append] at this
  rw [this, List.mapM_map]
  exact mapM_some _ _ ps (fun p hp => path_roundtrip' comp sub r2010 hatch p (h p hp))

theorem exportPaths_codes (comp : Nat → Nat) (sub : P2 → P2 → P2) (r2010 hatch : Bool) (ps : List BPath) :
    ∀ t ∈ exportPaths comp sub r2010 hatch ps, pathCodes.contains t.code = true := by
  intro t ht
  obtain ⟨p, _, hp⟩ := List.mem_flatMap.mp ht
  obtain ⟨hd, b, e, hc, _, hb⟩ := exportPath_shape comp sub r2010 hatch p
  rw [e] at hp
  rcases List.mem_cons.mp hp with rfl | hp
  · simp [hc, pathCodes]
  · exact hb t hp

theorem hatch_paths_roundtrip' (codes : List Int) (comp : Nat → Nat) (sub : P2 → P2 → P2) (r2010 hatch : Bool)
    (old ps : List BPath) (pre post : List Tag) (n : Int)
    (hcodes : ∀ c, pathCodes.contains c = true → codes.contains c = true)
    (hpre : ∀ t ∈ pre, t.code ≠ 91) (hpost : ∀ t, post.head? = some t → codes.contains t.code = false)
    (h : ∀ p ∈ ps, pathOK p = true) :
    loadHatchPaths codes comp old (pre ++ tagI 91 n :: (exportPaths comp sub r2010 hatch ps ++ post)) =
      some (if ps = [] then old else ps.map (canonPath comp sub hatch), pre ++ post) := by
  unfold loadHatchPaths
  rw [cutAt_append 91 pre _ _ (by intro x hx; simpa using hpre x hx) rfl]
  simp only
  rw [takeWhile_block _ _ _ (fun t ht => hcodes _ (exportPaths_codes comp sub r2010 hatch ps t ht)) hpost]
  simp only [List.drop_left]
  cases ps with
  | nil => simp [exportPaths]
  | cons p rest =>
    obtain ⟨hd, b, e, hc, _, _⟩ := exportPath_shape comp sub r2010 hatch p
    have hrt := paths_roundtrip' comp sub r2010 hatch (p :: rest) h
    have e2 : exportPaths comp sub r2010 hatch (p :: rest) = hd :: (b ++ exportPaths comp sub r2010 hatch rest) := by
      simp [exportPaths, e]
    rw [e2] at hrt ⊢
    simp only [hc, beq_self_eq_true, if_true, hrt]
    simp

/-! #### seed points, pattern lines -/

theorem seeds_roundtrip' (old seeds : List P2) (pre post : List Tag)
    (hpre : ∀ t ∈ pre, t.code ≠ 98)
    (hpost : ∀ t, post.head? = some t → t.code ≠ 98 ∧ t.code ≠ 10 ∧ t.code ≠ 20) :
    loadSeeds old (pre ++ exportSeeds seeds ++ post) = (seeds, pre ++ post.drop 1) := by
  unfold loadSeeds exportSeeds
  have e : pre ++ tagN 98 seeds.length :: seeds.map (tagP2 10) ++ post =
      pre ++ tagN 98 seeds.length :: (seeds.map (tagP2 10) ++ post) := by simp
  rw [e, cutAt_append 98 pre _ _ (by intro x hx; simpa using hpre x hx) rfl]
  simp only
  rw [takeWhile_block _ (seeds.map (tagP2 10)) post
    (by intro t ht; obtain ⟨x, _, rfl⟩ := List.mem_map.mp ht; simp)
    (by intro t ht; have := hpost t ht; simp [this])]
  rw [filter_all _ _ (by intro t ht; obtain ⟨x, _, rfl⟩ := List.mem_map.mp ht; simp)]
  simp [List.map_map, Function.comp_def, List.drop_append]

theorem pl_dashes (ds : List Nat) : ∀ (a bx by_ ox oy : Nat) (acc : List Nat),
    (ds.map (tagD 49)).foldl plStep ⟨a, bx, by_, ox, oy, acc⟩ = ⟨a, bx, by_, ox, oy, acc ++ ds⟩ := by
  induction ds with
  | nil => intros; simp
  | cons d rest ih => intros; simp [plStep, ih]

theorem pline_roundtrip (l : PLine) : loadPLine (exportPLine l) = l := by
  obtain ⟨a, ⟨bx, by_⟩, ⟨ox, oy⟩, ds⟩ := l
  unfold loadPLine exportPLine
  simp only [List.foldl_append, List.foldl_cons, List.foldl_nil]
  have pre : plStep (plStep (plStep (plStep (plStep (plStep ⟨0, 0, 0, 0, 0, []⟩ (tagD 53 a)) (tagD 43 bx)) (tagD 44 by_))
      (tagD 45 ox)) (tagD 46 oy)) (tagN 79 ds.length) = ⟨a, bx, by_, ox, oy, []⟩ := by
    simp [plStep]
  rw [pre, pl_dashes]; simp

theorem pattern_roundtrip' (ls : List PLine) : loadPattern (exportPattern ls) = ls := by
  unfold loadPattern exportPattern
  have := groupTags_records 53 exportPLine ls [] (by simp) (by
    intro l _
    refine ⟨tagD 53 l.angle, [tagD 43 l.base.1, tagD 44 l.base.2, tagD 45 l.offset.1, tagD 46 l.offset.2,
      tagN 79 l.dashes.length] ++ l.dashes.map (tagD 49), rfl, rfl, ?_⟩
    intro t ht
    simp only [List.mem_append, List.mem_cons, List.not_mem_nil, or_false, List.mem_map] at ht
    rcases ht with (rfl | rfl | rfl | rfl | rfl) | ⟨x, _, rfl⟩ <;> simp)
  simp only [List.nil_append] at this
  rw [this, List.map_map]
  conv => rhs; rw [← List.map_id ls]
  exact List.map_congr_left (fun l _ => pline_roundtrip l)

theorem exportPattern_codes (ls : List PLine) : ∀ t ∈ exportPattern ls, plineCodes.contains t.code = true := by
  intro t ht
  obtain ⟨l, _, hl⟩ := List.mem_flatMap.mp ht
  simp only [exportPLine, List.mem_append, List.mem_cons, List.not_mem_nil, or_false, List.mem_map] at hl
  rcases hl with (rfl | rfl | rfl | rfl | rfl | rfl) | ⟨x, _, rfl⟩ <;> simp [plineCodes]

theorem hatch_pattern_roundtrip' (codes : List Int) (ls : List PLine) (pre post : List Tag) (n : Int)
    (hcodes : ∀ c, plineCodes.contains c = true → codes.contains c = true)
    (hpre : ∀ t ∈ pre, t.code ≠ 78) (hpost : ∀ t, post.head? = some t → codes.contains t.code = false) :
    loadHatchPattern codes (pre ++ tagI 78 n :: (exportPattern ls ++ post)) = (some ls, pre ++ post) := by
  unfold loadHatchPattern
  rw [cutAt_append 78 pre _ _ (by intro x hx; simpa using hpre x hx) rfl]
  simp only
  rw [takeWhile_block _ _ _ (fun t ht => hcodes _ (exportPattern_codes ls t ht)) hpost]
  simp [pattern_roundtrip']

/-! ### LEADER, GROUP, IMAGE boundary, MLINE vertices -/

theorem leader_fold (tags : List Tag) : ∀ σ : List P3 × List Tag,
    tags.foldl leaderStep σ =
      (σ.1 ++ (tags.filter (·.code == 10)).map (fun t => p3Of t.val), σ.2 ++ tags.filter leaderFree) := by
  induction tags with
  | nil => intro σ; simp
  | cons t rest ih =>
    intro σ
    rw [List.foldl_cons, ih]
    by_cases h10 : t.code = 10
    · simp [leaderStep, leaderFree, h10]
    · by_cases h76 : t.code = 76
      · simp [leaderStep, leaderFree, h76]
      · simp [leaderStep, leaderFree, h10, h76]

theorem leader_roundtrip' (pre post : List Tag) (vs : List P3)
    (h1 : ∀ t ∈ pre, leaderFree t = true) (h2 : ∀ t ∈ post, leaderFree t = true) :
    loadLeader (pre ++ exportLeader vs ++ post) = (vs, pre ++ post) := by
  unfold loadLeader exportLeader
  rw [leader_fold]
  have f1 : ∀ l : List Tag, (∀ t ∈ l, leaderFree t = true) → l.filter (·.code == 10) = [] ∧ l.filter leaderFree = l := by
    intro l hl
    refine ⟨filter_none _ _ ?_, filter_all _ _ hl⟩
    intro t ht
    have := hl t ht
    simp only [leaderFree, Bool.not_eq_true', Bool.or_eq_false_iff, beq_eq_false_iff_ne] at this
    simp [this.1]
  have fv10 : (vs.map (tagP3 10)).filter (·.code == 10) = vs.map (tagP3 10) :=
    filter_all _ _ (by intro t ht; obtain ⟨x, _, rfl⟩ := List.mem_map.mp ht; simp)
  have fvf : (vs.map (tagP3 10)).filter leaderFree = [] :=
    filter_none _ _ (by intro t ht; obtain ⟨x, _, rfl⟩ := List.mem_map.mp ht; simp [leaderFree])
  simp only [List.filter_append, List.filter_cons, (f1 pre h1).1, (f1 pre h1).2, (f1 post h2).1, (f1 post h2).2, fv10, fvf]
  simp [leaderFree, List.map_map, Function.comp_def]

theorem group_fold_fresh (hs : List (List Nat)) : ∀ acc : List (List Nat), (acc ++ hs).Nodup →
    (hs.map (tagS 340)).foldl groupStep acc = acc ++ hs := by
  induction hs with
  | nil => intro acc _; simp
  | cons h rest ih =>
    intro acc hn
    have hnot : acc.contains h = false := by
      have := (List.nodup_append.mp hn).2.2
      simp only [List.contains_eq_mem, decide_eq_false_iff_not]
      intro hm
      exact this h hm h (by simp) rfl
    have hn' : ((acc ++ [h]) ++ rest).Nodup := by simpa using hn
    simp only [List.map_cons, List.foldl_cons, groupStep, tagS_code, beq_self_eq_true, if_true, tagS_val, hnot,
      Bool.false_eq_true, if_false]
    rw [ih (acc ++ [h]) hn']; simp

theorem group_other (l : List Tag) (h : ∀ t ∈ l, t.code ≠ 340) (acc : List (List Nat)) : l.foldl groupStep acc = acc := by
  induction l with
  | nil => rfl
  | cons t rest ih =>
    have ht : (t.code == 340) = false := by simpa using h t (by simp)
    simp only [List.foldl_cons, groupStep, ht, Bool.false_eq_true, if_false]
    exact ih (fun x hx => h x (by simp [hx]))

theorem group_roundtrip' (pre post : List Tag) (hs : List (List Nat)) (hn : hs.Nodup)
    (h1 : ∀ t ∈ pre, t.code ≠ 340) (h2 : ∀ t ∈ post, t.code ≠ 340) :
    loadGroup (pre ++ exportGroup hs ++ post) = hs := by
  unfold loadGroup exportGroup
  simp only [List.foldl_append]
  rw [group_other pre h1, group_fold_fresh hs [] (by simpa using hn), group_other post h2]
  simp

theorem image_roundtrip' (pre post : List Tag) (path : List P2)
    (h1 : ∀ t ∈ pre, t.code ≠ 14) (h2 : ∀ t ∈ post, t.code ≠ 14) :
    loadImageBoundary (pre ++ exportImageBoundary path ++ post) = (path, pre ++ post) := by
  unfold loadImageBoundary exportImageBoundary
  have a1 : pre.filter (·.code == 14) = [] := filter_none _ _ (by intro t ht; simpa using h1 t ht)
  have a2 : post.filter (·.code == 14) = [] := filter_none _ _ (by intro t ht; simpa using h2 t ht)
  have b1 : pre.filter (fun t => !(t.code == 14)) = pre := filter_all _ _ (by intro t ht; simpa using h1 t ht)
  have b2 : post.filter (fun t => !(t.code == 14)) = post := filter_all _ _ (by intro t ht; simpa using h2 t ht)
  have c1 : (path.map (tagP2 14)).filter (·.code == 14) = path.map (tagP2 14) :=
    filter_all _ _ (by intro t ht; obtain ⟨x, _, rfl⟩ := List.mem_map.mp ht; simp)
  have c2 : (path.map (tagP2 14)).filter (fun t => !(t.code == 14)) = [] :=
    filter_none _ _ (by intro t ht; obtain ⟨x, _, rfl⟩ := List.mem_map.mp ht; simp)
  simp only [List.filter_append, a1, a2, b1, b2, c1, c2]
  simp [List.map_map, Function.comp_def]

/-- a run of `n` parameter values behind the (74, n) tag, n > 0 -/
theorem mv_line_run (xs : List Nat) (x : Nat) : ∀ (v : MVertex) (acc fp : List Nat) (fc : Int),
    ((x :: xs).map (tagD 41)).foldl mvStep ⟨v, acc, ((x :: xs).length : Int), fp, fc⟩ =
      ⟨{ v with lps := v.lps ++ [acc ++ x :: xs] }, [], 0, fp, fc⟩ := by
  induction xs generalizing x with
  | nil =>
    intro v acc fp fc
    simp [mvStep]
  | cons y ys ih =>
    intro v acc fp fc
    have hne : ((((y :: ys).length + 1 : Nat) : Int) - 1 == 0) = false := by
      simp only [beq_eq_false_iff_ne, ne_eq, List.length_cons]; omega
    have hsub : (((y :: ys).length + 1 : Nat) : Int) - 1 = ((y :: ys).length : Int) := by
      simp only [List.length_cons]; omega
    rw [List.map_cons, List.foldl_cons]
    have step1 : mvStep ⟨v, acc, ((x :: y :: ys).length : Int), fp, fc⟩ (tagD 41 x) =
        ⟨v, acc ++ [x], ((y :: ys).length : Int), fp, fc⟩ := by
      have hpos : (ys.length : Int) + 1 ≠ 0 := by omega
      simp only [List.length_cons] at hne hsub ⊢
      simp [mvStep, hpos]
    rw [step1, ih y v (acc ++ [x]) fp fc]
    simp

theorem mv_fill_run (xs : List Nat) (x : Nat) : ∀ (v : MVertex) (lp acc : List Nat) (lc : Int),
    ∃ fp', ((x :: xs).map (tagD 42)).foldl mvStep ⟨v, lp, lc, acc, ((x :: xs).length : Int)⟩ =
      ⟨{ v with fps := v.fps ++ [acc ++ x :: xs] }, lp, lc, fp', 0⟩ := by
  induction xs generalizing x with
  | nil =>
    intro v lp acc lc
    exact ⟨acc ++ [x], by simp [mvStep]⟩
  | cons y ys ih =>
    intro v lp acc lc
    have hne : ((((y :: ys).length + 1 : Nat) : Int) - 1 == 0) = false := by
      simp only [beq_eq_false_iff_ne, ne_eq, List.length_cons]; omega
    have hsub : (((y :: ys).length + 1 : Nat) : Int) - 1 = ((y :: ys).length : Int) := by
      simp only [List.length_cons]; omega
    rw [List.map_cons, List.foldl_cons]
    have step1 : mvStep ⟨v, lp, lc, acc, ((x :: y :: ys).length : Int)⟩ (tagD 42 x) =
        ⟨v, lp, lc, acc ++ [x], ((y :: ys).length : Int)⟩ := by
      have hpos : (ys.length : Int) + 1 ≠ 0 := by omega
      simp only [List.length_cons] at hne hsub ⊢
      simp [mvStep, hpos]
    rw [step1]
    obtain ⟨fp', h⟩ := ih y v lp (acc ++ [x]) lc
    exact ⟨fp', by rw [h]; simp⟩

/-- one (line parameters, fill parameters) pair -/
theorem mv_pair (l f : List Nat) (σ : MVSt) :
    ∃ lp' fp', (mvParams (l, f)).foldl mvStep σ =
      ⟨{ σ.v with lps := σ.v.lps ++ [l], fps := σ.v.fps ++ [f] }, lp', 0, fp', 0⟩ := by
  obtain ⟨v, lp, lc, fp, fc⟩ := σ
  unfold mvParams
  simp only [List.foldl_append, List.foldl_cons]
  -- line parameters
  have hl : ∃ lp1, (l.map (tagD 41)).foldl mvStep (mvStep ⟨v, lp, lc, fp, fc⟩ (tagN 74 l.length)) =
      ⟨{ v with lps := v.lps ++ [l] }, lp1, 0, fp, fc⟩ := by
    cases l with
    | nil => exact ⟨lp, by simp [mvStep]⟩
    | cons x xs =>
      have h0 : (((x :: xs).length : Nat) : Int) ≠ 0 := by simp only [List.length_cons]; omega
      have s1 : mvStep ⟨v, lp, lc, fp, fc⟩ (tagN 74 (x :: xs).length) = ⟨v, [], ((x :: xs).length : Int), fp, fc⟩ := by
        have hpos : (xs.length : Int) + 1 ≠ 0 := by omega
        simp only [mvStep, tagN_code, tagN_val]
        simp [hpos]
      rw [s1, mv_line_run xs x v [] fp fc]
      exact ⟨[], by simp⟩
  obtain ⟨lp1, hl⟩ := hl
  rw [hl]
  cases f with
  | nil => exact ⟨lp1, fp, by simp [mvStep]⟩
  | cons x xs =>
    have h0 : (((x :: xs).length : Nat) : Int) ≠ 0 := by simp only [List.length_cons]; omega
    have s1 : mvStep ⟨{ v with lps := v.lps ++ [l] }, lp1, 0, fp, fc⟩ (tagN 75 (x :: xs).length) =
        ⟨{ v with lps := v.lps ++ [l] }, lp1, 0, [], ((x :: xs).length : Int)⟩ := by
      have hpos : (xs.length : Int) + 1 ≠ 0 := by omega
      simp only [mvStep, tagN_code, tagN_val]
      simp [hpos]
    rw [s1]
    obtain ⟨fp', h⟩ := mv_fill_run xs x { v with lps := v.lps ++ [l] } lp1 [] 0
    exact ⟨lp1, fp', by rw [h]; simp⟩

theorem mv_pairs (ps : List (List Nat × List Nat)) : ∀ σ : MVSt,
    ((ps.flatMap mvParams).foldl mvStep σ).v =
      { σ.v with lps := σ.v.lps ++ ps.map (·.1), fps := σ.v.fps ++ ps.map (·.2) } := by
  induction ps with
  | nil => intro σ; simp
  | cons p rest ih =>
    intro σ
    obtain ⟨l, f⟩ := p
    obtain ⟨lp', fp', h⟩ := mv_pair l f σ
    rw [List.flatMap_cons, List.foldl_append, h, ih]
    simp

theorem mvertex_roundtrip (v : MVertex) (h : v.lps.length = v.fps.length) : loadMVertex (exportMVertex v) = v := by
  obtain ⟨loc, dir, miter, lps, fps⟩ := v
  simp only at h
  unfold loadMVertex exportMVertex
  simp only [List.foldl_cons]
  have pre : mvStep (mvStep (mvStep ⟨⟨(0, 0, 0), (one, 0, 0), (0, one, 0), [], []⟩, [], 0, [], 0⟩ (tagP3 11 loc)) (tagP3 12 dir))
      (tagP3 13 miter) = ⟨⟨loc, dir, miter, [], []⟩, [], 0, [], 0⟩ := by
    simp [mvStep]
  rw [pre, mv_pairs]
  simp [List.map_fst_zip, List.map_snd_zip, h]

theorem mline_roundtrip' (pre : List Tag) (vs : List MVertex) (hpre : ∀ t ∈ pre, t.code ≠ 11)
    (h : ∀ v ∈ vs, v.lps.length = v.fps.length) : loadMLine (pre ++ exportMLine vs) = vs := by
  unfold loadMLine exportMLine
  rw [groupTags_records 11 exportMVertex vs pre hpre]
  · rw [List.map_map]
    conv => rhs; rw [← List.map_id vs]
    exact List.map_congr_left (fun v hv => mvertex_roundtrip v (h v hv))
  · intro v _
    refine ⟨tagP3 11 v.loc, tagP3 12 v.dir :: tagP3 13 v.miter :: (v.lps.zip v.fps).flatMap mvParams, rfl, rfl, ?_⟩
    intro t ht
    simp only [List.mem_cons, List.mem_flatMap] at ht
    rcases ht with rfl | rfl | ⟨p, _, hp⟩
    · simp
    · simp
    · simp only [mvParams, List.mem_cons, List.mem_append, List.mem_map] at hp
      rcases hp with (rfl | ⟨x, _, rfl⟩) | (rfl | ⟨x, _, rfl⟩) <;> simp

/-! ### second cycle: the canonical forms are fixed points -/

theorem reqTangents_idem (sub : P2 → P2 → P2) (ctrl : List P2) (st et : Option P2) :
    reqTangents sub ctrl (reqTangents sub ctrl st et).1 (reqTangents sub ctrl st et).2 = reqTangents sub ctrl st et := by
  unfold reqTangents
  split <;> simp

theorem canonEdge_idem (comp : Nat → Nat) (sub : P2 → P2 → P2)
    (hcomp : ∀ x, comp (comp (comp (comp x))) = comp (comp x)) (e : Edge) :
    canonEdge comp sub (canonEdge comp sub e) = canonEdge comp sub e := by
  cases e with
  | line s e => rfl
  | arc c r sa ea ccw => cases ccw <;> simp [canonEdge, hcomp]
  | ellipse c maj ratio sa ea ccw => cases ccw <;> simp [canonEdge, hcomp]
  | spline deg rat per knots ctrl weights fit st et =>
    simp only [canonEdge, canonSpline]
    by_cases hf : fit = []
    · simp [hf]
    · simp only [hf, if_false]
      rw [reqTangents_idem]

theorem hasBulge_zeroed (verts : List (Nat × Nat × Nat)) : hasBulge (verts.map (fun v => (v.1, v.2.1, 0))) = false := by
  simp [hasBulge, isZero]

theorem canonPath_idem (comp : Nat → Nat) (sub : P2 → P2 → P2) (hatch : Bool)
    (hcomp : ∀ x, comp (comp (comp (comp x))) = comp (comp x)) (p : BPath) :
    canonPath comp sub hatch (canonPath comp sub hatch p) = canonPath comp sub hatch p := by
  cases p with
  | poly flags closed verts src =>
    simp only [canonPath]
    cases hb : hasBulge verts
    · simp [hasBulge_zeroed, List.map_map, Function.comp_def]
      cases hatch <;> simp
    · simp [hb]
      cases hatch <;> simp
  | edges flags es src =>
    simp only [canonPath, List.map_map, BPath.edges.injEq, true_and, and_true]
    apply List.map_congr_left
    intro e _
    exact canonEdge_idem comp sub hcomp e

theorem edgeExportOK_canon (comp : Nat → Nat) (sub : P2 → P2 → P2) (e : Edge) :
    edgeExportOK (canonEdge comp sub e) = edgeExportOK e := by
  cases e with
  | line s e => rfl
  | arc c r sa ea ccw => cases ccw <;> rfl
  | ellipse c maj ratio sa ea ccw => cases ccw <;> rfl
  | spline deg rat per knots ctrl weights fit st et => rfl

theorem pathOK_canon (comp : Nat → Nat) (sub : P2 → P2 → P2) (hatch : Bool) (p : BPath) :
    pathOK (canonPath comp sub hatch p) = pathOK p := by
  cases p with
  | poly flags closed verts src => rfl
  | edges flags es src =>
    simp only [canonPath, pathOK, List.all_map]
    congr 1
    apply List.all_congr rfl
    intro e
    simp [edgeExportOK_canon]

/-! ### the whole AcDbHatch subclass -/

theorem hatchFree_facts {t : Tag} (h : hatchFree t = true) : t.code ≠ 91 ∧ t.code ≠ 450 ∧ t.code ≠ 78 ∧ t.code ≠ 98 := by
  simp only [hatchFree, Bool.not_eq_true', Bool.or_eq_false_iff, beq_eq_false_iff_ne] at h
  exact ⟨h.1.1.1, h.1.1.2, h.1.2, h.2⟩

theorem takeWhile_all (p : Tag → Bool) (l rest : List Tag) (hl : ∀ t ∈ l, p t = true)
    (hr : ∀ t, rest.head? = some t → p t = false) :
    (l ++ rest).takeWhile p = l ∧ (l ++ rest).dropWhile p = rest := by
  induction l with
  | nil =>
    cases rest with
    | nil => simp
    | cons x r => simp [List.takeWhile_cons, List.dropWhile_cons, hr x rfl]
  | cons a as ih =>
    have ha := hl a (by simp)
    have := ih (fun x hx => hl x (by simp [hx]))
    simp [List.takeWhile_cons, List.dropWhile_cons, ha, this.1, this.2]

theorem cutAt_none (c : Int) (l : List Tag) (h : ∀ t ∈ l, t.code ≠ c) : cutAt c l = none := by
  induction l with
  | nil => rfl
  | cons x xs ih =>
    have hx : (x.code == c) = false := by simpa using h x (by simp)
    simp [cutAt, hx, ih (fun y hy => h y (by simp [hy]))]

theorem exportSeeds_codes (seeds : List P2) : ∀ t ∈ exportSeeds seeds, t.code = 98 ∨ t.code = 10 := by
  intro t ht
  simp only [exportSeeds, List.mem_cons, List.mem_map] at ht
  rcases ht with rfl | ⟨x, _, rfl⟩
  · exact Or.inl rfl
  · exact Or.inr rfl

theorem plineCodes_facts (c : Int) (h : plineCodes.contains c = true) : c ≠ 450 ∧ c ≠ 78 ∧ c ≠ 98 := by
  simp only [plineCodes, List.contains_eq_mem, List.mem_cons, List.not_mem_nil, or_false, decide_eq_true_eq] at h
  omega

/-- **the whole HATCH payload**: boundary paths, pattern lines, seed points and the gradient tags are separated in the order
    `load_paths`, `load_gradient`, `load_pattern`, `load_seeds`; the four runs of attribute tags are what the attribute
    loader gets.  (The loader's surplus delete behind the seed points meets no tag because the gradient is cut off before.) -/
theorem hatch_all_roundtrip' (pc plc : List Int) (comp : Nat → Nat) (sub : P2 → P2 → P2) (r2010 : Bool)
    (a1 a2 a3 a4 g : List Tag) (n : Int) (paths : List BPath) (pat : Option (Int × List PLine)) (seeds : List P2)
    (hpc : ∀ c, pathCodes.contains c = true → pc.contains c = true)
    (hplc : ∀ c, plineCodes.contains c = true → plc.contains c = true)
    (h1 : ∀ t ∈ a1, hatchFree t = true) (h2 : ∀ t ∈ a2, hatchFree t = true) (h3 : ∀ t ∈ a3, hatchFree t = true)
    (h4 : ∀ t ∈ a4, hatchFree t = true)
    (h2h : ∃ t r, a2 = t :: r ∧ pc.contains t.code = false)
    (h4h : ∃ t r, a4 = t :: r ∧ plc.contains t.code = false)
    (hg : ∀ t, g.head? = some t → t.code = 450)
    (hp : ∀ p ∈ paths, pathOK p = true) (hne : paths ≠ [])
    (hls : ∀ m ls, pat = some (m, ls) → ls ≠ []) :
    loadHatchAll pc plc comp (exportHatchAll comp sub r2010 a1 a2 a3 a4 g n paths pat seeds) =
      some (⟨paths.map (canonPath comp sub true), g, pat.map (·.2), seeds⟩,
        a1 ++ (a2 ++ (patAttrs a3 pat ++ a4))) := by
  obtain ⟨t2, r2, ha2, ht2⟩ := h2h
  obtain ⟨t4, r4, ha4, ht4⟩ := h4h
  unfold loadHatchAll exportHatchAll
  -- boundary paths
  rw [hatch_paths_roundtrip' pc comp sub r2010 true [] paths a1 _ n hpc
    (fun t ht => (hatchFree_facts (h1 t ht)).1) (by intro t ht; rw [ha2] at ht; simp at ht; subst ht; exact ht2) hp]
  simp only [hne, if_false]
  -- the tags in front of the gradient
  have patTags : ∀ t ∈ patPart a3 pat, t.code ≠ 450 ∧ t.code ≠ 98 := by
    intro t ht
    cases pat with
    | none => simp [patPart] at ht
    | some ml =>
      obtain ⟨m, ls⟩ := ml
      have hl := hls m ls rfl
      simp only [patPart, hl, if_false, List.mem_append, List.mem_cons] at ht
      rcases ht with h | rfl | h
      · exact ⟨(hatchFree_facts (h3 t h)).2.1, (hatchFree_facts (h3 t h)).2.2.2⟩
      · exact ⟨by simp, by simp⟩
      · have := plineCodes_facts _ (exportPattern_codes ls t h); exact ⟨this.1, this.2.2⟩
  have front450 : ∀ t ∈ a1 ++ (a2 ++ (patPart a3 pat ++
      (a4 ++ exportSeeds seeds))), (!(t.code == 450)) = true := by
    intro t ht
    simp only [List.mem_append] at ht
    rcases ht with h | h | h | h | h
    · simpa using (hatchFree_facts (h1 t h)).2.1
    · simpa using (hatchFree_facts (h2 t h)).2.1
    · simpa using (patTags t h).1
    · simpa using (hatchFree_facts (h4 t h)).2.1
    · rcases exportSeeds_codes seeds t h with e | e <;> simp [e]
  have eshape : a1 ++ (a2 ++ (patPart a3 pat ++
      (a4 ++ (exportSeeds seeds ++ g)))) =
      (a1 ++ (a2 ++ (patPart a3 pat ++
      (a4 ++ exportSeeds seeds)))) ++ g := by simp
  rw [eshape]
  obtain ⟨tw, dw⟩ := takeWhile_all (fun t => !(t.code == 450)) _ g front450 (by intro t ht; simp [hg t ht])
  simp only [tw, dw]
  -- pattern lines, then seed points
  cases pat with
  | none =>
    have hno78 : ∀ t ∈ a1 ++ (a2 ++ (patPart a3 none ++ (a4 ++ exportSeeds seeds))), t.code ≠ 78 := by
      intro t ht
      simp only [patPart, List.nil_append, List.mem_append] at ht
      rcases ht with h | h | h | h
      · exact (hatchFree_facts (h1 t h)).2.2.1
      · exact (hatchFree_facts (h2 t h)).2.2.1
      · exact (hatchFree_facts (h4 t h)).2.2.1
      · rcases exportSeeds_codes seeds t h with e | e <;> omega
    simp only [loadHatchPattern, cutAt_none 78 _ hno78]
    have e2 : a1 ++ (a2 ++ (patPart a3 none ++ (a4 ++ exportSeeds seeds))) = (a1 ++ a2 ++ a4) ++ exportSeeds seeds ++ [] := by
      simp [patPart]
    rw [e2, seeds_roundtrip' [] seeds (a1 ++ a2 ++ a4) []
      (by intro t ht; simp only [List.mem_append] at ht
          rcases ht with (h | h) | h
          · exact (hatchFree_facts (h1 t h)).2.2.2
          · exact (hatchFree_facts (h2 t h)).2.2.2
          · exact (hatchFree_facts (h4 t h)).2.2.2) (by simp)]
    simp [patAttrs]
  | some ml =>
    obtain ⟨m, ls⟩ := ml
    have hl := hls m ls rfl
    have e1 : a1 ++ (a2 ++ (patPart a3 (some (m, ls)) ++ (a4 ++ exportSeeds seeds))) =
        (a1 ++ a2 ++ a3) ++ tagI 78 m :: (exportPattern ls ++ (a4 ++ exportSeeds seeds)) := by simp [patPart, hl]
    rw [e1, hatch_pattern_roundtrip' plc ls (a1 ++ a2 ++ a3) (a4 ++ exportSeeds seeds) m hplc
      (by intro t ht; simp only [List.mem_append] at ht
          rcases ht with (h | h) | h
          · exact (hatchFree_facts (h1 t h)).2.2.1
          · exact (hatchFree_facts (h2 t h)).2.2.1
          · exact (hatchFree_facts (h3 t h)).2.2.1)
      (by intro t ht; rw [ha4] at ht; simp at ht; subst ht; exact ht4)]
    simp only
    have e2 : a1 ++ a2 ++ a3 ++ (a4 ++ exportSeeds seeds) = (a1 ++ a2 ++ a3 ++ a4) ++ exportSeeds seeds ++ [] := by simp
    rw [e2, seeds_roundtrip' [] seeds (a1 ++ a2 ++ a3 ++ a4) []
      (by intro t ht; simp only [List.mem_append] at ht
          rcases ht with ((h | h) | h) | h
          · exact (hatchFree_facts (h1 t h)).2.2.2
          · exact (hatchFree_facts (h2 t h)).2.2.2
          · exact (hatchFree_facts (h3 t h)).2.2.2
          · exact (hatchFree_facts (h4 t h)).2.2.2) (by simp)]
    simp [patAttrs]

/-! ### HATCH gradient -/

theorem grad_roundtrip' (toRad toDeg : Nat → Nat) (g : Grad) (hn : 2 ≤ g.ncolors)
    (h1 : rgbMask g.c1 = g.c1) (h2 : rgbMask g.c2 = g.c2) :
    loadGrad toDeg (exportGrad toRad g) = some { g with rot := toDeg (toRad g.rot) } := by
  obtain ⟨kind, rot, centered, oneColor, tint, name, ncolors, aci1, c1, aci2, c2⟩ := g
  simp only at hn h1 h2
  have p0 : (0 : Int) < ncolors := by omega
  have p1 : (1 : Int) < ncolors := by omega
  cases aci1 <;> cases aci2 <;>
    simp [loadGrad, exportGrad, optI, gradStep, p0, p1, h1, h2, tagI, tagD, tagS, intOf, dblOf, strOf]

/-! ### names ↔ handles -/

theorem find_by_handle (tbl : List ResEntry) (hd : tbl.Pairwise (fun a b => a.handle ≠ b.handle)) (e : ResEntry) (he : e ∈ tbl) :
    tbl.find? (fun x => x.handle == e.handle) = some e := by
  induction tbl with
  | nil => simp at he
  | cons a r ih =>
    rcases List.mem_cons.mp he with rfl | hr
    · simp [List.find?_cons]
    · have hne : a.handle ≠ e.handle := (List.pairwise_cons.mp hd).1 e hr
      have : (a.handle == e.handle) = false := by simpa using hne
      simp [List.find?_cons, this, ih (List.pairwise_cons.mp hd).2 hr]

theorem names_handles_roundtrip' (keyOf : List Nat → List Nat) (tbl : List ResEntry)
    (hd : tbl.Pairwise (fun a b => a.handle ≠ b.handle)) (names : List (List Nat)) :
    handlesToNames tbl (namesToHandles keyOf tbl names) =
      names.filterMap (fun n => (tbl.find? (fun e => e.key == keyOf n)).map (·.name)) := by
  unfold handlesToNames namesToHandles
  induction names with
  | nil => rfl
  | cons n rest ih =>
    cases hf : tbl.find? (fun e => e.key == keyOf n) with
    | none => simp [List.filterMap_cons, hf, ih]
    | some e =>
      have he : e ∈ tbl := List.mem_of_find?_eq_some hf
      simp [List.filterMap_cons, hf, find_by_handle tbl hd e he, ih]

theorem frozen_roundtrip' (keyOf : List Nat → List Nat) (tbl : List ResEntry) (pre post : List Tag) (names : List (List Nat))
    (h1 : ∀ t ∈ pre, t.code ≠ 331) (h2 : ∀ t ∈ post, t.code ≠ 331) :
    loadFrozen (pre ++ exportFrozen keyOf tbl names ++ post) = (namesToHandles keyOf tbl names, pre ++ post) := by
  unfold loadFrozen exportFrozen
  generalize namesToHandles keyOf tbl names = hs
  have a1 : pre.filter (·.code == 331) = [] := filter_none _ _ (by intro t ht; simpa using h1 t ht)
  have a2 : post.filter (·.code == 331) = [] := filter_none _ _ (by intro t ht; simpa using h2 t ht)
  have b1 : pre.filter (fun t => !(t.code == 331)) = pre := filter_all _ _ (by intro t ht; simpa using h1 t ht)
  have b2 : post.filter (fun t => !(t.code == 331)) = post := filter_all _ _ (by intro t ht; simpa using h2 t ht)
  have c1 : (hs.map (tagS 331)).filter (·.code == 331) = hs.map (tagS 331) :=
    filter_all _ _ (by intro t ht; obtain ⟨x, _, rfl⟩ := List.mem_map.mp ht; simp)
  have c2 : (hs.map (tagS 331)).filter (fun t => !(t.code == 331)) = [] :=
    filter_none _ _ (by intro t ht; obtain ⟨x, _, rfl⟩ := List.mem_map.mp ht; simp)
  simp only [List.filter_append, a1, a2, b1, b2, c1, c2]
  simp [List.map_map, Function.comp_def]

/-- the general form of `spline_roundtrip'`: any tags in front of the spline data that avoid its group codes -/
theorem spline_roundtrip_pre (pre : List Tag) (d : Spline) (hpre : ∀ t ∈ pre, splineFree t = true) :
    loadSpline (pre ++ exportSplineData d) = (d, pre.filter splineKeeps) := by
  have := spline_roundtrip' pre [] d hpre (by simp)
  -- `exportSpline pre [] d = pre ++ counts ++ [] ++ data`: the count tags are part of `pre` here, so redo the filter argument
  rw [loadSpline_eq_filters]
  have f10 := free_no_code pre hpre 10 (by simp)
  have f11 := free_no_code pre hpre 11 (by simp)
  have f40 := free_no_code pre hpre 40 (by simp)
  have f41 := free_no_code pre hpre 41 (by simp)
  have fk : pre.filter (fun t => splineFree t && splineKeeps t) = pre.filter splineKeeps := by
    apply List.filter_congr; intro t ht; simp [hpre t ht]
  have fd : (exportSplineData d).filter (fun t => splineFree t && splineKeeps t) = [] := by
    apply filter_none
    intro t ht
    simp only [exportSplineData, List.mem_append, List.mem_map] at ht
    rcases ht with ((⟨x, _, rfl⟩ | ⟨x, _, rfl⟩) | ⟨x, _, rfl⟩) | ⟨x, _, rfl⟩ <;> simp [splineFree]
  simp only [List.filter_append, f10, f11, f40, f41, fk, fd, List.nil_append, List.append_nil]
  simp only [exportSplineData, List.filter_append, filter_run (tagD 40) 40 _ _ (fun _ => rfl),
    filter_run (tagD 41) 41 _ _ (fun _ => rfl), filter_run (tagP3 10) 10 _ _ (fun _ => rfl),
    filter_run (tagP3 11) 11 _ _ (fun _ => rfl)]
  simp [List.map_map, Function.comp_def]

/-! ### the whole AcDbMPolygon subclass -/

theorem mpolygon_all_roundtrip' (pc plc : List Int) (comp : Nat → Nat) (sub : P2 → P2 → P2) (r2010 : Bool)
    (a1 a2 a3 a4 a5 g : List Tag) (n : Int) (paths : List BPath) (pat : Option (Int × List PLine))
    (hpc : ∀ c, pathCodes.contains c = true → pc.contains c = true)
    (hplc : ∀ c, plineCodes.contains c = true → plc.contains c = true)
    (h1 : ∀ t ∈ a1, hatchFree t = true) (h2 : ∀ t ∈ a2, hatchFree t = true) (h3 : ∀ t ∈ a3, hatchFree t = true)
    (h4 : ∀ t ∈ a4, hatchFree t = true) (h5 : ∀ t ∈ a5, hatchFree t = true)
    (h2h : ∃ t r, a2 = t :: r ∧ pc.contains t.code = false)
    (h5h : ∀ t, (a5 ++ g).head? = some t → plc.contains t.code = false)
    (hg : ∀ t, g.head? = some t → t.code = 450)
    (hp : ∀ p ∈ paths, pathOK p = true) (hne : paths ≠ []) :
    loadHatchAll pc plc comp (exportMPolygonAll comp sub r2010 a1 a2 a3 a4 a5 g n paths pat) =
      some (⟨paths.map (canonPath comp sub false), g, pat.map (·.2), []⟩,
        a1 ++ (a2 ++ (patAttrs a3 pat ++ (a4 ++ a5)))) := by
  obtain ⟨t2, r2, ha2, ht2⟩ := h2h
  unfold loadHatchAll exportMPolygonAll
  rw [hatch_paths_roundtrip' pc comp sub r2010 false [] paths a1 _ n hpc
    (fun t ht => (hatchFree_facts (h1 t ht)).1) (by intro t ht; rw [ha2] at ht; simp at ht; subst ht; exact ht2) hp]
  simp only [hne, if_false]
  have f3 : ∀ t ∈ patAttrs a3 pat, hatchFree t = true := by
    intro t ht; cases pat with
    | none => simp [patAttrs] at ht
    | some ml => exact h3 t (by simpa [patAttrs] using ht)
  have patTags : ∀ t ∈ mpatPart pat, t.code ≠ 450 ∧ t.code ≠ 98 := by
    intro t ht
    cases pat with
    | none => simp [mpatPart] at ht
    | some ml =>
      obtain ⟨m, ls⟩ := ml
      simp only [mpatPart, List.mem_cons] at ht
      rcases ht with rfl | h
      · exact ⟨by simp, by simp⟩
      · have := plineCodes_facts _ (exportPattern_codes ls t h); exact ⟨this.1, this.2.2⟩
  have front450 : ∀ t ∈ a1 ++ (a2 ++ (patAttrs a3 pat ++ (a4 ++ (mpatPart pat ++ a5)))), (!(t.code == 450)) = true := by
    intro t ht
    simp only [List.mem_append] at ht
    rcases ht with h | h | h | h | h | h
    · simpa using (hatchFree_facts (h1 t h)).2.1
    · simpa using (hatchFree_facts (h2 t h)).2.1
    · simpa using (hatchFree_facts (f3 t h)).2.1
    · simpa using (hatchFree_facts (h4 t h)).2.1
    · simpa using (patTags t h).1
    · simpa using (hatchFree_facts (h5 t h)).2.1
  have eshape : a1 ++ (a2 ++ (patAttrs a3 pat ++ (a4 ++ (mpatPart pat ++ (a5 ++ g))))) =
      (a1 ++ (a2 ++ (patAttrs a3 pat ++ (a4 ++ (mpatPart pat ++ a5))))) ++ g := by simp
  rw [eshape]
  obtain ⟨tw, dw⟩ := takeWhile_all (fun t => !(t.code == 450)) _ g front450 (by intro t ht; simp [hg t ht])
  simp only [tw, dw]
  have no98 : ∀ l : List Tag, (∀ t ∈ l, t.code ≠ 98) → loadSeeds [] l = ([], l) := by
    intro l hl; simp [loadSeeds, cutAt_none 98 l hl]
  cases pat with
  | none =>
    have hno78 : ∀ t ∈ a1 ++ (a2 ++ (patAttrs a3 none ++ (a4 ++ (mpatPart none ++ a5)))), t.code ≠ 78 := by
      intro t ht
      simp only [patAttrs, mpatPart, List.nil_append, List.mem_append] at ht
      rcases ht with h | h | h | h
      · exact (hatchFree_facts (h1 t h)).2.2.1
      · exact (hatchFree_facts (h2 t h)).2.2.1
      · exact (hatchFree_facts (h4 t h)).2.2.1
      · exact (hatchFree_facts (h5 t h)).2.2.1
    simp only [loadHatchPattern, cutAt_none 78 _ hno78]
    rw [no98 _ (by
      intro t ht
      simp only [patAttrs, mpatPart, List.nil_append, List.mem_append] at ht
      rcases ht with h | h | h | h
      · exact (hatchFree_facts (h1 t h)).2.2.2
      · exact (hatchFree_facts (h2 t h)).2.2.2
      · exact (hatchFree_facts (h4 t h)).2.2.2
      · exact (hatchFree_facts (h5 t h)).2.2.2)]
    simp [patAttrs, mpatPart]
  | some ml =>
    obtain ⟨m, ls⟩ := ml
    have e1 : a1 ++ (a2 ++ (patAttrs a3 (some (m, ls)) ++ (a4 ++ (mpatPart (some (m, ls)) ++ a5)))) =
        (a1 ++ a2 ++ a3 ++ a4) ++ tagI 78 m :: (exportPattern ls ++ a5) := by simp [patAttrs, mpatPart]
    rw [e1, hatch_pattern_roundtrip' plc ls (a1 ++ a2 ++ a3 ++ a4) a5 m hplc
      (by intro t ht; simp only [List.mem_append] at ht
          rcases ht with ((h | h) | h) | h
          · exact (hatchFree_facts (h1 t h)).2.2.1
          · exact (hatchFree_facts (h2 t h)).2.2.1
          · exact (hatchFree_facts (h3 t h)).2.2.1
          · exact (hatchFree_facts (h4 t h)).2.2.1)
      (by
        intro t ht
        cases a5 with
        | nil => simp at ht
        | cons x xs => exact h5h t (by simpa using ht))]
    simp only
    rw [no98 _ (by
      intro t ht
      simp only [List.mem_append] at ht
      rcases ht with (((h | h) | h) | h) | h
      · exact (hatchFree_facts (h1 t h)).2.2.2
      · exact (hatchFree_facts (h2 t h)).2.2.2
      · exact (hatchFree_facts (h3 t h)).2.2.2
      · exact (hatchFree_facts (h4 t h)).2.2.2
      · exact (hatchFree_facts (h5 t h)).2.2.2)]
    simp [patAttrs]

/-! ### payload behind the attribute tags of a subclass that goes to `fast_load_dxfattribs` first
    (DICTIONARY, GROUP, MLINE: the payload loader works on the unprocessed tags the generic loader returns) -/

/-- the group code has no entry in the mapping -/
def unmapped (m : Mapping) (c : Int) : Bool := (List.lookup c m).isNone

theorem resolve_unmapped (m : Mapping) (P : List Name) (c : Int) (h : unmapped m c = true) : resolve m P c = none := by
  unfold unmapped at h
  unfold resolve
  cases hl : List.lookup c m with
  | none => rfl
  | some e => simp [hl] at h

theorem fastStep_unmapped (m : Mapping) (σ : FState) (t : Tag) (h : unmapped m t.code = true) :
    fastStep m σ t = { σ with unp := σ.unp ++ [t] } := by
  simp [fastStep, resolve_unmapped m σ.P t.code h]

theorem fast_fold_unmapped (m : Mapping) (P : List Tag) (h : ∀ t ∈ P, unmapped m t.code = true) : ∀ σ : FState,
    P.foldl (fastStep m) σ = { σ with unp := σ.unp ++ P } := by
  induction P with
  | nil => intro σ; simp
  | cons t rest ih =>
    intro σ
    rw [List.foldl_cons, fastStep_unmapped m σ t (h t (by simp)), ih (fun x hx => h x (by simp [hx]))]
    simp

/-- tags without a mapping entry behind the attribute tags do not change the loaded namespace and are handed on unchanged,
    in order, behind the unprocessed attribute tags -/
theorem fastLoad_payload (m : Mapping) (A P : List Tag) (ns : NS) (hA : A ≠ [])
    (h : ∀ t ∈ P, unmapped m t.code = true) :
    fastLoad m (A ++ P) ns = ((fastLoad m A ns).1, (fastLoad m A ns).2 ++ P) := by
  obtain ⟨a, r, rfl⟩ := List.exists_cons_of_ne_nil hA
  have hs : skipStart ((a :: r) ++ P) = skipStart (a :: r) ++ P := by
    simp only [List.cons_append, skipStart]; split <;> rfl
  unfold fastLoad
  rw [hs, List.foldl_append, fast_fold_unmapped m P h]

theorem fast_fold_unp_mem (m : Mapping) (A : List Tag) : ∀ σ : FState, ∀ t ∈ (A.foldl (fastStep m) σ).unp, t ∈ σ.unp ∨ t ∈ A := by
  induction A with
  | nil => intro σ t ht; exact Or.inl ht
  | cons a rest ih =>
    intro σ t ht
    rw [List.foldl_cons] at ht
    rcases ih _ t ht with h | h
    · have : t ∈ σ.unp ∨ t = a := by
        unfold fastStep at h
        cases hr : resolve m σ.P a.code with
        | none =>
          simp only [hr, List.mem_append, List.mem_cons, List.not_mem_nil, or_false] at h; exact h
        | some xb =>
          obtain ⟨x, b⟩ := xb
          simp only [hr] at h
          by_cases hx : x.star = true
          · simp only [hx, if_true] at h; exact Or.inl h
          · simp only [hx] at h; exact Or.inl h
      rcases this with h | rfl
      · exact Or.inl h
      · exact Or.inr (by simp)
    · exact Or.inr (by simp [h])

theorem fastLoad_unp_mem (m : Mapping) (A : List Tag) (ns : NS) : ∀ t ∈ (fastLoad m A ns).2, t ∈ A := by
  intro t ht
  unfold fastLoad at ht
  rcases fast_fold_unp_mem m (skipStart A) ⟨ns, [], []⟩ t ht with h | h
  · simp at h
  · cases A with
    | nil => simp [skipStart] at h
    | cons a r =>
      simp only [skipStart] at h
      split at h
      · exact List.mem_cons_of_mem _ h
      · exact h

theorem dict_entity' (m : Mapping) (A : List Tag) (ns : NS) (d : Dict) (hA : A ≠ [])
    (hm : unmapped m 3 = true ∧ unmapped m 350 = true ∧ unmapped m 360 = true)
    (hfree : ∀ t ∈ A, dictFree t = true) (hc : d.valueCode = 350 ∨ d.valueCode = 360)
    (hk : d.items.Pairwise (fun a b => a.1 ≠ b.1)) :
    (fastLoad m (A ++ exportDict d) ns).1 = (fastLoad m A ns).1 ∧
    loadDict (fastLoad m (A ++ exportDict d) ns).2 = ⟨if d.items = [] then 350 else d.valueCode, d.items⟩ := by
  have hP : ∀ t ∈ exportDict d, unmapped m t.code = true := by
    intro t ht
    simp only [exportDict, List.mem_flatMap, List.mem_cons, List.not_mem_nil, or_false] at ht
    obtain ⟨kv, _, rfl | rfl⟩ := ht
    · exact hm.1
    · rcases hc with h | h <;> simp [h, hm.2.1, hm.2.2]
  rw [fastLoad_payload m A _ ns hA hP]
  refine ⟨rfl, ?_⟩
  have := dict_roundtrip' (fastLoad m A ns).2 [] d (fun t ht => hfree t (fastLoad_unp_mem m A ns t ht)) (by simp) hc hk
  simpa using this

theorem group_entity' (m : Mapping) (A : List Tag) (ns : NS) (hs : List (List Nat)) (hA : A ≠ [])
    (hm : unmapped m 340 = true) (hfree : ∀ t ∈ A, t.code ≠ 340) (hn : hs.Nodup) :
    (fastLoad m (A ++ exportGroup hs) ns).1 = (fastLoad m A ns).1 ∧
    loadGroup (fastLoad m (A ++ exportGroup hs) ns).2 = hs := by
  have hP : ∀ t ∈ exportGroup hs, unmapped m t.code = true := by
    intro t ht; obtain ⟨x, _, rfl⟩ := List.mem_map.mp ht; exact hm
  rw [fastLoad_payload m A _ ns hA hP]
  refine ⟨rfl, ?_⟩
  have := group_roundtrip' (fastLoad m A ns).2 [] hs hn (fun t ht => hfree t (fastLoad_unp_mem m A ns t ht)) (by simp)
  simpa using this

/-- the group codes of an MLINE vertex record -/
def mlineCodes : List Int := [11, 12, 13, 74, 41, 75, 42]

theorem exportMLine_codes (vs : List MVertex) : ∀ t ∈ exportMLine vs, mlineCodes.contains t.code = true := by
  intro t ht
  obtain ⟨v, _, hv⟩ := List.mem_flatMap.mp ht
  simp only [exportMVertex, List.mem_cons, List.mem_flatMap] at hv
  rcases hv with rfl | rfl | rfl | ⟨p, _, hp⟩
  · simp [mlineCodes]
  · simp [mlineCodes]
  · simp [mlineCodes]
  · simp only [mvParams, List.mem_cons, List.mem_append, List.mem_map] at hp
    rcases hp with (rfl | ⟨x, _, rfl⟩) | (rfl | ⟨x, _, rfl⟩) <;> simp [mlineCodes]

theorem mline_entity' (m : Mapping) (A : List Tag) (ns : NS) (vs : List MVertex) (hA : A ≠ [])
    (hm : ∀ c, mlineCodes.contains c = true → unmapped m c = true) (hfree : ∀ t ∈ A, t.code ≠ 11)
    (h : ∀ v ∈ vs, v.lps.length = v.fps.length) :
    (fastLoad m (A ++ exportMLine vs) ns).1 = (fastLoad m A ns).1 ∧
    loadMLine (fastLoad m (A ++ exportMLine vs) ns).2 = vs := by
  rw [fastLoad_payload m A _ ns hA (fun t ht => hm _ (exportMLine_codes vs t ht))]
  exact ⟨rfl, mline_roundtrip' _ vs (fun t ht => hfree t (fastLoad_unp_mem m A ns t ht)) h⟩

/-! ### MTEXT columns (embedded object), LTYPE pattern -/

theorem col_heights (hs : List Nat) (hd hi hw : Bool) : ∀ (c : MCols) (d i : Option P3) (w : Option Nat),
    (hs.map (tagD 46)).foldl (colStep hd hi hw) ⟨c, d, i, w⟩ = ⟨{ c with heights := c.heights ++ hs }, d, i, w⟩ := by
  induction hs with
  | nil => intros; simp
  | cons x xs ih => intro c d i w; simp [colStep, ih]

theorem cols_roundtrip' (recount : Nat → Nat → Nat → Int) (hasDir hasIns hasW : Bool) (dir ins : P3) (w : Nat) (c : MCols) :
    loadCols recount hasDir hasIns hasW (exportCols dir ins w c) =
      ⟨canonCols recount c, if hasDir then none else some dir, if hasIns then none else some ins,
       if hasW then none else some w⟩ := by
  obtain ⟨ctype, count, autoH, revFlow, definedH, width, gutter, totalW, totalH, heights⟩ := c
  unfold loadCols exportCols canonCols
  simp only [List.foldl_append, List.foldl_cons, List.foldl_nil]
  have pre : ∀ cnt : Int, colStep hasDir hasIns hasW (colStep hasDir hasIns hasW (colStep hasDir hasIns hasW
      (colStep hasDir hasIns hasW (colStep hasDir hasIns hasW (colStep hasDir hasIns hasW (colStep hasDir hasIns hasW
      (colStep hasDir hasIns hasW (colStep hasDir hasIns hasW (colStep hasDir hasIns hasW (colStep hasDir hasIns hasW
      (colStep hasDir hasIns hasW (colStep hasDir hasIns hasW ⟨⟨1, 1, false, false, 0, 0, 0, 0, 0, []⟩, none, none, none⟩
        (tagI 70 1)) (tagP3 10 dir)) (tagP3 11 ins)) (tagD 40 w)) (tagD 41 definedH)) (tagD 42 totalW)) (tagD 43 totalH))
        (tagI 71 ctype)) (tagI 72 cnt)) (tagD 44 width)) (tagD 45 gutter)) (tagI 73 (boolInt autoH)))
        (tagI 74 (boolInt revFlow)) =
      ⟨⟨ctype, cnt, autoH, revFlow, definedH, width, gutter, totalW, totalH, []⟩,
        if hasDir then none else some dir, if hasIns then none else some ins, if hasW then none else some w⟩ := by
    intro cnt
    cases hasDir <;> cases hasIns <;> cases hasW <;> cases autoH <;> cases revFlow <;>
      simp [colStep, truthVal, boolInt, tagI, tagD, tagP3, intOf, dblOf, p3Of]
  rw [pre, col_heights]
  simp [MCols.dynAuto]

theorem ltype_pattern' (m : Mapping) (A P : List Tag) (ns : NS) (hA : A ≠ [])
    (hP : ∀ t ∈ P, unmapped m t.code = true) (hAu : (fastLoad m A ns).2 = []) :
    loadLtype m (A ++ exportLtypePattern P) ns = ((fastLoad m A ns).1, P) := by
  unfold loadLtype exportLtypePattern
  rw [fastLoad_payload m A P ns hA hP, hAu]; simp

theorem lenTag_code (sumAbs : List Tag → Nat) (tags : List Tag) : (lenTag sumAbs tags).code = 40 := by
  unfold lenTag
  cases hf : tags.find? (·.code == 40) with
  | none => rfl
  | some t => simpa using List.find?_some hf

theorem ltypeR12_idem (sumAbs : List Tag → Nat) (P : List Tag) :
    ltypeR12 sumAbs (ltypeR12 sumAbs P) = ltypeR12 sumAbs P := by
  have hc := lenTag_code sumAbs P
  have hf49 : (ltypeR12 sumAbs P).filter (·.code == 49) = P.filter (·.code == 49) := by
    unfold ltypeR12
    simp [List.filter_cons, hc, tagI, tagN, List.filter_filter]
  have hlen : lenTag sumAbs (ltypeR12 sumAbs P) = lenTag sumAbs P := by
    have : (ltypeR12 sumAbs P).find? (·.code == 40) = some (lenTag sumAbs P) := by
      unfold ltypeR12
      simp [List.find?_cons, hc, tagI, tagN]
    unfold lenTag at this ⊢
    simp only [this]
  have : ltypeR12 sumAbs (ltypeR12 sumAbs P) =
      tagI 72 65 :: tagN 73 ((ltypeR12 sumAbs P).filter (·.code == 49)).length :: lenTag sumAbs (ltypeR12 sumAbs P) ::
        (ltypeR12 sumAbs P).filter (·.code == 49) := rfl
  rw [this, hf49, hlen]
  rfl

theorem ltypeR12_simple (sumAbs : List Tag → Nat) (n : Int) (L : Nat) (es : List Nat) :
    ltypeR12 sumAbs ([tagI 72 65, tagI 73 n, tagD 40 L] ++ es.flatMap (fun e => [tagD 49 e, tagI 74 0])) =
      [tagI 72 65, tagN 73 es.length, tagD 40 L] ++ es.map (tagD 49) := by
  have hf : (es.flatMap (fun e => [tagD 49 e, tagI 74 0])).filter (·.code == 49) = es.map (tagD 49) := by
    induction es with
    | nil => rfl
    | cons e r ih =>
      simp only [List.flatMap_cons, List.filter_append, ih, List.map_cons]
      rfl
  have h49 : ([tagI 72 65, tagI 73 n, tagD 40 L] ++ es.flatMap (fun e => [tagD 49 e, tagI 74 0])).filter (·.code == 49) =
      es.map (tagD 49) := by
    rw [List.filter_append, hf]; rfl
  have hl : lenTag sumAbs ([tagI 72 65, tagI 73 n, tagD 40 L] ++ es.flatMap (fun e => [tagD 49 e, tagI 74 0])) = tagD 40 L := by
    unfold lenTag; rfl
  unfold ltypeR12
  rw [h49, hl]; simp

end EzdxfVerif.Payload

import Mathlib.Algebra.Order.Field.Rat
import Mathlib.Tactic.Ring
import Mathlib.Tactic.Linarith
import Mathlib.Tactic.FieldSimp
import Mathlib.Tactic.LinearCombination
import Mathlib.Algebra.Order.Ring.Abs
import Mathlib.Data.Rat.Sqrt
import EzdxfVerif.Model.Render

/-! Helper lemmas of C18 (not counted): exact square roots, the algebra of `Insert.transform`, the invariant principle of the
    traversal, draw = specification. -/

namespace EzdxfVerif.Render

theorem sqrtQ_eq (q : Rat) : sqrtQ q = if Rat.sqrt q * Rat.sqrt q = q then some (Rat.sqrt q) else none := by
  have : (mkRat (Nat.sqrt q.num.toNat : Nat) (Nat.sqrt q.den) : Rat) = Rat.sqrt q := by
    simp [Rat.sqrt, Int.sqrt]
  simp only [sqrtQ, this]

theorem sqrtQ_spec (q r : Rat) (h : sqrtQ q = some r) : 0 ≤ r ∧ r * r = q := by
  rw [sqrtQ_eq] at h
  split at h
  · rename_i hq
    simp at h; subst h
    exact ⟨Rat.sqrt_nonneg q, hq⟩
  · simp at h

theorem sqrtQ_sq (x : Rat) : sqrtQ (x * x) = some |x| := by
  rw [sqrtQ_eq, Rat.sqrt_eq, abs_mul_abs_self]; simp

theorem sqrtQ_of_sq (q n : Rat) (hn : 0 ≤ n) (h : n * n = q) : sqrtQ q = some n := by
  rw [← h, sqrtQ_sq, abs_of_nonneg hn]

/-- two orthogonal unit vectors of the plane: the second is the first turned by ±90° -/
theorem perp_unit (a b x y : Rat) (hu : a * a + b * b = 1) (hv : x * x + y * y = 1) (ho : a * x + b * y = 0) :
    (x = -b ∧ y = a) ∨ (x = b ∧ y = -a) := by
  have ht : (-b * x + a * y) * (-b * x + a * y) = 1 := by
    have : (-b * x + a * y) * (-b * x + a * y) + (a * x + b * y) * (a * x + b * y) = (a * a + b * b) * (x * x + y * y) := by ring
    rw [ho, hu, hv] at this; linarith
  have hx : x = -b * (-b * x + a * y) := by linear_combination (-x) * hu + a * ho
  have hy : y = a * (-b * x + a * y) := by linear_combination (-y) * hu + b * ho
  rcases mul_self_eq_one_iff.mp ht with h1 | h1
  · left; rw [h1] at hx hy; constructor <;> linarith
  · right; rw [h1] at hx hy; constructor <;> linarith

/-- the algebra behind `Insert.transform`: `U`, `V` images of the reference's axes, orthogonal, of lengths `nx`, `ny`;
    `S` the new y scale factor with the sign chosen by the handedness test -/
theorem sign_choice (U1 U2 V1 V2 nx ny sy : Rat) (hx0 : nx ≠ 0) (hy0 : ny ≠ 0)
    (hnx2 : nx * nx = U1 * U1 + U2 * U2) (hny2 : ny * ny = V1 * V1 + V2 * V2) (ho : U1 * V1 + U2 * V2 = 0) (e : Rat)
    (he : e = 1 ∨ e = -1) :
    ((⟨-(e * (U2 / nx)), e * (U1 / nx)⟩ : P2) = ⟨V1 / ny, V2 / ny⟩ →
      (ny * sy) * (-(e * (U2 / nx))) = sy * V1 ∧ (ny * sy) * (e * (U1 / nx)) = sy * V2) ∧
    (¬ (⟨-(e * (U2 / nx)), e * (U1 / nx)⟩ : P2) = ⟨V1 / ny, V2 / ny⟩ →
      (-(ny * sy)) * (-(e * (U2 / nx))) = sy * V1 ∧ (-(ny * sy)) * (e * (U1 / nx)) = sy * V2) := by
  have hu : (U1 / nx) * (U1 / nx) + (U2 / nx) * (U2 / nx) = 1 := by
    field_simp; linarith
  have hv : (V1 / ny) * (V1 / ny) + (V2 / ny) * (V2 / ny) = 1 := by
    field_simp; linarith
  have hd : (U1 / nx) * (V1 / ny) + (U2 / nx) * (V2 / ny) = 0 := by
    field_simp; linarith
  have hee : e * e = 1 := by rcases he with rfl | rfl <;> norm_num
  constructor
  · intro heq
    simp only [P2.mk.injEq] at heq
    obtain ⟨h1, h2⟩ := heq
    rw [h1, h2]
    constructor <;> field_simp
  · intro hne
    simp only [P2.mk.injEq, not_and] at hne
    rcases perp_unit _ _ _ _ hu hv hd with ⟨h1, h2⟩ | ⟨h1, h2⟩
    · rcases he with rfl | rfl
      · exfalso; apply hne <;> simp [h1, h2]
      · have k1 : -(-1 * (U2 / nx)) = -(V1 / ny) := by rw [h1]; ring
        have k2 : -1 * (U1 / nx) = -(V2 / ny) := by rw [h2]; ring
        rw [k1, k2]
        constructor <;> field_simp
    · rcases he with rfl | rfl
      · have k1 : -(1 * (U2 / nx)) = -(V1 / ny) := by rw [h1]; ring
        have k2 : 1 * (U1 / nx) = -(V2 / ny) := by rw [h2]; ring
        rw [k1, k2]
        constructor <;> field_simp
      · exfalso; apply hne <;> simp [h1, h2]

theorem ite_flip1 (flip : Bool) (s : Rat) : (if flip = true then -s else s) = exSign flip * s := by
  cases flip <;> simp [exSign]
theorem ite_flip2 (flip : Bool) (s : Rat) : (if flip = true then s else -s) = -(exSign flip * s) := by
  cases flip <;> simp [exSign]
theorem exSign_cases (flip : Bool) : exSign flip = 1 ∨ exSign flip = -1 := by
  cases flip <;> simp [exSign]

/-- success of `Insert.transform` (`InsertCoordinateSystem.transform` does not raise) makes it lawful: the transformed
    reference has the matrix `matrix44() @ m`, for EVERY matrix `m`, every rotation, every scale factors -/
theorem transformIns_ok_matrix (m : Aff) (i i' : Ins) (base : P2) (h : transformIns m i = .ok i') :
    xfOf i' base = (xfOf i base).comp m := by
  obtain ⟨a, b, c, d, tx, ty⟩ := m
  obtain ⟨props, name, ⟨px, py⟩, sx, sy, ⟨p, q⟩, flip, attribs, rows, cols, rowSp, colSp⟩ := i
  simp only [transformIns] at h
  split at h
  · simp at h
  · rename_i hz
    split at h
    · simp at h
    · rename_i ho
      split at h
      · rename_i nx ny hnx hny
        obtain ⟨hnx0, hnx2⟩ := sqrtQ_spec _ _ hnx
        obtain ⟨hny0, hny2⟩ := sqrtQ_spec _ _ hny
        clear hnx hny
        simp only [not_or] at hz
        simp only [ne_eq, Decidable.not_not] at ho
        have hx0 : nx ≠ 0 := by
          intro h0; apply hz.1; simp only [dot]; rw [← hnx2, h0]; ring
        have hy0 : ny ≠ 0 := by
          intro h0; apply hz.2; simp only [dot]; rw [← hny2, h0]; ring
        clear hz
        simp only [Except.ok.injEq] at h
        subst h
        have he := exSign_cases flip
        have hee : exSign flip * exSign flip = 1 := by rcases he with h1 | h1 <;> rw [h1] <;> norm_num
        have hK : ∀ U : Rat, exSign flip * (nx * sx) * (exSign flip * (U / nx)) = sx * U := by
          intro U
          have h1 : nx * (U / nx) = U := by field_simp
          calc exSign flip * (nx * sx) * (exSign flip * (U / nx))
              = (exSign flip * exSign flip) * sx * (nx * (U / nx)) := by ring
            _ = sx * U := by rw [hee, h1]; ring
        simp only [Aff.lin, ocsFlip, dot] at hnx2 hny2 ho
        obtain ⟨hSp, hSn⟩ := sign_choice (exSign flip * p * a + q * c) (exSign flip * p * b + q * d)
          (exSign flip * -q * a + p * c) (exSign flip * -q * b + p * d)
          nx ny sy hx0 hy0 hnx2 hny2 ho (exSign flip) he
        split
        · rename_i hc
          simp only [Aff.lin, ocsFlip] at hc
          obtain ⟨hS1, hS2⟩ := hSp hc
          simp only [xfOf, Aff.comp, Aff.lin, Aff.apply, ocsFlip, ite_flip1, ite_flip2, Aff.mk.injEq, hK]
          rw [hS1, hS2]
          refine ⟨?_, ?_, by ring, by ring, ?_, ?_⟩
          · linear_combination (-sx * q * c) * hee
          · linear_combination (-sx * q * d) * hee
          · linear_combination (exSign flip * px * a + py * c + tx + base.x * sx * q * c) * hee
          · linear_combination (base.x * sx * q * d) * hee
        · rename_i hc
          simp only [Aff.lin, ocsFlip] at hc
          obtain ⟨hS1, hS2⟩ := hSn hc
          simp only [xfOf, Aff.comp, Aff.lin, Aff.apply, ocsFlip, ite_flip1, ite_flip2, Aff.mk.injEq, hK]
          rw [hS1, hS2]
          refine ⟨?_, ?_, by ring, by ring, ?_, ?_⟩
          · linear_combination (-sx * q * c) * hee
          · linear_combination (-sx * q * d) * hee
          · linear_combination (exSign flip * px * a + py * c + tx + base.x * sx * q * c) * hee
          · linear_combination (base.x * sx * q * d) * hee
      · simp at h

/-- what `Insert.transform` leaves alone -/
theorem transformIns_ok_fields (m : Aff) (i i' : Ins) (h : transformIns m i = .ok i') :
    i'.props = i.props ∧ i'.name = i.name ∧ i'.attribs = i.attribs.map (transformAttrib m) ∧ i'.flip = i.flip ∧
    i'.rows = i.rows ∧ i'.cols = i.cols := by
  simp only [transformIns] at h
  split at h
  · simp at h
  · split at h
    · simp at h
    · split at h
      · simp only [Except.ok.injEq] at h
        rw [← h]
        exact ⟨rfl, rfl, rfl, rfl, rfl, rfl⟩
      · simp at h

theorem sqrtQ_one : sqrtQ 1 = some 1 := sqrtQ_of_sq 1 1 (by norm_num) (by norm_num)

theorem transformAttrib_id (a : Attrib) : transformAttrib Aff.id a = a := by
  cases a; simp [transformAttrib, Aff.apply, Aff.id]

theorem map_transformAttrib_id (as : List Attrib) : as.map (transformAttrib Aff.id) = as := by
  induction as with
  | nil => rfl
  | cons a as ih => simp [transformAttrib_id, ih]

/-- the identity matrix leaves a well-formed reference as it is -/
theorem transformIns_id (i : Ins) (h : InsWF i) : transformIns Aff.id i = .ok i := by
  obtain ⟨props, name, ⟨px, py⟩, sx, sy, ⟨p, q⟩, flip, attribs, rows, cols, rowSp, colSp⟩ := i
  obtain ⟨hd, hsx, hsy⟩ := h
  simp only [UnitDir] at hd
  simp only at hsx hsy
  have he := exSign_cases flip
  have hee : exSign flip * exSign flip = 1 := by rcases he with h1 | h1 <;> rw [h1] <;> norm_num
  have n1 : norm (Aff.id.lin (ocsFlip flip ⟨p, q⟩)) = some 1 := by
    simp only [norm, Aff.lin, Aff.id, ocsFlip]
    have : exSign flip * p * 1 + q * 0 = exSign flip * p := by ring
    have e2 : (exSign flip * p * 1 + q * 0) * (exSign flip * p * 1 + q * 0) + (exSign flip * p * 0 + q * 1) * (exSign flip * p * 0 + q * 1) = 1 := by
      linear_combination hd + (p * p) * hee
    rw [e2]; exact sqrtQ_one
  have n2 : norm (Aff.id.lin (ocsFlip flip ⟨-q, p⟩)) = some 1 := by
    simp only [norm, Aff.lin, Aff.id, ocsFlip]
    have e2 : (exSign flip * -q * 1 + p * 0) * (exSign flip * -q * 1 + p * 0) + (exSign flip * -q * 0 + p * 1) * (exSign flip * -q * 0 + p * 1) = 1 := by
      linear_combination hd + (q * q) * hee
    rw [e2]; exact sqrtQ_one
  have d1 : dot (Aff.id.lin (ocsFlip flip ⟨p, q⟩)) (Aff.id.lin (ocsFlip flip ⟨p, q⟩)) = 1 := by
    simp only [dot, Aff.lin, Aff.id, ocsFlip]
    linear_combination hd + (p * p) * hee
  have d2 : dot (Aff.id.lin (ocsFlip flip ⟨-q, p⟩)) (Aff.id.lin (ocsFlip flip ⟨-q, p⟩)) = 1 := by
    simp only [dot, Aff.lin, Aff.id, ocsFlip]
    linear_combination hd + (q * q) * hee
  have hdot : dot (Aff.id.lin (ocsFlip flip ⟨p, q⟩)) (Aff.id.lin (ocsFlip flip ⟨-q, p⟩)) = 0 := by
    simp only [dot, Aff.lin, Aff.id, ocsFlip]
    linear_combination (-p * q) * hee + p * q
  simp only [transformIns, n1, n2, d1, d2, hdot, one_ne_zero, or_self, if_false, ne_eq, not_true_eq_false]
  have hexp : (⟨-(exSign flip * ((Aff.id.lin (ocsFlip flip ⟨p, q⟩)).y / 1)), exSign flip * ((Aff.id.lin (ocsFlip flip ⟨p, q⟩)).x / 1)⟩ : P2) =
      ⟨(Aff.id.lin (ocsFlip flip ⟨-q, p⟩)).x / 1, (Aff.id.lin (ocsFlip flip ⟨-q, p⟩)).y / 1⟩ := by
    simp only [Aff.lin, Aff.id, ocsFlip, P2.mk.injEq]
    constructor
    · ring
    · linear_combination (p) * hee
  simp only [hexp, if_true]
  simp only [Except.ok.injEq, Ins.mk.injEq, map_transformAttrib_id, true_and]
  refine ⟨?_, by ring, by ring, ?_, ?_, ?_⟩
  · simp only [Aff.apply, Aff.id, ocsFlip, P2.mk.injEq]
    constructor
    · linear_combination (px) * hee
    · ring
  · simp only [Aff.lin, Aff.id, ocsFlip, P2.mk.injEq]
    constructor
    · linear_combination (p) * hee
    · ring
  · simp [hsy]
  · simp [hsx]

/-! ## the traversal, one loop at a time -/

/-- what `draw_composite_entity` calls for the content of a block reference at nesting budget `fuel` -/
def subOf (doc : Doc) (ctx : Ctx) : Nat → Option (Nat → List Ent → State → Res)
  | 0 => none
  | f + 1 => some (drawEnts doc ctx f)

theorem drawEnts_eq (doc : Doc) (ctx : Ctx) (fuel h : Nat) :
    drawEnts doc ctx fuel h = drawList (drawOne doc ctx (subOf doc ctx fuel) (fuel - 1) h) := by
  cases fuel <;> rfl

/-- a relation between the state before, the primitives sent, and the state after, that every step of the traversal
    respects -/
structure Inv (ctx : Ctx) (R : State → List Prim → State → Prop) : Prop where
  nil : ∀ st, R st [] st
  app : ∀ a o1 b o2 c, R a o1 b → R b o2 c → R a (o1 ++ o2) c
  leaf : ∀ st k p h pts, (resolveAll ctx st.current false false p).visible = true →
    R st (emitLeaf k (resolveAll ctx st.current false false p) h pts) st
  attribs : ∀ st h as, R st (drawAttribs ctx st.current h as) st
  scope : ∀ st rp o st2 st3, R (st.push rp) o st2 → st2.pop = .ok st3 → R st o st3

theorem inv_drawList {ctx : Ctx} {R : State → List Prim → State → Prop} (hR : Inv ctx R)
    (one : Ent → State → Res) (hone : ∀ e st o st', one e st = .ok (o, st') → R st o st') :
    ∀ es st o st', drawList one es st = .ok (o, st') → R st o st' := by
  intro es
  induction es with
  | nil => intro st o st' h; simp [drawList] at h; obtain ⟨rfl, rfl⟩ := h; exact hR.nil _
  | cons e es ih =>
    intro st o st' h
    simp only [drawList] at h
    split at h
    · simp at h
    · rename_i o1 st1 h1
      split at h
      · simp at h
      · rename_i o2 st2 h2
        simp at h; obtain ⟨rfl, rfl⟩ := h
        exact hR.app _ _ _ _ _ (hone _ _ _ _ h1) (ih _ _ _ h2)

theorem inv_drawCells {ctx : Ctx} {R : State → List Prim → State → Prop} (hR : Inv ctx R)
    (sub : List Ent → State → Res) (hsub : ∀ ents st o st', sub ents st = .ok (o, st') → R st o st')
    (ve : Aff → Except Err (List Ent)) (base : P2) (h : Nat) :
    ∀ cs st o st', drawCells ctx sub ve base h cs st = .ok (o, st') → R st o st' := by
  intro cs
  induction cs with
  | nil => intro st o st' hh; simp [drawCells] at hh; obtain ⟨rfl, rfl⟩ := hh; exact hR.nil _
  | cons c cs ih =>
    intro st o st' hh
    simp only [drawCells] at hh
    split at hh
    · simp at hh
    · rename_i ents he
      split at hh
      · simp at hh
      · rename_i o2 st2 h2
        split at hh
        · simp at hh
        · rename_i o3 st3 h3
          simp at hh; obtain ⟨rfl, rfl⟩ := hh
          exact hR.app _ _ _ _ _ (hR.attribs _ _ _) (hR.app _ _ _ _ _ (hsub _ _ _ _ h2) (ih _ _ _ h3))

theorem inv_drawOne {ctx : Ctx} {R : State → List Prim → State → Prop} (hR : Inv ctx R) (doc : Doc)
    (sub : Option (Nat → List Ent → State → Res))
    (hsub : ∀ f, sub = some f → ∀ h ents st o st', f h ents st = .ok (o, st') → R st o st') (ef h : Nat) :
    ∀ e st o st', drawOne doc ctx sub ef h e st = .ok (o, st') → R st o st' := by
  intro e st o st' hh
  cases e with
  | leaf k p pts =>
    simp only [drawOne] at hh
    split at hh
    · rename_i hv
      simp at hh; obtain ⟨rfl, rfl⟩ := hh
      exact hR.leaf _ _ _ _ _ hv
    · simp at hh; obtain ⟨rfl, rfl⟩ := hh; exact hR.nil _
  | ins i =>
    simp only [drawOne] at hh
    split at hh
    · cases sub with
      | none => simp at hh
      | some f =>
        simp only at hh
        split at hh
        · simp at hh
        · rename_i blk hfind
          split at hh
          · simp at hh
          · rename_i o2 st2 hc
            split at hh
            · simp at hh
            · rename_i st3 hpop
              simp at hh; obtain ⟨rfl, rfl⟩ := hh
              exact hR.scope _ _ _ _ _ (inv_drawCells hR _ (hsub f rfl _) _ _ _ _ _ _ _ hc) hpop
    · simp at hh; obtain ⟨rfl, rfl⟩ := hh; exact hR.nil _

/-- every invariant of the single steps is an invariant of the whole traversal, at any nesting depth -/
theorem inv_drawEnts {ctx : Ctx} {R : State → List Prim → State → Prop} (hR : Inv ctx R) (doc : Doc) (fuel : Nat) :
    ∀ h ents st o st', drawEnts doc ctx fuel h ents st = .ok (o, st') → R st o st' := by
  induction fuel with
  | zero =>
    intro h ents st o st' hh
    rw [drawEnts_eq] at hh
    exact inv_drawList hR _ (inv_drawOne hR doc _ (by intro f hf; simp [subOf] at hf) _ h) _ _ _ _ hh
  | succ n ih =>
    intro h ents st o st' hh
    rw [drawEnts_eq] at hh
    refine inv_drawList hR _ (inv_drawOne hR doc _ ?_ _ h) _ _ _ _ hh
    intro f hf
    simp [subOf] at hf
    subst hf
    exact ih


end EzdxfVerif.Render

namespace EzdxfVerif.Render

theorem drawEnts_nil (doc : Doc) (ctx : Ctx) (fuel h : Nat) (st : State) : drawEnts doc ctx fuel h [] st = .ok ([], st) := by
  rw [drawEnts_eq]; rfl

theorem drawEnts_cons (doc : Doc) (ctx : Ctx) (fuel h : Nat) (e : Ent) (es : List Ent) (st : State) :
    drawEnts doc ctx fuel h (e :: es) st =
      match drawOne doc ctx (subOf doc ctx fuel) (fuel - 1) h e st with
      | .error x => .error x
      | .ok (o1, st1) =>
        match drawEnts doc ctx fuel h es st1 with
        | .error x => .error x
        | .ok (o2, st2) => .ok (o1 ++ o2, st2) := by
  rw [drawEnts_eq]; rfl

/-- the motive of draw = specification: the transformed copies exist and are drawn as the specification says -/
def DrawsAs (doc : Doc) (ctx : Ctx) (fuel : Nat) (ents : List Ent) (m : Aff) (forest : Forest) : Prop :=
  ∃ ents', mapE (transformEnt m) ents = .ok ents' ∧
    ∀ h st, drawEnts doc ctx fuel h ents' st = .ok (Spec.flatten ctx st.current m h forest, st)

/-- without a fall-back `explode` is the plain element-wise transformation -/
theorem explode_of_mapE (doc : Doc) (f : Nat) (m : Aff) : ∀ (src ents : List Ent), mapE (transformEnt m) src = .ok ents →
    explode doc f m src = .ok ents := by
  have key : ∀ (sub : Option (Aff → List Ent → Except Err (List Ent))) (src ents : List Ent),
      mapE (transformEnt m) src = .ok ents → flatMapE (transformOne doc sub m) src = .ok ents := by
    intro sub src
    induction src with
    | nil => intro ents h; simp [mapE] at h; subst h; rfl
    | cons e es ih =>
      intro ents h
      simp only [mapE] at h
      split at h
      · simp at h
      · rename_i b hb
        split at h
        · simp at h
        · rename_i bs hbs
          simp at h; subst h
          have h1 : transformOne doc sub m e = .ok [b] := by
            cases e with
            | leaf k p pts => simp [transformEnt] at hb; subst hb; rfl
            | ins i =>
              simp only [transformEnt] at hb
              split at hb
              · rename_i i' hi; simp at hb; subst hb; simp [transformOne, hi]
              · simp at hb
          simp [flatMapE, h1, ih bs hbs]
  intro src ents h
  cases f with
  | zero => exact key none src ents h
  | succ n => exact key _ src ents h

theorem drawCells_spec (doc : Doc) (ctx : Ctx) (fuel' : Nat) (blk : Block) (ch : Forest) (m : Aff) (h' : Nat) (rp : RProps)
    (ih : ∀ m', ch.lawful m' = true → DrawsAs doc ctx fuel' (blockCopies blk) m' ch) :
    ∀ (cs' cs : List Ins) (st1 : State), st1.current = some rp → cellsAgree m blk.base cs' cs = true →
      cs.all (fun c => ch.lawful ((xfOf c blk.base).comp m)) = true →
      drawCells ctx (drawEnts doc ctx fuel' h') (fun m' => virtualEntities doc fuel' m' blk) blk.base h' cs' st1 =
        .ok (Spec.cellsPrims ctx rp m h' blk.base (fun m' => Spec.flatten ctx (some rp) m' h' ch) cs, st1) := by
  intro cs'
  induction cs' with
  | nil =>
    intro cs st1 _ hag _
    cases cs with
    | nil => simp [drawCells, Spec.cellsPrims]
    | cons c cs => simp [cellsAgree] at hag
  | cons c' cs' ihc =>
    intro cs st1 hcur hag hall
    cases cs with
    | nil => simp [cellsAgree] at hag
    | cons c cs =>
      simp only [cellsAgree, Bool.and_eq_true, decide_eq_true_eq] at hag
      obtain ⟨⟨hmat, hatt⟩, hrest⟩ := hag
      simp only [List.all_cons, Bool.and_eq_true] at hall
      obtain ⟨hl, hall'⟩ := hall
      obtain ⟨ents', hmap, hdraw⟩ := ih _ hl
      have hx : virtualEntities doc fuel' ((xfOf c blk.base).comp m) blk = .ok ents' :=
        explode_of_mapE doc fuel' _ _ _ hmap
      simp only [drawCells, hmat, hx, hdraw, ihc cs st1 hcur hrest hall', hcur, hatt,
        Spec.cellsPrims, List.flatMap_cons, Spec.mapAttribs, List.append_assoc]

theorem draw_eq_spec_tree (doc : Doc) (ctx : Ctx) (fuel : Nat) (ents : List Ent) :
    ∀ (m : Aff) (forest : Forest), unfold doc fuel ents = some forest → forest.lawful m = true →
      DrawsAs doc ctx fuel ents m forest := by
  fun_induction unfold doc fuel ents with
  | case1 fuel =>
    intro m forest h _
    simp at h; subst h
    exact ⟨[], rfl, fun h st => by simp [drawEnts_nil, Spec.flatten]⟩
  | case2 fuel k p pts es rest hrest ih =>
    intro m forest h hl
    simp at h; subst h
    simp only [Forest.lawful] at hl
    obtain ⟨es', hmap, hdraw⟩ := ih m rest hrest hl
    refine ⟨.leaf k p (pts.map m.apply) :: es', by simp [mapE, transformEnt, hmap], fun h st => ?_⟩
    rw [drawEnts_cons]
    simp only [drawOne, Spec.flatten]
    by_cases hv : (resolveAll ctx st.current false false p).visible = true <;> simp [hv, hdraw]
  | case3 fuel k p pts es hrest ih => intro m forest h _; simp at h
  | case4 i tail => intro m forest h _; simp at h
  | case5 fuel' i es hfind => intro m forest h _; simp at h
  | case6 fuel' i es blk hfind hch ih => intro m forest h _; simp at h
  | case7 fuel' i es blk hfind ch hch rest hrest ih1 ih2 =>
    intro m forest h hl
    simp at h; subst h
    simp only [Forest.lawful, Bool.and_eq_true] at hl
    obtain ⟨hnode, hlrest⟩ := hl
    split at hnode
    · rename_i i' hti
      simp only [Bool.and_eq_true, decide_eq_true_eq] at hnode
      obtain ⟨⟨⟨hprops, hname⟩, hag⟩, hall⟩ := hnode
      obtain ⟨es', hmap, hdraw⟩ := ih2 m rest hrest hlrest
      refine ⟨.ins i' :: es', by simp [mapE, transformEnt, hti, hmap], fun h st => ?_⟩
      rw [drawEnts_cons]
      simp only [drawOne, subOf, Spec.flatten, hprops, hname, hfind, Nat.succ_sub_one, Nat.add_sub_cancel]
      by_cases hv : (resolveAll ctx st.current true false i.props).visible = true
      · have hc := drawCells_spec doc ctx fuel' blk ch m (hOf i.props h) (resolveAll ctx st.current true false i.props)
          (fun m' hm' => ih1 m' ch hch hm') (cells i') (cells i)
          (st.push (resolveAll ctx st.current true false i.props)) rfl hag hall
        simp only [State.push] at hc
        simp only [hv, if_true, State.push, hc]
        simp [State.pop, hdraw]
      · simp [hv, hdraw]
    · simp at hnode
  | case8 fuel' i es blk hfind ch hch hrest ih1 ih2 => intro m forest h _; simp at h

end EzdxfVerif.Render

namespace EzdxfVerif.Render

theorem norm_of (v : P2) (n : Rat) (hn : 0 ≤ n) (h : n * n = v.x * v.x + v.y * v.y) : norm v = some n :=
  sqrtQ_of_sq _ n hn h

/-- `Insert.transform` succeeds when the images of the axes are orthogonal and have rational non-zero lengths -/
theorem transformIns_ok_of_norms (m : Aff) (i : Ins) (nx ny : Rat) (hx : 0 < nx) (hy : 0 < ny)
    (hnx : nx * nx = (m.lin (ocsFlip i.flip i.dir)).x * (m.lin (ocsFlip i.flip i.dir)).x +
      (m.lin (ocsFlip i.flip i.dir)).y * (m.lin (ocsFlip i.flip i.dir)).y)
    (hny : ny * ny = (m.lin (ocsFlip i.flip ⟨-i.dir.y, i.dir.x⟩)).x * (m.lin (ocsFlip i.flip ⟨-i.dir.y, i.dir.x⟩)).x +
      (m.lin (ocsFlip i.flip ⟨-i.dir.y, i.dir.x⟩)).y * (m.lin (ocsFlip i.flip ⟨-i.dir.y, i.dir.x⟩)).y)
    (ho : dot (m.lin (ocsFlip i.flip i.dir)) (m.lin (ocsFlip i.flip ⟨-i.dir.y, i.dir.x⟩)) = 0) :
    ∃ i', transformIns m i = .ok i' := by
  have h1 := norm_of _ nx (le_of_lt hx) hnx
  have h2 := norm_of _ ny (le_of_lt hy) hny
  have d1 : dot (m.lin (ocsFlip i.flip i.dir)) (m.lin (ocsFlip i.flip i.dir)) ≠ 0 := by
    simp only [dot]; rw [← hnx]; exact ne_of_gt (mul_pos hx hx)
  have d2 : dot (m.lin (ocsFlip i.flip ⟨-i.dir.y, i.dir.x⟩)) (m.lin (ocsFlip i.flip ⟨-i.dir.y, i.dir.x⟩)) ≠ 0 := by
    simp only [dot]; rw [← hny]; exact ne_of_gt (mul_pos hy hy)
  simp only [transformIns, h1, h2, ho, d1, d2, or_self, if_false, ne_eq, not_true_eq_false]
  exact ⟨_, rfl⟩

theorem abs_norm (x y : Rat) (h : x * y = 0) : (|x| + |y|) * (|x| + |y|) = x * x + y * y := by
  have h1 : |x| * |y| = 0 := by rw [← abs_mul, h, abs_zero]
  have h2 := abs_mul_abs_self x
  have h3 := abs_mul_abs_self y
  linear_combination h2 + h3 + 2 * h1

/-- quarter-turn class: `Insert.transform(m)` never raises for an axis-monomial `m` and a reference rotated by a multiple of 90° -/
theorem transformIns_ok_quarter (m : Aff) (i : Ins) (hm : Monomial m) (hd : AxisUnit i.dir) :
    ∃ i', transformIns m i = .ok i' := by
  obtain ⟨a, b, c, d, tx, ty⟩ := m
  obtain ⟨props, name, pos, sx, sy, ⟨p, q⟩, flip, attribs, rows, cols, rowSp, colSp⟩ := i
  have he := exSign_cases flip
  have hee : exSign flip * exSign flip = 1 := by rcases he with h1 | h1 <;> rw [h1] <;> norm_num
  simp only [AxisUnit, P2.mk.injEq] at hd
  have hpq : p * q = 0 ∧ ((p * p = 1 ∧ q = 0) ∨ (p = 0 ∧ q * q = 1)) := by
    rcases hd with ⟨rfl, rfl⟩ | ⟨rfl, rfl⟩ | ⟨rfl, rfl⟩ | ⟨rfl, rfl⟩ <;> norm_num
  obtain ⟨hpq0, hpq1⟩ := hpq
  have hab : a * b = 0 ∧ c * d = 0 ∧ a * c + b * d = 0 := by
    rcases hm with ⟨h1, h2, _, _⟩ | ⟨h1, h2, _, _⟩ <;> simp only at h1 h2 <;> subst h1 h2 <;> simp
  obtain ⟨hab0, hcd0, hacbd⟩ := hab
  have hpos : 0 < a * a + b * b ∧ 0 < c * c + d * d := by
    rcases hm with ⟨h1, h2, h3, h4⟩ | ⟨h1, h2, h3, h4⟩ <;> simp only at h1 h2 h3 h4 <;> subst h1 h2 <;>
      constructor <;> nlinarith [mul_self_pos.mpr h3, mul_self_pos.mpr h4]
  have hU : (exSign flip * p * a + q * c) * (exSign flip * p * b + q * d) = 0 := by
    linear_combination (p * p * exSign flip * exSign flip) * hab0 + (q * q) * hcd0 + (exSign flip * (a * d + b * c)) * hpq0
  have hV : (exSign flip * -q * a + p * c) * (exSign flip * -q * b + p * d) = 0 := by
    linear_combination (q * q * exSign flip * exSign flip) * hab0 + (p * p) * hcd0 - (exSign flip * (a * d + b * c)) * hpq0
  refine transformIns_ok_of_norms _ _ (|exSign flip * p * a + q * c| + |exSign flip * p * b + q * d|)
    (|exSign flip * -q * a + p * c| + |exSign flip * -q * b + p * d|) ?_ ?_ ?_ ?_ ?_
  · have := abs_norm _ _ hU
    have h0 : 0 ≤ |exSign flip * p * a + q * c| + |exSign flip * p * b + q * d| := by positivity
    rcases lt_or_eq_of_le h0 with h | h
    · exact h
    · exfalso
      rw [← h] at this
      rcases hpq1 with ⟨h1, h2⟩ | ⟨h1, h2⟩
      · subst h2
        have k : (exSign flip * p * a + 0 * c) * (exSign flip * p * a + 0 * c) +
            (exSign flip * p * b + 0 * d) * (exSign flip * p * b + 0 * d) = a * a + b * b := by
          linear_combination ((a * a + b * b) * p * p) * hee + (a * a + b * b) * h1
        linarith [hpos.1]
      · subst h1
        have k : (exSign flip * 0 * a + q * c) * (exSign flip * 0 * a + q * c) +
            (exSign flip * 0 * b + q * d) * (exSign flip * 0 * b + q * d) = c * c + d * d := by
          linear_combination (c * c + d * d) * h2
        linarith [hpos.2]
  · have := abs_norm _ _ hV
    have h0 : 0 ≤ |exSign flip * -q * a + p * c| + |exSign flip * -q * b + p * d| := by positivity
    rcases lt_or_eq_of_le h0 with h | h
    · exact h
    · exfalso
      rw [← h] at this
      rcases hpq1 with ⟨h1, h2⟩ | ⟨h1, h2⟩
      · subst h2
        have k : (exSign flip * -0 * a + p * c) * (exSign flip * -0 * a + p * c) +
            (exSign flip * -0 * b + p * d) * (exSign flip * -0 * b + p * d) = c * c + d * d := by
          linear_combination (c * c + d * d) * h1
        linarith [hpos.2]
      · subst h1
        have k : (exSign flip * -q * a + 0 * c) * (exSign flip * -q * a + 0 * c) +
            (exSign flip * -q * b + 0 * d) * (exSign flip * -q * b + 0 * d) = a * a + b * b := by
          linear_combination ((a * a + b * b) * q * q) * hee + (a * a + b * b) * h2
        linarith [hpos.1]
  · simpa only [Aff.lin, ocsFlip] using abs_norm _ _ hU
  · simpa only [Aff.lin, ocsFlip] using abs_norm _ _ hV
  · simp only [dot, Aff.lin, ocsFlip]
    linear_combination (c * c + d * d - a * a * exSign flip * exSign flip - b * b * exSign flip * exSign flip) * hpq0 +
      (exSign flip * (p * p - q * q)) * hacbd

/-- uniform class: `Insert.transform(m)` never raises for a similarity `m` and ANY rotation of the reference -/
theorem transformIns_ok_similarity (m : Aff) (k : Rat) (i : Ins) (hm : Similarity m k) (hd : UnitDir i.dir) :
    ∃ i', transformIns m i = .ok i' := by
  obtain ⟨a, b, c, d, tx, ty⟩ := m
  obtain ⟨props, name, pos, sx, sy, ⟨p, q⟩, flip, attribs, rows, cols, rowSp, colSp⟩ := i
  have he := exSign_cases flip
  have hee : exSign flip * exSign flip = 1 := by rcases he with h1 | h1 <;> rw [h1] <;> norm_num
  simp only [UnitDir] at hd
  obtain ⟨hk, hk2, hor⟩ := hm
  simp only at hk2 hor
  refine transformIns_ok_of_norms _ _ k k hk hk ?_ ?_ ?_
  · simp only [Aff.lin, ocsFlip]
    rcases hor with ⟨hc, hdd⟩ | ⟨hc, hdd⟩ <;> rw [hc, hdd]
    · linear_combination (-(a * a + b * b)) * hd - (p * p * (a * a + b * b)) * hee - hk2
    · linear_combination (-(a * a + b * b)) * hd - (p * p * (a * a + b * b)) * hee - hk2
  · simp only [Aff.lin, ocsFlip]
    rcases hor with ⟨hc, hdd⟩ | ⟨hc, hdd⟩ <;> rw [hc, hdd]
    · linear_combination (-(a * a + b * b)) * hd - (q * q * (a * a + b * b)) * hee - hk2
    · linear_combination (-(a * a + b * b)) * hd - (q * q * (a * a + b * b)) * hee - hk2
  · simp only [dot, Aff.lin, ocsFlip]
    rcases hor with ⟨hc, hdd⟩ | ⟨hc, hdd⟩ <;> rw [hc, hdd]
    · linear_combination (-(p * q * (a * a + b * b))) * hee
    · linear_combination (-(p * q * (a * a + b * b))) * hee

theorem similarity_id : Similarity Aff.id 1 := by
  refine ⟨by norm_num, by simp [Aff.id], Or.inl ⟨by simp [Aff.id], by simp [Aff.id]⟩⟩

theorem similarity_comp (f g : Aff) (k1 k2 : Rat) (hf : Similarity f k1) (hg : Similarity g k2) :
    Similarity (f.comp g) (k1 * k2) := by
  obtain ⟨fa, fb, fc, fd, ftx, fty⟩ := f
  obtain ⟨ga, gb, gc, gd, gtx, gty⟩ := g
  obtain ⟨h1, h2, h3⟩ := hf
  obtain ⟨k1', k2', k3⟩ := hg
  simp only at h2 h3 k2' k3
  refine ⟨mul_pos h1 k1', ?_, ?_⟩
  · simp only [Aff.comp]
    rcases k3 with ⟨e1, e2⟩ | ⟨e1, e2⟩ <;> rw [e1, e2]
    · linear_combination (ga * ga + gb * gb) * h2 + (k1 * k1) * k2'
    · linear_combination (ga * ga + gb * gb) * h2 + (k1 * k1) * k2'
  · simp only [Aff.comp]
    rcases h3 with ⟨e3, e4⟩ | ⟨e3, e4⟩ <;> rcases k3 with ⟨e1, e2⟩ | ⟨e1, e2⟩ <;> rw [e1, e2, e3, e4]
    · left; constructor <;> ring
    · right; constructor <;> ring
    · right; constructor <;> ring
    · left; constructor <;> ring

theorem similarity_xfOf (i : Ins) (base : P2) (h : InsUniform i) : Similarity (xfOf i base) |i.sx| := by
  obtain ⟨props, name, pos, sx, sy, ⟨p, q⟩, flip, attribs, rows, cols, rowSp, colSp⟩ := i
  obtain ⟨hd, hsx, hsy⟩ := h
  simp only [UnitDir] at hd
  simp only at hsx hsy
  have he := exSign_cases flip
  have hee : exSign flip * exSign flip = 1 := by rcases he with h1 | h1 <;> rw [h1] <;> norm_num
  refine ⟨abs_pos.mpr hsx, ?_, ?_⟩
  · simp only [xfOf, ite_flip1, ite_flip2, abs_mul_abs_self]
    linear_combination (sx * sx) * hd + (sx * sx * p * p + sx * sx * q * q * (exSign flip * exSign flip + 1)) * hee
  · simp only [xfOf, ite_flip1, ite_flip2]
    rcases he with h1 | h1 <;> rcases hsy with rfl | rfl <;> rw [h1]
    · left; constructor <;> ring
    · right; constructor <;> ring
    · right; constructor <;> ring
    · left; constructor <;> ring

theorem monomial_xfOf (i : Ins) (base : P2) (h : InsQuarter i) : Monomial (xfOf i base) := by
  obtain ⟨hd, hsx, hsy⟩ := h
  rcases hd with hd | hd | hd | hd <;> cases hf : i.flip <;>
  simp [xfOf, Monomial, exSign, Aff.lin, ocsFlip, hd, hf, hsx, hsy]

theorem monomial_comp (f g : Aff) (hf : Monomial f) (hg : Monomial g) : Monomial (f.comp g) := by
  obtain ⟨fa, fb, fc, fd, ftx, fty⟩ := f
  obtain ⟨ga, gb, gc, gd, gtx, gty⟩ := g
  rcases hf with ⟨h1, h2, h3, h4⟩ | ⟨h1, h2, h3, h4⟩ <;> rcases hg with ⟨k1, k2, k3, k4⟩ | ⟨k1, k2, k3, k4⟩ <;>
  simp only at h1 h2 h3 h4 k1 k2 k3 k4 <;> subst h1 h2 k1 k2 <;>
  simp [Aff.comp, Monomial, h3, h4, k3, k4]

theorem monomial_id : Monomial Aff.id := Or.inl ⟨rfl, rfl, by simp [Aff.id], by simp [Aff.id]⟩

/-! ### MINSERT: grid elements of the transformed reference -/

end EzdxfVerif.Render

namespace EzdxfVerif.Render

theorem eraseDups_map_inj {α : Type} [DecidableEq α] (f : α → α) (hf : Function.Injective f) :
    ∀ (n : Nat) (l : List α), l.length ≤ n → (l.map f).eraseDups = l.eraseDups.map f := by
  intro n
  induction n with
  | zero => intro l hl; cases l with
    | nil => simp
    | cons a as => simp at hl
  | succ n ih =>
    intro l hl
    cases l with
    | nil => simp
    | cons a as =>
      simp only [List.map_cons, List.eraseDups_cons]
      have hfil : (as.map f).filter (fun b => !b == f a) = (as.filter (fun b => !b == a)).map f := by
        rw [List.filter_map]
        congr 1
        apply List.filter_congr
        intro x _
        simp only [Function.comp, beq_iff_eq, Bool.not_eq_eq_eq_not, Bool.not_not]
        by_cases hx : x = a
        · simp [hx]
        · have : f x ≠ f a := fun h => hx (hf h)
          simp [hx, this]
      rw [hfil, ih _ (by
        have := List.length_filter_le (fun b => !b == a) as
        simp at hl; omega)]

/-- the transformed reference in terms of the images `ux`, `uy` of its axes: lengths `nx`, `ny`, handedness `s` -/
theorem transformIns_ok_shape (m : Aff) (i i' : Ins) (h : transformIns m i = .ok i') :
    ∃ nx ny s : Rat, nx ≠ 0 ∧ ny ≠ 0 ∧ (s = 1 ∨ s = -1) ∧
      i'.sx = nx * i.sx ∧ i'.sy = s * ny * i.sy ∧ i'.flip = i.flip ∧ i'.rows = i.rows ∧ i'.cols = i.cols ∧
      i'.pos = ocsFlip i.flip (m.apply (ocsFlip i.flip i.pos)) ∧
      i'.colSp = (if i.sx ≠ 0 then i.colSp * nx else i.colSp) ∧
      i'.rowSp = (if i.sy ≠ 0 then i.rowSp * (s * ny) else i.rowSp) ∧
      nx * i'.dir.x = exSign i.flip * (m.lin (ocsFlip i.flip i.dir)).x ∧
      nx * i'.dir.y = (m.lin (ocsFlip i.flip i.dir)).y ∧
      s * ny * (-i'.dir.y) = exSign i.flip * (m.lin (ocsFlip i.flip ⟨-i.dir.y, i.dir.x⟩)).x ∧
      s * ny * i'.dir.x = (m.lin (ocsFlip i.flip ⟨-i.dir.y, i.dir.x⟩)).y := by
  obtain ⟨a, b, c, d, tx, ty⟩ := m
  obtain ⟨props, name, ⟨px, py⟩, sx, sy, ⟨p, q⟩, flip, attribs, rows, cols, rowSp, colSp⟩ := i
  simp only [transformIns] at h
  split at h
  · simp at h
  · rename_i hz
    split at h
    · simp at h
    · rename_i ho
      split at h
      · rename_i nx ny hnx hny
        obtain ⟨hnx0, hnx2⟩ := sqrtQ_spec _ _ hnx
        obtain ⟨hny0, hny2⟩ := sqrtQ_spec _ _ hny
        clear hnx hny
        simp only [not_or] at hz
        simp only [ne_eq, Decidable.not_not] at ho
        have hx0 : nx ≠ 0 := by
          intro h0; apply hz.1; simp only [dot]; rw [← hnx2, h0]; ring
        have hy0 : ny ≠ 0 := by
          intro h0; apply hz.2; simp only [dot]; rw [← hny2, h0]; ring
        clear hz
        simp only [Except.ok.injEq] at h
        have he := exSign_cases flip
        have hee : exSign flip * exSign flip = 1 := by rcases he with h1 | h1 <;> rw [h1] <;> norm_num
        simp only [Aff.lin, ocsFlip, dot] at hnx2 hny2 ho
        obtain ⟨hSp, hSn⟩ := sign_choice (exSign flip * p * a + q * c) (exSign flip * p * b + q * d)
          (exSign flip * -q * a + p * c) (exSign flip * -q * b + p * d)
          nx ny 1 hx0 hy0 hnx2 hny2 ho (exSign flip) he
        split at h
        · rename_i hc
          simp only [Aff.lin, ocsFlip] at hc
          obtain ⟨hS1, hS2⟩ := hSp hc
          subst h
          refine ⟨nx, ny, 1, hx0, hy0, Or.inl rfl, rfl, by ring, rfl, rfl, rfl, rfl, ?_, ?_, ?_, ?_, ?_, ?_⟩
          · simp only; split <;> [field_simp; rfl]
          · simp only; split <;> [(field_simp); rfl]
          · simp only [Aff.lin, ocsFlip]; field_simp
          · simp only [Aff.lin, ocsFlip]; field_simp
          · simp only [Aff.lin, ocsFlip]
            linear_combination (exSign flip) * hS1 + (ny * ((exSign flip * p * b + q * d) / nx)) * hee
          · simp only [Aff.lin, ocsFlip]
            linear_combination hS2
        · rename_i hc
          simp only [Aff.lin, ocsFlip] at hc
          obtain ⟨hS1, hS2⟩ := hSn hc
          subst h
          refine ⟨nx, ny, -1, hx0, hy0, Or.inr rfl, rfl, by ring, rfl, rfl, rfl, rfl, ?_, ?_, ?_, ?_, ?_, ?_⟩
          · simp only; split <;> [field_simp; rfl]
          · simp only; split <;> [(field_simp); rfl]
          · simp only [Aff.lin, ocsFlip]; field_simp
          · simp only [Aff.lin, ocsFlip]; field_simp
          · simp only [Aff.lin, ocsFlip]
            linear_combination (exSign flip) * hS1 - (ny * ((exSign flip * p * b + q * d) / nx)) * hee
          · simp only [Aff.lin, ocsFlip]
            linear_combination hS2
      · simp at h

theorem xfOf_gridCell (i : Ins) (off : P2) (base : P2) :
    xfOf (gridCell i off) base =
      { xfOf i base with tx := (xfOf i base).tx + (ocsFlip i.flip (rotateBy i.dir off)).x,
                         ty := (xfOf i base).ty + (ocsFlip i.flip (rotateBy i.dir off)).y } := by
  obtain ⟨props, name, pos, sx, sy, dir, flip, attribs, rows, cols, rowSp, colSp⟩ := i
  cases flip <;> simp [xfOf, gridCell, copyIns, ocsFlip, exSign, Aff.lin] <;> constructor <;> ring

theorem comp_shift (f m : Aff) (dx dy : Rat) :
    ({ f with tx := f.tx + dx, ty := f.ty + dy } : Aff).comp m =
      { f.comp m with tx := (f.comp m).tx + (m.lin ⟨dx, dy⟩).x, ty := (f.comp m).ty + (m.lin ⟨dx, dy⟩).y } := by
  simp only [Aff.comp, Aff.lin, Aff.mk.injEq, true_and]
  constructor <;> ring

/-- the grid offset of the transformed MINSERT is the transformed grid offset -/
theorem grid_identity (m : Aff) (flip : Bool) (d d' : P2) (nx ny s : Rat) (off : P2)
    (h1 : nx * d'.x = exSign flip * (m.lin (ocsFlip flip d)).x) (h2 : nx * d'.y = (m.lin (ocsFlip flip d)).y)
    (h3 : s * ny * (-d'.y) = exSign flip * (m.lin (ocsFlip flip ⟨-d.y, d.x⟩)).x)
    (h4 : s * ny * d'.x = (m.lin (ocsFlip flip ⟨-d.y, d.x⟩)).y) :
    ocsFlip flip (rotateBy d' ⟨off.x * nx, off.y * (s * ny)⟩) = m.lin (ocsFlip flip (rotateBy d off)) := by
  have he := exSign_cases flip
  have hee : exSign flip * exSign flip = 1 := by rcases he with k | k <;> rw [k] <;> norm_num
  obtain ⟨a, b, c, dd, tx, ty⟩ := m
  obtain ⟨p, q⟩ := d
  obtain ⟨p', q'⟩ := d'
  obtain ⟨ox, oy⟩ := off
  simp only [Aff.lin, ocsFlip, rotateBy, P2.mk.injEq] at h1 h2 h3 h4 ⊢
  constructor
  · linear_combination (exSign flip * ox) * h1 + (exSign flip * oy) * h3 +
      (ox * (exSign flip * p * a + q * c) + oy * (exSign flip * -q * a + p * c)) * hee
  · linear_combination ox * h2 + oy * h4

theorem cellsAgree_map (m : Aff) (base : P2) (i i' : Ins) (sc : P2 → P2)
    (hcell : ∀ off, xfOf (gridCell i' (sc off)) base = (xfOf (gridCell i off) base).comp m ∧
      (gridCell i' (sc off)).attribs = (gridCell i off).attribs.map (transformAttrib m)) :
    ∀ l : List P2, cellsAgree m base ((l.map sc).map (gridCell i')) (l.map (gridCell i)) = true := by
  intro l
  induction l with
  | nil => rfl
  | cons o os ih =>
    simp only [List.map_cons, cellsAgree, Bool.and_eq_true, decide_eq_true_eq]
    exact ⟨⟨(hcell o).1, (hcell o).2⟩, ih⟩

/-- MINSERT: the grid elements of the transformed reference are the transformed grid elements (matrix and ATTRIBs), for EVERY
    matrix for which `Insert.transform` does not raise (fixes 1240d5ce0 spacing, 2b2432f57 ATTRIBs) -/
theorem cells_transform (m : Aff) (i i' : Ins) (base : P2) (h : transformIns m i = .ok i') (hsx : i.sx ≠ 0) (hsy : i.sy ≠ 0) :
    cellsAgree m base (cells i') (cells i) = true := by
  obtain ⟨nx, ny, s, hx0, hy0, hs, e1, e2, e3, e4, e5, e6, e7, e8, s1, s2, s3, s4⟩ := transformIns_ok_shape m i i' h
  have hm := transformIns_ok_matrix m i i' base h
  obtain ⟨f1, f2, f3, _, _, _⟩ := transformIns_ok_fields m i i' h
  have hsn : s * ny ≠ 0 := by
    rcases hs with rfl | rfl <;> simpa using hy0
  simp only [hsx, hsy, ne_eq, not_false_eq_true, if_true] at e7 e8
  have hmc : mcount i' = mcount i := by
    simp only [mcount, e4, e5, e7, e8, ne_eq, mul_eq_zero, hx0, hsn, or_false]
  have hcell : ∀ off : P2, xfOf (gridCell i' ⟨off.x * nx, off.y * (s * ny)⟩) base = (xfOf (gridCell i off) base).comp m ∧
      (gridCell i' ⟨off.x * nx, off.y * (s * ny)⟩).attribs = (gridCell i off).attribs.map (transformAttrib m) := by
    intro off
    have hk := grid_identity m i.flip i.dir i'.dir nx ny s off s1 s2 s3 s4
    constructor
    · rw [xfOf_gridCell, xfOf_gridCell, comp_shift, hm, e3, hk]
    · simp only [gridCell, copyIns, f3, List.map_map, e3, hk]
      apply List.map_congr_left
      intro a _
      simp only [Function.comp, transformAttrib, copyAttrib, Attrib.mk.injEq, true_and, Aff.apply, Aff.lin, P2.mk.injEq]
      constructor <;> ring
  simp only [cells, hmc]
  split
  · simp only [multiInsert]
    have hoff : gridOffsets i' = (gridOffsets i).map (fun p => (⟨p.x * nx, p.y * (s * ny)⟩ : P2)) := by
      simp only [gridOffsets, e4, e5, e7, e8]
      have hinj : Function.Injective (fun p : P2 => (⟨p.x * nx, p.y * (s * ny)⟩ : P2)) := by
        intro p q hpq
        simp only [P2.mk.injEq] at hpq
        obtain ⟨h1, h2⟩ := hpq
        cases p; cases q
        simp only [P2.mk.injEq]
        exact ⟨mul_right_cancel₀ hx0 h1, mul_right_cancel₀ hsn h2⟩
      rw [← eraseDups_map_inj _ hinj _ _ (le_refl _)]
      congr 1
      simp only [List.map_flatMap, List.map_map]
      congr 1
      funext r
      congr 1
      funext c
      simp only [Function.comp, P2.mk.injEq]
      constructor <;> ring
    rw [hoff]
    exact cellsAgree_map m base i i' _ hcell (gridOffsets i)
  · simp only [cellsAgree, hm, f3, decide_true, Bool.and_self]

end EzdxfVerif.Render

namespace EzdxfVerif.Render

/-! ### from a class of matrices and references to the lawfulness of the whole block tree -/

/-- not a grid (MINSERT) -/
def Plain (i : Ins) : Prop := i.rows = 1 ∧ i.cols = 1

theorem cells_plain (i : Ins) (h : Plain i) : cells i = [i] := by
  obtain ⟨h1, h2⟩ := h
  simp [cells, mcount, h1, h2]

theorem mem_blockCopies (blk : Block) (j : Ins) (h : Ent.ins j ∈ blockCopies blk) :
    ∃ j0, Ent.ins j0 ∈ blk.ents ∧ j = copyIns j0 := by
  simp only [blockCopies, List.mem_map, List.mem_filter] at h
  obtain ⟨e, ⟨he, _⟩, hc⟩ := h
  cases e with
  | leaf k p pts => simp [copyEnt] at hc
  | ins j0 => simp [copyEnt] at hc; exact ⟨j0, he, hc.symm⟩

theorem mem_cells (i : Ins) (c : Ins) (h : c ∈ cells i) : c = i ∨ ∃ off, c = gridCell i off := by
  simp only [cells] at h
  split at h
  · simp only [multiInsert, List.mem_map] at h
    obtain ⟨off, _, rfl⟩ := h
    exact Or.inr ⟨off, rfl⟩
  · simp at h; exact Or.inl h

theorem lawful_of_class (CM : Aff → Prop) (CI : Ins → Prop)
    (hT : ∀ m i, CM m → CI i → ∃ i', transformIns m i = .ok i')
    (hC : ∀ m i base, CM m → CI i → CM ((xfOf i base).comp m))
    (hCopy : ∀ i, CI i → CI (copyIns i))
    (hCell : ∀ i off, CI i → CI (gridCell i off))
    (hNZ : ∀ i, CI i → i.sx ≠ 0 ∧ i.sy ≠ 0)
    (doc : Doc) (hdoc : ∀ b ∈ doc.blocks, ∀ i, Ent.ins i ∈ b.ents → CI i) (fuel : Nat) (ents : List Ent) :
    ∀ (m : Aff) (forest : Forest), CM m → (∀ i, Ent.ins i ∈ ents → CI i) →
      unfold doc fuel ents = some forest → forest.lawful m = true := by
  fun_induction unfold doc fuel ents with
  | case1 fuel => intro m forest _ _ h; simp at h; subst h; rfl
  | case2 fuel k p pts es rest hrest ih =>
    intro m forest hm he h
    simp at h; subst h
    simp only [Forest.lawful]
    exact ih m rest hm (fun i hi => he i (List.mem_cons_of_mem _ hi)) hrest
  | case3 fuel k p pts es hrest ih => intro m forest _ _ h; simp at h
  | case4 i tail => intro m forest _ _ h; simp at h
  | case5 fuel' i es hfind => intro m forest _ _ h; simp at h
  | case6 fuel' i es blk hfind hch ih => intro m forest _ _ h; simp at h
  | case7 fuel' i es blk hfind ch hch rest hrest ih1 ih2 =>
    intro m forest hm he h
    simp at h; subst h
    have hci := he i List.mem_cons_self
    obtain ⟨i', hti⟩ := hT m i hm hci
    obtain ⟨f1, f2, _, _, _, _⟩ := transformIns_ok_fields m i i' hti
    have hag := cells_transform m i i' blk.base hti (hNZ i hci).1 (hNZ i hci).2
    have hblk : ∀ j, Ent.ins j ∈ blockCopies blk → CI j := by
      intro j hj
      obtain ⟨j0, hj0, rfl⟩ := mem_blockCopies blk j hj
      exact hCopy _ (hdoc blk (List.mem_of_find?_eq_some hfind) j0 hj0)
    have hall : (cells i).all (fun c => ch.lawful ((xfOf c blk.base).comp m)) = true := by
      simp only [List.all_eq_true]
      intro c hc
      have hcc : CI c := by
        rcases mem_cells i c hc with rfl | ⟨off, rfl⟩
        · exact hci
        · exact hCell i off hci
      exact ih1 ((xfOf c blk.base).comp m) ch (hC m c blk.base hm hcc) hblk hch
    have hl2 := ih2 m rest hm (fun j hj => he j (List.mem_cons_of_mem _ hj)) hrest
    simp only [Forest.lawful, hti, f1, f2, hag, hall, hl2, decide_true, Bool.and_self]
  | case8 fuel' i es blk hfind ch hch hrest ih1 ih2 => intro m forest _ _ h; simp at h

end EzdxfVerif.Render

namespace EzdxfVerif.Render

theorem map_apply_id (pts : List P2) : pts.map Aff.id.apply = pts := by
  have hq : ∀ q : P2, Aff.id.apply q = q := by intro q; cases q; simp [Aff.apply, Aff.id]
  induction pts with
  | nil => rfl
  | cons q qs ihq => rw [List.map_cons, ihq, hq]

theorem mapE_transformEnt_id (ents : List Ent) (h : EntsWF ents) : mapE (transformEnt Aff.id) ents = .ok ents := by
  induction ents with
  | nil => rfl
  | cons e es ih =>
    have hes : EntsWF es := fun i hi => h i (List.mem_cons_of_mem _ hi)
    cases e with
    | leaf k p pts =>
      simp [mapE, transformEnt, ih hes, map_apply_id pts]
    | ins i => simp [mapE, transformEnt, transformIns_id i (h i List.mem_cons_self), ih hes]

theorem reach_filter (doc : Doc) (p : Ent → Bool) (fuel : Nat) (ents : List Ent) :
    reach doc fuel ents = true → reach doc fuel (ents.filter p) = true := by
  fun_induction reach doc fuel ents with
  | case1 fuel => simp [reach]
  | case2 fuel k q pts es ih =>
    intro h
    simp only [List.filter_cons]
    split
    · simp [reach]; exact ih h
    · exact ih h
  | case3 i es => intro h; simp at h
  | case4 fuel' i es hfind => intro h; simp at h
  | case5 fuel' i es blk hfind ih1 ih2 =>
    intro h
    simp at h
    simp only [List.filter_cons]
    split
    · simp [reach, hfind, h.1, ih2 h.2]
    · exact ih2 h.2

theorem reach_copy (doc : Doc) (fuel : Nat) (ents : List Ent) :
    reach doc fuel (ents.map copyEnt) = reach doc fuel ents := by
  fun_induction reach doc fuel ents with
  | case1 fuel => simp [reach]
  | case2 fuel k p pts es ih => simp [copyEnt, reach, ih]
  | case3 i es => simp [copyEnt, reach]
  | case4 fuel' i es hfind =>
    have hname : (copyIns i).name = i.name := rfl
    simp [copyEnt, reach, hname, hfind]
  | case5 fuel' i es blk hfind ih1 ih2 =>
    have hname : (copyIns i).name = i.name := rfl
    simp [copyEnt, reach, hname, hfind, ih2]

/-- the block tree exists for every acyclic, closed document -/
theorem unfold_of_reach (doc : Doc) (fuel : Nat) (ents : List Ent) :
    reach doc fuel ents = true → ∃ f, unfold doc fuel ents = some f := by
  fun_induction unfold doc fuel ents with
  | case1 fuel => intro _; exact ⟨_, rfl⟩
  | case2 fuel k p pts es rest hrest ih => intro _; exact ⟨_, rfl⟩
  | case3 fuel k p pts es hrest ih =>
    intro hr; simp [reach] at hr
    obtain ⟨f, hf⟩ := ih hr
    rw [hf] at hrest; simp at hrest
  | case4 i tail => intro hr; simp [reach] at hr
  | case5 fuel' i es hfind => intro hr; simp [reach, hfind] at hr
  | case6 fuel' i es blk hfind hch ih =>
    intro hr; simp [reach, hfind] at hr
    have : reach doc fuel' (blockCopies blk) = true := by
      simp only [blockCopies, reach_copy]; exact reach_filter doc _ _ _ hr.1
    obtain ⟨f, hf⟩ := ih this
    rw [hf] at hch; simp at hch
  | case7 fuel' i es blk hfind ch hch rest hrest ih1 ih2 => intro _; exact ⟨_, rfl⟩
  | case8 fuel' i es blk hfind ch hch hrest ih1 ih2 =>
    intro hr; simp [reach, hfind] at hr
    obtain ⟨f, hf⟩ := ih2 hr.2
    rw [hf] at hrest; simp at hrest

end EzdxfVerif.Render

/-! ### BackendProperties.handle -/

namespace EzdxfVerif.Render

/-- a virtual entity (copy): no handle, and none on the attached ATTRIBs -/
def VirtualEnt : Ent → Prop
  | .leaf _ p _ => p.handle = 0
  | .ins i => i.props.handle = 0 ∧ ∀ a ∈ i.attribs, a.props.handle = 0

theorem emitLeaf_handle (k : Kind) (rp : RProps) (h : Nat) (pts : List P2) :
    ∀ pr ∈ emitLeaf k rp h pts, pr.handle = h := by
  intro pr hh
  cases k <;> simp only [emitLeaf] at hh
  case line => simp [mkPrim] at hh; simp [hh]
  case point => split at hh <;> simp [mkPrim] at hh; simp [hh]
  case attdef => simp [mkPrim] at hh; simp [hh]
  case circle => simp [mkPrim] at hh; simp [hh]
  case polyline c =>
    split at hh
    · simp at hh
    · simp at hh
    · split at hh <;> simp [mkPrim] at hh <;> simp [hh]
  case solid =>
    split at hh
    · split at hh <;> simp [mkPrim] at hh <;> simp [hh]
    · simp at hh

theorem drawAttribs_handle (ctx : Ctx) (cur : Option RProps) (h : Nat) (as : List Attrib)
    (hv : ∀ a ∈ as, a.props.handle = 0) : ∀ pr ∈ drawAttribs ctx cur h as, pr.handle = h := by
  intro pr hh
  simp only [drawAttribs, List.mem_flatMap] at hh
  obtain ⟨a, ha, hp⟩ := hh
  split at hp
  · simp [mkPrim] at hp
    rw [hp]; simp [hOf, hv a ha]
  · simp at hp

theorem copyEnt_virtual (e : Ent) : VirtualEnt (copyEnt e) := by
  cases e with
  | leaf k p pts => simp [copyEnt, VirtualEnt, clearHandle]
  | ins i =>
    simp only [copyEnt, VirtualEnt, copyIns, clearHandle, List.mem_map, true_and]
    rintro a ⟨a0, _, rfl⟩
    simp [copyAttrib, clearHandle]

theorem transformEnt_virtual (m : Aff) (e e' : Ent) (hv : VirtualEnt e) (h : transformEnt m e = .ok e') : VirtualEnt e' := by
  cases e with
  | leaf k p pts => simp [transformEnt] at h; subst h; exact hv
  | ins i =>
    simp only [transformEnt] at h
    split at h
    · rename_i i' hi
      simp at h; subst h
      obtain ⟨f1, _, f3, _⟩ := transformIns_ok_fields m i i' hi
      refine ⟨by rw [f1]; exact hv.1, ?_⟩
      intro a ha
      rw [f3] at ha
      simp only [List.mem_map] at ha
      obtain ⟨a0, ha0, rfl⟩ := ha
      exact hv.2 a0 ha0
    · simp at h

theorem flatMapE_pred {α β : Type} (Q : β → Prop) (f : α → Except Err (List β)) (P : α → Prop)
    (hf : ∀ a out, P a → f a = .ok out → ∀ b ∈ out, Q b) :
    ∀ (src : List α) (out : List β), (∀ a ∈ src, P a) → flatMapE f src = .ok out → ∀ b ∈ out, Q b := by
  intro src
  induction src with
  | nil => intro out _ ho; simp [flatMapE] at ho; subst ho; simp
  | cons s ss ih =>
    intro out hs ho
    simp only [flatMapE] at ho
    split at ho
    · simp at ho
    · rename_i bs hbs
      split at ho
      · simp at ho
      · rename_i cs hcs
        simp at ho; subst ho
        intro b hb
        rcases List.mem_append.mp hb with h1 | h1
        · exact hf s bs (hs s List.mem_cons_self) hbs b h1
        · exact ih cs (fun x hx => hs x (List.mem_cons_of_mem _ hx)) hcs b h1

/-- a property of entities that copies of block content have and that `entity.transform` keeps holds for everything
    `virtual_block_reference_entities` yields, with or without the explode fall-back, at any depth -/
theorem explode_pred (doc : Doc) (Q : Ent → Prop) (hcopy : ∀ blk : Block, ∀ e ∈ blockCopies blk, Q e)
    (hleaf : ∀ k p pts pts', Q (.leaf k p pts) → Q (.leaf k p pts'))
    (hins : ∀ m i i', Q (.ins i) → transformIns m i = .ok i' → Q (.ins i')) :
    ∀ (f : Nat) (m : Aff) (src out : List Ent), (∀ e ∈ src, Q e) → explode doc f m src = .ok out → ∀ e ∈ out, Q e := by
  have one : ∀ (sub : Option (Aff → List Ent → Except Err (List Ent))),
      (∀ tr, sub = some tr → ∀ m src out, (∀ e ∈ src, Q e) → tr m src = .ok out → ∀ e ∈ out, Q e) →
      ∀ m e out, Q e → transformOne doc sub m e = .ok out → ∀ x ∈ out, Q x := by
    intro sub hsub m e out hq ho
    cases e with
    | leaf k p pts => simp [transformOne] at ho; subst ho; intro x hx; simp at hx; subst hx; exact hleaf _ _ _ _ hq
    | ins i =>
      simp only [transformOne] at ho
      split at ho
      · rename_i i' hi
        simp at ho; subst ho; intro x hx; simp at hx; subst hx; exact hins m i i' hq hi
      · cases sub with
        | none => simp at ho
        | some tr =>
          simp only at ho
          refine flatMapE_pred Q _ (fun _ => True) ?_ (cells i) out (fun _ _ => trivial) ho
          intro c o _ hc
          simp only [vbreWith] at hc
          split at hc
          · simp at hc
          · rename_i inner hin
            split at hin
            · simp at hin
            · rename_i blk hfind
              exact hsub tr rfl m inner o (hsub tr rfl _ _ inner (hcopy blk) hin) hc
      · simp at ho
  intro f
  induction f with
  | zero =>
    intro m src out hs ho
    exact flatMapE_pred Q _ Q (fun a o ha hh => one none (by intro tr h; simp at h) m a o ha hh) src out hs ho
  | succ n ih =>
    intro m src out hs ho
    exact flatMapE_pred Q _ Q (fun a o ha hh => one (some (explode doc n)) (by intro tr h; simp at h; subst h; exact ih) m a o ha hh) src out hs ho

theorem virtualEntities_virtual (doc : Doc) (f : Nat) (m : Aff) (blk : Block) (ents : List Ent)
    (h : virtualEntities doc f m blk = .ok ents) : ∀ e ∈ ents, VirtualEnt e := by
  refine explode_pred doc VirtualEnt ?_ ?_ ?_ f m (blockCopies blk) ents ?_ h
  · intro b e he
    simp only [blockCopies, List.mem_map] at he
    obtain ⟨e0, _, rfl⟩ := he
    exact copyEnt_virtual e0
  · intro k p pts pts' hq; exact hq
  · intro m i i' hq hi
    exact transformEnt_virtual m (.ins i) (.ins i') hq (by simp [transformEnt, hi])
  · intro e he
    simp only [blockCopies, List.mem_map] at he
    obtain ⟨e0, _, rfl⟩ := he
    exact copyEnt_virtual e0

theorem cells_virtual (i : Ins) (hv : VirtualEnt (.ins i)) : ∀ c ∈ cells i, ∀ a ∈ c.attribs, a.props.handle = 0 := by
  intro c hc
  simp only [cells] at hc
  split at hc
  · simp only [multiInsert, List.mem_map] at hc
    obtain ⟨off, _, rfl⟩ := hc
    intro a ha
    simp only [gridCell, copyIns, List.mem_map] at ha
    obtain ⟨a1, ⟨a0, _, rfl⟩, rfl⟩ := ha
    simp [copyAttrib, clearHandle]
  · simp at hc; subst hc; exact hv.2

theorem handle_drawList (one : Ent → State → Res) (h : Nat) (P : Ent → Prop)
    (hone : ∀ e st o st', P e → one e st = .ok (o, st') → ∀ pr ∈ o, pr.handle = h) :
    ∀ es st o st', (∀ e ∈ es, P e) → drawList one es st = .ok (o, st') → ∀ pr ∈ o, pr.handle = h := by
  intro es
  induction es with
  | nil => intro st o st' _ hh; simp [drawList] at hh; obtain ⟨rfl, rfl⟩ := hh; simp
  | cons e es ih =>
    intro st o st' hp hh
    simp only [drawList] at hh
    split at hh
    · simp at hh
    · rename_i o1 st1 h1
      split at hh
      · simp at hh
      · rename_i o2 st2 h2
        simp at hh; obtain ⟨rfl, rfl⟩ := hh
        intro pr hpr
        rcases List.mem_append.mp hpr with hm | hm
        · exact hone e st o1 st1 (hp e List.mem_cons_self) h1 pr hm
        · exact ih st1 o2 _ (fun x hx => hp x (List.mem_cons_of_mem _ hx)) h2 pr hm

theorem handle_drawCells (ctx : Ctx) (sub : List Ent → State → Res) (ve : Aff → Except Err (List Ent)) (base : P2) (h : Nat)
    (hve : ∀ m ents, ve m = .ok ents → ∀ e ∈ ents, VirtualEnt e)
    (hsub : ∀ ents st o st', (∀ e ∈ ents, VirtualEnt e) → sub ents st = .ok (o, st') → ∀ pr ∈ o, pr.handle = h) :
    ∀ cs st o st', (∀ c ∈ cs, ∀ a ∈ c.attribs, a.props.handle = 0) → drawCells ctx sub ve base h cs st = .ok (o, st') →
      ∀ pr ∈ o, pr.handle = h := by
  intro cs
  induction cs with
  | nil => intro st o st' _ hh; simp [drawCells] at hh; obtain ⟨rfl, rfl⟩ := hh; simp
  | cons c cs ih =>
    intro st o st' hv hh
    simp only [drawCells] at hh
    split at hh
    · simp at hh
    · rename_i ents he
      split at hh
      · simp at hh
      · rename_i o2 st2 h2
        split at hh
        · simp at hh
        · rename_i o3 st3 h3
          simp at hh; obtain ⟨rfl, rfl⟩ := hh
          intro pr hpr
          simp only [List.mem_append] at hpr
          rcases hpr with hm | hm | hm
          · exact drawAttribs_handle ctx _ h _ (hv c List.mem_cons_self) pr hm
          · exact hsub ents st o2 st2 (hve _ ents he) h2 pr hm
          · exact ih st2 o3 _ (fun x hx => hv x (List.mem_cons_of_mem _ hx)) h3 pr hm

/-- BackendProperties.handle: everything drawn for a list of virtual entities (the content of a block reference at any
    nesting depth, the grid elements of a MINSERT, nested references and their ATTRIBs) carries the handle `h` that was
    current when the list was entered - the handle of the top level entity -/
theorem handle_rule (doc : Doc) (ctx : Ctx) (fuel : Nat) :
    ∀ h ents st out st', (∀ e ∈ ents, VirtualEnt e) → drawEnts doc ctx fuel h ents st = .ok (out, st') →
      ∀ pr ∈ out, pr.handle = h := by
  induction fuel with
  | zero =>
    intro h ents st out st' hv hh
    rw [drawEnts_eq] at hh
    refine handle_drawList _ h VirtualEnt ?_ ents st out st' hv hh
    intro e st o st' he ho
    cases e with
    | leaf k p pts =>
      simp only [drawOne] at ho
      split at ho
      · simp at ho; obtain ⟨rfl, rfl⟩ := ho
        intro pr hpr
        have := emitLeaf_handle _ _ _ _ pr hpr
        simpa [hOf, show p.handle = 0 from he] using this
      · simp at ho; obtain ⟨rfl, rfl⟩ := ho; simp
    | ins i =>
      simp only [drawOne, subOf] at ho
      split at ho
      · simp at ho
      · simp at ho; obtain ⟨rfl, rfl⟩ := ho; simp
  | succ n ih =>
    intro h ents st out st' hv hh
    rw [drawEnts_eq] at hh
    refine handle_drawList _ h VirtualEnt ?_ ents st out st' hv hh
    intro e st o st' he ho
    cases e with
    | leaf k p pts =>
      simp only [drawOne] at ho
      split at ho
      · simp at ho; obtain ⟨rfl, rfl⟩ := ho
        intro pr hpr
        have := emitLeaf_handle _ _ _ _ pr hpr
        simpa [hOf, show p.handle = 0 from he] using this
      · simp at ho; obtain ⟨rfl, rfl⟩ := ho; simp
    | ins i =>
      have hh0 : hOf i.props h = h := by simp [hOf, he.1]
      simp only [drawOne, subOf, hh0] at ho
      split at ho
      · split at ho
        · simp at ho
        · rename_i blk hfind
          split at ho
          · simp at ho
          · rename_i o2 st2 hc
            split at ho
            · simp at ho
            · simp at ho; obtain ⟨rfl, rfl⟩ := ho
              exact handle_drawCells ctx _ _ _ h (fun m ents hm => virtualEntities_virtual doc n m blk ents hm)
                (fun ents st o st' hve hd => ih h ents st o st' hve hd) _ _ _ _ (cells_virtual i he) hc
      · simp at ho; obtain ⟨rfl, rfl⟩ := ho; simp

end EzdxfVerif.Render

namespace EzdxfVerif.Render

theorem drawAttribs_handle' (ctx : Ctx) (cur : Option RProps) (h : Nat) (as : List Attrib) :
    ∀ pr ∈ drawAttribs ctx cur h as, pr.kind = .attrib ∧ ∃ a ∈ as, pr.handle = hOf a.props h := by
  intro pr hh
  simp only [drawAttribs, List.mem_flatMap] at hh
  obtain ⟨a, ha, hp⟩ := hh
  split at hp
  · simp [mkPrim] at hp
    rw [hp]; exact ⟨rfl, a, ha, rfl⟩
  · simp at hp

theorem handle_drawCells' (ctx : Ctx) (sub : List Ent → State → Res) (ve : Aff → Except Err (List Ent)) (base : P2) (h : Nat)
    (hve : ∀ m ents, ve m = .ok ents → ∀ e ∈ ents, VirtualEnt e)
    (hsub : ∀ ents st o st', (∀ e ∈ ents, VirtualEnt e) → sub ents st = .ok (o, st') → ∀ pr ∈ o, pr.handle = h) :
    ∀ cs st o st', drawCells ctx sub ve base h cs st = .ok (o, st') →
      ∀ pr ∈ o, pr.handle = h ∨ (pr.kind = .attrib ∧ ∃ c ∈ cs, ∃ a ∈ c.attribs, pr.handle = hOf a.props h) := by
  intro cs
  induction cs with
  | nil => intro st o st' hh; simp [drawCells] at hh; obtain ⟨rfl, rfl⟩ := hh; simp
  | cons c cs ih =>
    intro st o st' hh
    simp only [drawCells] at hh
    split at hh
    · simp at hh
    · rename_i ents he
      split at hh
      · simp at hh
      · rename_i o2 st2 h2
        split at hh
        · simp at hh
        · rename_i o3 st3 h3
          simp at hh; obtain ⟨rfl, rfl⟩ := hh
          intro pr hpr
          simp only [List.mem_append] at hpr
          rcases hpr with hm | hm | hm
          · obtain ⟨k1, a, ha, k2⟩ := drawAttribs_handle' ctx _ h _ pr hm
            exact Or.inr ⟨k1, c, List.mem_cons_self, a, ha, k2⟩
          · exact Or.inl (hsub ents st o2 st2 (hve _ ents he) h2 pr hm)
          · rcases ih st2 o3 _ h3 pr hm with hk | ⟨k1, c', hc', a, ha, k2⟩
            · exact Or.inl hk
            · exact Or.inr ⟨k1, c', List.mem_cons_of_mem _ hc', a, ha, k2⟩

theorem cells_attribs (i : Ins) : ∀ c ∈ cells i, ∀ a ∈ c.attribs, a.props.handle = 0 ∨ a ∈ i.attribs := by
  intro c hc
  simp only [cells] at hc
  split at hc
  · simp only [multiInsert, List.mem_map] at hc
    obtain ⟨off, _, rfl⟩ := hc
    intro a ha
    simp only [gridCell, copyIns, List.mem_map] at ha
    obtain ⟨a1, ⟨a0, _, rfl⟩, rfl⟩ := ha
    left; simp [copyAttrib, clearHandle]
  · simp at hc; subst hc; intro a ha; exact Or.inr ha

theorem drawEnts_single (doc : Doc) (ctx : Ctx) (fuel h : Nat) (e : Ent) (st : State) (out : List Prim) (st' : State)
    (hd : drawEnts doc ctx fuel h [e] st = .ok (out, st')) :
    drawOne doc ctx (subOf doc ctx fuel) (fuel - 1) h e st = .ok (out, st') := by
  rw [drawEnts_cons] at hd
  cases hr : drawOne doc ctx (subOf doc ctx fuel) (fuel - 1) h e st with
  | error x => simp [hr] at hd
  | ok v =>
    obtain ⟨o1, st1⟩ := v
    simp [hr, drawEnts_nil] at hd
    rw [hd.1, hd.2]

/-- BackendProperties.handle of a top level entity (a database entity with handle `k`): a leaf entity is reported under its
    own handle; of a block reference everything - the block content at any nesting depth, every grid element of a MINSERT -
    is reported under the handle of the reference, except its directly attached ATTRIB entities, which are database
    entities themselves and are reported under their own handle (the rule of fix 3c8d4c469) -/
theorem handle_top_level (doc : Doc) (ctx : Ctx) (fuel h : Nat) (e : Ent) (st : State) (out : List Prim) (st' : State)
    (hd : drawEnts doc ctx fuel h [e] st = .ok (out, st')) :
    match e with
    | .leaf _ p _ => p.handle ≠ 0 → ∀ pr ∈ out, pr.handle = p.handle
    | .ins i => i.props.handle ≠ 0 → ∀ pr ∈ out, pr.handle = i.props.handle ∨
        (pr.kind = .attrib ∧ ∃ a ∈ i.attribs, a.props.handle ≠ 0 ∧ pr.handle = a.props.handle) := by
  cases e with
  | leaf k p pts =>
    simp only
    intro hp
    have hd := drawEnts_single doc ctx fuel h _ st out st' hd
    simp only [drawOne] at hd
    split at hd
    · simp at hd; obtain ⟨rfl, rfl⟩ := hd
      intro pr hpr
      have := emitLeaf_handle _ _ _ _ pr hpr
      simpa [hOf, hp] using this
    · simp at hd; obtain ⟨rfl, rfl⟩ := hd; simp
  | ins i =>
    simp only
    intro hp
    have hh0 : hOf i.props h = i.props.handle := by simp [hOf, hp]
    have hd := drawEnts_single doc ctx fuel h _ st out st' hd
    simp only [drawOne, hh0] at hd
    split at hd
    · cases fuel with
      | zero => simp [subOf] at hd
      | succ n =>
        simp only [subOf] at hd
        split at hd
        · simp at hd
        · rename_i blk hfind
          split at hd
          · simp at hd
          · rename_i o2 st2 hc
            split at hd
            · simp at hd
            · simp at hd; obtain ⟨rfl, rfl⟩ := hd
              intro pr hpr
              rcases handle_drawCells' ctx _ _ _ i.props.handle (fun m ents hm => virtualEntities_virtual doc n m blk ents hm)
                (fun ents st o st' hve hdd => handle_rule doc ctx n i.props.handle ents st o st' hve hdd) _ _ _ _ hc pr hpr with
                hk | ⟨k1, c, hcc, a, ha, k2⟩
              · exact Or.inl hk
              · rcases cells_attribs i c hcc a ha with h0 | hin
                · left; rw [k2]; simp [hOf, h0]
                · by_cases ha0 : a.props.handle = 0
                  · left; rw [k2]; simp [hOf, ha0]
                  · right; exact ⟨k1, a, hin, ha0, by rw [k2]; simp [hOf, ha0]⟩
    · simp at hd; obtain ⟨rfl, rfl⟩ := hd; simp

end EzdxfVerif.Render

/-! ### totality: no RecursionError / DXFStructureError / IndexError for acyclic closed documents -/

namespace EzdxfVerif.Render

/-- outside the number field of the model (not an exception of the code) -/
def Outside (e : Err) : Prop := e = .irrational ∨ e = .degenerate

theorem reach_mono (doc : Doc) (fuel : Nat) (ents : List Ent) : reach doc fuel ents = true → reach doc (fuel + 1) ents = true := by
  fun_induction reach doc fuel ents with
  | case1 fuel => intro _; simp [reach]
  | case2 fuel k p pts es ih => intro h; simp only [reach]; exact ih h
  | case3 i es => intro h; simp at h
  | case4 fuel' i es hfind => intro h; simp at h
  | case5 fuel' i es blk hfind ih1 ih2 =>
    intro h
    simp at h
    simp [reach, hfind, ih1 h.1, ih2 h.2]

theorem reach_append (doc : Doc) (fuel : Nat) (a b : List Ent) :
    reach doc fuel (a ++ b) = (reach doc fuel a && reach doc fuel b) := by
  fun_induction reach doc fuel a with
  | case1 fuel => simp [reach]
  | case2 fuel k p pts es ih => simp [reach, ih]
  | case3 i es => simp [reach]
  | case4 fuel' i es hfind => simp [reach, hfind]
  | case5 fuel' i es blk hfind ih1 ih2 => simp [reach, hfind, ih2, Bool.and_assoc]

theorem transformIns_err (m : Aff) (i : Ins) (e : Err) (h : transformIns m i = .error e) :
    e = .fallback ∨ Outside e := by
  simp only [transformIns] at h
  split at h
  · simp at h; subst h; exact Or.inr (Or.inr rfl)
  · split at h
    · simp at h; subst h; exact Or.inl rfl
    · split at h
      · simp at h
      · simp at h; subst h; exact Or.inr (Or.inl rfl)

/-- a computation that either yields entities satisfying `reach` or stops outside the model -/
def GoodRes (doc : Doc) (f : Nat) (r : Except Err (List Ent)) : Prop :=
  match r with
  | .ok out => reach doc f out = true
  | .error e => Outside e

theorem good_flatMapE {α : Type} (doc : Doc) (f : Nat) (g : α → Except Err (List Ent)) :
    ∀ (l : List α), (∀ a ∈ l, GoodRes doc f (g a)) → GoodRes doc f (flatMapE g l) := by
  intro l
  induction l with
  | nil => intro _; simp [flatMapE, GoodRes, reach]
  | cons a as ih =>
    intro h
    have ha := h a List.mem_cons_self
    have hr := ih (fun x hx => h x (List.mem_cons_of_mem _ hx))
    simp only [flatMapE]
    cases hga : g a with
    | error e => rw [hga] at ha; simpa [GoodRes] using ha
    | ok bs =>
      rw [hga] at ha
      cases hfa : flatMapE g as with
      | error e => rw [hfa] at hr; simpa [GoodRes] using hr
      | ok cs =>
        rw [hfa] at hr
        simp only [GoodRes] at ha hr ⊢
        rw [reach_append, ha, hr]; rfl

theorem good_mono (doc : Doc) (f : Nat) (r : Except Err (List Ent)) (h : GoodRes doc f r) : GoodRes doc (f + 1) r := by
  cases r with
  | error e => exact h
  | ok out => exact reach_mono doc f out h

theorem reach_blockCopies (doc : Doc) (f : Nat) (blk : Block) (h : reach doc f blk.ents = true) :
    reach doc f (blockCopies blk) = true := by
  simp only [blockCopies, reach_copy]; exact reach_filter doc _ _ _ h

theorem cells_name (i c : Ins) (h : c ∈ cells i) : c.name = i.name := by
  rcases mem_cells i c h with rfl | ⟨off, rfl⟩
  · rfl
  · rfl

/-- `virtual_block_reference_entities` (with its explode fall-back) never raises for an acyclic closed block graph, and what it
    yields is again acyclic and closed -/
theorem explode_good (doc : Doc) : ∀ (f : Nat) (m : Aff) (ents : List Ent), reach doc f ents = true →
    GoodRes doc f (explode doc f m ents) := by
  intro f
  induction f with
  | zero =>
    intro m ents hr
    simp only [explode]
    -- no INSERT can occur at fuel 0
    have : ∀ es : List Ent, reach doc 0 es = true → GoodRes doc 0 (flatMapE (transformOne doc none m) es) := by
      intro es
      induction es with
      | nil => intro _; simp [flatMapE, GoodRes, reach]
      | cons e es ih =>
        intro h
        cases e with
        | leaf k p pts =>
          simp only [reach] at h
          have hr := ih h
          simp only [flatMapE, transformOne]
          cases hfa : flatMapE (transformOne doc none m) es with
          | error e => rw [hfa] at hr; simpa [GoodRes] using hr
          | ok cs => rw [hfa] at hr; simp only [GoodRes] at hr ⊢; simpa [reach] using hr
        | ins i => simp [reach] at h
    exact this ents hr
  | succ n ih =>
    intro m ents hr
    simp only [explode]
    have : ∀ es : List Ent, reach doc (n + 1) es = true →
        GoodRes doc (n + 1) (flatMapE (transformOne doc (some (explode doc n)) m) es) := by
      intro es
      induction es with
      | nil => intro _; simp [flatMapE, GoodRes, reach]
      | cons e es ihl =>
        intro h
        have hone : GoodRes doc (n + 1) (transformOne doc (some (explode doc n)) m e) ∧ reach doc (n + 1) es = true := by
          cases e with
          | leaf k p pts =>
            simp only [reach] at h
            exact ⟨by simp [transformOne, GoodRes, reach], h⟩
          | ins i =>
            simp only [reach] at h
            split at h
            · simp at h
            · rename_i blk hfind
              simp at h
              refine ⟨?_, h.2⟩
              simp only [transformOne]
              cases hti : transformIns m i with
              | ok i' =>
                have hn : i'.name = i.name := (transformIns_ok_fields m i i' hti).2.1
                simp [GoodRes, reach, hn, hfind, h.1]
              | error e =>
                rcases transformIns_err m i e hti with rfl | ho
                · simp only
                  apply good_flatMapE
                  intro c hc
                  have hcn := cells_name i c hc
                  simp only [vbreWith, hcn, hfind]
                  have h1 := ih (xfOf c blk.base) (blockCopies blk) (reach_blockCopies doc n blk h.1)
                  cases hx : explode doc n (xfOf c blk.base) (blockCopies blk) with
                  | error e => rw [hx] at h1; simpa [GoodRes] using h1
                  | ok inner =>
                    rw [hx] at h1
                    simp only [GoodRes] at h1
                    exact good_mono doc n _ (ih m inner h1)
                · cases e <;> simp_all [GoodRes, Outside]
        obtain ⟨h1, h2⟩ := hone
        have hr := ihl h2
        simp only [flatMapE]
        cases hga : transformOne doc (some (explode doc n)) m e with
        | error e => rw [hga] at h1; simpa [GoodRes] using h1
        | ok bs =>
          rw [hga] at h1
          cases hfa : flatMapE (transformOne doc (some (explode doc n)) m) es with
          | error e => rw [hfa] at hr; simpa [GoodRes] using hr
          | ok cs =>
            rw [hfa] at hr
            simp only [GoodRes] at h1 hr ⊢
            rw [reach_append, h1, hr]; rfl
    exact this ents hr

theorem inv_stack (ctx : Ctx) : Inv ctx (fun a _ b => b = a) := by
  refine ⟨?_, ?_, ?_, ?_, ?_⟩
  · intro _; rfl
  · intro a _ b _ c h1 h2; rw [h2, h1]
  · intros; rfl
  · intros; rfl
  · intro st rp o st2 st3 h1 h2
    subst h1
    simp [State.pop, State.push] at h2
    exact h2.symm

theorem drawCells_err (doc : Doc) (ctx : Ctx) (n : Nat) (blk : Block) (h' : Nat) (hb : reach doc n (blockCopies blk) = true)
    (ih : ∀ h ents st, reach doc n ents = true → ∀ e, drawEnts doc ctx n h ents st = .error e → Outside e) :
    ∀ cs st e, drawCells ctx (drawEnts doc ctx n h') (fun m => virtualEntities doc n m blk) blk.base h' cs st = .error e →
      Outside e := by
  intro cs
  induction cs with
  | nil => intro st e h; simp [drawCells] at h
  | cons c cs ihc =>
    intro st e h
    simp only [drawCells, virtualEntities] at h
    have hg := explode_good doc n (xfOf c blk.base) (blockCopies blk) hb
    cases hx : explode doc n (xfOf c blk.base) (blockCopies blk) with
    | error x =>
      rw [hx] at hg h
      simp at h; subst h; exact hg
    | ok ents =>
      rw [hx] at hg h
      simp only [GoodRes] at hg
      simp only at h
      cases hd : drawEnts doc ctx n h' ents st with
      | error x =>
        rw [hd] at h; simp at h; subst h
        exact ih h' ents st hg _ hd
      | ok v =>
        obtain ⟨o2, st2⟩ := v
        rw [hd] at h
        simp only at h
        cases hr : drawCells ctx (drawEnts doc ctx n h') (fun m => explode doc n m (blockCopies blk)) blk.base h' cs st2 with
        | error x =>
          rw [hr] at h; simp at h; subst h
          exact ihc st2 _ (by simpa only [virtualEntities] using hr)
        | ok v2 => obtain ⟨o3, st3⟩ := v2; rw [hr] at h; simp at h

/-- TOTALITY at full generality of the model (session 3): for an acyclic closed document the traversal never ends in
    RecursionError, DXFStructureError or IndexError - with or without MINSERT, for every rotation and scale, also when
    nested references are sheared and the explode fall-back is taken.  The only other outcomes are the two "outside the
    number field of the model" markers (irrational length, zero length axis), which are not exceptions of the code. -/
theorem draw_never_raises (doc : Doc) (ctx : Ctx) : ∀ (fuel h : Nat) (ents : List Ent) (st : State),
    reach doc fuel ents = true → ∀ e, drawEnts doc ctx fuel h ents st = .error e → Outside e := by
  intro fuel
  induction fuel with
  | zero =>
    intro h ents
    induction ents with
    | nil => intro st _ e he; simp [drawEnts_nil] at he
    | cons x xs ihl =>
      intro st hr e he
      cases x with
      | ins i => simp [reach] at hr
      | leaf k p pts =>
        simp only [reach] at hr
        rw [drawEnts_cons] at he
        simp only [drawOne] at he
        split at he
        · rename_i y hy
          split at hy <;> simp at hy
        · rename_i o1 st1 h1
          have hst : st1 = st := by
            split at h1 <;> simp at h1 <;> exact h1.2.symm
          subst hst
          cases hd : drawEnts doc ctx 0 h xs st1 with
          | error x => rw [hd] at he; simp at he; subst he; exact ihl st1 hr _ hd
          | ok v => obtain ⟨a, b⟩ := v; rw [hd] at he; simp at he
  | succ n ih =>
    intro h ents
    induction ents with
    | nil => intro st _ e he; simp [drawEnts_nil] at he
    | cons x xs ihl =>
      intro st hr e he
      rw [drawEnts_cons] at he
      have hxs : reach doc (n + 1) xs = true := by
        cases x with
        | leaf k p pts => simpa [reach] using hr
        | ins i =>
          simp only [reach] at hr
          split at hr
          · simp at hr
          · simp at hr; exact hr.2
      cases h1 : drawOne doc ctx (subOf doc ctx (n + 1)) (n + 1 - 1) h x st with
      | ok v =>
        obtain ⟨o1, st1⟩ := v
        rw [h1] at he
        simp only at he
        cases hd : drawEnts doc ctx (n + 1) h xs st1 with
        | error x => rw [hd] at he; simp at he; subst he; exact ihl st1 hxs _ hd
        | ok v => obtain ⟨a, b⟩ := v; rw [hd] at he; simp at he
      | error y =>
        rw [h1] at he
        simp at he; subst he
        cases x with
        | leaf k p pts =>
          simp only [drawOne] at h1
          split at h1 <;> simp at h1
        | ins i =>
          simp only [reach] at hr
          split at hr
          · simp at hr
          · rename_i blk hfind
            simp at hr
            simp only [drawOne, subOf, hfind, Nat.add_sub_cancel] at h1
            split at h1
            · cases hc : drawCells ctx (drawEnts doc ctx n (hOf i.props h)) (fun m => virtualEntities doc n m blk) blk.base
                  (hOf i.props h) (cells i) (st.push (resolveAll ctx st.current true false i.props)) with
              | error y =>
                rw [hc] at h1; simp at h1; subst h1
                exact drawCells_err doc ctx n blk _ (reach_blockCopies doc n blk hr.1) ih _ _ _ hc
              | ok v =>
                obtain ⟨o, st2⟩ := v
                rw [hc] at h1
                simp only at h1
                have hst2 : st2 = st.push (resolveAll ctx st.current true false i.props) :=
                  inv_drawCells (inv_stack ctx) _ (fun ents st o st' hh => inv_drawEnts (inv_stack ctx) doc n _ ents st o st' hh)
                    _ _ _ _ _ _ _ hc
                subst hst2
                simp [State.pop, State.push] at h1
            · simp at h1

end EzdxfVerif.Render

/-! ### properties of the specification itself -/

namespace EzdxfVerif.Render

theorem flatten_cons (ctx : Ctx) (env : Option RProps) (acc : Aff) (h : Nat) (t : Tree) (rest : Forest) :
    Spec.flatten ctx env acc h (.cons t rest) = Spec.flatten ctx env acc h (.cons t .nil) ++ Spec.flatten ctx env acc h rest := by
  cases t <;> simp [Spec.flatten]

/-- a property of single primitives that leaf entities and ATTRIBs satisfy holds for everything the specification lists -/
theorem spec_forall (ctx : Ctx) (Q : Prim → Prop)
    (hleaf : ∀ env k p h pts, (resolveAll ctx env false false p).visible = true →
      ∀ pr ∈ emitLeaf k (resolveAll ctx env false false p) h pts, Q pr)
    (hatt : ∀ cur h as, ∀ pr ∈ drawAttribs ctx cur h as, Q pr) :
    ∀ (f : Forest) (env : Option RProps) (acc : Aff) (h : Nat), ∀ pr ∈ Spec.flatten ctx env acc h f, Q pr := by
  intro f
  refine Forest.rec (motive_1 := fun t => ∀ env acc h, ∀ pr ∈ Spec.flatten ctx env acc h (.cons t .nil), Q pr)
    (motive_2 := fun f => ∀ env acc h, ∀ pr ∈ Spec.flatten ctx env acc h f, Q pr) ?_ ?_ ?_ ?_ f
  · intro k p pts env acc h pr hpr
    simp only [Spec.flatten, List.append_nil] at hpr
    split at hpr
    · rename_i hv; exact hleaf env k p _ _ hv pr hpr
    · simp at hpr
  · intro i base ch ihch env acc h pr hpr
    simp only [Spec.flatten, List.append_nil] at hpr
    split at hpr
    · simp only [Spec.cellsPrims, List.mem_flatMap, List.mem_append] at hpr
      obtain ⟨c, _, hc⟩ := hpr
      rcases hc with hc | hc
      · exact hatt _ _ _ pr hc
      · exact ihch _ _ _ pr hc
    · simp at hpr
  · intro env acc h pr hpr; simp [Spec.flatten] at hpr
  · intro t rest iht ihr env acc h pr hpr
    rw [flatten_cons] at hpr
    rcases List.mem_append.mp hpr with h1 | h1
    · exact iht env acc h pr h1
    · exact ihr env acc h pr h1

end EzdxfVerif.Render

/-! ### geometry in the explode fall-back -/

namespace EzdxfVerif.Render

def isLeaf : Ent → Bool
  | .leaf _ _ _ => true
  | .ins _ => false

/-- `entity.transform(m)` on a list of leaf entities -/
def mapLeaves (m : Aff) (es : List Ent) : List Ent :=
  es.map (fun e => match e with | .leaf k p pts => .leaf k p (pts.map m.apply) | .ins i => .ins i)

theorem explode_leaves (doc : Doc) (f : Nat) (m : Aff) : ∀ (es : List Ent), es.all isLeaf = true →
    explode doc f m es = .ok (mapLeaves m es) := by
  have key : ∀ (sub : Option (Aff → List Ent → Except Err (List Ent))) (es : List Ent), es.all isLeaf = true →
      flatMapE (transformOne doc sub m) es = .ok (mapLeaves m es) := by
    intro sub es
    induction es with
    | nil => intro _; rfl
    | cons e es ih =>
      intro h
      simp only [List.all_cons, Bool.and_eq_true] at h
      cases e with
      | ins i => simp [isLeaf] at h
      | leaf k p pts => simp [flatMapE, transformOne, ih h.2, mapLeaves]
  intro es h
  cases f with
  | zero => exact key none es h
  | succ n => exact key _ es h

theorem mapLeaves_comp (f g : Aff) (es : List Ent) (h : es.all isLeaf = true) :
    mapLeaves g (mapLeaves f es) = mapLeaves (f.comp g) es := by
  induction es with
  | nil => rfl
  | cons e es ih =>
    simp only [List.all_cons, Bool.and_eq_true] at h
    cases e with
    | ins i => simp [isLeaf] at h
    | leaf k p pts =>
      simp only [mapLeaves, List.map_cons, List.map_map] at ih ⊢
      rw [ih h.2]
      congr 2
      apply List.map_congr_left
      intro q _
      simp only [Function.comp, Aff.comp, Aff.apply, P2.mk.injEq]
      constructor <;> ring

theorem mapLeaves_all (m : Aff) (es : List Ent) (h : es.all isLeaf = true) : (mapLeaves m es).all isLeaf = true := by
  induction es with
  | nil => rfl
  | cons e es ih =>
    simp only [List.all_cons, Bool.and_eq_true] at h
    cases e with
    | ins i => simp [isLeaf] at h
    | leaf k p pts =>
      have := ih h.2
      simp only [mapLeaves] at this
      simp only [mapLeaves, List.map_cons, List.all_cons, isLeaf, Bool.true_and]
      exact this

/-- GEOMETRY in the explode fall-back (the part of finding F20 that is right): a sheared reference to a block of leaf
    entities is replaced, for every grid element, by the block's entities mapped by the PRODUCT `matrix44(element) @ m` - exactly
    the points the specification lists for them (`Spec.flatten` maps leaf points by the same product) -/
theorem fallback_geometry (doc : Doc) (f : Nat) (m : Aff) (i : Ins) (blk : Block)
    (hfb : transformIns m i = .error .fallback) (hfind : doc.find i.name = some blk)
    (hleaf : (blockCopies blk).all isLeaf = true) :
    transformOne doc (some (explode doc f)) m (.ins i) =
      .ok ((cells i).flatMap (fun c => mapLeaves ((xfOf c blk.base).comp m) (blockCopies blk))) := by
  simp only [transformOne, hfb]
  have hcell : ∀ c ∈ cells i,
      vbreWith doc (explode doc f) c = .ok (mapLeaves (xfOf c blk.base) (blockCopies blk)) ∧
      explode doc f m (mapLeaves (xfOf c blk.base) (blockCopies blk)) = .ok (mapLeaves ((xfOf c blk.base).comp m) (blockCopies blk)) := by
    intro c hc
    have hn : c.name = i.name := by
      rcases mem_cells i c hc with rfl | ⟨off, rfl⟩ <;> rfl
    constructor
    · simp only [vbreWith, hn, hfind, explode_leaves doc f _ _ hleaf]
    · rw [explode_leaves doc f m _ (mapLeaves_all _ _ hleaf), mapLeaves_comp _ _ _ hleaf]
  generalize cells i = cs at hcell
  induction cs with
  | nil => rfl
  | cons c cs ih =>
    obtain ⟨hv, he⟩ := hcell c List.mem_cons_self
    simp only [flatMapE, hv, he, List.flatMap_cons, ih (fun x hx => hcell x (List.mem_cons_of_mem _ hx))]

end EzdxfVerif.Render

/-! ### pipeline colour cache; sign of the MINSERT spacing (session 3, follow-up) -/

namespace EzdxfVerif.Render

/-- every stored colour is the policy applied to its key -/
def CacheOk (f : Color → Color) (cache : List (Color × Color)) : Prop := ∀ p ∈ cache, p.2 = f p.1

theorem backendColor_ok (f : Color → Color) (cache : List (Color × Color)) (c : Color) (hc : CacheOk f cache) :
    (backendColor f cache c).1 = f c ∧ CacheOk f (backendColor f cache c).2 := by
  simp only [backendColor]
  cases hfind : cache.find? (fun p => p.1 = c) with
  | none =>
    refine ⟨rfl, ?_⟩
    intro p hp
    rcases List.mem_cons.mp hp with rfl | hp
    · rfl
    · exact hc p hp
  | some p =>
    have hm := List.mem_of_find?_eq_some hfind
    have hk := List.find?_some hfind
    simp only [decide_eq_true_eq] at hk
    exact ⟨by show p.2 = f c; rw [hc p hm, hk], hc⟩

theorem pipelineColors_ok (f : Color → Color) : ∀ (ps : List Prim) (cache : List (Color × Color)), CacheOk f cache →
    (pipelineColors f cache ps).1 = ps.map (fun p => { p with color := f p.color }) ∧ CacheOk f (pipelineColors f cache ps).2 := by
  intro ps
  induction ps with
  | nil => intro cache hc; exact ⟨rfl, hc⟩
  | cons p ps ih =>
    intro cache hc
    obtain ⟨h1, h2⟩ := backendColor_ok f cache p.color hc
    obtain ⟨h3, h4⟩ := ih _ h2
    simp only [pipelineColors, List.map_cons, h1, h3]
    exact ⟨trivial, h4⟩

theorem cross_sign (U1 U2 V1 V2 nx ny e s : Rat) (hx0 : nx ≠ 0) (hnx2 : nx * nx = U1 * U1 + U2 * U2)
    (h1 : s * ny * -(e * (U2 / nx)) = V1) (h2 : s * ny * (e * (U1 / nx)) = V2) :
    U1 * V2 - U2 * V1 = s * e * nx * ny := by
  rw [← h1, ← h2]
  field_simp
  linear_combination (-(s * e * ny)) * hnx2

def Aff.det (m : Aff) : Rat := m.a * m.d - m.b * m.c

/-- the SIGN of the transformed MINSERT spacing: the column spacing is scaled by the length `nx > 0` of the image of the
    reference's x-axis; the row spacing by `ny > 0` and it changes its sign - together with the y scale factor - exactly when
    the matrix is a reflection (negative determinant) -/
theorem transformIns_spacing_sign (m : Aff) (i i' : Ins) (h : transformIns m i = .ok i') (hsx : i.sx ≠ 0) (hsy : i.sy ≠ 0)
    (hd : UnitDir i.dir) :
    ∃ nx ny : Rat, 0 < nx ∧ 0 < ny ∧ i'.sx = nx * i.sx ∧ i'.colSp = i.colSp * nx ∧
      (0 < m.det → i'.sy = ny * i.sy ∧ i'.rowSp = i.rowSp * ny) ∧
      (m.det < 0 → i'.sy = -(ny * i.sy) ∧ i'.rowSp = -(i.rowSp * ny)) ∧ m.det ≠ 0 := by
  obtain ⟨a, b, c, d, tx, ty⟩ := m
  obtain ⟨props, name, ⟨px, py⟩, sx, sy, ⟨p, q⟩, flip, attribs, rows, cols, rowSp, colSp⟩ := i
  simp only [UnitDir] at hd
  simp only at hsx hsy
  simp only [transformIns] at h
  split at h
  · simp at h
  · rename_i hz
    split at h
    · simp at h
    · rename_i ho
      split at h
      · rename_i nx ny hnx hny
        obtain ⟨hnx0, hnx2⟩ := sqrtQ_spec _ _ hnx
        obtain ⟨hny0, hny2⟩ := sqrtQ_spec _ _ hny
        clear hnx hny
        simp only [not_or] at hz
        simp only [ne_eq, Decidable.not_not] at ho
        have hx0 : nx ≠ 0 := by
          intro h0; apply hz.1; simp only [dot]; rw [← hnx2, h0]; ring
        have hy0 : ny ≠ 0 := by
          intro h0; apply hz.2; simp only [dot]; rw [← hny2, h0]; ring
        clear hz
        have hxp : 0 < nx := lt_of_le_of_ne hnx0 (Ne.symm hx0)
        have hyp : 0 < ny := lt_of_le_of_ne hny0 (Ne.symm hy0)
        simp only [Except.ok.injEq] at h
        have he := exSign_cases flip
        have hee : exSign flip * exSign flip = 1 := by rcases he with h1 | h1 <;> rw [h1] <;> norm_num
        simp only [Aff.lin, ocsFlip, dot] at hnx2 hny2 ho
        obtain ⟨hSp, hSn⟩ := sign_choice (exSign flip * p * a + q * c) (exSign flip * p * b + q * d)
          (exSign flip * -q * a + p * c) (exSign flip * -q * b + p * d)
          nx ny 1 hx0 hy0 hnx2 hny2 ho (exSign flip) he
        -- cross product of the images = e (p² + q²) det m
        have hcross : (exSign flip * p * a + q * c) * (exSign flip * -q * b + p * d) -
            (exSign flip * p * b + q * d) * (exSign flip * -q * a + p * c) = exSign flip * (a * d - b * c) := by
          linear_combination (exSign flip * (a * d - b * c)) * hd
        split at h
        · rename_i hc
          simp only [Aff.lin, ocsFlip] at hc
          obtain ⟨hS1, hS2⟩ := hSp hc
          subst h
          have hcs := cross_sign (exSign flip * p * a + q * c) (exSign flip * p * b + q * d) (exSign flip * -q * a + p * c) (exSign flip * -q * b + p * d) nx ny (exSign flip) 1 hx0 hnx2 (by linear_combination hS1) (by linear_combination hS2)
          have hdet : nx * ny = a * d - b * c := by
            have h3 : exSign flip * (nx * ny) = exSign flip * (a * d - b * c) := by rw [← hcross, hcs]; ring
            linear_combination (exSign flip) * h3 - (nx * ny - (a * d - b * c)) * hee
          have hpos : 0 < a * d - b * c := by rw [← hdet]; exact mul_pos hxp hyp
          refine ⟨nx, ny, hxp, hyp, rfl, ?_, ?_, ?_, ?_⟩
          · simp only [hsx, ne_eq, not_false_eq_true, if_true]; field_simp
          · intro _; refine ⟨rfl, ?_⟩
            simp only [hsy, ne_eq, not_false_eq_true, if_true]; field_simp
          · intro hneg; simp only [Aff.det] at hneg; linarith
          · simp only [Aff.det]; exact ne_of_gt hpos
        · rename_i hc
          simp only [Aff.lin, ocsFlip] at hc
          obtain ⟨hS1, hS2⟩ := hSn hc
          subst h
          have hcs := cross_sign (exSign flip * p * a + q * c) (exSign flip * p * b + q * d) (exSign flip * -q * a + p * c) (exSign flip * -q * b + p * d) nx ny (exSign flip) (-1) hx0 hnx2 (by linear_combination hS1) (by linear_combination hS2)
          have hdet : -(nx * ny) = a * d - b * c := by
            have h3 : exSign flip * (-(nx * ny)) = exSign flip * (a * d - b * c) := by rw [← hcross, hcs]; ring
            linear_combination (exSign flip) * h3 - (-(nx * ny) - (a * d - b * c)) * hee
          have hneg : a * d - b * c < 0 := by rw [← hdet]; linarith [mul_pos hxp hyp]
          refine ⟨nx, ny, hxp, hyp, rfl, ?_, ?_, ?_, ?_⟩
          · simp only [hsx, ne_eq, not_false_eq_true, if_true]; field_simp
          · intro hp; simp only [Aff.det] at hp; linarith
          · intro _; refine ⟨rfl, ?_⟩
            simp only [hsy, ne_eq, not_false_eq_true, if_true]; field_simp
          · simp only [Aff.det]; exact ne_of_lt hneg
      · simp at h

end EzdxfVerif.Render

/-! ### final round: lawful = no reference raises -/

namespace EzdxfVerif.Render

theorem lawful_iff_failing_nil (f : Forest) : ∀ m : Aff, f.scalesNZ = true → (f.lawful m = true ↔ f.failing m = []) := by
  refine Forest.rec (motive_1 := fun t => ∀ m : Aff, (Forest.cons t .nil).scalesNZ = true →
      ((Forest.cons t .nil).lawful m = true ↔ (Forest.cons t .nil).failing m = []))
    (motive_2 := fun f => ∀ m : Aff, f.scalesNZ = true → (f.lawful m = true ↔ f.failing m = [])) ?_ ?_ ?_ ?_ f
  · intro k p pts m _; simp [Forest.lawful, Forest.failing]
  · intro i base ch ih m hnz
    simp only [Forest.scalesNZ, Bool.and_eq_true, decide_eq_true_eq, Bool.and_true] at hnz
    obtain ⟨⟨hsx, hsy⟩, hch⟩ := hnz
    simp only [Forest.lawful, Forest.failing, Bool.and_true, List.append_nil]
    cases hti : transformIns m i with
    | error e => simp
    | ok i' =>
      obtain ⟨f1, f2, _⟩ := transformIns_ok_fields m i i' hti
      have hag := cells_transform m i i' base hti hsx hsy
      simp only [f1, f2, hag, decide_true, Bool.true_and, List.all_eq_true, List.flatMap_eq_nil_iff]
      constructor
      · intro h c hc; exact (ih _ hch).mp (h c hc)
      · intro h c hc; exact (ih _ hch).mpr (h c hc)
  · intro m _; simp [Forest.lawful, Forest.failing]
  · intro t rest iht ihr m hnz
    have hsplit : (Forest.cons t rest).scalesNZ = ((Forest.cons t .nil).scalesNZ && rest.scalesNZ) := by
      cases t <;> simp [Forest.scalesNZ]
    have hl : (Forest.cons t rest).lawful m = ((Forest.cons t .nil).lawful m && rest.lawful m) := by
      cases t <;> simp [Forest.lawful]
    have hf : (Forest.cons t rest).failing m = (Forest.cons t .nil).failing m ++ rest.failing m := by
      cases t <;> simp [Forest.failing]
    rw [hsplit, Bool.and_eq_true] at hnz
    rw [hl, hf, Bool.and_eq_true, List.append_eq_nil_iff, iht m hnz.1, ihr m hnz.2]

theorem failing_reason (f : Forest) : ∀ (m : Aff) (p : Ins × Err), p ∈ f.failing m → (p.2 = .fallback ∨ Outside p.2) ∧ 
    ∃ acc, transformIns acc p.1 = .error p.2 := by
  refine Forest.rec (motive_1 := fun t => ∀ (m : Aff) (p : Ins × Err), p ∈ (Forest.cons t .nil).failing m →
      (p.2 = .fallback ∨ Outside p.2) ∧ ∃ acc, transformIns acc p.1 = .error p.2)
    (motive_2 := fun f => ∀ (m : Aff) (p : Ins × Err), p ∈ f.failing m →
      (p.2 = .fallback ∨ Outside p.2) ∧ ∃ acc, transformIns acc p.1 = .error p.2) ?_ ?_ ?_ ?_ f
  · intro k p pts m q hq; simp [Forest.failing] at hq
  · intro i base ch ih m q hq
    simp only [Forest.failing, List.append_nil] at hq
    cases hti : transformIns m i with
    | error e =>
      rw [hti] at hq; simp at hq; subst hq
      exact ⟨transformIns_err m i e hti, m, hti⟩
    | ok i' =>
      rw [hti] at hq
      simp only [List.mem_flatMap] at hq
      obtain ⟨c, _, hc⟩ := hq
      exact ih _ q hc
  · intro m q hq; simp [Forest.failing] at hq
  · intro t rest iht ihr m q hq
    have hf : (Forest.cons t rest).failing m = (Forest.cons t .nil).failing m ++ rest.failing m := by
      cases t <;> simp [Forest.failing]
    rw [hf] at hq
    rcases List.mem_append.mp hq with h | h
    · exact iht m q h
    · exact ihr m q h


end EzdxfVerif.Render

/-! ### final round: a layout is drawn entity by entity -/

namespace EzdxfVerif.Render

theorem drawList_append (one : Ent → State → Res) : ∀ (a b : List Ent) (st : State),
    drawList one (a ++ b) st =
      match drawList one a st with
      | .error x => .error x
      | .ok (o1, st1) =>
        match drawList one b st1 with
        | .error x => .error x
        | .ok (o2, st2) => .ok (o1 ++ o2, st2) := by
  intro a
  induction a with
  | nil =>
    intro b st
    simp only [List.nil_append, drawList]
    cases drawList one b st with
    | error x => rfl
    | ok v => obtain ⟨o, s⟩ := v; simp
  | cons e es ih =>
    intro b st
    simp only [List.cons_append, drawList]
    cases h1 : one e st with
    | error x => rfl
    | ok v =>
      obtain ⟨o1, st1⟩ := v
      simp only [ih b st1]
      cases h2 : drawList one es st1 with
      | error x => rfl
      | ok v2 =>
        obtain ⟨o2, st2⟩ := v2
        simp only
        cases h3 : drawList one b st2 with
        | error x => rfl
        | ok v3 => obtain ⟨o3, st3⟩ := v3; simp [List.append_assoc]

/-- the primitives of a layout are the concatenation of the primitives of its entities, each drawn on its own -/
theorem drawLayout_split (doc : Doc) (ctx : Ctx) (pre post : List Ent) (e : Ent) (out : List Prim) (st : State)
    (h : drawLayout doc ctx (pre ++ e :: post) = .ok (out, st)) :
    ∃ o1 o2 o3, drawLayout doc ctx pre = .ok (o1, State.init) ∧ drawLayout doc ctx [e] = .ok (o2, State.init) ∧
      drawLayout doc ctx post = .ok (o3, State.init) ∧ out = o1 ++ o2 ++ o3 ∧ st = State.init := by
  simp only [drawLayout, drawEnts_eq] at h ⊢
  rw [drawList_append] at h
  cases h1 : drawList (drawOne doc ctx (subOf doc ctx (doc.blocks.length + 1)) (doc.blocks.length + 1 - 1) 0) pre State.init with
  | error x => rw [h1] at h; simp at h
  | ok v1 =>
    obtain ⟨o1, st1⟩ := v1
    have hs1 : st1 = State.init := inv_drawList (inv_stack ctx) _
      (inv_drawOne (inv_stack ctx) doc _ (by
        intro f hf; simp [subOf] at hf; subst hf
        exact fun h ents st o st' hh => inv_drawEnts (inv_stack ctx) doc _ h ents st o st' hh) _ 0) _ _ _ _ h1
    subst hs1
    rw [h1] at h
    simp only at h
    have hsplit : e :: post = [e] ++ post := rfl
    rw [hsplit, drawList_append] at h
    cases h2 : drawList (drawOne doc ctx (subOf doc ctx (doc.blocks.length + 1)) (doc.blocks.length + 1 - 1) 0) [e] State.init with
    | error x => rw [h2] at h; simp at h
    | ok v2 =>
      obtain ⟨o2, st2⟩ := v2
      have hs2 : st2 = State.init := inv_drawList (inv_stack ctx) _
        (inv_drawOne (inv_stack ctx) doc _ (by
          intro f hf; simp [subOf] at hf; subst hf
          exact fun h ents st o st' hh => inv_drawEnts (inv_stack ctx) doc _ h ents st o st' hh) _ 0) _ _ _ _ h2
      subst hs2
      rw [h2] at h
      simp only at h
      cases h3 : drawList (drawOne doc ctx (subOf doc ctx (doc.blocks.length + 1)) (doc.blocks.length + 1 - 1) 0) post State.init with
      | error x => rw [h3] at h; simp at h
      | ok v3 =>
        obtain ⟨o3, st3⟩ := v3
        have hs3 : st3 = State.init := inv_drawList (inv_stack ctx) _
          (inv_drawOne (inv_stack ctx) doc _ (by
            intro f hf; simp [subOf] at hf; subst hf
            exact fun h ents st o st' hh => inv_drawEnts (inv_stack ctx) doc _ h ents st o st' hh) _ 0) _ _ _ _ h3
        subst hs3
        rw [h3] at h
        simp at h
        exact ⟨o1, o2, o3, rfl, rfl, rfl, by rw [← h.1, List.append_assoc], h.2.symm⟩

end EzdxfVerif.Render

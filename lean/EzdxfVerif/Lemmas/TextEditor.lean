/-
MTextEditor round trip: both decoders return exactly the words the builder methods were given
(lemmas for Props/C20).
-/
import EzdxfVerif.Lemmas.TextAgree
import EzdxfVerif.Lemmas.TextTotal
namespace EzdxfVerif.Text

/-! ### RE_FLOAT is stable under appending text that starts with a character outside the number syntax -/

def stopChar (c : Char) : Prop :=
  isDigit c = false ∧ c ≠ '.' ∧ c ≠ 'e' ∧ c ≠ 'E' ∧ c ≠ '+' ∧ c ≠ '-'

theorem optSign_stop (s : Str) (c : Char) (t : Str) (hc : stopChar c) :
    optSign (s ++ c :: t) = ((optSign s).1, (optSign s).2 ++ c :: t) := by
  cases s with
  | nil => simp [optSign, hc.2.2.2.2.1, hc.2.2.2.2.2]
  | cons a s' =>
    simp only [optSign, List.cons_append]
    split <;> simp

theorem spanDigits_stop (s : Str) (c : Char) (t : Str) (hc : stopChar c) :
    spanDigits (s ++ c :: t) = ((spanDigits s).1, (spanDigits s).2 ++ c :: t) := by
  unfold spanDigits
  induction s with
  | nil => simp [List.takeWhile, List.dropWhile, hc.1]
  | cons a s' ih =>
    simp only [List.cons_append, List.takeWhile, List.dropWhile]
    cases ha : isDigit a
    · simp
    · simp only [Prod.mk.injEq] at ih ⊢
      exact ⟨by rw [ih.1], ih.2⟩

theorem optFrac_stop (s : Str) (c : Char) (t : Str) (hc : stopChar c) :
    optFrac (s ++ c :: t) = ((optFrac s).1, (optFrac s).2 ++ c :: t) := by
  cases s with
  | nil => simp [optFrac, hc.2.1]
  | cons a s' =>
    simp only [optFrac, List.cons_append]
    split
    · simp [spanDigits_stop s' c t hc]
    · simp

theorem optExp_stop (s : Str) (c : Char) (t : Str) (hc : stopChar c) :
    optExp (s ++ c :: t) = ((optExp s).1, (optExp s).2 ++ c :: t) := by
  cases s with
  | nil => simp [optExp, hc.2.2.1, hc.2.2.2.1]
  | cons a s' =>
    simp only [optExp, List.cons_append]
    split
    · rw [optSign_stop s' c t hc]
      simp only
      rw [spanDigits_stop _ c t hc]
      simp only
      split <;> simp
    · simp

theorem matchFloat_stop (s : Str) (c : Char) (t : Str) (hc : stopChar c) :
    matchFloat (s ++ c :: t) = ((matchFloat s).1, (matchFloat s).2 ++ c :: t) := by
  unfold matchFloat
  simp only
  rw [optSign_stop s c t hc]
  simp only
  rw [spanDigits_stop _ c t hc]
  simp only
  split
  · simp
  · rw [optFrac_stop _ c t hc]
    simp only
    rw [optExp_stop _ c t hc]

theorem floatText_match (f : Str) (h : isFloatText f = true) (c : Char) (t : Str) (hc : stopChar c) :
    matchFloat (f ++ c :: t) = (f, c :: t) ∧ f ≠ [] := by
  simp only [isFloatText, Bool.and_eq_true, Bool.not_eq_true', decide_eq_true_eq] at h
  rw [matchFloat_stop f c t hc, h.2]
  refine ⟨by simp, ?_⟩
  intro hf; subst hf; simp at h

/-! ### `find` without escape is the plain search; argument texts have no ";" -/

theorem scanFind_false (ch : Char) (s : Str) : scanFind ch false s = findIdx ch s := by
  induction s with
  | nil => rfl
  | cons c t ih =>
    cases t with
    | nil => by_cases hc : c = ch <;> simp [scanFind, findIdx, hc]
    | cons d rest =>
      rw [scanFind]
      by_cases hc : c = ch
      · simp [findIdx, hc]
      · simp only [Bool.false_eq_true, false_and, ↓reduceIte, hc, ih]
        simp [findIdx, hc]

theorem findIdx_args (args rest : Str) (h : ∀ c ∈ args, c ≠ ';') :
    findIdx ';' (args ++ ';' :: rest) = some args.length := by
  induction args with
  | nil => simp [findIdx]
  | cons a t ih =>
    have ha : a ≠ ';' := h a (by simp)
    simp [findIdx, ha, ih (fun x hx => h x (by simp [hx]))]

theorem extractExpr_args (args rest : Str) (h : ∀ c ∈ args, c ≠ ';') :
    extractExpr false (args ++ ';' :: rest) = (args, rest) := by
  simp [extractExpr, scanFind_false, findIdx_args args rest h]

theorem argChar_ne_semicolon {args : Str} (h : args.all isArgChar = true) : ∀ c ∈ args, c ≠ ';' := by
  intro c hc
  have := List.all_eq_true.mp h c hc
  simp only [isArgChar, Bool.and_eq_true, bne_iff_ne, ne_eq] at this
  exact this.2

/-! ### the parser consumes a well-formed argument exactly up to the ";" -/

/-- `\` d args `;` is consumed as one command and nothing else -/
def CmdOk (d : Char) (args : Str) : Prop :=
  ∀ rest, parseProperties d (args ++ ';' :: rest) = some (.ok rest)

theorem stop_semicolon : stopChar ';' := by simp [stopChar]; decide
theorem stop_x : stopChar 'x' := by simp [stopChar]; decide

theorem cmdOk_float (d : Char) (hd : d = 'H' ∨ d = 'W' ∨ d = 'T') (f : Str) (hf : isFloatText f = true) :
    CmdOk d f := by
  intro rest
  obtain ⟨hm, hne⟩ := floatText_match f hf ';' rest stop_semicolon
  have hne' : (matchFloat (f ++ ';' :: rest)).1 ≠ [] := by rw [hm]; exact hne
  have hpy := pyFloat_match _ hne'
  rw [hm] at hpy
  rcases hd with rfl | rfl | rfl <;>
    simp [parseProperties, mem_stroke, parseFloatOrFactor, hne, hpy, hm, bind, Except.bind, dropX, optTerminator]

theorem cmdOk_factor (d : Char) (hd : d = 'H' ∨ d = 'W' ∨ d = 'T') (f : Str) (hf : isFloatText f = true) :
    CmdOk d (f ++ ['x']) := by
  intro rest
  obtain ⟨hm, hne⟩ := floatText_match f hf 'x' (';' :: rest) stop_x
  have heq : f ++ ['x'] ++ ';' :: rest = f ++ 'x' :: ';' :: rest := by simp
  rw [heq]
  have hne' : (matchFloat (f ++ 'x' :: ';' :: rest)).1 ≠ [] := by rw [hm]; exact hne
  have hpy := pyFloat_match _ hne'
  rw [hm] at hpy
  rcases hd with rfl | rfl | rfl <;>
    simp [parseProperties, mem_stroke, parseFloatOrFactor, hne, hpy, hm, bind, Except.bind, dropX, optTerminator]

theorem cmdOk_oblique (f : Str) (hf : isFloatText f = true) : CmdOk 'Q' f := by
  intro rest
  obtain ⟨hm, hne⟩ := floatText_match f hf ';' rest stop_semicolon
  have hne' : (matchFloat (f ++ ';' :: rest)).1 ≠ [] := by rw [hm]; exact hne
  have hpy := pyFloat_match _ hne'
  rw [hm] at hpy
  simp [parseProperties, mem_stroke, parseOblique, hne, hpy, hm, bind, Except.bind, optTerminator]

theorem takeWhile_digits (ds rest : Str) (h : ds.all isDigit = true) :
    (ds ++ ';' :: rest).takeWhile isDigit = ds := by
  induction ds with
  | nil =>
    have : isDigit ';' = false := by decide
    simp [List.takeWhile, this]
  | cons a t ih =>
    simp only [List.all_cons, Bool.and_eq_true] at h
    simp [List.takeWhile, h.1, ih h.2]

theorem cmdOk_int (d : Char) (hd : d = 'C' ∨ d = 'c') (ds : Str) (h : ds.all isDigit = true) : CmdOk d ds := by
  intro rest
  rcases hd with rfl | rfl <;>
    simp [parseProperties, mem_stroke, parseIntCmd, takeWhile_digits ds rest h, optTerminator]

theorem cmdOk_align (c : Char) : CmdOk 'A' [c] := by
  intro rest
  simp [parseProperties, mem_stroke, parseAlign, optTerminator]

theorem cmdOk_font (d : Char) (hd : d = 'f' ∨ d = 'F') (args : Str) (h : ∀ c ∈ args, c ≠ ';') : CmdOk d args := by
  intro rest
  rcases hd with rfl | rfl <;>
    simp [parseProperties, mem_stroke, extractExpr_args args rest h]

theorem cmdOk_para (args : Str) (h : ∀ c ∈ args, c ≠ ';') : CmdOk 'p' args := by
  intro rest
  simp [parseProperties, mem_stroke, extractExpr_args args rest h, paraLoop_ok, bind, Except.bind]

/-! ### items: caret decoding, class membership and fast decoding are compositional -/

def cmdLetters : List Char := ['A', 'C', 'c', 'H', 'W', 'T', 'Q', 'p', 'f', 'F']

def Item.Wf : Item → Prop
  | .plain w => ∀ c ∈ w, isPlain c = true
  | .cmd d args => d ∈ cmdLetters ∧ args.all isArgChar = true ∧ CmdOk d args
  | .one d => d = 'P' ∨ d = 'L' ∨ d = 'l' ∨ d = 'O' ∨ d = 'o' ∨ d = 'K' ∨ d = 'k' ∨ d = 'X'
  | .openGroup | .closeGroup => True
  | .stack u l t => u.all isArgChar = true ∧ l.all isArgChar = true ∧ (t = '^' ∨ t = '/' ∨ t = '#')

theorem caretDecode_append_nocaret (a b : Str) (h : ∀ c ∈ a, c ≠ '^') :
    caretDecode (a ++ b) = a ++ caretDecode b := by
  induction a with
  | nil => rfl
  | cons c t ih =>
    have hc : c ≠ '^' := h c (by simp)
    have ht := ih (fun x hx => h x (by simp [hx]))
    cases hcase : t ++ b with
    | nil =>
      have : t = [] ∧ b = [] := by simpa using hcase
      simp [this.1, this.2, caretDecode]
    | cons d rest =>
      rw [List.cons_append, hcase, caretDecode]
      simp only [hc, false_and, ↓reduceIte]
      rw [← hcase, ht]; simp

theorem isPlain_spec {c : Char} (h : isPlain c = true) :
    32 ≤ c.toNat ∧ c ≠ '\\' ∧ c ≠ '{' ∧ c ≠ '}' ∧ c ≠ '%' ∧ c ≠ '^' := by
  simp only [isPlain, Bool.and_eq_true, decide_eq_true_eq, bne_iff_ne, ne_eq] at h
  exact ⟨h.1.1.1.1.1, h.1.1.1.1.2, h.1.1.1.2, h.1.1.2, h.1.2, h.2⟩

theorem isArgChar_spec {c : Char} (h : isArgChar c = true) : isPlain c = true ∧ c ≠ ';' := by
  simpa [isArgChar] using h

theorem args_plain {args : Str} (h : args.all isArgChar = true) : ∀ c ∈ args, isPlain c = true :=
  fun c hc => (isArgChar_spec (List.all_eq_true.mp h c hc)).1

theorem agree_plain (sp : Special) (w r : Str) (h : ∀ c ∈ w, isPlain c = true) :
    agreeClass sp (w ++ r) = agreeClass sp r := by
  induction w with
  | nil => rfl
  | cons c t ih =>
    obtain ⟨h0, h1, h2, h3, h4, _⟩ := isPlain_spec (h c (by simp))
    rw [List.cons_append, agree_copy sp c _ h1 h2 h3 h4, ih (fun x hx => h x (by simp [hx]))]
    simp [h0]

theorem fast_plain (sp : Special) (w r : Str) (h : ∀ c ∈ w, isPlain c = true) :
    fastLoop sp (w ++ r) = w ++ fastLoop sp r := by
  induction w with
  | nil => rfl
  | cons c t ih =>
    obtain ⟨_, h1, h2, h3, h4, _⟩ := isPlain_spec (h c (by simp))
    rw [List.cons_append, fastLoop_copy sp c _ h1 h2 h3 h4, ih (fun x hx => h x (by simp [hx]))]
    simp

theorem agree_cmd_eq (sp : Special) (d : Char) (r2 r3 : Str)
    (hd : ¬(d = '\\' ∨ d = '{' ∨ d = '}')) (hn : ¬(d = 'N' ∨ d = '~')) (h1 : d ∉ oneCharCommands) (hs : d ≠ 'S')
    (hc : cmdAgree d r2 = some r3) :
    agreeClass sp ('\\' :: d :: r2) = agreeClass sp r3 := by
  conv => lhs; rw [agreeClass.eq_def]
  simp only [↓reduceIte, hd, hn, h1, hs]
  split
  · rename_i r3' hc'; rw [hc] at hc'; cases hc'; rfl
  · rename_i hc'; rw [hc] at hc'; cases hc'

theorem cmdLetters_spec {d : Char} (h : d ∈ cmdLetters) :
    ¬(d = '\\' ∨ d = '{' ∨ d = '}') ∧ ¬(d = 'N' ∨ d = '~') ∧ d ∉ oneCharCommands ∧ d ≠ 'S' ∧ d ≠ ';' ∧ d ≠ '^' := by
  rw [mem_one]
  simp only [cmdLetters, List.mem_cons, List.not_mem_nil, or_false] at h
  rcases h with h | h | h | h | h | h | h | h | h | h <;> subst h <;> decide

theorem cmdAgree_ok (d : Char) (args r : Str) (ha : args.all isArgChar = true) (hok : CmdOk d args) :
    cmdAgree d (args ++ ';' :: r) = some r ∧ findIdx ';' (args ++ ';' :: r) = some args.length := by
  have hf := findIdx_args args r (argChar_ne_semicolon ha)
  refine ⟨?_, hf⟩
  unfold cmdAgree
  rw [hok r, hf]
  simp

theorem item_caret (i : Item) (r : Str) (h : i.Wf) :
    caretDecode (i.render ++ r) = i.renderD ++ caretDecode r := by
  cases i with
  | plain w => exact caretDecode_append_nocaret w r (fun c hc => (isPlain_spec (h c hc)).2.2.2.2.2)
  | cmd d args =>
    obtain ⟨hd, ha, _⟩ := h
    apply caretDecode_append_nocaret
    intro c hc
    simp only [Item.render, List.mem_cons, List.mem_append, List.not_mem_nil, or_false] at hc
    rcases hc with rfl | rfl | hc | rfl
    · decide
    · exact (cmdLetters_spec hd).2.2.2.2.2
    · exact (isPlain_spec (args_plain ha c hc)).2.2.2.2.2
    · decide
  | one d =>
    apply caretDecode_append_nocaret
    intro c hc
    simp only [Item.render, List.mem_cons, List.not_mem_nil, or_false] at hc
    rcases hc with rfl | rfl
    · decide
    · rcases h with h | h | h | h | h | h | h | h <;> subst h <;> decide
  | openGroup => exact caretDecode_append_nocaret _ r (by simp [Item.render])
  | closeGroup => exact caretDecode_append_nocaret _ r (by simp [Item.render])
  | stack u l t =>
    obtain ⟨hu, hl, ht⟩ := h
    have hu' : ∀ c ∈ '\\' :: 'S' :: u, c ≠ '^' := by
      intro c hc
      simp only [List.mem_cons] at hc
      rcases hc with rfl | rfl | hc
      · decide
      · decide
      · exact (isPlain_spec (args_plain hu c hc)).2.2.2.2.2
    have hl' : ∀ c ∈ l ++ [';'], c ≠ '^' := by
      intro c hc
      simp only [List.mem_append, List.mem_cons, List.not_mem_nil, or_false] at hc
      rcases hc with hc | rfl
      · exact (isPlain_spec (args_plain hl c hc)).2.2.2.2.2
      · decide
    have e1 : (Item.stack u l t).render ++ r
        = ('\\' :: 'S' :: u) ++ ((if t = '^' then ['^', ' '] else [t]) ++ ((l ++ [';']) ++ r)) := by
      simp [Item.render]
    rw [e1, caretDecode_append_nocaret _ _ hu']
    have e2 : caretDecode ((if t = '^' then ['^', ' '] else [t]) ++ ((l ++ [';']) ++ r))
        = t :: ((l ++ [';']) ++ caretDecode r) := by
      rcases ht with rfl | rfl | rfl
      · simp only [↓reduceIte, List.cons_append, List.nil_append]
        rw [caretDecode]
        have : caretChar ' ' = '^' := by decide
        simp only [this, true_and]
        rw [if_pos (by decide), caretDecode_append_nocaret _ _ hl']
      · have : ∀ c ∈ ['/'], c ≠ '^' := by simp
        simp only [show ('/' : Char) ≠ '^' by decide, ↓reduceIte]
        rw [caretDecode_append_nocaret _ _ this, caretDecode_append_nocaret _ _ hl']; simp
      · have : ∀ c ∈ ['#'], c ≠ '^' := by simp
        simp only [show ('#' : Char) ≠ '^' by decide, ↓reduceIte]
        rw [caretDecode_append_nocaret _ _ this, caretDecode_append_nocaret _ _ hl']; simp
    rw [e2]; simp [Item.renderD]

theorem stack_expr_plain {u l : Str} {t : Char} (hu : u.all isArgChar = true) (hl : l.all isArgChar = true)
    (ht : t = '^' ∨ t = '/' ∨ t = '#') :
    (∀ c ∈ u ++ t :: l, stackPlainChar c = true) ∧ (∀ c ∈ u ++ t :: l, c ≠ ';') := by
  constructor
  · intro c hc
    simp only [List.mem_append, List.mem_cons] at hc
    rcases hc with hc | rfl | hc
    · obtain ⟨h0, h1, _⟩ := isPlain_spec (args_plain hu c hc); simp [stackPlainChar, h0, h1]
    · rcases ht with rfl | rfl | rfl <;> decide
    · obtain ⟨h0, h1, _⟩ := isPlain_spec (args_plain hl c hc); simp [stackPlainChar, h0, h1]
  · intro c hc
    simp only [List.mem_append, List.mem_cons] at hc
    rcases hc with hc | rfl | hc
    · exact argChar_ne_semicolon hu c hc
    · rcases ht with rfl | rfl | rfl <;> decide
    · exact argChar_ne_semicolon hl c hc

theorem agree_stack (sp : Special) (E r : Str) (hp : ∀ c ∈ E, stackPlainChar c = true) (hs : ∀ c ∈ E, c ≠ ';') :
    agreeClass sp ('\\' :: 'S' :: (E ++ ';' :: r)) = agreeClass sp r := by
  have hf := findIdx_args E r hs
  conv => lhs; rw [agreeClass.eq_def]
  simp only [mem_one, hf]
  have h1 : (E ++ ';' :: r).take E.length = E := by simp
  have h2 : (E ++ ';' :: r).drop (E.length + 1) = r := by
    rw [← List.drop_drop]; simp
  rw [h1, h2]
  have h3 : E.all stackPlainChar = true := List.all_eq_true.mpr hp
  simp [h3]

theorem fast_stack (sp : Special) (E r : Str) (hs : ∀ c ∈ E, c ≠ ';') :
    fastLoop sp ('\\' :: 'S' :: (E ++ ';' :: r)) = E ++ fastLoop sp r := by
  have hf := findIdx_args E r hs
  rw [fastLoop_cmd sp 'S' _ _ (by decide) (by rw [mem_one]; decide) (by decide) hf]
  have h1 : (E ++ ';' :: r).take E.length = E := by simp
  have h2 : (E ++ ';' :: r).drop (E.length + 1) = r := by
    rw [← List.drop_drop]; simp
  rw [h1, h2]; simp

theorem item_agree (sp : Special) (i : Item) (r : Str) (h : i.Wf) :
    agreeClass sp (i.renderD ++ r) = agreeClass sp r := by
  cases i with
  | plain w => exact agree_plain sp w r h
  | cmd d args =>
    obtain ⟨hd, ha, hok⟩ := h
    obtain ⟨c1, c2, c3, c4, _, _⟩ := cmdLetters_spec hd
    have e : (Item.cmd d args).renderD ++ r = '\\' :: d :: (args ++ ';' :: r) := by simp [Item.renderD, Item.render]
    rw [e, agree_cmd_eq sp d _ r c1 c2 c3 c4 (cmdAgree_ok d args r ha hok).1]
  | one d =>
    have e : (Item.one d).renderD ++ r = '\\' :: d :: r := by simp [Item.renderD, Item.render]
    rw [e, agree_one sp d r h]
  | openGroup => exact agree_brace sp '{' r (Or.inl rfl)
  | closeGroup => exact agree_brace sp '}' r (Or.inr rfl)
  | stack u l t =>
    obtain ⟨hu, hl, ht⟩ := h
    obtain ⟨hp, hs⟩ := stack_expr_plain hu hl ht
    have e : (Item.stack u l t).renderD ++ r = '\\' :: 'S' :: ((u ++ t :: l) ++ ';' :: r) := by
      simp [Item.renderD]
    rw [e, agree_stack sp _ r hp hs]

theorem item_fast (sp : Special) (i : Item) (r : Str) (h : i.Wf) :
    fastLoop sp (i.renderD ++ r) = i.expected ++ fastLoop sp r := by
  cases i with
  | plain w => exact fast_plain sp w r h
  | cmd d args =>
    obtain ⟨hd, ha, hok⟩ := h
    obtain ⟨c1, _, c3, c4, c5, _⟩ := cmdLetters_spec hd
    have e : (Item.cmd d args).renderD ++ r = '\\' :: d :: (args ++ ';' :: r) := by simp [Item.renderD, Item.render]
    rw [e, fastLoop_cmd sp d _ args.length c1 c3 c5 (cmdAgree_ok d args r ha hok).2]
    simp [c4, Item.expected]
  | one d =>
    have e : (Item.one d).renderD ++ r = '\\' :: d :: r := by simp [Item.renderD, Item.render]
    rw [e]
    rcases h with h | h
    · subst h; rw [fastLoop_P]; simp [Item.expected]
    · rw [fastLoop_one sp d r h]
      have : d ≠ 'P' := by rcases h with h | h | h | h | h | h | h <;> subst h <;> decide
      simp [Item.expected, this]
  | openGroup => exact fastLoop_brace sp '{' r (Or.inl rfl)
  | closeGroup => exact fastLoop_brace sp '}' r (Or.inr rfl)
  | stack u l t =>
    obtain ⟨hu, hl, ht⟩ := h
    obtain ⟨hp, hs⟩ := stack_expr_plain hu hl ht
    have e : (Item.stack u l t).renderD ++ r = '\\' :: 'S' :: ((u ++ t :: l) ++ ';' :: r) := by
      simp [Item.renderD]
    rw [e, fast_stack sp _ r hs]
    simp [Item.expected]

/-! ### lists of items, editor operations -/

def renderDItems (is : List Item) : Str := (is.map Item.renderD).flatten

theorem items_caret (is : List Item) (r : Str) (h : ∀ i ∈ is, i.Wf) :
    caretDecode (renderItems is ++ r) = renderDItems is ++ caretDecode r := by
  induction is with
  | nil => rfl
  | cons i t ih =>
    have e : renderItems (i :: t) ++ r = i.render ++ (renderItems t ++ r) := by simp [renderItems]
    rw [e, item_caret i _ (h i (by simp)), ih (fun x hx => h x (by simp [hx]))]
    simp [renderDItems]

theorem items_agree (sp : Special) (is : List Item) (r : Str) (h : ∀ i ∈ is, i.Wf) :
    agreeClass sp (renderDItems is ++ r) = agreeClass sp r := by
  induction is with
  | nil => rfl
  | cons i t ih =>
    have e : renderDItems (i :: t) ++ r = i.renderD ++ (renderDItems t ++ r) := by simp [renderDItems]
    rw [e, item_agree sp i _ (h i (by simp)), ih (fun x hx => h x (by simp [hx]))]

theorem items_fast (sp : Special) (is : List Item) (r : Str) (h : ∀ i ∈ is, i.Wf) :
    fastLoop sp (renderDItems is ++ r) = expectedItems is ++ fastLoop sp r := by
  induction is with
  | nil => rfl
  | cons i t ih =>
    have e : renderDItems (i :: t) ++ r = i.renderD ++ (renderDItems t ++ r) := by simp [renderDItems]
    rw [e, item_fast sp i _ (h i (by simp)), ih (fun x hx => h x (by simp [hx]))]
    simp [expectedItems]

theorem all_plain {w : Str} (h : w.all isPlain = true) : ∀ c ∈ w, isPlain c = true :=
  fun c hc => List.all_eq_true.mp h c hc

def isFloatChar (c : Char) : Prop := isDigit c = true ∨ c = '+' ∨ c = '-' ∨ c = '.' ∨ c = 'e' ∨ c = 'E'

theorem optSign_chars (s : Str) : ∀ c ∈ (optSign s).1, isFloatChar c := by
  unfold optSign; split
  · split
    · rename_i h; intro c hc; simp at hc; subst hc
      rcases h with h | h <;> simp [isFloatChar, h]
    · simp
  · simp

theorem spanDigits_chars (s : Str) : ∀ c ∈ (spanDigits s).1, isFloatChar c :=
  fun c hc => Or.inl (spanDigits_all s c hc)

theorem optFrac_chars (s : Str) : ∀ c ∈ (optFrac s).1, isFloatChar c := by
  unfold optFrac; split
  · split
    · rename_i h; intro c hc
      simp only [List.mem_cons] at hc
      rcases hc with rfl | hc
      · simp [isFloatChar]
      · exact spanDigits_chars _ c hc
    · simp
  · simp

theorem optExp_chars (s : Str) : ∀ c ∈ (optExp s).1, isFloatChar c := by
  unfold optExp; split
  · split
    · split
      · simp
      · rename_i h _; intro c hc
        simp only [List.mem_cons, List.mem_append] at hc
        rcases hc with rfl | hc | hc
        · rcases h with h | h <;> simp [isFloatChar, h]
        · exact optSign_chars _ c hc
        · exact spanDigits_chars _ c hc
    · simp
  · simp

theorem matchFloat_chars (s : Str) : ∀ c ∈ (matchFloat s).1, isFloatChar c := by
  unfold matchFloat
  simp only
  split
  · simp
  · intro c hc
    simp only [List.mem_append] at hc
    rcases hc with ((hc | hc) | hc) | hc
    · exact optSign_chars _ c hc
    · exact spanDigits_chars _ c hc
    · exact optFrac_chars _ c hc
    · exact optExp_chars _ c hc

theorem digit_argChar {c : Char} (h : isDigit c = true) : isArgChar c = true := by
  simp only [isDigit, decide_eq_true_eq] at h
  have h1 : 48 ≤ c.toNat := h.1
  have h2 : c.toNat ≤ 57 := h.2
  have e : ∀ k : Char, c = k → c.toNat = k.toNat := fun k hk => by rw [hk]
  simp only [isArgChar, isPlain, Bool.and_eq_true, decide_eq_true_eq, bne_iff_ne, ne_eq]
  refine ⟨⟨⟨⟨⟨⟨by omega, ?_⟩, ?_⟩, ?_⟩, ?_⟩, ?_⟩, ?_⟩ <;>
    (intro hk; have := e _ hk; simp at this; omega)

theorem floatChar_argChar {c : Char} (h : isFloatChar c) : isArgChar c = true := by
  rcases h with h | h | h | h | h | h
  · exact digit_argChar h
  all_goals (subst h; decide)

/-- a float text consists of argument characters (no ";", no syntax character) -/
theorem floatText_argChars (f : Str) (h : isFloatText f = true) : f.all isArgChar = true := by
  simp only [isFloatText, Bool.and_eq_true, Bool.not_eq_true', decide_eq_true_eq] at h
  apply List.all_eq_true.mpr
  intro c hc
  have := matchFloat_chars f c (by rw [h.2]; exact hc)
  exact floatChar_argChar this

theorem edop_items_wf (o : EdOp) (h : o.wf = true) : ∀ i ∈ o.items, i.Wf := by
  have hf := floatText_argChars
  intro i hi
  cases o <;> simp only [EdOp.items, List.mem_cons, List.not_mem_nil, or_false] at hi
  case append w => subst hi; exact all_plain h
  case font name b it =>
    subst hi
    have hn : name.all isArgChar = true := h
    have hargs : (name ++ ['|', 'b', bit b, '|', 'i', bit it]).all isArgChar = true := by
      rw [List.all_append, hn]
      cases b <;> cases it <;> decide
    exact ⟨by simp [cmdLetters], hargs, cmdOk_font 'f' (Or.inl rfl) _ (argChar_ne_semicolon hargs)⟩
  case scaleHeight f =>
    subst hi
    have hargs : (f ++ ['x']).all isArgChar = true := by
      rw [List.all_append, hf f h]; decide
    exact ⟨by simp [cmdLetters], hargs, cmdOk_factor 'H' (Or.inl rfl) f h⟩
  case height f => subst hi; exact ⟨by simp [cmdLetters], hf f h, cmdOk_float 'H' (Or.inl rfl) f h⟩
  case widthFactor f => subst hi; exact ⟨by simp [cmdLetters], hf f h, cmdOk_float 'W' (Or.inr (Or.inl rfl)) f h⟩
  case charTrackingFactor f => subst hi; exact ⟨by simp [cmdLetters], hf f h, cmdOk_float 'T' (Or.inr (Or.inr rfl)) f h⟩
  case oblique f => subst hi; exact ⟨by simp [cmdLetters], hf f h, cmdOk_oblique f h⟩
  case aci ds =>
    subst hi
    have hd : ds.all isDigit = true := h
    have hargs : ds.all isArgChar = true :=
      List.all_eq_true.mpr (fun c hc => digit_argChar (List.all_eq_true.mp hd c hc))
    exact ⟨by simp [cmdLetters], hargs, cmdOk_int 'C' (Or.inl rfl) ds hd⟩
  case rgb ds =>
    subst hi
    have hd : ds.all isDigit = true := h
    have hargs : ds.all isArgChar = true :=
      List.all_eq_true.mpr (fun c hc => digit_argChar (List.all_eq_true.mp hd c hc))
    exact ⟨by simp [cmdLetters], hargs, cmdOk_int 'c' (Or.inr rfl) ds hd⟩
  case stack u l t =>
    subst hi
    simp only [EdOp.wf, Bool.and_eq_true, Bool.or_eq_true, beq_iff_eq] at h
    exact ⟨h.1.1, h.1.2, h.2.elim (fun x => x.elim Or.inl (fun y => Or.inr (Or.inl y))) (fun y => Or.inr (Or.inr y))⟩
  case group w =>
    rcases hi with rfl | rfl | rfl
    · trivial
    · exact all_plain h
    · trivial
  case underline w =>
    rcases hi with rfl | rfl | rfl
    · simp [Item.Wf]
    · exact all_plain h
    · simp [Item.Wf]
  case overline w =>
    rcases hi with rfl | rfl | rfl
    · simp [Item.Wf]
    · exact all_plain h
    · simp [Item.Wf]
  case strikeThrough w =>
    rcases hi with rfl | rfl | rfl
    · simp [Item.Wf]
    · exact all_plain h
    · simp [Item.Wf]
  case paragraph a =>
    cases a with
    | none => simp [EdOp.items] at hi
    | some a =>
      simp only [EdOp.items, List.mem_cons, List.not_mem_nil, or_false] at hi
      subst hi
      have ha : a.all isArgChar = true := h
      have hargs : ('x' :: a).all isArgChar = true := by
        rw [List.all_cons, ha]; decide
      exact ⟨by simp [cmdLetters], hargs, cmdOk_para _ (argChar_ne_semicolon hargs)⟩
  case newParagraph => subst hi; simp [Item.Wf]
  case align c =>
    subst hi
    simp only [EdOp.wf, Bool.or_eq_true, beq_iff_eq] at h
    have hargs : [c].all isArgChar = true := by
      rcases h with (h | h) | h <;> subst h <;> decide
    exact ⟨by simp [cmdLetters], hargs, cmdOk_align c⟩
  case const d =>
    subst hi
    simp only [EdOp.wf, Bool.or_eq_true, beq_iff_eq] at h
    simp only [Item.Wf]
    rcases h with ((((h | h) | h) | h) | h) | h <;> simp [h]
  case groupStart => subst hi; trivial
  case groupEnd => subst hi; trivial

/-- the content written by any sequence of editor calls with in-range arguments is in the agreement
    class, and the fast decoder returns the words -/
theorem editor_class_and_fast (sp : Special) (ops : List EdOp) (h : ∀ o ∈ ops, o.wf = true) :
    agreeClass sp (caretDecode (editorText ops)) = true ∧ fastPlainMText sp (editorText ops) = editorWords ops := by
  have hw : ∀ i ∈ (ops.map EdOp.items).flatten, i.Wf := by
    intro i hi
    simp only [List.mem_flatten, List.mem_map] at hi
    obtain ⟨l, ⟨o, ho, rfl⟩, hil⟩ := hi
    exact edop_items_wf o (h o ho) i hil
  have hc := items_caret (ops.map EdOp.items).flatten [] hw
  simp only [List.append_nil] at hc
  have hcd : caretDecode ([] : Str) = [] := rfl
  rw [hcd, List.append_nil] at hc
  constructor
  · unfold editorText
    rw [hc]
    have := items_agree sp _ [] hw
    simp only [List.append_nil] at this
    rw [this, agreeClass.eq_def]
  · unfold fastPlainMText editorText editorWords
    rw [hc]
    have := items_fast sp _ [] hw
    simp only [List.append_nil] at this
    rw [this, fastLoop_nil]; simp

end EzdxfVerif.Text

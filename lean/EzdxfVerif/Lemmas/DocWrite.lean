/-
Lemmas about what `Drawing.write` exports (Model/Doc.lean `writeFile`), used by Props/C04.
-/
import EzdxfVerif.Lemmas.Doc

namespace EzdxfVerif.Doc

def brs (s : State) : List Nat := s.blocks.map (·.2.2)

/-- the BLOCK_RECORD table and the entity spaces describe the same containers: each block record once, every block
    record has an entity space and every entity space belongs to a block record of the table -/
def BInv (s : State) : Prop := (brs s).Nodup ∧ (∀ b ∈ brs s, b ∈ keys s.spaces) ∧ (∀ k ∈ keys s.spaces, k ∈ brs s)

theorem liveContent_alive (s : State) (k x : Nat) (hx : x ∈ liveContent s k) : isAlive s x = true := by
  simp only [liveContent, List.mem_filter] at hx
  exact hx.2

theorem mem_liveContent_allH {s : State} {k x : Nat} (hx : x ∈ liveContent s k) : x ∈ allH s.spaces := by
  simp only [liveContent, List.mem_filter] at hx
  cases hsp : spaceOf s k with
  | none => simp [hsp] at hx
  | some l =>
    simp only [hsp, Option.getD_some] at hx
    unfold spaceOf at hsp
    exact spaceOf_mem_allH hsp hx.1

theorem mem_written {s : State} {h : Nat} (hm : h ∈ written (writeFile s)) : ∃ k, h ∈ liveContent s k := by
  simp only [written, writeFile, List.mem_append, List.mem_flatten, List.mem_map] at hm
  rcases hm with ⟨l, ⟨b, ⟨c, hc, rfl⟩, rfl⟩, hl⟩ | hm
  · simp only at hl
    split at hl
    · simp at hl
    · exact ⟨_, hl⟩
  · rcases hm with hm | hm
    · split at hm
      · exact ⟨_, hm⟩
      · simp at hm
    · split at hm
      · exact ⟨_, hm⟩
      · simp at hm

theorem write_no_dead (s : State) : ∀ h ∈ written (writeFile s), isAlive s h = true := by
  intro h hm
  obtain ⟨k, hk⟩ := mem_written hm
  exact liveContent_alive s k h hk

theorem write_lt_handseed (s : State) (hi : DocInv s) :
    ∀ h ∈ written (writeFile s), h < (writeFile s).handseed := by
  intro h hm
  obtain ⟨k, hk⟩ := mem_written hm
  exact hi.1.2 h (hi.2.2.2.2 h (mem_liveContent_allH hk))

/-! ### distinct containers have disjoint content -/

theorem find_some_mem {sp : List (Nat × List Nat)} {k : Nat} {l : List Nat}
    (h : (sp.find? (·.1 = k)).map (·.2) = some l) : (k, l) ∈ sp := by
  cases hf : sp.find? (·.1 = k) with
  | none => simp [hf] at h
  | some p =>
    simp [hf] at h
    have hm := List.mem_of_find?_eq_some hf
    have hk : p.1 = k := by simpa using List.find?_some hf
    rw [← h, ← hk]; exact hm

theorem spaces_disjoint {sp : List (Nat × List Nat)} (hn : (allH sp).Nodup)
    {k k' : Nat} {l l' : List Nat} (h1 : (k, l) ∈ sp) (h2 : (k', l') ∈ sp) (hne : k ≠ k') :
    ∀ x ∈ l, x ∉ l' := by
  induction sp with
  | nil => simp at h1
  | cons p r ih =>
    rw [allH_cons] at hn
    have hn' := List.nodup_append.mp hn
    simp only [List.mem_cons] at h1 h2
    intro x hx hx'
    have memr : ∀ {kk : Nat} {ll : List Nat}, (kk, ll) ∈ r → ∀ y ∈ ll, y ∈ allH r := by
      intro kk ll hm y hy
      simp only [allH, List.mem_flatten, List.mem_map]
      exact ⟨ll, ⟨(kk, ll), hm, rfl⟩, hy⟩
    rcases h1 with h1 | h1 <;> rcases h2 with h2 | h2
    · rw [← h1] at h2; cases h2; exact hne rfl
    · rw [← h1] at hn'
      exact hn'.2.2 x hx x (memr h2 x hx') rfl
    · rw [← h2] at hn'
      exact hn'.2.2 x hx' x (memr h1 x hx) rfl
    · exact ih hn'.2.1 h1 h2 x hx hx'

theorem mem_sublist_allH {sp : List (Nat × List Nat)} {k : Nat} {l : List Nat} (hm : (k, l) ∈ sp) :
    l.Sublist (allH sp) := by
  induction sp with
  | nil => simp at hm
  | cons p r ih =>
    rw [allH_cons]
    simp only [List.mem_cons] at hm
    rcases hm with hm | hm
    · rw [← hm]; exact List.sublist_append_left _ _
    · exact (ih hm).trans (List.sublist_append_right _ _)

theorem liveContent_nodup (s : State) (hi : DocInv s) (k : Nat) : (liveContent s k).Nodup := by
  unfold liveContent
  apply List.Nodup.sublist List.filter_sublist
  cases hsp : spaceOf s k with
  | none => exact List.nodup_nil
  | some l =>
    show l.Nodup
    have hm := find_some_mem (by unfold spaceOf at hsp; exact hsp)
    have : l.Sublist (allH s.spaces) := mem_sublist_allH hm
    exact hi.2.2.2.1.sublist this

theorem liveContent_disjoint (s : State) (hi : DocInv s) {k k' : Nat} (hne : k ≠ k') :
    ∀ x ∈ liveContent s k, x ∉ liveContent s k' := by
  intro x hx hx'
  simp only [liveContent, List.mem_filter] at hx hx'
  cases h1 : spaceOf s k with
  | none => simp [h1] at hx
  | some l =>
    cases h2 : spaceOf s k' with
    | none => simp [h2] at hx'
    | some l' =>
      simp only [h1, h2, Option.getD_some] at hx hx'
      unfold spaceOf at h1 h2
      exact spaces_disjoint hi.2.2.2.1 (find_some_mem h1) (find_some_mem h2) hne x hx.1 hx'.1

theorem eq_of_nodup_map {α β : Type} (f : α → β) : ∀ (l : List α), (l.map f).Nodup →
    ∀ a ∈ l, ∀ b ∈ l, f a = f b → a = b := by
  intro l
  induction l with
  | nil => intro _ a ha; simp at ha
  | cons x r ih =>
    intro hn a ha b hb hab
    simp only [List.map_cons, List.nodup_cons, List.mem_map, not_exists, not_and] at hn
    simp only [List.mem_cons] at ha hb
    rcases ha with rfl | ha <;> rcases hb with rfl | hb
    · rfl
    · exact absurd hab.symm (hn.1 b hb)
    · exact absurd hab (hn.1 a ha)
    · exact ih hn.2 a ha b hb hab

/-- content of a list of pairwise distinct containers, concatenated, has no duplicates -/
theorem flatten_content_nodup (s : State) (hi : DocInv s) (ks : List Nat) (hk : ks.Nodup)
    (f : Nat → Bool) :
    ((ks.map (fun k => if f k then [] else liveContent s k)).flatten).Nodup := by
  induction ks with
  | nil => simp
  | cons k r ih =>
    simp only [List.nodup_cons] at hk
    simp only [List.map_cons, List.flatten_cons]
    refine List.nodup_append.mpr ⟨?_, ih hk.2, ?_⟩
    · split
      · simp
      · exact liveContent_nodup s hi k
    · intro a ha b hb hab
      subst hab
      split at ha
      · simp at ha
      · simp only [List.mem_flatten, List.mem_map] at hb
        obtain ⟨l, ⟨k', hk', rfl⟩, hl⟩ := hb
        split at hl
        · simp at hl
        · have hne : k ≠ k' := fun h => hk.1 (h ▸ hk')
          exact liveContent_disjoint s hi hne a ha hl

/-- every live linked entity is written at most once over BLOCKS and ENTITIES together -/
theorem write_once (s : State) (hi : DocInv s) (hb : BInv s) : (written (writeFile s)).Nodup := by
  simp only [written, writeFile]
  -- BLOCKS part as a map over the distinct block-record handles
  have hblocks : (s.blocks.map (fun b =>
      (b.2.2, if some b.2.2 = blockBr s (lower modelSpaceName) ∨ some b.2.2 = blockBr s (lower paperSpaceName)
        then [] else liveContent s b.2.2))).map (·.2) =
      (brs s).map (fun k => if (decide (some k = blockBr s (lower modelSpaceName) ∨ some k = blockBr s (lower paperSpaceName)))
        then [] else liveContent s k) := by
    simp [brs, List.map_map, Function.comp_def]
  rw [hblocks]
  refine List.nodup_append.mpr ⟨flatten_content_nodup s hi (brs s) hb.1 _, ?_, ?_⟩
  · -- ENTITIES: modelspace ++ active paperspace
    cases hm : blockBr s (lower modelSpaceName) with
    | none =>
      cases hp : blockBr s (lower paperSpaceName) with
      | none => simp
      | some p => simpa using liveContent_nodup s hi p
    | some m =>
      cases hp : blockBr s (lower paperSpaceName) with
      | none => simpa using liveContent_nodup s hi m
      | some p =>
        simp only
        by_cases hmp : m = p
        · -- cannot happen for distinct block names; both lookups return table entries with BInv-unique handles
          exfalso
          have h1 : ∃ b ∈ s.blocks, b.1 = lower modelSpaceName ∧ b.2.2 = m := by
            unfold blockBr at hm
            cases hf : s.blocks.find? (·.1 = lower modelSpaceName) with
            | none => simp [hf] at hm
            | some b =>
              simp [hf] at hm
              exact ⟨b, List.mem_of_find?_eq_some hf, by simpa using List.find?_some hf, hm⟩
          have h2 : ∃ b ∈ s.blocks, b.1 = lower paperSpaceName ∧ b.2.2 = p := by
            unfold blockBr at hp
            cases hf : s.blocks.find? (·.1 = lower paperSpaceName) with
            | none => simp [hf] at hp
            | some b =>
              simp [hf] at hp
              exact ⟨b, List.mem_of_find?_eq_some hf, by simpa using List.find?_some hf, hp⟩
          obtain ⟨b1, hb1, hk1, hbr1⟩ := h1
          obtain ⟨b2, hb2, hk2, hbr2⟩ := h2
          have hbb : b1 = b2 := by
            exact eq_of_nodup_map (fun b : Str × Str × Nat => b.2.2) s.blocks hb.1 b1 hb1 b2 hb2 (by rw [hbr1, hbr2, hmp])
          rw [hbb, hk2] at hk1
          exact absurd hk1 (by decide)
        · refine List.nodup_append.mpr ⟨liveContent_nodup s hi m, liveContent_nodup s hi p, ?_⟩
          intro a ha b hb' hab; subst hab
          exact liveContent_disjoint s hi hmp a ha hb'
  · -- BLOCKS and ENTITIES are disjoint: layout blocks contribute [] to BLOCKS
    intro a ha b hb' hab; subst hab
    simp only [List.mem_flatten, List.mem_map] at ha
    obtain ⟨l, ⟨k, hk, rfl⟩, hl⟩ := ha
    split at hl
    · simp at hl
    · rename_i hnot
      simp only [decide_eq_true_eq, not_or] at hnot
      simp only [List.mem_append] at hb'
      rcases hb' with hb' | hb'
      · split at hb'
        · rename_i m hm
          have : k ≠ m := fun h => hnot.1 (by rw [h, hm])
          exact liveContent_disjoint s hi this a hl hb'
        · simp at hb'
      · split at hb'
        · rename_i p hp
          have : k ≠ p := fun h => hnot.2 (by rw [h, hp])
          exact liveContent_disjoint s hi this a hl hb'
        · simp at hb'

theorem BInv.of_same_tables {s s' : State} (h : BInv s) (hb : s'.blocks = s.blocks)
    (hk : keys s'.spaces = keys s.spaces) : BInv s' := by
  unfold BInv brs at *
  rw [hb, hk]; exact h

theorem newEnt_tables (s : State) (k h seed : Nat) (r : Option Str) (subs : List Nat) :
    (newEnt s k h seed r subs).1.blocks = s.blocks ∧ keys (newEnt s k h seed r subs).1.spaces = keys s.spaces := by
  unfold newEnt; split
  · exact ⟨rfl, rfl⟩
  · split
    · exact ⟨rfl, by simp only [keys_setSpace]⟩
    · exact ⟨rfl, rfl⟩

theorem unlinkCore_tables {s s' : State} {k e : Nat} (h : unlinkCore s k e = some s') :
    s'.blocks = s.blocks ∧ keys s'.spaces = keys s.spaces := by
  unfold unlinkCore at h
  split at h
  · cases h; exact ⟨rfl, rfl⟩
  · split at h
    · cases h
    · split at h
      · cases h; exact ⟨rfl, by simp only [keys_setSpace]⟩
      · cases h

theorem addExisting_tables (s : State) (k e : Nat) :
    (addExisting s k e).1.blocks = s.blocks ∧ keys (addExisting s k e).1.spaces = keys s.spaces := by
  unfold addExisting; split
  · split
    · exact ⟨rfl, rfl⟩
    · split
      · exact ⟨rfl, rfl⟩
      · exact ⟨rfl, by simp only [keys_setSpace]⟩
  · exact ⟨rfl, rfl⟩

theorem dropContainer_BInv (s : State) (br : Nat) (h : BInv s) : BInv (dropContainer s br) := by
  unfold BInv brs at *
  simp only [dropContainer]
  refine ⟨?_, ?_, ?_⟩
  · exact h.1.sublist (List.Sublist.map _ List.filter_sublist)
  · intro b hb
    simp only [List.mem_map, List.mem_filter] at hb
    obtain ⟨x, ⟨hx, hne⟩, rfl⟩ := hb
    have := h.2.1 x.2.2 (by simp only [List.mem_map]; exact ⟨x, hx, rfl⟩)
    simp only [keys, List.mem_map, List.mem_filter] at this ⊢
    obtain ⟨p, hp, hpk⟩ := this
    exact ⟨p, ⟨hp, by simpa [hpk] using hne⟩, hpk⟩
  · intro k hk
    simp only [keys, List.mem_map, List.mem_filter] at hk
    obtain ⟨p, ⟨hp, hne⟩, rfl⟩ := hk
    have := h.2.2 p.1 (by simp only [keys, List.mem_map]; exact ⟨p, hp, rfl⟩)
    simp only [List.mem_map, List.mem_filter] at this ⊢
    obtain ⟨x, hx, hxk⟩ := this
    exact ⟨x, ⟨hx, by simpa [hxk] using hne⟩, hxk⟩

theorem blockBr_mem {s : State} {key : Str} {br : Nat} (h : blockBr s key = some br) : br ∈ brs s := by
  unfold blockBr at h
  cases hf : s.blocks.find? (·.1 = key) with
  | none => simp [hf] at h
  | some b =>
    simp [hf] at h
    simp only [brs, List.mem_map]
    exact ⟨b, List.mem_of_find?_eq_some hf, h⟩

theorem renameBlock_BInv (s : State) (a b : Str) (h : BInv s) : BInv (renameBlock s a b).1 := by
  unfold renameBlock
  split
  · exact h
  · rename_i br hbr
    split
    · exact h
    · unfold BInv brs at *
      simp only [List.map_append, List.map_cons, List.map_nil]
      have hmem := blockBr_mem hbr
      refine ⟨?_, ?_, ?_⟩
      · refine List.nodup_append.mpr ⟨h.1.sublist (List.Sublist.map _ List.filter_sublist), by simp, ?_⟩
        intro x hx y hy
        simp only [List.mem_singleton] at hy; subst hy
        simp only [List.mem_map, List.mem_filter] at hx
        obtain ⟨z, ⟨_, hz⟩, rfl⟩ := hx
        simpa using hz
      · intro x hx
        simp only [List.mem_append, List.mem_map, List.mem_filter, List.mem_singleton] at hx
        rcases hx with ⟨z, ⟨hz, _⟩, rfl⟩ | rfl
        · exact h.2.1 _ (by simp only [List.mem_map]; exact ⟨z, hz, rfl⟩)
        · exact h.2.1 _ hmem
      · intro k hk
        have := h.2.2 k hk
        simp only [List.mem_map] at this
        obtain ⟨z, hz, rfl⟩ := this
        simp only [List.mem_append, List.mem_map, List.mem_filter, List.mem_singleton]
        by_cases hzb : z.2.2 = br
        · exact Or.inr hzb
        · exact Or.inl ⟨z, ⟨hz, by simpa using hzb⟩, rfl⟩

theorem setActive_BInv (s : State) (n : Str) (h : BInv s) : BInv (setActive s n).1 := by
  unfold setActive
  split
  · exact h
  · split
    · exact h
    · split
      · split
        · exact h
        · simp only
          exact renameBlock_BInv _ _ _ (renameBlock_BInv _ _ _ (renameBlock_BInv _ _ _ h))
      · exact h

theorem newContainer_BInv {s : State} (hi : DocInv s) (h : BInv s) (key name : Str) (br : Nat)
    (hbr : s.next ≤ br) (s' : State) (hb : s'.blocks = s.blocks ++ [(key, name, br)])
    (hs : s'.spaces = s.spaces ++ [(br, [])]) : BInv s' := by
  unfold BInv brs at *
  rw [hb, hs]
  simp only [List.map_append, List.map_cons, List.map_nil, keys]
  refine ⟨?_, ?_, ?_⟩
  · refine List.nodup_append.mpr ⟨h.1, by simp, ?_⟩
    intro x hx y hy
    simp only [List.mem_singleton] at hy; subst hy
    have := hi.2.2.1 x (h.2.1 x hx)
    omega
  · intro x hx
    simp only [List.mem_append, List.mem_singleton] at hx ⊢
    rcases hx with hx | rfl
    · exact Or.inl (h.2.1 x hx)
    · exact Or.inr rfl
  · intro x hx
    simp only [List.mem_append, List.mem_singleton] at hx ⊢
    rcases hx with hx | rfl
    · exact Or.inl (h.2.2 x hx)
    · exact Or.inr rfl

theorem dropAll_BInv : ∀ (l : List Nat) (s : State), BInv s → BInv (dropAll s l)
  | [], _, h => h
  | a :: r, s, h => by
    simp only [dropAll, List.foldl_cons]
    exact dropAll_BInv r _ (dropContainer_BInv s a h)

theorem blockName_mem {s : State} {br : Nat} {n : Str} (h : blockName s br = some n) : br ∈ brs s := by
  unfold blockName at h
  cases hf : s.blocks.find? (·.2.2 = br) with
  | none => simp [hf] at h
  | some b =>
    have hb : b.2.2 = br := by simpa using List.find?_some hf
    simp only [brs, List.mem_map]
    exact ⟨b, List.mem_of_find?_eq_some hf, hb⟩

theorem restoreActive_BInv (s : State) (h : BInv s) : BInv (restoreActive s) := by
  unfold restoreActive
  split
  · split
    · rename_i l hl
      have hcand := List.find?_some hl
      have hmem : l.br ∈ brs s := by
        simp only [Bool.and_eq_true] at hcand
        cases hbn : blockName s l.br with
        | none => simp [hbn] at hcand
        | some n => exact blockName_mem hbn
      unfold BInv brs at *
      simp only [List.map_append, List.map_cons, List.map_nil]
      refine ⟨?_, ?_, ?_⟩
      · refine List.nodup_append.mpr ⟨h.1.sublist (List.Sublist.map _ List.filter_sublist), by simp, ?_⟩
        intro x hx y hy
        simp only [List.mem_singleton] at hy; subst hy
        simp only [List.mem_map, List.mem_filter] at hx
        obtain ⟨z, ⟨_, hz⟩, rfl⟩ := hx
        simpa using hz
      · intro x hx
        simp only [List.mem_append, List.mem_map, List.mem_filter, List.mem_singleton] at hx
        rcases hx with ⟨z, ⟨hz, _⟩, rfl⟩ | rfl
        · exact h.2.1 _ (by simp only [List.mem_map]; exact ⟨z, hz, rfl⟩)
        · exact h.2.1 _ hmem
      · intro k hk
        have := h.2.2 k hk
        simp only [List.mem_map] at this
        obtain ⟨z, hz, rfl⟩ := this
        simp only [List.mem_append, List.mem_map, List.mem_filter, List.mem_singleton]
        by_cases hzb : z.2.2 = l.br
        · exact Or.inr hzb
        · exact Or.inl ⟨z, ⟨hz, by simpa using hzb⟩, rfl⟩
    · exact h
  · exact h

theorem audit_BInv (s : State) (h : BInv s) : BInv (audit s).1 := by
  have h1 : BInv (auditSpaces s) := by
    refine h.of_same_tables rfl ?_
    simp [auditSpaces, keys, List.map_map, Function.comp_def]
  have h2 : BInv (auditLayouts (auditSpaces s)) := restoreActive_BInv _ (dropAll_BInv _ _ h1)
  exact h2.of_same_tables rfl rfl

/-- the block table and the entity spaces stay in step, for every operation -/
theorem step_BInv (s : State) (op : Op) (hi : DocInv s) (h : BInv s) : BInv (step s op).1 := by
  cases op with
  | add k x seed => exact h.of_same_tables (newEnt_tables ..).1 (newEnt_tables ..).2
  | ins k n x seed => exact h.of_same_tables (newEnt_tables ..).1 (newEnt_tables ..).2
  | unlink k e =>
    simp only [step]; split
    · rename_i h1; exact h.of_same_tables (unlinkCore_tables h1).1 (unlinkCore_tables h1).2
    · exact h
  | addex k e => exact h.of_same_tables (addExisting_tables ..).1 (addExisting_tables ..).2
  | move k1 e k2 =>
    simp only [step]; split
    · exact h
    · split
      · exact h
      · rename_i s1 h1
        have b1 := h.of_same_tables (unlinkCore_tables h1).1 (unlinkCore_tables h1).2
        have b2 := b1.of_same_tables (addExisting_tables s1 k2 e).1 (addExisting_tables s1 k2 e).2
        split
        · rename_i s2 heq; rw [heq] at b2; exact b2
        · exact h
  | del k e =>
    simp only [step]; split
    · exact h
    · rename_i s1 h1
      exact (h.of_same_tables (unlinkCore_tables h1).1 (unlinkCore_tables h1).2).of_same_tables rfl rfl
  | destroy e => exact h.of_same_tables rfl rfl
  | copy e k x subs seed =>
    simp only [step]; split
    · split
      · split
        · exact h.of_same_tables (newEnt_tables ..).1 (newEnt_tables ..).2
        · exact h
      · exact h
    · exact h
  | addL k r x subs seed => exact h.of_same_tables (newEnt_tables ..).1 (newEnt_tables ..).2
  | explode e news seed =>
    rcases explode_cases s e news seed with ⟨er, h0⟩ | ⟨x, name, k, b, s', hx, hal, hr, ho, hsp, hb, hshape, hfresh, htexts, hcore, hstep⟩
    · rw [h0]; exact h
    · rw [hstep]
      obtain ⟨s2, h2, rfl⟩ := explodeCore_parts hcore
      refine (h.of_same_tables (s' := s2) ?_ ?_).of_same_tables rfl rfl
      · rw [(unlinkCore_tables h2).1]; rfl
      · rw [(unlinkCore_tables h2).2]; simp only [explodeMid, keys_setSpace]
  | audit seed =>
    simp only [step]; split
    · exact (audit_BInv s h).of_same_tables rfl rfl
    · exact h
  | addEntry t n seed =>
    simp only [step]; split
    · exact h
    · split
      · exact h.of_same_tables rfl rfl
      · exact h
  | delEntry t n => simp only [step]; split <;> first | exact h | exact h.of_same_tables rfl rfl
  | dupEntry t a b seed =>
    simp only [step]; split
    · exact h
    · split
      · exact h.of_same_tables rfl rfl
      · exact h
  | newGroup n x seed =>
    simp only [step]; split
    · exact h
    · split
      · exact h.of_same_tables rfl rfl
      · exact h
  | setGroup n ms =>
    simp only [step]; split
    · exact h
    · split
      · exact h.of_same_tables rfl rfl
      · exact h
  | delGroup n => simp only [step]; split <;> first | exact h | exact h.of_same_tables rfl rfl
  | purge =>
    refine h.of_same_tables rfl ?_
    simp [step, keys, List.map_map, Function.comp_def]
  | newBlock n br seed =>
    simp only [step]; split
    · exact h
    · split
      · rename_i hf
        exact newContainer_BInv hi h _ _ br (freshOk_one hf).1 _ rfl rfl
      · exact h
  | delBlock n safe =>
    simp only [step]; split
    · exact h
    · split
      · exact h
      · exact dropContainer_BInv s _ h
  | renBlock a b => exact renameBlock_BInv s a b h
  | newLayout n br seed =>
    simp only [step]; split
    · exact h
    · split
      · exact h
      · split
        · rename_i hf
          exact newContainer_BInv hi h _ _ br (freshOk_one hf).1 _ rfl rfl
        · exact h
  | delLayout n =>
    simp only [step]; split
    · exact h
    · split
      · exact h
      · split
        · exact h
        · simp only
          apply dropContainer_BInv
          split
          · split
            · exact (setActive_BInv _ _ h).of_same_tables rfl rfl
            · exact h.of_same_tables rfl rfl
          · exact h.of_same_tables rfl rfl
  | renLayout a b =>
    simp only [step]; split
    · exact h
    · split
      · exact h
      · split
        · exact h
        · exact h.of_same_tables rfl rfl
  | activate n => exact setActive_BInv s n h
  | addLayer n seed =>
    simp only [step]; split
    · exact h
    · split
      · exact h.of_same_tables rfl rfl
      · exact h
  | delLayer n =>
    simp only [step]; split
    · exact h.of_same_tables rfl rfl
    · exact h
  | reload seed =>
    simp only [step]; split
    · refine h.of_same_tables rfl ?_
      simp [keys, List.map_map, Function.comp_def]
    · exact h
  | foreign kind e => simp only [step]; split <;> exact h

/-- all three invariants hold in every reachable state -/
theorem full_inv_reachable (s : State) (ops : List Op) (h : DocInv s) (hb : BInv s) (hok : HistOk s ops) :
    DocInv (run s ops) ∧ BInv (run s ops) := by
  induction ops generalizing s with
  | nil => exact ⟨h, hb⟩
  | cons op r ih => exact ih _ (step_Inv s op h hok.1) (step_BInv s op h hb) hok.2


end EzdxfVerif.Doc

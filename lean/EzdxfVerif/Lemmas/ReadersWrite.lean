/-
C08  lemmas for Model/ReadersWrite.lean: from the LOCAL conditions `DocOK` on the records of a document to the GLOBAL
`FileWF'` of the tag stream `Drawing.export_sections` emits.
-/
import EzdxfVerif.Lemmas.Readers
import EzdxfVerif.Model.ReadersWrite

namespace EzdxfVerif.Readers

/-! ## `Ent.flat` of exportable entities is the flattening of their groups -/

theorem flat_eq_groups (e : Ent) (h : e.exportable = true) : e.flat = e.groups.flatten := by
  obtain ⟨main, subs, seqend⟩ := e
  by_cases hi : dxftype main = "INSERT" ∧ subs.isEmpty = true
  · have hs : subs = [] := by simpa using hi.2
    subst hs
    cases seqend with
    | none => simp [Ent.flat, Ent.groups, hi.1]
    | some q => simp [Ent.exportable, hi.1] at h
  · have hi' : ¬(dxftype main = "INSERT" ∧ subs.isEmpty = true) := hi
    simp only [Ent.flat, if_neg hi']
    cases seqend <;> simp [Ent.groups]

theorem flatMap_flat_eq (es : List Ent) (h : ∀ e ∈ es, e.exportable = true) : es.flatMap Ent.flat = flatEnts es := by
  induction es with
  | nil => rfl
  | cons e r ih =>
    have ih' := ih (fun x hx => h x (by simp [hx]))
    simp only [flatEnts, List.flatMap_cons, List.flatten_append] at ih' ⊢
    rw [flat_eq_groups e (h e (by simp)), ih']

/-! ## splitting and linking of a rendered ENTITIES section -/

theorem splitEnt_mk (pre post : List Section) (b : List Tag) (hpre : ∀ s ∈ pre, s.name ≠ "ENTITIES") :
    splitEnt (pre ++ ⟨"ENTITIES", b⟩ :: post) = some (pre, b, post) := by
  induction pre with
  | nil => simp [splitEnt]
  | cons s r ih =>
    have hs := hpre s (by simp)
    have := ih (fun x hx => hpre x (by simp [hx]))
    simp only [List.cons_append, splitEnt, hs, if_false, this]

/-- complete entities: every entity is what the linker builds and none is open -/
def EntsClosed (cfg : Cfg) (es : List Ent) : Prop := ∀ e ∈ es, entWF cfg e = true ∧ e.isOpen cfg = false

theorem EntsWF_of_closed (cfg : Cfg) (es : List Ent) (h : EntsClosed cfg es) : EntsWF cfg es = true := by
  induction es with
  | nil => rfl
  | cons e r ih =>
    exact EntsWF_cons cfg e r (h e (by simp)).1 (h e (by simp)).2 (ih (fun x hx => h x (by simp [hx])))

/-- the linked structures of a flattened list of complete entities are complete -/
theorem LinkOK_of_closed (cfg : Cfg) (es : List Ent) (h : EntsClosed cfg es) :
    LinkOK cfg (es.flatMap Ent.groups) = true := by
  induction es with
  | nil => simp [LinkOK]
  | cons e r ih =>
    have ihr := ih (fun x hx => h x (by simp [hx]))
    obtain ⟨hwe, hop⟩ := h e (by simp)
    obtain ⟨main, subs, seqend⟩ := e
    simp only [entWF] at hwe
    cases hexp : expects cfg main with
    | none =>
      simp only [hexp, Bool.and_eq_true, List.isEmpty_iff, Option.isNone_iff_eq_none] at hwe
      obtain ⟨h1, h2⟩ := hwe
      subst h1; subst h2
      simp only [List.flatMap_cons, Ent.groups, Option.toList_none, List.append_nil, List.cons_append, List.nil_append]
      rw [LinkOK_none cfg main _ hexp]; exact ihr
    | some exp =>
      simp only [hexp, Bool.and_eq_true, List.all_eq_true] at hwe
      obtain ⟨hsubs, hseq⟩ := hwe
      have hexpne := expects_ne_seqend cfg main exp hexp
      cases seqend with
      | none => simp [Ent.isOpen, hexp] at hop
      | some q =>
        have hq : dxftype q = "SEQEND" := (hasType_iff _ _).mp hseq
        have hqn : hasType exp q = false := by
          cases hh : hasType exp q with
          | false => rfl
          | true => exact absurd ((hasType_iff _ _).mp hh ▸ hq) (by intro h; exact hexpne h)
        have ⟨_, hd⟩ := takeDrop_all_append (hasType exp) subs (q :: r.flatMap Ent.groups) hsubs (by simp [hqn])
        simp only [List.flatMap_cons, Ent.groups, Option.toList_some, List.cons_append, List.append_assoc,
          List.nil_append]
        rw [LinkOK_some_cons cfg main _ exp q (r.flatMap Ent.groups) hexp hd]
        simp [hq, ihr]

/-! ## the structural parser accepts every rendered section list -/

theorem parseBody_render' (b rest : List Tag) (hb : bodyOK b = true) :
    parseBody (b ++ tENDSEC :: rest) = some (b, rest) := by
  induction b with
  | nil => simp [parseBody]
  | cons t r ih =>
    obtain ⟨ht, hr⟩ := bodyOK_cons t r hb
    have h1 : t ≠ tENDSEC := by intro h; subst h; exact ht ⟨rfl, Or.inr (Or.inl rfl)⟩
    simp only [List.cons_append, parseBody, h1, if_false, ht, ih hr]

theorem parseFile_render (secs : List Section) (hb : ∀ s ∈ secs, bodyOK s.body = true) :
    parseFile (render secs) = some secs := by
  induction secs with
  | nil => simp [render, parseFile]
  | cons s r ih =>
    have h1 := ih (fun x hx => hb x (by simp [hx]))
    have h2 := parseBody_render' s.body (render r) (hb s (by simp))
    simp only [render, List.flatMap_cons, renderSec, List.cons_append, List.append_assoc, List.nil_append] at h1 h2 ⊢
    rw [parseFile]
    simp only [show tSECTION ≠ tEOF by decide, if_false, if_true]
    split
    · rename_i b r3 heq
      rw [h2] at heq
      simp only [Option.some.injEq, Prod.mk.injEq] at heq
      obtain ⟨rfl, rfl⟩ := heq
      rw [h1]
      cases s; rfl
    · rename_i heq; rw [h2] at heq; simp at heq

/-! ## `fileOf` with locally well-formed parts satisfies `FileWF'` -/

/-- what `FileWF'` needs of a section that is not ENTITIES, and of the bodies for `parseFile` -/
structure SecsOK (cfg : Cfg) (m : Nat) (secs : List Section) : Prop where
  body : ∀ s ∈ secs, bodyOK s.body = true
  sec : ∀ s ∈ secs, secOK m s = true
  tags : ∀ s ∈ secs, ∀ t ∈ renderSec s, t.code ≠ 999 ∧
    (t.code = 0 → cfg.strip t.val = t.val ∧ cfg.upper (cfg.stripB t.val) = t.val)

theorem compile_id (cfg : Cfg) (f : List Tag) (h : ∀ t ∈ f, t.code = 0 → cfg.strip t.val = t.val) : compile cfg f = f := by
  induction f with
  | nil => rfl
  | cons t r ih =>
    have ihr := ih (fun x hx => h x (by simp [hx]))
    simp only [compile, List.map_cons] at ihr ⊢
    rw [ihr]
    by_cases h0 : t.code = 0
    · have := h t (by simp) h0
      cases t; simp_all
    · simp [h0]

theorem compileB_id (cfg : Cfg) (f : List Tag) (h : ∀ t ∈ f, t.code = 0 → cfg.upper (cfg.stripB t.val) = t.val) :
    compileB cfg f = f := by
  induction f with
  | nil => rfl
  | cons t r ih =>
    have ihr := ih (fun x hx => h x (by simp [hx]))
    simp only [compileB, List.map_cons] at ihr ⊢
    rw [ihr]
    by_cases h0 : t.code = 0
    · have := h t (by simp) h0
      cases t; simp_all
    · simp [h0]

theorem groupOK_of_entGroupsOK (es : List Ent) (hgroups : entGroupsOK es = true) :
    ∀ g ∈ es.flatMap Ent.groups, groupOK g = true := by
  intro g hg
  have := (entGroupsOK_iff es).mp hgroups g hg
  simp only [Bool.and_eq_true] at this
  exact this.1.1.1

theorem bodyOK_flatEnts (es : List Ent) (hgroups : entGroupsOK es = true) : bodyOK (flatEnts es) = true := by
  have hgok := groupOK_of_entGroupsOK es hgroups
  simp only [bodyOK, List.all_eq_true, flatEnts, List.mem_flatten]
  rintro t ⟨g, hg, ht⟩
  have h1 := (entGroupsOK_iff es).mp hgroups g hg
  have h2 := hgok g hg
  cases g with
  | nil => simp at ht
  | cons t0 ts =>
    simp only [groupOK, Bool.and_eq_true, beq_iff_eq, List.all_eq_true] at h2
    simp only [Bool.and_eq_true, bne_iff_ne, dxftype] at h1
    rcases List.mem_cons.mp ht with rfl | ht
    · simp [h1.1.1.2, h1.1.2, h1.2]
    · have := h2.2 t ht
      simp only [nz, bne_iff_ne] at this
      simp [this]

/-- the tags of a file `fileOf pre es post` -/
theorem mem_fileOf (pre post : List Section) (es : List Ent) (t : Tag) (ht : t ∈ fileOf pre es post) :
    (∃ s ∈ pre ++ post, t ∈ renderSec s) ∨ t ∈ flatEnts es ∨ t = tSECTION ∨ t = ⟨2, "ENTITIES"⟩ ∨ t = tENDSEC ∨ t = tEOF := by
  rw [fileOf_eq] at ht
  simp only [List.mem_append, List.mem_flatMap, renderSec, List.mem_cons, List.not_mem_nil, or_false] at ht
  rcases ht with ⟨s, hs, h⟩ | (h | h | h | h) | ⟨s, hs, h⟩ | h
  · exact Or.inl ⟨s, by simp [hs], by simpa [renderSec] using h⟩
  · exact Or.inr (Or.inr (Or.inl h))
  · exact Or.inr (Or.inr (Or.inr (Or.inl h)))
  · exact Or.inr (Or.inl h)
  · exact Or.inr (Or.inr (Or.inr (Or.inr (Or.inl h))))
  · exact Or.inl ⟨s, by simp [hs], by simpa [renderSec] using h⟩
  · exact Or.inr (Or.inr (Or.inr (Or.inr (Or.inr h))))

/-- GLOBAL from LOCAL: a file made of sections that are well-formed one by one and of entities that are well-formed one by
    one satisfies the decidable predicate `FileWF'` all reader theorems start from. -/
theorem fileOf_wf (cfg : Cfg) (m : Nat) (pre post : List Section) (es : List Ent)
    (hcfg : cfgOK cfg = true)
    (hsecs : SecsOK cfg m (pre ++ post))
    (hclosed : EntsClosed cfg es)
    (hgroups : entGroupsOK es = true)
    (htags : ∀ t ∈ flatEnts es, wTagOK cfg m t = true)
    (hpsp : ∀ g ∈ es.flatMap Ent.groups, cfg.pspS g = cfg.psp g)
    (hobj : "AC1009" < verFold (verFold "AC1009" pre) post → ∃ s ∈ pre ++ post, s.name = "OBJECTS") :
    FileWF' cfg m (fileOf pre es post) = true := by
  have hpre_ne : ∀ s ∈ pre, s.name ≠ "ENTITIES" := by
    intro s hs
    have := hsecs.sec s (by simp [hs])
    simp only [secOK, Bool.and_eq_true, bne_iff_ne] at this
    exact this.1.1
  have hgok := groupOK_of_entGroupsOK es hgroups
  have hbodyE := bodyOK_flatEnts es hgroups
  have hbodies : ∀ s ∈ pre ++ ⟨"ENTITIES", flatEnts es⟩ :: post, bodyOK s.body = true := by
    intro s hs
    simp only [List.mem_append, List.mem_cons] at hs
    rcases hs with hs | rfl | hs
    · exact hsecs.body s (by simp [hs])
    · exact hbodyE
    · exact hsecs.body s (by simp [hs])
  have hparse : parseFile (fileOf pre es post) = some (pre ++ ⟨"ENTITIES", flatEnts es⟩ :: post) := by
    unfold fileOf
    -- `parse_render` lives in Props; re-proved here through `parseFile_render`
    exact parseFile_render _ hbodies
  have hcfg' := hcfg
  simp only [cfgOK, Bool.and_eq_true, List.all_cons, List.all_nil, Bool.and_true, beq_iff_eq] at hcfg'
  obtain ⟨⟨⟨hS1, hS2⟩, ⟨hE1, hE2⟩, ⟨hF1, hF2⟩⟩, hman⟩ := hcfg'
  -- every tag of the file: no comment, code-0 values are fixed points of the normalisations
  have hall : ∀ t ∈ fileOf pre es post, t.code ≠ 999 ∧
      (t.code = 0 → cfg.strip t.val = t.val ∧ cfg.upper (cfg.stripB t.val) = t.val) := by
    intro t ht
    rcases mem_fileOf pre post es t ht with ⟨s, hs, h⟩ | h | rfl | rfl | rfl | rfl
    · exact hsecs.tags s hs t h
    · have := htags t h
      simp only [wTagOK, Bool.and_eq_true, decide_eq_true_eq, bne_iff_ne, Bool.or_eq_true, beq_iff_eq] at this
      refine ⟨this.1.2, fun h0 => ?_⟩
      rcases this.2 with h | h
      · exact absurd h0 h
      · exact h
    · exact ⟨by simp [tSECTION], fun _ => ⟨hS1, hS2⟩⟩
    · exact ⟨by simp, fun h => by simp at h⟩
    · exact ⟨by simp [tENDSEC], fun _ => ⟨hE1, hE2⟩⟩
    · exact ⟨by simp [tEOF], fun _ => ⟨hF1, hF2⟩⟩
  unfold FileWF'
  rw [hparse]
  simp only [splitEnt_mk pre post (flatEnts es) hpre_ne]
  have hgt : groupTags (flatEnts es) = es.flatMap Ent.groups := by
    unfold flatEnts; exact groupTags_flatten _ hgok
  simp only [Bool.and_eq_true, List.all_eq_true, beq_iff_eq, Bool.or_eq_true, Bool.not_eq_true',
    decide_eq_false_iff_not, List.any_eq_true, bne_iff_ne]
  refine ⟨⟨⟨⟨⟨⟨⟨⟨⟨?_, ?_⟩, ?_⟩, ?_⟩, ?_⟩, ?_⟩, ?_⟩, ?_⟩, ?_⟩, hman⟩
  · exact fun s hs => hsecs.sec s hs
  · simp only [codesOK, List.all_eq_true, decide_eq_true_eq]
    intro t ht
    have := htags t ht
    simp only [wTagOK, Bool.and_eq_true, decide_eq_true_eq] at this
    exact this.1.1
  · exact fun t ht => (hall t ht).1
  · cases hes : es with
    | nil => simp [flatEnts]
    | cons e r =>
      have hg := hgok e.main (by rw [hes]; simp [Ent.groups])
      cases hm : e.main with
      | nil => rw [hm] at hg; simp [groupOK] at hg
      | cons t ts =>
        rw [hm] at hg
        simp only [groupOK, Bool.and_eq_true, beq_iff_eq] at hg
        simp [flatEnts, Ent.groups, hm, hg.1]
  · rw [hgt]; exact LinkOK_of_closed cfg es hclosed
  · rw [hgt]; exact hpsp
  · rw [version_fileOf]
    by_cases hv : "AC1009" < verFold (verFold "AC1009" pre) post
    · obtain ⟨s, hs, hn⟩ := hobj hv
      exact Or.inr ⟨s, hs, hn⟩
    · exact Or.inl hv
  · exact compile_id cfg _ (fun t ht h0 => ((hall t ht).2 h0).1)
  · exact compileB_id cfg _ (fun t ht h0 => ((hall t ht).2 h0).2)

/-! ## `Drawing.export_sections`: from `DocOK` to `FileWF'` -/

theorem secsOK_of (cfg : Cfg) (m : Nat) (secs : List Section) (hcfg : cfgOK cfg = true)
    (h : ∀ s ∈ secs, wBodyOK cfg m s.body = true ∧ s.name ≠ "ENTITIES" ∧ (s.name = "HEADER" → headerOK s.body = true)) :
    SecsOK cfg m secs := by
  simp only [cfgOK, Bool.and_eq_true, List.all_cons, List.all_nil, Bool.and_true, beq_iff_eq] at hcfg
  obtain ⟨⟨⟨hS1, hS2⟩, ⟨hE1, hE2⟩, _⟩, _⟩ := hcfg
  have hb : ∀ s ∈ secs, bodyOK s.body = true ∧ ∀ t ∈ s.body, wTagOK cfg m t = true := by
    intro s hs
    have := (h s hs).1
    simp only [wBodyOK, Bool.and_eq_true, List.all_eq_true] at this
    exact this
  refine ⟨fun s hs => (hb s hs).1, ?_, ?_⟩
  · intro s hs
    obtain ⟨_, hne, hhdr⟩ := h s hs
    simp only [secOK, Bool.and_eq_true, bne_iff_ne, Bool.or_eq_true, codesOK, List.all_eq_true, decide_eq_true_eq]
    refine ⟨⟨hne, ?_⟩, ?_⟩
    · intro t ht
      have := (hb s hs).2 t ht
      simp only [wTagOK, Bool.and_eq_true, decide_eq_true_eq] at this
      exact this.1.1
    · by_cases hn : s.name = "HEADER"
      · exact Or.inr (hhdr hn)
      · exact Or.inl hn
  · intro s hs t ht
    simp only [renderSec, List.mem_cons, List.mem_append, List.not_mem_nil, or_false] at ht
    rcases ht with rfl | rfl | ht | rfl
    · exact ⟨by simp [tSECTION], fun _ => ⟨hS1, hS2⟩⟩
    · exact ⟨by simp, fun h => by simp at h⟩
    · have := (hb s hs).2 t ht
      simp only [wTagOK, Bool.and_eq_true, decide_eq_true_eq, bne_iff_ne, Bool.or_eq_true, beq_iff_eq] at this
      refine ⟨this.1.2, fun h0 => ?_⟩
      rcases this.2 with h | h
      · exact absurd h0 h
      · exact h
    · exact ⟨by simp [tENDSEC], fun _ => ⟨hE1, hE2⟩⟩

theorem verFold_noheader (v : String) (secs : List Section) (h : ∀ s ∈ secs, s.name ≠ "HEADER") : verFold v secs = v := by
  induction secs generalizing v with
  | nil => rfl
  | cons s r ih =>
    have hs := h s (by simp)
    simp only [verFold, List.foldl_cons, hs, if_false]
    exact ih v (fun x hx => h x (by simp [hx]))

/-- the tag stream of `export_sections` is the file `fileOf pre (msp ++ psp) post` -/
theorem writeDoc_eq (d : DocW) (h : ∀ e ∈ d.msp ++ d.psp, e.exportable = true) :
    writeDoc d = fileOf d.pre (d.msp ++ d.psp) d.post := by
  rw [fileOf_eq, ← flatMap_flat_eq _ h]
  unfold writeDoc DocW.pre DocW.post
  cases d.r12 <;> cases d.acds <;> simp [renderSec, List.flatMap_append]

structure DocFacts (cfg : Cfg) (m : Nat) (d : DocW) : Prop where
  cfgok : cfgOK cfg = true
  m2 : 2 ≤ m
  secs : ∀ s ∈ d.pre ++ d.post,
    wBodyOK cfg m s.body = true ∧ s.name ≠ "ENTITIES" ∧ (s.name = "HEADER" → headerOK s.body = true)
  stored : ∀ s ∈ d.stored, s.name ≠ "HEADER"
  ents : ∀ e ∈ d.msp ++ d.psp, wEntOK cfg m e = true
  ver : d.r12 = true → ¬ "AC1009" < hdrVersion "AC1009" d.header

theorem docFacts (cfg : Cfg) (m : Nat) (d : DocW) (h : DocOK cfg m d = true) : DocFacts cfg m d := by
  simp only [DocOK, Bool.and_eq_true, decide_eq_true_eq, List.all_eq_true, bne_iff_ne, Bool.or_eq_true,
    Bool.not_eq_true', decide_eq_false_iff_not] at h
  obtain ⟨⟨⟨⟨⟨⟨⟨⟨⟨⟨⟨hcfg, hm⟩, hh1⟩, hh2⟩, hcl⟩, htb⟩, hbl⟩, hob⟩, hac⟩, hst⟩, hen⟩, hver⟩ := h
  refine ⟨hcfg, hm, ?_, fun s hs => (hst s hs).2, hen, ?_⟩
  · intro s hs
    simp only [DocW.pre, DocW.post, List.mem_append, List.mem_cons, List.not_mem_nil, or_false] at hs
    rcases hs with (rfl | hs | rfl | rfl) | hs | hs | hs
    · exact ⟨hh1, by simp, fun _ => hh2⟩
    · cases hr : d.r12 <;> simp only [hr, Bool.false_eq_true, if_false, if_true, List.mem_cons, List.not_mem_nil, or_false] at hs
      subst hs; exact ⟨hcl, by simp, fun h => by simp at h⟩
    · exact ⟨htb, by simp, fun h => by simp at h⟩
    · exact ⟨hbl, by simp, fun h => by simp at h⟩
    · cases hr : d.r12 <;> simp only [hr, Bool.false_eq_true, if_false, if_true, List.mem_cons, List.not_mem_nil, or_false] at hs
      subst hs; exact ⟨hob, by simp, fun h => by simp at h⟩
    · cases ha : d.acds with
      | none => simp [ha] at hs
      | some a =>
        simp only [ha, List.mem_cons, List.not_mem_nil, or_false] at hs hac
        subst hs; exact ⟨hac, by simp, fun h => by simp at h⟩
    · have := hst s hs
      exact ⟨this.1.1, this.1.2, fun h => absurd h this.2⟩
  · intro hr
    rcases hver with h | h
    · rw [hr] at h; simp at h
    · exact h

theorem version_doc (cfg : Cfg) (m : Nat) (d : DocW) (hf : DocFacts cfg m d) :
    verFold (verFold "AC1009" d.pre) d.post = hdrVersion "AC1009" d.header := by
  have h1 : verFold "AC1009" d.pre = hdrVersion "AC1009" d.header := by
    unfold DocW.pre
    cases d.r12 <;> simp [verFold]
  rw [h1]
  apply verFold_noheader
  intro s hs
  simp only [DocW.post, List.mem_append] at hs
  rcases hs with hs | hs | hs
  · cases hr : d.r12 <;> simp [hr] at hs
    subst hs; simp
  · cases ha : d.acds with
    | none => simp [ha] at hs
    | some a => simp [ha] at hs; subst hs; simp
  · exact hf.stored s hs

theorem wEnt_facts (cfg : Cfg) (m : Nat) (e : Ent) (h : wEntOK cfg m e = true) :
    entWF cfg e = true ∧ e.isOpen cfg = false ∧ e.exportable = true ∧
    ∀ g ∈ e.groups, (groupOK g && dxftype g != "SECTION" && dxftype g != "ENDSEC" && dxftype g != "EOF") = true ∧
      (∀ t ∈ g, wTagOK cfg m t = true) ∧ cfg.pspS g = cfg.psp g := by
  simp only [wEntOK, Bool.and_eq_true, Bool.not_eq_true', List.all_eq_true, beq_iff_eq] at h
  obtain ⟨⟨⟨h1, h2⟩, h3⟩, h4⟩ := h
  refine ⟨h1, h2, h3, fun g hg => ?_⟩
  have := h4 g hg
  exact ⟨by simp only [Bool.and_eq_true]; exact this.1.1, this.1.2, this.2⟩

theorem docEnts_groups (cfg : Cfg) (m : Nat) (d : DocW) (hf : DocFacts cfg m d) : entGroupsOK (d.msp ++ d.psp) = true := by
  rw [entGroupsOK_iff]
  intro g hg
  obtain ⟨e, he, hge⟩ := List.mem_flatMap.mp hg
  exact ((wEnt_facts cfg m e (hf.ents e he)).2.2.2 g hge).1

/-- `writers_wf` for `Drawing.write`: LOCAL conditions on the records imply the GLOBAL well-formedness of the stream -/
theorem writeDoc_wf (cfg : Cfg) (m : Nat) (d : DocW) (h : DocOK cfg m d = true) : FileWF' cfg m (writeDoc d) = true := by
  have hf := docFacts cfg m d h
  have hexp : ∀ e ∈ d.msp ++ d.psp, e.exportable = true := fun e he => (wEnt_facts cfg m e (hf.ents e he)).2.2.1
  rw [writeDoc_eq d hexp]
  apply fileOf_wf cfg m d.pre d.post (d.msp ++ d.psp) hf.cfgok (secsOK_of cfg m _ hf.cfgok hf.secs)
  · exact fun e he => ⟨(wEnt_facts cfg m e (hf.ents e he)).1, (wEnt_facts cfg m e (hf.ents e he)).2.1⟩
  · exact docEnts_groups cfg m d hf
  · intro t ht
    simp only [flatEnts, List.mem_flatten, List.mem_flatMap] at ht
    obtain ⟨g, ⟨e, he, hge⟩, htg⟩ := ht
    exact ((wEnt_facts cfg m e (hf.ents e he)).2.2.2 g hge).2.1 t htg
  · intro g hg
    obtain ⟨e, he, hge⟩ := List.mem_flatMap.mp hg
    exact ((wEnt_facts cfg m e (hf.ents e he)).2.2.2 g hge).2.2
  · rw [version_doc cfg m d hf]
    intro hv
    have hr : d.r12 = false := by
      cases hr : d.r12 with
      | false => rfl
      | true => exact absurd hv (hf.ver hr)
    exact ⟨⟨"OBJECTS", d.objects⟩, by simp [DocW.post, hr], rfl⟩

/-- the Spec's modelspace of the written stream is the document's entity space, filtered -/
theorem spec_writeDoc (cfg : Cfg) (m : Nat) (d : DocW) (h : DocOK cfg m d = true) :
    Spec.ofFile cfg (writeDoc d) =
      (d.msp ++ d.psp).filter (fun e => cfg.req (dxftype e.main) && !cfg.psp e.main) := by
  have hf := docFacts cfg m d h
  have hexp : ∀ e ∈ d.msp ++ d.psp, e.exportable = true := fun e he => (wEnt_facts cfg m e (hf.ents e he)).2.2.1
  have hsecs := secsOK_of cfg m _ hf.cfgok hf.secs
  have hpre_ne : ∀ s ∈ d.pre, s.name ≠ "ENTITIES" := fun s hs => (hf.secs s (by simp [hs])).2.1
  have hgroups := docEnts_groups cfg m d hf
  have hgok := groupOK_of_entGroupsOK _ hgroups
  have hp2 : parseFile (fileOf d.pre (d.msp ++ d.psp) d.post) =
      some (d.pre ++ ⟨"ENTITIES", flatEnts (d.msp ++ d.psp)⟩ :: d.post) := by
    unfold fileOf
    apply parseFile_render
    intro s hs
    simp only [List.mem_append, List.mem_cons] at hs
    rcases hs with hs | rfl | hs
    · exact hsecs.body s (by simp [hs])
    · exact bodyOK_flatEnts _ hgroups
    · exact hsecs.body s (by simp [hs])
  rw [writeDoc_eq d hexp]
  simp only [Spec.ofFile, hp2, Spec.modelspace, Spec.entities, specBody_fileOf d.pre d.post _ hpre_ne]
  unfold flatEnts
  rw [groupTags_flatten _ hgok, link_flatten cfg _ (EntsWF_of_closed cfg _ (fun e he =>
    ⟨(wEnt_facts cfg m e (hf.ents e he)).1, (wEnt_facts cfg m e (hf.ents e he)).2.1⟩))]

end EzdxfVerif.Readers

/-
Property C02, session 3: load -> save of a tag storage entity is a projection.  For EVERY tag list `t` that the loader accepts
(not only `EntityWF` ones) the output `u` of the first cycle is a fixed point: `roundtrip alive u = .ok u`.

Plan: `Loaded e` is an invariant of every result of `load`; for a `Loaded` entity the exported tag list is re-read into an
entity that differs from `e` only in normalised fields (handle / owner present, extension dictionary resolved, reactors sorted),
and that entity exports to the same tag list.
-/
import EzdxfVerif.Lemmas.Storage

namespace EzdxfVerif.Storage
open EzdxfVerif.XTags
open EzdxfVerif.Gen.StorageTables

/-! ## `collectBase` on a base class given as chunks -/

inductive Chunk where
  | plain (t : Tag)
  | group (st : Tag) (body : List Tag) (c : Tag)

def Chunk.tags : Chunk → List Tag
  | .plain t => [t]
  | .group st body c => st :: (body ++ [c])

def Chunk.Ok : Chunk → Prop
  | .plain t => isAppStart t = false ∧ isEndOfClass t = false
  | .group st body c => isAppStart st = true ∧ isAppClose st c = true ∧ ∀ b ∈ body, isAppClose st b = false

def encC (n : Nat) : List Chunk → List Tag
  | [] => []
  | .plain t :: r => t :: encC n r
  | .group st _ _ :: r => ⟨st.code, .ref n⟩ :: encC (n + 1) r

def grpC : List Chunk → List (List Tag)
  | [] => []
  | .plain _ :: r => grpC r
  | .group st b c :: r => (st :: (b ++ [c])) :: grpC r

theorem collectBase_pending (st c : Tag) (body g rest base : List Tag) (apps : List (List Tag))
    (hb : ∀ b ∈ body, isAppClose st b = false) (hc : isAppClose st c = true) :
    collectBase (body ++ c :: rest) base apps (some (st, g)) = collectBase rest base (apps ++ [g ++ body ++ [c]]) none := by
  induction body generalizing g with
  | nil => simp [collectBase, hc]
  | cons b r ih =>
    have h1 : isAppClose st b = false := hb b List.mem_cons_self
    simp only [List.cons_append, collectBase, h1, Bool.false_eq_true, if_false]
    rw [ih (g ++ [b]) (fun x hx => hb x (List.mem_cons_of_mem _ hx))]
    simp [List.append_assoc]

theorem collectBase_chunks (cs : List Chunk) (rest base : List Tag) (apps : List (List Tag))
    (hcs : ∀ c ∈ cs, c.Ok) (hrest : HeadEnd rest) :
    collectBase (cs.flatMap Chunk.tags ++ rest) base apps none
      = some (base ++ encC apps.length cs, apps ++ grpC cs, rest) := by
  induction cs generalizing base apps with
  | nil =>
    simp only [List.flatMap_nil, List.nil_append, encC, grpC, List.append_nil]
    rcases hrest with rfl | ⟨h, tl, rfl, he⟩
    · simp [collectBase]
    · have hns : isAppStart h = false := by
        have := isEndOfClass_code he
        simp only [isAppStart, Bool.and_eq_false_iff, beq_eq_false_iff_ne, ne_eq]
        left; omega
      simp [collectBase, hns, he]
  | cons c r ih =>
    have hr : ∀ x ∈ r, x.Ok := fun x hx => hcs x (List.mem_cons_of_mem _ hx)
    have hc := hcs c List.mem_cons_self
    cases c with
    | plain t =>
      obtain ⟨h1, h2⟩ := hc
      simp only [List.flatMap_cons, Chunk.tags, List.cons_append, List.nil_append, collectBase, h1, h2,
        Bool.false_eq_true, if_false]
      rw [ih (base ++ [t]) apps hr]
      simp [encC, grpC, List.append_assoc]
    | group st body cl =>
      obtain ⟨h1, h2, h3⟩ := hc
      simp only [List.flatMap_cons, Chunk.tags, List.cons_append, List.append_assoc, collectBase, h1, if_true]
      rw [collectBase_pending st cl body [st] _ _ _ h3 h2]
      simp only [List.nil_append]
      rw [ih _ _ hr]
      simp [encC, grpC, List.append_assoc]

/-- every application-data group that `collectBase` collects is closed: start tag, content without closing tag, closing tag -/
theorem collectBase_groups (ts base : List Tag) (apps : List (List Tag)) (cur : Option (Tag × List Tag))
    (b r : List Tag) (a : List (List Tag))
    (h : collectBase ts base apps cur = some (b, a, r))
    (hap : ∀ g ∈ apps, GroupShape g)
    (hcur : ∀ st g, cur = some (st, g) → ∃ mid, g = st :: mid ∧ isAppStart st = true ∧ ∀ t ∈ mid, isAppClose st t = false) :
    ∀ g ∈ a, GroupShape g := by
  induction ts generalizing base apps cur with
  | nil =>
    cases cur with
    | none =>
      simp only [collectBase, Option.some.injEq, Prod.mk.injEq] at h
      obtain ⟨_, rfl, _⟩ := h
      exact hap
    | some c => simp [collectBase] at h
  | cons t ts ih =>
    cases cur with
    | some c =>
      obtain ⟨st, g⟩ := c
      obtain ⟨mid, rfl, hst, hmid⟩ := hcur st g rfl
      simp only [collectBase] at h
      split at h
      · rename_i hcl
        refine ih _ _ _ h ?_ (by intro st g hc; cases hc)
        intro x hx
        rcases List.mem_append.mp hx with hx | hx
        · exact hap x hx
        · simp only [List.mem_singleton] at hx
          subst hx
          exact ⟨st, mid, t, by simp, hst, hcl, hmid⟩
      · rename_i hcl
        refine ih _ _ _ h hap ?_
        intro st' g' hc
        simp only [Option.some.injEq, Prod.mk.injEq] at hc
        obtain ⟨rfl, rfl⟩ := hc
        refine ⟨mid ++ [t], by simp, hst, ?_⟩
        intro x hx
        rcases List.mem_append.mp hx with hx | hx
        · exact hmid x hx
        · simp only [List.mem_singleton] at hx; subst hx; simpa using hcl
    | none =>
      simp only [collectBase] at h
      split at h
      · rename_i hs
        refine ih _ _ _ h hap ?_
        intro st' g' hc
        simp only [Option.some.injEq, Prod.mk.injEq] at hc
        obtain ⟨rfl, rfl⟩ := hc
        exact ⟨[], rfl, hs, by simp⟩
      · split at h
        · simp only [Option.some.injEq, Prod.mk.injEq] at h
          obtain ⟨_, rfl, _⟩ := h
          exact hap
        · exact ih _ _ _ h hap (by intro st g hc; cases hc)

/-! ## `collectGroups`: shape of the groups, and re-reading a flattened group list -/

theorem mem_takeWhile_true (p : Tag → Bool) (l : List Tag) (x : Tag) (h : x ∈ l.takeWhile p) : p x = true := by
  induction l with
  | nil => simp at h
  | cons a r ih =>
    simp only [List.takeWhile] at h
    split at h
    · rename_i ha
      rcases List.mem_cons.mp h with rfl | h
      · exact ha
      · exact ih h
    · simp at h

theorem collectGroups_shape (s p : Tag → Bool) (ts : List Tag) :
    ∀ g ∈ (collectGroups s p ts).1, ∃ t r, g = t :: r ∧ s t = true ∧ ∀ x ∈ r, p x = false := by
  fun_induction collectGroups s p ts with
  | case1 => simp
  | case2 t r hs g ih =>
    intro x hx
    simp only [List.mem_cons] at hx
    rcases hx with rfl | hx
    · refine ⟨t, _, rfl, hs, ?_⟩
      intro y hy
      have := mem_takeWhile_true _ _ _ hy
      simpa using this
    · exact ih x hx
  | case3 t r hs => simp

theorem takeWhile_prefix (p : Tag → Bool) (r tail : List Tag) (hr : ∀ x ∈ r, p x = false)
    (ht : tail = [] ∨ ∃ h tl, tail = h :: tl ∧ p h = true) :
    (r ++ tail).takeWhile (fun x => !p x) = r ∧ (r ++ tail).dropWhile (fun x => !p x) = tail := by
  induction r with
  | nil =>
    rcases ht with rfl | ⟨h, tl, rfl, hp⟩
    · simp
    · simp [hp]
  | cons a r ih =>
    have ha : p a = false := hr a List.mem_cons_self
    obtain ⟨i1, i2⟩ := ih (fun x hx => hr x (List.mem_cons_of_mem _ hx))
    simp [ha, i1, i2]

theorem collectGroups_rebuild (s p : Tag → Bool) (hsp : ∀ t, s t = true → p t = true) (gs : List (List Tag))
    (hg : ∀ g ∈ gs, ∃ t r, g = t :: r ∧ s t = true ∧ ∀ x ∈ r, p x = false) (rest : List Tag)
    (hr : rest = [] ∨ ∃ h tl, rest = h :: tl ∧ p h = true ∧ s h = false) :
    collectGroups s p (gs.flatten ++ rest) = (gs, rest) := by
  induction gs with
  | nil =>
    simp only [List.flatten_nil, List.nil_append]
    rcases hr with rfl | ⟨h, tl, rfl, _, hs⟩
    · simp [collectGroups]
    · rw [collectGroups]; simp [hs]
  | cons g gs ih =>
    obtain ⟨t, r, rfl, hst, hrr⟩ := hg _ List.mem_cons_self
    have ih' := ih (fun x hx => hg x (List.mem_cons_of_mem _ hx))
    have htail : (gs.flatten ++ rest) = [] ∨ ∃ h tl, (gs.flatten ++ rest) = h :: tl ∧ p h = true := by
      cases gs with
      | nil =>
        rcases hr with rfl | ⟨h, tl, rfl, hp, _⟩
        · exact Or.inl rfl
        · exact Or.inr ⟨h, tl, rfl, hp⟩
      | cons g2 gs2 =>
        obtain ⟨t2, r2, rfl, hst2, _⟩ := hg _ (List.mem_cons_of_mem _ List.mem_cons_self)
        exact Or.inr ⟨t2, r2 ++ (gs2.flatten ++ rest), by simp, hsp t2 hst2⟩
    obtain ⟨e1, e2⟩ := takeWhile_prefix p r (gs.flatten ++ rest) hrr htail
    have hl : ((t :: r) :: gs).flatten ++ rest = t :: (r ++ (gs.flatten ++ rest)) := by simp
    rw [hl, collectGroups]
    simp only [hst, if_true, e1, e2, ih']

/-! ## the invariant of every loaded entity -/

/-- an `AppData` entry: the group as read, plus the (102, "}") that `AppData.add` appends behind an alternative closing tag -/
def AppShape (k : V) (g : List Tag) : Prop :=
  ∃ st body c, isAppStart st = true ∧ st.val = k ∧ k ≠ .str acadReactors ∧ k ≠ .str acadXDictionary
    ∧ (∀ b ∈ body, isAppClose st b = false) ∧ isAppClose st c = true
    ∧ ((c = closeBrace ∧ g = st :: (body ++ [c])) ∨ (c ≠ closeBrace ∧ g = st :: (body ++ [c, closeBrace])))

structure ADInv (a : AD) : Prop where
  app : ∀ p ∈ a.appdata, AppShape p.1 p.2
  keys : (a.appdata.map (·.1)).Nodup
  react : ∀ rs, a.reactors = some rs → rs.Nodup

structure Loaded (e : Ent) : Prop where
  app : ∀ p ∈ e.appdata, AppShape p.1 p.2
  appKeys : (e.appdata.map (·.1)).Nodup
  react : ∀ rs, e.reactors = some rs → rs.Nodup
  subs : ∀ g ∈ e.subs, ∃ m r, g = m :: r ∧ (m.code == 100) = true ∧ ∀ x ∈ r, isEndOfClass x = false
  emb : ∀ g ∈ e.embedded, ∃ m r, g = m :: r ∧ isEO m = true ∧ ∀ x ∈ r, (isEO x || x.code == 1001) = false
  xd : ∀ p ∈ e.xdata, ∃ m r, p.2 = m :: r ∧ (m.code == 1001) = true ∧ m.val = p.1
        ∧ ∀ x ∈ r, validX x = true ∧ (x.code == 1001) = false
  xdKeys : (e.xdata.map (·.1)).Nodup

theorem dictSet_nodup {β : Type} (d : List (V × β)) (k : V) (v : β) (h : (d.map (·.1)).Nodup) :
    ((dictSet d k v).map (·.1)).Nodup := by
  simp only [dictSet]
  split
  · have : (d.map (fun p => if p.1 == k then (k, v) else p)).map (·.1) = d.map (·.1) := by
      simp only [List.map_map]
      apply List.map_congr_left
      intro p _
      simp only [Function.comp]
      split
      · rename_i hp; simpa using (beq_iff_eq.mp hp).symm
      · rfl
    rw [this]; exact h
  · rename_i hk
    simp only [List.map_append, List.map_cons, List.map_nil]
    rw [List.nodup_append]
    refine ⟨h, by simp, ?_⟩
    intro a ha b hb
    simp only [List.mem_singleton] at hb
    subst hb
    intro e
    subst e
    apply hk
    simp only [List.any_eq_true, beq_iff_eq]
    obtain ⟨p, hp, e⟩ := List.mem_map.mp ha
    exact ⟨p, hp, e⟩

theorem mem_dictSet {β : Type} (d : List (V × β)) (k : V) (v : β) (p : V × β) (h : p ∈ dictSet d k v) :
    p = (k, v) ∨ p ∈ d := by
  simp only [dictSet] at h
  split at h
  · obtain ⟨q, hq, rfl⟩ := List.mem_map.mp h
    split
    · exact Or.inl rfl
    · exact Or.inr hq
  · rcases List.mem_append.mp h with h | h
    · exact Or.inr h
    · simp only [List.mem_singleton] at h; exact Or.inl h

theorem dedup_nodup (l : List V) : (dedup l).Nodup := by
  induction l with
  | nil => exact List.nodup_nil
  | cons a r ih =>
    simp only [dedup, List.nodup_cons]
    refine ⟨?_, ih.filter _⟩
    intro hm
    have := (List.mem_filter.mp hm).2
    simp at this

theorem setupAppStep_inv (a a' : AD) (g : List Tag) (hg : GroupShape g) (ha : ADInv a)
    (h : setupAppStep a g = .ok a') : ADInv a' := by
  obtain ⟨st, mid, c, rfl, hst, hc, hmid⟩ := hg
  simp only [setupAppStep] at h
  split at h
  · simp only [Except.ok.injEq] at h
    subst h
    exact ⟨ha.app, ha.keys, by intro rs hrs; simp only [Option.some.injEq] at hrs; subst hrs; exact dedup_nodup _⟩
  · rename_i hnr
    split at h
    · split at h
      · split at h
        · simp only [Except.ok.injEq] at h; subst h; exact ⟨ha.app, ha.keys, ha.react⟩
        · cases h
      · cases h
    · rename_i hnx
      simp only [Except.ok.injEq] at h
      subst h
      have hlast : (st :: (mid ++ [c])).getLast? = some c := by
        rw [← List.cons_append, List.getLast?_append]; simp
      refine ⟨?_, dictSet_nodup _ _ _ ha.keys, ha.react⟩
      intro p hp
      rcases mem_dictSet _ _ _ p hp with rfl | hp
      · refine ⟨st, mid, c, hst, rfl, ?_, ?_, hmid, hc, ?_⟩
        · intro e; simp only at e; exact hnr (by rw [e]; simp)
        · intro e; simp only at e; exact hnx (by rw [e]; simp)
        · simp only [hlast]
          by_cases hcc : c = closeBrace
          · left; subst hcc; simp
          · right
            have : (some c == some closeBrace) = false := by simpa using hcc
            simp only [this, Bool.false_eq_true, if_false]
            exact ⟨hcc, by simp⟩
      · exact ha.app p hp

theorem setupApp_inv (gs : List (List Tag)) (a a' : AD) (hg : ∀ g ∈ gs, GroupShape g) (ha : ADInv a)
    (h : setupApp gs a = .ok a') : ADInv a' := by
  induction gs generalizing a with
  | nil => simp only [setupApp, Except.ok.injEq] at h; subst h; exact ha
  | cons g r ih =>
    simp only [setupApp] at h
    split at h
    · rename_i a1 h1
      exact ih a1 (fun x hx => hg x (List.mem_cons_of_mem _ hx))
        (setupAppStep_inv a a1 g (hg g List.mem_cons_self) ha h1) h
    · cases h

theorem validX_1001 (m : Tag) (h : (m.code == 1001) = true) : validX m = true := by
  have : m.code = 1001 := by simpa using h
  simp only [validX, this]
  decide

structure XDInv (d : List (V × List Tag)) : Prop where
  xd : ∀ p ∈ d, ∃ m r, p.2 = m :: r ∧ (m.code == 1001) = true ∧ m.val = p.1
        ∧ ∀ x ∈ r, validX x = true ∧ (x.code == 1001) = false
  keys : (d.map (·.1)).Nodup

theorem xdataLoad_inv (gs : List (List Tag)) (d : List (V × List Tag))
    (hg : ∀ g ∈ gs, ∃ t r, g = t :: r ∧ (t.code == 1001) = true ∧ ∀ x ∈ r, (x.code == 1001) = false)
    (hd : XDInv d) : XDInv (xdataLoad gs d) := by
  induction gs generalizing d with
  | nil => exact hd
  | cons g r ih =>
    obtain ⟨m, tl, rfl, hm, htl⟩ := hg _ List.mem_cons_self
    have hf : (m :: tl).filter validX = m :: tl.filter validX := by
      simp only [List.filter_cons, validX_1001 m hm, if_true]
    simp only [xdataLoad, hf]
    apply ih _ (fun x hx => hg x (List.mem_cons_of_mem _ hx))
    refine ⟨?_, dictSet_nodup _ _ _ hd.keys⟩
    intro p hp
    rcases mem_dictSet _ _ _ p hp with rfl | hp
    · refine ⟨m, tl.filter validX, rfl, hm, rfl, ?_⟩
      intro x hx
      obtain ⟨hx1, hx2⟩ := List.mem_filter.mp hx
      exact ⟨hx2, htl x hx1⟩
    · exact hd.xd p hp

theorem load_loaded (t : List Tag) (e : Ent) (h : load t = .ok e) : Loaded e := by
  simp only [load] at h
  split at h
  · cases h
  · cases h
  · rename_i x hx
    split at h
    · cases h
    · cases h
    · rename_i t0 base subs hsub
      split at h
      · cases h
      · rename_i ad had
        simp only [Except.ok.injEq] at h
        subst h
        -- unfold `setup`
        simp only [setup] at hx
        split at hx
        · cases hx
        · rename_i b apps r1 hcb
          split at hx
          · simp only [Except.ok.injEq] at hx
            subst hx
            simp only [List.cons.injEq] at hsub
            obtain ⟨_, rfl⟩ := hsub
            have hgs := collectBase_groups t [] [] none b r1 apps hcb (by simp) (by intro st g hc; cases hc)
            have hinv := setupApp_inv apps ⟨[], none, none⟩ ad hgs
              ⟨by simp, by simp, by intro rs hrs; cases hrs⟩ had
            have hxd := xdataLoad_inv
              (collectGroups (fun t => t.code == 1001) (fun t => t.code == 1001)
                (collectGroups isEO (fun t => isEO t || t.code == 1001)
                  (collectGroups (fun t => t.code == 100) isEndOfClass r1).2).2).1 []
              (collectGroups_shape _ _ _) ⟨by simp, by simp⟩
            exact ⟨hinv.app, hinv.keys, hinv.react, collectGroups_shape _ _ _, collectGroups_shape _ _ _, hxd.xd, hxd.keys⟩
          · cases hx

/-! ## re-reading what `exportEnt` wrote -/

theorem encC_append_plain (n : Nat) (cs : List Chunk) (t : Tag) : encC n (cs ++ [.plain t]) = encC n cs ++ [t] := by
  induction cs generalizing n with
  | nil => rfl
  | cons c r ih => cases c <;> simp [encC, ih]

theorem grpC_append (a b : List Chunk) : grpC (a ++ b) = grpC a ++ grpC b := by
  induction a with
  | nil => rfl
  | cons c r ih => cases c <;> simp [grpC, ih]

/-- chunks whose placeholders / plain tags all have group code 102 -/
def Chunk.is102 : Chunk → Prop
  | .plain t => t.code = 102
  | .group st _ _ => st.code = 102

theorem encC_codes (n : Nat) (cs : List Chunk) (h : ∀ c ∈ cs, c.is102) : ∀ t ∈ encC n cs, t.code = 102 := by
  induction cs generalizing n with
  | nil => simp [encC]
  | cons c r ih =>
    have hc := h c List.mem_cons_self
    have hr := fun x hx => h x (List.mem_cons_of_mem _ hx)
    cases c with
    | plain t =>
      intro x hx
      simp only [encC, List.mem_cons] at hx
      rcases hx with rfl | hx
      · exact hc
      · exact ih n hr x hx
    | group st b c =>
      intro x hx
      simp only [encC, List.mem_cons] at hx
      rcases hx with rfl | hx
      · exact hc
      · exact ih (n + 1) hr x hx

/-- the re-collected groups correspond to the `AppData` entries: same key, and `AppData.add` rebuilds the same value -/
def AppMatch (p : V × List Tag) (g : List Tag) : Prop :=
  ∃ st body, g = st :: body ∧ st.val = p.1 ∧ p.1 ≠ .str acadReactors ∧ p.1 ≠ .str acadXDictionary
    ∧ (if g.getLast? == some closeBrace then g else g ++ [closeBrace]) = p.2

inductive AppMatchL : List (V × List Tag) → List (List Tag) → Prop where
  | nil : AppMatchL [] []
  | cons {p g A gs} : AppMatch p g → AppMatchL A gs → AppMatchL (p :: A) (g :: gs)

theorem closeBrace_plain_ok : (Chunk.plain closeBrace).Ok := by
  constructor <;> decide

theorem app_chunks (A : List (V × List Tag)) (hA : ∀ p ∈ A, AppShape p.1 p.2) :
    ∃ cs : List Chunk, (∀ c ∈ cs, c.Ok) ∧ (∀ c ∈ cs, c.is102) ∧ cs.flatMap Chunk.tags = (A.map (·.2)).flatten
      ∧ AppMatchL A (grpC cs) := by
  induction A with
  | nil => exact ⟨[], by simp, by simp, rfl, AppMatchL.nil⟩
  | cons p r ih =>
    obtain ⟨cs, h1, h2, h3, h4⟩ := ih (fun x hx => hA x (List.mem_cons_of_mem _ hx))
    obtain ⟨st, body, c, hst, hk, hnr, hnx, hbody, hc, hcase⟩ := hA p List.mem_cons_self
    have hst102 : st.code = 102 := isAppStart_code hst
    have hlast : (st :: (body ++ [c])).getLast? = some c := by
      rw [← List.cons_append, List.getLast?_append]; simp
    rcases hcase with ⟨hcb, hg⟩ | ⟨hcb, hg⟩
    · refine ⟨.group st body c :: cs, ?_, ?_, ?_, ?_⟩
      · intro x hx
        rcases List.mem_cons.mp hx with rfl | hx
        · exact ⟨hst, hc, hbody⟩
        · exact h1 x hx
      · intro x hx
        rcases List.mem_cons.mp hx with rfl | hx
        · exact hst102
        · exact h2 x hx
      · simp only [List.flatMap_cons, Chunk.tags, List.map_cons, List.flatten_cons, h3, hg]
      · simp only [grpC]
        refine AppMatchL.cons ⟨st, body ++ [c], rfl, hk, hnr, hnx, ?_⟩ h4
        rw [hlast, hg]
        subst hcb
        simp
    · refine ⟨.group st body c :: .plain closeBrace :: cs, ?_, ?_, ?_, ?_⟩
      · intro x hx
        rcases List.mem_cons.mp hx with rfl | hx
        · exact ⟨hst, hc, hbody⟩
        · rcases List.mem_cons.mp hx with rfl | hx
          · exact closeBrace_plain_ok
          · exact h1 x hx
      · intro x hx
        rcases List.mem_cons.mp hx with rfl | hx
        · exact hst102
        · rcases List.mem_cons.mp hx with rfl | hx
          · rfl
          · exact h2 x hx
      · simp only [List.flatMap_cons, Chunk.tags, List.map_cons, List.flatten_cons, h3, hg]
        simp
      · simp only [grpC]
        refine AppMatchL.cons ⟨st, body ++ [c], rfl, hk, hnr, hnx, ?_⟩ h4
        have : (some c == some closeBrace) = false := by simpa using hcb
        simp only [hlast, this, Bool.false_eq_true, if_false, hg]
        simp

theorem setupApp_append (a b : List (List Tag)) (s : AD) :
    setupApp (a ++ b) s = (match setupApp a s with | .ok s' => setupApp b s' | .error e => .error e) := by
  induction a generalizing s with
  | nil => rfl
  | cons g r ih =>
    simp only [List.cons_append, setupApp]
    cases setupAppStep s g with
    | error e => rfl
    | ok s' => exact ih s'

theorem setupApp_match (A : List (V × List Tag)) (gs : List (List Tag)) (s : AD) (hm : AppMatchL A gs)
    (hk : (s.appdata.map (·.1) ++ A.map (·.1)).Nodup) :
    setupApp gs s = .ok { s with appdata := s.appdata ++ A } := by
  induction hm generalizing s with
  | nil => simp [setupApp]
  | cons hpg _ ih =>
    rename_i p g A' gs'
    obtain ⟨st, body, rfl, hk1, hnr, hnx, hdata⟩ := hpg
    have e1 : (st.val == V.str acadReactors) = false := by rw [hk1]; simpa using hnr
    have e2 : (st.val == V.str acadXDictionary) = false := by rw [hk1]; simpa using hnx
    have hfresh : st.val ∉ s.appdata.map (·.1) := by
      intro hmem
      rw [List.nodup_append] at hk
      exact hk.2.2 _ hmem _ (by simp [hk1]) rfl
    simp only [setupApp, setupAppStep, e1, e2, Bool.false_eq_true, if_false, hdata, dictSet_fresh _ _ _ hfresh]
    rw [ih]
    · simp [hk1, List.append_assoc]
    · simpa [hk1, List.append_assoc] using hk

theorem scanHO_skip (hc : Nat) (mid rest : List Tag) (h o : Option V) (hm : ∀ t ∈ mid, t.code = 102) (h5 : hc ≠ 102) :
    scanHO hc (mid ++ rest) h o = scanHO hc rest h o := by
  induction mid with
  | nil => rfl
  | cons t r ih =>
    have ht : t.code = 102 := hm t List.mem_cons_self
    have e1 : (t.code == hc) = false := by rw [ht]; simpa using (Ne.symm h5)
    have e2 : (t.code == 330) = false := by rw [ht]; decide
    simp only [List.cons_append, scanHO, e1, e2, Bool.false_eq_true, if_false]
    exact ih (fun x hx => hm x (List.mem_cons_of_mem _ hx))


/-- reactor handles after loading have pairwise different numeric values (CPython orders equal keys of a set by hash: excluded) -/
def tieFree (e : Ent) : Bool :=
  match e.reactors with
  | some rs => nodupN (rs.map (fun v => (hexKeyV v).getD 0))
  | none => true

def rKey (v : V) : Nat := (hexKeyV v).getD 0

/-- the reactors as they are read back: sorted, `None` when nothing was written -/
def reactorsNF : Option (List V) → Option (List V)
  | some (x :: xs) => some (isort rKey (x :: xs))
  | _ => none

theorem isort_idem (rs : List V) (hn : (rs.map rKey).Nodup) : isort rKey (isort rKey rs) = isort rKey rs := by
  apply isort_ascending
  apply ascending_of_sorted_nodup _ (isort_sorted rKey rs)
  exact (((isort_perm rKey rs).map rKey).nodup_iff).mpr hn

theorem reactors_chunks (ro : Option (List V)) (re : List Tag) (hre : reactorsPart ro = .ok re)
    (hnd : ∀ rs, ro = some rs → rs.Nodup) (htie : ∀ rs, ro = some rs → (rs.map rKey).Nodup) :
    ∃ cs : List Chunk, (∀ c ∈ cs, c.Ok) ∧ (∀ c ∈ cs, c.is102) ∧ cs.flatMap Chunk.tags = re
      ∧ (∀ s : AD, setupApp (grpC cs) s = .ok { s with reactors := (reactorsNF ro).or s.reactors })
      ∧ reactorsPart (reactorsNF ro) = .ok re := by
  match ro, hre, hnd, htie with
  | none, hre, _, _ =>
    simp only [reactorsPart, Except.ok.injEq] at hre
    subst hre
    exact ⟨[], by simp, by simp, rfl, by intro s; simp [grpC, setupApp, reactorsNF], rfl⟩
  | some [], hre, _, _ =>
    simp only [reactorsPart, Except.ok.injEq] at hre
    subst hre
    exact ⟨[], by simp, by simp, rfl, by intro s; simp [grpC, setupApp, reactorsNF], rfl⟩
  | some (x :: xs), hre, hnd, htie =>
    have hnd' := hnd _ rfl
    have htie' := htie _ rfl
    simp only [reactorsPart, reactorsOut] at hre
    split at hre
    · rename_i hall
      simp only [Except.ok.injEq] at hre
      subst hre
      have hsnd : (isort rKey (x :: xs)).Nodup := ((isort_perm rKey (x :: xs)).nodup_iff).mpr hnd'
      have hst : isAppStart ⟨appDataMarker, .str acadReactors⟩ = true := by decide
      have hbody : ∀ b ∈ (isort rKey (x :: xs)).map (fun v => (⟨reactorHandleCode, v⟩ : Tag)),
          isAppClose ⟨appDataMarker, .str acadReactors⟩ b = false := by
        intro b hb
        obtain ⟨v, _, rfl⟩ := List.mem_map.mp hb
        simp [isAppClose, reactorHandleCode]
      refine ⟨[.group ⟨appDataMarker, .str acadReactors⟩ ((isort rKey (x :: xs)).map (fun v => ⟨reactorHandleCode, v⟩)) closeBrace],
        ?_, ?_, ?_, ?_, ?_⟩
      · intro c hc
        simp only [List.mem_singleton] at hc
        subst hc
        exact ⟨hst, by decide, hbody⟩
      · intro c hc
        simp only [List.mem_singleton] at hc
        subst hc
        rfl
      · simp [Chunk.tags]
        rfl
      · intro s
        have hdl : (((isort rKey (x :: xs)).map (fun v => (⟨reactorHandleCode, v⟩ : Tag))) ++ [closeBrace]).dropLast
            = (isort rKey (x :: xs)).map (fun v => (⟨reactorHandleCode, v⟩ : Tag)) := by simp
        have hded : dedup (isort rKey (x :: xs)) = isort rKey (x :: xs) :=
          dedup_of_nodup_map rKey _ ((((isort_perm rKey (x :: xs)).map rKey).nodup_iff).mpr htie')
        have hvals : ((isort rKey (x :: xs)).map (fun v => (⟨reactorHandleCode, v⟩ : Tag))).map (·.val)
            = isort rKey (x :: xs) := by
          rw [List.map_map]
          have hid : ((fun x : Tag => x.val) ∘ fun v => (⟨reactorHandleCode, v⟩ : Tag)) = id := by funext v; rfl
          rw [hid, List.map_id]
        have hvalid : reactorVals (isort rKey (x :: xs)) = isort rKey (x :: xs) := by
          apply reactorVals_valid
          intro v hv
          exact List.all_eq_true.mp hall v ((mem_isort rKey v _).mp hv)
        simp only [grpC, setupApp, setupAppStep, beq_self_eq_true, if_true, hdl, hvals, hvalid, hded, reactorsNF, Option.some_or]
      · -- export of the sorted list
        have hne : ∃ y ys, isort rKey (x :: xs) = y :: ys := by
          have := (isort_perm rKey (x :: xs)).length_eq
          cases hi : isort rKey (x :: xs) with
          | nil => rw [hi] at this; simp at this
          | cons y ys => exact ⟨y, ys, rfl⟩
        obtain ⟨y, ys, hy⟩ := hne
        have hall' : (isort rKey (x :: xs)).all (fun v => (hexKeyV v).isSome) = true := by
          rw [List.all_eq_true] at hall ⊢
          intro v hv
          exact hall v ((mem_isort rKey v _).mp hv)
        simp only [reactorsNF, hy, reactorsPart, reactorsOut]
        rw [← hy]
        simp only [hall', if_true]
        have hid := isort_idem (x :: xs) htie'
        show Except.ok ([⟨appDataMarker, .str acadReactors⟩]
          ++ (isort rKey (isort rKey (x :: xs))).map (fun v => (⟨reactorHandleCode, v⟩ : Tag)) ++ [closeBrace]) = _
        rw [hid]
        rfl
    · cases hre

theorem xdict_chunks (alive : V → Bool) (xo : Option V) :
    ∃ cs : List Chunk, (∀ c ∈ cs, c.Ok) ∧ (∀ c ∈ cs, c.is102) ∧ cs.flatMap Chunk.tags = xdictOut alive xo
      ∧ ∃ xo', (∀ s : AD, setupApp (grpC cs) s = .ok { s with xdict := xo'.or s.xdict })
          ∧ xdictOut alive xo' = xdictOut alive xo := by
  cases xo with
  | none => exact ⟨[], by simp, by simp, rfl, none, by intro s; simp [grpC, setupApp], rfl⟩
  | some h =>
    by_cases ha : alive h = true
    · refine ⟨[.group ⟨appDataMarker, .str acadXDictionary⟩ [⟨xdictHandleCode, h⟩] closeBrace], ?_, ?_, ?_, some h, ?_, rfl⟩
      · intro c hc
        simp only [List.mem_singleton] at hc
        subst hc
        refine ⟨by decide, by decide, ?_⟩
        intro b hb
        simp only [List.mem_singleton] at hb
        subst hb
        simp [isAppClose, xdictHandleCode]
      · intro c hc
        simp only [List.mem_singleton] at hc
        subst hc
        rfl
      · simp [Chunk.tags, xdictOut, ha]
      · intro s
        have e1 : (V.str acadXDictionary == V.str acadReactors) = false := by decide
        simp [grpC, setupApp, setupAppStep, e1]
    · simp only [Bool.not_eq_true] at ha
      exact ⟨[], by simp, by simp, by simp [xdictOut, ha], none, by intro s; simp [grpC, setupApp],
        by simp [xdictOut, ha]⟩

theorem plain_ok_of_code (t : Tag) (h1 : t.code ≠ 102) (h2 : t.code ≠ 100) (h3 : t.code ≠ 101) (h4 : t.code ≠ 1001) :
    (Chunk.plain t).Ok := by
  constructor
  · simp only [isAppStart, Bool.and_eq_false_iff, beq_eq_false_iff_ne, ne_eq]; left; exact h1
  · simp only [isEndOfClass, isEO, Bool.or_eq_false_iff, Bool.and_eq_false_iff, beq_eq_false_iff_ne, ne_eq]
    exact ⟨⟨h2, Or.inl h3⟩, h4⟩

theorem xdata_groups_id (X : List (V × List Tag))
    (hx : ∀ p ∈ X, ∃ m r, p.2 = m :: r ∧ (m.code == 1001) = true ∧ m.val = p.1
        ∧ ∀ x ∈ r, validX x = true ∧ (x.code == 1001) = false) :
    (X.map (fun p => p.2.filter validX)) = X.map (·.2) ∧ (X.map (·.2)).map (fun g => (groupKey g, g)) = X
      ∧ (∀ g ∈ X.map (·.2), g.all validX = true) := by
  induction X with
  | nil => exact ⟨rfl, rfl, by simp⟩
  | cons p r ih =>
    obtain ⟨i1, i2, i3⟩ := ih (fun x hx' => hx x (List.mem_cons_of_mem _ hx'))
    obtain ⟨m, tl, hp, hm, hv, htl⟩ := hx p List.mem_cons_self
    have hall : p.2.all validX = true := by
      rw [hp, List.all_cons, validX_1001 m hm, Bool.true_and, List.all_eq_true]
      exact fun x hx' => (htl x hx').1
    have hf : p.2.filter validX = p.2 := by
      rw [List.filter_eq_self]; exact List.all_eq_true.mp hall
    refine ⟨by simp only [List.map_cons, hf, i1], ?_, ?_⟩
    · simp only [List.map_cons, i2]
      congr 1
      rw [hp]
      simp only [groupKey, hv]
      exact Prod.ext rfl hp.symm
    · intro g hg
      simp only [List.map_cons, List.mem_cons] at hg
      rcases hg with rfl | hg
      · exact hall
      · exact i3 g hg

/-- load -> save is a projection: what it writes is read back and written identically, for EVERY input the loader accepts -/
theorem roundtrip_fixed_point (alive : V → Bool) (t u : List Tag) (e : Ent) (hl : load t = .ok e)
    (htie : tieFree e = true) (hu : exportEnt alive e = .ok u) : roundtrip alive u = .ok u := by
  have hL := load_loaded t e hl
  simp only [exportEnt] at hu
  cases hre : reactorsPart e.reactors with
  | error x => rw [hre] at hu; cases hu
  | ok re =>
    rw [hre] at hu
    simp only [Except.ok.injEq] at hu
    have htie' : ∀ rs, e.reactors = some rs → (rs.map rKey).Nodup := by
      intro rs hrs
      simp only [tieFree, hrs] at htie
      exact (nodupN_iff _).mp htie
    obtain ⟨csA, a1, a2, a3, a4⟩ := app_chunks e.appdata hL.app
    obtain ⟨csX, x1, x2, x3, xo', x4, x5⟩ := xdict_chunks alive e.xdict
    obtain ⟨csR, r1, r2, r3, r4, r5⟩ := reactors_chunks e.reactors re hre hL.react htie'
    obtain ⟨d1, d2, d3⟩ := xdata_groups_id e.xdata hL.xd
    have hc5 := hcOf_cases e.typ
    -- the written tag list in chunk form
    let tH : Tag := ⟨hcOf e.typ, e.handle.getD (.str noneStr)⟩
    let tO : Tag := ⟨ownerCode, e.owner.getD (.str [48])⟩
    let t0 : Tag := ⟨structureMarker, e.typ⟩
    let csM := csA ++ (csX ++ csR)
    let rest := e.subs.flatten ++ (e.embedded.flatten ++ (e.xdata.map (·.2)).flatten)
    have hu' : u = (Chunk.plain t0 :: Chunk.plain tH :: (csM ++ [Chunk.plain tO])).flatMap Chunk.tags ++ rest := by
      rw [← hu]
      simp only [entityOrder, baseOrder, storageOrder, List.flatMap_cons, List.flatMap_nil, List.append_nil, basePart,
        storagePart, xdataOut, d1, List.flatMap_append, Chunk.tags, a3, x3, r3, csM, rest, t0, tH, tO]
      simp [List.append_assoc]
    have hMok : ∀ c ∈ csM, c.Ok := by
      intro c hc
      rcases List.mem_append.mp hc with h | h
      · exact a1 c h
      · rcases List.mem_append.mp h with h | h
        · exact x1 c h
        · exact r1 c h
    have hM102 : ∀ c ∈ csM, c.is102 := by
      intro c hc
      rcases List.mem_append.mp hc with h | h
      · exact a2 c h
      · rcases List.mem_append.mp h with h | h
        · exact x2 c h
        · exact r2 c h
    have hallok : ∀ c ∈ (Chunk.plain t0 :: Chunk.plain tH :: (csM ++ [Chunk.plain tO])), c.Ok := by
      intro c hc
      rcases List.mem_cons.mp hc with rfl | hc
      · exact plain_ok_of_code t0 (by show structureMarker ≠ 102; decide) (by show structureMarker ≠ 100; decide)
          (by show structureMarker ≠ 101; decide) (by show structureMarker ≠ 1001; decide)
      · rcases List.mem_cons.mp hc with rfl | hc
        · apply plain_ok_of_code <;> (rcases hc5 with e5 | e5 <;> simp [tH, e5])
        · rcases List.mem_append.mp hc with hc | hc
          · exact hMok c hc
          · simp only [List.mem_singleton] at hc
            subst hc
            exact plain_ok_of_code tO (by show ownerCode ≠ 102; decide) (by show ownerCode ≠ 100; decide)
              (by show ownerCode ≠ 101; decide) (by show ownerCode ≠ 1001; decide)
    -- the rest starts at an end-of-class tag
    have hxdhead : (e.xdata.map (·.2)).flatten = [] ∨ ∃ h tl, (e.xdata.map (·.2)).flatten = h :: tl ∧ (h.code == 1001) = true := by
      cases hx : e.xdata with
      | nil => exact Or.inl rfl
      | cons p r =>
        obtain ⟨m, tl, hp, hm, _, _⟩ := hL.xd p (by rw [hx]; exact List.mem_cons_self)
        exact Or.inr ⟨m, tl ++ (r.map (·.2)).flatten, by simp [hp], hm⟩
    have hembhead : (e.embedded.flatten ++ (e.xdata.map (·.2)).flatten) = [] ∨
        ∃ h tl, (e.embedded.flatten ++ (e.xdata.map (·.2)).flatten) = h :: tl
          ∧ isEndOfClass h = true ∧ (h.code == 100) = false := by
      cases hx : e.embedded with
      | nil =>
        rcases hxdhead with h | ⟨h, tl, h1, h2⟩
        · exact Or.inl (by simp [h])
        · refine Or.inr ⟨h, tl, by simp [h1], ?_, ?_⟩
          · simp [isEndOfClass, h2]
          · have : h.code = 1001 := by simpa using h2
            simp [this]
      | cons g r =>
        obtain ⟨m, tl, hg, hm, _⟩ := hL.emb g (by rw [hx]; exact List.mem_cons_self)
        refine Or.inr ⟨m, tl ++ (r.flatten ++ (e.xdata.map (·.2)).flatten), by simp [hg], ?_, ?_⟩
        · simp [isEndOfClass, hm]
        · have : m.code = 101 := by
            simp only [isEO, Bool.and_eq_true, beq_iff_eq] at hm; exact hm.1
          simp [this]
    have hresthead : HeadEnd rest := by
      cases hx : e.subs with
      | nil =>
        rcases hembhead with h | ⟨h, tl, h1, h2, _⟩
        · exact Or.inl (by simp [rest, hx, h])
        · exact Or.inr ⟨h, tl, by simp [rest, hx, h1], h2⟩
      | cons g r =>
        obtain ⟨m, tl, hg, hm, _⟩ := hL.subs g (by rw [hx]; exact List.mem_cons_self)
        refine Or.inr ⟨m, tl ++ (r.flatten ++ (e.embedded.flatten ++ (e.xdata.map (·.2)).flatten)), by simp [rest, hx, hg], ?_⟩
        simp [isEndOfClass, hm]
    have hcb := collectBase_chunks (Chunk.plain t0 :: Chunk.plain tH :: (csM ++ [Chunk.plain tO])) rest [] [] hallok hresthead
    -- the three group collections
    have hg1 := collectGroups_rebuild (fun t => t.code == 100) isEndOfClass
      (by intro t ht; simp [isEndOfClass, ht]) e.subs hL.subs (e.embedded.flatten ++ (e.xdata.map (·.2)).flatten) hembhead
    have hg2 := collectGroups_rebuild isEO (fun t => isEO t || t.code == 1001)
      (by intro t ht; simp [ht]) e.embedded hL.emb ((e.xdata.map (·.2)).flatten)
      (by
        rcases hxdhead with h | ⟨h, tl, h1, h2⟩
        · exact Or.inl h
        · refine Or.inr ⟨h, tl, h1, by simp [h2], ?_⟩
          have : h.code = 1001 := by simpa using h2
          simp [isEO, this])
    have hg3 := collectGroups_rebuild (fun t => t.code == 1001) (fun t => t.code == 1001)
      (by intro t ht; exact ht) (e.xdata.map (·.2))
      (by
        intro g hg
        obtain ⟨p, hp, rfl⟩ := List.mem_map.mp hg
        obtain ⟨m, tl, h1, h2, _, h4⟩ := hL.xd p hp
        exact ⟨m, tl, h1, h2, fun x hx => (h4 x hx).2⟩) [] (Or.inl rfl)
    simp only [List.append_nil] at hg3
    have hsetup : setup u = .ok ⟨encC 0 (Chunk.plain t0 :: Chunk.plain tH :: (csM ++ [Chunk.plain tO])) :: e.subs,
        grpC (Chunk.plain t0 :: Chunk.plain tH :: (csM ++ [Chunk.plain tO])), e.embedded, e.xdata.map (·.2)⟩ := by
      simp only [setup, hu', hcb, List.length_nil, List.nil_append, rest, hg1, hg2, hg3, if_true]
    -- application data, handle and owner, XDATA
    have henc : encC 0 (Chunk.plain t0 :: Chunk.plain tH :: (csM ++ [Chunk.plain tO]))
        = t0 :: tH :: (encC 0 csM ++ [tO]) := by
      simp only [encC, encC_append_plain]
    have hgrp : grpC (Chunk.plain t0 :: Chunk.plain tH :: (csM ++ [Chunk.plain tO]))
        = grpC csA ++ (grpC csX ++ grpC csR) := by
      simp only [grpC, grpC_append, csM, List.append_nil]
    have happ : setupApp (grpC csA ++ (grpC csX ++ grpC csR)) ⟨[], none, none⟩
        = .ok ⟨e.appdata, xo', reactorsNF e.reactors⟩ := by
      rw [setupApp_append, setupApp_match e.appdata (grpC csA) ⟨[], none, none⟩ a4 (by simpa using hL.appKeys)]
      simp only [List.nil_append]
      rw [setupApp_append, x4]
      simp only [r4, Option.or_none]
    have hscan : scanHO (hcOf e.typ) (t0 :: tH :: (encC 0 csM ++ [tO])) none none
        = (some (e.handle.getD (.str noneStr)), some (e.owner.getD (.str [48]))) := by
      have e1 : (t0.code == hcOf e.typ) = false := by rcases hc5 with e5 | e5 <;> simp [t0, e5, structureMarker]
      have e2 : (t0.code == 330) = false := by show (structureMarker == 330) = false; decide
      have e3 : (tH.code == hcOf e.typ) = true := by simp [tH]
      have h102 : hcOf e.typ ≠ 102 := by rcases hc5 with e5 | e5 <;> rw [e5] <;> decide
      have e4 : (tO.code == hcOf e.typ) = false := by rcases hc5 with e5 | e5 <;> simp [tO, e5, ownerCode]
      have e5 : (tO.code == 330) = true := by show (ownerCode == 330) = true; decide
      simp only [scanHO, e1, e2, e3, Bool.false_eq_true, if_false, if_true, optTruthy]
      rw [scanHO_skip _ _ _ _ _ (encC_codes 0 csM hM102) h102]
      simp only [scanHO, e4, e5, Bool.false_eq_true, if_false, if_true]
      split <;> rfl
    have hxl : xdataLoad (e.xdata.map (·.2)) [] = e.xdata := by
      have := xdataLoad_spec (e.xdata.map (·.2)) []
        (by
          intro g hg
          obtain ⟨p, hp, rfl⟩ := List.mem_map.mp hg
          obtain ⟨m, tl, h1, _⟩ := hL.xd p hp
          exact ⟨m, tl, h1⟩) d3
        (by
          simp only [List.map_nil, List.nil_append]
          have : (e.xdata.map (·.2)).map groupKey = ((e.xdata.map (·.2)).map (fun g => (groupKey g, g))).map (·.1) := by
            simp [List.map_map]
          rw [this, d2]
          exact hL.xdKeys)
      simpa [d2] using this
    have hload : load u = .ok ⟨e.typ, some (e.handle.getD (.str noneStr)), some (e.owner.getD (.str [48])), e.appdata, xo',
        reactorsNF e.reactors, e.subs, e.embedded, e.xdata⟩ := by
      simp only [load, hsetup, henc, hgrp, happ, hxl]
      simp only [show t0.val = e.typ from rfl, hscan]
    simp only [roundtrip, hload, exportEnt, r5]
    rw [← hu]
    simp only [entityOrder, baseOrder, storageOrder, List.flatMap_cons, List.flatMap_nil, List.append_nil, basePart,
      storagePart, xdataOut, x5, Option.getD_some]

/-- the corollary in terms of `roundtrip` only -/
theorem roundtrip_idempotent_any (alive : V → Bool) (t u : List Tag) (e : Ent) (hl : load t = .ok e)
    (htie : tieFree e = true) (h : roundtrip alive t = .ok u) : roundtrip alive u = .ok u := by
  simp only [roundtrip, hl] at h
  exact roundtrip_fixed_point alive t u e hl htie h

/-! ## the parts of the export of a well-formed entity (factored out of `roundtrip_canon`)

Every class that uses the generic `DXFEntity.load_tags` / `export_dxf` writes `baseOut` first and `xdataOut` last; what stands
in between is the business of the class (`DXFTagStorage`: subclasses and embedded objects verbatim). -/

theorem load_wf_parts (alive : V → Bool) (t : List Tag) (h : entityWF alive t = true) :
    ∃ t0 r items rest e re, t = t0 :: r ∧ parseItems (hcOf t0.val) r none = some (items, rest) ∧ load t = .ok e
      ∧ reactorsPart e.reactors = .ok re
      ∧ baseOut alive e re = t0 :: canonItems items
      ∧ e.subs = (collectGroups (fun t => t.code == 100) isEndOfClass rest).1
      ∧ e.embedded = (collectGroups isEO (fun t => isEO t || t.code == 1001)
          (collectGroups (fun t => t.code == 100) isEndOfClass rest).2).1
      ∧ xdataOut e = (restXdata rest).flatten
      ∧ e.subs.flatten ++ (e.embedded.flatten ++ (restXdata rest).flatten) = rest
      ∧ e.typ = t0.val ∧ t0.code = 0 ∧ e.handle.isSome = true ∧ e.owner.isSome = true ∧ e.owner = oOf items := by
  obtain ⟨t0, r, items, rest, rfl, h0, hstr, hp, hiw, hrw⟩ := entityWF_unpack alive t h
  obtain ⟨hch, hco, hcx, hcr, hkeys, hall⟩ := itemsWF_unpack alive items hiw
  obtain ⟨hhead, hshape⟩ := parseItems_shape _ r none items rest hp
  simp only at hshape
  have hcb := parseItems_collectBase (hcOf t0.val) r none items rest [t0] [] hp
  simp only [List.length_nil, List.nil_append] at hcb
  have hns : isAppStart t0 = false := by simp [isAppStart, h0]
  have hne : isEndOfClass t0 = false := by simp [isEndOfClass, isEO, h0]
  have hsetup : setup (t0 :: r) = .ok ⟨(t0 :: encode 0 items) ::
        (collectGroups (fun t => t.code == 100) isEndOfClass rest).1, groupsOf items,
        (collectGroups isEO (fun t => isEO t || t.code == 1001)
          (collectGroups (fun t => t.code == 100) isEndOfClass rest).2).1, restXdata rest⟩ := by
    have hcons := rest_consumed rest hhead
    simp only at hcons
    simp only [setup, collectBase, hns, hne, Bool.false_eq_true, if_false, List.nil_append, hcb, hcons, if_true]
    rfl
  have hcases := hcOf_cases t0.val
  have hc102 : hcOf t0.val ≠ 102 := by rcases hcases with e | e <;> rw [e] <;> decide
  have happ := setupApp_spec alive (hcOf t0.val) items ⟨[], none, none⟩ hshape hall (by simpa using hkeys)
    hcx (by simp) hcr (by simp)
  simp only [List.nil_append, Option.none_or] at happ
  have hscan : scanHO (hcOf t0.val) (t0 :: encode 0 items) none none = (hOf items, oOf items) := by
    have e1 : (t0.code == hcOf t0.val) = false := by
      rw [h0]; rcases hcases with e | e <;> rw [e] <;> decide
    have e2 : (t0.code == 330) = false := by rw [h0]; decide
    simp only [scanHO, e1, e2, Bool.false_eq_true, if_false]
    rw [scanHO_spec _ 0 items none none hshape hc102 (by simp [hch]) (by simp [hco])]
    simp
  obtain ⟨hv, hh1, hh2⟩ := ofKind_handle _ items hshape hch
  obtain ⟨ov, ho1, ho2⟩ := ofKind_owner _ items hshape hco
  have hxw : (restXdata rest).all (fun g => g.all validX) = true ∧ nodupV ((restXdata rest).map groupKey) = true := by
    simpa [restWF, Bool.and_eq_true] using hrw
  have hxv : ∀ g ∈ restXdata rest, g.all validX = true := by
    have := hxw.1; rw [List.all_eq_true] at this; exact this
  have hxl : xdataLoad (restXdata rest) [] = (restXdata rest).map (fun g => (groupKey g, g)) := by
    have := xdataLoad_spec (restXdata rest) []
      (fun g hg => by
        obtain ⟨t, r, e, _⟩ := collectGroups_nonempty _ _ _ g hg
        exact ⟨t, r, e⟩) hxv (by simpa [nodupV_iff] using hxw.2)
    simpa using this
  have hload : load (t0 :: r) = .ok ⟨t0.val, hOf items, oOf items, othersOf items, xdictOf items, reactorsOf items,
      (collectGroups (fun t => t.code == 100) isEndOfClass rest).1,
      (collectGroups isEO (fun t => isEO t || t.code == 1001)
          (collectGroups (fun t => t.code == 100) isEndOfClass rest).2).1,
      (restXdata rest).map (fun g => (groupKey g, g))⟩ := by
    simp only [load, hsetup, happ, hscan, hxl]
  have hre := ofKind_reactors alive _ items hshape hall hcr
  have hxd := ofKind_xdict alive _ items hshape hall hcx
  have hflat : (collectGroups (fun t => t.code == 100) isEndOfClass rest).1.flatten ++
      ((collectGroups isEO (fun t => isEO t || t.code == 1001)
          (collectGroups (fun t => t.code == 100) isEndOfClass rest).2).1.flatten ++ (restXdata rest).flatten) = rest := by
    have h1 := collectGroups_flatten (fun t => t.code == 100) isEndOfClass rest
    have h2 := collectGroups_flatten isEO (fun t => isEO t || t.code == 1001)
      (collectGroups (fun t => t.code == 100) isEndOfClass rest).2
    have h3 := collectGroups_flatten (fun t => t.code == 1001) (fun t => t.code == 1001)
      (collectGroups isEO (fun t => isEO t || t.code == 1001)
        (collectGroups (fun t => t.code == 100) isEndOfClass rest).2).2
    have hcons := rest_consumed rest hhead
    simp only at hcons
    rw [hcons, List.append_nil] at h3
    simp only [restXdata]
    rw [h3, h2, h1]
  refine ⟨t0, r, items, rest, _, ofKind .reactors items, rfl, hp, hload, hre, ?_, rfl, rfl, ?_, hflat, rfl, h0,
    by simp [hh1], by simp [ho1], rfl⟩
  · have ht0 : (⟨structureMarker, t0.val⟩ : Tag) = t0 := by
      rw [← tag_eta t0, h0]; rfl
    simp only [baseOut, baseOrder, List.flatMap_cons, List.flatMap_nil, List.append_nil, basePart, hh1, ho1,
      Option.getD_some, ← hxd, ← ofKind_appdata, canonItems, hh2, ho2, ht0, ownerCode]
    simp [List.append_assoc]
  · simp only [xdataOut, xdata_flatten _ hxv]

/-- what `load` takes from `ExtendedTags._setup` -/
theorem load_setup (t : List Tag) (e : Ent) (h : load t = .ok e) :
    ∃ x t0 base, setup t = .ok x ∧ x.subclasses = (t0 :: base) :: e.subs ∧ e.typ = t0.val := by
  simp only [load] at h
  split at h
  · cases h
  · cases h
  · rename_i x hx
    split at h
    · cases h
    · cases h
    · rename_i t0 base subs hsub
      split at h
      · cases h
      · simp only [Except.ok.injEq] at h
        subst h
        exact ⟨x, t0, base, hx, hsub, rfl⟩

/-- for ANY entity class with the generic `load_tags` / `export_dxf`: the base-class structures (handle, application groups,
    extension dictionary, reactors, owner) are written as `canon` orders them and the XDATA verbatim behind the body -/
theorem generic_structures_kept (alive : V → Bool) (t : List Tag) (h : entityWF alive t = true) (body : List Tag) :
    ∃ t0 r items rest e, t = t0 :: r ∧ parseItems (hcOf t0.val) r none = some (items, rest) ∧ load t = .ok e
      ∧ exportGeneric alive body e = .ok (t0 :: canonItems items ++ body ++ (restXdata rest).flatten) := by
  obtain ⟨t0, r, items, rest, e, re, h1, h2, h3, h4, h5, _, _, h8, _, _⟩ := load_wf_parts alive t h
  refine ⟨t0, r, items, rest, e, h1, h2, h3, ?_⟩
  simp only [exportGeneric, h4, entityOrder, List.flatMap_cons, List.flatMap_nil, List.append_nil, h5, h8]
  simp [List.append_assoc]

/-! ## after the fix of `Reactors.from_tags` (invalid handles are dropped at load time): export cannot fail

`Gen.reactorsDropInvalid` is regenerated from the source; the lemmas take it as a hypothesis, the counted theorem in Props/C02.lean
discharges it by `rfl`, so reverting the fix re-opens that theorem. -/

def ReactorsValid (ro : Option (List V)) : Prop := ∀ rs, ro = some rs → ∀ v ∈ rs, (hexKeyV v).isSome = true

theorem mem_dedup (l : List V) (v : V) (h : v ∈ dedup l) : v ∈ l := by
  induction l with
  | nil => simp [dedup] at h
  | cons a r ih =>
    simp only [dedup, List.mem_cons] at h
    rcases h with rfl | h
    · exact List.mem_cons_self
    · exact List.mem_cons_of_mem _ (ih (List.mem_filter.mp h).1)

theorem setupAppStep_valid (hflag : reactorsDropInvalid = true) (a a' : AD) (g : List Tag)
    (ha : ReactorsValid a.reactors) (h : setupAppStep a g = .ok a') : ReactorsValid a'.reactors := by
  cases g with
  | nil => simp only [setupAppStep, Except.ok.injEq] at h; subst h; exact ha
  | cons st body =>
    simp only [setupAppStep] at h
    split at h
    · simp only [Except.ok.injEq] at h
      subst h
      intro rs hrs v hv
      simp only [Option.some.injEq] at hrs
      subst hrs
      have := mem_dedup _ v hv
      simp only [reactorVals, hflag, if_true] at this
      exact (List.mem_filter.mp this).2
    · split at h
      · split at h
        · split at h
          · simp only [Except.ok.injEq] at h; subst h; exact ha
          · cases h
        · cases h
      · simp only [Except.ok.injEq] at h; subst h; exact ha

theorem setupApp_valid (hflag : reactorsDropInvalid = true) (gs : List (List Tag)) (a a' : AD)
    (ha : ReactorsValid a.reactors) (h : setupApp gs a = .ok a') : ReactorsValid a'.reactors := by
  induction gs generalizing a with
  | nil => simp only [setupApp, Except.ok.injEq] at h; subst h; exact ha
  | cons g r ih =>
    simp only [setupApp] at h
    split at h
    · rename_i a1 h1
      exact ih a1 (setupAppStep_valid hflag a a1 g ha h1) h
    · cases h

theorem load_reactors_valid (hflag : reactorsDropInvalid = true) (t : List Tag) (e : Ent) (h : load t = .ok e) :
    ReactorsValid e.reactors := by
  simp only [load] at h
  split at h
  · cases h
  · cases h
  · split at h
    · cases h
    · cases h
    · split at h
      · cases h
      · rename_i ad had
        simp only [Except.ok.injEq] at h
        subst h
        exact setupApp_valid hflag _ _ ad (by intro rs hrs; cases hrs) had

/-- every entity the loader accepts can be exported: `Reactors.get` cannot raise any more -/
theorem export_total (hflag : reactorsDropInvalid = true) (alive : V → Bool) (t : List Tag) (e : Ent)
    (h : load t = .ok e) : ∃ u, exportEnt alive e = .ok u := by
  have hv := load_reactors_valid hflag t e h
  have hre : ∃ re, reactorsPart e.reactors = .ok re := by
    cases hr : e.reactors with
    | none => exact ⟨[], rfl⟩
    | some rs =>
      cases rs with
      | nil => exact ⟨[], rfl⟩
      | cons x xs =>
        have hall : (x :: xs).all (fun v => (hexKeyV v).isSome) = true :=
          List.all_eq_true.mpr (hv _ hr)
        refine ⟨[⟨appDataMarker, .str acadReactors⟩]
          ++ (isort (fun v => (hexKeyV v).getD 0) (x :: xs)).map (fun v => ⟨reactorHandleCode, v⟩) ++ [closeBrace], ?_⟩
        simp only [reactorsPart, reactorsOut, hall, if_true]
  obtain ⟨re, hre⟩ := hre
  simp only [exportEnt, hre]
  exact ⟨_, rfl⟩

end EzdxfVerif.Storage

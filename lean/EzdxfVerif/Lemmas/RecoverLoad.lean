/-
Lemmas about Model/RecoverLoad.lean (first loading stage behind the recover front end); the counted statements are
re-exported from Props/C07.lean.
-/
import EzdxfVerif.Model.RecoverLoad
namespace EzdxfVerif.Lemmas.RecoverLoad
open EzdxfVerif.Recover EzdxfVerif.RecoverLoad EzdxfVerif.Gen.RecoverTables

/-! ### `_setup`: the "Unexpected tag" branch is dead, the only reachable error is the unclosed app-data group -/

theorem dispatchTop_ok (s : St) (t : CTag) (h : isEndOfClass t = true) : ∃ s', dispatchTop s t = .ok s' := by
  unfold dispatchTop
  unfold isEndOfClass at h
  by_cases h1 : (t.code == 100) = true
  · simp [h1]
  · by_cases h2 : isEO t = true
    · simp [h1, h2]
    · simp only [Bool.not_eq_true] at h1 h2
      simp only [h1, h2, Bool.or_self, Bool.false_or] at h
      simp [h1, h2, h]

theorem dispatchEmb_ok (s : St) (t : CTag) (h : (isEO t || t.code == 1001) = true) : ∃ s', dispatchEmb s t = .ok s' := by
  unfold dispatchEmb
  by_cases h2 : isEO t = true
  · simp [h2]
  · simp only [Bool.not_eq_true] at h2
    simp only [h2, Bool.false_or] at h
    simp [h2, h]

theorem dispatchXd_ok (s : St) (t : CTag) (h : (t.code == 1001) = true) : ∃ s', dispatchXd s t = .ok s' := by
  unfold dispatchXd
  simp [h]

/-- one tag never raises: the dispatch functions are only entered with a tag their first matching loop accepts -/
theorem step_ok (s : St) (t : CTag) : ∃ s', s.step t = .ok s' := by
  unfold St.step
  split
  · split
    · exact ⟨_, rfl⟩
    · split
      · next h => exact dispatchTop_ok _ t h
      · exact ⟨_, rfl⟩
  · split <;> exact ⟨_, rfl⟩
  · split
    · next h => exact dispatchTop_ok _ t h
    · exact ⟨_, rfl⟩
  · split
    · next h => exact dispatchEmb_ok _ t h
    · exact ⟨_, rfl⟩
  · split
    · next h => exact dispatchXd_ok _ t h
    · exact ⟨_, rfl⟩

theorem setupGo_error (l : List CTag) : ∀ (s : St) (e : SetupErr), setupGo s l = .error e → e = .missingAppClose := by
  induction l with
  | nil =>
    intro s e h
    unfold setupGo St.finish at h
    split at h <;> simp_all
  | cons t r ih =>
    intro s e h
    unfold setupGo at h
    obtain ⟨s', hs⟩ := step_ok s t
    rw [hs] at h
    exact ih s' e h

/-- the phase in which the tag list ends decides: `_setup` raises iff it ends inside an app-data group -/
def endPhase : St → List CTag → Phase
  | s, [] => s.phase
  | s, t :: r =>
    match s.step t with
    | .error _ => s.phase
    | .ok s' => endPhase s' r

theorem setupGo_error_iff (l : List CTag) : ∀ s : St,
    (∃ e, setupGo s l = .error e) ↔ ∃ st, endPhase s l = .app st := by
  induction l with
  | nil =>
    intro s
    unfold setupGo St.finish endPhase
    constructor
    · intro ⟨e, h⟩
      split at h <;> simp_all
    · intro ⟨st, h⟩
      rw [h]; exact ⟨_, rfl⟩
  | cons t r ih =>
    intro s
    obtain ⟨s', hs⟩ := step_ok s t
    unfold setupGo endPhase
    rw [hs]
    exact ih s'

/-! ### the envelope raises DXFStructureError or nothing -/

theorem reactorsFromTags_err (g : List CTag) (e : PyErr) (h : reactorsFromTags g = .error e) : e = .dxfStructureError := by
  unfold reactorsFromTags at h
  split at h
  · simp only [Except.error.injEq] at h; exact h.symm
  · simp at h

theorem xdictFromTags_err (g : List CTag) (e : PyErr) (h : xdictFromTags g = .error e) : e = .dxfStructureError := by
  unfold xdictFromTags at h
  split at h
  · split at h
    · simp at h
    · simp only [Except.error.injEq] at h; exact h.symm
  · simp only [Except.error.injEq] at h; exact h.symm

theorem appStep_err (a : AppAcc) (g : List CTag) (e : PyErr) (h : appStep a g = .error e) : e = .dxfStructureError := by
  unfold appStep at h
  simp only at h
  split at h
  · split at h
    · next x hx => simp only [Except.error.injEq] at h; rw [← h]; exact reactorsFromTags_err g x hx
    · simp at h
  · split at h
    · split at h
      · next x hx => simp only [Except.error.injEq] at h; rw [← h]; exact xdictFromTags_err g x hx
      · simp at h
    · simp at h

theorem setupAppData_err (gs : List (List CTag)) : ∀ (a : AppAcc) (e : PyErr),
    setupAppData a gs = .error e → e = .dxfStructureError := by
  induction gs with
  | nil => intro a e h; simp [setupAppData] at h
  | cons g r ih =>
    intro a e h
    unfold setupAppData at h
    split at h
    · next x hx => simp only [Except.error.injEq] at h; rw [← h]; exact appStep_err a g x hx
    · next a' _ => exact ih a' e h

theorem loadEnvelope_err (g : List CTag) (e : PyErr) (h : loadEnvelope g = .error e) : e = .dxfStructureError := by
  unfold loadEnvelope at h
  split at h
  · simp only [Except.error.injEq] at h; rw [← h]; rfl
  · split at h
    · next x hx => simp only [Except.error.injEq] at h; rw [← h]; exact setupAppData_err _ _ x hx
    · simp at h

theorem loadAll_err (gs : List (List CTag)) : ∀ e : PyErr, loadAll gs = .error e → e = .dxfStructureError := by
  induction gs with
  | nil => intro e h; simp [loadAll] at h
  | cons g r ih =>
    intro e h
    unfold loadAll at h
    split at h
    · next x hx => simp only [Except.error.injEq] at h; rw [← h]; exact loadEnvelope_err g x hx
    · split at h
      · next x hx => simp only [Except.error.injEq] at h; rw [← h]; exact ih x hx
      · simp at h

/-! ### reactor handles that survive loading can be sorted by `int(x, 16)` -/

theorem reactorsFromTags_valid (hfix : treeFixReactors = true) (g : List CTag) (hs : List Str)
    (h : reactorsFromTags g = .ok hs) : ∀ x ∈ hs, (pyIntHex x).isSome = true := by
  unfold reactorsFromTags at h
  split at h
  · simp at h
  · simp only [Except.ok.injEq] at h
    intro x hx
    rw [← h] at hx
    obtain ⟨t, ht, rfl⟩ := List.mem_map.1 hx
    have hv := (List.mem_filter.1 ht).2
    unfold isValidHandle at hv
    unfold strOf
    split at hv
    · exact hv
    · simp at hv

theorem setupAppData_reactors (hfix : treeFixReactors = true) (gs : List (List CTag)) :
    ∀ a a' : AppAcc, (∀ hs, a.reactors = some hs → ∀ x ∈ hs, (pyIntHex x).isSome = true) →
      setupAppData a gs = .ok a' → ∀ hs, a'.reactors = some hs → ∀ x ∈ hs, (pyIntHex x).isSome = true := by
  induction gs with
  | nil => intro a a' ha h; simp only [setupAppData, Except.ok.injEq] at h; rw [← h]; exact ha
  | cons g r ih =>
    intro a a' ha h
    unfold setupAppData at h
    split at h
    · simp at h
    · next a1 h1 =>
      refine ih a1 a' ?_ h
      unfold appStep at h1
      simp only at h1
      split at h1
      · split at h1
        · simp at h1
        · next rs hrs =>
          simp only [Except.ok.injEq] at h1
          rw [← h1]
          intro hs hhs
          simp only [Option.some.injEq] at hhs
          rw [← hhs]
          exact reactorsFromTags_valid hfix g rs hrs
      · split at h1
        · split at h1
          · simp at h1
          · simp only [Except.ok.injEq] at h1; rw [← h1]; exact ha
        · simp only [Except.ok.injEq] at h1; rw [← h1]; exact ha

/-! ### XDATA after loading holds valid XDATA group codes only -/

def XdOk (d : List (Str × List CTag)) : Prop := ∀ e ∈ d, e.2.all (fun t => isValidXdataCode t.code) = true

theorem dictSet_ok (d : List (Str × List CTag)) (k : Str) (g : List CTag) (hd : XdOk d)
    (hg : g.all (fun t => isValidXdataCode t.code) = true) : XdOk (dictSet d k g) := by
  unfold dictSet
  split
  · intro e he
    obtain ⟨e0, h0, rfl⟩ := List.mem_map.1 he
    split
    · exact hg
    · exact hd e0 h0
  · intro e he
    rcases List.mem_append.1 he with h | h
    · exact hd e h
    · simp only [List.mem_singleton] at h; rw [h]; exact hg

theorem xdataAdd_ok (gs : List (List CTag)) : ∀ d d', XdOk d → xdataAdd d gs = some d' → XdOk d' := by
  induction gs with
  | nil => intro d d' hd h; simp only [xdataAdd, Option.some.injEq] at h; rw [← h]; exact hd
  | cons g r ih =>
    intro d d' hd h
    unfold xdataAdd at h
    split at h
    · exact ih d d' hd h
    · next hd' tl =>
      split at h
      · next hall => exact ih _ d' (dictSet_ok d _ _ hd hall) h
      · simp at h

theorem xdataInit_ok (gs : List (List CTag)) : XdOk (xdataInit gs) := by
  have hnil : XdOk [] := fun e he => by simp at he
  unfold xdataInit
  split
  · next d hd => exact xdataAdd_ok gs [] d hnil hd
  · cases hx : xdataAdd [] (gs.map (fun g => g.filter (fun t => isValidXdataCode t.code))) with
    | none => exact hnil
    | some d => exact xdataAdd_ok _ [] d hnil hx

/-! ### an entity that passed `entity_structure_validator` (not an XRECORD) never makes `_setup` raise -/

theorem validateGo_emb_app (xrec : Bool) (l : List CTag) : ∀ s : VS, s.emb = true → s.app = true →
    validateGo xrec s l = false := by
  induction l with
  | nil => intro s _ ha; simp [validateGo, ha]
  | cons t r ih =>
    intro s he ha
    unfold validateGo
    have : s.step xrec t = some { s with emb := true } := by
      unfold VS.step
      simp [he]
    rw [this]
    exact ih _ rfl ha

/-- the relation between the validator state and the `_setup` state while both walk the same tag list -/
def Rel (v : VS) (s : St) : Prop :=
  match s.phase with
  | .base => v.app = false ∧ v.xdata = false ∧ v.emb = false
  | .app st => v.app = true ∧ v.xdata = false ∧ v.emb = false ∧ ∃ name, st.val = .str (123 :: name) ∧ v.closing = name ++ [125]
  | _ => True

theorem isAppStart_val (t : CTag) (h : isAppStart t = true) : t.code = 102 ∧ ∃ name, t.val = .str (123 :: name) := by
  unfold isAppStart at h
  simp only [Bool.and_eq_true, beq_iff_eq] at h
  refine ⟨h.1, ?_⟩
  have h2 := h.2
  split at h2
  · next tl heq => exact ⟨tl, heq⟩
  · simp at h2

theorem valid_setup_aux (l : List CTag) : ∀ (v : VS) (s : St), Rel v s → validateGo false v l = true →
    ∃ x, setupGo s l = .ok x := by
  induction l with
  | nil =>
    intro v s hr hv
    unfold validateGo at hv
    simp only [Bool.and_eq_true, Bool.not_eq_true'] at hv
    unfold setupGo St.finish
    unfold Rel at hr
    split <;> first | exact ⟨_, rfl⟩ | skip
    next st hph =>
      rw [hph] at hr
      rw [hr.1] at hv
      simp at hv
  | cons t r ih =>
    intro v s hr hv
    unfold validateGo at hv
    cases hstep : v.step false t with
    | none => rw [hstep] at hv; simp at hv
    | some v' =>
      rw [hstep] at hv
      simp only at hv
      obtain ⟨s', hs⟩ := step_ok s t
      unfold setupGo
      rw [hs]
      refine ih v' s' ?_ hv
      -- the relation is kept
      unfold Rel at hr
      cases hph : s.phase with
      | sub =>
        unfold St.step at hs; rw [hph] at hs; simp only at hs
        split at hs
        · unfold dispatchTop at hs
          repeat' split at hs
          all_goals first | (simp only [Except.ok.injEq] at hs; rw [← hs]; simp [Rel]) | simp at hs
        · simp only [Except.ok.injEq] at hs; rw [← hs]; simp [Rel]
      | emb =>
        unfold St.step at hs; rw [hph] at hs; simp only at hs
        split at hs
        · unfold dispatchEmb at hs
          repeat' split at hs
          all_goals first | (simp only [Except.ok.injEq] at hs; rw [← hs]; simp [Rel]) | simp at hs
        · simp only [Except.ok.injEq] at hs; rw [← hs]; simp [Rel]
      | xd =>
        unfold St.step at hs; rw [hph] at hs; simp only at hs
        split at hs
        · unfold dispatchXd at hs
          repeat' split at hs
          all_goals first | (simp only [Except.ok.injEq] at hs; rw [← hs]; simp [Rel]) | simp at hs
        · simp only [Except.ok.injEq] at hs; rw [← hs]; simp [Rel]
      | base =>
        rw [hph] at hr
        obtain ⟨ha, hx, he⟩ := hr
        unfold St.step at hs; rw [hph] at hs; simp only at hs
        split at hs
        · next hstart =>
          -- an app-data group opens: the validator opens it too
          obtain ⟨hc, name, hval⟩ := isAppStart_val t hstart
          simp only [Except.ok.injEq] at hs
          rw [← hs]
          unfold VS.step at hstep
          simp [he, hx, ha, hc, hval, sEmbeddedObject] at hstep
          rw [← hstep]
          simp [Rel, hval]
        · split at hs
          · unfold dispatchTop at hs
            repeat' split at hs
            all_goals first | (simp only [Except.ok.injEq] at hs; rw [← hs]; simp [Rel]) | simp at hs
          · next hns hne =>
            simp only [Except.ok.injEq] at hs
            rw [← hs]
            simp only [Rel]
            -- neither app start nor end of class: the validator state is unchanged (a stray (102, ..) is rejected)
            unfold isEndOfClass at hne
            simp only [Bool.or_eq_true, not_or, Bool.not_eq_true] at hne
            obtain ⟨⟨h100, heo⟩, h1001⟩ := hne
            unfold isEO at heo
            unfold VS.step at hstep
            simp only [he, heo, Bool.or_self, Bool.false_eq_true, if_false, hx, Bool.not_false, Bool.and_true] at hstep
            by_cases h102 : (t.code == 102) = true
            · -- code 102 that does not start a group: rejected because no group is open
              simp only [h102, if_true] at hstep
              cases hv2 : t.val with
              | str sv =>
                rw [hv2] at hstep
                simp only at hstep
                by_cases hh : sv.head? = some 123
                · exfalso
                  unfold isAppStart at hns
                  rw [hv2] at hns
                  cases sv with
                  | nil => simp at hh
                  | cons c rest =>
                    simp only [List.head?_cons, Option.some.injEq] at hh
                    subst hh
                    simp [h102] at hns
                · simp [hh, ha] at hstep
              | num => rw [hv2] at hstep; simp at hstep
              | bin => rw [hv2] at hstep; simp at hstep
              | vtx => rw [hv2] at hstep; simp at hstep
            · simp only [Bool.not_eq_true] at h102
              simp only [h102, Bool.false_eq_true, if_false, h1001, Bool.false_and, Option.some.injEq] at hstep
              rw [← hstep]
              exact ⟨ha, hx, he⟩
      | app st =>
        rw [hph] at hr
        obtain ⟨ha, hx, he, name, hst, hcl⟩ := hr
        unfold St.step at hs; rw [hph] at hs; simp only at hs
        by_cases heo : isEO t = true
        · -- an embedded-object marker inside an open group: the validator can no longer succeed
          exfalso
          have : v' = { v with emb := true } := by
            unfold VS.step at hstep
            unfold isEO at heo
            simp [he, heo] at hstep
            exact hstep.symm
          rw [this] at hv
          rw [validateGo_emb_app false r { v with emb := true } rfl ha] at hv
          simp at hv
        · simp only [Bool.not_eq_true] at heo
          unfold VS.step at hstep
          unfold isEO at heo
          simp only [he, heo, Bool.or_self, Bool.false_eq_true, if_false, hx, Bool.not_false, Bool.and_true] at hstep
          by_cases h102 : (t.code == 102) = true
          · simp only [h102, if_true] at hstep
            cases hv2 : t.val with
            | str sv =>
              rw [hv2] at hstep
              simp only [ha] at hstep
              by_cases hh : (sv.head? == some 123) = true
              · simp [hh] at hstep
              · simp only [Bool.not_eq_true] at hh
                simp only [hh, if_false, Bool.not_true, Bool.false_eq_true] at hstep
                by_cases hclose : (sv == [125] || sv == v.closing) = true
                · simp only [hclose, if_true] at hstep
                  have hcode : (t.code == 1001) = false := by
                    have := eq_of_beq h102; rw [this]; decide
                  simp only [hcode, Bool.false_and, Bool.false_eq_true, if_false, Option.some.injEq] at hstep
                  -- `_setup` closes the group as well
                  have hcl2 : isAppClose st t = true := by
                    unfold isAppClose
                    rw [hst, hv2, hcl] at *
                    simp only [h102, Bool.true_and]
                    simp only [Bool.or_eq_true, beq_iff_eq] at hclose ⊢
                    rcases hclose with h | h
                    · left; rw [h]
                    · right; rw [h, hcl]
                  rw [hcl2] at hs
                  simp only [if_true, Except.ok.injEq] at hs
                  rw [← hs, ← hstep]
                  simp [Rel]
                · simp [hclose] at hstep
            | num => rw [hv2] at hstep; simp at hstep
            | bin => rw [hv2] at hstep; simp at hstep
            | vtx => rw [hv2] at hstep; simp at hstep
          · simp only [Bool.not_eq_true] at h102
            simp only [h102, Bool.false_eq_true, if_false] at hstep
            have hncl : isAppClose st t = false := by unfold isAppClose; simp [h102]
            rw [hncl] at hs
            simp only [Bool.false_eq_true, if_false, Except.ok.injEq] at hs
            by_cases h1001 : (t.code == 1001) = true
            · simp [h1001, hx, ha] at hstep
            · simp only [Bool.not_eq_true] at h1001
              simp only [h1001, Bool.false_and, Bool.false_eq_true, if_false, Option.some.injEq] at hstep
              rw [← hs, ← hstep]
              simp only [Rel]
              exact ⟨ha, hx, he, name, hst, hcl⟩

/-- `entity_structure_validator(e)` passes (structure check as for every type but XRECORD) ⇒ `ExtendedTags(e)` does not
    raise -/
theorem valid_setup_ok (e : List CTag) (h : validateGo false VS.init e = true) : ∃ x, setup e = .ok x :=
  valid_setup_aux e VS.init St.init (by simp [Rel, St.init, VS.init]) h

/-! ### R12 mode: removing the (100, ..) tags keeps a valid entity valid -/

theorem step_code100 (xrec : Bool) (s s' : VS) (t : CTag) (hc : t.code = 100) (h : s.step xrec t = some s') : s' = s := by
  unfold VS.step at h
  have h101 : (t.code == 101) = false := by rw [hc]; decide
  have h102 : (t.code == 102) = false := by rw [hc]; decide
  have h1001 : (t.code == 1001) = false := by rw [hc]; decide
  have h1002 : (t.code == 1002) = false := by rw [hc]; decide
  have hlt : t.code < 1000 := by rw [hc]; decide
  cases s with
  | mk app xdata level closing emb =>
    cases emb <;> cases xdata <;> simp_all

theorem validateGo_filter100 (xrec : Bool) (l : List CTag) : ∀ s : VS, validateGo xrec s l = true →
    validateGo xrec s (l.filter (fun t => t.code != 100)) = true := by
  induction l with
  | nil => intro s h; exact h
  | cons t r ih =>
    intro s h
    unfold validateGo at h
    cases hstep : s.step xrec t with
    | none => rw [hstep] at h; simp at h
    | some s' =>
      rw [hstep] at h
      simp only at h
      by_cases hc : t.code = 100
      · have : (t.code != 100) = false := by rw [hc]; decide
        simp only [List.filter_cons, this, Bool.false_eq_true, if_false]
        rw [step_code100 xrec s s' t hc hstep] at h
        exact ih s h
      · have : (t.code != 100) = true := by simpa using hc
        simp only [List.filter_cons, this, if_true]
        unfold validateGo
        rw [hstep]
        exact ih s' h

/-- what `Recover.check_entities` lets through (and is neither an XRECORD nor one of the unchecked structure
    types) is loaded by `ExtendedTags` without an exception -/
theorem checked_group_setup_ok (r12 : Bool) (e e' : List CTag) (h : checkEntity r12 e = .ok e')
    (hex : excludeStructureCheck.contains (entityType e) = false) (hx : (entityType e == sXrecord) = false) :
    ∃ x, setup e' = .ok x := by
  unfold checkEntity at h
  simp only [hex, Bool.false_eq_true, if_false] at h
  split at h
  · next hv =>
    unfold validEntity at hv
    rw [hx] at hv
    simp only [Except.ok.injEq] at h
    rw [← h]
    cases r12
    · exact valid_setup_ok e hv
    · exact valid_setup_ok _ (validateGo_filter100 false e VS.init hv)
  · simp at h

/-! ### `ExtendedTags` loses nothing: iterating the result gives back the tag list, in order -/

/-- placeholders below `n` only -/
def IdxLt (n : Nat) : List BItem → Prop
  | [] => True
  | .tag _ :: r => IdxLt n r
  | .app i :: r => i < n ∧ IdxLt n r

theorem idxLt_mono {n m : Nat} (h : n ≤ m) : ∀ items, IdxLt n items → IdxLt m items := by
  intro items
  induction items with
  | nil => intro _; trivial
  | cons a r ih =>
    intro hi
    cases a with
    | tag t => exact ih hi
    | app i => exact ⟨Nat.lt_of_lt_of_le hi.1 h, ih hi.2⟩

theorem idxLt_append (n : Nat) : ∀ xs ys, IdxLt n xs → IdxLt n ys → IdxLt n (xs ++ ys) := by
  intro xs
  induction xs with
  | nil => intro ys _ h; exact h
  | cons a r ih =>
    intro ys hx hy
    cases a with
    | tag t => exact ih ys hx hy
    | app i => exact ⟨hx.1, ih ys hx.2 hy⟩

theorem expandBase_append (apps : List (List CTag)) : ∀ xs ys,
    expandBase apps (xs ++ ys) = expandBase apps xs ++ expandBase apps ys := by
  intro xs
  induction xs with
  | nil => intro ys; rfl
  | cons a r ih =>
    intro ys
    cases a with
    | tag t => simp [expandBase, ih]
    | app i => simp [expandBase, ih]

/-- groups appended behind the ones the placeholders refer to do not change the expansion -/
theorem expandBase_stable (apps extra : List (List CTag)) : ∀ items, IdxLt apps.length items →
    expandBase (apps ++ extra) items = expandBase apps items := by
  intro items
  induction items with
  | nil => intro _; rfl
  | cons a r ih =>
    intro hi
    cases a with
    | tag t => simp [expandBase, ih hi]
    | app i =>
      simp only [expandBase]
      rw [ih hi.2]
      congr 1
      simp [List.getD, List.getElem?_append_left hi.1]

/-- the tags consumed so far, in file order -/
def stOut (s : St) : List CTag :=
  match s.phase with
  | .base => expandBase s.apps.reverse s.base.reverse
  | .app _ => expandBase s.apps.reverse s.base.reverse.dropLast ++ s.cur.reverse
  | .sub => expandBase s.apps.reverse s.base.reverse ++ s.subs.reverse.flatten ++ s.cur.reverse
  | .emb => expandBase s.apps.reverse s.base.reverse ++ s.subs.reverse.flatten ++ s.embs.reverse.flatten ++ s.cur.reverse
  | .xd => expandBase s.apps.reverse s.base.reverse ++ s.subs.reverse.flatten ++ s.embs.reverse.flatten
      ++ s.xds.reverse.flatten ++ s.cur.reverse

/-- phase discipline: later collections are empty in earlier phases; placeholders refer to existing groups; inside an
    app-data group the last base item is the placeholder of the group being collected -/
def StInv (s : St) : Prop :=
  match s.phase with
  | .base => s.subs = [] ∧ s.embs = [] ∧ s.xds = [] ∧ IdxLt s.apps.length s.base.reverse
  | .app _ => s.subs = [] ∧ s.embs = [] ∧ s.xds = [] ∧
      ∃ b, s.base = .app s.apps.length :: b ∧ IdxLt s.apps.length b.reverse
  | .sub => s.embs = [] ∧ s.xds = [] ∧ IdxLt s.apps.length s.base.reverse
  | .emb => s.xds = [] ∧ IdxLt s.apps.length s.base.reverse
  | .xd => IdxLt s.apps.length s.base.reverse

theorem step_out (s s' : St) (t : CTag) (hi : StInv s) (h : s.step t = .ok s') : StInv s' ∧ stOut s' = stOut s ++ [t] := by
  unfold St.step at h
  cases hph : s.phase with
  | base =>
    rw [hph] at h
    simp only at h
    unfold StInv at hi
    rw [hph] at hi
    obtain ⟨h1, h2, h3, h4⟩ := hi
    split at h
    · simp only [Except.ok.injEq] at h
      rw [← h]
      refine ⟨?_, ?_⟩
      · simp only [StInv]
        exact ⟨h1, h2, h3, s.base, rfl, h4⟩
      · simp [stOut, hph]
    · split at h
      · unfold dispatchTop at h
        split at h
        · simp only [Except.ok.injEq] at h; rw [← h]
          exact ⟨by simp only [StInv]; exact ⟨h2, h3, h4⟩, by simp [stOut, hph, h1]⟩
        · split at h
          · simp only [Except.ok.injEq] at h; rw [← h]
            exact ⟨by simp only [StInv]; exact ⟨h3, h4⟩, by simp [stOut, hph, h1, h2]⟩
          · split at h
            · simp only [Except.ok.injEq] at h; rw [← h]
              exact ⟨by simp only [StInv]; exact h4, by simp [stOut, hph, h1, h2, h3]⟩
            · simp at h
      · simp only [Except.ok.injEq] at h
        rw [← h]
        refine ⟨?_, ?_⟩
        · simp only [StInv, hph]
          refine ⟨h1, h2, h3, ?_⟩
          simp only [List.reverse_cons]
          exact idxLt_append _ _ _ h4 trivial
        · simp [stOut, hph, expandBase_append, expandBase]
  | app st =>
    rw [hph] at h
    simp only at h
    unfold StInv at hi
    rw [hph] at hi
    obtain ⟨h1, h2, h3, b, hb, h4⟩ := hi
    split at h
    · -- the group closes
      simp only [Except.ok.injEq] at h
      rw [← h]
      refine ⟨?_, ?_⟩
      · simp only [StInv]
        refine ⟨h1, h2, h3, ?_⟩
        rw [hb]
        simp only [List.reverse_cons, List.length_cons]
        apply idxLt_append
        · exact idxLt_mono (Nat.le_succ _) _ h4
        · exact ⟨Nat.lt_succ_self _, trivial⟩
      · simp only [stOut, hph]
        rw [hb]
        simp only [List.reverse_cons, List.dropLast_concat, expandBase_append, expandBase, List.append_nil]
        have hlen : s.apps.reverse.length = s.apps.length := by simp
        rw [expandBase_stable s.apps.reverse [s.cur.reverse ++ [t]] b.reverse (by rw [hlen]; exact h4)]
        have hget : (s.apps.reverse ++ [s.cur.reverse ++ [t]]).getD s.apps.length [] = s.cur.reverse ++ [t] := by
          rw [List.getD_eq_getElem?_getD, List.getElem?_append_right (by rw [hlen]; exact Nat.le_refl _)]
          simp [hlen]
        rw [hget]
        simp
    · simp only [Except.ok.injEq] at h
      rw [← h]
      refine ⟨?_, ?_⟩
      · simp only [StInv]
        exact ⟨h1, h2, h3, b, hb, h4⟩
      · simp [stOut, hph]
  | sub =>
    rw [hph] at h
    simp only at h
    unfold StInv at hi
    rw [hph] at hi
    obtain ⟨h2, h3, h4⟩ := hi
    split at h
    · unfold dispatchTop at h
      split at h
      · simp only [Except.ok.injEq] at h; rw [← h]
        exact ⟨by simp only [StInv]; exact ⟨h2, h3, h4⟩, by simp [stOut, hph]⟩
      · split at h
        · simp only [Except.ok.injEq] at h; rw [← h]
          exact ⟨by simp only [StInv]; exact ⟨h3, h4⟩, by simp [stOut, hph, h2]⟩
        · split at h
          · simp only [Except.ok.injEq] at h; rw [← h]
            exact ⟨by simp only [StInv]; exact h4, by simp [stOut, hph, h2, h3]⟩
          · simp at h
    · simp only [Except.ok.injEq] at h
      rw [← h]
      exact ⟨by simp only [StInv, hph]; exact ⟨h2, h3, h4⟩, by simp [stOut, hph]⟩
  | emb =>
    rw [hph] at h
    simp only at h
    unfold StInv at hi
    rw [hph] at hi
    obtain ⟨h3, h4⟩ := hi
    split at h
    · unfold dispatchEmb at h
      split at h
      · simp only [Except.ok.injEq] at h; rw [← h]
        exact ⟨by simp only [StInv]; exact ⟨h3, h4⟩, by simp [stOut, hph]⟩
      · split at h
        · simp only [Except.ok.injEq] at h; rw [← h]
          exact ⟨by simp only [StInv]; exact h4, by simp [stOut, hph, h3]⟩
        · simp at h
    · simp only [Except.ok.injEq] at h
      rw [← h]
      exact ⟨by simp only [StInv, hph]; exact ⟨h3, h4⟩, by simp [stOut, hph]⟩
  | xd =>
    rw [hph] at h
    simp only at h
    unfold StInv at hi
    rw [hph] at hi
    split at h
    · next h1001 =>
      unfold dispatchXd at h
      simp only [h1001, if_true, Except.ok.injEq] at h
      rw [← h]
      exact ⟨by simp only [StInv]; exact hi, by simp [stOut, hph]⟩
    · simp only [Except.ok.injEq] at h
      rw [← h]
      exact ⟨by simp only [StInv, hph]; exact hi, by simp [stOut, hph]⟩

theorem setupGo_iter (l : List CTag) : ∀ (s : St) (x : XT), StInv s → setupGo s l = .ok x → x.iter = stOut s ++ l := by
  induction l with
  | nil =>
    intro s x hi h
    unfold setupGo St.finish at h
    unfold StInv at hi
    cases hph : s.phase with
    | base =>
      rw [hph] at h hi
      simp only [Except.ok.injEq] at h
      rw [← h]
      simp [XT.iter, stOut, hph, hi.1, hi.2.1, hi.2.2.1]
    | app st => rw [hph] at h; simp at h
    | sub =>
      rw [hph] at h hi
      simp only [Except.ok.injEq] at h
      rw [← h]
      simp [XT.iter, stOut, hph, hi.1, hi.2.1]
    | emb =>
      rw [hph] at h hi
      simp only [Except.ok.injEq] at h
      rw [← h]
      simp [XT.iter, stOut, hph, hi.1]
    | xd =>
      rw [hph] at h
      simp only [Except.ok.injEq] at h
      rw [← h]
      simp [XT.iter, stOut, hph]
  | cons t r ih =>
    intro s x hi h
    unfold setupGo at h
    obtain ⟨s', hs⟩ := step_ok s t
    rw [hs] at h
    obtain ⟨hi', ho⟩ := step_out s s' t hi hs
    rw [ih s' x hi' h, ho]
    simp

/-- `list(ExtendedTags(tags)) == tags` for EVERY tag list for which `_setup` does not raise -/
theorem setup_iter (e : List CTag) (x : XT) (h : setup e = .ok x) : x.iter = e := by
  have := setupGo_iter e St.init x (by simp [StInv, St.init, IdxLt]) h
  simpa [stOut, St.init, expandBase] using this

end EzdxfVerif.Lemmas.RecoverLoad

/-
ParagraphProperties: `tostring()` → `parse_paragraph_properties` round trip on the value texts
(lemmas for Props/C20).
-/
import EzdxfVerif.Lemmas.TextEditor
namespace EzdxfVerif.Text

def sepTail (X : Str) : Str := if X.isEmpty then [] else ',' :: X

theorem stop_comma : stopChar ',' := by simp [stopChar]; decide

theorem skipCommas_head (X : Str) (h : X.head? ≠ some ',') : skipCommas X = X := by
  cases X with
  | nil => rfl
  | cons a t =>
    have : a ≠ ',' := by intro ha; apply h; simp [ha]
    simp [skipCommas, List.dropWhile, this]

theorem paraFloatExpr_sep (f X : Str) (hf : isFloatText f = true) (hX : X.head? ≠ some ',') :
    paraFloatExpr (f ++ sepTail X) = (f, X) := by
  have hf' := hf
  simp only [isFloatText, Bool.and_eq_true, Bool.not_eq_true', decide_eq_true_eq] at hf'
  have hne : f ≠ [] := by intro h; subst h; simp at hf'
  unfold sepTail
  cases X with
  | nil =>
    simp only [List.isEmpty_nil, ↓reduceIte, List.append_nil]
    unfold paraFloatExpr
    simp [hf'.2, hne, skipCommas]
  | cons a t =>
    simp only [List.isEmpty_cons, Bool.false_eq_true, ↓reduceIte]
    obtain ⟨hm, _⟩ := floatText_match f hf ',' (a :: t) stop_comma
    unfold paraFloatExpr
    simp only [hm, hne, ↓reduceIte]
    have : skipCommas (',' :: a :: t) = skipCommas (a :: t) := by simp [skipCommas, List.dropWhile]
    rw [this, skipCommas_head _ hX]

theorem floatText_head {f : Str} (hf : isFloatText f = true) :
    ∃ c t, f = c :: t ∧ isFloatChar c := by
  have hall := floatText_argChars f hf
  simp only [isFloatText, Bool.and_eq_true, Bool.not_eq_true', decide_eq_true_eq] at hf
  cases f with
  | nil => simp at hf
  | cons c t =>
    refine ⟨c, t, rfl, ?_⟩
    exact matchFloat_chars (c :: t) c (by rw [hf.2]; simp)

theorem floatChar_not_letter {c : Char} (h : isFloatChar c) :
    c ≠ 'r' ∧ c ≠ 'c' ∧ c ≠ ',' ∧ c ≠ 'i' ∧ c ≠ 'l' ∧ c ≠ 'q' ∧ c ≠ 't' := by
  rcases h with h | h | h | h | h | h
  · simp only [isDigit, decide_eq_true_eq] at h
    have h1 : 48 ≤ c.toNat := h.1
    have h2 : c.toNat ≤ 57 := h.2
    have e : ∀ k : Char, c = k → c.toNat = k.toNat := fun k hk => by rw [hk]
    refine ⟨?_, ?_, ?_, ?_, ?_, ?_, ?_⟩ <;> (intro hk; have := e _ hk; simp at this; omega)
  all_goals (subst h; decide)

def Tab.Wf : Tab → Prop
  | .left f | .center f | .right f => isFloatText f = true

theorem tabText_head (t : Tab) (h : t.Wf) (X : Str) : (t.text ++ X).head? ≠ some ',' := by
  cases t with
  | left f =>
    obtain ⟨c, r, rfl, hc⟩ := floatText_head h
    simp [Tab.text, (floatChar_not_letter hc).2.2.1]
  | center f => simp [Tab.text]
  | right f => simp [Tab.text]

theorem commaJoin_cons (a : Str) (l : List Str) (h : l ≠ []) : commaJoin (a :: l) = a ++ ',' :: commaJoin l := by
  cases l with
  | nil => exact absurd rfl h
  | cons b l => rfl

theorem commaJoin_sep (a : Str) (l : List Str) (hne : ∀ x ∈ l, x ≠ []) :
    commaJoin (a :: l) = a ++ sepTail (commaJoin l) := by
  cases l with
  | nil => simp [commaJoin, sepTail]
  | cons b l =>
    have hb : b ≠ [] := hne b (by simp)
    have : commaJoin (b :: l) ≠ [] := by
      cases l with
      | nil => simpa [commaJoin] using hb
      | cons c l => cases b <;> simp_all [commaJoin]
    have e : (commaJoin (b :: l)).isEmpty = false := by cases hcj : commaJoin (b :: l) <;> simp_all
    simp [commaJoin, sepTail, e]

theorem tabs_text_ne (ts : List Tab) (h : ∀ t ∈ ts, t.Wf) : ∀ x ∈ ts.map Tab.text, x ≠ [] := by
  intro x hx
  simp only [List.mem_map] at hx
  obtain ⟨t, ht, rfl⟩ := hx
  have hw := h t ht
  cases t with
  | left f =>
    obtain ⟨c, r, rfl, _⟩ := floatText_head hw
    simp [Tab.text]
  | center f => simp [Tab.text]
  | right f => simp [Tab.text]

theorem tabs_join_head (ts : List Tab) (h : ∀ t ∈ ts, t.Wf) :
    (commaJoin (ts.map Tab.text)).head? ≠ some ',' := by
  cases ts with
  | nil => simp [commaJoin]
  | cons t l =>
    rw [List.map_cons, commaJoin_sep _ _ (tabs_text_ne l (fun x hx => h x (by simp [hx])))]
    exact tabText_head t (h t (by simp)) _

/-- the tab stop loop reads back the tab stops -/
theorem paraTabVals_join (ts : List Tab) (h : ∀ t ∈ ts, t.Wf) (acc : List Tab) :
    paraTabVals (commaJoin (ts.map Tab.text)) acc = acc ++ ts := by
  induction ts generalizing acc with
  | nil =>
    have : commaJoin (List.map Tab.text []) = [] := rfl
    rw [this, paraTabVals.eq_def]; simp
  | cons t l ih =>
    have hl : ∀ x ∈ l, x.Wf := fun x hx => h x (by simp [hx])
    rw [List.map_cons, commaJoin_sep _ _ (tabs_text_ne l hl)]
    have hX := tabs_join_head l hl
    have ht := h t (by simp)
    cases t with
    | left f =>
      obtain ⟨c, r, hfr, hc⟩ := floatText_head ht
      have hnl := floatChar_not_letter hc
      have hpe := paraFloatExpr_sep f _ ht hX
      simp only [Tab.text]
      rw [paraTabVals.eq_def]
      have e : f ++ sepTail (commaJoin (l.map Tab.text)) = c :: (r ++ sepTail (commaJoin (l.map Tab.text))) := by
        rw [hfr]; rfl
      rw [e] at hpe ⊢
      simp only [hnl.1, hnl.2.1, ↓reduceIte, hpe]
      have : (c :: r).isEmpty = false := rfl
      simp only [hfr] at *
      simp only [List.isEmpty_cons, Bool.false_eq_true, ↓reduceDIte]
      rw [ih hl]; simp
    | center f =>
      have hpe := paraFloatExpr_sep f _ ht hX
      simp only [Tab.text, List.cons_append]
      rw [paraTabVals.eq_def]
      have hne : f ≠ [] := by
        obtain ⟨c, r, rfl, _⟩ := floatText_head ht; simp
      simp only [show ('c' : Char) ≠ 'r' by decide, ↓reduceIte, hpe]
      rw [ih hl]; simp [hne]
    | right f =>
      have hpe := paraFloatExpr_sep f _ ht hX
      simp only [Tab.text, List.cons_append]
      rw [paraTabVals.eq_def]
      have hne : f ≠ [] := by
        obtain ⟨c, r, rfl, _⟩ := floatText_head ht; simp
      simp only [↓reduceIte, hpe]
      rw [ih hl]; simp [hne]

/-! ### the argument groups in front of the tab stops -/

inductive Piece where
  | ind (f : Str) | lft (f : Str) | rgt (f : Str) | aln (c : Char)

def Piece.render : Piece → Str
  | .ind f => 'i' :: f
  | .lft f => 'l' :: f
  | .rgt f => 'r' :: f
  | .aln c => ['q', c]

def Piece.apply (v : ParaProps) : Piece → ParaProps
  | .ind f => { v with indent := some f }
  | .lft f => { v with left := some f }
  | .rgt f => { v with right := some f }
  | .aln c => { v with align := some c }

def Piece.Wf : Piece → Prop
  | .ind f | .lft f | .rgt f => isFloatText f = true
  | .aln c => alignOf c = some c

theorem optText_float {f : Str} (h : isFloatText f = true) : optText f = some f := by
  simp only [isFloatText, Bool.and_eq_true, Bool.not_eq_true'] at h
  simp [optText, h.1]

theorem piece_step (p : Piece) (hp : p.Wf) (X : Str) (hX : X.head? ≠ some ',') (v : ParaProps) :
    paraValsLoop (p.render ++ sepTail X) v = paraValsLoop X (p.apply v) := by
  cases p with
  | ind f =>
    simp only [Piece.render, List.cons_append]
    rw [paraValsLoop.eq_def]
    simp only [↓reduceIte, paraFloatExpr_sep f X hp hX, optText_float hp, Piece.apply]
  | lft f =>
    simp only [Piece.render, List.cons_append]
    rw [paraValsLoop.eq_def]
    simp only [show ('l' : Char) ≠ 'i' by decide, ↓reduceIte, paraFloatExpr_sep f X hp hX, optText_float hp, Piece.apply]
  | rgt f =>
    simp only [Piece.render, List.cons_append]
    rw [paraValsLoop.eq_def]
    simp only [show ('r' : Char) ≠ 'i' by decide, show ('r' : Char) ≠ 'l' by decide, ↓reduceIte,
      paraFloatExpr_sep f X hp hX, optText_float hp, Piece.apply]
  | aln c =>
    simp only [Piece.render, List.cons_append, List.nil_append]
    rw [paraValsLoop.eq_def]
    have hs : skipCommas (sepTail X) = X := by
      unfold sepTail
      cases X with
      | nil => rfl
      | cons a t =>
        have : skipCommas (',' :: a :: t) = skipCommas (a :: t) := by simp [skipCommas, List.dropWhile]
        simp only [List.isEmpty_cons, Bool.false_eq_true, ↓reduceIte, this]
        exact skipCommas_head _ hX
    have hp' : alignOf c = some c := hp
    simp only [show ('q' : Char) ≠ 'i' by decide, show ('q' : Char) ≠ 'l' by decide, show ('q' : Char) ≠ 'r' by decide,
      ↓reduceIte, List.drop_succ_cons, List.drop_zero, hs, List.head?_cons, Option.bind_some, hp', Piece.apply]

theorem tabs_step (ts : List Tab) (h : ∀ t ∈ ts, t.Wf) (v : ParaProps) :
    paraValsLoop ('t' :: commaJoin (ts.map Tab.text)) v = { v with tabs := ts } := by
  rw [paraValsLoop.eq_def]
  simp only [show ('t' : Char) ≠ 'i' by decide, show ('t' : Char) ≠ 'l' by decide, show ('t' : Char) ≠ 'r' by decide,
    show ('t' : Char) ≠ 'q' by decide, ↓reduceIte, paraTabVals_join ts h [], List.nil_append]

def renderAll (ps : List Piece) (ts : List Tab) : List Str :=
  ps.map Piece.render ++ (if ts.isEmpty then [] else ['t' :: commaJoin (ts.map Tab.text)])

theorem renderAll_ne (ps : List Piece) (ts : List Tab) : ∀ x ∈ renderAll ps ts, x ≠ [] := by
  intro x hx
  simp only [renderAll, List.mem_append, List.mem_map] at hx
  rcases hx with ⟨p, _, rfl⟩ | hx
  · cases p <;> simp [Piece.render]
  · split at hx
    · simp at hx
    · simp at hx; subst hx; simp

theorem renderAll_head (ps : List Piece) (ts : List Tab) : (commaJoin (renderAll ps ts)).head? ≠ some ',' := by
  cases ps with
  | nil =>
    simp only [renderAll, List.map_nil, List.nil_append]
    split <;> simp [commaJoin]
  | cons p l =>
    have : renderAll (p :: l) ts = p.render :: renderAll l ts := by simp [renderAll]
    rw [this, commaJoin_sep _ _ (renderAll_ne l ts)]
    cases p <;> simp [Piece.render]

/-- the parser applies the argument groups in order and then the tab stops -/
theorem parse_renderAll (ps : List Piece) (ts : List Tab) (hp : ∀ p ∈ ps, p.Wf) (ht : ∀ t ∈ ts, t.Wf) (v : ParaProps) :
    paraValsLoop (commaJoin (renderAll ps ts)) v =
      (if ts.isEmpty then ps.foldl Piece.apply v else { ps.foldl Piece.apply v with tabs := ts }) := by
  induction ps generalizing v with
  | nil =>
    simp only [renderAll, List.map_nil, List.nil_append, List.foldl_nil]
    split
    · rw [show commaJoin ([] : List Str) = [] from rfl, paraValsLoop.eq_def]
    · rw [show ∀ a : Str, commaJoin [a] = a from fun _ => rfl, tabs_step ts ht]
  | cons p l ih =>
    have : renderAll (p :: l) ts = p.render :: renderAll l ts := by simp [renderAll]
    rw [this, commaJoin_sep _ _ (renderAll_ne l ts),
      piece_step p (hp p (by simp)) _ (renderAll_head l ts), ih (fun x hx => hp x (by simp [hx]))]
    rfl

def ParaProps.Wf (p : ParaProps) : Prop :=
  (∀ f, p.indent = some f → isFloatText f = true) ∧ (∀ f, p.left = some f → isFloatText f = true) ∧
  (∀ f, p.right = some f → isFloatText f = true) ∧ (∀ c, p.align = some c → alignOf c = some c) ∧
  (∀ t ∈ p.tabs, t.Wf)

def piecesOf (p : ParaProps) : List Piece :=
  p.indent.toList.map .ind ++ p.left.toList.map .lft ++ p.right.toList.map .rgt ++ p.align.toList.map .aln

/-- `parse(tostring(p)) = p` on the value texts, from the default context -/
theorem para_roundtrip (p : ParaProps) (h : p.Wf) :
    (match p.toArgs with | none => p = {} | some a => paraParse a = p ∧ paraParse ('x' :: a) = p) := by
  obtain ⟨h1, h2, h3, h4, h5⟩ := h
  have hpieces : p.pieces = renderAll (piecesOf p) p.tabs := by
    obtain ⟨i, l, r, a, ts⟩ := p
    cases i <;> cases l <;> cases r <;> cases a <;> simp [ParaProps.pieces, renderAll, piecesOf, Piece.render]
  have hwf : ∀ q ∈ piecesOf p, q.Wf := by
    intro q hq
    simp only [piecesOf, List.mem_append, List.mem_map, Option.mem_toList] at hq
    rcases hq with ((⟨f, hf, rfl⟩ | ⟨f, hf, rfl⟩) | ⟨f, hf, rfl⟩) | ⟨c, hc, rfl⟩
    · exact h1 f hf
    · exact h2 f hf
    · exact h3 f hf
    · exact h4 c hc
  have hparse := parse_renderAll (piecesOf p) p.tabs hwf h5 {}
  have hfold : (if p.tabs.isEmpty then (piecesOf p).foldl Piece.apply {} else
      { (piecesOf p).foldl Piece.apply {} with tabs := p.tabs }) = p := by
    obtain ⟨i, l, r, a, ts⟩ := p
    cases i <;> cases l <;> cases r <;> cases a <;> cases ts <;> simp [piecesOf, Piece.apply]
  unfold ParaProps.toArgs
  split
  · rename_i he
    rw [hpieces] at he
    obtain ⟨i, l, r, a, ts⟩ := p
    cases i <;> cases l <;> cases r <;> cases a <;> cases ts <;> simp_all [renderAll, piecesOf]
  · have hx : ∀ s v, paraValsLoop ('x' :: s) v = paraValsLoop s v := by
      intro s v
      conv => lhs; rw [paraValsLoop.eq_def]
      simp
    rename_i a heq
    split at heq
    · cases heq
    · cases heq
      unfold paraParse
      rw [hx, hpieces, hparse, hfold]
      exact ⟨rfl, rfl⟩

end EzdxfVerif.Text

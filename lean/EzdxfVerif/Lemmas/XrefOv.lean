/-
Helper lemmas for the override table of C17 (Model/XrefOv.lean): what a chain of map events does to ONE attribute.
Not counted; the counted statements are in Props/C17.lean.
-/
import EzdxfVerif.Model.XrefOv

namespace EzdxfVerif.XrefOv
open EzdxfVerif.Xref

/-! ## handle attributes -/

/-- a value is closed: null, a σ-image, or the handle of a target object a `copyref` statement produced -/
def ClosedV (σ : Sigma) (tobj : Nat → Nat) (v : Nat) : Prop := v = 0 ∨ v ∈ σ.range ∨ ∃ b, v = tobj b

theorem sigma_get_closed (σ : Sigma) (tobj : Nat → Nat) (h : Nat) : ClosedV σ tobj (σ.get h) := by
  unfold Sigma.get
  split
  · rename_i e he
    right; left
    simp only [Sigma.range, List.mem_map]
    exact ⟨e, List.mem_of_find?_eq_some he, rfl⟩
  · left; rfl

/-- every value of the clone is closed or still the value the source has -/
def InvA (σ : Sigma) (tobj : Nat → Nat) (src cl : Attrs) : Prop :=
  ∀ a v, cl a = some v → ClosedV σ tobj v ∨ src a = some v

theorem upd_same (f : Attrs) (a : Nat) (v : Option Nat) : upd f a v a = v := by simp [upd]
theorem upd_other (f : Attrs) (a b : Nat) (v : Option Nat) (h : b ≠ a) : upd f a v b = f b := by simp [upd, h]

/-- a statement changes no attribute but its own -/
theorem applyEv0_other (σ : Sigma) (tobj : Nat → Nat) (src cl : Attrs) (e : MapEv) (b : Nat) (h : b ≠ e.attr) :
    applyEv0 σ tobj src e cl b = cl b := by
  obtain ⟨attr, via, rs, cnd⟩ := e
  simp only at h
  cases via <;> simp only [applyEv0]
  · cases (if rs = true then src attr else cl attr) <;> simp [upd, h]
  · cases src attr with
    | none => rfl
    | some x => simp [upd, h]
  · cases src attr with
    | none => rfl
    | some x => by_cases h1 : σ.get x = 0 <;> simp [upd, h, h1]
  · simp [upd, h]
  · simp [upd, h]

/-- whatever a statement writes is closed -/
theorem applyEv0_self (σ : Sigma) (tobj : Nat → Nat) (src cl : Attrs) (e : MapEv) (v : Nat)
    (hv : applyEv0 σ tobj src e cl e.attr = some v) : ClosedV σ tobj v ∨ cl e.attr = some v := by
  obtain ⟨attr, via, rs, cnd⟩ := e
  simp only at hv ⊢
  cases via <;> simp only [applyEv0] at hv
  · cases hx : (if rs = true then src attr else cl attr) with
    | none => rw [hx] at hv; exact Or.inr hv
    | some x => rw [hx] at hv; simp only [upd, ↓reduceIte] at hv; cases hv; exact Or.inl (sigma_get_closed σ tobj _)
  · cases hx : src attr with
    | none => rw [hx] at hv; exact Or.inr hv
    | some x =>
      rw [hx] at hv
      simp only [upd, ↓reduceIte] at hv; cases hv; exact Or.inl (sigma_get_closed σ tobj _)
  · cases hx : src attr with
    | none => rw [hx] at hv; exact Or.inr hv
    | some x =>
      rw [hx] at hv
      by_cases h1 : σ.get x = 0
      · simp [h1, upd] at hv
      · simp only [ne_eq, h1, not_false_eq_true, ↓reduceIte, upd] at hv
        cases hv; exact Or.inl (sigma_get_closed σ tobj _)
  · simp [upd] at hv
  · exact Or.inr hv
  · simp only [upd, ↓reduceIte] at hv; cases hv; exact Or.inl (Or.inr (Or.inr ⟨_, rfl⟩))
  · exact Or.inr hv
  · exact Or.inr hv

/-- a closing statement (without its guard) leaves its attribute closed (given the invariant) -/
theorem applyEv0_closes (σ : Sigma) (tobj : Nat → Nat) (src cl : Attrs) (e : MapEv) (hi : InvA σ tobj src cl)
    (hc : e.via.closes = true) (v : Nat) (hv : applyEv0 σ tobj src e cl e.attr = some v) : ClosedV σ tobj v := by
  obtain ⟨attr, via, rs, cnd⟩ := e
  simp only at hv hc
  cases via <;> simp only [applyEv0] at hv <;> simp only [Via.closes] at hc
  · -- handle
    cases hx : (if rs = true then src attr else cl attr) with
    | some x => rw [hx] at hv; simp only [upd, ↓reduceIte] at hv; cases hv; exact sigma_get_closed σ tobj _
    | none =>
      rw [hx] at hv
      have hv' : cl attr = some v := hv
      rcases hi _ v hv' with c | c
      · exact c
      · cases rs
        · simp only [Bool.false_eq_true, ↓reduceIte] at hx; rw [hv'] at hx; cases hx
        · simp only [↓reduceIte] at hx; rw [c] at hx; cases hx
  · -- existing
    cases hx : src attr with
    | none =>
      rw [hx] at hv
      rcases hi _ v hv with c | c
      · exact c
      · rw [hx] at c; cases c
    | some x =>
      rw [hx] at hv
      simp only [upd, ↓reduceIte] at hv; cases hv; exact sigma_get_closed σ tobj _
  · -- existingOpt
    cases hx : src attr with
    | none =>
      rw [hx] at hv
      rcases hi _ v hv with c | c
      · exact c
      · rw [hx] at c; cases c
    | some x =>
      rw [hx] at hv
      by_cases h1 : σ.get x = 0
      · simp [h1, upd] at hv
      · simp only [ne_eq, h1, not_false_eq_true, ↓reduceIte, upd] at hv
        cases hv; exact sigma_get_closed σ tobj _
  · simp [upd] at hv
  · cases hc
  · simp only [upd, ↓reduceIte] at hv; cases hv; exact Or.inr (Or.inr ⟨_, rfl⟩)
  all_goals cases hc

/-- a statement changes no attribute but its own -/
theorem applyEv_other (orc : Nat → Bool) (σ : Sigma) (tobj : Nat → Nat) (src cl : Attrs) (e : MapEv) (b : Nat) (h : b ≠ e.attr) :
    applyEv orc σ tobj src e cl b = cl b := by
  unfold applyEv
  rw [if_neg h]

theorem applyEv_self (orc : Nat → Bool) (σ : Sigma) (tobj : Nat → Nat) (src cl : Attrs) (e : MapEv) (v : Nat)
    (hv : applyEv orc σ tobj src e cl e.attr = some v) : ClosedV σ tobj v ∨ cl e.attr = some v := by
  unfold applyEv at hv
  rw [if_pos rfl] at hv
  split at hv
  · exact applyEv0_self σ tobj src cl e v hv
  · exact Or.inr hv

theorem applyEv_inv (orc : Nat → Bool) (σ : Sigma) (tobj : Nat → Nat) (src cl : Attrs) (e : MapEv) (hi : InvA σ tobj src cl) :
    InvA σ tobj src (applyEv orc σ tobj src e cl) := by
  intro a v hv
  by_cases ha : a = e.attr
  · subst ha
    rcases applyEv_self orc σ tobj src cl e v hv with c | c
    · exact Or.inl c
    · exact hi _ v c
  · rw [applyEv_other orc σ tobj src cl e a ha] at hv
    exact hi a v hv

/-- the statement runs, or the source attribute is absent / null (then there is nothing to close) -/
def Fires (orc : Nat → Bool) (src cl : Attrs) (e : MapEv) : Prop :=
  e.cond.holds orc (src e.attr) (cl e.attr) = true ∨ src e.attr = none ∨ src e.attr = some 0

/-- a closing statement that fires leaves its attribute closed (given the invariant) -/
theorem applyEv_closes (orc : Nat → Bool) (σ : Sigma) (tobj : Nat → Nat) (src cl : Attrs) (e : MapEv) (hi : InvA σ tobj src cl)
    (hc : e.via.closes = true) (hf : Fires orc src cl e) (v : Nat) (hv : applyEv orc σ tobj src e cl e.attr = some v) :
    ClosedV σ tobj v := by
  unfold applyEv at hv
  rw [if_pos rfl] at hv
  split at hv
  · exact applyEv0_closes σ tobj src cl e hi hc v hv
  · rename_i hnot
    rcases hf with c | c | c
    · exact absurd c hnot
    · rcases hi _ v hv with d | d
      · exact d
      · rw [c] at d; cases d
    · rcases hi _ v hv with d | d
      · exact d
      · rw [c] at d; cases d; exact Or.inl rfl

/-- a closed attribute stays closed -/
theorem applyEv_keeps (orc : Nat → Bool) (σ : Sigma) (tobj : Nat → Nat) (src cl : Attrs) (e : MapEv) (a : Nat)
    (hcl : ∀ v, cl a = some v → ClosedV σ tobj v) : ∀ v, applyEv orc σ tobj src e cl a = some v → ClosedV σ tobj v := by
  intro v hv
  by_cases ha : a = e.attr
  · subst ha
    rcases applyEv_self orc σ tobj src cl e v hv with c | c
    · exact c
    · exact hcl v c
  · rw [applyEv_other orc σ tobj src cl e a ha] at hv
    exact hcl v hv

/-- a guard that fires on set values fires, or there is nothing to close -/
theorem fires_of_firesOnSet (orc : Nat → Bool) (src cl : Attrs) (e : MapEv) (h : e.cond.firesOnSet = true) : Fires orc src cl e := by
  unfold Fires
  cases hs : src e.attr with
  | none => exact Or.inr (Or.inl rfl)
  | some x =>
    by_cases hx : x = 0
    · subst hx; exact Or.inr (Or.inr rfl)
    · left
      cases hc : e.cond <;> simp_all [Cond.firesOnSet, Cond.holds, isSet]

theorem mapAttrsFrom_closed (orc : Nat → Bool) (σ : Sigma) (tobj : Nat → Nat) (src : Attrs) (a : Nat) :
    ∀ (evs : List MapEv) (cl : Attrs), InvA σ tobj src cl →
      ((∃ e ∈ evs, e.attr = a ∧ e.via.closes = true ∧ ∀ c : Attrs, Fires orc src c e) ∨ ∀ v, cl a = some v → ClosedV σ tobj v) →
      ∀ v, mapAttrsFrom orc σ tobj src evs cl a = some v → ClosedV σ tobj v := by
  intro evs
  induction evs with
  | nil =>
    intro cl _ h v hv
    rcases h with ⟨e, he, _⟩ | h
    · simp at he
    · exact h v hv
  | cons e es ih =>
    intro cl hi h v hv
    simp only [mapAttrsFrom, List.foldl_cons] at hv
    refine ih (applyEv orc σ tobj src e cl) (applyEv_inv orc σ tobj src cl e hi) ?_ v hv
    rcases h with ⟨e', he', hea, hc, hf⟩ | h
    · rcases List.mem_cons.mp he' with c | c
      · right
        subst c
        subst hea
        exact applyEv_closes orc σ tobj src cl e' hi hc (hf cl)
      · left; exact ⟨e', c, hea, hc, hf⟩
    · right
      exact applyEv_keeps orc σ tobj src cl e a h

/-- coverage gives a closing statement that fires, whatever the undecided tests say -/
theorem covered_fires (orc : Nat → Bool) (src : Attrs) (evs : List MapEv) (a : Nat) (h : covered evs a = true) :
    ∃ e ∈ evs, e.attr = a ∧ e.via.closes = true ∧ ∀ c : Attrs, Fires orc src c e := by
  unfold covered at h
  rcases Bool.or_eq_true_iff.mp h with h1 | h1
  · obtain ⟨e, he, hp⟩ := List.any_eq_true.mp h1
    simp only [Bool.decide_and, Bool.decide_eq_true, Bool.and_eq_true, decide_eq_true_eq] at hp
    exact ⟨e, he, hp.1, hp.2.1, fun c => fires_of_firesOnSet orc src c e hp.2.2⟩
  · obtain ⟨e, he, hp⟩ := List.any_eq_true.mp h1
    cases hk : e.cond with
    | unk k pos =>
      cases pos with
      | false => rw [hk] at hp; cases hp
      | true =>
        rw [hk] at hp
        simp only [Bool.decide_and, Bool.decide_eq_true, Bool.and_eq_true, decide_eq_true_eq] at hp
        obtain ⟨hea, hc, hany⟩ := hp
        obtain ⟨e', he', hp'⟩ := List.any_eq_true.mp hany
        simp only [Bool.decide_and, Bool.decide_eq_true, Bool.and_eq_true, decide_eq_true_eq] at hp'
        obtain ⟨hea', hc', hk'⟩ := hp'
        by_cases ho : orc k = true
        · exact ⟨e, he, hea, hc, fun c => Or.inl (by simp [hk, Cond.holds, ho])⟩
        · exact ⟨e', he', by first | exact hea' | exact hea'.trans hea, hc', fun c => Or.inl (by simp [hk', Cond.holds, ho])⟩
    | always => rw [hk] at hp; cases hp
    | ifPresent => rw [hk] at hp; cases hp
    | ifAbsent => rw [hk] at hp; cases hp
    | ifSet => rw [hk] at hp; cases hp
    | ifUnset => rw [hk] at hp; cases hp
    | ifCloneAbsent => rw [hk] at hp; cases hp

/-- the value a chain leaves in attribute `a` when every statement for `a` is an unguarded `get_handle` of the SOURCE value -/
theorem mapAttrsFrom_handle (orc : Nat → Bool) (σ : Sigma) (tobj : Nat → Nat) (src : Attrs) (a h : Nat) (hs : src a = some h) :
    ∀ (evs : List MapEv) (cl : Attrs),
      (∀ e ∈ evs, e.attr = a → e.via = .handle ∧ e.readsSource = true ∧ e.cond.firesOnSet = true) → h ≠ 0 →
      ((∃ e ∈ evs, e.attr = a) ∨ cl a = some (σ.get h)) →
      mapAttrsFrom orc σ tobj src evs cl a = some (σ.get h) := by
  intro evs
  induction evs with
  | nil =>
    intro cl _ _ hx
    rcases hx with ⟨e, he, _⟩ | hx
    · simp at he
    · exact hx
  | cons e es ih =>
    intro cl hall h0 hx
    simp only [mapAttrsFrom, List.foldl_cons]
    apply ih
    · intro e' he'; exact hall e' (List.mem_cons_of_mem _ he')
    · exact h0
    · by_cases hea : e.attr = a
      · right
        obtain ⟨hv, hr, hc⟩ := hall e (List.mem_cons_self ..) hea
        have hholds : e.cond.holds orc (src e.attr) (cl e.attr) = true := by
          rw [hea, hs]
          cases hcc : e.cond <;> simp_all [Cond.firesOnSet, Cond.holds, isSet]
        unfold applyEv
        rw [if_pos hea.symm, ← hea, if_pos hholds]
        unfold applyEv0
        rw [hv]
        simp only [hr, ↓reduceIte, hea, hs, upd]
      · rcases hx with ⟨e', he', hea'⟩ | hx
        · rcases List.mem_cons.mp he' with c | c
          · subst c; exact absurd hea' hea
          · left; exact ⟨e', c, hea'⟩
        · right
          rw [applyEv_other orc σ tobj src cl e a (fun c => hea c.symm)]
          exact hx

/-! ## name attributes -/

theorem applyEvN_other (nm : Nat → Str → Str) (tname : Nat → Str) (src cl : Names) (e : MapEv) (b : Nat) (h : b ≠ e.attr) :
    applyEvN nm tname src e cl b = cl b := by
  obtain ⟨attr, via, rs, cnd⟩ := e
  simp only at h
  cases via <;> simp only [applyEvN]
  · cases (if rs = true then src attr else cl attr) <;> simp [updN, h]
  · simp [updN, h]

/-- a statement whose value does not depend on the clone: what it writes (`none` = it writes nothing) -/
def effN (nm : Nat → Str → Str) (tname : Nat → Str) (src : Names) (e : MapEv) : Option (Option Str) :=
  match e.via with
  | .name k => (src e.attr).map fun s => some (nm k s)
  | .copyref => some (some (tname e.attr))
  | _ => none

/-- every name statement reads the source entity -/
def SrcOnly (evs : List MapEv) : Prop := ∀ e ∈ evs, ∀ k, e.via = .name k → e.readsSource = true

theorem applyEvN_eff (nm : Nat → Str → Str) (tname : Nat → Str) (src cl : Names) (e : MapEv)
    (h : ∀ k, e.via = .name k → e.readsSource = true) :
    applyEvN nm tname src e cl = match effN nm tname src e with | some v => updN cl e.attr v | none => cl := by
  obtain ⟨attr, via, rs, cnd⟩ := e
  cases via <;> simp only [applyEvN, effN]
  · rename_i k
    have : rs = true := h k rfl
    subst this
    simp only [↓reduceIte]
    cases src attr <;> rfl

/-- the last write of a chain to attribute `a` -/
def lastN (nm : Nat → Str → Str) (tname : Nat → Str) (src : Names) (a : Nat) : List MapEv → Option (Option Str)
  | [] => none
  | e :: es =>
    match lastN nm tname src a es with
    | some v => some v
    | none => if e.attr = a then effN nm tname src e else none

theorem mapNamesFrom_last (nm : Nat → Str → Str) (tname : Nat → Str) (src : Names) (a : Nat) :
    ∀ (evs : List MapEv) (cl : Names), SrcOnly evs →
      mapNamesFrom nm tname src evs cl a = match lastN nm tname src a evs with | some v => v | none => cl a := by
  intro evs
  induction evs with
  | nil => intro cl _; rfl
  | cons e es ih =>
    intro cl hs
    have hs' : SrcOnly es := fun e' he' => hs e' (List.mem_cons_of_mem _ he')
    simp only [mapNamesFrom, List.foldl_cons]
    have := ih (applyEvN nm tname src e cl) hs'
    simp only [mapNamesFrom] at this
    rw [this]
    simp only [lastN]
    cases hl : lastN nm tname src a es with
    | some v => rfl
    | none =>
      simp only
      rw [applyEvN_eff nm tname src cl e (hs e (List.mem_cons_self ..))]
      by_cases hea : e.attr = a
      · simp only [hea, ↓reduceIte]
        cases he : effN nm tname src e with
        | some v => simp [updN, ← hea]
        | none => rfl
      · simp only [hea, ↓reduceIte]
        cases he : effN nm tname src e with
        | some v =>
          have : ¬ a = e.attr := fun c => hea c.symm
          simp [updN, this]
        | none => rfl

end EzdxfVerif.XrefOv

/-
Lemmas/PolygonHull.lean — correctness of `convex_hull_2d` (Andrew's monotone chain as coded, `Model/Polygon.lean`):
the invariant of the push loop (`hullPush`), both passes, and the assembly of the returned closed polyline.
Helper lemmas only; the counted statements are in `Props/C19.lean`.

Geometry used: one fact about vectors in the half plane `H = {x > 0} ∪ {x = 0, y > 0}` (the differences of
lexicographically ordered points): the sign of the cross product is a transitive order on `H` (`half_trans`).
-/
import EzdxfVerif.Model.Polygon
import Mathlib.Tactic.Ring
import Mathlib.Tactic.Linarith
import Mathlib.Tactic.LinearCombination
import Mathlib.Algebra.Order.Field.Basic

namespace EzdxfVerif.Lemmas.Hull
open EzdxfVerif.Polygon EzdxfVerif.Gen

/-! ## vectors in a half plane -/

/-- lexicographically positive vector -/
def lpos (x y : Rat) : Prop := 0 < x ∨ (x = 0 ∧ 0 < y)
/-- lexicographically positive or zero -/
def lnn (x y : Rat) : Prop := lpos x y ∨ (x = 0 ∧ y = 0)

theorem lnn_x {x y : Rat} (h : lnn x y) : 0 ≤ x := by
  rcases h with (h | h) | h
  · exact le_of_lt h
  · exact le_of_eq h.1.symm
  · exact le_of_eq h.1.symm

/-- the sign of the cross product is transitive on the half plane -/
theorem half_trans {ax ay bx by' cx cy : Rat} (ha : lnn ax ay) (hb : lpos bx by') (hc : lnn cx cy)
    (h1 : 0 ≤ ax * by' - ay * bx) (h2 : 0 ≤ bx * cy - by' * cx) : 0 ≤ ax * cy - ay * cx := by
  have hax := lnn_x ha
  have hcx := lnn_x hc
  rcases hb with hb | ⟨hb0, hb1⟩
  · by_contra hneg
    rw [not_le] at hneg
    have h3 : bx * (ax * cy - ay * cx) < 0 := mul_neg_of_pos_of_neg hb hneg
    have h4 : bx * (ax * cy - ay * cx) = cx * (ax * by' - ay * bx) + ax * (bx * cy - by' * cx) := by ring
    have h5 : 0 ≤ cx * (ax * by' - ay * bx) := mul_nonneg hcx h1
    have h6 : 0 ≤ ax * (bx * cy - by' * cx) := mul_nonneg hax h2
    linarith
  · subst hb0
    have h7 : by' * cx ≤ 0 := by linarith
    have hcx0 : cx = 0 := by
      rcases eq_or_lt_of_le hcx with h | h
      · exact h.symm
      · exact absurd (mul_pos hb1 h) (by linarith)
    subst hcx0
    have hcy : 0 ≤ cy := by
      rcases hc with (h | h) | h
      · exact absurd h (lt_irrefl _)
      · exact le_of_lt h.2
      · exact le_of_eq h.2.symm
    have := mul_nonneg hax hcy
    linarith

/-- collinear directions `a ∥ b` in the half plane: a vector between them (in the cross product order) is parallel too -/
theorem half_squeeze {ax ay bx by' qx qy : Rat} (ha : lpos ax ay) (hb : lpos bx by') (hq : lnn qx qy)
    (hab : ax * by' - ay * bx = 0) (h1 : 0 ≤ qx * ay - qy * ax) (h2 : 0 ≤ bx * qy - by' * qx) :
    ax * qy - ay * qx = 0 := by
  have k1 : 0 ≤ ax * qy - ay * qx := half_trans (Or.inl ha) hb hq (le_of_eq hab.symm) h2
  linarith

/-! ## points: cross product, lexicographic order -/

def cr (o a b : Pt) : Rat := (a.x - o.x) * (b.y - o.y) - (a.y - o.y) * (b.x - o.x)

theorem hullCross_eq (o a b : Pt) : PolygonKernels.hullCross o.x o.y a.x a.y b.x b.y = cr o a b := rfl

/-- `a < b` in the order of `Vec2.__lt__` -/
def llt (a b : Pt) : Prop := lpos (b.x - a.x) (b.y - a.y)

theorem ptLt_iff (a b : Pt) : ptLt a b = true ↔ llt a b := by
  simp only [ptLt, PolygonKernels.vecLt, llt, lpos]
  split_ifs with h
  · simp only [decide_eq_true_eq] at h ⊢
    constructor
    · intro h1; right; exact ⟨by linarith, by linarith⟩
    · rintro (h1 | ⟨_, h2⟩)
      · linarith
      · linarith
  · simp only [decide_eq_true_eq] at h ⊢
    constructor
    · intro h1; left; linarith
    · rintro (h1 | ⟨h1, _⟩)
      · linarith
      · exact absurd (by linarith) h

theorem llt_irrefl (a : Pt) : ¬ llt a a := by
  simp [llt, lpos]

theorem llt_trans {a b c : Pt} (h1 : llt a b) (h2 : llt b c) : llt a c := by
  simp only [llt, lpos] at *
  rcases h1 with h1 | ⟨h1, h1'⟩ <;> rcases h2 with h2 | ⟨h2, h2'⟩
  · left; linarith
  · left; linarith
  · left; linarith
  · right; exact ⟨by linarith, by linarith⟩

theorem llt_asymm {a b : Pt} (h1 : llt a b) (h2 : llt b a) : False := llt_irrefl a (llt_trans h1 h2)

theorem llt_total (a b : Pt) : llt a b ∨ a = b ∨ llt b a := by
  simp only [llt, lpos]
  rcases lt_trichotomy a.x b.x with h | h | h
  · left; left; linarith
  · rcases lt_trichotomy a.y b.y with h' | h' | h'
    · left; right; exact ⟨by linarith, by linarith⟩
    · right; left
      cases a; cases b; simp_all
    · right; right; right; exact ⟨by linarith, by linarith⟩
  · right; right; left; linarith

/-- the order of one pass: ascending (`true`, first loop) or descending (`false`, second loop) -/
def dlt (s : Bool) (a b : Pt) : Prop := if s then llt a b else llt b a

theorem dlt_trans {s : Bool} {a b c : Pt} (h1 : dlt s a b) (h2 : dlt s b c) : dlt s a c := by
  cases s <;> simp only [dlt, if_true, Bool.false_eq_true, if_false] at *
  · exact llt_trans h2 h1
  · exact llt_trans h1 h2

theorem dlt_irrefl (s : Bool) (a : Pt) : ¬ dlt s a a := by
  cases s <;> simp only [dlt, if_true, Bool.false_eq_true, if_false] <;> exact llt_irrefl a

theorem dlt_total (s : Bool) (a b : Pt) : dlt s a b ∨ a = b ∨ dlt s b a := by
  cases s <;> simp only [dlt, if_true, Bool.false_eq_true, if_false]
  · rcases llt_total a b with h | h | h
    · exact Or.inr (Or.inr h)
    · exact Or.inr (Or.inl h)
    · exact Or.inl h
  · exact llt_total a b

def dle (s : Bool) (a b : Pt) : Prop := dlt s a b ∨ a = b

/-! ## the three geometric steps of the loop invariant -/

private theorem lnn_of {s : Bool} {o p : Pt} (h : dlt s o p ∨ p = o) :
    if s then lnn (p.x - o.x) (p.y - o.y) else lnn (o.x - p.x) (o.y - p.y) := by
  cases s <;> simp only [dlt, if_true, Bool.false_eq_true, if_false] at *
  · rcases h with h | h
    · exact Or.inl h
    · subst h; right; exact ⟨by ring, by ring⟩
  · rcases h with h | h
    · exact Or.inl h
    · subst h; right; exact ⟨by ring, by ring⟩

/-- (A) after a pop: `p` on or left of `o → a`, `v` on or right of it, all beyond `o`: `p` is on or left of `o → v` -/
theorem stepA {s : Bool} {o a v p : Pt} (hoa : dlt s o a) (hov : dlt s o v) (hop : dlt s o p ∨ p = o)
    (h1 : 0 ≤ cr o a p) (h2 : cr o a v ≤ 0) : 0 ≤ cr o v p := by
  have hp := lnn_of hop
  unfold cr at *
  cases s <;> simp only [dlt, if_true, Bool.false_eq_true, if_false] at *
  · have := half_trans (ax := o.x - v.x) (ay := o.y - v.y) (bx := o.x - a.x) (by' := o.y - a.y)
      (cx := o.x - p.x) (cy := o.y - p.y) (Or.inl hov) hoa hp (by linarith) (by linarith)
    linarith
  · have := half_trans (ax := v.x - o.x) (ay := v.y - o.y) (bx := a.x - o.x) (by' := a.y - o.y)
      (cx := p.x - o.x) (cy := p.y - o.y) (Or.inl hov) hoa hp (by linarith) (by linarith)
    linarith

/-- (B) a point `p` before `a`, on or left of `o → a`; `v` beyond `a`, on or left of `o → a`: `p` is on or left of `a → v` -/
theorem stepB {s : Bool} {o a v p : Pt} (hoa : dlt s o a) (hav : dlt s a v) (hpa : dlt s p a)
    (h1 : 0 ≤ cr o a p) (h2 : 0 ≤ cr o a v) : 0 ≤ cr a v p := by
  unfold cr at *
  cases s <;> simp only [dlt, if_true, Bool.false_eq_true, if_false] at *
  · have := half_trans (ax := p.x - a.x) (ay := p.y - a.y) (bx := o.x - a.x) (by' := o.y - a.y)
      (cx := a.x - v.x) (cy := a.y - v.y) (Or.inl hpa) hoa (Or.inl hav) (by linarith) (by linarith)
    linarith
  · have := half_trans (ax := a.x - p.x) (ay := a.y - p.y) (bx := a.x - o.x) (by' := a.y - o.y)
      (cx := v.x - a.x) (cy := v.y - a.y) (Or.inl hpa) hoa (Or.inl hav) (by linarith) (by linarith)
    linarith

/-- (C) along a chain `o' , o , a , v`: left turn at `o`, `v` on or left of `o → a`: `v` is on or left of `o' → o` -/
theorem stepC {s : Bool} {o' o a v : Pt} (h1 : dlt s o' o) (h2 : dlt s o a) (h3 : dlt s a v)
    (t1 : 0 ≤ cr o' o a) (t2 : 0 ≤ cr o a v) : 0 ≤ cr o' o v := by
  unfold cr at *
  cases s <;> simp only [dlt, if_true, Bool.false_eq_true, if_false] at *
  · have := half_trans (ax := o'.x - o.x) (ay := o'.y - o.y) (bx := o.x - a.x) (by' := o.y - a.y)
      (cx := a.x - v.x) (cy := a.y - v.y) (Or.inl h1) h2 (Or.inl h3) (by linarith) (by linarith)
    linarith
  · have := half_trans (ax := o.x - o'.x) (ay := o.y - o'.y) (bx := a.x - o.x) (by' := a.y - o.y)
      (cx := v.x - a.x) (cy := v.y - a.y) (Or.inl h1) h2 (Or.inl h3) (by linarith) (by linarith)
    linarith

/-! ## the stack of one pass (top first) and the invariant of `hullPush` -/

/-- the stack is strictly monotone in the order of the pass (top = latest) -/
def Mono (s : Bool) : List Pt → Prop
  | a :: o :: t => dlt s o a ∧ Mono s (o :: t)
  | _ => True

/-- `p` lies on or left of every edge `o → a` of the chain on the stack -/
def EdgesLeft (p : Pt) : List Pt → Prop
  | a :: o :: t => 0 ≤ cr o a p ∧ EdgesLeft p (o :: t)
  | _ => True

/-- all consecutive triples of the chain on the stack are strict left turns -/
def Turns : List Pt → Prop
  | b :: a :: o :: t => 0 < cr o a b ∧ Turns (a :: o :: t)
  | _ => True

theorem Turns.tail {b : Pt} {l : List Pt} (h : Turns (b :: l)) : Turns l := by
  match l, h with
  | [], _ => trivial
  | [_], _ => trivial
  | _ :: _ :: _, h => exact h.2

theorem cr_self_right (a v : Pt) : cr a v v = 0 := by unfold cr; ring
theorem cr_self_left (a v : Pt) : cr a v a = 0 := by unfold cr; ring

/-- (D) a new point beyond the top that is on or left of the top edge is on or left of every edge of the chain -/
theorem edgesLeft_new {s : Bool} {v : Pt} : ∀ (S : List Pt), Mono s S → Turns S → (∀ a ∈ S.head?, dlt s a v) →
    (∀ a o t, S = a :: o :: t → 0 ≤ cr o a v) → EdgesLeft v S
  | [], _, _, _, _ => trivial
  | [_], _, _, _, _ => trivial
  | [a, o], _, _, _, h4 => ⟨h4 a o [] rfl, trivial⟩
  | a :: o :: o' :: t, h1, h2, h3, h4 => by
    have hav : dlt s a v := h3 a (by simp)
    have h0 : 0 ≤ cr o a v := h4 a o (o' :: t) rfl
    refine ⟨h0, edgesLeft_new (o :: o' :: t) h1.2 h2.tail ?_ ?_⟩
    · intro x hx
      simp only [List.head?_cons, Option.mem_def, Option.some.injEq] at hx
      subst hx
      exact dlt_trans h1.1 hav
    · intro a2 o2 t2 he
      simp only [List.cons.injEq] at he
      obtain ⟨rfl, rfl, rfl⟩ := he
      exact stepC h1.2.1 h1.1 hav (le_of_lt h2.1) h0

theorem hullPopTest_iff (o a v : Pt) : hullPopTest o a v = true ↔ cr o a v ≤ 0 := by
  simp only [hullPopTest, PolygonKernels.hullPop, hullCross_eq, Bool.true_and]
  exact decide_eq_true_iff

/-- The loop invariant of `while k >= 2 and cross(hull[k-2], hull[k-1], v) <= 0: k -= 1; hull[k] = v`.
`P`: the points processed so far. -/
theorem hullPush_inv (s : Bool) (P : List Pt) (v : Pt) (hlt : ∀ p ∈ P, dlt s p v) (S : List Pt)
    (hmono : Mono s S) (hturn : Turns S)
    (hedge : ∀ p ∈ P, EdgesLeft p S)
    (hSP : ∀ x ∈ S, x ∈ P)
    (hbot : ∀ p ∈ P, ∀ b ∈ S.getLast?, dle s b p)
    (htop : ∀ p ∈ P, ∀ a ∈ S.head?, dle s a p → 0 ≤ cr a v p) :
    Mono s (hullPush 2 S v) ∧ Turns (hullPush 2 S v) ∧ (∀ p ∈ P, EdgesLeft p (hullPush 2 S v)) ∧
    EdgesLeft v (hullPush 2 S v) ∧ (hullPush 2 S v).head? = some v ∧
    (∀ x ∈ hullPush 2 S v, x = v ∨ x ∈ S) ∧ (S ≠ [] → (hullPush 2 S v).getLast? = S.getLast?) ∧
    (S = [] → hullPush 2 S v = [v]) := by
  fun_induction hullPush 2 S v with
  | case1 a o rest hc ih =>
    have hpop : cr o a v ≤ 0 := (hullPopTest_iff o a v).mp hc.2
    have hoa : dlt s o a := hmono.1
    have hav : dlt s a v := hlt a (hSP a (by simp))
    have := ih hmono.2 hturn.tail (fun p hp => (hedge p hp).2) (fun x hx => hSP x (List.mem_cons_of_mem _ hx))
      (fun p hp b hb => hbot p hp b (by simpa using hb))
      (by
        intro p hp x hx hle
        simp only [List.head?_cons, Option.mem_def, Option.some.injEq] at hx
        subst hx
        exact stepA hoa (dlt_trans hoa hav) (hle.imp id Eq.symm) (hedge p hp).1 hpop)
    obtain ⟨k1, k2, k3, k4, k5, k6, k7, _⟩ := this
    refine ⟨k1, k2, k3, k4, k5, ?_, ?_, by simp⟩
    · intro x hx
      rcases k6 x hx with h | h
      · exact Or.inl h
      · exact Or.inr (List.mem_cons_of_mem _ h)
    · intro _
      rw [k7 (by simp)]
      simp
  | case2 a o rest hc =>
    have hnp : 0 < cr o a v := by
      have : ¬ hullPopTest o a v = true := fun h => hc ⟨by omega, h⟩
      rw [hullPopTest_iff] at this
      exact not_le.mp this
    have hoa : dlt s o a := hmono.1
    have hav : dlt s a v := hlt a (hSP a (by simp))
    refine ⟨⟨hav, hmono⟩, ⟨hnp, hturn⟩, ?_, ?_, by simp, ?_, ?_, by simp⟩
    · intro p hp
      refine ⟨?_, hedge p hp⟩
      rcases dlt_total s a p with h | h | h
      · exact htop p hp a (by simp) (Or.inl h)
      · exact htop p hp a (by simp) (Or.inr h)
      · exact stepB hoa hav h (hedge p hp).1 (le_of_lt hnp)
    · refine ⟨le_of_eq (cr_self_right a v).symm, ?_⟩
      apply edgesLeft_new (s := s) _ hmono hturn
      · intro x hx
        simp only [List.head?_cons, Option.mem_def, Option.some.injEq] at hx
        subst hx; exact hav
      · intro a2 o2 t2 he
        simp only [List.cons.injEq] at he
        obtain ⟨rfl, rfl, rfl⟩ := he
        exact le_of_lt hnp
    · intro x hx
      simpa using hx
    · intro _
      simp
  | case3 stack hs =>
    match stack, hs with
    | [], _ =>
      refine ⟨trivial, trivial, fun _ _ => trivial, trivial, by simp, ?_, by simp, by simp⟩
      intro x hx; simpa using hx
    | [a], _ =>
      have hav : dlt s a v := hlt a (hSP a (by simp))
      refine ⟨⟨hav, trivial⟩, trivial, ?_, ?_, by simp, ?_, by simp, by simp⟩
      · intro p hp
        exact ⟨htop p hp a (by simp) (hbot p hp a (by simp)), trivial⟩
      · exact ⟨le_of_eq (cr_self_right a v).symm, trivial⟩
      · intro x hx; simpa using hx
    | a :: o :: rest, hs => exact absurd rfl (hs a o rest)

/-! ## one pass = a fold of `hullPush` over a sorted list -/

theorem hullPush_head (f : Nat) (S : List Pt) (v : Pt) : (hullPush f S v).head? = some v := by
  fun_induction hullPush f S v with
  | case1 a o rest hc ih => exact ih
  | case2 a o rest hc => rfl
  | case3 stack hs => rfl

theorem hullPush_ne (f : Nat) (S : List Pt) (v : Pt) : hullPush f S v ≠ [] := by
  intro h
  have := hullPush_head f S v
  rw [h] at this
  simp at this

theorem hullPush_last (f : Nat) (S : List Pt) (v : Pt) (hS : S ≠ []) : (hullPush f S v).getLast? = S.getLast? := by
  fun_induction hullPush f S v with
  | case1 a o rest hc ih => rw [ih (by simp)]; simp
  | case2 a o rest hc => simp
  | case3 stack hs =>
    match stack, hs, hS with
    | [a], _, _ => simp
    | a :: o :: rest, hs, _ => exact absurd rfl (hs a o rest)

structure PassInv (s : Bool) (S P : List Pt) : Prop where
  mono : Mono s S
  turns : Turns S
  edges : ∀ p ∈ P, EdgesLeft p S
  sub : ∀ x ∈ S, x ∈ P
  bot : ∀ p ∈ P, ∀ b ∈ S.getLast?, dle s b p
  top : ∀ p ∈ P, ∀ a ∈ S.head?, dle s p a
  ne : P ≠ [] → S ≠ []

theorem passInv_nil (s : Bool) : PassInv s [] [] :=
  ⟨trivial, trivial, fun _ h => by simp at h, fun _ h => by simp at h, fun _ h => by simp at h, fun _ h => by simp at h,
    fun h => absurd rfl h⟩

theorem passInv_push {s : Bool} {S P : List Pt} {v : Pt} (h : PassInv s S P) (hlt : ∀ p ∈ P, dlt s p v) :
    PassInv s (hullPush 2 S v) (v :: P) := by
  have htop : ∀ p ∈ P, ∀ a ∈ S.head?, dle s a p → 0 ≤ cr a v p := by
    intro p hp a ha hle
    have h2 := h.top p hp a ha
    have : p = a := by
      rcases hle with h1 | h1
      · rcases h2 with h2 | h2
        · exact absurd (dlt_trans h1 h2) (dlt_irrefl s a)
        · exact h2
      · exact h1.symm
    subst this
    exact le_of_eq (cr_self_left p v).symm
  obtain ⟨k1, k2, k3, k4, k5, k6, k7, k8⟩ := hullPush_inv s P v hlt S h.mono h.turns h.edges h.sub h.bot htop
  refine ⟨k1, k2, ?_, ?_, ?_, ?_, fun _ => hullPush_ne 2 S v⟩
  · intro p hp
    rcases List.mem_cons.mp hp with rfl | hp
    · exact k4
    · exact k3 p hp
  · intro x hx
    rcases k6 x hx with rfl | hx
    · simp
    · exact List.mem_cons_of_mem _ (h.sub x hx)
  · intro p hp b hb
    by_cases hS : S = []
    · have hP : P = [] := by
        by_contra hne
        exact h.ne hne hS
      subst hP
      rw [k8 hS] at hb
      simp only [List.getLast?_singleton, Option.mem_def, Option.some.injEq] at hb
      simp only [List.mem_cons, List.not_mem_nil, or_false] at hp
      subst hb; subst hp
      exact Or.inr rfl
    · rw [k7 hS] at hb
      rcases List.mem_cons.mp hp with rfl | hp
      · have hbS : b ∈ S := List.mem_of_getLast? hb
        exact Or.inl (hlt b (h.sub b hbS))
      · exact h.bot p hp b hb
  · intro p hp a ha
    rw [k5] at ha
    simp only [Option.mem_def, Option.some.injEq] at ha
    subst ha
    rcases List.mem_cons.mp hp with rfl | hp
    · exact Or.inr rfl
    · exact Or.inl (hlt p hp)

theorem passInv_fold (s : Bool) : ∀ (vs S P : List Pt), PassInv s S P → List.Pairwise (dlt s) vs →
    (∀ p ∈ P, ∀ q ∈ vs, dlt s p q) → PassInv s (vs.foldl (hullPush 2) S) (vs.reverse ++ P)
  | [], S, P, h, _, _ => by simpa using h
  | v :: vs, S, P, h, hs, hP => by
    rw [List.pairwise_cons] at hs
    have := passInv_fold s vs (hullPush 2 S v) (v :: P) (passInv_push h (fun p hp => hP p hp v (by simp))) hs.2
      (by
        intro p hp q hq
        rcases List.mem_cons.mp hp with rfl | hp
        · exact hs.1 q hq
        · exact hP p hp q (List.mem_cons_of_mem _ hq))
    simpa using this

theorem fold_head (f : Nat) : ∀ (vs S : List Pt), vs ≠ [] → (vs.foldl (hullPush f) S).head? = vs.getLast?
  | [v], S, _ => by simpa using hullPush_head f S v
  | v :: w :: vs, S, _ => by
    have := fold_head f (w :: vs) (hullPush f S v) (by simp)
    simpa using this

theorem fold_last (f : Nat) : ∀ (vs S : List Pt), S ≠ [] → (vs.foldl (hullPush f) S).getLast? = S.getLast?
  | [], S, _ => rfl
  | v :: vs, S, hS => by
    have := fold_last f vs (hullPush f S v) (hullPush_ne f S v)
    rw [List.foldl_cons, this, hullPush_last f S v hS]

/-- the chain built by one pass over a list that is strictly sorted in the order of the pass -/
theorem pass_spec (s : Bool) (v0 : Pt) (vs : List Pt) (hs : List.Pairwise (dlt s) (v0 :: vs)) :
    PassInv s ((v0 :: vs).foldl (hullPush 2) []) (v0 :: vs).reverse ∧
    ((v0 :: vs).foldl (hullPush 2) []).head? = (v0 :: vs).getLast? ∧
    ((v0 :: vs).foldl (hullPush 2) []).getLast? = some v0 := by
  refine ⟨?_, fold_head 2 _ _ (by simp), ?_⟩
  · have := passInv_fold s (v0 :: vs) [] [] (passInv_nil s) hs (fun _ h => by simp at h)
    simpa using this
  · rw [List.foldl_cons]
    have : hullPush 2 [] v0 = [v0] := by simp [hullPush]
    rw [this, fold_last 2 vs [v0] (by simp)]
    simp

/-! ## `set(points)` + `sort()` -/

theorem insertPt_mem (p : Pt) : ∀ (l : List Pt) (q : Pt), q ∈ insertPt p l ↔ q = p ∨ q ∈ l
  | [], q => by simp [insertPt]
  | a :: as, q => by
    unfold insertPt
    split_ifs with h1 h2
    · subst h1; simp
    · simp
    · simp only [List.mem_cons, insertPt_mem p as q]
      tauto

theorem insertPt_sorted (p : Pt) : ∀ (l : List Pt), List.Pairwise llt l → List.Pairwise llt (insertPt p l)
  | [], _ => by simp [insertPt]
  | a :: as, h => by
    rw [List.pairwise_cons] at h
    unfold insertPt
    split_ifs with h1 h2
    · exact List.pairwise_cons.mpr h
    · rw [ptLt_iff] at h2
      refine List.pairwise_cons.mpr ⟨?_, List.pairwise_cons.mpr h⟩
      intro x hx
      rcases List.mem_cons.mp hx with rfl | hx
      · exact h2
      · exact llt_trans h2 (h.1 x hx)
    · rw [ptLt_iff] at h2
      refine List.pairwise_cons.mpr ⟨?_, insertPt_sorted p as h.2⟩
      intro x hx
      rcases (insertPt_mem p as x).mp hx with rfl | hx
      · rcases llt_total x a with h3 | h3 | h3
        · exact absurd h3 h2
        · exact absurd h3 h1
        · exact h3
      · exact h.1 x hx

theorem sortDedup_spec (pts : List Pt) : List.Pairwise llt (sortDedup pts) ∧ ∀ q, q ∈ sortDedup pts ↔ q ∈ pts := by
  have : ∀ (pts acc : List Pt), List.Pairwise llt acc →
      List.Pairwise llt (pts.foldl (fun acc p => insertPt p acc) acc) ∧
      ∀ q, q ∈ pts.foldl (fun acc p => insertPt p acc) acc ↔ q ∈ acc ∨ q ∈ pts := by
    intro pts
    induction pts with
    | nil => intro acc h; exact ⟨h, by simp⟩
    | cons p ps ih =>
      intro acc h
      obtain ⟨k1, k2⟩ := ih (insertPt p acc) (insertPt_sorted p acc h)
      refine ⟨k1, ?_⟩
      intro q
      rw [List.foldl_cons, k2 q, insertPt_mem]
      simp only [List.mem_cons]
      tauto
  obtain ⟨k1, k2⟩ := this pts [] List.Pairwise.nil
  exact ⟨k1, fun q => by rw [sortDedup, k2 q]; simp⟩

theorem pairwise_nodup {l : List Pt} (h : List.Pairwise llt l) : l.Nodup := by
  unfold List.Nodup
  refine h.imp ?_
  intro a b hab heq
  subst heq
  exact llt_irrefl _ hab

/-! ## the second pass never touches the chain of the first pass below its top -/

theorem hullPush_shift (T : List Pt) (v : Pt) (U : List Pt) :
    hullPush (T.length + 2) (U ++ T) v = hullPush 2 U v ++ T := by
  fun_induction hullPush 2 U v with
  | case1 a o rest hc ih =>
    show hullPush (T.length + 2) (a :: o :: (rest ++ T)) v = _
    rw [hullPush, if_pos ⟨by simp only [List.length_append]; omega, hc.2⟩]
    exact ih
  | case2 a o rest hc =>
    show hullPush (T.length + 2) (a :: o :: (rest ++ T)) v = _
    have : ¬ hullPopTest o a v = true := fun h => hc ⟨by omega, h⟩
    rw [hullPush, if_neg (fun h => this h.2)]
    rfl
  | case3 stack hs =>
    match stack, hs with
    | [], _ =>
      show hullPush (T.length + 2) T v = v :: T
      match T with
      | [] => simp [hullPush]
      | [x] => simp [hullPush]
      | x :: y :: r =>
        rw [hullPush, if_neg (fun h => by simp only [List.length_cons] at h; omega)]
    | [a], _ =>
      show hullPush (T.length + 2) (a :: T) v = v :: a :: T
      match T with
      | [] => simp [hullPush]
      | y :: r =>
        rw [hullPush, if_neg (fun h => by simp only [List.length_cons] at h; omega)]
    | a :: o :: rest, hs => exact absurd rfl (hs a o rest)

theorem fold_shift (T : List Pt) : ∀ (vs U : List Pt),
    vs.foldl (hullPush (T.length + 2)) (U ++ T) = vs.foldl (hullPush 2) U ++ T
  | [], U => rfl
  | v :: vs, U => by
    rw [List.foldl_cons, List.foldl_cons, hullPush_shift, fold_shift T vs]

/-! ## assembly: the returned list is `reverse (upper chain ++ lower chain without its top)` -/

structure Decomp (pts h : List Pt) (v0 m : Pt) (Lt U : List Pt) : Prop where
  head : (sortDedup pts).head? = some v0
  last : (sortDedup pts).getLast? = some m
  len : 3 ≤ (sortDedup pts).length
  lt : llt v0 m
  result : h = (U ++ Lt).reverse
  lower : PassInv true (m :: Lt) (sortDedup pts).reverse
  lowerBot : (m :: Lt).getLast? = some v0
  upper : PassInv false U (sortDedup pts)
  upperTop : U.head? = some v0
  upperBot : U.getLast? = some m

theorem pairwise_dlt_true {l : List Pt} (h : List.Pairwise llt l) : List.Pairwise (dlt true) l :=
  h.imp (fun hab => by simpa [dlt] using hab)

theorem pairwise_dlt_false {l : List Pt} (h : List.Pairwise llt l) : List.Pairwise (dlt false) l.reverse := by
  rw [List.pairwise_reverse]
  exact h.imp (fun hab => by simpa [dlt] using hab)

theorem convexHull_decomp (pts h : List Pt) (hh : convexHull pts = some h) :
    ∃ (v0 m : Pt) (Lt U : List Pt), Decomp pts h v0 m Lt U := by
  unfold convexHull at hh
  dsimp only at hh
  split_ifs at hh with hlen
  simp only [Option.some.injEq] at hh
  obtain ⟨hsorted, _⟩ := sortDedup_spec pts
  generalize hvs : sortDedup pts = vs at *
  match vs, hlen with
  | v0 :: rest, hlen =>
    obtain ⟨l1, l2, l3⟩ := pass_spec true v0 rest (pairwise_dlt_true hsorted)
    have hm : (v0 :: rest).getLast? = some ((v0 :: rest).getLast (by simp)) := List.getLast?_eq_some_getLast (by simp)
    generalize (v0 :: rest).getLast (by simp) = m at hm
    have hlow : lowerHull (v0 :: rest) = List.foldl (hullPush 2) [] (v0 :: rest) := rfl
    rw [hm] at l2
    obtain ⟨Lt, hL⟩ : ∃ Lt, List.foldl (hullPush 2) [] (v0 :: rest) = m :: Lt := by
      match hfl : List.foldl (hullPush 2) [] (v0 :: rest), l2 with
      | x :: Lt, l2 =>
        simp only [List.head?_cons, Option.some.injEq] at l2
        exact ⟨Lt, by rw [l2]⟩
    obtain ⟨rrest, hrev⟩ : ∃ rrest, (v0 :: rest).reverse = m :: rrest := by
      have : (v0 :: rest).reverse.head? = some m := by rw [List.head?_reverse]; exact hm
      match hr : (v0 :: rest).reverse, this with
      | x :: rrest, this =>
        simp only [List.head?_cons, Option.some.injEq] at this
        exact ⟨rrest, by rw [this]⟩
    have hsr : List.Pairwise (dlt false) (m :: rrest) := hrev ▸ pairwise_dlt_false hsorted
    obtain ⟨u1, u2, u3⟩ := pass_spec false m rrest hsr
    have hone : hullPush 2 [] m = [m] := by simp [hullPush]
    rw [hlow, hL, hrev] at hh
    have e1 : (m :: Lt).length + 1 = Lt.length + 2 := by simp
    have e2 : m :: Lt = [m] ++ Lt := rfl
    rw [e1, List.drop_one, List.tail_cons, e2, fold_shift Lt rrest [m]] at hh
    have e3 : List.foldl (hullPush 2) [m] rrest = List.foldl (hullPush 2) [] (m :: rrest) := by
      rw [List.foldl_cons, hone]
    rw [e3] at hh
    rw [hL] at l1 l3
    have hrr : (m :: rrest).reverse = v0 :: rest := by rw [← hrev, List.reverse_reverse]
    rw [hrr] at u1
    have hu2 : (m :: rrest).getLast? = some v0 := by
      rw [← hrev, List.getLast?_reverse]; rfl
    rw [hu2] at u2
    refine ⟨v0, m, Lt, List.foldl (hullPush 2) [] (m :: rrest), ?_⟩
    constructor
    · rw [hvs]; rfl
    · rw [hvs]; exact hm
    · rw [hvs]; omega
    · have hr : rest ≠ [] := by intro e; subst e; simp at hlen
      rw [List.getLast?_cons_of_ne_nil hr] at hm
      exact (List.pairwise_cons.mp hsorted).1 m (List.mem_of_getLast? hm)
    · exact hh.symm
    · rw [hvs]; exact l1
    · exact l3
    · rw [hvs]; exact u1
    · exact u2
    · exact u3
  | [], hlen => simp at hlen

/-! ## the two turns the loops do not test: the junction of the passes and the closing turn -/

theorem collinear_of_line {P : List Pt} {a m : Pt} (hne : a ≠ m) (h : ∀ p ∈ P, cr a m p = 0) :
    ∀ x ∈ P, ∀ y ∈ P, ∀ z ∈ P, cr x y z = 0 := by
  intro x hx y hy z hz
  have ex := h x hx
  have ey := h y hy
  have ez := h z hz
  unfold cr at *
  have g1 : (m.x - a.x) * ((y.x - x.x) * (z.y - x.y) - (y.y - x.y) * (z.x - x.x)) = 0 := by
    linear_combination (y.x - x.x) * ez - (y.x - x.x) * ex - (z.x - x.x) * ey + (z.x - x.x) * ex
  have g2 : (m.y - a.y) * ((y.x - x.x) * (z.y - x.y) - (y.y - x.y) * (z.x - x.x)) = 0 := by
    linear_combination (y.y - x.y) * ez - (y.y - x.y) * ex - (z.y - x.y) * ey + (z.y - x.y) * ex
  by_cases hdx : m.x - a.x = 0
  · by_cases hdy : m.y - a.y = 0
    · exfalso
      apply hne
      cases a; cases m
      simp only [Pt.mk.injEq]
      constructor <;> linarith
    · exact (mul_eq_zero.mp g2).resolve_left hdy
  · exact (mul_eq_zero.mp g1).resolve_left hdx

/-- junction: edge `a → m` of the first chain, edge `m → b` of the second chain, `m` the largest point -/
theorem junction_strict {P : List Pt} {a m b : Pt} (ham : llt a m) (hbm : llt b m) (hP : ∀ p ∈ P, llt p m ∨ p = m)
    (f1 : ∀ p ∈ P, 0 ≤ cr a m p) (f2 : ∀ p ∈ P, 0 ≤ cr m b p) (hb : b ∈ P)
    (hnc : ¬ ∀ x ∈ P, ∀ y ∈ P, ∀ z ∈ P, cr x y z = 0) : 0 < cr a m b := by
  rcases lt_or_eq_of_le (f1 b hb) with h | h
  · exact h
  · exfalso
    apply hnc
    apply collinear_of_line (a := a) (m := m) (fun e => llt_irrefl m (e ▸ ham))
    intro p hp
    have q1 := f1 p hp
    have q2 := f2 p hp
    have hq : lnn (m.x - p.x) (m.y - p.y) := by
      rcases hP p hp with h1 | h1
      · exact Or.inl h1
      · subst h1; right; exact ⟨by ring, by ring⟩
    unfold cr at *
    have := half_squeeze (ax := m.x - a.x) (ay := m.y - a.y) (bx := m.x - b.x) (by' := m.y - b.y)
      (qx := m.x - p.x) (qy := m.y - p.y) ham hbm hq (by linarith) (by linarith) (by linarith)
    linarith

/-- closing turn: edge `a → v` of the second chain, edge `v → b` of the first chain, `v` the smallest point -/
theorem closing_strict {P : List Pt} {a v b : Pt} (hva : llt v a) (hvb : llt v b) (hP : ∀ p ∈ P, llt v p ∨ p = v)
    (f1 : ∀ p ∈ P, 0 ≤ cr a v p) (f2 : ∀ p ∈ P, 0 ≤ cr v b p) (hb : b ∈ P)
    (hnc : ¬ ∀ x ∈ P, ∀ y ∈ P, ∀ z ∈ P, cr x y z = 0) : 0 < cr a v b := by
  rcases lt_or_eq_of_le (f1 b hb) with h | h
  · exact h
  · exfalso
    apply hnc
    apply collinear_of_line (a := a) (m := v) (fun e => llt_irrefl v (e ▸ hva))
    intro p hp
    have q1 := f1 p hp
    have q2 := f2 p hp
    have hq : lnn (p.x - v.x) (p.y - v.y) := by
      rcases hP p hp with h1 | h1
      · exact Or.inl h1
      · subst h1; right; exact ⟨by ring, by ring⟩
    unfold cr at *
    have := half_squeeze (ax := a.x - v.x) (ay := a.y - v.y) (bx := b.x - v.x) (by' := b.y - v.y)
      (qx := p.x - v.x) (qy := p.y - v.y) hva hvb hq (by linarith) (by linarith) (by linarith)
    linarith

/-! ## glueing the two chains -/

theorem edgesLeft_glue {p m : Pt} {Y : List Pt} : ∀ (X : List Pt), EdgesLeft p (X ++ [m]) → EdgesLeft p (m :: Y) →
    EdgesLeft p (X ++ m :: Y)
  | [], _, h2 => h2
  | [_], h1, h2 => ⟨h1.1, h2⟩
  | x :: y :: X, h1, h2 => ⟨h1.1, edgesLeft_glue (y :: X) h1.2 h2⟩

theorem edgesLeft_last {p m : Pt} : ∀ (X : List Pt), EdgesLeft p (X ++ [m]) → ∀ x ∈ X.getLast?, 0 ≤ cr m x p
  | [], _, x, hx => by simp at hx
  | [y], h, x, hx => by
    simp only [List.getLast?_singleton, Option.mem_def, Option.some.injEq] at hx
    subst hx; exact h.1
  | y :: z :: X, h, x, hx => edgesLeft_last (z :: X) h.2 x (by simpa using hx)

theorem mono_last {s : Bool} {m : Pt} : ∀ (X : List Pt), Mono s (X ++ [m]) → ∀ x ∈ X.getLast?, dlt s m x
  | [], _, x, hx => by simp at hx
  | [y], h, x, hx => by
    simp only [List.getLast?_singleton, Option.mem_def, Option.some.injEq] at hx
    subst hx; exact h.1
  | y :: z :: X, h, x, hx => mono_last (z :: X) h.2 x (by simpa using hx)

theorem turns_glue {m : Pt} {Y : List Pt} : ∀ (X : List Pt), Turns (X ++ [m]) → Turns (m :: Y) →
    (∀ x ∈ X.getLast?, ∀ y ∈ Y.head?, 0 < cr y m x) → Turns (X ++ m :: Y)
  | [], _, h2, _ => h2
  | [x], _, h2, h3 => by
    have _ := x
    match Y, h2, h3 with
    | [], _, _ => trivial
    | y :: Y', h2, h3 => exact ⟨h3 x (by simp) y (by simp), h2⟩
  | [x1, x2], h1, h2, h3 => ⟨h1.1, turns_glue [x2] h1.2 h2 (by simpa using h3)⟩
  | x1 :: x2 :: x3 :: X, h1, h2, h3 => ⟨h1.1, turns_glue (x2 :: x3 :: X) h1.2 h2 (by simpa using h3)⟩

theorem split_last {l : List Pt} {b : Pt} (h : l.getLast? = some b) : ∃ X, l = X ++ [b] := by
  have hne : l ≠ [] := by intro e; subst e; simp at h
  refine ⟨l.dropLast, ?_⟩
  have := List.dropLast_concat_getLast hne
  rw [List.getLast?_eq_some_getLast hne] at h
  simp only [Option.some.injEq] at h
  rw [h] at this
  exact this.symm

/-! ## from the stack (top first) to the returned list -/

theorem pairsOf_snoc (a : Pt) : ∀ (l : List Pt) (e : Pt × Pt), e ∈ pairsOf (l ++ [a]) →
    e ∈ pairsOf l ∨ (l.getLast? = some e.1 ∧ e.2 = a)
  | [], e, h => by simp [pairsOf] at h
  | [x], e, h => by
    simp only [List.cons_append, List.nil_append, pairsOf, List.mem_cons, List.not_mem_nil, or_false] at h
    subst h; right; simp
  | x :: y :: t, e, h => by
    simp only [List.cons_append, pairsOf, List.mem_cons] at h
    rcases h with h | h
    · left; simp only [pairsOf, List.mem_cons]; exact Or.inl h
    · rcases pairsOf_snoc a (y :: t) e h with h | h
      · left; simp only [pairsOf, List.mem_cons]; exact Or.inr h
      · right; simpa using h

theorem edgesLeft_pairs {p : Pt} : ∀ (S : List Pt), EdgesLeft p S → ∀ e ∈ pairsOf S.reverse, 0 ≤ cr e.1 e.2 p
  | [], _, e, he => by simp [pairsOf] at he
  | [_], _, e, he => by simp [pairsOf] at he
  | a :: o :: t, h, e, he => by
    rw [List.reverse_cons] at he
    rcases pairsOf_snoc a _ e he with h1 | ⟨h1, h2⟩
    · exact edgesLeft_pairs (o :: t) h.2 e h1
    · rw [List.getLast?_reverse] at h1
      simp only [List.head?_cons, Option.some.injEq] at h1
      rw [← h1, h2]
      exact h.1

theorem triplesOf_snoc (b : Pt) : ∀ (l : List Pt) (t : Pt × Pt × Pt), t ∈ triplesOf (l ++ [b]) →
    t ∈ triplesOf l ∨ ∃ a o r, l.reverse = a :: o :: r ∧ t = (o, a, b)
  | [], t, h => by simp [triplesOf] at h
  | [x], t, h => by simp [triplesOf] at h
  | [x, y], t, h => by
    simp only [List.cons_append, List.nil_append, triplesOf, List.mem_cons, List.not_mem_nil, or_false] at h
    right; exact ⟨y, x, [], by simp, h⟩
  | x :: y :: z :: r, t, h => by
    simp only [List.cons_append, triplesOf, List.mem_cons] at h
    rcases h with h | h
    · left; simp only [triplesOf, List.mem_cons]; exact Or.inl h
    · rcases triplesOf_snoc b (y :: z :: r) t h with h | ⟨a, o, r', h1, h2⟩
      · left; simp only [triplesOf, List.mem_cons]; exact Or.inr h
      · right
        refine ⟨a, o, r' ++ [x], ?_, h2⟩
        rw [List.reverse_cons, h1]; rfl

theorem turns_triples : ∀ (S : List Pt), Turns S → ∀ t ∈ triplesOf S.reverse, 0 < cr t.1 t.2.1 t.2.2
  | [], _, t, ht => by simp [triplesOf] at ht
  | [_], _, t, ht => by simp [triplesOf] at ht
  | [_, _], _, t, ht => by simp [triplesOf] at ht
  | b :: a :: o :: r, h, t, ht => by
    rw [List.reverse_cons] at ht
    rcases triplesOf_snoc b _ t ht with h1 | ⟨a', o', r', h1, h2⟩
    · exact turns_triples (a :: o :: r) h.2 t h1
    · rw [List.reverse_reverse] at h1
      simp only [List.cons.injEq] at h1
      obtain ⟨rfl, rfl, _⟩ := h1
      rw [h2]
      exact h.1

/-! ## the statements about the returned list -/

theorem decomp_shape {pts h : List Pt} {v0 m : Pt} {Lt U : List Pt} (d : Decomp pts h v0 m Lt U) :
    ∃ (X Y' U'' : List Pt) (l1 u' : Pt), U = X ++ [m] ∧ m :: Lt = Y' ++ [l1, v0] ∧ U = v0 :: u' :: U'' := by
  have hne : v0 ≠ m := fun e => llt_irrefl m (e ▸ d.lt)
  obtain ⟨X, hX⟩ := split_last d.upperBot
  obtain ⟨Y, hY⟩ := split_last d.lowerBot
  have hYne : Y ≠ [] := by
    intro e; subst e
    simp only [List.nil_append, List.cons.injEq] at hY
    exact hne hY.1.symm
  obtain ⟨Y', hY'⟩ := split_last (List.getLast?_eq_some_getLast hYne)
  generalize Y.getLast hYne = l1 at hY'
  have hU := d.upperTop
  match U, hU, hX with
  | [x], hU, hX =>
    simp only [List.head?_cons, Option.some.injEq] at hU
    have : X = [] ∧ x = m := by
      match X, hX with
      | [], hX => simpa using hX
      | [_], hX => simp at hX
      | _ :: _ :: _, hX => simp at hX
    exact absurd (hU.symm.trans this.2) hne
  | x :: u' :: U'', hU, hX =>
    simp only [List.head?_cons, Option.some.injEq] at hU
    subst hU
    refine ⟨X, Y', U'', l1, u', hX, ?_, rfl⟩
    rw [hY, hY']
    simp

theorem hcross_eq (o a b : Pt) : hcross o a b = cr o a b := rfl

theorem mem_vs {pts : List Pt} {p : Pt} (hp : p ∈ pts) : p ∈ sortDedup pts := ((sortDedup_spec pts).2 p).mpr hp
theorem mem_pts {pts : List Pt} {p : Pt} (hp : p ∈ sortDedup pts) : p ∈ pts := ((sortDedup_spec pts).2 p).mp hp

/-- `hull_contains_all`: every input point lies on or left of every edge of the returned closed polyline -/
theorem hull_contains_all (pts h : List Pt) (hh : convexHull pts = some h) :
    ∀ p ∈ pts, ∀ e ∈ pairsOf h, 0 ≤ hcross e.1 e.2 p := by
  obtain ⟨v0, m, Lt, U, d⟩ := convexHull_decomp pts h hh
  obtain ⟨X, Y', U'', l1, u', hX, hY, hU⟩ := decomp_shape d
  intro p hp e he
  have hv := mem_vs hp
  have e1 : EdgesLeft p (X ++ [m]) := hX ▸ d.upper.edges p hv
  have e2 : EdgesLeft p (m :: Lt) := d.lower.edges p (List.mem_reverse.mpr hv)
  have e3 := edgesLeft_glue X e1 e2
  rw [d.result, hX] at he
  have : X ++ [m] ++ Lt = X ++ m :: Lt := by simp
  rw [this] at he
  exact edgesLeft_pairs _ e3 e he

/-- the returned polyline is closed: it starts and ends in the smallest input point (order of `Vec2.__lt__`) -/
theorem hull_closed (pts h : List Pt) (hh : convexHull pts = some h) :
    ∃ v0, h.head? = some v0 ∧ h.getLast? = some v0 ∧ v0 ∈ pts ∧ ∀ p ∈ pts, llt v0 p ∨ p = v0 := by
  obtain ⟨v0, m, Lt, U, d⟩ := convexHull_decomp pts h hh
  obtain ⟨X, Y', U'', l1, u', hX, hY, hU⟩ := decomp_shape d
  refine ⟨v0, ?_, ?_, ?_, ?_⟩
  · rw [d.result, List.head?_reverse]
    have : Lt ≠ [] := by
      intro e; subst e
      have := congrArg List.length hY
      simp at this
    have h2 := d.lowerBot
    rw [List.getLast?_cons_of_ne_nil this] at h2
    rw [List.getLast?_append, h2]
    rfl
  · rw [d.result, List.getLast?_reverse, hU]; rfl
  · exact mem_pts (List.mem_of_mem_head? d.head)
  · intro p hp
    rcases d.lower.bot p (List.mem_reverse.mpr (mem_vs hp)) v0 d.lowerBot with h1 | h1
    · left; simpa [dlt] using h1
    · right; exact h1.symm

/-- `hull_convex`: unless all input points are collinear, every corner of the returned closed polyline, including the
junction of the two passes and the closing corner at the first vertex, is a strict left turn -/
theorem hull_convex (pts h : List Pt) (hh : convexHull pts = some h)
    (hnc : ¬ ∀ x ∈ pts, ∀ y ∈ pts, ∀ z ∈ pts, cr x y z = 0) :
    ∀ t ∈ triplesOf (h ++ (h.drop 1).take 1), 0 < hcross t.1 t.2.1 t.2.2 := by
  obtain ⟨v0, m, Lt, U, d⟩ := convexHull_decomp pts h hh
  obtain ⟨X, Y', U'', l1, u', hX, hY, hU⟩ := decomp_shape d
  have edgeU : ∀ p ∈ pts, EdgesLeft p U := fun p hp => d.upper.edges p (mem_vs hp)
  have edgeL : ∀ p ∈ pts, EdgesLeft p (m :: Lt) := fun p hp => d.lower.edges p (List.mem_reverse.mpr (mem_vs hp))
  have subU : ∀ x ∈ U, x ∈ pts := fun x hx => mem_pts (d.upper.sub x hx)
  have subL : ∀ x ∈ m :: Lt, x ∈ pts := fun x hx => mem_pts (List.mem_reverse.mp (d.lower.sub x hx))
  -- the junction of the two passes
  have hjunction : ∀ x ∈ X.getLast?, ∀ y ∈ Lt.head?, 0 < cr y m x := by
    intro x hx y hy
    match Lt, hy with
    | y' :: Lt', hy =>
      simp only [List.head?_cons, Option.mem_def, Option.some.injEq] at hy
      subst hy
      apply junction_strict (P := pts) _ _ _ _ _ _ hnc
      · simpa [dlt] using d.lower.mono.1
      · have := mono_last X (hX ▸ d.upper.mono) x hx
        simpa [dlt] using this
      · intro p hp
        rcases d.lower.top p (List.mem_reverse.mpr (mem_vs hp)) m (by simp) with h1 | h1
        · left; simpa [dlt] using h1
        · right; exact h1
      · intro p hp; exact (edgeL p hp).1
      · intro p hp; exact edgesLeft_last X (hX ▸ edgeU p hp) x hx
      · exact subU x (by rw [hX]; exact List.mem_append_left _ (List.mem_of_getLast? hx))
  have tU : Turns (X ++ [m]) := hX ▸ d.upper.turns
  have tStack : Turns (X ++ m :: Lt) := turns_glue X tU d.lower.turns hjunction
  -- the closing corner
  have hYl : Y' ++ [l1, v0] = (Y' ++ [l1]) ++ [v0] := by simp
  have hclosing : 0 < cr u' v0 l1 := by
    apply closing_strict (P := pts) _ _ _ _ _ _ hnc
    · have := d.upper.mono
      rw [hU] at this
      simpa [dlt] using this.1
    · have := mono_last (Y' ++ [l1]) (hYl ▸ hY ▸ d.lower.mono) l1 (by simp)
      simpa [dlt] using this
    · intro p hp
      rcases d.lower.bot p (List.mem_reverse.mpr (mem_vs hp)) v0 d.lowerBot with h1 | h1
      · left; simpa [dlt] using h1
      · right; exact h1.symm
    · intro p hp
      have := edgeU p hp
      rw [hU] at this
      exact this.1
    · intro p hp
      exact edgesLeft_last (Y' ++ [l1]) (hYl ▸ hY ▸ edgeL p hp) l1 (by simp)
    · exact subL l1 (by rw [hY]; simp)
  -- assemble: `(h ++ [l1]).reverse = l1 :: stack`
  have hstack : U ++ Lt = X ++ m :: Lt := by rw [hX]; simp
  have hstack2 : U ++ Lt = v0 :: u' :: (U'' ++ Lt) := by rw [hU]; rfl
  have tAll : Turns (l1 :: (U ++ Lt)) := by
    rw [hstack2]
    refine ⟨hclosing, ?_⟩
    rw [← hstack2, hstack]
    exact tStack
  have hh2 : h = v0 :: l1 :: (X ++ Y').reverse := by
    rw [d.result, hstack, hY]
    simp
  have hclose : h ++ (h.drop 1).take 1 = (l1 :: (U ++ Lt)).reverse := by
    rw [List.reverse_cons, ← d.result, hh2]
    simp
  intro t ht
  rw [hclose] at ht
  exact turns_triples _ tAll t ht

/-- all input points on one line (at least three distinct ones): the result is `[smallest, largest, smallest]` -/
theorem hull_collinear (pts h : List Pt) (hh : convexHull pts = some h)
    (hc : ∀ x ∈ pts, ∀ y ∈ pts, ∀ z ∈ pts, cr x y z = 0) :
    ∃ v0 m, h = [v0, m, v0] ∧ v0 ∈ pts ∧ m ∈ pts ∧ ∀ p ∈ pts, (llt v0 p ∨ p = v0) ∧ (llt p m ∨ p = m) := by
  obtain ⟨v0, m, Lt, U, d⟩ := convexHull_decomp pts h hh
  obtain ⟨X, Y', U'', l1, u', hX, hY, hU⟩ := decomp_shape d
  have subU : ∀ x ∈ U, x ∈ pts := fun x hx => mem_pts (d.upper.sub x hx)
  have subL : ∀ x ∈ m :: Lt, x ∈ pts := fun x hx => mem_pts (List.mem_reverse.mp (d.lower.sub x hx))
  have noTurn : ∀ (S : List Pt), (∀ x ∈ S, x ∈ pts) → Turns S → S.length ≤ 2 := by
    intro S hS hT
    match S, hS, hT with
    | [], _, _ => simp
    | [_], _, _ => simp
    | [_, _], _, _ => simp
    | b :: a :: o :: t, hS, hT =>
      have := hc o (hS o (by simp)) a (hS a (by simp)) b (hS b (by simp))
      exact absurd hT.1 (by rw [this]; exact lt_irrefl _)
  have hL := noTurn _ subL d.lower.turns
  have hUl := noTurn _ subU d.upper.turns
  have hLt : Lt = [v0] := by
    match Lt, hL, hY with
    | [x], _, hY =>
      match Y', hY with
      | [], hY => simp only [List.nil_append, List.cons.injEq, and_true] at hY; rw [hY.2]
      | [_], hY => simp at hY
      | _ :: _ :: _, hY => simp at hY
    | [], _, hY =>
      have := congrArg List.length hY
      simp at this
    | _ :: _ :: _, hL, _ => simp at hL
  have hU2 : U = [v0, m] := by
    rw [hU] at hUl hX
    match U'', hUl, hX with
    | [], _, hX =>
      match X, hX with
      | [x], hX => simp only [List.cons_append, List.nil_append, List.cons.injEq, and_true] at hX; rw [hU, hX.2]
      | [], hX => simp at hX
      | _ :: _ :: _, hX => simp at hX
    | _ :: _, hUl, _ => simp at hUl
  refine ⟨v0, m, ?_, mem_pts (List.mem_of_mem_head? d.head), subL m (by simp), ?_⟩
  · rw [d.result, hU2, hLt]; rfl
  · intro p hp
    constructor
    · rcases d.lower.bot p (List.mem_reverse.mpr (mem_vs hp)) v0 d.lowerBot with h1 | h1
      · left; simpa [dlt] using h1
      · right; exact h1.symm
    · rcases d.lower.top p (List.mem_reverse.mpr (mem_vs hp)) m (by simp) with h1 | h1
      · left; simpa [dlt] using h1
      · right; exact h1

/-- `convex_hull_2d` raises `ValueError` exactly when there are fewer than three distinct points -/
theorem hull_none_iff (pts : List Pt) : convexHull pts = none ↔ (sortDedup pts).length < 3 := by
  unfold convexHull
  dsimp only
  split_ifs with h <;> simp [h]

end EzdxfVerif.Lemmas.Hull

/-
Final round: the no-false-positive clause of C06 as a theorem over histories, the written file characterised exactly
(C04), and the lookup / iteration facts of the extended state (C05).
-/
import EzdxfVerif.Lemmas.DocNames
namespace EzdxfVerif.Doc

/-- The precondition of the no-false-positive clause of C06, as a decidable predicate on a state: every live entity is
    linked to a layout or block, every block reference names a defined block, groups are non-empty and reference only
    live entities of one model/paper space layout, no `*Paper_Space…` block record is without a layout and an active
    paperspace layout exists.  (Ownership consistency is NOT assumed: it is proved for every reachable state.) -/
def ApiValid (s : State) : Prop :=
  (∀ e ∈ s.ents, e.alive = true → e.owner.isSome = true) ∧
  (∀ e ∈ s.ents, e.alive = true → blockDefined s e.ref = true) ∧
  (∀ g ∈ s.groups, g.2.2.all (validMember s) = true ∧ sameLayout s g.2.2 = true ∧ g.2.2.isEmpty = false) ∧
  orphanBlocks s = [] ∧ needRestore s = false

instance (s : State) : Decidable (ApiValid s) := by
  unfold ApiValid; exact inferInstance

/-- with unique handles the record of an entity is the one found under its handle -/
theorem findEnt_of_mem {s : State} (hn : (hs s).Nodup) {e : Ent} (he : e ∈ s.ents) : findEnt s e.h = some e := by
  unfold findEnt
  cases hf : s.ents.find? (·.h = e.h) with
  | none =>
    have := List.find?_eq_none.mp hf e he
    simp at this
  | some y =>
    have hy := List.mem_of_find?_eq_some hf
    have hyh : y.h = e.h := by simpa using List.find?_some hf
    rw [eq_of_nodup_map (fun x : Ent => x.h) s.ents hn y hy e he hyh]

/-- a state with the invariants of reachable states that meets the precondition of the clause is clean for the audit -/
theorem clean_of_valid (s : State) (hi : DocInv s) (ho : OwnerInv s) (hl : LinkInv s) (hv : ApiValid s) :
    AuditClean s := by
  refine ⟨ho, ?_, hv.2.2.1, hv.2.2.2.1, hv.2.2.2.2⟩
  intro e he
  simp only [trashed]
  cases ha : e.alive with
  | false => simp
  | true =>
    have hf := findEnt_of_mem hi.1.1 he
    have hown := hv.1 e he ha
    cases hoe : e.owner with
    | none => simp [hoe] at hown
    | some k =>
      have hal : isAlive s e.h = true := by simp [isAlive, hf, ha]
      have hok : ownerOf s e.h = some k := by simp [ownerOf, hf, hoe]
      obtain ⟨l, hsp, _⟩ := hl e.h hal k hok
      have hbd := hv.2.1 e he ha
      simp [ownerExists, hsp, hbd]

/-- NO FALSE POSITIVES as a theorem over histories: after ANY history of the 29 API operations (obeying the add_entity
    obligation) from a state with the invariants, if the document reached meets the precondition of the clause
    (`ApiValid`: all entities linked, block references defined, groups valid), `doc.audit()` applies no fix and changes
    nothing -/
theorem audit_sound_history (s : State) (ops : List Op) (hi : DocInv s) (ho : OwnerInv s) (hl : LinkInv s)
    (hok : HistOk s ops) (hv : ApiValid (run s ops)) : audit (run s ops) = (run s ops, 0) :=
  audit_sound _ (clean_of_valid _ (inv_reachable s ops hi hok) (owner_inv_reachable s ops hi ho hok)
    (link_inv_reachable s ops hi hl hok) hv)

/-- the converse for the entity part: a clean state has no unlinked live database entity and no undefined reference -/
theorem valid_of_clean_entities (s : State) (h : AuditClean s) :
    ∀ e ∈ s.ents, e.alive = true → e.indb = true → e.owner.isSome = true ∧ blockDefined s e.ref = true := by
  intro e he ha hdb
  have := h.2.1 e he
  simp only [trashed, ha, hdb, Bool.and_self, Bool.true_and, Bool.or_eq_false_iff, Bool.not_eq_false'] at this
  refine ⟨?_, this.2⟩
  cases hoe : e.owner with
  | none => simp [ownerExists, hoe] at this
  | some k => rfl

/-! ### the written file, exactly (C04) -/

/-- in a state with the invariants of reachable states the entity handles of the written file are EXACTLY the live
    entities that have an owner: nothing dead, nothing unlinked, nothing missing, each once -/
theorem written_iff (s : State) (hb : BInv s) (ho : OwnerInv s) (hl : LinkInv s) (x : Nat) :
    x ∈ written (writeFile s) ↔ (isAlive s x = true ∧ (ownerOf s x).isSome = true) := by
  constructor
  · intro hx
    obtain ⟨k, hk⟩ := mem_written hx
    exact ⟨liveContent_alive s k x hk, by rw [liveContent_owner s ho k x hk]; rfl⟩
  · rintro ⟨ha, hown⟩
    cases hk : ownerOf s x with
    | none => simp [hk] at hown
    | some k => exact linked_written s hb hl x k ha hk

/-! ### lookup and iteration (C05) -/

/-- iterating a layout or block never yields a destroyed entity -/
theorem iteration_filters_dead (s : State) (k x : Nat) (hx : x ∈ content s k) : isAlive s x = true := by
  simp only [content, List.mem_filter] at hx; exact hx.2

/-- what the layouts show, in a state with the invariants: no entity twice in one layout, no entity in two layouts,
    every shown entity reports that layout as owner, and every live entity with an owner is shown by exactly that layout -/
theorem content_exact (s : State) (hi : DocInv s) (ho : OwnerInv s) (hl : LinkInv s) :
    (∀ k, (content s k).Nodup) ∧
    (∀ k k' x, x ∈ content s k → x ∈ content s k' → k = k') ∧
    (∀ k x, x ∈ content s k ↔ (isAlive s x = true ∧ ownerOf s x = some k ∧ (spaceOf s k).isSome = true)) := by
  have hc : ∀ k, content s k = liveContent s k := fun _ => rfl
  refine ⟨fun k => by rw [hc]; exact liveContent_nodup s hi k, ?_, ?_⟩
  · intro k k' x hx hx'
    by_cases h : k = k'
    · exact h
    · exact absurd (by rw [hc] at hx'; exact hx') (liveContent_disjoint s hi h x (by rw [hc] at hx; exact hx))
  · intro k x
    constructor
    · intro hx
      rw [hc] at hx
      refine ⟨liveContent_alive s k x hx, liveContent_owner s ho k x hx, ?_⟩
      simp only [liveContent, List.mem_filter] at hx
      cases hsp : spaceOf s k with
      | none => simp [hsp] at hx
      | some l => rfl
    · rintro ⟨ha, hown, _⟩
      obtain ⟨l, hsp, hxl⟩ := hl x ha k hown
      simp only [content, hsp, Option.getD_some, List.mem_filter]
      exact ⟨hxl, ha⟩

/-- `entitydb.get(handle)`: in every state with `DbInv` (all reachable ones) a live entity is found in the entity
    database under its handle, and a handle that was never issued finds nothing -/
theorem lookup_sound (s : State) (hd : DbInv s) (h : Nat) :
    (isAlive s h = true → ∃ e, findEnt s h = some e ∧ e.h = h ∧ e.indb = true) ∧
    (h ∉ hs s → findEnt s h = none) := by
  constructor
  · intro ha
    simp only [isAlive] at ha
    cases hf : findEnt s h with
    | none => simp [hf] at ha
    | some e =>
      simp only [hf] at ha
      have hm : e ∈ s.ents := List.mem_of_find?_eq_some (by simpa only [findEnt] using hf)
      have hh : e.h = h := by
        have := List.find?_some (p := fun x : Ent => decide (x.h = h)) (by simpa only [findEnt] using hf)
        simpa using this
      exact ⟨e, rfl, hh, hd e hm ha⟩
  · intro hn
    simp only [findEnt]
    apply List.find?_eq_none.mpr
    intro e he heq
    apply hn
    simp only [hs, List.mem_map]
    exact ⟨e, he, by simpa using heq⟩

/-! ### "every entity is linked to a layout" is an invariant of all operations but `unlink_entity` -/

/-- every live entity (except possibly `ex`) has an owner -/
def NoUnl (s : State) (ex : Option Nat) : Prop :=
  ∀ h, some h ≠ ex → isAlive s h = true → (ownerOf s h).isSome = true

theorem NoUnl.weaken {s : State} {ex : Option Nat} (h : NoUnl s none) : NoUnl s ex :=
  fun y _ ha => h y (by simp) ha

theorem NoUnl.of_rel {s s' : State} {ex : Option Nat} (h : NoUnl s ex) (hE : RelE s s') : NoUnl s' ex := by
  intro y hy ha
  obtain ⟨ha0, ho⟩ := hE y ha
  rw [ho]; exact h y hy ha0

theorem RelE.trans {a b c : State} (h1 : RelE a b) (h2 : RelE b c) : RelE a c := by
  intro y ha
  obtain ⟨hb, ho⟩ := h2 y ha
  obtain ⟨ha0, ho0⟩ := h1 y hb
  exact ⟨ha0, ho.trans ho0⟩

theorem RelE.dropContainer (s : State) (br : Nat) : RelE s (dropContainer s br) := by
  refine RelE.of_map (fun x => if ((spaceOf s br).getD []).contains x.h then { x with alive := false } else x)
    (fun x => by split <;> rfl) rfl ?_
  intro x ha
  split at ha
  · simp at ha
  · rename_i hn; simp only [hn]; exact ⟨ha, by first | rfl | trivial⟩

theorem RelE.dropAll : ∀ (l : List Nat) (s : State), RelE s (dropAll s l)
  | [], s => RelE.of_ents rfl
  | a :: r, s => by
    simp only [Doc.dropAll, List.foldl_cons]
    exact (RelE.dropContainer s a).trans (RelE.dropAll r _)

theorem RelE.audit (s : State) : RelE s (audit s).1 := by
  have h1 : RelE s (auditSpaces s) := RelE.of_ents rfl
  have h2 : RelE (auditSpaces s) (auditLayouts (auditSpaces s)) := by
    obtain ⟨bl, hbl⟩ := auditLayouts_eq (auditSpaces s)
    refine (RelE.dropAll (orphanBlocks (auditSpaces s)) (auditSpaces s)).trans (RelE.of_ents (by rw [hbl]))
  have h3 : RelE (auditLayouts (auditSpaces s)) (auditEntities (auditLayouts (auditSpaces s))) := by
    refine RelE.of_map (killF (auditLayouts (auditSpaces s))) (killF_h _) rfl ?_
    intro x ha
    unfold killF at ha ⊢
    split at ha
    · simp at ha
    · rename_i hnt; simp only [hnt]; exact ⟨ha, by first | rfl | trivial⟩
  exact ((h1.trans h2).trans h3).trans (RelE.of_ents rfl)

theorem NoUnl.append_list {s s' : State} {ex : Option Nat} (h : NoUnl s ex) (xs : List Ent)
    (hE : s'.ents = s.ents ++ xs) (hown : ∀ x ∈ xs, x.owner.isSome = true) : NoUnl s' ex := by
  intro y hy ha
  by_cases hm : y ∈ hs s
  · have hf : findEnt s' y = findEnt s y := by
      simp only [findEnt, hE]; exact find_append_known _ _ _ hm
    rw [isAlive_congr_find y hf] at ha
    rw [ownerOf_congr y hf]; exact h y hy ha
  · have hf : findEnt s' y = xs.find? (·.h = y) := by
      simp only [findEnt, hE]; exact find_append_fresh _ _ _ hm
    simp only [isAlive, ownerOf, hf] at ha ⊢
    cases hfx : xs.find? (·.h = y) with
    | none => simp [hfx] at ha
    | some z => exact hown z (List.mem_of_find?_eq_some hfx)

theorem newEnt_NoUnl (s : State) (k h seed : Nat) (r : Option Str) (subs : List Nat) (hn : NoUnl s none) :
    NoUnl (newEnt s k h seed r subs).1 none := by
  unfold newEnt
  split
  · exact hn
  · split
    · exact hn.append_list [⟨h, true, some k, true, r, isPaperBr s k, subs⟩] rfl
        (by intro x hx; simp at hx; subst hx; rfl)
    · exact hn

theorem unlinkCore_NoUnl {s s' : State} {k e : Nat} (h : unlinkCore s k e = some s') (hn : NoUnl s none) :
    NoUnl s' (some e) := by
  unfold unlinkCore at h
  split at h
  · cases h; exact hn.weaken
  · split at h
    · cases h
    · split at h
      · have hE : s'.ents = setEnt s.ents e (fun x => { x with owner := none, psp := false }) := by cases h; rfl
        intro y hy ha
        have hye : y ≠ e := fun hh => hy (by rw [hh])
        have hf : findEnt s' y = findEnt s y := by
          simp only [findEnt, hE]; exact findEnt_setEnt_ne _ _ _ _ (fun _ => rfl) hye
        rw [isAlive_congr_find y hf] at ha
        rw [ownerOf_congr y hf]; exact hn y (by simp) ha
      · cases h

theorem addExisting_NoUnl (s : State) (k e : Nat) (hn : NoUnl s (some e)) (hok : (addExisting s k e).2 = .ok) :
    NoUnl (addExisting s k e).1 none := by
  obtain ⟨sp, _, _, _, hE⟩ := addExisting_ok s k e hok
  intro y _ ha
  by_cases hye : y = e
  · subst hye
    have hf : findEnt (addExisting s k y).1 y = (findEnt s y).map (fAdd s k) := by
      simp only [findEnt, hE]; exact findEnt_setEnt_eq _ _ _ (fun _ => rfl)
    simp only [ownerOf, isAlive, hf] at ha ⊢
    cases hfe : findEnt s y with
    | none => simp [hfe] at ha
    | some x => rfl
  · have hf : findEnt (addExisting s k e).1 y = findEnt s y := by
      simp only [findEnt, hE]; exact findEnt_setEnt_ne _ _ _ _ (fun _ => rfl) hye
    rw [isAlive_congr_find y hf] at ha
    rw [ownerOf_congr y hf]
    exact hn y (by simpa using hye) ha

theorem destroyEnt_NoUnl (s : State) (e : Nat) (hn : NoUnl s (some e)) : NoUnl (destroyEnt s e) none := by
  intro y _ ha
  rw [isAlive_destroy] at ha
  simp only [Bool.and_eq_true, decide_eq_true_eq] at ha
  have hf : findEnt (destroyEnt s e) y = findEnt s y := by
    simp only [findEnt, destroyEnt]; exact findEnt_setEnt_ne _ _ _ _ (fun _ => rfl) ha.2
  rw [ownerOf_congr y hf]
  exact hn y (by simpa using ha.2) ha.1

theorem RelE.dropAttribs (s : State) (e : Nat) : RelE s (dropAttribs s e) := by
  refine RelE.of_map (fun x => if x.h = e then { x with subs := x.subs.drop (x.subs.length - 1) } else x)
    (fun x => by split <;> rfl) rfl ?_
  intro x ha
  split at ha
  · rename_i he; simp only [he, ↓reduceIte]; exact ⟨ha, by first | rfl | trivial⟩
  · rename_i hne; simp only [hne, ↓reduceIte]; exact ⟨ha, by first | rfl | trivial⟩

/-- the operation is not `layout.unlink_entity` (the only operation that leaves a live entity without owner) -/
def NotUnlink : Op → Prop
  | .unlink _ _ => False
  | _ => True

/-- every operation except `unlink_entity` keeps "every live entity is linked" -/
theorem step_NoUnl (s : State) (op : Op) (hop : NotUnlink op) (hn : NoUnl s none) : NoUnl (step s op).1 none := by
  cases op with
  | add k h seed => exact newEnt_NoUnl _ _ _ _ _ _ hn
  | ins k n h seed => exact newEnt_NoUnl _ _ _ _ _ _ hn
  | addL k r h subs seed => exact newEnt_NoUnl _ _ _ _ _ _ hn
  | unlink k e => exact absurd hop (by simp [NotUnlink])
  | addex k e =>
    simp only [step]
    cases hok : (addExisting s k e).2 with
    | ok => exact addExisting_NoUnl s k e hn.weaken hok
    | err er =>
      have := rejected_unchanged s (.addex k e) er (by simpa only [step] using hok)
      simp only [step] at this
      rw [this]; exact hn
  | move k1 e k2 =>
    simp only [step]; split
    · exact hn
    · split
      · exact hn
      · rename_i s1 h1
        have h2 := unlinkCore_NoUnl h1 hn
        split
        · rename_i s2 heq
          have := addExisting_NoUnl s1 k2 e h2 (by rw [heq])
          rw [heq] at this; exact this
        · exact hn
  | del k e =>
    simp only [step]; split
    · exact hn
    · rename_i s1 h1; exact destroyEnt_NoUnl s1 e (unlinkCore_NoUnl h1 hn)
  | destroy e => exact destroyEnt_NoUnl s e hn.weaken
  | copy e k h subs seed =>
    simp only [step]; split
    · split
      · split
        · exact newEnt_NoUnl _ _ _ _ _ _ hn
        · exact hn
      · exact hn
    · exact hn
  | explode e news seed =>
    rcases explode_cases s e news seed with ⟨er, h0⟩ | ⟨x, name, k, b, s', hx, hal, hr, ho', hsp, hb, hshape, hfresh, htexts, hcore, hstep⟩
    · rw [h0]; exact hn
    · rw [hstep]
      obtain ⟨s2, h2, rfl⟩ := explodeCore_parts hcore
      refine NoUnl.of_rel ?_ (RelE.dropAttribs _ e)
      apply destroyEnt_NoUnl
      refine unlinkCore_NoUnl h2 ?_
      exact hn.append_list (explodeEnts s k (liveContent s b) news (x.subs.take (x.subs.length - 1))) rfl
        (fun y hy => by rw [(explodeEnts_props s k _ news _ y hy).2.1]; rfl)
  | purge =>
    exact hn.of_rel (RelE.of_map (fun x => { x with indb := x.indb && x.alive }) (fun _ => rfl) rfl
      (fun x ha => ⟨ha, rfl⟩))
  | newBlock n br seed =>
    simp only [step]; split
    · exact hn
    · split
      · exact hn.of_rel (RelE.of_ents rfl)
      · exact hn
  | delBlock n safe =>
    simp only [step]; split
    · exact hn
    · split
      · exact hn
      · exact hn.of_rel (RelE.dropContainer s _)
  | renBlock a b => exact hn.of_rel (RelE.of_ents (renameBlock_ents s a b))
  | newLayout n br seed =>
    simp only [step]; split
    · exact hn
    · split
      · exact hn
      · split
        · exact hn.of_rel (RelE.of_ents rfl)
        · exact hn
  | delLayout n =>
    simp only [step]; split
    · exact hn
    · split
      · exact hn
      · split
        · exact hn
        · simp only
          refine NoUnl.of_rel ?_ (RelE.dropContainer _ _)
          split
          · split
            · exact hn.of_rel (RelE.of_ents (setActive_ents _ _))
            · exact hn.of_rel (RelE.of_ents rfl)
          · exact hn.of_rel (RelE.of_ents rfl)
  | renLayout a b =>
    simp only [step]; split
    · exact hn
    · split
      · exact hn
      · split
        · exact hn
        · exact hn.of_rel (RelE.of_ents rfl)
  | activate n => exact hn.of_rel (RelE.of_ents (setActive_ents s n))
  | addLayer n seed =>
    simp only [step]; split
    · exact hn
    · split
      · exact hn.of_rel (RelE.of_ents rfl)
      · exact hn
  | delLayer n => simp only [step]; split <;> first | exact hn | exact hn.of_rel (RelE.of_ents rfl)
  | reload seed =>
    by_cases hle : s.next ≤ seed
    · obtain ⟨_, hEnts, _⟩ := reload_state s seed hle
      refine hn.of_rel (RelE.of_map _ (fun x => by split <;> rfl) hEnts ?_)
      intro x ha
      split at ha
      · rename_i hk; simp only [hk, ↓reduceIte]; exact ⟨ha, by first | rfl | trivial⟩
      · simp at ha
    · have : (step s (.reload seed)).1 = s := by simp [step, hle]
      rw [this]; exact hn
  | foreign kind e => simp only [step]; split <;> exact hn
  | audit seed =>
    simp only [step]; split
    · exact (hn.of_rel (RelE.audit s)).of_rel (RelE.of_ents rfl)
    · exact hn
  | addEntry t n seed =>
    simp only [step]; split
    · exact hn
    · split
      · exact hn.of_rel (RelE.of_ents rfl)
      · exact hn
  | delEntry t n => simp only [step]; split <;> first | exact hn | exact hn.of_rel (RelE.of_ents rfl)
  | dupEntry t a b seed =>
    simp only [step]; split
    · exact hn
    · split
      · exact hn.of_rel (RelE.of_ents rfl)
      · exact hn
  | newGroup n h seed =>
    simp only [step]; split
    · exact hn
    · split
      · exact hn.of_rel (RelE.of_ents rfl)
      · exact hn
  | setGroup n ms =>
    simp only [step]; split
    · exact hn
    · split
      · exact hn.of_rel (RelE.of_ents rfl)
      · exact hn
  | delGroup n => simp only [step]; split <;> first | exact hn | exact hn.of_rel (RelE.of_ents rfl)

/-- histories without `unlink_entity` -/
def NoUnlinkHist (ops : List Op) : Prop := ∀ op ∈ ops, NotUnlink op

/-- "every entity is linked to a layout" after every history that does not call `unlink_entity` -/
theorem no_unlinked_reachable (s : State) (ops : List Op) (hn : NoUnl s none) (hops : NoUnlinkHist ops) :
    NoUnl (run s ops) none := by
  induction ops generalizing s with
  | nil => exact hn
  | cons op r ih =>
    exact ih _ (step_NoUnl s op (hops op (by simp)) hn) (fun o ho => hops o (by simp [ho]))

/-- the rest of the precondition: block references defined, groups valid, paperspace block records consistent -/
def RefsValid (s : State) : Prop :=
  (∀ e ∈ s.ents, e.alive = true → blockDefined s e.ref = true) ∧
  (∀ g ∈ s.groups, g.2.2.all (validMember s) = true ∧ sameLayout s g.2.2 = true ∧ g.2.2.isEmpty = false) ∧
  orphanBlocks s = [] ∧ needRestore s = false

instance (s : State) : Decidable (RefsValid s) := by
  unfold RefsValid; exact inferInstance

theorem apiValid_of_noUnl (s : State) (hi : DocInv s) (hn : NoUnl s none) (hv : RefsValid s) : ApiValid s := by
  refine ⟨?_, hv.1, hv.2.1, hv.2.2.1, hv.2.2.2⟩
  intro e he ha
  have hf := findEnt_of_mem hi.1.1 he
  have := hn e.h (by simp) (by simp [isAlive, hf, ha])
  simpa [ownerOf, hf] using this

/-- NO FALSE POSITIVES over histories, the linkage part discharged: after ANY history of the API operations that never
    calls `unlink_entity` (starting where every entity is linked, e.g. a new document), whatever it creates, copies, moves,
    deletes, explodes, audits, saves and reloads, `doc.audit()` applies no fix and changes nothing - provided the block
    references of the final document are defined, its groups are valid and its paperspace block records consistent
    (`RefsValid`, decidable) -/
theorem audit_sound_no_unlink (s : State) (ops : List Op) (hi : DocInv s) (ho : OwnerInv s) (hl : LinkInv s)
    (hn : NoUnl s none) (hok : HistOk s ops) (hops : NoUnlinkHist ops) (hv : RefsValid (run s ops)) :
    audit (run s ops) = (run s ops, 0) :=
  audit_sound_history s ops hi ho hl hok
    (apiValid_of_noUnl _ (inv_reachable s ops hi hok) (no_unlinked_reachable s ops hn hops) hv)

end EzdxfVerif.Doc

/-
Helper lemmas for C13 (not counted): degree elevation of a Bézier segment by `t` (the coefficient table `bezalfs` of
The NURBS Book A5.9): `Σ_i B_{i,p+t}(x) · Σ_j bezalfs[i,j]·g_j = Σ_j B_{j,p}(x)·g_j`, every degree `p`, every `t`.
-/
import EzdxfVerif.Lemmas.CurveBezierDeriv

namespace EzdxfVerif.Lemmas.Curve
open EzdxfVerif.Curve

theorem choose_pos' : ∀ (n k : Nat), k ≤ n → 0 < choose n k
  | _, 0, _ => by simp [choose_zero_right]
  | 0, _ + 1, h => by omega
  | n + 1, k + 1, h => by
    simp only [choose]
    have := choose_pos' n k (by omega)
    omega

/-- closed form of the table -/
def elevCoeff (p t i j : Nat) : Rat :=
  if j ≤ i ∧ i - j ≤ t ∧ j ≤ p then (choose p j : Rat) * (choose t (i - j) : Rat) / (choose (p + t) i : Rat) else 0

theorem bezalfs_closed (p t i j : Nat) (hi : i ≤ p + t) : bezalfs p t i j = elevCoeff p t i j := by
  simp only [bezalfs, elevCoeff]
  by_cases h0 : i = 0
  · subst h0
    by_cases hj : j = 0
    · subst hj; simp [choose_zero_right]
    · rw [if_pos rfl, if_neg hj, if_neg (by omega)]
  · rw [if_neg h0]
    by_cases h1 : i = p + t
    · subst h1
      rw [if_pos rfl]
      by_cases hj : j = p
      · subst hj
        rw [if_pos rfl, if_pos (by omega)]
        have e : j + t - j = t := by omega
        rw [e, choose_self, choose_self, choose_self]; simp
      · rw [if_neg hj, if_neg (by omega)]
    · rw [if_neg h1]
      by_cases h2 : i ≤ (p + t) / 2
      · rw [if_pos h2]
        simp only [bezalfsFirst]
        by_cases c : i - t ≤ j ∧ j ≤ min p i
        · rw [if_pos c, if_pos (by omega)]; ring
        · rw [if_neg c, if_neg (by omega)]
      · rw [if_neg h2, if_neg (by omega)]
        by_cases c : i - t ≤ j ∧ j ≤ min p i
        · rw [if_pos c, if_pos (by omega)]
          simp only [bezalfsFirst]
          rw [if_pos (by omega)]
          have e1 := choose_symm (p + t) i hi
          have e2 := choose_symm p j (by omega)
          have e3 := choose_symm t (i - j) (by omega)
          have e4 : p + t - i - (p - j) = t - (i - j) := by omega
          rw [e4, e1, e2, e3]; ring
        · rw [if_neg c, if_neg (by omega)]

theorem wsum_mul_left (c : Rat) : ∀ (n : Nat) (f : Nat → Rat), c * wsum n f = wsum n (fun i => c * f i)
  | 0, _ => by simp [wsum]
  | n + 1, f => by simp only [wsum, ← wsum_mul_left c n f]; ring

theorem wsum_comm : ∀ (n m : Nat) (F : Nat → Nat → Rat),
    wsum n (fun i => wsum m (fun j => F i j)) = wsum m (fun j => wsum n (fun i => F i j))
  | 0, m, F => by simp only [wsum]; exact (wsum_zero m).symm
  | n + 1, m, F => by
    simp only [wsum, wsum_comm n m F]
    have := wsum_add_mul 1 1 m (fun j => wsum n (fun i => F i j)) (fun j => F n j)
    simp only [one_mul] at this
    rw [this]

/-- a window `[j, j+t]` inside a longer sum -/
theorem wsum_window : ∀ (j r t : Nat) (h : Nat → Rat),
    wsum (j + (t + 1) + r) (fun i => if j ≤ i ∧ i - j ≤ t then h (i - j) else 0) = wsum (t + 1) h
  | 0, 0, t, h => by
    rw [Nat.zero_add, Nat.add_zero]
    apply wsum_congr
    intro i hi
    rw [if_pos (by omega), Nat.sub_zero]
  | 0, r + 1, t, h => by
    have ih := wsum_window 0 r t h
    have e : 0 + (t + 1) + (r + 1) = (0 + (t + 1) + r) + 1 := by omega
    rw [e, wsum, ih, if_neg (by omega), add_zero]
  | j + 1, r, t, h => by
    have ih := wsum_window j r t h
    have e : j + 1 + (t + 1) + r = (j + (t + 1) + r) + 1 := by omega
    rw [e, wsum_shift, if_neg (by omega), zero_add, ← ih]
    apply wsum_congr
    intro i _
    by_cases c : j ≤ i ∧ i - j ≤ t
    · rw [if_pos c, if_pos (by omega)]; congr 1; omega
    · rw [if_neg c, if_neg (by omega)]

/-- column sum: `Σ_i B_{i,p+t}(x)·elevCoeff[i,j] = B_{j,p}(x)` -/
theorem elev_column (p t j : Nat) (hj : j ≤ p) (x : Rat) :
    wsum (p + t + 1) (fun i => bernstein (p + t) i x * elevCoeff p t i j) = bernstein p j x := by
  have hone := bz_one t x
  simp only [bz, mul_one] at hone
  have e : p + t + 1 = j + (t + 1) + (p - j) := by omega
  rw [e, ← mul_one (bernstein p j x), ← hone, wsum_mul_left, ← wsum_window j (p - j) t]
  apply wsum_congr
  intro i hi
  simp only [elevCoeff]
  by_cases c : j ≤ i ∧ i - j ≤ t
  · rw [if_pos c, if_pos ⟨c.1, c.2, hj⟩]
    obtain ⟨k, rfl⟩ := Nat.exists_eq_add_of_le c.1
    have ek : j + k - j = k := by omega
    have hkt : k ≤ t := by omega
    have hc : ((choose (p + t) (j + k) : Nat) : Rat) ≠ 0 := by
      have := choose_pos' (p + t) (j + k) (by omega)
      exact_mod_cast (by omega : choose (p + t) (j + k) ≠ 0)
    simp only [bernstein, ek]
    have e1 : p + t - (j + k) = (p - j) + (t - k) := by omega
    rw [e1, pow_add, pow_add]
    field_simp
  · rw [if_neg c, if_neg (fun h => c ⟨h.1, h.2.1⟩)]; ring

/-- **degree elevation of a Bézier segment by `t`** in sequence form -/
theorem bz_elevate (p t : Nat) (g : Nat → Rat) (x : Rat) :
    bz (p + t) (fun i => wsum (p + 1) (fun j => elevCoeff p t i j * g j)) x = bz p g x := by
  simp only [bz]
  rw [wsum_congr (p + t + 1) _ (fun i => wsum (p + 1) (fun j => bernstein (p + t) i x * elevCoeff p t i j * g j))
    (fun i _ => by rw [wsum_mul_left]; apply wsum_congr; intro j _; ring)]
  rw [wsum_comm]
  apply wsum_congr
  intro j hj
  rw [← elev_column p t j (by omega) x, mul_comm, wsum_mul_left]
  apply wsum_congr
  intro i _
  ring

end EzdxfVerif.Lemmas.Curve

/-
Helper lemmas for C15 (not counted): the order-free description of `extents3`, extensionality of well-formed
boxes, `extend`/`union` facts, the `extendAll` fold, Bézier points in the control box.  These are public copies of
the private helpers of Props/C15.lean (session 1), so that Lemmas/BBoxTree.lean and Lemmas/BBoxCubic.lean can use them.
-/
import Mathlib.Algebra.Order.Field.Rat
import Mathlib.Tactic.Linarith
import Mathlib.Tactic.Ring
import Mathlib.Tactic.Positivity
import EzdxfVerif.Model.BBox
namespace EzdxfVerif.BBox.Lemmas
open EzdxfVerif.BBox

@[simp] theorem rmin_eq (a b : Rat) : rmin a b = min a b := by
  unfold rmin; rw [min_def]
@[simp] theorem rmax_eq (a b : Rat) : rmax a b = max a b := by
  unfold rmax; rw [max_def]

section folds
variable {α : Type} (f : α → Rat)

theorem foldl_min_le_iff (l : List α) (init c : Rat) :
    l.foldl (fun a q => min a (f q)) init ≤ c ↔ init ≤ c ∨ ∃ q ∈ l, f q ≤ c := by
  induction l generalizing init with
  | nil => simp
  | cons h t ih => simp [ih, or_assoc]

theorem le_foldl_min_iff (l : List α) (init c : Rat) :
    c ≤ l.foldl (fun a q => min a (f q)) init ↔ c ≤ init ∧ ∀ q ∈ l, c ≤ f q := by
  induction l generalizing init with
  | nil => simp
  | cons h t ih => simp [ih, and_assoc]

theorem le_foldl_max_iff (l : List α) (init c : Rat) :
    c ≤ l.foldl (fun a q => max a (f q)) init ↔ c ≤ init ∨ ∃ q ∈ l, c ≤ f q := by
  induction l generalizing init with
  | nil => simp
  | cons h t ih => simp [ih, or_assoc]

theorem foldl_max_le_iff (l : List α) (init c : Rat) :
    l.foldl (fun a q => max a (f q)) init ≤ c ↔ init ≤ c ∧ ∀ q ∈ l, f q ≤ c := by
  induction l generalizing init with
  | nil => simp
  | cons h t ih => simp [ih, and_assoc]

theorem foldl_min_attained (l : List α) (init : Rat) :
    l.foldl (fun a q => min a (f q)) init = init ∨ ∃ q ∈ l, l.foldl (fun a q => min a (f q)) init = f q := by
  induction l generalizing init with
  | nil => simp
  | cons h t ih =>
    simp only [List.foldl_cons, List.mem_cons, exists_eq_or_imp]
    rcases ih (min init (f h)) with e | ⟨q, hq, e⟩
    · rw [e]; rcases min_choice init (f h) with e' | e' <;> simp [e']
    · exact Or.inr (Or.inr ⟨q, hq, e⟩)

theorem foldl_max_attained (l : List α) (init : Rat) :
    l.foldl (fun a q => max a (f q)) init = init ∨ ∃ q ∈ l, l.foldl (fun a q => max a (f q)) init = f q := by
  induction l generalizing init with
  | nil => simp
  | cons h t ih =>
    simp only [List.foldl_cons, List.mem_cons, exists_eq_or_imp]
    rcases ih (max init (f h)) with e | ⟨q, hq, e⟩
    · rw [e]; rcases max_choice init (f h) with e' | e' <;> simp [e']
    · exact Or.inr (Or.inr ⟨q, hq, e⟩)
end folds

theorem vmin_fold (ps : List V3) (p : V3) :
    ps.foldl V3.vmin p = ⟨ps.foldl (fun a q => min a q.x) p.x, ps.foldl (fun a q => min a q.y) p.y,
      ps.foldl (fun a q => min a q.z) p.z⟩ := by
  induction ps generalizing p with
  | nil => rfl
  | cons h t ih => simp [ih, V3.vmin]

theorem vmax_fold (ps : List V3) (p : V3) :
    ps.foldl V3.vmax p = ⟨ps.foldl (fun a q => max a q.x) p.x, ps.foldl (fun a q => max a q.y) p.y,
      ps.foldl (fun a q => max a q.z) p.z⟩ := by
  induction ps generalizing p with
  | nil => rfl
  | cons h t ih => simp [ih, V3.vmax]

theorem inside_mk_iff (lo hi p : V3) :
    (Box3.mk lo hi).inside p = true ↔
      lo.x ≤ p.x ∧ p.x ≤ hi.x ∧ lo.y ≤ p.y ∧ p.y ≤ hi.y ∧ lo.z ≤ p.z ∧ p.z ≤ hi.z := by
  simp [Box3.inside, and_assoc]

/-- order- and grouping-independent description of the constructor: a point is inside the box of a
    point list iff on every axis some listed point lies on either side of it -/
theorem inside_extents_iff (l : List V3) (p : V3) :
    (extents3 l).inside p = true ↔
      (∃ q ∈ l, q.x ≤ p.x) ∧ (∃ q ∈ l, p.x ≤ q.x) ∧ (∃ q ∈ l, q.y ≤ p.y) ∧ (∃ q ∈ l, p.y ≤ q.y) ∧
      (∃ q ∈ l, q.z ≤ p.z) ∧ (∃ q ∈ l, p.z ≤ q.z) := by
  cases l with
  | nil => simp [extents3, Box3.inside]
  | cons h t =>
    simp only [extents3, inside_mk_iff, vmin_fold, vmax_fold, foldl_min_le_iff, le_foldl_max_iff,
      List.mem_cons, exists_eq_or_imp]

theorem extents_wf (l : List V3) : (extents3 l).WF := by
  cases l with
  | nil => trivial
  | cons h t =>
    simp only [extents3, Box3.WF, vmin_fold, vmax_fold]
    refine ⟨?_, ?_, ?_⟩ <;>
      exact le_trans ((foldl_min_le_iff _ t _ _).mpr (Or.inl le_rfl)) ((le_foldl_max_iff _ t _ _).mpr (Or.inl le_rfl))

theorem extents_contains_all (vs : List V3) (p : V3) (hp : p ∈ vs) : (extents3 vs).inside p = true := by
  rw [inside_extents_iff]
  exact ⟨⟨p, hp, le_rfl⟩, ⟨p, hp, le_rfl⟩, ⟨p, hp, le_rfl⟩, ⟨p, hp, le_rfl⟩, ⟨p, hp, le_rfl⟩, ⟨p, hp, le_rfl⟩⟩

theorem extents_tight (vs : List V3) (hne : vs ≠ []) :
    ∃ lo hi, extents3 vs = .mk lo hi ∧
      (∃ p ∈ vs, p.x = lo.x) ∧ (∃ p ∈ vs, p.y = lo.y) ∧ (∃ p ∈ vs, p.z = lo.z) ∧
      (∃ p ∈ vs, p.x = hi.x) ∧ (∃ p ∈ vs, p.y = hi.y) ∧ (∃ p ∈ vs, p.z = hi.z) := by
  cases vs with
  | nil => exact absurd rfl hne
  | cons h t =>
    refine ⟨_, _, rfl, ?_⟩
    simp only [vmin_fold, vmax_fold, List.mem_cons, exists_eq_or_imp]
    refine ⟨?_, ?_, ?_, ?_, ?_, ?_⟩
    · rcases foldl_min_attained V3.x t h.x with e | ⟨q, hq, e⟩
      · exact Or.inl e.symm
      · exact Or.inr ⟨q, hq, e.symm⟩
    · rcases foldl_min_attained V3.y t h.y with e | ⟨q, hq, e⟩
      · exact Or.inl e.symm
      · exact Or.inr ⟨q, hq, e.symm⟩
    · rcases foldl_min_attained V3.z t h.z with e | ⟨q, hq, e⟩
      · exact Or.inl e.symm
      · exact Or.inr ⟨q, hq, e.symm⟩
    · rcases foldl_max_attained V3.x t h.x with e | ⟨q, hq, e⟩
      · exact Or.inl e.symm
      · exact Or.inr ⟨q, hq, e.symm⟩
    · rcases foldl_max_attained V3.y t h.y with e | ⟨q, hq, e⟩
      · exact Or.inl e.symm
      · exact Or.inr ⟨q, hq, e.symm⟩
    · rcases foldl_max_attained V3.z t h.z with e | ⟨q, hq, e⟩
      · exact Or.inl e.symm
      · exact Or.inr ⟨q, hq, e.symm⟩

/-- well-formed boxes are determined by their point sets -/
theorem box_ext (a b : Box3) (ha : a.WF) (hb : b.WF) (h : ∀ p, a.inside p = b.inside p) : a = b := by
  cases a with
  | empty =>
    cases b with
    | empty => rfl
    | mk lo hi =>
      have := h lo
      have h2 := (inside_mk_iff lo hi lo).mpr ⟨le_rfl, hb.1, le_rfl, hb.2.1, le_rfl, hb.2.2⟩
      rw [h2] at this; exact absurd this (by simp [Box3.inside])
  | mk alo ahi =>
    cases b with
    | empty =>
      have := h alo
      have h2 := (inside_mk_iff alo ahi alo).mpr ⟨le_rfl, ha.1, le_rfl, ha.2.1, le_rfl, ha.2.2⟩
      rw [h2] at this; exact absurd this (by simp [Box3.inside])
    | mk blo bhi =>
      have e1 := (inside_mk_iff alo ahi alo).mpr ⟨le_rfl, ha.1, le_rfl, ha.2.1, le_rfl, ha.2.2⟩
      have e2 := (inside_mk_iff alo ahi ahi).mpr ⟨ha.1, le_rfl, ha.2.1, le_rfl, ha.2.2, le_rfl⟩
      have e3 := (inside_mk_iff blo bhi blo).mpr ⟨le_rfl, hb.1, le_rfl, hb.2.1, le_rfl, hb.2.2⟩
      have e4 := (inside_mk_iff blo bhi bhi).mpr ⟨hb.1, le_rfl, hb.2.1, le_rfl, hb.2.2, le_rfl⟩
      rw [h] at e1 e2; rw [← h] at e3 e4
      rw [inside_mk_iff] at e1 e2 e3 e4
      obtain ⟨ax, ay, az⟩ := alo; obtain ⟨bx, by', bz⟩ := blo
      obtain ⟨cx, cy, cz⟩ := ahi; obtain ⟨dx, dy, dz⟩ := bhi
      simp only at e1 e2 e3 e4 ⊢
      simp only [Box3.mk.injEq, V3.mk.injEq]
      refine ⟨⟨?_, ?_, ?_⟩, ⟨?_, ?_, ?_⟩⟩ <;> apply le_antisymm <;> linarith [e1, e2, e3, e4]

/-- `all_inside(vs)` is `contains(BoundingBox(vs))`, for every box and every list, the two `False`
    quirks included (empty list, empty receiver) -/
theorem all_inside_eq_contains_extents (b : Box3) (vs : List V3) :
    b.allInside vs = b.contains (extents3 vs) := by
  cases b with
  | empty => cases vs <;> simp [Box3.allInside, Box3.hasData, Box3.contains, Box3.inside, extents3]
  | mk lo hi =>
    cases vs with
    | nil => simp [Box3.allInside, Box3.contains, extents3]
    | cons h t =>
      rw [Bool.eq_iff_iff]
      simp only [Box3.allInside, Box3.hasData, Box3.contains, extents3, Bool.true_and, List.isEmpty_cons,
        Bool.not_false, Bool.and_eq_true, List.all_eq_true, inside_mk_iff, vmin_fold, vmax_fold,
        le_foldl_min_iff, foldl_min_le_iff, le_foldl_max_iff, foldl_max_le_iff, List.mem_cons, forall_eq_or_imp]
      constructor
      · rintro ⟨⟨h1, h2, h3, h4, h5, h6⟩, ht⟩
        refine ⟨⟨⟨h1, fun q hq => (ht q hq).1⟩, Or.inl h2, ⟨h3, fun q hq => (ht q hq).2.2.1⟩, Or.inl h4,
          ⟨h5, fun q hq => (ht q hq).2.2.2.2.1⟩, Or.inl h6⟩,
          ⟨Or.inl h1, ⟨h2, fun q hq => (ht q hq).2.1⟩, Or.inl h3, ⟨h4, fun q hq => (ht q hq).2.2.2.1⟩, Or.inl h5,
          ⟨h6, fun q hq => (ht q hq).2.2.2.2.2⟩⟩⟩
      · rintro ⟨⟨⟨h1, t1⟩, -, ⟨h3, t3⟩, -, ⟨h5, t5⟩, -⟩, ⟨-, ⟨h2, t2⟩, -, ⟨h4, t4⟩, -, ⟨h6, t6⟩⟩⟩
        exact ⟨⟨h1, h2, h3, h4, h5, h6⟩, fun q hq => ⟨t1 q hq, t2 q hq, t3 q hq, t4 q hq, t5 q hq, t6 q hq⟩⟩

/-- a non-empty well-formed `other` is contained iff it is a subset -/
theorem contains_iff_subset (a : Box3) (lo hi : V3) (hb : (Box3.mk lo hi).WF) :
    a.contains (.mk lo hi) = true ↔ ∀ p, (Box3.mk lo hi).inside p = true → a.inside p = true := by
  cases a with
  | empty =>
    simp only [Box3.contains, Box3.inside, Bool.and_self, Bool.false_eq_true, false_iff, not_forall]
    exact ⟨lo, by simp [hb.1, hb.2.1, hb.2.2]⟩
  | mk alo ahi =>
    simp only [Box3.contains, Bool.and_eq_true, inside_mk_iff]
    constructor
    · rintro ⟨⟨h1, h2, h3, h4, h5, h6⟩, ⟨g1, g2, g3, g4, g5, g6⟩⟩ p ⟨p1, p2, p3, p4, p5, p6⟩
      exact ⟨by linarith, by linarith, by linarith, by linarith, by linarith, by linarith⟩
    · intro h
      exact ⟨h lo ⟨le_rfl, hb.1, le_rfl, hb.2.1, le_rfl, hb.2.2⟩, h hi ⟨hb.1, le_rfl, hb.2.1, le_rfl, hb.2.2, le_rfl⟩⟩

/-- the empty case as the code behaves: nothing contains the empty box (its corners are `inf`),
    although the empty set is a subset of everything -/
theorem contains_empty (a : Box3) : a.contains .empty = false ∧ ∀ p, Box3.empty.inside p = false := by
  exact ⟨rfl, fun _ => rfl⟩

/-! ## extend / union -/

theorem extents_congr (l l' : List V3) (h : ∀ q, q ∈ l ↔ q ∈ l') : extents3 l = extents3 l' := by
  apply box_ext _ _ (extents_wf _) (extents_wf _)
  intro p
  rw [Bool.eq_iff_iff, inside_extents_iff, inside_extents_iff]
  simp only [h]

theorem extents_iter (m : List V3) (p : V3) :
    (extents3 (extents3 m).iter).inside p = (extents3 m).inside p := by
  rw [Bool.eq_iff_iff]
  cases m with
  | nil => simp [extents3, Box3.iter]
  | cons h t =>
    have wf := extents_wf (h :: t)
    rw [inside_extents_iff]
    simp only [extents3, Box3.iter, Box3.WF, inside_mk_iff, List.mem_cons, List.not_mem_nil, or_false,
      exists_eq_or_imp, exists_eq_left] at wf ⊢
    obtain ⟨w1, w2, w3⟩ := wf
    constructor
    · rintro ⟨a1 | a1, a2 | a2, a3 | a3, a4 | a4, a5 | a5, a6 | a6⟩ <;>
        exact ⟨by linarith, by linarith, by linarith, by linarith, by linarith, by linarith⟩
    · rintro ⟨a1, a2, a3, a4, a5, a6⟩
      exact ⟨Or.inl a1, Or.inr a2, Or.inl a3, Or.inr a4, Or.inl a5, Or.inr a6⟩

theorem inside_extents_append (l m : List V3) (p : V3) :
    (extents3 (l ++ m)).inside p = true ↔
      ((∃ q ∈ l, q.x ≤ p.x) ∨ (∃ q ∈ m, q.x ≤ p.x)) ∧ ((∃ q ∈ l, p.x ≤ q.x) ∨ (∃ q ∈ m, p.x ≤ q.x)) ∧
      ((∃ q ∈ l, q.y ≤ p.y) ∨ (∃ q ∈ m, q.y ≤ p.y)) ∧ ((∃ q ∈ l, p.y ≤ q.y) ∨ (∃ q ∈ m, p.y ≤ q.y)) ∧
      ((∃ q ∈ l, q.z ≤ p.z) ∨ (∃ q ∈ m, q.z ≤ p.z)) ∧ ((∃ q ∈ l, p.z ≤ q.z) ∨ (∃ q ∈ m, p.z ≤ q.z)) := by
  rw [inside_extents_iff]
  simp only [List.mem_append, or_and_right, exists_or]

/-- replacing a sub-list of points by the two corners of its box does not change the box -/
theorem extents_append_iter (l m : List V3) :
    extents3 (l ++ (extents3 m).iter) = extents3 (l ++ m) ∧ extents3 ((extents3 m).iter ++ l) = extents3 (m ++ l) := by
  have key : ∀ p : V3, ((∃ q ∈ (extents3 m).iter, q.x ≤ p.x) ↔ (∃ q ∈ m, q.x ≤ p.x)) ∧
      ((∃ q ∈ (extents3 m).iter, p.x ≤ q.x) ↔ (∃ q ∈ m, p.x ≤ q.x)) ∧
      ((∃ q ∈ (extents3 m).iter, q.y ≤ p.y) ↔ (∃ q ∈ m, q.y ≤ p.y)) ∧
      ((∃ q ∈ (extents3 m).iter, p.y ≤ q.y) ↔ (∃ q ∈ m, p.y ≤ q.y)) ∧
      ((∃ q ∈ (extents3 m).iter, q.z ≤ p.z) ↔ (∃ q ∈ m, q.z ≤ p.z)) ∧
      ((∃ q ∈ (extents3 m).iter, p.z ≤ q.z) ↔ (∃ q ∈ m, p.z ≤ q.z)) := by
    intro p
    cases m with
    | nil => simp [extents3, Box3.iter]
    | cons h t =>
      have wf := extents_wf (h :: t)
      simp only [extents3, Box3.iter, Box3.WF, List.mem_cons, List.not_mem_nil, or_false, exists_eq_or_imp,
        exists_eq_left, vmin_fold, vmax_fold] at wf ⊢
      obtain ⟨w1, w2, w3⟩ := wf
      refine ⟨?_, ?_, ?_, ?_, ?_, ?_⟩
      · rw [← foldl_min_le_iff V3.x]; constructor
        · rintro (a | a); exact a; exact le_trans w1 a
        · exact Or.inl
      · rw [← le_foldl_max_iff V3.x]; constructor
        · rintro (a | a); exact le_trans a w1; exact a
        · exact Or.inr
      · rw [← foldl_min_le_iff V3.y]; constructor
        · rintro (a | a); exact a; exact le_trans w2 a
        · exact Or.inl
      · rw [← le_foldl_max_iff V3.y]; constructor
        · rintro (a | a); exact le_trans a w2; exact a
        · exact Or.inr
      · rw [← foldl_min_le_iff V3.z]; constructor
        · rintro (a | a); exact a; exact le_trans w3 a
        · exact Or.inl
      · rw [← le_foldl_max_iff V3.z]; constructor
        · rintro (a | a); exact le_trans a w3; exact a
        · exact Or.inr
  constructor <;> apply box_ext _ _ (extents_wf _) (extents_wf _) <;> intro p <;>
    rw [Bool.eq_iff_iff, inside_extents_append, inside_extents_append] <;>
    obtain ⟨k1, k2, k3, k4, k5, k6⟩ := key p <;> rw [k1, k2, k3, k4, k5, k6]

theorem extents_pair (lo hi : V3) (h : (Box3.mk lo hi).WF) : extents3 [lo, hi] = .mk lo hi := by
  obtain ⟨h1, h2, h3⟩ := h
  simp [extents3, V3.vmin, V3.vmax, min_eq_left h1, min_eq_left h2, min_eq_left h3, max_eq_right h1,
    max_eq_right h2, max_eq_right h3]

theorem extents_iter_self (b : Box3) (h : b.WF) : extents3 b.iter = b := by
  cases b with
  | empty => rfl
  | mk lo hi => exact extents_pair lo hi h

theorem iter_witness (b : Box3) (p : V3) (h : b.inside p = true) :
    (∃ q ∈ b.iter, q.x ≤ p.x) ∧ (∃ q ∈ b.iter, p.x ≤ q.x) ∧ (∃ q ∈ b.iter, q.y ≤ p.y) ∧ (∃ q ∈ b.iter, p.y ≤ q.y) ∧
      (∃ q ∈ b.iter, q.z ≤ p.z) ∧ (∃ q ∈ b.iter, p.z ≤ q.z) := by
  cases b with
  | empty => simp [Box3.inside] at h
  | mk lo hi =>
    rw [inside_mk_iff] at h
    obtain ⟨h1, h2, h3, h4, h5, h6⟩ := h
    simp only [Box3.iter, List.mem_cons, List.not_mem_nil, or_false, exists_eq_or_imp, exists_eq_left]
    exact ⟨Or.inl h1, Or.inr h2, Or.inl h3, Or.inr h4, Or.inl h5, Or.inr h6⟩

/-- `extend` keeps what was inside and takes in every new vertex -/
theorem extend_inside (b : Box3) (vs : List V3) (p : V3) (h : b.inside p = true ∨ p ∈ vs) :
    (b.extend vs).inside p = true := by
  cases vs with
  | nil => rcases h with h | h; exact h; exact absurd h (by simp)
  | cons v t =>
    simp only [Box3.extend]
    rw [inside_extents_append]
    rcases h with h | h
    · obtain ⟨h1, h2, h3, h4, h5, h6⟩ := iter_witness b p h
      exact ⟨Or.inr h1, Or.inr h2, Or.inr h3, Or.inr h4, Or.inr h5, Or.inr h6⟩
    · exact ⟨Or.inl ⟨p, h, le_rfl⟩, Or.inl ⟨p, h, le_rfl⟩, Or.inl ⟨p, h, le_rfl⟩, Or.inl ⟨p, h, le_rfl⟩,
        Or.inl ⟨p, h, le_rfl⟩, Or.inl ⟨p, h, le_rfl⟩⟩

/-- `extend(vs)` is the union with the box of `vs` (for boxes produced by the class itself) -/
theorem extend_eq_union (b : Box3) (hb : b.WF) (vs : List V3) : b.extend vs = b.union (extents3 vs) := by
  cases vs with
  | nil =>
    show b = extents3 (b.iter ++ [])
    rw [List.append_nil, extents_iter_self b hb]
  | cons v t =>
    simp only [Box3.extend, Box3.union, Box3.ofPoints]
    rw [(extents_append_iter b.iter (v :: t)).1]
    exact extents_congr _ _ (fun q => by simp only [List.mem_append]; exact or_comm)

theorem union_wf (a b : Box3) : (a.union b).WF := extents_wf _

theorem union_comm (a b : Box3) : a.union b = b.union a :=
  extents_congr _ _ (fun q => by simp only [List.mem_append]; exact or_comm)

theorem union_assoc (a b c : Box3) : (a.union b).union c = a.union (b.union c) := by
  simp only [Box3.union, Box3.ofPoints]
  rw [(extents_append_iter c.iter (a.iter ++ b.iter)).2, (extents_append_iter a.iter (b.iter ++ c.iter)).1,
    List.append_assoc]

theorem union_idem (a : Box3) (h : a.WF) : a.union a = a := by
  cases a with
  | empty => rfl
  | mk lo hi =>
    have e : Box3.union (.mk lo hi) (.mk lo hi) = extents3 [lo, hi] := by
      show extents3 ([lo, hi] ++ [lo, hi]) = extents3 [lo, hi]
      exact extents_congr _ _ (fun q => by simp only [List.cons_append, List.nil_append, List.mem_cons, List.not_mem_nil, or_false]; tauto)
    rw [e, extents_pair lo hi h]

/-- the empty box is the neutral element (on boxes produced by the class itself) -/
theorem union_empty (b : Box3) (h : b.WF) : Box3.empty.union b = b ∧ b.union .empty = b := by
  constructor
  · show extents3 ([] ++ b.iter) = b
    rw [List.nil_append, extents_iter_self b h]
  · show extents3 (b.iter ++ []) = b
    rw [List.append_nil, extents_iter_self b h]

theorem four_le (a a' b b' c : Rat) (h1 : a ≤ a') (h2 : b ≤ b') :
    (a ≤ c ∨ a' ≤ c ∨ b ≤ c ∨ b' ≤ c) ↔ min a b ≤ c := by
  rw [min_le_iff]; constructor
  · rintro (h | h | h | h)
    · exact Or.inl h
    · exact Or.inl (le_trans h1 h)
    · exact Or.inr h
    · exact Or.inr (le_trans h2 h)
  · rintro (h | h)
    · exact Or.inl h
    · exact Or.inr (Or.inr (Or.inl h))

theorem four_ge (a a' b b' c : Rat) (h1 : a ≤ a') (h2 : b ≤ b') :
    (c ≤ a ∨ c ≤ a' ∨ c ≤ b ∨ c ≤ b') ↔ c ≤ max a' b' := by
  rw [le_max_iff]; constructor
  · rintro (h | h | h | h)
    · exact Or.inl (le_trans h h1)
    · exact Or.inl h
    · exact Or.inr (le_trans h h2)
    · exact Or.inr h
  · rintro (h | h)
    · exact Or.inr (Or.inl h)
    · exact Or.inr (Or.inr (Or.inr h))

/-- the union of two boxes with data is their box hull -/
theorem union_spec (alo ahi blo bhi p : V3) (ha : (Box3.mk alo ahi).WF) (hb : (Box3.mk blo bhi).WF) :
    ((Box3.mk alo ahi).union (.mk blo bhi)).inside p = true ↔
      min alo.x blo.x ≤ p.x ∧ p.x ≤ max ahi.x bhi.x ∧ min alo.y blo.y ≤ p.y ∧ p.y ≤ max ahi.y bhi.y ∧
      min alo.z blo.z ≤ p.z ∧ p.z ≤ max ahi.z bhi.z := by
  simp only [Box3.union, Box3.ofPoints, inside_extents_iff, Box3.iter, List.cons_append, List.nil_append,
    List.mem_cons, List.not_mem_nil, or_false, exists_eq_or_imp, exists_eq_left]
  rw [four_le _ _ _ _ _ ha.1 hb.1, four_ge _ _ _ _ _ ha.1 hb.1, four_le _ _ _ _ _ ha.2.1 hb.2.1,
    four_ge _ _ _ _ _ ha.2.1 hb.2.1, four_le _ _ _ _ _ ha.2.2 hb.2.2, four_ge _ _ _ _ _ ha.2.2 hb.2.2]

/-- the union is an upper bound of both operands ... -/
theorem union_upper (a b : Box3) (p : V3) (h : a.inside p = true ∨ b.inside p = true) :
    (a.union b).inside p = true := by
  simp only [Box3.union, Box3.ofPoints]
  rw [inside_extents_append]
  rcases h with h | h
  · obtain ⟨h1, h2, h3, h4, h5, h6⟩ := iter_witness a p h
    exact ⟨Or.inl h1, Or.inl h2, Or.inl h3, Or.inl h4, Or.inl h5, Or.inl h6⟩
  · obtain ⟨h1, h2, h3, h4, h5, h6⟩ := iter_witness b p h
    exact ⟨Or.inr h1, Or.inr h2, Or.inr h3, Or.inr h4, Or.inr h5, Or.inr h6⟩

theorem corners_inside (b : Box3) (h : b.WF) : ∀ q ∈ b.iter, b.inside q = true := by
  cases b with
  | empty => simp [Box3.iter]
  | mk lo hi =>
    obtain ⟨h1, h2, h3⟩ := h
    simp [Box3.iter, inside_mk_iff, h1, h2, h3]

/-- ... and the least box above them: every box that includes both operands includes the union -/
theorem union_least (a b c : Box3) (ha : a.WF) (hb : b.WF)
    (hac : ∀ p, a.inside p = true → c.inside p = true) (hbc : ∀ p, b.inside p = true → c.inside p = true) :
    ∀ p, (a.union b).inside p = true → c.inside p = true := by
  intro p hp
  have hall : ∀ q ∈ a.iter ++ b.iter, c.inside q = true := by
    intro q hq
    rcases List.mem_append.mp hq with hq | hq
    · exact hac q (corners_inside a ha q hq)
    · exact hbc q (corners_inside b hb q hq)
  cases hl : a.iter ++ b.iter with
  | nil => simp [Box3.union, Box3.ofPoints, hl, extents3, Box3.inside] at hp
  | cons v t =>
    have hc : c.allInside (v :: t) = true := by
      cases c with
      | empty => have := hall v (by simp [hl]); simp [Box3.inside] at this
      | mk lo hi =>
        simp only [Box3.allInside, Box3.hasData, List.isEmpty_cons, Bool.not_false, Bool.true_and, List.all_eq_true]
        intro q hq; exact hall q (by rw [hl]; exact hq)
    rw [all_inside_eq_contains_extents] at hc
    have hwf := extents_wf (v :: t)
    simp only [Box3.union, Box3.ofPoints, hl] at hp
    simp only [extents3] at hc hwf hp
    exact (contains_iff_subset c _ _ hwf).mp hc p hp

/-! ## Bézier curves stay in the box of their control points (why fast mode is never smaller) -/

theorem bezier4_between (p0 p1 p2 p3 t m M : Rat) (h0 : 0 ≤ t) (h1 : t ≤ 1)
    (l0 : m ≤ p0) (l1 : m ≤ p1) (l2 : m ≤ p2) (l3 : m ≤ p3) (u0 : p0 ≤ M) (u1 : p1 ≤ M) (u2 : p2 ≤ M) (u3 : p3 ≤ M) :
    m ≤ bezier4 p0 p1 p2 p3 t ∧ bezier4 p0 p1 p2 p3 t ≤ M := by
  have hu : 0 ≤ 1 - t := by linarith
  have e1 : bezier4 p0 p1 p2 p3 t - m =
      (1 - t) ^ 3 * (p0 - m) + 3 * (1 - t) ^ 2 * t * (p1 - m) + 3 * (1 - t) * t ^ 2 * (p2 - m) + t ^ 3 * (p3 - m) := by
    unfold bezier4; ring
  have e2 : M - bezier4 p0 p1 p2 p3 t =
      (1 - t) ^ 3 * (M - p0) + 3 * (1 - t) ^ 2 * t * (M - p1) + 3 * (1 - t) * t ^ 2 * (M - p2) + t ^ 3 * (M - p3) := by
    unfold bezier4; ring
  have a0 : 0 ≤ p0 - m := by linarith
  have a1 : 0 ≤ p1 - m := by linarith
  have a2 : 0 ≤ p2 - m := by linarith
  have a3 : 0 ≤ p3 - m := by linarith
  have b0 : 0 ≤ M - p0 := by linarith
  have b1 : 0 ≤ M - p1 := by linarith
  have b2 : 0 ≤ M - p2 := by linarith
  have b3 : 0 ≤ M - p3 := by linarith
  have g1 : 0 ≤ bezier4 p0 p1 p2 p3 t - m := by rw [e1]; positivity
  have g2 : 0 ≤ M - bezier4 p0 p1 p2 p3 t := by rw [e2]; positivity
  constructor <;> linarith

theorem bezier3_between (p0 p1 p2 t m M : Rat) (h0 : 0 ≤ t) (h1 : t ≤ 1)
    (l0 : m ≤ p0) (l1 : m ≤ p1) (l2 : m ≤ p2) (u0 : p0 ≤ M) (u1 : p1 ≤ M) (u2 : p2 ≤ M) :
    m ≤ bezier3 p0 p1 p2 t ∧ bezier3 p0 p1 p2 t ≤ M := by
  have hu : 0 ≤ 1 - t := by linarith
  have e1 : bezier3 p0 p1 p2 t - m = (1 - t) ^ 2 * (p0 - m) + 2 * t * (1 - t) * (p1 - m) + t ^ 2 * (p2 - m) := by
    unfold bezier3; ring
  have e2 : M - bezier3 p0 p1 p2 t = (1 - t) ^ 2 * (M - p0) + 2 * t * (1 - t) * (M - p1) + t ^ 2 * (M - p2) := by
    unfold bezier3; ring
  have a0 : 0 ≤ p0 - m := by linarith
  have a1 : 0 ≤ p1 - m := by linarith
  have a2 : 0 ≤ p2 - m := by linarith
  have b0 : 0 ≤ M - p0 := by linarith
  have b1 : 0 ≤ M - p1 := by linarith
  have b2 : 0 ≤ M - p2 := by linarith
  have g1 : 0 ≤ bezier3 p0 p1 p2 t - m := by rw [e1]; positivity
  have g2 : 0 ≤ M - bezier3 p0 p1 p2 t := by rw [e2]; positivity
  constructor <;> linarith

/-- every point of a cubic Bézier curve, as `Bezier4P` evaluates it, lies in the box of the four
    control points (the box fast mode uses) -/
theorem bezier_in_control_box (p0 p1 p2 p3 : V3) (t : Rat) (h0 : 0 ≤ t) (h1 : t ≤ 1) :
    (extents3 [p0, p1, p2, p3]).inside (bezier4V p0 p1 p2 p3 t) = true := by
  have i0 := extents_contains_all [p0, p1, p2, p3] p0 (by simp)
  have i1 := extents_contains_all [p0, p1, p2, p3] p1 (by simp)
  have i2 := extents_contains_all [p0, p1, p2, p3] p2 (by simp)
  have i3 := extents_contains_all [p0, p1, p2, p3] p3 (by simp)
  simp only [extents3, inside_mk_iff] at i0 i1 i2 i3 ⊢
  obtain ⟨x1, x2⟩ := bezier4_between p0.x p1.x p2.x p3.x t _ _ h0 h1 i0.1 i1.1 i2.1 i3.1 i0.2.1 i1.2.1 i2.2.1 i3.2.1
  obtain ⟨y1, y2⟩ := bezier4_between p0.y p1.y p2.y p3.y t _ _ h0 h1 i0.2.2.1 i1.2.2.1 i2.2.2.1 i3.2.2.1
    i0.2.2.2.1 i1.2.2.2.1 i2.2.2.2.1 i3.2.2.2.1
  obtain ⟨z1, z2⟩ := bezier4_between p0.z p1.z p2.z p3.z t _ _ h0 h1 i0.2.2.2.2.1 i1.2.2.2.2.1 i2.2.2.2.2.1
    i3.2.2.2.2.1 i0.2.2.2.2.2 i1.2.2.2.2.2 i2.2.2.2.2.2 i3.2.2.2.2.2
  exact ⟨x1, x2, y1, y2, z1, z2⟩

theorem bezier3_in_control_box (p0 p1 p2 : V3) (t : Rat) (h0 : 0 ≤ t) (h1 : t ≤ 1) :
    (extents3 [p0, p1, p2]).inside (bezier3V p0 p1 p2 t) = true := by
  have i0 := extents_contains_all [p0, p1, p2] p0 (by simp)
  have i1 := extents_contains_all [p0, p1, p2] p1 (by simp)
  have i2 := extents_contains_all [p0, p1, p2] p2 (by simp)
  simp only [extents3, inside_mk_iff] at i0 i1 i2 ⊢
  obtain ⟨x1, x2⟩ := bezier3_between p0.x p1.x p2.x t _ _ h0 h1 i0.1 i1.1 i2.1 i0.2.1 i1.2.1 i2.2.1
  obtain ⟨y1, y2⟩ := bezier3_between p0.y p1.y p2.y t _ _ h0 h1 i0.2.2.1 i1.2.2.1 i2.2.2.1
    i0.2.2.2.1 i1.2.2.2.1 i2.2.2.2.1
  obtain ⟨z1, z2⟩ := bezier3_between p0.z p1.z p2.z t _ _ h0 h1 i0.2.2.2.2.1 i1.2.2.2.2.1 i2.2.2.2.2.1
    i0.2.2.2.2.2 i1.2.2.2.2.2 i2.2.2.2.2.2
  exact ⟨x1, x2, y1, y2, z1, z2⟩

/-- fast >= precise for one cubic segment: whatever parameters in [0, 1] the extremum search of
    `cubic_bezier_bbox` adds to the two end points, the resulting box is contained in the control box -/
theorem fast_contains_precise_bezier (p0 p1 p2 p3 : V3) (ts : List Rat) (h : ∀ t ∈ ts, 0 ≤ t ∧ t ≤ 1) :
    (extents3 [p0, p1, p2, p3]).contains (extents3 (p0 :: p3 :: ts.map (bezier4V p0 p1 p2 p3))) = true := by
  rw [← all_inside_eq_contains_extents]
  simp only [Box3.allInside, extents3, Box3.hasData, List.isEmpty_cons, Bool.not_false, Bool.true_and,
    List.all_cons, Bool.and_eq_true, List.all_eq_true, List.mem_map, forall_exists_index, and_imp,
    forall_apply_eq_imp_iff₂]
  refine ⟨extents_contains_all [p0, p1, p2, p3] p0 (by simp), extents_contains_all [p0, p1, p2, p3] p3 (by simp), ?_⟩
  intro t ht
  exact bezier_in_control_box p0 p1 p2 p3 t (h t ht).1 (h t ht).2


/-! ## the folds of `ezdxf.bbox` and the cache -/

/-- `ezdxf.bbox.extents` folds `extend` over the yielded boxes: the result is the box of all their
    corner points, hence contains every point of every yielded box -/
theorem extend_all_spec (bs : List Box3) :
    extendAll bs = extents3 (bs.flatMap Box3.iter) ∧
      ∀ b ∈ bs, ∀ p, b.inside p = true → (extendAll bs).inside p = true := by
  have gen : ∀ (bs : List Box3) (l : List V3),
      bs.foldl (fun acc b => acc.extend b.iter) (extents3 l) = extents3 (l ++ bs.flatMap Box3.iter) := by
    intro bs
    induction bs with
    | nil => intro l; simp
    | cons b t ih =>
      intro l
      simp only [List.foldl_cons, List.flatMap_cons]
      cases b with
      | empty => simp only [Box3.iter, Box3.extend, List.nil_append]; exact ih l
      | mk lo hi =>
        have e : (extents3 l).extend (Box3.mk lo hi).iter = extents3 (l ++ [lo, hi]) := by
          show extents3 ([lo, hi] ++ (extents3 l).iter) = extents3 (l ++ [lo, hi])
          rw [(extents_append_iter [lo, hi] l).1]
          exact extents_congr _ _ (fun q => by simp only [List.mem_append]; exact or_comm)
        rw [e, ih, List.append_assoc]; rfl
  have e : extendAll bs = extents3 (bs.flatMap Box3.iter) := by
    have := gen bs []
    simpa [extendAll, extents3] using this
  refine ⟨e, ?_⟩
  intro b hb p hp
  rw [e, inside_extents_iff]
  obtain ⟨h1, h2, h3, h4, h5, h6⟩ := iter_witness b p hp
  simp only [List.mem_flatMap]
  exact ⟨by obtain ⟨q, hq, h⟩ := h1; exact ⟨q, ⟨b, hb, hq⟩, h⟩, by obtain ⟨q, hq, h⟩ := h2; exact ⟨q, ⟨b, hb, hq⟩, h⟩,
    by obtain ⟨q, hq, h⟩ := h3; exact ⟨q, ⟨b, hb, hq⟩, h⟩, by obtain ⟨q, hq, h⟩ := h4; exact ⟨q, ⟨b, hb, hq⟩, h⟩,
    by obtain ⟨q, hq, h⟩ := h5; exact ⟨q, ⟨b, hb, hq⟩, h⟩, by obtain ⟨q, hq, h⟩ := h6; exact ⟨q, ⟨b, hb, hq⟩, h⟩⟩

theorem get_boxes (c : Cache) (key : Option Nat) : (c.get key).2.boxes = c.boxes := by
  cases key with
  | none => rfl
  | some k => simp only [Cache.get]; split <;> rfl

theorem get_some (truth : Nat → Box3) (c : Cache) (hc : c.Inv truth) (key : Option Nat) (b : Box3)
    (h : (c.get key).1 = some b) : ∃ k, key = some k ∧ b = truth k := by
  cases key with
  | none => simp [Cache.get] at h
  | some k =>
    refine ⟨k, rfl, ?_⟩
    simp only [Cache.get] at h
    split at h
    · simp at h
    · rename_i b' hb'
      simp only [Option.some.injEq] at h
      subst h
      simp only [Cache.lookup, Option.map_eq_some_iff] at hb'
      obtain ⟨e, he, rfl⟩ := hb'
      have hm := List.mem_of_find?_eq_some he
      have hk := List.find?_some he
      simp only [beq_iff_eq] at hk
      rw [← hk]; exact hc e hm

theorem inv_store (truth : Nat → Box3) (c : Cache) (hc : c.Inv truth) (key : Option Nat) (b : Box3)
    (h : ∀ k, key = some k → b = truth k) : (c.store key b).Inv truth := by
  cases key with
  | none => exact hc
  | some k =>
    intro e he
    simp only [Cache.store, List.mem_cons, List.mem_filter] at he
    rcases he with rfl | ⟨he, -⟩
    · exact h k rfl
    · exact hc e he

theorem inv_of_boxes (truth : Nat → Box3) (c c' : Cache) (h : c'.boxes = c.boxes) (hc : c.Inv truth) :
    c'.Inv truth := by
  intro e he; rw [h] at he; exact hc e he

theorem prim_step_spec (truth : Nat → Box3) (c : Cache) (hc : c.Inv truth) (q : Prim)
    (hq : ∀ k, q.key = some k → q.box = truth k) :
    (primStep true c q).1 = q.box ∧ (primStep true c q).2.Inv truth := by
  have hb := get_boxes c q.key
  have hs := get_some truth c hc q.key
  simp only [primStep, if_true]
  rcases hg : c.get q.key with ⟨o, c'⟩
  rw [hg] at hb hs
  have hc' : c'.Inv truth := inv_of_boxes truth c c' hb hc
  cases o with
  | none =>
    refine ⟨rfl, ?_⟩
    show (if q.box.hasData then c'.store q.key q.box else c').Inv truth
    split
    · exact inv_store truth c' hc' q.key q.box hq
    · exact hc'
  | some b =>
    obtain ⟨k, hk, rfl⟩ := hs b rfl
    exact ⟨(hq k hk).symm, hc'⟩

theorem multi_recursive_spec (truth : Nat → Box3) (qs : List Prim) :
    ∀ c : Cache, c.Inv truth → (∀ q ∈ qs, ∀ k, q.key = some k → q.box = truth k) →
      (multiRecursive true c qs).1 = (qs.map Prim.box).filter Box3.hasData ∧ (multiRecursive true c qs).2.Inv truth := by
  induction qs with
  | nil => intro c hc _; exact ⟨rfl, hc⟩
  | cons q t ih =>
    intro c hc hq
    obtain ⟨e1, i1⟩ := prim_step_spec truth c hc q (hq q (by simp))
    obtain ⟨e2, i2⟩ := ih (primStep true c q).2 i1 (fun q' hq' => hq q' (by simp [hq']))
    simp only [multiRecursive, e1, e2, List.map_cons, List.filter_cons]
    exact ⟨trivial, i2⟩

theorem multi_recursive_plain (c : Cache) (qs : List Prim) :
    multiRecursive false c qs = ((qs.map Prim.box).filter Box3.hasData, c) := by
  induction qs with
  | nil => rfl
  | cons q t ih =>
    simp only [multiRecursive, primStep, Bool.false_eq_true, if_false, ih, List.map_cons, List.filter_cons]

theorem ent_step_plain (c : Cache) (e : Ent) : entStep false c e = (e.flatBox, c) := by
  simp [entStep, multi_recursive_plain, Ent.flatBox]

theorem ent_step_spec (truth : Nat → Box3) (c : Cache) (hc : c.Inv truth) (e : Ent) (he : e.Coherent truth) :
    (entStep true c e).1 = e.flatBox ∧ (entStep true c e).2.Inv truth := by
  have hb := get_boxes c e.key
  have hs := get_some truth c hc e.key
  simp only [entStep, if_true]
  rcases hg : c.get e.key with ⟨o, c'⟩
  rw [hg] at hb hs
  have hc' : c'.Inv truth := inv_of_boxes truth c c' hb hc
  cases o with
  | none =>
    obtain ⟨e1, i1⟩ := multi_recursive_spec truth e.prims c' hc' he.1
    simp only [e1]
    refine ⟨rfl, ?_⟩
    exact inv_store truth _ i1 e.key _ (fun k hk => he.2 k hk)
  | some b =>
    obtain ⟨k, hk, rfl⟩ := hs b rfl
    exact ⟨(he.2 k hk).symm, hc'⟩

/-- A cache never changes results: if every cached box is the box of its key (`Inv`) and keys identify
    boxes (`Coherent`), then `multi_flat` / `extents` with the cache yield exactly what they yield
    without a cache (whatever that cache-less run started from), and the invariant is preserved,
    so the statement holds for every later call with the same cache as well. -/
theorem cache_transparent_ents (truth : Nat → Box3) (es : List Ent) (c c0 : Cache) (hc : c.Inv truth)
    (he : ∀ e ∈ es, e.Coherent truth) :
    (multiFlat true c es).1 = (multiFlat false c0 es).1 ∧
      (extentsOf true c es).1 = (extentsOf false c0 es).1 ∧
      (extentsOf true c es).2.Inv truth ∧ (extentsOf false c0 es).2 = c0 := by
  have key : ∀ (es : List Ent) (c : Cache), c.Inv truth → (∀ e ∈ es, e.Coherent truth) →
      (multiFlat true c es).1 = (multiFlat false c0 es).1 ∧ (multiFlat true c es).2.Inv truth ∧
        (multiFlat false c0 es).2 = c0 := by
    intro es
    induction es with
    | nil => intro c hc _; exact ⟨rfl, hc, rfl⟩
    | cons e t ih =>
      intro c hc he
      obtain ⟨e1, i1⟩ := ent_step_spec truth c hc e (he e (by simp))
      obtain ⟨e2, i2, e3⟩ := ih (entStep true c e).2 i1 (fun e' he' => he e' (by simp [he']))
      simp only [multiFlat, ent_step_plain, e1, e2, e3]
      exact ⟨trivial, i2, trivial⟩
  obtain ⟨k1, k2, k3⟩ := key es c hc he
  exact ⟨k1, by simp only [extentsOf, k1], k2, k3⟩

end EzdxfVerif.BBox.Lemmas

/-
Helper lemmas for C13 (not counted): a spline piece is a POLYNOMIAL in the parameter, so two pieces (of possibly different
knot vectors / control polygons) that agree on a non-degenerate interval agree for every parameter (identity theorem
for polynomials over ℚ).
-/
import EzdxfVerif.Lemmas.CurveDeriv
import EzdxfVerif.Lemmas.CurveInsert
import Mathlib.Algebra.Polynomial.Roots
import Mathlib.Order.Interval.Set.Infinite
import Mathlib.Algebra.Order.Field.Basic
import Mathlib.Algebra.Order.Field.Rat

namespace EzdxfVerif.Lemmas.Curve
open EzdxfVerif.Curve Polynomial

/-- coordinate `π` of `Σ_i N_{i,p}[span s] · P_i` as a polynomial in the parameter -/
noncomputable def piecePoly (π : V3 → ℚ) (K : Nat → Rat) (s p : Nat) : Nat → List V3 → ℚ[X]
  | _, [] => 0
  | i, q :: qs => C (π q) * cdbPoly K (delta s) p i + piecePoly π K s p (i + 1) qs

theorem piecePoly_eval (π : V3 → ℚ) (hz : π V3.zero = 0) (ha : ∀ a b, π (a.add b) = π a + π b)
    (hs : ∀ a s, π (a.scale s) = π a * s) (K : Nat → Rat) (s p : Nat) (u : Rat) :
    ∀ (l : List V3) (i : Nat),
      (piecePoly π K s p i l).eval u = π (curveSum (fun j => cdbF K u (delta s) p j) i l)
  | [], _ => by simp [piecePoly, curveSum, hz]
  | q :: qs, i => by
    simp only [piecePoly, curveSum, eval_add, eval_mul, eval_C, cdbPoly_eval, ha, hs,
      piecePoly_eval π hz ha hs K s p u qs (i + 1)]

/-- identity theorem: pieces that agree on `[a, b)`, `a < b`, agree for every parameter -/
theorem pieces_eq_of_interval (K1 K2 : Nat → Rat) (s1 s2 p : Nat) (l1 l2 : List V3) (a b : Rat) (hab : a < b)
    (h : ∀ u, a ≤ u → u < b →
      curveSum (fun j => cdbF K1 u (delta s1) p j) 0 l1 = curveSum (fun j => cdbF K2 u (delta s2) p j) 0 l2) (u : Rat) :
    curveSum (fun j => cdbF K1 u (delta s1) p j) 0 l1 = curveSum (fun j => cdbF K2 u (delta s2) p j) 0 l2 := by
  have key : ∀ (π : V3 → ℚ), π V3.zero = 0 → (∀ a b, π (a.add b) = π a + π b) → (∀ a s, π (a.scale s) = π a * s) →
      π (curveSum (fun j => cdbF K1 u (delta s1) p j) 0 l1) = π (curveSum (fun j => cdbF K2 u (delta s2) p j) 0 l2) := by
    intro π hz ha hs
    have hG : piecePoly π K1 s1 p 0 l1 - piecePoly π K2 s2 p 0 l2 = 0 := by
      apply eq_zero_of_infinite_isRoot
      apply Set.Infinite.mono _ (Set.Ico_infinite hab)
      intro x hx
      simp only [Set.mem_ofPred_eq, IsRoot, eval_sub, piecePoly_eval π hz ha hs]
      rw [h x hx.1 hx.2, sub_self]
    have := congrArg (Polynomial.eval u) hG
    simp only [eval_sub, piecePoly_eval π hz ha hs, eval_zero] at this
    linarith
  apply v3ext
  · exact key V3.x rfl (fun _ _ => rfl) (fun _ _ => rfl)
  · exact key V3.y rfl (fun _ _ => rfl) (fun _ _ => rfl)
  · exact key V3.z rfl (fun _ _ => rfl) (fun _ _ => rfl)

/-- The NURBS Book (2.7) as an identity of POLYNOMIALS -/
theorem cdbPoly_derivative (K : Nat → Rat) (base : Nat → Rat) (M : Nat)
    (hmono : ∀ a b, a ≤ b → b ≤ M → K a ≤ K b) (p i : Nat) (hi : i + p + 2 ≤ M) :
    derivative (cdbPoly K base (p + 1) i)
      = C ((p : ℚ) + 1) * (C (1 / (K (i + p + 1) - K i)) * cdbPoly K base p i
          - C (1 / (K (i + p + 2) - K (i + 1))) * cdbPoly K base p (i + 1)) := by
  apply Polynomial.funext
  intro u
  rw [cdbPoly_derivative_eval, cdbFD_formula K u base M hmono p i hi]
  simp only [eval_mul, eval_sub, eval_C, cdbPoly_eval]
  ring

/-- **derivatives of every order** (The NURBS Book (2.9)): the `(k+1)`-th derivative of a basis function of degree
    `p + 1` is `(p+1)·(N^{(k)}_{i,p}/(K_{i+p+1} − K_i) − N^{(k)}_{i+1,p}/(K_{i+p+2} − K_{i+1}))`, as polynomials, hence
    for every parameter -/
theorem cdbPoly_iterate_derivative (K : Nat → Rat) (base : Nat → Rat) (M : Nat)
    (hmono : ∀ a b, a ≤ b → b ≤ M → K a ≤ K b) (p i k : Nat) (hi : i + p + 2 ≤ M) :
    derivative^[k + 1] (cdbPoly K base (p + 1) i)
      = C ((p : ℚ) + 1) * (C (1 / (K (i + p + 1) - K i)) * derivative^[k] (cdbPoly K base p i)
          - C (1 / (K (i + p + 2) - K (i + 1))) * derivative^[k] (cdbPoly K base p (i + 1))) := by
  rw [Function.iterate_succ, Function.comp_apply, cdbPoly_derivative K base M hmono p i hi,
    iterate_derivative_C_mul, iterate_derivative_sub, iterate_derivative_C_mul, iterate_derivative_C_mul]

end EzdxfVerif.Lemmas.Curve

/-
Property C02, final round: section-level second cycle for EVERY accepted input, binary chunks.
-/
import EzdxfVerif.Lemmas.StorageDoc

namespace EzdxfVerif.StorageDoc
open EzdxfVerif.XTags EzdxfVerif.Storage EzdxfVerif.Gen.StorageTables

/-- a binary chunk tag (`types.BINARY_DATA`: 310..319 and 1004) -/
def isBinary (t : Tag) : Bool := binaryCodes.contains t.code

theorem exportEnt_head (alive : V → Bool) (e : Ent) (u : List Tag) (h : exportEnt alive e = .ok u) :
    ∃ tl, u = ⟨structureMarker, e.typ⟩ :: tl := by
  simp only [exportEnt] at h
  split at h
  · cases h
  · simp only [Except.ok.injEq] at h
    subst h
    simp only [entityOrder, List.flatMap_cons, List.flatMap_nil, List.append_nil, List.cons_append]
    exact ⟨_, rfl⟩

theorem isUnknown_congr (a b : Rec) (h : recType a = recType b) : isUnknown a = isUnknown b := by
  simp only [isUnknown, h]

/-- one unknown record that the loader accepts: it is written, and what is written is read back and written identically -/
theorem record_second_cycle (cfg : DocCfg) (g : Rec × List Rec) (hu : isUnknown g.1 = true) (e : Ent)
    (hl : load g.1 = .ok e) (htie : tieFree e = true) (hty : e.typ = recType g.1) :
    ∃ u : Rec, writeGroup cfg g = .ok u ∧ writeGroup cfg (u, []) = .ok u := by
  obtain ⟨u, hexp⟩ := export_total rfl cfg.alive g.1 e hl
  have hr1 : roundtrip cfg.alive g.1 = .ok u := by simp only [roundtrip, hl, hexp]
  have hr2 := roundtrip_idempotent_any cfg.alive g.1 u e hl htie hr1
  obtain ⟨tl, htl⟩ := exportEnt_head cfg.alive e u hexp
  have hty2 : recType u = recType g.1 := by rw [htl]; simp only [recType]; exact hty
  have hu2 : isUnknown u = true := by rw [isUnknown_congr u g.1 hty2]; exact hu
  exact ⟨u, by simp only [writeGroup, hu, if_true, hr1], by simp only [writeGroup, hu2, if_true, hr2]⟩

theorem writeGroups_second_cycle (cfg : DocCfg) (gs : List (Rec × List Rec))
    (hunk : ∀ g ∈ gs, isUnknown g.1 = true)
    (hload : ∀ g ∈ gs, ∃ e, load g.1 = .ok e ∧ tieFree e = true ∧ e.typ = recType g.1) :
    ∃ us : List Rec, us.length = gs.length ∧ writeGroups cfg gs = .ok us.flatten
      ∧ writeGroups cfg (us.map (fun u => (u, []))) = .ok us.flatten := by
  induction gs with
  | nil => exact ⟨[], rfl, rfl, rfl⟩
  | cons g r ih =>
    obtain ⟨us, h1, h2, h3⟩ := ih (fun x hx => hunk x (List.mem_cons_of_mem _ hx))
      (fun x hx => hload x (List.mem_cons_of_mem _ hx))
    obtain ⟨e, hl, htie, hty⟩ := hload g List.mem_cons_self
    obtain ⟨u, hw1, hw2⟩ := record_second_cycle cfg g (hunk g List.mem_cons_self) e hl htie hty
    refine ⟨u :: us, by simp [h1], ?_, ?_⟩
    · simp only [writeGroups, hw1, h2, List.flatten_cons]
    · simp only [List.map_cons, writeGroups, hw2, h3, List.flatten_cons]

/-- the DXF type of a loaded record that starts with a structure tag is the value of that tag -/
theorem load_typ (t0 : Tag) (r : List Tag) (e : Ent) (h0 : t0.code = 0) (h : load (t0 :: r) = .ok e) : e.typ = t0.val := by
  obtain ⟨x, t0', base, hx, hsub, htyp⟩ := load_setup (t0 :: r) e h
  have hs0 : isAppStart t0 = false := by simp [isAppStart, h0]
  have he0 : isEndOfClass t0 = false := by simp [isEndOfClass, isEO, h0]
  simp only [setup, collectBase, hs0, he0, Bool.false_eq_true, if_false, List.nil_append] at hx
  cases hcb : collectBase r [t0] [] none with
  | none => simp [hcb] at hx
  | some y =>
    obtain ⟨b, a, rest⟩ := y
    obtain ⟨b', e1, _⟩ := collectBase_base_prefix r [t0] [] none b rest a hcb
    rw [hcb] at hx
    simp only at hx
    split at hx
    · simp only [Except.ok.injEq] at hx
      subst hx
      simp only [e1, List.cons_append, List.nil_append, List.cons.injEq] at hsub
      rw [htyp, ← hsub.1.1]
    · cases hx

/-- OBJECTS section, second cycle, for EVERY input the loader accepts (no EntityWF): when all records are of unknown types, start
    with a structure tag and have tie-free reactors, the section is written, and re-reading what was written writes it again
    tag for tag -/
theorem objects_second_cycle_ok (cfg : DocCfg) (hskip : ∀ r, cfg.skipObject r = false) (recs : List Rec)
    (hunk : ∀ r ∈ recs, isUnknown r = true)
    (hload : ∀ r ∈ recs, ∃ t0 tl e, r = t0 :: tl ∧ t0.code = 0 ∧ load r = .ok e ∧ tieFree e = true) :
    ∃ us : List Rec, us.length = recs.length ∧ objectsPass cfg recs [] = .ok us.flatten
      ∧ objectsPass cfg us [] = .ok us.flatten := by
  have hf : ∀ l : List Rec, l.filter (fun r => !cfg.skipObject r) = l := by
    intro l; rw [List.filter_eq_self]; intro r _; simp [hskip r]
  obtain ⟨us, h1, h2, h3⟩ := writeGroups_second_cycle cfg (recs.map (fun r => (r, [])))
    (by intro g hg; obtain ⟨r, hr, rfl⟩ := List.mem_map.mp hg; exact hunk r hr)
    (by
      intro g hg
      obtain ⟨r, hr, rfl⟩ := List.mem_map.mp hg
      obtain ⟨t0, tl, e, rfl, h0, hl, ht⟩ := hload r hr
      exact ⟨e, hl, ht, load_typ t0 tl e h0 hl⟩)
  refine ⟨us, by simpa using h1, ?_, ?_⟩
  · simp only [objectsPass, hf, h2, List.append_nil]
  · simp only [objectsPass, hf, h3, List.append_nil]

/-- binary chunks of a well-formed unknown entity: always kept with value and multiplicity; tag for tag and in order when the
    base class (the tags in front of the first subclass / embedded object / XDATA marker) holds none -/
theorem binary_chunks_ok (alive : V → Bool) (t : List Tag) (h : entityWF alive t = true) :
    ∃ u t0 pre rest, roundtrip alive t = .ok u ∧ t = t0 :: (pre ++ rest)
      ∧ (u.filter isBinary).Perm (t.filter isBinary)
      ∧ (pre.filter isBinary = [] → u.filter isBinary = t.filter isBinary) := by
  obtain ⟨t0, r, items, rest, rfl, -, -, hp, -, -⟩ := entityWF_unpack alive t h
  obtain ⟨_, hshape⟩ := parseItems_shape _ r none items rest hp
  have hflat := parseItems_flatten _ r none items rest hp
  simp only [List.nil_append] at hflat
  have hrt := roundtrip_canon alive _ h
  have hperm := canonItems_perm _ items hshape
  refine ⟨canon (t0 :: r), t0, items.flatMap Item.tags, rest, hrt, by rw [hflat], (canon_perm _).filter _, ?_⟩
  intro hpre
  have hpre' : (canonItems items).filter isBinary = [] := by
    have := (hperm.filter isBinary)
    rw [hpre] at this
    exact List.Perm.eq_nil this
  have hc : canon (t0 :: r) = t0 :: canonItems items ++ rest := by simp only [canon, hp]
  rw [hc]
  conv => rhs; rw [hflat]
  simp only [List.cons_append, List.filter_cons, List.filter_append, hpre, hpre']

/-- whatever the loader accepted is written: the export of an entity space cannot fail (fix af0fa7065 made `Reactors.get` total) -/
theorem writeGroups_total (cfg : DocCfg) (gs : List (Rec × List Rec))
    (h : ∀ g ∈ gs, isUnknown g.1 = true → ∃ e, load g.1 = .ok e) : ∃ out, writeGroups cfg gs = .ok out := by
  induction gs with
  | nil => exact ⟨[], rfl⟩
  | cons g r ih =>
    obtain ⟨o, ho⟩ := ih (fun x hx => h x (List.mem_cons_of_mem _ hx))
    have hg : ∃ a, writeGroup cfg g = .ok a := by
      by_cases hu : isUnknown g.1 = true
      · obtain ⟨e, hl⟩ := h g List.mem_cons_self hu
        obtain ⟨u, hexp⟩ := export_total rfl cfg.alive g.1 e hl
        exact ⟨u, by simp only [writeGroup, hu, if_true, roundtrip, hl, hexp]⟩
      · simp only [Bool.not_eq_true] at hu
        exact ⟨cfg.known g.1 g.2, by simp only [writeGroup, hu, Bool.false_eq_true, if_false]⟩
    obtain ⟨a, ha⟩ := hg
    exact ⟨a ++ o, by simp only [writeGroups, ha, ho]⟩

theorem entitiesPass_total (cfg : DocCfg) (recs : List Rec) (gs : List (Rec × List Rec))
    (hl : linkRecs cfg recs none = .ok gs) (h : ∀ r ∈ recs, isUnknown r = true → ∃ e, load r = .ok e) :
    ∃ out, entitiesPass cfg recs = .ok out := by
  have hmem := linkRecs_mem cfg recs none gs hl
  have hg : ∀ g ∈ gs, isUnknown g.1 = true → ∃ e, load g.1 = .ok e := by
    intro g hg hu
    rcases hmem g hg with h1 | ⟨_, _, h2⟩
    · exact h _ h1 hu
    · cases h2
  simp only [entitiesPass, hl, entitiesOrder, List.flatMap_cons, List.flatMap_nil, List.append_nil]
  exact writeGroups_total cfg _ (by
    intro g hg' hu
    rcases List.mem_append.mp hg' with h1 | h1
    · exact hg g (List.mem_filter.mp h1).1 hu
    · exact hg g (List.mem_filter.mp h1).1 hu)

theorem objectsPass_total (cfg : DocCfg) (recs : List Rec) (appended : List Tag)
    (h : ∀ r ∈ recs, isUnknown r = true → ∃ e, load r = .ok e) : ∃ out, objectsPass cfg recs appended = .ok out := by
  obtain ⟨o, ho⟩ := writeGroups_total cfg ((recs.filter (fun r => !cfg.skipObject r)).map (fun r => (r, [])))
    (by intro g hg hu; obtain ⟨r, hr, rfl⟩ := List.mem_map.mp hg; exact h r (List.mem_filter.mp hr).1 hu)
  exact ⟨o ++ appended, by simp only [objectsPass, ho]⟩

end EzdxfVerif.StorageDoc

/-
Helper lemmas for C09: the table driven double-byte codecs (Model/Encoding.lean, `dbcsCodec`) satisfy the codec
laws `Lawful` whenever the linear-time certificate `dbcsCertB` holds, and the certificate is checked by the kernel
for the four regenerated tables of Gen/CjkTables (complete decoder + complete encoder of CPython's cp932, gbk,
cp949, cp950).  Core Lean only.  The counted theorems live in Props/C09.lean.
-/
import EzdxfVerif.Model.Encoding
import EzdxfVerif.Gen.CjkTables

namespace EzdxfVerif.Lemmas.EncodingCjk
open EzdxfVerif.Encoding
open EzdxfVerif.Gen.CjkTables

/-! ### the certificate passes -/

theorem strictKeys_lb (l : List Nat) : ∀ lb, strictKeysB lb l = true → ∀ e ∈ l, lb ≤ ekey e := by
  induction l with
  | nil => intro _ _ e he; cases he
  | cons a r ih =>
    intro lb h e he
    simp only [strictKeysB, Bool.and_eq_true, Nat.ble_eq] at h
    rcases List.mem_cons.mp he with rfl | he
    · exact h.1
    · have := ih _ h.2 e he
      omega

/-- in a list with strictly increasing keys the first entry with the key of a member is that member -/
theorem find_of_strict (l : List Nat) : ∀ lb, strictKeysB lb l = true → ∀ e ∈ l,
    l.find? (fun d => ekey d = ekey e) = some e := by
  induction l with
  | nil => intro _ _ e he; cases he
  | cons a r ih =>
    intro lb h e he
    simp only [strictKeysB, Bool.and_eq_true, Nat.ble_eq] at h
    rcases List.mem_cons.mp he with rfl | he
    · simp
    · have hlb := strictKeys_lb r _ h.2 e he
      have hne : ¬ (ekey a = ekey e) := by omega
      simp only [List.find?_cons, hne, decide_false]
      exact ih _ h.2 e he

theorem isSub_mem (dec : List Nat) : ∀ enc, isSubB dec enc = true → ∀ e ∈ enc, e ∈ dec := by
  induction dec with
  | nil =>
    intro enc h e he
    cases enc with
    | nil => cases he
    | cons _ _ => simp [isSubB] at h
  | cons d ds ih =>
    intro enc h e he
    cases enc with
    | nil => cases he
    | cons x xs =>
      simp only [isSubB] at h
      by_cases hx : Nat.beq x d = true
      · simp only [hx, if_true] at h
        have hxd : x = d := Nat.eq_of_beq_eq_true hx
        rcases List.mem_cons.mp he with rfl | he
        · simp [hxd]
        · exact List.mem_cons_of_mem _ (ih xs h e he)
      · simp only [hx, Bool.false_eq_true, if_false] at h
        exact List.mem_cons_of_mem _ (ih (x :: xs) h e he)

/-! ### look-ups -/

theorem tabEncKey_some (l : List Nat) (x k : Nat) (h : tabEncKey l x = some k) :
    ∃ e ∈ l, ecp e = x ∧ ekey e = k := by
  unfold tabEncKey at h
  cases hf : l.find? (fun e => ecp e = x) with
  | none => simp [hf] at h
  | some e =>
    simp only [hf, Option.map_some, Option.some.injEq] at h
    have h1 := List.find?_some hf
    exact ⟨e, List.mem_of_find?_eq_some hf, by simpa using h1, h⟩

theorem key_split (k : Nat) : k / 256 * 256 + k % 256 = k := by omega

/-- decoding resumes after the encoding of a faithful character -/
theorem dbcsDec_keyBytes (leads : List (Nat × Nat)) (dec : List Nat) (e : Nat) (rest : Bytes)
    (hs : strictKeysB 0 dec = true) (he : e ∈ dec) (hok : decEntryOkB leads e = true) :
    dbcsDecWith (isLeadB leads) (tabLookup dec) (keyBytes (ekey e) ++ rest)
      = ecp e :: dbcsDecWith (isLeadB leads) (tabLookup dec) rest := by
  have hl : tabLookup dec (ekey e) = some (ecp e) := by
    unfold tabLookup
    rw [find_of_strict dec 0 hs e he]; rfl
  unfold decEntryOkB at hok
  unfold keyBytes
  by_cases hk : ekey e < 256
  · simp only [hk, if_true, Bool.not_eq_true'] at hok
    simp only [hk, if_true, List.singleton_append]
    cases rest with
    | nil => simp [dbcsDecWith, hok, hl]
    | cons b1 r => simp [dbcsDecWith, hok, hl]
  · simp only [hk, if_false] at hok
    simp only [hk, if_false, List.cons_append, List.nil_append]
    simp [dbcsDecWith, hok, key_split, hl]

/-! ### the laws -/

structure Cert (T : DbcsTab) : Prop where
  keys : strictKeysB 0 T.dec = true
  sub : isSubB T.dec T.encGood = true
  entries : T.dec.all (decEntryOkB T.leads) = true
  cleanGood : T.encGood.all cleanEntryB = true
  cleanLossy : T.encLossy.all cleanEntryB = true
  ascii : asciiOkB T = true

theorem cert_of_bool (T : DbcsTab) (h : dbcsCertB T = true) : Cert T := by
  simp only [dbcsCertB, Bool.and_eq_true] at h
  obtain ⟨⟨⟨⟨⟨h1, h2⟩, h3⟩, h4⟩, h5⟩, h6⟩ := h
  exact ⟨h1, h2, h3, h4, h5, h6⟩

theorem good_entry (T : DbcsTab) (C : Cert T) (x : Nat) (hx : dbcsGood T x) :
    ∃ e ∈ T.dec, ecp e = x ∧ decEntryOkB T.leads e = true ∧ (dbcsCodec T).enc x = some (keyBytes (ekey e)) := by
  unfold dbcsGood at hx
  cases hk : tabEncKey T.encGood x with
  | none => simp [hk] at hx
  | some k =>
    obtain ⟨e, he, hcp, hkey⟩ := tabEncKey_some _ _ _ hk
    have hdec : e ∈ T.dec := isSub_mem T.dec T.encGood C.sub e he
    refine ⟨e, hdec, hcp, List.all_eq_true.mp C.entries e hdec, ?_⟩
    simp [dbcsCodec, dbcsEncWith, hk, hkey]

theorem clean_of_entry (e : Nat) (h : cleanEntryB e = true) :
    ∀ y ∈ keyBytes (ekey e), (y = 0 ∨ y = 10 ∨ y = 13) → ecp e = y := by
  intro y hy h3
  unfold cleanEntryB isFraming at h
  unfold keyBytes at hy
  by_cases hk : ekey e < 256
  · simp only [hk, if_true, List.mem_singleton] at hy h
    subst hy
    simp only [Bool.or_eq_true, Bool.not_eq_true', beq_iff_eq, Bool.or_eq_false_iff, beq_eq_false_iff_ne] at h
    rcases h with h | h
    · omega
    · exact h
  · simp only [hk, if_false, List.mem_cons, List.not_mem_nil, or_false] at hy h
    simp only [Bool.and_eq_true, Bool.not_eq_true', Bool.or_eq_false_iff, beq_eq_false_iff_ne] at h
    rcases hy with hy | hy <;> omega

theorem dbcs_lawful (T : DbcsTab) (C : Cert T) : Lawful (dbcsCodec T) (dbcsGood T) where
  enc_some := by
    intro x hx
    obtain ⟨e, _, _, _, henc⟩ := good_entry T C x hx
    simp [henc]
  dec_enc := by
    intro s hs
    induction s with
    | nil => simp [encAll, dbcsCodec, dbcsDecWith]
    | cons x r ih =>
      obtain ⟨e, hdec, hcp, hok, henc⟩ := good_entry T C x (hs x (by simp))
      have ih' := ih (fun y hy => hs y (by simp [hy]))
      have : encAll (dbcsCodec T) (x :: r) = keyBytes (ekey e) ++ encAll (dbcsCodec T) r := by
        simp [encAll, List.flatMap_cons, henc]
      rw [this]
      show dbcsDecWith (isLeadB T.leads) (tabLookup T.dec) _ = _
      rw [dbcsDec_keyBytes T.leads T.dec e _ C.keys hdec hok, hcp]
      exact congrArg (x :: ·) ih'
  ascii := by
    intro x h1 h2
    have ha := C.ascii
    simp only [asciiOkB, List.all_eq_true, List.mem_range, beq_iff_eq] at ha
    have := ha (x - 32) (by omega)
    have hx : 32 + (x - 32) = x := by omega
    rw [hx] at this
    refine ⟨by simp [dbcsGood, this], ?_⟩
    have hk : x < 256 := by omega
    simp [dbcsCodec, dbcsEncWith, this, keyBytes, hk]
  clean := by
    intro x b hb y hy h3
    simp only [dbcsCodec, dbcsEncWith] at hb
    cases hg : tabEncKey T.encGood x with
    | some k =>
      obtain ⟨e, he, hcp, hkey⟩ := tabEncKey_some _ _ _ hg
      simp only [hg, Option.some.injEq] at hb
      subst hb hkey
      rw [← hcp]
      exact clean_of_entry e (List.all_eq_true.mp C.cleanGood e he) y hy h3
    | none =>
      simp only [hg] at hb
      cases hl : tabEncKey T.encLossy x with
      | none => simp [hl] at hb
      | some k =>
        obtain ⟨e, he, hcp, hkey⟩ := tabEncKey_some _ _ _ hl
        simp only [hl, Option.map_some, Option.some.injEq] at hb
        subst hb hkey
        rw [← hcp]
        exact clean_of_entry e (List.all_eq_true.mp C.cleanLossy e he) y hy h3

/-- a faithful character is written as the bytes of its table entry and these bytes decode to it alone -/
theorem good_iff_decodes (T : DbcsTab) (C : Cert T) (x : Nat) (hx : dbcsGood T x) :
    ∃ b, (dbcsCodec T).enc x = some b ∧ (dbcsCodec T).dec b = [x] := by
  obtain ⟨e, hdec, hcp, hok, henc⟩ := good_entry T C x hx
  refine ⟨_, henc, ?_⟩
  have := dbcsDec_keyBytes T.leads T.dec e [] C.keys hdec hok
  simp only [List.append_nil] at this
  show dbcsDecWith (isLeadB T.leads) (tabLookup T.dec) _ = _
  rw [this, hcp]
  simp [dbcsDecWith]

/-! ### the four regenerated tables: one kernel evaluation per pass and table -/

theorem cp932_keys : strictKeysB 0 cp932Tab.dec = true := by decide +kernel
theorem cp932_sub : isSubB cp932Tab.dec cp932Tab.encGood = true := by decide +kernel
theorem cp932_entries : cp932Tab.dec.all (decEntryOkB cp932Tab.leads) = true := by decide +kernel
theorem cp932_clean : (cp932Tab.encGood.all cleanEntryB && cp932Tab.encLossy.all cleanEntryB && asciiOkB cp932Tab) = true := by
  decide +kernel

theorem gbk_keys : strictKeysB 0 gbkTab.dec = true := by decide +kernel
theorem gbk_sub : isSubB gbkTab.dec gbkTab.encGood = true := by decide +kernel
theorem gbk_entries : gbkTab.dec.all (decEntryOkB gbkTab.leads) = true := by decide +kernel
theorem gbk_clean : (gbkTab.encGood.all cleanEntryB && gbkTab.encLossy.all cleanEntryB && asciiOkB gbkTab) = true := by
  decide +kernel

theorem cp949_keys : strictKeysB 0 cp949Tab.dec = true := by decide +kernel
theorem cp949_sub : isSubB cp949Tab.dec cp949Tab.encGood = true := by decide +kernel
theorem cp949_entries : cp949Tab.dec.all (decEntryOkB cp949Tab.leads) = true := by decide +kernel
theorem cp949_clean : (cp949Tab.encGood.all cleanEntryB && cp949Tab.encLossy.all cleanEntryB && asciiOkB cp949Tab) = true := by
  decide +kernel

theorem cp950_keys : strictKeysB 0 cp950Tab.dec = true := by decide +kernel
theorem cp950_sub : isSubB cp950Tab.dec cp950Tab.encGood = true := by decide +kernel
theorem cp950_entries : cp950Tab.dec.all (decEntryOkB cp950Tab.leads) = true := by decide +kernel
theorem cp950_clean : (cp950Tab.encGood.all cleanEntryB && cp950Tab.encLossy.all cleanEntryB && asciiOkB cp950Tab) = true := by
  decide +kernel

private theorem mk (T : DbcsTab) (h1 : strictKeysB 0 T.dec = true) (h2 : isSubB T.dec T.encGood = true)
    (h3 : T.dec.all (decEntryOkB T.leads) = true)
    (h4 : (T.encGood.all cleanEntryB && T.encLossy.all cleanEntryB && asciiOkB T) = true) : Cert T := by
  simp only [Bool.and_eq_true] at h4
  exact ⟨h1, h2, h3, h4.1.1, h4.1.2, h4.2⟩

/-- every double-byte table the source's code page dict leads to has a checked certificate
    (a new double-byte code page in `codepage_to_encoding` re-opens this proof) -/
theorem dbcs_tabs_cert : ∀ T ∈ dbcsTabs, Cert T := by
  intro T hT
  simp only [dbcsTabs, List.mem_cons, List.not_mem_nil, or_false] at hT
  rcases hT with rfl | rfl | rfl | rfl
  · exact mk _ cp932_keys cp932_sub cp932_entries cp932_clean
  · exact mk _ gbk_keys gbk_sub gbk_entries gbk_clean
  · exact mk _ cp949_keys cp949_sub cp949_entries cp949_clean
  · exact mk _ cp950_keys cp950_sub cp950_entries cp950_clean

end EzdxfVerif.Lemmas.EncodingCjk

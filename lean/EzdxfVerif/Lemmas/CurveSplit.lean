/-
Helper lemmas for C13 (not counted): index shift and increasing affine re-parametrisation of the Cox - de Boor pieces,
prefix / suffix of `curveSum` (for `split_bspline`).
-/
import EzdxfVerif.Lemmas.CurveReverse

namespace EzdxfVerif.Lemmas.Curve
open EzdxfVerif.Curve

theorem cdbF_shift (K : Nat → Rat) (u : Rat) (s d : Nat) :
    ∀ (p i : Nat), cdbF (fun j => K (j + d)) u (delta s) p i = cdbF K u (delta (s + d)) p (i + d)
  | 0, i => by
    simp only [cdbF, delta]
    by_cases h : i = s
    · rw [if_pos h, if_pos (by omega)]
    · rw [if_neg h, if_neg (by omega)]
  | p + 1, i => by
    simp only [cdbF, cdbF_shift K u s d p]
    have e1 : i + p + 1 + d = i + d + p + 1 := by omega
    have e2 : i + p + 2 + d = i + d + p + 2 := by omega
    have e3 : i + 1 + d = i + d + 1 := by omega
    rw [e1, e2, e3]

theorem cdbF_affine (K : Nat → Rat) (u a b : Rat) (hb : b ≠ 0) (base : Nat → Rat) :
    ∀ (p i : Nat), cdbF (fun j => (K j - a) / b) ((u - a) / b) base p i = cdbF K u base p i
  | 0, _ => rfl
  | p + 1, i => by
    simp only [cdbF, cdbF_affine K u a b hb base p]
    have e : ∀ x y : Rat, (x - a) / b - (y - a) / b = (x - y) / b := by intro x y; ring
    have c : ∀ x y z w : Rat, ((x - a) / b - (y - a) / b) / ((z - a) / b - (w - a) / b) = (x - y) / (z - w) := by
      intro x y z w
      rw [e, e]
      by_cases hz : z - w = 0
      · rw [hz, zero_div, div_zero, div_zero]
      · field_simp
    rw [c, c]

theorem curveSum_zero' (f : Nat → Rat) : ∀ (l : List V3) (k : Nat), (∀ i, k ≤ i → f i = 0) → curveSum f k l = V3.zero
  | [], _, _ => rfl
  | p :: ps, k, h => by
    simp only [curveSum, h k (le_refl _)]
    rw [curveSum_zero' f ps (k + 1) (fun i hi => h i (by omega))]
    apply v3ext <;> simp [V3.add, V3.scale, V3.zero]

/-- a sum whose coefficients vanish from index `k + c` on does not see the points behind the first `c` -/
theorem curveSum_take (f : Nat → Rat) : ∀ (c : Nat) (l : List V3) (k : Nat), (∀ i, k + c ≤ i → f i = 0) →
    curveSum f k (l.take c) = curveSum f k l
  | 0, l, k, h => by
    rw [List.take_zero, curveSum_zero' f l k (fun i hi => h i (by omega))]; rfl
  | _ + 1, [], _, _ => rfl
  | c + 1, p :: ps, k, h => by
    simp only [List.take_succ_cons, curveSum]
    rw [curveSum_take f c ps (k + 1) (fun i hi => h i (by omega))]

theorem curveSum_shift (f : Nat → Rat) (d : Nat) : ∀ (l : List V3) (k : Nat),
    curveSum f (k + d) l = curveSum (fun i => f (i + d)) k l
  | [], _ => rfl
  | p :: ps, k => by
    simp only [curveSum]
    have := curveSum_shift f d ps (k + 1)
    have e : k + 1 + d = k + d + 1 := by omega
    rw [e] at this
    rw [this]

/-- a sum whose coefficients vanish below `d` does not see the first `d` points -/
theorem curveSum_drop (f : Nat → Rat) : ∀ (d : Nat) (l : List V3) (k : Nat), (∀ i, k ≤ i → i < k + d → f i = 0) →
    curveSum f k l = curveSum f (k + d) (l.drop d)
  | 0, l, k, _ => by simp
  | d + 1, [], k, _ => by simp [curveSum]
  | d + 1, p :: ps, k, h => by
    simp only [curveSum, h k (le_refl _) (by omega), List.drop_succ_cons]
    rw [curveSum_drop f d ps (k + 1) (fun i h1 h2 => h i (by omega) (by omega))]
    have e : k + 1 + d = k + (d + 1) := by omega
    rw [e]
    apply v3ext <;> simp [V3.add, V3.scale]

theorem kget_take (l : List Rat) (c j : Nat) (h : j < c) : kget (l.take c) j = kget l j := by
  rw [kget_eq, kget_eq, List.getElem?_take, if_pos h]

theorem kget_drop (l : List Rat) (d j : Nat) : kget (l.drop d) j = kget l (d + j) := by
  rw [kget_eq, kget_eq, List.getElem?_drop]

theorem nd_take (l : List Rat) (c : Nat) (h : nondecreasing l = true) : nondecreasing (l.take c) = true := by
  apply nd_of_step
  intro i hi
  simp only [List.length_take] at hi
  rw [kget_take l c i (by omega), kget_take l c (i + 1) (by omega)]
  exact nd_mono l h i (i + 1) (by omega) (by omega)

end EzdxfVerif.Lemmas.Curve

/-
C08  lemmas for Model/ReadersRepair.lean: recover's coordinate re-ordering is the identity on entities whose
coordinates are written in canonical order.
-/
import EzdxfVerif.Lemmas.Readers
import EzdxfVerif.Model.ReadersRepair

namespace EzdxfVerif.Readers

theorem lookupLast_none (c : Nat) (ts : List Tag) (h : ∀ t ∈ ts, t.code ≠ c) : lookupLast c ts = none := by
  have : ts.filter (fun t => t.code == c) = [] := by
    rw [List.filter_eq_nil_iff]; intro t ht; simpa using h t ht
  simp [lookupLast, this]

theorem lookupLast_head (t : Tag) (ts : List Tag) (h : ∀ x ∈ ts, x.code ≠ t.code) : lookupLast t.code (t :: ts) = some t := by
  have : ts.filter (fun x => x.code == t.code) = [] := by
    rw [List.filter_eq_nil_iff]; intro x hx; simpa using h x hx
  simp [lookupLast, List.filter, this]

theorem lookupLast_skip (c : Nat) (t : Tag) (ts : List Tag) (h : t.code ≠ c) : lookupLast c (t :: ts) = lookupLast c ts := by
  have : (t.code == c) = false := by simpa using h
  simp [lookupLast, List.filter, this]

theorem filterMap_congr' {α β : Type} (f g : α → Option β) (l : List α) (h : ∀ x ∈ l, f x = g x) :
    l.filterMap f = l.filterMap g := by
  induction l with
  | nil => rfl
  | cons a r ih =>
    simp only [List.filterMap_cons, h a (by simp), ih (fun x hx => h x (by simp [hx]))]

/-- the dict lookups in canonical order give back a run of coordinate tags that is already in canonical order -/
theorem ordered_eq (cc : List Nat) (mid : List Tag) (hnd : cc.Nodup) (hs : (mid.map (·.code)).Sublist cc) :
    cc.filterMap (fun c => lookupLast c mid) = mid := by
  induction cc generalizing mid with
  | nil =>
    have : mid.map (·.code) = [] := List.sublist_nil.mp hs
    simp at this; simp [this]
  | cons c cs ih =>
    obtain ⟨hc, hcs⟩ := List.nodup_cons.mp hnd
    rcases List.sublist_cons_iff.mp hs with h | ⟨r, hr, h⟩
    · -- no tag of `mid` carries the code c
      have hmem : ∀ t ∈ mid, t.code ≠ c := by
        intro t ht heq
        have : t.code ∈ cs := h.subset (List.mem_map.mpr ⟨t, ht, rfl⟩)
        exact hc (heq ▸ this)
      simp only [List.filterMap_cons, lookupLast_none c mid hmem]
      exact ih mid hcs h
    · cases mid with
      | nil => simp at hr
      | cons t mid' =>
        simp only [List.map_cons, List.cons.injEq] at hr
        obtain ⟨htc, rfl⟩ := hr
        have hmem : ∀ x ∈ mid', x.code ≠ t.code := by
          intro x hx heq
          have : x.code ∈ cs := h.subset (List.mem_map.mpr ⟨x, hx, rfl⟩)
          exact hc (htc ▸ heq ▸ this)
        rw [← htc]
        simp only [List.filterMap_cons, lookupLast_head t mid' hmem]
        congr 1
        have : cs.filterMap (fun c => lookupLast c (t :: mid')) = cs.filterMap (fun c => lookupLast c mid') := by
          apply filterMap_congr'
          intro c' hc'
          exact lookupLast_skip c' t mid' (by intro heq; exact hc (htc ▸ heq ▸ hc'))
        rw [this]
        exact ih mid' hcs h

theorem takeWhile_prefix {α : Type} (p : α → Bool) (a b : List α) (ha : ∀ x ∈ a, p x = true) (hb : ∀ x ∈ b.head?, p x = false) :
    (a ++ b).takeWhile p = a := (takeDrop_all_append p a b ha hb).1

/-- `fix_coordinate_order` is the identity on an entity with canonically ordered coordinates -/
theorem fix_identity (codes : List Nat) (pre mid post : List Tag) (hnd : (coordCodes codes).Nodup)
    (h : CanonCoords codes pre mid post) :
    fixCoordinateOrder codes (pre ++ mid ++ post) = pre ++ mid ++ post := by
  obtain ⟨hpp, hsub⟩ := h
  have hpre : ∀ t ∈ pre, t.code ∉ coordCodes codes := fun t ht => by simpa using hpp t (by simp [ht])
  have hpost : ∀ t ∈ post, t.code ∉ coordCodes codes := fun t ht => by simpa using hpp t (by simp [ht])
  have hmid : ∀ t ∈ mid, t.code ∈ coordCodes codes := fun t ht => hsub.subset (List.mem_map.mpr ⟨t, ht, rfl⟩)
  have f1 : pre.filter (fun t => (coordCodes codes).contains t.code) = [] := by
    rw [List.filter_eq_nil_iff]; intro t ht; simpa using hpre t ht
  have f2 : post.filter (fun t => (coordCodes codes).contains t.code) = [] := by
    rw [List.filter_eq_nil_iff]; intro t ht; simpa using hpost t ht
  have f3 : mid.filter (fun t => (coordCodes codes).contains t.code) = mid := by
    rw [List.filter_eq_self]; intro t ht; simpa using hmid t ht
  have g1 : pre.filter (fun t => !(coordCodes codes).contains t.code) = pre := by
    rw [List.filter_eq_self]; intro t ht; simpa using hpre t ht
  have g2 : post.filter (fun t => !(coordCodes codes).contains t.code) = post := by
    rw [List.filter_eq_self]; intro t ht; simpa using hpost t ht
  have g3 : mid.filter (fun t => !(coordCodes codes).contains t.code) = [] := by
    rw [List.filter_eq_nil_iff]; intro t ht; simpa using hmid t ht
  have hcoords : (pre ++ mid ++ post).filter (fun t => (coordCodes codes).contains t.code) = mid := by
    rw [List.filter_append, List.filter_append, f1, f2, f3]; simp
  have hrem : (pre ++ mid ++ post).filter (fun t => !(coordCodes codes).contains t.code) = pre ++ post := by
    rw [List.filter_append, List.filter_append, g1, g2, g3]; simp
  unfold fixCoordinateOrder
  simp only [hcoords, hrem]
  cases hm : mid with
  | nil => simp
  | cons m ms =>
    have hne : (m :: ms) ≠ [] := by simp
    simp only [hne, if_false]
    have hpos : ((pre ++ (m :: ms) ++ post).takeWhile (fun t => !(coordCodes codes).contains t.code)) = pre := by
      rw [List.append_assoc]
      apply takeWhile_prefix
      · intro x hx; simpa using hpre x hx
      · intro x hx
        simp only [List.cons_append, List.head?_cons, Option.mem_def, Option.some.injEq] at hx
        subst hx
        simpa using hmid m (by rw [hm]; simp)
    rw [hpos, ← hm, ordered_eq _ mid hnd hsub]
    simp

/-- the groups a toolbox type occurs in are written canonically -/
def GroupCanon (toolbox : List (String × List Nat)) (g : Group) : Prop :=
  ∀ codes, toolboxCodes toolbox (dxftype g) = some codes →
    (coordCodes codes).Nodup ∧ ∃ pre mid post, g = pre ++ mid ++ post ∧ CanonCoords codes pre mid post

theorem reorderGroup_identity (toolbox : List (String × List Nat)) (g : Group) (h : GroupCanon toolbox g) :
    reorderGroup toolbox g = g := by
  unfold reorderGroup
  cases hc : toolboxCodes toolbox (dxftype g) with
  | none => rfl
  | some codes =>
    obtain ⟨hnd, pre, mid, post, rfl, hcan⟩ := h codes hc
    exact fix_identity codes pre mid post hnd hcan

/-- `tag_reorder_layer` is the identity on every stream of proper groups whose toolbox entities are written canonically
    and whose last group (EOF in a complete file) is not a toolbox entity -/
theorem reorder_layer_identity (toolbox : List (String × List Nat)) (gs : List Group) (last : Group)
    (hg : ∀ g ∈ gs ++ [last], groupOK g = true) (hcan : ∀ g ∈ gs, GroupCanon toolbox g)
    (hlast : inToolbox toolbox last = false) :
    tagReorderLayer toolbox (gs ++ [last]).flatten = (gs ++ [last]).flatten := by
  unfold tagReorderLayer
  rw [groupTags_flatten _ hg]
  have hhead : ((gs ++ [last]).flatten).takeWhile nz = [] := by
    have h0 := flatten_head0 (gs ++ [last]) hg
    cases hf : (gs ++ [last]).flatten with
    | nil => rfl
    | cons t r =>
      have := h0 t (by rw [hf]; simp)
      simp [List.takeWhile, nz, this]
  rw [hhead]
  simp only [List.dropLast_concat, List.getLast?_concat, hlast, Bool.false_eq_true, if_false, List.nil_append]
  have : gs.map (reorderGroup toolbox) = gs := by
    clear hg hhead
    induction gs with
    | nil => rfl
    | cons g r ih =>
      rw [List.map_cons, reorderGroup_identity toolbox g (hcan g (by simp)), ih (fun x hx => hcan x (by simp [hx]))]
  rw [this]
  simp

end EzdxfVerif.Readers

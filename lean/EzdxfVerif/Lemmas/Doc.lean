/-
Helper lemmas and proofs about the document state machine (Model/Doc.lean, Model/DocSpec.lean).
Not counted as property theorems; Props/C04.lean and Props/C05.lean state the properties.
-/
import EzdxfVerif.Model.DocSpec

namespace EzdxfVerif.Doc



/-- a request the API rejects leaves the document unchanged -/
theorem rejected_unchanged (s : State) (op : Op) (e : Err) (h : (step s op).2 = .err e) :
    (step s op).1 = s := by
  cases op <;> simp only [step, newEnt, addExisting, renameBlock, setActive] at h ⊢ <;>
    (repeat' split at h) <;> (try (repeat' split)) <;> simp_all

theorem allH_cons (p : Nat × List Nat) (r : List (Nat × List Nat)) : allH (p :: r) = p.2 ++ allH r := by
  simp [allH]

/-- replacing one space by a sublist of itself gives a sublist of all handles -/
theorem allH_setSpace_sublist (sp : List (Nat × List Nat)) (k : Nat) (f : List Nat → List Nat)
    (hf : ∀ l, (f l).Sublist l) : (allH (setSpace sp k f)).Sublist (allH sp) := by
  induction sp with
  | nil => simp [setSpace, allH]
  | cons p r ih =>
    simp only [setSpace, List.map_cons] at ih ⊢
    rw [allH_cons, allH_cons]
    split
    · exact List.Sublist.append (hf _) ih
    · exact List.Sublist.append (List.Sublist.refl _) ih

theorem allH_mapFilter_sublist (sp : List (Nat × List Nat)) (q : Nat → Bool) :
    (allH (sp.map (fun p => (p.1, p.2.filter q)))).Sublist (allH sp) := by
  induction sp with
  | nil => simp [allH]
  | cons p r ih =>
    simp only [List.map_cons]
    rw [allH_cons, allH_cons]
    exact List.Sublist.append List.filter_sublist ih

theorem allH_filter_sublist (sp : List (Nat × List Nat)) (q : Nat × List Nat → Bool) :
    (allH (sp.filter q)).Sublist (allH sp) := by
  induction sp with
  | nil => simp [allH]
  | cons p r ih =>
    simp only [List.filter_cons]
    split
    · rw [allH_cons, allH_cons]; exact List.Sublist.append (List.Sublist.refl _) ih
    · rw [allH_cons]; exact List.Sublist.trans ih (List.sublist_append_right _ _)

theorem keys_setSpace (sp : List (Nat × List Nat)) (k : Nat) (f : List Nat → List Nat) :
    keys (setSpace sp k f) = keys sp := by
  induction sp with
  | nil => rfl
  | cons p r ih =>
    simp only [setSpace, keys, List.map_cons] at ih ⊢
    rw [ih]; congr 1; split <;> rfl

/-- appending a handle that occurs nowhere to the space of key `k` keeps all handles distinct -/
theorem allH_append_nodup (sp : List (Nat × List Nat)) (k h : Nat) (hk : (keys sp).Nodup)
    (hn : (allH sp).Nodup) (hh : h ∉ allH sp) : (allH (setSpace sp k (· ++ [h]))).Nodup := by
  induction sp with
  | nil => simp [setSpace, allH]
  | cons p r ih =>
    simp only [keys, List.map_cons, List.nodup_cons] at hk
    rw [allH_cons] at hn hh
    have hn' := List.nodup_append.mp hn
    simp only [List.mem_append, not_or] at hh
    simp only [setSpace, List.map_cons]
    rw [allH_cons]
    split
    · rename_i hpk
      -- the other spaces are untouched because the key is unique
      have hrest : List.map (fun q : Nat × List Nat => if q.1 = k then (q.1, q.2 ++ [h]) else q) r = r := by
        rw [← List.map_id r, List.map_map]
        apply List.map_congr_left
        intro q hq
        simp only [Function.comp_def, id]
        split
        · rename_i hqk
          exfalso; apply hk.1
          simp only [List.mem_map]
          exact ⟨q, hq, by rw [hqk, hpk]⟩
        · rfl
      rw [hrest]
      simp only
      rw [List.append_assoc]
      refine List.nodup_append.mpr ⟨hn'.1, ?_, ?_⟩
      · simp only [List.singleton_append, List.nodup_cons]
        exact ⟨hh.2, hn'.2.1⟩
      · intro a ha b hb
        simp only [List.singleton_append, List.mem_cons] at hb
        rcases hb with rfl | hb
        · intro hab; subst hab; exact hh.1 ha
        · exact hn'.2.2 a ha b hb
    · have ih' := ih hk.2 hn'.2.1 hh.2
      simp only [setSpace] at ih'
      refine List.nodup_append.mpr ⟨hn'.1, ih', ?_⟩
      intro a ha b hb
      have hsub : ∀ x, x ∈ allH (List.map (fun q : Nat × List Nat => if q.1 = k then (q.1, q.2 ++ [h]) else q) r) →
          x ∈ allH r ∨ x = h := by
        intro x hx
        clear ih ih' hn hn' hk hh ha hb
        induction r with
        | nil => simp [allH] at hx
        | cons q t iht =>
          simp only [List.map_cons] at hx
          rw [allH_cons] at hx
          rw [allH_cons]
          simp only [List.mem_append] at hx ⊢
          rcases hx with hx | hx
          · split at hx
            · simp only [List.mem_append, List.mem_singleton] at hx
              rcases hx with hx | hx
              · exact Or.inl (Or.inl hx)
              · exact Or.inr hx
            · exact Or.inl (Or.inl hx)
          · rcases iht hx with h1 | h1
            · exact Or.inl (Or.inr h1)
            · exact Or.inr h1
      rcases hsub b hb with hb' | rfl
      · exact hn'.2.2 a ha b hb'
      · intro hab; subst hab; exact hh.1 ha

theorem SInv.mono {sp H H' n n'} (h : SInv sp H n) (hn : n ≤ n') (hH : ∀ x ∈ H, x ∈ H') : SInv sp H' n' :=
  ⟨h.1, fun k hk => Nat.lt_of_lt_of_le (h.2.1 k hk) hn, h.2.2.1, fun x hx => hH x (h.2.2.2 x hx)⟩

theorem SInv.sub {sp sp' H n} (h : SInv sp H n) (hk : (keys sp').Sublist (keys sp))
    (ha : (allH sp').Sublist (allH sp)) : SInv sp' H n :=
  ⟨h.1.sublist hk, fun k hk' => h.2.1 k (hk.subset hk'), h.2.2.1.sublist ha,
    fun x hx => h.2.2.2 x (ha.subset hx)⟩

theorem mem_allH_setSpace_append {sp : List (Nat × List Nat)} {k h x : Nat}
    (hx : x ∈ allH (setSpace sp k (· ++ [h]))) : x ∈ allH sp ∨ x = h := by
  induction sp with
  | nil => simp [setSpace, allH] at hx
  | cons q t iht =>
    simp only [setSpace, List.map_cons] at hx iht
    rw [allH_cons] at hx
    rw [allH_cons]
    simp only [List.mem_append] at hx ⊢
    rcases hx with hx | hx
    · split at hx
      · simp only [List.mem_append, List.mem_singleton] at hx
        rcases hx with hx | hx
        · exact Or.inl (Or.inl hx)
        · exact Or.inr hx
      · exact Or.inl (Or.inl hx)
    · rcases iht hx with h1 | h1
      · exact Or.inl (Or.inr h1)
      · exact Or.inr h1

theorem SInv.append {sp H n} (h : SInv sp H n) (k x : Nat) (hx : x ∉ allH sp) (hH : x ∈ H) :
    SInv (setSpace sp k (· ++ [x])) H n := by
  refine ⟨by rw [keys_setSpace]; exact h.1, by rw [keys_setSpace]; exact h.2.1,
    allH_append_nodup sp k x h.1 h.2.2.1 hx, ?_⟩
  intro y hy
  rcases mem_allH_setSpace_append hy with hy | rfl
  · exact h.2.2.2 y hy
  · exact hH

theorem SInv.newKey {sp H n} (h : SInv sp H n) (br n' : Nat) (h1 : n ≤ br) (h2 : br < n') :
    SInv (sp ++ [(br, [])]) H n' := by
  refine ⟨?_, ?_, ?_, ?_⟩
  · simp only [keys, List.map_append, List.map_cons, List.map_nil]
    refine List.nodup_append.mpr ⟨h.1, by simp, ?_⟩
    intro a ha b hb
    simp at hb; subst hb
    have := h.2.1 a ha; omega
  · intro k hk
    simp only [keys, List.map_append, List.map_cons, List.map_nil, List.mem_append,
      List.mem_singleton] at hk
    rcases hk with hk | rfl
    · have := h.2.1 k hk; omega
    · exact h2
  · simp only [allH, List.map_append, List.flatten_append, List.map_cons, List.map_nil,
      List.flatten_cons, List.flatten_nil, List.append_nil]
    exact h.2.2.1
  · intro x hx
    simp only [allH, List.map_append, List.flatten_append, List.map_cons, List.map_nil,
      List.flatten_cons, List.flatten_nil, List.append_nil] at hx
    exact h.2.2.2 x hx

theorem spaceOf_mem_allH {sp : List (Nat × List Nat)} {k : Nat} {l : List Nat} {x : Nat}
    (h : (sp.find? (·.1 = k)).map (·.2) = some l) (hx : x ∈ l) : x ∈ allH sp := by
  induction sp with
  | nil => simp at h
  | cons p r ih =>
    rw [allH_cons]
    simp only [List.find?_cons] at h
    split at h
    · simp at h; subst h; exact List.mem_append_left _ hx
    · exact List.mem_append_right _ (ih h)

/-- with unique keys, erasing `e` from the space it lives in removes it from all spaces -/
theorem not_mem_allH_erase {sp : List (Nat × List Nat)} {k e : Nat} {l : List Nat}
    (hk : (keys sp).Nodup) (hn : (allH sp).Nodup)
    (h : (sp.find? (·.1 = k)).map (·.2) = some l) (he : e ∈ l) :
    e ∉ allH (setSpace sp k (·.erase e)) := by
  induction sp with
  | nil => simp at h
  | cons p r ih =>
    simp only [keys, List.map_cons, List.nodup_cons] at hk
    rw [allH_cons] at hn
    have hn' := List.nodup_append.mp hn
    simp only [setSpace, List.map_cons]
    rw [allH_cons]
    simp only [List.find?_cons] at h
    split at h
    · rename_i hpk
      simp at hpk
      simp at h; subst h
      simp only [hpk, ↓reduceIte, List.mem_append, not_or]
      constructor
      · exact fun hm => (List.Nodup.mem_erase_iff hn'.1).mp hm |>.1 rfl
      · intro hm
        have hrest : List.map (fun q : Nat × List Nat => if q.1 = k then (q.1, q.2.erase e) else q) r = r := by
          rw [← List.map_id r, List.map_map]
          apply List.map_congr_left
          intro q hq
          simp only [Function.comp_def, id]
          split
          · rename_i hqk
            exfalso; apply hk.1
            simp only [List.mem_map]
            exact ⟨q, hq, by rw [hqk, hpk]⟩
          · rfl
        rw [hrest] at hm
        exact hn'.2.2 e he e hm rfl
    · rename_i hpk
      simp at hpk
      simp only [hpk, ↓reduceIte, List.mem_append, not_or]
      constructor
      · intro hm
        exact hn'.2.2 e hm e (spaceOf_mem_allH h he) rfl
      · have := ih hk.2 hn'.2.1 h
        simpa [setSpace] using this

theorem setEnt_hs (ents : List Ent) (h : Nat) (f : Ent → Ent) (hf : ∀ x, (f x).h = x.h) :
    (setEnt ents h f).map (·.h) = ents.map (·.h) := by
  induction ents with
  | nil => rfl
  | cons a t ih =>
    simp only [setEnt, List.map_cons] at ih ⊢
    rw [ih]; congr 1
    split <;> simp [hf]

theorem map_fields_hs (ents : List Ent) (f : Ent → Ent) (hf : ∀ x, (f x).h = x.h) :
    (ents.map f).map (·.h) = ents.map (·.h) := by
  simp [List.map_map, Function.comp_def, hf]

theorem Same.rfl' (s : State) : Same s s := ⟨rfl, rfl⟩

theorem Same.trans' {a b c : State} (h1 : Same a b) (h2 : Same b c) : Same a c :=
  ⟨h2.1.trans h1.1, h2.2.trans h1.2⟩

theorem unlinkCore_same (s s' : State) (k e : Nat) (h : unlinkCore s k e = some s') : Same s s' := by
  unfold unlinkCore at h
  split at h
  · cases h; exact Same.rfl' s
  · split at h
    · cases h
    · split at h
      · cases h
        exact ⟨setEnt_hs _ _ _ (fun _ => rfl), rfl⟩
      · cases h

theorem addExisting_same (s : State) (k e : Nat) : Same s (addExisting s k e).1 := by
  unfold addExisting
  split
  · split
    · exact Same.rfl' s
    · split
      · exact Same.rfl' s
      · exact ⟨setEnt_hs _ _ _ (fun _ => rfl), rfl⟩
  · exact Same.rfl' s

theorem destroyEnt_same (s : State) (e : Nat) : Same s (destroyEnt s e) :=
  ⟨setEnt_hs _ _ _ (fun _ => rfl), rfl⟩

theorem dropContainer_same (s : State) (br : Nat) : Same s (dropContainer s br) := by
  refine ⟨?_, rfl⟩
  simp only [hs, dropContainer]
  apply map_fields_hs
  intro x; split <;> rfl

theorem renameBlock_same (s : State) (a b : Str) : Same s (renameBlock s a b).1 := by
  unfold renameBlock
  split
  · exact Same.rfl' s
  · split
    · exact Same.rfl' s
    · exact ⟨rfl, rfl⟩

theorem setActive_same (s : State) (n : Str) : Same s (setActive s n).1 := by
  unfold setActive
  split
  · exact Same.rfl' s
  · split
    · exact Same.rfl' s
    · split
      · split
        · exact Same.rfl' s
        · simp only
          exact Same.trans' (Same.trans' (renameBlock_same _ _ _) (renameBlock_same _ _ _)) (renameBlock_same _ _ _)
      · exact Same.rfl' s

theorem Same.grow {s s' : State} (h : Same s s') : Grow s s' := ⟨by rw [h.2]; exact Nat.le_refl _, Or.inl h.1⟩

theorem freshOk_one {s : State} {h seed : Nat} {l : List Nat} (hf : freshOk s (h :: l) seed = true) :
    s.next ≤ h ∧ h < seed := by
  simp [freshOk] at hf
  omega

theorem freshOk_all {s : State} {l : List Nat} {seed : Nat} (hf : freshOk s l seed = true) :
    l.Nodup ∧ ∀ h ∈ l, s.next ≤ h ∧ h < seed := by
  simp only [freshOk, Bool.and_eq_true, List.all_eq_true, decide_eq_true_eq] at hf
  exact ⟨hf.2, fun h hh => hf.1.1 h hh⟩

theorem freshOk_seed {s : State} {l : List Nat} {seed : Nat} (hf : freshOk s l seed = true) : s.next ≤ seed := by
  simp [freshOk] at hf
  omega

theorem newEnt_grow (s : State) (k h seed : Nat) (r : Option Str) (subs : List Nat) :
    Grow s (newEnt s k h seed r subs).1 := by
  unfold newEnt
  split
  · exact (Same.rfl' s).grow
  · split
    · rename_i hf
      have := freshOk_one hf
      refine ⟨by simp; omega, Or.inr (Or.inl ⟨h, by simp [hs], this.1, by simpa using this.2⟩)⟩
    · exact (Same.rfl' s).grow

/-! ### explode: handles of the new entities -/

theorem explode_handles (f : Nat × Nat × List Nat → Nat) (hf : ∀ p, f p = p.2.1) :
    ∀ (src : List Nat) (news : List (Nat × List Nat)), news.length = src.length →
    (src.zip news).map f = news.map (·.1)
  | [], [], _ => by simp
  | [], n :: r, h => by simp at h
  | a :: t, [], h => by simp at h
  | a :: t, n :: r, h => by
    simp only [List.zip_cons_cons, List.map_cons, hf]
    rw [explode_handles f hf t r (by simpa using h)]

theorem explodeEnts_hs (s : State) (k : Nat) (src : List Nat) (news : List (Nat × List Nat)) (texts : List Nat)
    (hl : news.length = src.length) : (explodeEnts s k src news texts).map (·.h) = news.map (·.1) ++ texts := by
  simp only [explodeEnts, List.map_append, List.map_map, Function.comp_def, List.map_id']
  rw [explode_handles _ (fun _ => rfl) src news hl]

theorem heads_sublist : ∀ (news : List (Nat × List Nat)),
    (news.map (·.1)).Sublist ((news.map (fun p => p.1 :: p.2)).flatten)
  | [] => by simp
  | n :: r => by
    simp only [List.map_cons, List.flatten_cons, List.cons_append]
    exact List.Sublist.cons_cons _ ((heads_sublist r).trans (List.sublist_append_right _ _))

theorem shapeOk_len {s : State} {src : List Nat} {news : List (Nat × List Nat)}
    (h : shapeOk s src news = true) : news.length = src.length := by
  simp only [shapeOk, Bool.and_eq_true, decide_eq_true_eq] at h
  exact h.1

theorem textsOk_spec {s : State} {texts : List Nat} (h : textsOk s texts = true) :
    texts.Nodup ∧ ∀ x ∈ texts, x ∉ hs s ∧ x < s.next := by
  simp only [textsOk, Bool.and_eq_true, List.all_eq_true, decide_eq_true_eq, bne_iff_ne, ne_eq] at h
  refine ⟨h.2, fun x hx => ⟨?_, (h.1 x hx).2⟩⟩
  intro hm
  simp only [hs, List.mem_map] at hm
  obtain ⟨y, hy, hyx⟩ := hm
  exact (h.1 x hx).1 y hy hyx

/-- the handles appended by explode: fresh ones for the copies, the ATTRIB handles for the TEXTs -/
theorem explode_new_handles {s : State} {news : List (Nat × List Nat)} {texts : List Nat} {seed : Nat}
    (hfresh : freshOk s ((news.map (fun p => p.1 :: p.2)).flatten) seed = true) (htexts : textsOk s texts = true) :
    (news.map (·.1) ++ texts).Nodup ∧
    (∀ x ∈ news.map (·.1) ++ texts, (s.next ≤ x ∨ x ∉ hs s) ∧ x < seed) := by
  have hall := freshOk_all hfresh
  have ht := textsOk_spec htexts
  have hseed := freshOk_seed hfresh
  have hl : ∀ x ∈ news.map (·.1), s.next ≤ x ∧ x < seed :=
    fun x hx => hall.2 x ((heads_sublist news).subset hx)
  refine ⟨List.nodup_append.mpr ⟨hall.1.sublist (heads_sublist news), ht.1, ?_⟩, ?_⟩
  · intro a ha b hb hab
    subst hab
    have := (hl a ha).1; have := (ht.2 a hb).2; omega
  · intro x hx
    simp only [List.mem_append] at hx
    rcases hx with hx | hx
    · exact ⟨Or.inl (hl x hx).1, (hl x hx).2⟩
    · exact ⟨Or.inr (ht.2 x hx).1, by have := (ht.2 x hx).2; omega⟩

/-- case analysis of `insert.explode()`: rejected (state unchanged), or the block content was copied -/
theorem explode_cases (s : State) (e : Nat) (news : List (Nat × List Nat)) (seed : Nat) :
    (∃ er, step s (.explode e news seed) = (s, .err er)) ∨
    ∃ x name k b s', findEnt s e = some x ∧ x.alive = true ∧ x.ref = some name ∧ x.owner = some k ∧
      (spaceOf s k).isSome = true ∧ blockBr s (lower name) = some b ∧
      shapeOk s (liveContent s b) news = true ∧
      freshOk s ((news.map (fun p => p.1 :: p.2)).flatten) seed = true ∧
      textsOk s (x.subs.take (x.subs.length - 1)) = true ∧
      explodeCore s e k (liveContent s b) news (x.subs.take (x.subs.length - 1)) seed = some s' ∧
      step s (.explode e news seed) = (s', .ok) := by
  simp only [step]
  split
  · exact Or.inl ⟨_, rfl⟩
  · rename_i x hx
    split
    · exact Or.inl ⟨_, rfl⟩
    · rename_i hal
      split
      · rename_i name k hr ho
        split
        · exact Or.inl ⟨_, rfl⟩
        · rename_i sp hsp
          split
          · exact Or.inl ⟨_, rfl⟩
          · rename_i b hb
            split
            · rename_i hc
              split
              · rename_i s' hs'
                simp only [Bool.and_eq_true] at hc
                exact Or.inr ⟨x, name, k, b, s', hx, by simpa using hal, hr, ho, by simp [hsp], hb, hc.1.1, hc.1.2,
                  hc.2, hs', rfl⟩
              · exact Or.inl ⟨_, rfl⟩
            · exact Or.inl ⟨_, rfl⟩
      · exact Or.inl ⟨_, rfl⟩
      · exact Or.inl ⟨_, rfl⟩

theorem explodeCore_parts {s s' : State} {e k : Nat} {src : List Nat} {news : List (Nat × List Nat)} {texts : List Nat}
    {seed : Nat} (hcore : explodeCore s e k src news texts seed = some s') :
    ∃ s2, unlinkCore (explodeMid s k src news texts seed) k e = some s2 ∧
      s' = dropAttribs (destroyEnt s2 e) e := by
  unfold explodeCore at hcore
  split at hcore
  · rename_i s2 h2
    cases hcore
    exact ⟨s2, h2, rfl⟩
  · cases hcore

theorem explodeCore_hs {s s' : State} {e k : Nat} {src : List Nat} {news : List (Nat × List Nat)} {texts : List Nat}
    {seed : Nat} (hshape : shapeOk s src news = true) (hcore : explodeCore s e k src news texts seed = some s') :
    hs s' = hs s ++ (news.map (·.1) ++ texts) ∧ s'.next = seed := by
  obtain ⟨s2, h2, rfl⟩ := explodeCore_parts hcore
  have a := unlinkCore_same _ _ _ _ h2
  have b := destroyEnt_same s2 e
  have c : Same (destroyEnt s2 e) (dropAttribs (destroyEnt s2 e) e) := ⟨setEnt_hs _ _ _ (fun _ => rfl), rfl⟩
  refine ⟨?_, by rw [c.2, b.2, a.2]; rfl⟩
  rw [c.1, b.1, a.1]
  simp only [hs, explodeMid, List.map_append]
  rw [explodeEnts_hs s k src news texts (shapeOk_len hshape)]

theorem explodeCore_grow {s s' : State} {e k : Nat} {src : List Nat} {news : List (Nat × List Nat)} {texts : List Nat}
    {seed : Nat} (hshape : shapeOk s src news = true)
    (hfresh : freshOk s ((news.map (fun p => p.1 :: p.2)).flatten) seed = true) (htexts : textsOk s texts = true)
    (hcore : explodeCore s e k src news texts seed = some s') : Grow s s' := by
  obtain ⟨h1, h2⟩ := explodeCore_hs hshape hcore
  obtain ⟨hn, hb⟩ := explode_new_handles hfresh htexts
  refine ⟨by rw [h2]; exact freshOk_seed hfresh, Or.inr (Or.inr ⟨_, h1, hn, ?_⟩)⟩
  intro h hh
  rw [h2]
  exact hb h hh

theorem auditEntities_hs (s : State) : hs (auditEntities s) = hs s := by
  simp only [hs, auditEntities]
  apply map_fields_hs
  intro x; split <;> rfl

theorem dropAll_same : ∀ (l : List Nat) (s : State), Same s (dropAll s l)
  | [], s => Same.rfl' s
  | a :: r, s => by
    simp only [dropAll, List.foldl_cons]
    exact Same.trans' (dropContainer_same s a) (dropAll_same r _)

/-- `restoreActive` only renames a block: every other field is untouched -/
theorem restoreActive_eq (t : State) : ∃ bl, restoreActive t = { t with blocks := bl } := by
  unfold restoreActive
  split
  · split
    · exact ⟨_, rfl⟩
    · exact ⟨t.blocks, rfl⟩
  · exact ⟨t.blocks, rfl⟩

theorem auditLayouts_eq (t : State) : ∃ bl, auditLayouts t = { dropAll t (orphanBlocks t) with blocks := bl } :=
  restoreActive_eq _

theorem audit_hs (s : State) : hs (audit s).1 = hs s := by
  show hs (auditEntities (auditLayouts (auditSpaces s))) = hs s
  rw [auditEntities_hs]
  obtain ⟨bl, hbl⟩ := auditLayouts_eq (auditSpaces s)
  rw [hbl]
  exact (dropAll_same _ _).1

/-- what a step does to the handle history: nothing, or one fresh handle appended -/
theorem step_grow (s : State) (op : Op) : Grow s (step s op).1 := by
  cases op with
  | add k h seed => exact newEnt_grow ..
  | ins k n h seed => exact newEnt_grow ..
  | unlink k e =>
    simp only [step]; split
    · rename_i h; exact (unlinkCore_same _ _ _ _ h).grow
    · exact (Same.rfl' s).grow
  | addex k e => exact (addExisting_same ..).grow
  | move k1 e k2 =>
    simp only [step]
    split
    · exact (Same.rfl' s).grow
    · split
      · exact (Same.rfl' s).grow
      · rename_i s1 h1
        have a := unlinkCore_same _ _ _ _ h1
        have b := addExisting_same s1 k2 e
        split
        · rename_i s2 heq
          rw [heq] at b
          exact (Same.trans' a b).grow
        · exact (Same.rfl' s).grow
  | del k e =>
    simp only [step]; split
    · exact (Same.rfl' s).grow
    · rename_i s1 h1
      exact (Same.trans' (unlinkCore_same _ _ _ _ h1) (destroyEnt_same s1 e)).grow
  | destroy e => exact (destroyEnt_same s e).grow
  | copy e k h subs seed =>
    simp only [step]; split
    · split
      · split
        · exact newEnt_grow ..
        · exact (Same.rfl' s).grow
      · exact (Same.rfl' s).grow
    · exact (Same.rfl' s).grow
  | addL k r h subs seed => exact newEnt_grow ..
  | explode e news seed =>
    rcases explode_cases s e news seed with ⟨er, h0⟩ | ⟨x, name, k, b, s', hx, hal, hr, ho, hsp, hb, hshape, hfresh, htexts, hcore, hstep⟩
    · rw [h0]; exact (Same.rfl' s).grow
    · rw [hstep]
      exact explodeCore_grow hshape hfresh htexts hcore
  | audit seed =>
    simp only [step]; split
    · rename_i hle
      exact ⟨by simpa using hle, Or.inl (audit_hs s)⟩
    · exact (Same.rfl' s).grow
  | addEntry t n seed =>
    simp only [step]; split
    · exact (Same.rfl' s).grow
    · split
      · rename_i hf
        exact ⟨freshOk_seed hf, Or.inl rfl⟩
      · exact (Same.rfl' s).grow
  | delEntry t n =>
    simp only [step]; split
    · exact Same.grow ⟨rfl, rfl⟩
    · exact (Same.rfl' s).grow
  | dupEntry t a b seed =>
    simp only [step]; split
    · exact (Same.rfl' s).grow
    · split
      · rename_i hf
        exact ⟨freshOk_seed hf, Or.inl rfl⟩
      · exact (Same.rfl' s).grow
  | newGroup n h seed =>
    simp only [step]; split
    · exact (Same.rfl' s).grow
    · split
      · rename_i hf
        exact ⟨freshOk_seed hf, Or.inl rfl⟩
      · exact (Same.rfl' s).grow
  | setGroup n ms =>
    simp only [step]; split
    · exact (Same.rfl' s).grow
    · split
      · exact Same.grow ⟨rfl, rfl⟩
      · exact (Same.rfl' s).grow
  | delGroup n =>
    simp only [step]; split
    · exact Same.grow ⟨rfl, rfl⟩
    · exact (Same.rfl' s).grow
  | purge =>
    refine Same.grow ⟨?_, rfl⟩
    simp only [step, hs]
    exact map_fields_hs _ _ (fun _ => rfl)
  | newBlock n br seed =>
    simp only [step]; split
    · exact (Same.rfl' s).grow
    · split
      · rename_i hf
        exact ⟨freshOk_seed hf, Or.inl rfl⟩
      · exact (Same.rfl' s).grow
  | delBlock n safe =>
    simp only [step]; split
    · exact (Same.rfl' s).grow
    · split
      · exact (Same.rfl' s).grow
      · exact (dropContainer_same ..).grow
  | renBlock a b => exact (renameBlock_same ..).grow
  | newLayout n br seed =>
    simp only [step]; split
    · exact (Same.rfl' s).grow
    · split
      · exact (Same.rfl' s).grow
      · split
        · rename_i hf
          exact ⟨freshOk_seed hf, Or.inl rfl⟩
        · exact (Same.rfl' s).grow
  | delLayout n =>
    simp only [step]; split
    · exact (Same.rfl' s).grow
    · split
      · exact (Same.rfl' s).grow
      · split
        · exact (Same.rfl' s).grow
        · simp only
          refine Same.grow (Same.trans' (b := _) ?_ (dropContainer_same ..))
          refine Same.trans' (b := _) ?_ ⟨rfl, rfl⟩
          split
          · split
            · exact setActive_same ..
            · exact Same.rfl' s
          · exact Same.rfl' s
  | renLayout a b =>
    simp only [step]; split
    · exact (Same.rfl' s).grow
    · split
      · exact (Same.rfl' s).grow
      · split
        · exact (Same.rfl' s).grow
        · exact Same.grow ⟨rfl, rfl⟩
  | activate n => exact (setActive_same ..).grow
  | addLayer n seed =>
    simp only [step]; split
    · exact (Same.rfl' s).grow
    · split
      · rename_i hf
        exact ⟨freshOk_seed hf, Or.inl rfl⟩
      · exact (Same.rfl' s).grow
  | delLayer n =>
    simp only [step]; split
    · exact Same.grow ⟨rfl, rfl⟩
    · exact (Same.rfl' s).grow
  | reload seed =>
    simp only [step]; split
    · rename_i hle
      refine ⟨by simpa using hle, Or.inl ?_⟩
      simp only [hs]
      apply map_fields_hs
      intro x; split <;> rfl
    · exact (Same.rfl' s).grow
  | foreign kind e => simp only [step]; split <;> exact (Same.rfl' s).grow

theorem step_HInv (s : State) (op : Op) (h : HInv s) : HInv (step s op).1 := by
  obtain ⟨hn, hb⟩ := h
  obtain ⟨hle, hcase⟩ := step_grow s op
  rcases hcase with heq | ⟨x, heq, hx1, hx2⟩ | ⟨l, heq, hl, hfr⟩
  · refine ⟨by rw [heq]; exact hn, ?_⟩
    intro y hy; rw [heq] at hy; have := hb y hy; omega
  rotate_left
  · refine ⟨?_, ?_⟩
    · rw [heq]
      refine List.nodup_append.mpr ⟨hn, hl, ?_⟩
      intro a ha b hb' hab
      subst hab
      rcases (hfr a hb').1 with h1 | h1
      · have := hb a ha; omega
      · exact h1 ha
    · intro y hy; rw [heq] at hy
      simp only [List.mem_append] at hy
      rcases hy with hy | hy
      · have := hb y hy; omega
      · exact (hfr y hy).2
  · refine ⟨?_, ?_⟩
    · rw [heq]
      refine List.nodup_append.mpr ⟨hn, by simp, ?_⟩
      intro a ha b hb'
      simp at hb'; subst hb'
      have := hb a ha; omega
    · intro y hy; rw [heq] at hy
      simp only [List.mem_append, List.mem_singleton] at hy
      rcases hy with hy | rfl
      · have := hb y hy; omega
      · exact hx2

/-- every entity has one unique, never reused handle: for every history from a state satisfying the
    invariant, all handles ever issued are pairwise distinct and below the handle generator -/
theorem handles_never_reused (s : State) (ops : List Op) (h : HInv s) : HInv (run s ops) := by
  induction ops generalizing s with
  | nil => exact h
  | cons op r ih => exact ih _ (step_HInv s op h)

/-! ### the single-owner invariant -/

theorem erase_sub (e : Nat) : ∀ l : List Nat, (l.erase e).Sublist l := fun l => List.erase_sublist

theorem findEnt_mem {s : State} {e : Nat} {x : Ent} (h : findEnt s e = some x) : e ∈ hs s := by
  unfold findEnt at h
  have := List.find?_some h
  have hm := List.mem_of_find?_eq_some h
  simp at this
  simp only [hs, List.mem_map]
  exact ⟨x, hm, this⟩

theorem unlinkCore_SInv {s s' : State} {k e : Nat} (h : unlinkCore s k e = some s')
    (hi : SInv s.spaces (hs s) s.next) : SInv s'.spaces (hs s') s'.next := by
  have hsame := unlinkCore_same _ _ _ _ h
  unfold unlinkCore at h
  split at h
  · cases h; exact hi
  · split at h
    · cases h
    · split at h
      · cases h
        rw [hsame.1, hsame.2]
        simp only
        exact hi.sub (by rw [keys_setSpace]; exact List.Sublist.refl _)
          (allH_setSpace_sublist _ _ _ (erase_sub e))
      · cases h

theorem unlinkCore_removed {s s' : State} {k e : Nat} (h : unlinkCore s k e = some s')
    (ha : isAlive s e = true) (hi : SInv s.spaces (hs s) s.next) : e ∉ allH s'.spaces := by
  unfold unlinkCore at h
  simp only [ha, Bool.not_true, Bool.false_eq_true, ↓reduceIte] at h
  split at h
  · cases h
  · rename_i sp hsp
    split at h
    · rename_i hc
      cases h
      simp only
      exact not_mem_allH_erase hi.1 hi.2.2.1 hsp (by simpa using hc)
    · cases h

theorem addExisting_SInv (s : State) (k e : Nat) (hi : SInv s.spaces (hs s) s.next)
    (hok : e ∉ allH s.spaces) :
    SInv (addExisting s k e).1.spaces (hs (addExisting s k e).1) (addExisting s k e).1.next := by
  have hsame := addExisting_same s k e
  rw [hsame.1, hsame.2]
  unfold addExisting
  split
  · rename_i x sp hx hsp
    split
    · exact hi
    · split
      · exact hi
      · exact hi.append k e hok (findEnt_mem hx)
  · exact hi

theorem destroyEnt_spaces (s : State) (e : Nat) : (destroyEnt s e).spaces = s.spaces := rfl

theorem renameBlock_spaces (s : State) (a b : Str) : (renameBlock s a b).1.spaces = s.spaces := by
  unfold renameBlock; split
  · rfl
  · split <;> rfl

theorem setActive_spaces (s : State) (n : Str) : (setActive s n).1.spaces = s.spaces := by
  unfold setActive
  split
  · rfl
  · split
    · rfl
    · split
      · split
        · rfl
        · simp only [renameBlock_spaces]
      · rfl

theorem dropContainer_SInv (s : State) (br : Nat) (hi : SInv s.spaces (hs s) s.next) :
    SInv (dropContainer s br).spaces (hs (dropContainer s br)) (dropContainer s br).next := by
  have hsame := dropContainer_same s br
  rw [hsame.1, hsame.2]
  simp only [dropContainer]
  exact hi.sub (by simp only [keys]; exact List.Sublist.map _ List.filter_sublist)
    (allH_filter_sublist _ _)

theorem newEnt_SInv (s : State) (k h seed : Nat) (r : Option Str) (hh : HInv s)
    (hi : SInv s.spaces (hs s) s.next) (subs : List Nat) :
    SInv (newEnt s k h seed r subs).1.spaces (hs (newEnt s k h seed r subs).1) (newEnt s k h seed r subs).1.next := by
  unfold newEnt
  split
  · exact hi
  · split
    · rename_i hf
      have hfr := freshOk_one hf
      have hnot : h ∉ allH s.spaces := by
        intro hm
        have := hh.2 h (hi.2.2.2 h hm)
        omega
      have hi' : SInv s.spaces (hs s ++ [h]) seed :=
        hi.mono (by omega) (fun x hx => List.mem_append_left _ hx)
      have := hi'.append k h hnot (by simp)
      simpa [hs] using this
    · exact hi

theorem purge_hs (s : State) : hs (step s .purge).1 = hs s := by
  simp only [step, hs]; exact map_fields_hs _ _ (fun _ => rfl)

theorem reload_hs (s : State) (seed : Nat) : hs (step s (.reload seed)).1 = hs s := by
  simp only [step, hs]; split
  · apply map_fields_hs; intro x; split <;> rfl
  · rfl

theorem dropAll_SInv : ∀ (l : List Nat) (s : State), SInv s.spaces (hs s) s.next →
    SInv (dropAll s l).spaces (hs (dropAll s l)) (dropAll s l).next
  | [], _, h => h
  | a :: r, s, h => by
    simp only [dropAll, List.foldl_cons]
    exact dropAll_SInv r _ (dropContainer_SInv s a h)

theorem allH_mapFilter2_sublist (sp : List (Nat × List Nat)) (q : Nat → Nat → Bool) :
    (allH (sp.map (fun p => (p.1, p.2.filter (q p.1))))).Sublist (allH sp) := by
  induction sp with
  | nil => simp [allH]
  | cons p r ih =>
    simp only [List.map_cons]
    rw [allH_cons, allH_cons]
    exact List.Sublist.append List.filter_sublist ih

theorem setSpace_setSpace (sp : List (Nat × List Nat)) (k : Nat) (f g : List Nat → List Nat) :
    setSpace (setSpace sp k f) k g = setSpace sp k (fun l => g (f l)) := by
  simp only [setSpace, List.map_map]
  apply List.map_congr_left
  intro p _
  simp only [Function.comp_def]
  split <;> simp_all

/-- appending a list of pairwise distinct handles that occur nowhere keeps the space invariant -/
theorem SInv.appendList {sp H n} (h : SInv sp H n) (k : Nat) : ∀ (l : List Nat), l.Nodup →
    (∀ x ∈ l, x ∉ allH sp) → (∀ x ∈ l, x ∈ H) → SInv (setSpace sp k (· ++ l)) H n
  | [], _, _, _ => by
    have : setSpace sp k (· ++ []) = sp := by
      simp only [setSpace, List.append_nil]
      rw [← List.map_id sp, List.map_map]
      apply List.map_congr_left
      intro p _; simp
    rw [this]; exact h
  | x :: r, hn, hno, hH => by
    have h1 := h.append k x (hno x (by simp)) (hH x (by simp))
    have hn' := List.nodup_cons.mp hn
    have := SInv.appendList h1 k r hn'.2 (by
      intro y hy hm
      rcases mem_allH_setSpace_append hm with hm | rfl
      · exact hno y (by simp [hy]) hm
      · exact hn'.1 hy) (fun y hy => hH y (by simp [hy]))
    rw [setSpace_setSpace] at this
    have hfun : (fun l : List Nat => l ++ [x] ++ r) = (fun l => l ++ x :: r) := by
      funext l; simp
    rw [hfun] at this
    exact this

theorem explodeMid_SInv {s : State} {k : Nat} {src : List Nat} {news : List (Nat × List Nat)} {texts : List Nat}
    {seed : Nat} (hh : HInv s) (hi : SInv s.spaces (hs s) s.next) (hshape : shapeOk s src news = true)
    (hfresh : freshOk s ((news.map (fun p => p.1 :: p.2)).flatten) seed = true) (htexts : textsOk s texts = true) :
    SInv (explodeMid s k src news texts seed).spaces (hs (explodeMid s k src news texts seed)) seed := by
  obtain ⟨hn, hb⟩ := explode_new_handles hfresh htexts
  simp only [hs, explodeMid, List.map_append]
  rw [explodeEnts_hs s k src news texts (shapeOk_len hshape)]
  have hi' : SInv s.spaces (s.ents.map (·.h) ++ (news.map (·.1) ++ texts)) seed :=
    hi.mono (freshOk_seed hfresh) (fun x hx => List.mem_append_left _ hx)
  refine hi'.appendList k _ hn ?_ (fun x hx => List.mem_append_right _ hx)
  intro x hx hm
  have hxs : x ∈ hs s := hi.2.2.2 x hm
  rcases (hb x hx).1 with h1 | h1
  · have := hh.2 x hxs; omega
  · exact h1 hxs

theorem explodeCore_SInv {s s' : State} {e k : Nat} {src : List Nat} {news : List (Nat × List Nat)} {texts : List Nat}
    {seed : Nat} (hh : HInv s) (hi : SInv s.spaces (hs s) s.next)
    (hshape : shapeOk s src news = true)
    (hfresh : freshOk s ((news.map (fun p => p.1 :: p.2)).flatten) seed = true) (htexts : textsOk s texts = true)
    (hcore : explodeCore s e k src news texts seed = some s') : SInv s'.spaces (hs s') s'.next := by
  have hH := explodeCore_hs hshape hcore
  obtain ⟨s2, h2, hs'⟩ := explodeCore_parts hcore
  have hmid := explodeMid_SInv (k := k) hh hi hshape hfresh htexts
  have h3 := unlinkCore_SInv h2 hmid
  have a := unlinkCore_same _ _ _ _ h2
  rw [hH.1, hH.2]
  have hsp : s'.spaces = s2.spaces := by rw [hs']; rfl
  rw [hsp]
  have : hs s2 = hs s ++ (news.map (·.1) ++ texts) := by
    rw [a.1]; simp only [hs, explodeMid, List.map_append]
    rw [explodeEnts_hs s k src news texts (shapeOk_len hshape)]
  rw [← this]
  have hn2 : s2.next = seed := by rw [a.2]; rfl
  rw [← hn2]; exact h3

/-- one step preserves the invariant (for `add_entity` under its documented caller obligation) -/
theorem step_Inv (s : State) (op : Op) (h : DocInv s) (hok : OpOk s op) : DocInv (step s op).1 := by
  refine ⟨step_HInv s op h.1, ?_⟩
  obtain ⟨hh, hi⟩ := h
  have hg := step_grow s op
  cases op with
  | add k h seed => exact newEnt_SInv _ _ _ _ _ hh hi _
  | ins k n h seed => exact newEnt_SInv _ _ _ _ _ hh hi _
  | unlink k e =>
    simp only [step]; split
    · rename_i h1; exact unlinkCore_SInv h1 hi
    · exact hi
  | addex k e => exact addExisting_SInv s k e hi hok
  | move k1 e k2 =>
    simp only [step]
    split
    · exact hi
    · rename_i ha
      split
      · exact hi
      · rename_i s1 h1
        have hi1 := unlinkCore_SInv h1 hi
        have hrm := unlinkCore_removed h1 (by simpa using ha) hi
        have := addExisting_SInv s1 k2 e hi1 hrm
        split
        · rename_i s2 heq; rw [heq] at this; exact this
        · exact hi
  | del k e =>
    simp only [step]; split
    · exact hi
    · rename_i s1 h1
      have hi1 := unlinkCore_SInv h1 hi
      have hsame := destroyEnt_same s1 e
      rw [hsame.1, hsame.2, destroyEnt_spaces]; exact hi1
  | destroy e =>
    simp only [step]
    have hsame := destroyEnt_same s e
    rw [hsame.1, hsame.2, destroyEnt_spaces]; exact hi
  | copy e k h subs seed =>
    simp only [step]; split
    · split
      · split
        · exact newEnt_SInv _ _ _ _ _ hh hi _
        · exact hi
      · exact hi
    · exact hi
  | addL k r h subs seed => exact newEnt_SInv _ _ _ _ _ hh hi _
  | explode e news seed =>
    rcases explode_cases s e news seed with ⟨er, h0⟩ | ⟨x, name, k, b, s', hx, hal, hr, ho, hsp, hb, hshape, hfresh, htexts, hcore, hstep⟩
    · rw [h0]; exact hi
    · rw [hstep]
      exact explodeCore_SInv hh hi hshape hfresh htexts hcore
  | audit seed =>
    simp only [step]; split
    · rename_i hle
      show SInv (auditLayouts (auditSpaces s)).spaces (hs (audit s).1) seed
      rw [audit_hs]
      obtain ⟨bl, hbl⟩ := auditLayouts_eq (auditSpaces s)
      rw [hbl]
      show SInv (dropAll (auditSpaces s) (orphanBlocks (auditSpaces s))).spaces (hs s) seed
      have h1 : SInv (auditSpaces s).spaces (hs (auditSpaces s)) (auditSpaces s).next :=
        hi.sub (by simp [auditSpaces, keys, List.map_map, Function.comp_def]) (by
          simp only [auditSpaces]; exact allH_mapFilter2_sublist _ _)
      have h2 := dropAll_SInv (orphanBlocks (auditSpaces s)) (auditSpaces s) h1
      have hsame := dropAll_same (orphanBlocks (auditSpaces s)) (auditSpaces s)
      rw [hsame.1, hsame.2] at h2
      exact SInv.mono h2 (by show s.next ≤ seed; simpa using hle) (fun x hx => hx)
    · exact hi
  | addEntry t n seed =>
    simp only [step]; split
    · exact hi
    · split
      · rename_i hf
        exact hi.mono (freshOk_seed hf) (fun x hx => hx)
      · exact hi
  | delEntry t n => simp only [step]; split <;> exact hi
  | dupEntry t a b seed =>
    simp only [step]; split
    · exact hi
    · split
      · rename_i hf
        exact hi.mono (freshOk_seed hf) (fun x hx => hx)
      · exact hi
  | newGroup n h seed =>
    simp only [step]; split
    · exact hi
    · split
      · rename_i hf
        exact hi.mono (freshOk_seed hf) (fun x hx => hx)
      · exact hi
  | setGroup n ms =>
    simp only [step]; split
    · exact hi
    · split <;> exact hi
  | delGroup n => simp only [step]; split <;> exact hi
  | purge =>
    rw [purge_hs]
    simp only [step]
    exact hi.sub (by simp [keys, List.map_map, Function.comp_def]) (allH_mapFilter_sublist _ _)
  | newBlock n br seed =>
    simp only [step]; split
    · exact hi
    · split
      · rename_i hf
        have := freshOk_one hf
        exact hi.newKey br seed this.1 this.2
      · exact hi
  | delBlock n safe =>
    simp only [step]; split
    · exact hi
    · split
      · exact hi
      · exact dropContainer_SInv s _ hi
  | renBlock a b =>
    simp only [step]
    have hsame := renameBlock_same s a b
    rw [hsame.1, hsame.2, renameBlock_spaces]; exact hi
  | newLayout n br seed =>
    simp only [step]; split
    · exact hi
    · split
      · exact hi
      · split
        · rename_i hf
          have := freshOk_one hf
          exact hi.newKey br seed this.1 this.2
        · exact hi
  | delLayout n =>
    simp only [step]; split
    · exact hi
    · split
      · exact hi
      · split
        · exact hi
        · simp only
          apply dropContainer_SInv
          simp only
          split
          · split
            · rename_i other _
              have hsame := setActive_same s other.name
              show SInv (setActive s other.name).1.spaces (hs (setActive s other.name).1)
                (setActive s other.name).1.next
              rw [hsame.1, hsame.2, setActive_spaces]
              exact hi
            · exact hi
          · exact hi
  | renLayout a b =>
    simp only [step]; split
    · exact hi
    · split
      · exact hi
      · split <;> exact hi
  | activate n =>
    simp only [step]
    have hsame := setActive_same s n
    rw [hsame.1, hsame.2, setActive_spaces]; exact hi
  | addLayer n seed =>
    simp only [step]; split
    · exact hi
    · split
      · rename_i hf
        exact hi.mono (freshOk_seed hf) (fun x hx => hx)
      · exact hi
  | delLayer n =>
    simp only [step]; split <;> exact hi
  | reload seed =>
    rw [reload_hs]
    simp only [step]; split
    · rename_i hle
      exact (hi.sub (by simp [keys, List.map_map, Function.comp_def]) (allH_mapFilter_sublist _ _)).mono
        (by simpa using hle) (fun x hx => hx)
    · exact hi
  | foreign kind e => simp only [step]; split <;> exact hi

/-- at every step of any history: every entity is in at most one layout, at most once; handles are
    unique and never reused -/
theorem inv_reachable (s : State) (ops : List Op) (h : DocInv s) (hok : HistOk s ops) : DocInv (run s ops) := by
  induction ops generalizing s with
  | nil => exact h
  | cons op r ih => exact ih _ (step_Inv s op h hok.1) hok.2

/-! ### effect of operations on what a layout shows (refinement to the list model) -/

theorem spaceOf_setSpace (sp : List (Nat × List Nat)) (k k' : Nat) (f : List Nat → List Nat) :
    ((setSpace sp k f).find? (·.1 = k')).map (·.2) =
      if k' = k then ((sp.find? (·.1 = k')).map (·.2)).map f else (sp.find? (·.1 = k')).map (·.2) := by
  induction sp with
  | nil => simp [setSpace]
  | cons p r ih =>
    unfold setSpace at ih ⊢
    simp only [List.map_cons, List.find?_cons]
    by_cases hpk : p.1 = k <;> by_cases hpk' : p.1 = k' <;> by_cases hkk : k' = k <;>
      simp_all

theorem find_append_old (ents : List Ent) (x : Ent) (h : Nat) (hm : h ∈ ents.map (·.h)) :
    (ents ++ [x]).find? (·.h = h) = ents.find? (·.h = h) := by
  rw [List.find?_append]
  simp only [List.mem_map] at hm
  obtain ⟨e, he, heq⟩ := hm
  cases hf : ents.find? (·.h = h) with
  | none =>
    exfalso
    have := List.find?_eq_none.mp hf e he
    simp [heq] at this
  | some y => simp

theorem find_append_new (ents : List Ent) (x : Ent) (hm : x.h ∉ ents.map (·.h)) :
    (ents ++ [x]).find? (·.h = x.h) = some x := by
  rw [List.find?_append]
  have : ents.find? (·.h = x.h) = none := by
    apply List.find?_eq_none.mpr
    intro e he heq
    apply hm
    simp only [List.mem_map]
    exact ⟨e, he, by simpa using heq⟩
  simp [this]

theorem isAlive_old (s s' : State) (x : Ent) (hE : s'.ents = s.ents ++ [x]) (h : Nat) (hm : h ∈ hs s) :
    isAlive s' h = isAlive s h := by
  simp only [isAlive, findEnt, hE]
  rw [find_append_old _ _ _ hm]

theorem isAlive_new (s s' : State) (x : Ent) (hE : s'.ents = s.ents ++ [x]) (hm : x.h ∉ hs s)
    (ha : x.alive = true) : isAlive s' x.h = true := by
  simp only [isAlive, findEnt, hE]
  rw [find_append_new _ _ hm]
  exact ha

/-- `layout.add_line(...)`: the new entity is appended to the content of its layout and no other
    layout changes (reference model: a layout is an ordered list, creation appends) -/
theorem spec_add (s : State) (k h seed : Nat) (sp : List Nat) (hsp : spaceOf s k = some sp)
    (hf : freshOk s [h] seed = true) (hfresh : h ∉ hs s)
    (hknown : ∀ k' l, spaceOf s k' = some l → ∀ x ∈ l, x ∈ hs s) :
    (step s (.add k h seed)).2 = .ok ∧
    content (step s (.add k h seed)).1 k = content s k ++ [h] ∧
    ∀ k', k' ≠ k → content (step s (.add k h seed)).1 k' = content s k' := by
  obtain ⟨s', hs'⟩ : ∃ s', s' = (step s (.add k h seed)).1 := ⟨_, rfl⟩
  have hE : s'.ents = s.ents ++ [⟨h, true, some k, true, none, isPaperBr s k, []⟩] := by
    simp [hs', step, newEnt, hsp, hf]
  have hS : s'.spaces = setSpace s.spaces k (· ++ [h]) := by
    simp [hs', step, newEnt, hsp, hf]
  have hout : (step s (.add k h seed)).2 = .ok := by simp [step, newEnt, hsp, hf]
  rw [← hs']
  refine ⟨hout, ?_, ?_⟩
  · simp only [content, spaceOf, hS, spaceOf_setSpace, ↓reduceIte]
    unfold spaceOf at hsp
    rw [hsp]
    simp only [Option.map_some, Option.getD_some, List.filter_append, List.filter_cons,
      isAlive_new s s' _ hE hfresh rfl, ↓reduceIte, List.filter_nil]
    congr 1
    apply List.filter_congr
    intro x hx
    exact isAlive_old s s' _ hE x (hknown k sp (by unfold spaceOf; exact hsp) x hx)
  · intro k' hk'
    simp only [content, spaceOf, hS, spaceOf_setSpace, hk', ↓reduceIte]
    cases hl : (s.spaces.find? (·.1 = k')).map (·.2) with
    | none => simp
    | some l =>
      simp only [Option.getD_some]
      apply List.filter_congr
      intro x hx
      exact isAlive_old s s' _ hE x (hknown k' l (by unfold spaceOf; exact hl) x hx)

/-- `entitydb.purge()` / `layout.purge()` never change what a layout shows -/
theorem spec_purge (s : State) (k : Nat) : content (step s .purge).1 k = content s k := by
  obtain ⟨s', hs'⟩ : ∃ s', s' = (step s .purge).1 := ⟨_, rfl⟩
  have hE : s'.ents = s.ents.map (fun x => { x with indb := x.indb && x.alive }) := by simp [hs', step]
  have hS : s'.spaces = s.spaces.map (fun p => (p.1, p.2.filter (isAlive s))) := by simp [hs', step]
  rw [← hs']
  have halive : ∀ x, isAlive s' x = isAlive s x := by
    intro x
    simp only [isAlive, findEnt, hE, List.find?_map, Function.comp_def]
    cases s.ents.find? (fun e => decide (e.h = x)) <;> simp
  simp only [content, spaceOf, hS, List.find?_map, Function.comp_def]
  cases hl : s.spaces.find? (fun p => decide (p.1 = k)) with
  | none => simp
  | some p =>
    simp only [Option.map_some, Option.getD_some, List.filter_filter]
    apply List.filter_congr
    intro x _
    rw [halive x]; simp

theorem isAlive_destroy (s : State) (e x : Nat) :
    isAlive (destroyEnt s e) x = (isAlive s x && decide (x ≠ e)) := by
  simp only [isAlive, findEnt, destroyEnt, setEnt, List.find?_map, Function.comp_def]
  have : (fun y : Ent => decide ((if y.h = e then { y with alive := false } else y).h = x)) =
      (fun y : Ent => decide (y.h = x)) := by
    funext y; split <;> rfl
  rw [this]
  cases hf : s.ents.find? (fun y => decide (y.h = x)) with
  | none => simp
  | some y =>
    have hy : y.h = x := by simpa using List.find?_some hf
    simp only [Option.map_some]
    by_cases hxe : x = e
    · subst hxe; simp [hy]
    · have : ¬ y.h = e := by rw [hy]; exact hxe
      simp [this, hxe]

/-- `entity.destroy()`: the entity disappears from what every layout shows, nothing else changes,
    although the dead object is still stored in the entity space until the next purge -/
theorem spec_destroy (s : State) (e k : Nat) :
    content (step s (.destroy e)).1 k = (content s k).filter (· ≠ e) := by
  simp only [step, content]
  have : spaceOf (destroyEnt s e) k = spaceOf s k := rfl
  rw [this, List.filter_filter]
  apply List.filter_congr
  intro x _
  rw [isAlive_destroy]
  simp [Bool.and_comm]

end EzdxfVerif.Doc

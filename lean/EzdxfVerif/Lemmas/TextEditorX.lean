/-
MTextEditor round trip, part 2: on the string-level meaning `slowLoop` of `plain_mtext`, including the
constants TAB, NBSP, NEW_COLUMN and `bullet_list()` (lemmas for Props/C20).
-/
import EzdxfVerif.Lemmas.TextEditor
import EzdxfVerif.Lemmas.TextSpec
namespace EzdxfVerif.Text

theorem slow_plain (sp : Special) (w r : Str) (h : ∀ c ∈ w, isPlain c = true) :
    slowLoop sp (w ++ r) = w ++ slowLoop sp r := by
  induction w with
  | nil => rfl
  | cons c t ih =>
    obtain ⟨h0, h1, h2, h3, h4, _⟩ := isPlain_spec (h c (by simp))
    have h32 : ¬ c.toNat < 32 := by omega
    have ht : c ≠ '\t' := by intro hh; subst hh; exact h32 (by decide)
    have hn : c ≠ '\n' := by intro hh; subst hh; exact h32 (by decide)
    rw [List.cons_append, slowLoop_char sp c _ h1 ht hn h32 (specialAt_plain sp c _ h4) (by simp [h2, h3]),
      ih (fun x hx => h x (by simp [hx]))]
    simp

theorem cmdLetters_spec2 {d : Char} (h : d ∈ cmdLetters) :
    d ≠ '~' ∧ d ≠ 'P' ∧ d ≠ 'N' ∧ d ≠ 'X' := by
  simp only [cmdLetters, List.mem_cons, List.not_mem_nil, or_false] at h
  rcases h with h | h | h | h | h | h | h | h | h | h <;> subst h <;> decide

theorem stackText_plain (E : Str) (hp : ∀ c ∈ E, stackPlainChar c = true) : stackText (parseStacking E) = E := by
  have h1 := flat_parseStacking E hp []
  have h2 := flat_stack_cons E []
  rw [h2] at h1
  simpa [flat] using h1

theorem slow_stack (sp : Special) (E r : Str) (hp : ∀ c ∈ E, stackPlainChar c = true) (hs : ∀ c ∈ E, c ≠ ';') :
    slowLoop sp ('\\' :: 'S' :: (E ++ ';' :: r)) = E ++ slowLoop sp r := by
  have hf := findIdx_args E r hs
  have hsf := scanFind_noesc (E ++ ';' :: r) E.length hf (by
    intro c hc
    have : c ∈ E := by
      have h1 : (E ++ ';' :: r).take E.length = E := by simp
      rw [h1] at hc; exact hc
    have := hp c this
    simp only [stackPlainChar, Bool.and_eq_true, bne_iff_ne, ne_eq] at this
    exact this.2)
  have he : extractExpr true (E ++ ';' :: r) = (E, r) := by
    have h1 : (E ++ ';' :: r).take E.length = E := by simp
    have h2 : (E ++ ';' :: r).drop (E.length + 1) = r := by rw [← List.drop_drop]; simp
    simp only [extractExpr, hsf, h1, h2]
  rw [slowLoop_S sp _ E r he, stackText_plain E hp]

theorem item_slow (sp : Special) (i : Item) (r : Str) (h : i.Wf) :
    slowLoop sp (i.renderD ++ r) = i.expected ++ slowLoop sp r := by
  cases i with
  | plain w => exact slow_plain sp w r h
  | cmd d args =>
    obtain ⟨hd, ha, hok⟩ := h
    obtain ⟨c1, _, _, c4, _, _⟩ := cmdLetters_spec hd
    obtain ⟨b1, b2, b3, b4⟩ := cmdLetters_spec2 hd
    have e : (Item.cmd d args).renderD ++ r = '\\' :: d :: (args ++ ';' :: r) := by simp [Item.renderD, Item.render]
    rw [e, slowLoop_cmd sp d _ r c1 b1 b2 b3 b4 c4 (hok r)]
    simp [Item.expected]
  | one d =>
    have e : (Item.one d).renderD ++ r = '\\' :: d :: r := by simp [Item.renderD, Item.render]
    rw [e]
    rcases h with h | h | h | h | h | h | h | h
    · subst h; rw [slowLoop_P]; simp [Item.expected]
    all_goals first
      | (subst h; rw [slowLoop_X]; simp [Item.expected])
      | (subst h
         rw [slowLoop_cmd sp _ r r (by decide) (by decide) (by decide) (by decide) (by decide) (by decide)
           (parseProperties_stroke _ r (by rw [mem_stroke]; simp))]
         simp [Item.expected])
  | openGroup => exact slowLoop_brace sp '{' r (Or.inl rfl)
  | closeGroup => exact slowLoop_brace sp '}' r (Or.inr rfl)
  | stack u l t =>
    obtain ⟨hu, hl, ht⟩ := h
    obtain ⟨hp, hs⟩ := stack_expr_plain hu hl ht
    have e : (Item.stack u l t).renderD ++ r = '\\' :: 'S' :: ((u ++ t :: l) ++ ';' :: r) := by
      simp [Item.renderD]
    rw [e, slow_stack sp _ r hp hs]
    simp [Item.expected]

def XItem.Wf : XItem → Prop
  | .base i => i.Wf
  | _ => True

theorem xitem_caret (x : XItem) (r : Str) (h : x.Wf) :
    caretDecode (x.render ++ r) = x.renderD ++ caretDecode r := by
  cases x with
  | base i => exact item_caret i r h
  | tab =>
    simp only [XItem.render, XItem.renderD, List.cons_append, List.nil_append]
    rw [caretDecode]
    have : caretChar 'I' = '\t' := by decide
    simp [this]
  | nbsp => exact caretDecode_append_nocaret _ r (by simp [XItem.render])
  | newColumn => exact caretDecode_append_nocaret _ r (by simp [XItem.render])

theorem xitem_slow (sp : Special) (x : XItem) (r : Str) (h : x.Wf) :
    slowLoop sp (x.renderD ++ r) = x.expectedSlow ++ slowLoop sp r := by
  cases x with
  | base i => exact item_slow sp i r h
  | tab => simp [XItem.renderD, XItem.expectedSlow, slowLoop_tab]
  | nbsp => simp [XItem.renderD, XItem.render, XItem.expectedSlow, slowLoop_nbsp]
  | newColumn => simp [XItem.renderD, XItem.render, XItem.expectedSlow, slowLoop_N]

theorem xitem_fast (sp : Special) (x : XItem) (r : Str) (h : x.Wf) (hf : x.fastOk = true) :
    fastLoop sp (x.renderD ++ r) = x.expectedFast ++ fastLoop sp r := by
  cases x with
  | base i => exact item_fast sp i r h
  | tab =>
    simp only [XItem.renderD, XItem.expectedFast, List.cons_append, List.nil_append]
    rw [fastLoop_copy sp '\t' r (by decide) (by decide) (by decide) (by decide)]
  | nbsp => simp [XItem.fastOk] at hf
  | newColumn => simp [XItem.fastOk] at hf

def xRenderD (xs : List XItem) : Str := (xs.map XItem.renderD).flatten

theorem xitems_caret (xs : List XItem) (r : Str) (h : ∀ x ∈ xs, x.Wf) :
    caretDecode ((xs.map XItem.render).flatten ++ r) = xRenderD xs ++ caretDecode r := by
  induction xs with
  | nil => rfl
  | cons x t ih =>
    have e : ((x :: t).map XItem.render).flatten ++ r = x.render ++ ((t.map XItem.render).flatten ++ r) := by simp
    rw [e, xitem_caret x _ (h x (by simp)), ih (fun y hy => h y (by simp [hy]))]
    simp [xRenderD]

theorem xitems_slow (sp : Special) (xs : List XItem) (r : Str) (h : ∀ x ∈ xs, x.Wf) :
    slowLoop sp (xRenderD xs ++ r) = (xs.map XItem.expectedSlow).flatten ++ slowLoop sp r := by
  induction xs with
  | nil => rfl
  | cons x t ih =>
    have e : xRenderD (x :: t) ++ r = x.renderD ++ (xRenderD t ++ r) := by simp [xRenderD]
    rw [e, xitem_slow sp x _ (h x (by simp)), ih (fun y hy => h y (by simp [hy]))]
    simp

theorem xitems_fast (sp : Special) (xs : List XItem) (r : Str) (h : ∀ x ∈ xs, x.Wf) (hf : ∀ x ∈ xs, x.fastOk = true) :
    fastLoop sp (xRenderD xs ++ r) = (xs.map XItem.expectedFast).flatten ++ fastLoop sp r := by
  induction xs with
  | nil => rfl
  | cons x t ih =>
    have e : xRenderD (x :: t) ++ r = x.renderD ++ (xRenderD t ++ r) := by simp [xRenderD]
    rw [e, xitem_fast sp x _ (h x (by simp)) (hf x (by simp)),
      ih (fun y hy => h y (by simp [hy])) (fun y hy => hf y (by simp [hy]))]
    simp

theorem xop_items_wf (o : XOp) (h : o.wf = true) : ∀ x ∈ o.items, x.Wf := by
  intro x hx
  cases o with
  | op o =>
    simp only [XOp.items, List.mem_map] at hx
    obtain ⟨i, hi, rfl⟩ := hx
    exact edop_items_wf o h i hi
  | tab => simp only [XOp.items, List.mem_cons, List.not_mem_nil, or_false] at hx; subst hx; trivial
  | nbsp => simp only [XOp.items, List.mem_cons, List.not_mem_nil, or_false] at hx; subst hx; trivial
  | newColumn => simp only [XOp.items, List.mem_cons, List.not_mem_nil, or_false] at hx; subst hx; trivial
  | bulletList a rows =>
    simp only [XOp.wf, Bool.and_eq_true, List.all_eq_true] at h
    obtain ⟨hpa, hrows⟩ := h
    simp only [XOp.items, List.mem_append, List.mem_cons, List.not_mem_nil, or_false, List.mem_map,
      List.mem_flatten] at hx
    rcases hx with ((rfl | ⟨i, hi, rfl⟩) | ⟨l, ⟨row, hrow, rfl⟩, hxl⟩) | rfl
    · trivial
    · exact edop_items_wf (.paragraph a) hpa i hi
    · have := hrows row hrow
      simp only [rowItems, List.mem_cons, List.not_mem_nil, or_false] at hxl
      rcases hxl with rfl | rfl | rfl | rfl
      · exact this.1
      · trivial
      · exact this.2
      · simp [XItem.Wf, Item.Wf]
    · trivial

theorem xop_items_fastOk (o : XOp) (h : o.fastOk = true) : ∀ x ∈ o.items, x.fastOk = true := by
  intro x hx
  cases o with
  | op o =>
    simp only [XOp.items, List.mem_map] at hx
    obtain ⟨i, _, rfl⟩ := hx
    rfl
  | tab => simp only [XOp.items, List.mem_cons, List.not_mem_nil, or_false] at hx; subst hx; rfl
  | nbsp => simp [XOp.fastOk] at h
  | newColumn => simp [XOp.fastOk] at h
  | bulletList a rows =>
    simp only [XOp.items, List.mem_append, List.mem_cons, List.not_mem_nil, or_false, List.mem_map,
      List.mem_flatten] at hx
    rcases hx with ((rfl | ⟨i, _, rfl⟩) | ⟨l, ⟨row, _, rfl⟩, hxl⟩) | rfl
    · rfl
    · rfl
    · simp only [rowItems, List.mem_cons, List.not_mem_nil, or_false] at hxl
      rcases hxl with rfl | rfl | rfl | rfl <;> rfl
    · rfl

/-- every sequence of editor calls incl. TAB, NBSP, NEW_COLUMN and bullet lists: string-level result -/
theorem xeditor_slow_fast (sp : Special) (ops : List XOp) (h : ∀ o ∈ ops, o.wf = true) :
    slowLoop sp (caretDecode (xEditorText ops)) = xEditorWordsSlow ops ∧
    ((∀ o ∈ ops, o.fastOk = true) → fastPlainMText sp (xEditorText ops) = xEditorWordsFast ops) := by
  have hw : ∀ x ∈ (ops.map XOp.items).flatten, x.Wf := by
    intro x hx
    simp only [List.mem_flatten, List.mem_map] at hx
    obtain ⟨l, ⟨o, ho, rfl⟩, hxl⟩ := hx
    exact xop_items_wf o (h o ho) x hxl
  have hc := xitems_caret (ops.map XOp.items).flatten [] hw
  simp only [List.append_nil] at hc
  have hcd : caretDecode ([] : Str) = [] := rfl
  rw [hcd, List.append_nil] at hc
  constructor
  · unfold xEditorText xEditorWordsSlow
    rw [hc]
    have := xitems_slow sp _ [] hw
    simp only [List.append_nil] at this
    rw [this, slowLoop_nil]; simp
  · intro hfo
    have hf : ∀ x ∈ (ops.map XOp.items).flatten, x.fastOk = true := by
      intro x hx
      simp only [List.mem_flatten, List.mem_map] at hx
      obtain ⟨l, ⟨o, ho, rfl⟩, hxl⟩ := hx
      exact xop_items_fastOk o (hfo o ho) x hxl
    unfold fastPlainMText xEditorText xEditorWordsFast
    rw [hc]
    have := xitems_fast sp _ [] hw hf
    simp only [List.append_nil] at this
    rw [this, fastLoop_nil]; simp

end EzdxfVerif.Text

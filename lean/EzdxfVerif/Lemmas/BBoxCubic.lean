/-
`cubic_bezier_bbox` / `quadratic_bezier_bbox` (Model/BBoxTree.lean: `axisParams`, `cubicBBox`, `quadBBox`):
the box of the end points and of the curve points at the roots of the derivative contains the whole curve.

No calculus is used: for a cubic `f` with derivative polynomial `D x = a x^2 + b x + c` Simpson's rule is exact,
  f v - f u = (v - u) * (D u + 4 * D ((u + v) / 2) + D v) / 6,
so `f` is monotone on every interval on which `D` keeps its sign; `D` is a constant times a product of linear
factors `x - r` over the roots the code computes (the square root enters through its defining equation
`s * s = b^2 - 4ac`), and such a product keeps its sign on an interval that has no root in its interior.
-/
import Mathlib.Tactic.FieldSimp
import Mathlib.Tactic.LinearCombination
import EzdxfVerif.Lemmas.BBoxTree
namespace EzdxfVerif.BBox.Lemmas
open EzdxfVerif.BBox

/-- the derivative polynomial of one coordinate, with the coefficients as `cubic_bezier_bbox` computes them -/
def dpoly (p0 p1 p2 p3 x : Rat) : Rat :=
  3 * (-p0 + 3 * p1 - 3 * p2 + p3) * x * x + 6 * (p0 - 2 * p1 + p2) * x + 3 * (p1 - p0)

/-- Simpson's rule is exact for the cubic -/
theorem cubic_diff (p0 p1 p2 p3 u v : Rat) :
    bezier4 p0 p1 p2 p3 v - bezier4 p0 p1 p2 p3 u =
      (v - u) * (dpoly p0 p1 p2 p3 u + 4 * dpoly p0 p1 p2 p3 ((u + v) / 2) + dpoly p0 p1 p2 p3 v) / 6 := by
  unfold bezier4 dpoly; ring

theorem mono_up (p0 p1 p2 p3 u v : Rat) (h : u ≤ v) (hD : ∀ x, u ≤ x → x ≤ v → 0 ≤ dpoly p0 p1 p2 p3 x) :
    bezier4 p0 p1 p2 p3 u ≤ bezier4 p0 p1 p2 p3 v := by
  have e := cubic_diff p0 p1 p2 p3 u v
  have d1 := hD u le_rfl h
  have d2 := hD v h le_rfl
  have d3 := hD ((u + v) / 2) (by linarith) (by linarith)
  have : 0 ≤ (v - u) * (dpoly p0 p1 p2 p3 u + 4 * dpoly p0 p1 p2 p3 ((u + v) / 2) + dpoly p0 p1 p2 p3 v) / 6 := by
    apply div_nonneg _ (by norm_num)
    apply mul_nonneg (by linarith) (by linarith)
  linarith

theorem mono_down (p0 p1 p2 p3 u v : Rat) (h : u ≤ v) (hD : ∀ x, u ≤ x → x ≤ v → dpoly p0 p1 p2 p3 x ≤ 0) :
    bezier4 p0 p1 p2 p3 v ≤ bezier4 p0 p1 p2 p3 u := by
  have e := cubic_diff p0 p1 p2 p3 u v
  have d1 := hD u le_rfl h
  have d2 := hD v h le_rfl
  have d3 := hD ((u + v) / 2) (by linarith) (by linarith)
  have : (v - u) * (dpoly p0 p1 p2 p3 u + 4 * dpoly p0 p1 p2 p3 ((u + v) / 2) + dpoly p0 p1 p2 p3 v) / 6 ≤ 0 := by
    apply div_nonpos_of_nonpos_of_nonneg _ (by norm_num)
    apply mul_nonpos_of_nonneg_of_nonpos (by linarith) (by linarith)
  linarith

/-- among the candidates there is one where the coordinate is at least / at most its value at `t` -/
def Ext (p0 p1 p2 p3 : Rat) (cands : List Rat) (t : Rat) : Prop :=
  (∃ w ∈ cands, bezier4 p0 p1 p2 p3 t ≤ bezier4 p0 p1 p2 p3 w) ∧
  (∃ w ∈ cands, bezier4 p0 p1 p2 p3 w ≤ bezier4 p0 p1 p2 p3 t)

theorem Ext.mono {p0 p1 p2 p3 : Rat} {c c' : List Rat} {t : Rat} (h : Ext p0 p1 p2 p3 c t) (hs : ∀ w ∈ c, w ∈ c') :
    Ext p0 p1 p2 p3 c' t := by
  obtain ⟨⟨w, hw, h1⟩, ⟨w', hw', h2⟩⟩ := h
  exact ⟨⟨w, hs w hw, h1⟩, ⟨w', hs w' hw', h2⟩⟩

/-- on an interval on which the derivative keeps its sign the extreme values are at the end points -/
theorem ext_of_sign (p0 p1 p2 p3 u v t : Rat) (h1 : u ≤ t) (h2 : t ≤ v)
    (hs : (∀ x, u ≤ x → x ≤ v → 0 ≤ dpoly p0 p1 p2 p3 x) ∨ (∀ x, u ≤ x → x ≤ v → dpoly p0 p1 p2 p3 x ≤ 0)) :
    Ext p0 p1 p2 p3 [u, v] t := by
  rcases hs with hs | hs
  · have a := mono_up p0 p1 p2 p3 u t h1 (fun x hx hx' => hs x hx (le_trans hx' h2))
    have b := mono_up p0 p1 p2 p3 t v h2 (fun x hx hx' => hs x (le_trans h1 hx) hx')
    exact ⟨⟨v, by simp, b⟩, ⟨u, by simp, a⟩⟩
  · have a := mono_down p0 p1 p2 p3 u t h1 (fun x hx hx' => hs x hx (le_trans hx' h2))
    have b := mono_down p0 p1 p2 p3 t v h2 (fun x hx hx' => hs x (le_trans h1 hx) hx')
    exact ⟨⟨u, by simp, a⟩, ⟨v, by simp, b⟩⟩

/-- the product of the linear factors `x - r` -/
def lprod (rs : List Rat) (x : Rat) : Rat := (rs.map (fun r => x - r)).prod

/-- a product of linear factors keeps its sign on an interval without a root in its interior -/
theorem lprod_sign (rs : List Rat) (u v : Rat) (h : ∀ r ∈ rs, r ≤ u ∨ v ≤ r) :
    (∀ x, u ≤ x → x ≤ v → 0 ≤ lprod rs x) ∨ (∀ x, u ≤ x → x ≤ v → lprod rs x ≤ 0) := by
  induction rs with
  | nil => left; intro x _ _; simp [lprod]
  | cons r t ih =>
    have iht := ih (fun r' hr' => h r' (by simp [hr']))
    have e : ∀ x, lprod (r :: t) x = (x - r) * lprod t x := by intro x; simp [lprod]
    rcases h r (by simp) with hr | hr <;> rcases iht with it | it
    · left; intro x hx hx'; rw [e]; exact mul_nonneg (by linarith) (it x hx hx')
    · right; intro x hx hx'; rw [e]; exact mul_nonpos_of_nonneg_of_nonpos (by linarith) (it x hx hx')
    · right; intro x hx hx'; rw [e]; exact mul_nonpos_of_nonpos_of_nonneg (by linarith) (it x hx hx')
    · left; intro x hx hx'; rw [e]; exact mul_nonneg_of_nonpos_of_nonpos (by linarith) (it x hx hx')

def unitRoots (rs : List Rat) : List Rat := rs.filter (fun r => decide (0 < r ∧ r < 1))

theorem unitRoots_nil : unitRoots [] = [] := rfl

theorem unitRoots_cons (r : Rat) (rs : List Rat) :
    unitRoots (r :: rs) = (if 0 < r ∧ r < 1 then [r] else []) ++ unitRoots rs := by
  simp only [unitRoots, List.filter_cons]
  split_ifs <;> simp_all

/-- around every `t` in [0, 1] there is an interval between two candidates (0, 1, roots in (0,1)) without a root
    in its interior -/
theorem root_interval (rs : List Rat) (t : Rat) (h0 : 0 ≤ t) (h1 : t ≤ 1) :
    ∃ u v, u ≤ t ∧ t ≤ v ∧ 0 ≤ u ∧ v ≤ 1 ∧ u ∈ 0 :: unitRoots rs ∧ v ∈ 1 :: unitRoots rs ∧ ∀ r ∈ rs, r ≤ u ∨ v ≤ r := by
  induction rs with
  | nil => exact ⟨0, 1, h0, h1, le_rfl, le_rfl, by simp, by simp, by simp⟩
  | cons r rs ih =>
    obtain ⟨u, v, a1, a2, a3, a4, a5, a6, a7⟩ := ih
    have sub : ∀ w, w ∈ unitRoots rs → w ∈ unitRoots (r :: rs) := by
      intro w hw
      simp only [unitRoots, List.mem_filter, List.mem_cons] at hw ⊢
      exact ⟨Or.inr hw.1, hw.2⟩
    have up0 : ∀ w, w ∈ 0 :: unitRoots rs → w ∈ 0 :: unitRoots (r :: rs) := by
      intro w hw; rcases List.mem_cons.mp hw with rfl | hw; simp; exact List.mem_cons_of_mem _ (sub w hw)
    have up1 : ∀ w, w ∈ 1 :: unitRoots rs → w ∈ 1 :: unitRoots (r :: rs) := by
      intro w hw; rcases List.mem_cons.mp hw with rfl | hw; simp; exact List.mem_cons_of_mem _ (sub w hw)
    by_cases hin : u < r ∧ r < v
    · have hr : r ∈ unitRoots (r :: rs) := by
        simp only [unitRoots, List.mem_filter, List.mem_cons, true_or, true_and, decide_eq_true_eq]
        exact ⟨by linarith, by linarith⟩
      by_cases hrt : r ≤ t
      · refine ⟨r, v, hrt, a2, by linarith, a4, List.mem_cons_of_mem _ hr, up1 v a6, ?_⟩
        intro r' hr'
        rcases List.mem_cons.mp hr' with rfl | hr'
        · exact Or.inl le_rfl
        · rcases a7 r' hr' with h | h
          · exact Or.inl (by linarith)
          · exact Or.inr h
      · refine ⟨u, r, a1, by linarith, a3, by linarith, up0 u a5, List.mem_cons_of_mem _ hr, ?_⟩
        intro r' hr'
        rcases List.mem_cons.mp hr' with rfl | hr'
        · exact Or.inr le_rfl
        · rcases a7 r' hr' with h | h
          · exact Or.inl h
          · exact Or.inr (by linarith)
    · refine ⟨u, v, a1, a2, a3, a4, up0 u a5, up1 v a6, ?_⟩
      intro r' hr'
      rcases List.mem_cons.mp hr' with rfl | hr'
      · by_contra hc
        simp only [not_or, not_le] at hc
        exact hin ⟨hc.1, hc.2⟩
      · exact a7 r' hr'

/-- if the derivative is a constant times the product of the linear factors of `rs`, the extreme values on
    [0, 1] are attained at 0, at 1 or at a root inside (0, 1) -/
theorem ext_of_roots (p0 p1 p2 p3 k : Rat) (rs : List Rat) (hD : ∀ x, dpoly p0 p1 p2 p3 x = k * lprod rs x)
    (t : Rat) (h0 : 0 ≤ t) (h1 : t ≤ 1) : Ext p0 p1 p2 p3 (0 :: 1 :: unitRoots rs) t := by
  obtain ⟨u, v, a1, a2, _, _, a5, a6, a7⟩ := root_interval rs t h0 h1
  have hs := lprod_sign rs u v a7
  have hsign : (∀ x, u ≤ x → x ≤ v → 0 ≤ dpoly p0 p1 p2 p3 x) ∨ (∀ x, u ≤ x → x ≤ v → dpoly p0 p1 p2 p3 x ≤ 0) := by
    rcases le_total 0 k with hk | hk <;> rcases hs with hs | hs
    · left; intro x hx hx'; rw [hD]; exact mul_nonneg hk (hs x hx hx')
    · right; intro x hx hx'; rw [hD]; exact mul_nonpos_of_nonneg_of_nonpos hk (hs x hx hx')
    · right; intro x hx hx'; rw [hD]; exact mul_nonpos_of_nonpos_of_nonneg hk (hs x hx hx')
    · left; intro x hx hx'; rw [hD]; exact mul_nonneg_of_nonpos_of_nonpos hk (hs x hx hx')
  refine (ext_of_sign p0 p1 p2 p3 u v t a1 a2 hsign).mono ?_
  intro w hw
  simp only [List.mem_cons, List.not_mem_nil, or_false] at hw
  rcases hw with rfl | rfl
  · rcases List.mem_cons.mp a5 with h | h
    · simp [h]
    · exact List.mem_cons_of_mem _ (List.mem_cons_of_mem _ h)
  · rcases List.mem_cons.mp a6 with h | h
    · simp [h]
    · exact List.mem_cons_of_mem _ (List.mem_cons_of_mem _ h)

theorem rabs_zero_lt (tol : Rat) (h : 0 < tol) : rabs 0 < tol := by simp [rabs, h]

/-- The parameters `cubic_bezier_bbox` collects for one axis are enough: for every `t` in [0, 1] the coordinate
    at `t` lies between its values at two of the candidates 0, 1, collected parameters.  `sqrt` enters only through
    its defining property, the `abs_tol` tests through `AxisTolOK`. -/
theorem axis_sound_core (tol : Rat) (sqrt : Rat → Option Rat) (p0 p1 p2 p3 : Rat)
    (htol : AxisTolOK tol p0 p1 p2 p3) (hs : AxisSqrtOK tol sqrt p0 p1 p2 p3) (t : Rat) (h0 : 0 ≤ t) (h1 : t ≤ 1) :
    Ext p0 p1 p2 p3 (0 :: 1 :: axisParams tol sqrt p0 p1 p2 p3) t := by
  obtain ⟨tpos, ha0, hb0⟩ := htol
  unfold AxisSqrtOK at hs
  simp only [axisParams]
  generalize ha : 3 * (-p0 + 3 * p1 - 3 * p2 + p3) = a at ha0 hb0 hs ⊢
  generalize hb : 6 * (p0 - 2 * p1 + p2) = b at hb0 hs ⊢
  generalize hc : 3 * (p1 - p0) = c at hs ⊢
  have hD : ∀ x, dpoly p0 p1 p2 p3 x = a * x * x + b * x + c := by
    intro x; unfold dpoly; rw [ha, hb, hc]
  by_cases hat : rabs a < tol
  · -- the derivative is (treated as) linear
    have a0 : a = 0 := ha0 hat
    simp only [hat, if_true]
    by_cases hbt : rabs b < tol
    · have b0 : b = 0 := hb0 hat hbt
      simp only [hbt, if_true]
      refine (ext_of_roots p0 p1 p2 p3 c [] (fun x => by rw [hD, a0, b0]; simp [lprod]) t h0 h1).mono ?_
      intro w hw
      simp only [unitRoots, List.filter_nil, List.mem_cons, List.not_mem_nil, or_false] at hw
      rcases hw with rfl | rfl <;> simp
    · have bne : b ≠ 0 := by
        intro hb0'; apply hbt; rw [hb0']; exact rabs_zero_lt tol tpos
      simp only [hbt, if_false]
      refine (ext_of_roots p0 p1 p2 p3 b [-c / b] (fun x => by
        rw [hD, a0]; simp only [lprod, List.map_cons, List.map_nil, List.prod_cons, List.prod_nil]; field_simp; ring) t h0 h1).mono ?_
      intro w hw
      simp only [unitRoots_cons, unitRoots_nil, List.append_nil] at hw
      exact hw
  · have ane : a ≠ 0 := by
      intro ha0'; apply hat; rw [ha0']; exact rabs_zero_lt tol tpos
    simp only [hat, if_false]
    have hs := hs hat
    unfold SqrtExactAt at hs
    rcases hsq' : sqrt (b * b - 4 * a * c) with _ | s
    · -- no real root: the derivative never vanishes
      rw [hsq'] at hs
      simp only at hs ⊢
      have key : ∀ x, 0 < 4 * a * (a * x * x + b * x + c) := by
        intro x
        have : 4 * a * (a * x * x + b * x + c) = (2 * a * x + b) ^ 2 - (b * b - 4 * a * c) := by ring
        rw [this]; nlinarith [sq_nonneg (2 * a * x + b)]
      have hsign : (∀ x, (0:Rat) ≤ x → x ≤ 1 → 0 ≤ dpoly p0 p1 p2 p3 x) ∨ (∀ x, (0:Rat) ≤ x → x ≤ 1 → dpoly p0 p1 p2 p3 x ≤ 0) := by
        rcases lt_or_gt_of_ne ane with an | ap
        · right; intro x _ _; rw [hD]; have := key x; nlinarith
        · left; intro x _ _; rw [hD]; have := key x; nlinarith
      refine (ext_of_sign p0 p1 p2 p3 0 1 t h0 h1 hsign).mono ?_
      intro w hw; simp only [List.mem_cons, List.not_mem_nil, or_false] at hw; rcases hw with rfl | rfl <;> simp
    · rw [hsq'] at hs
      obtain ⟨s0, ss⟩ := hs
      simp only
      have hcs : copysign s b = if b < 0 then -s else s := by
        simp only [copysign, rabs, not_lt.mpr s0, if_false]
      generalize hq : -(1 / 2) * (b + copysign s b) = q
      have hq2 : q * q + b * q + a * c = 0 := by
        rw [← hq, hcs]
        split_ifs <;> nlinarith
      by_cases hq0 : q = 0
      · -- double root at 0: b = 0 and c = 0
        simp only [hq0, if_true]
        have hac : a * c = 0 := by rw [hq0] at hq2; linarith
        have c0 : c = 0 := by rcases mul_eq_zero.mp hac with h | h; exact absurd h ane; exact h
        have b0 : b = 0 := by
          rw [hcs] at hq
          have : b * b = s * s := by rw [ss, c0]; ring
          split_ifs at hq with hbn
          · have : b = s := by rw [hq0] at hq; linarith
            linarith
          · have : b = -s := by rw [hq0] at hq; linarith
            have := not_lt.mp hbn; linarith
        refine (ext_of_roots p0 p1 p2 p3 a [0, 0] (fun x => by rw [hD, b0, c0]; simp [lprod]; ring) t h0 h1).mono ?_
        intro w hw
        simp only [unitRoots, List.filter_cons, List.filter_nil] at hw
        simp at hw
        rcases hw with rfl | rfl <;> simp
      · simp only [hq0, if_false]
        refine (ext_of_roots p0 p1 p2 p3 a [q / a, c / q] (fun x => by
          rw [hD]; simp only [lprod, List.map_cons, List.map_nil, List.prod_cons, List.prod_nil, mul_one]
          field_simp
          linear_combination x * hq2) t h0 h1).mono ?_
        intro w hw
        simp only [unitRoots_cons, unitRoots_nil, List.append_nil] at hw
        exact hw


/-! ## the boxes -/

theorem axis_sound (tol : Rat) (sqrt : Rat → Option Rat) (p0 p1 p2 p3 : Rat)
    (hok : AxisOK tol sqrt p0 p1 p2 p3) (t : Rat) (h0 : 0 ≤ t) (h1 : t ≤ 1) :
    Ext p0 p1 p2 p3 (0 :: 1 :: axisParams tol sqrt p0 p1 p2 p3) t :=
  axis_sound_core tol sqrt p0 p1 p2 p3 hok.1 (fun _ => hok.2) t h0 h1

theorem mem_ite_unit {r w : Rat} (h : w ∈ (if 0 < r ∧ r < 1 then [r] else [])) : 0 < w ∧ w < 1 := by
  split_ifs at h with hr
  · simp only [List.mem_singleton] at h; rw [h]; exact hr
  · simp at h

theorem axisParams_unit (tol : Rat) (sqrt : Rat → Option Rat) (p0 p1 p2 p3 : Rat) :
    ∀ w ∈ axisParams tol sqrt p0 p1 p2 p3, 0 < w ∧ w < 1 := by
  intro w hw
  simp only [axisParams] at hw
  by_cases hat : rabs (3 * (-p0 + 3 * p1 - 3 * p2 + p3)) < tol
  · simp only [hat, if_true] at hw
    exact mem_ite_unit hw
  · simp only [hat, if_false] at hw
    cases hs : sqrt (6 * (p0 - 2 * p1 + p2) * (6 * (p0 - 2 * p1 + p2)) - 4 * (3 * (-p0 + 3 * p1 - 3 * p2 + p3)) * (3 * (p1 - p0))) with
    | none => rw [hs] at hw; simp at hw
    | some s =>
      rw [hs] at hw
      simp only at hw
      by_cases hq : -(1 / 2) * (6 * (p0 - 2 * p1 + p2) + copysign s (6 * (p0 - 2 * p1 + p2))) = 0
      · simp only [hq, if_true] at hw; simp at hw
      · simp only [hq, if_false] at hw
        rcases List.mem_append.mp hw with h | h
        · exact mem_ite_unit h
        · exact mem_ite_unit h

theorem cubicParams_unit (tol : Rat) (sqrt : Rat → Option Rat) (p0 p1 p2 p3 : V3) :
    ∀ w ∈ cubicParams tol sqrt p0 p1 p2 p3, 0 < w ∧ w < 1 := by
  intro w hw
  simp only [cubicParams, List.mem_append] at hw
  rcases hw with (hw | hw) | hw <;> exact axisParams_unit _ _ _ _ _ _ w hw

/-- the points `cubic_bezier_bbox` collects -/
def cubicPoints (tol : Rat) (sqrt : Rat → Option Rat) (p0 p1 p2 p3 : V3) : List V3 :=
  p0 :: p3 :: (cubicParams tol sqrt p0 p1 p2 p3).map (bezier4V p0 p1 p2 p3)

theorem cubicPoints_curve (tol : Rat) (sqrt : Rat → Option Rat) (p0 p1 p2 p3 : V3) :
    ∀ x ∈ cubicPoints tol sqrt p0 p1 p2 p3, ∃ t : Rat, 0 ≤ t ∧ t ≤ 1 ∧ x = bezier4V p0 p1 p2 p3 t := by
  intro x hx
  simp only [cubicPoints, List.mem_cons, List.mem_map] at hx
  rcases hx with rfl | rfl | ⟨w, hw, rfl⟩
  · exact ⟨0, le_rfl, by norm_num, (bezier4V_zero _ _ _ _).symm⟩
  · exact ⟨1, by norm_num, le_rfl, (bezier4V_one _ _ _ _).symm⟩
  · obtain ⟨a, b⟩ := cubicParams_unit tol sqrt p0 p1 p2 p3 w hw
    exact ⟨w, le_of_lt a, le_of_lt b, rfl⟩

theorem cand_mem (tol : Rat) (sqrt : Rat → Option Rat) (p0 p1 p2 p3 : V3) (ps : List Rat)
    (hsub : ∀ w ∈ ps, w ∈ cubicParams tol sqrt p0 p1 p2 p3) (w : Rat) (hw : w ∈ 0 :: 1 :: ps) :
    bezier4V p0 p1 p2 p3 w ∈ cubicPoints tol sqrt p0 p1 p2 p3 := by
  simp only [List.mem_cons] at hw
  rcases hw with rfl | rfl | hw
  · rw [bezier4V_zero]; simp [cubicPoints]
  · rw [bezier4V_one]; simp [cubicPoints]
  · simp only [cubicPoints, List.mem_cons, List.mem_map]
    exact Or.inr (Or.inr ⟨w, hsub w hw, rfl⟩)

/-- `cubic_bezier_bbox` contains the whole curve (exact square root of the discriminants, no tiny leading coefficients) -/
theorem cubic_sound (tol : Rat) (sqrt : Rat → Option Rat) (p0 p1 p2 p3 : V3)
    (htol : CurveOK tol sqrt p0 p1 p2 p3) (t : Rat) (h0 : 0 ≤ t) (h1 : t ≤ 1) :
    (cubicBBox tol sqrt p0 p1 p2 p3).inside (bezier4V p0 p1 p2 p3 t) = true := by
  obtain ⟨hx, hy, hz⟩ := htol
  obtain ⟨⟨wx, hwx, lx⟩, ⟨wx', hwx', lx'⟩⟩ := axis_sound tol sqrt p0.x p1.x p2.x p3.x hx t h0 h1
  obtain ⟨⟨wy, hwy, ly⟩, ⟨wy', hwy', ly'⟩⟩ := axis_sound tol sqrt p0.y p1.y p2.y p3.y hy t h0 h1
  obtain ⟨⟨wz, hwz, lz⟩, ⟨wz', hwz', lz'⟩⟩ := axis_sound tol sqrt p0.z p1.z p2.z p3.z hz t h0 h1
  have sx : ∀ w ∈ axisParams tol sqrt p0.x p1.x p2.x p3.x, w ∈ cubicParams tol sqrt p0 p1 p2 p3 := by
    intro w hw; simp [cubicParams, hw]
  have sy : ∀ w ∈ axisParams tol sqrt p0.y p1.y p2.y p3.y, w ∈ cubicParams tol sqrt p0 p1 p2 p3 := by
    intro w hw; simp [cubicParams, hw]
  have sz : ∀ w ∈ axisParams tol sqrt p0.z p1.z p2.z p3.z, w ∈ cubicParams tol sqrt p0 p1 p2 p3 := by
    intro w hw; simp [cubicParams, hw]
  show (extents3 (cubicPoints tol sqrt p0 p1 p2 p3)).inside _ = true
  rw [inside_extents_iff]
  exact ⟨⟨_, cand_mem tol sqrt p0 p1 p2 p3 _ sx wx' hwx', lx'⟩, ⟨_, cand_mem tol sqrt p0 p1 p2 p3 _ sx wx hwx, lx⟩,
    ⟨_, cand_mem tol sqrt p0 p1 p2 p3 _ sy wy' hwy', ly'⟩, ⟨_, cand_mem tol sqrt p0 p1 p2 p3 _ sy wy hwy, ly⟩,
    ⟨_, cand_mem tol sqrt p0 p1 p2 p3 _ sz wz' hwz', lz'⟩, ⟨_, cand_mem tol sqrt p0 p1 p2 p3 _ sz wz hwz, lz⟩⟩

/-- the box lies in every box that contains the four control points -/
theorem cubic_in_control (tol : Rat) (sqrt : Rat → Option Rat) (b : Box3) (s c1 c2 e : V3) (hs : b.inside s = true)
    (h1 : b.inside c1 = true) (h2 : b.inside c2 = true) (he : b.inside e = true) :
    ∀ x ∈ (cubicBBox tol sqrt s c1 c2 e).iter, b.inside x = true := by
  apply extents_corners_inside
  intro x hx
  obtain ⟨t, t0, t1, rfl⟩ := cubicPoints_curve tol sqrt s c1 c2 e x hx
  exact segPoint_inside b s (.curve4To c1 c2 e) t t0 t1 hs (by
    intro v hv; simp only [Cmd.verts, List.mem_cons, List.not_mem_nil, or_false] at hv
    rcases hv with rfl | rfl | rfl <;> assumption)

/-- every bound of the box is the coordinate of a curve point -/
theorem cubic_tight (tol : Rat) (sqrt : Rat → Option Rat) (s c1 c2 e : V3) :
    ∀ x ∈ (cubicBBox tol sqrt s c1 c2 e).iter,
      (∃ t : Rat, 0 ≤ t ∧ t ≤ 1 ∧ x.x = (bezier4V s c1 c2 e t).x) ∧ (∃ t : Rat, 0 ≤ t ∧ t ≤ 1 ∧ x.y = (bezier4V s c1 c2 e t).y) ∧
      (∃ t : Rat, 0 ≤ t ∧ t ≤ 1 ∧ x.z = (bezier4V s c1 c2 e t).z) := by
  obtain ⟨lo, hi, hb, ⟨a1, m1, e1⟩, ⟨a2, m2, e2⟩, ⟨a3, m3, e3⟩, ⟨a4, m4, e4⟩, ⟨a5, m5, e5⟩, ⟨a6, m6, e6⟩⟩ :=
    extents_tight (cubicPoints tol sqrt s c1 c2 e) (by simp [cubicPoints])
  have hc := cubicPoints_curve tol sqrt s c1 c2 e
  intro x hx
  have hb' : cubicBBox tol sqrt s c1 c2 e = .mk lo hi := hb
  rw [hb'] at hx
  simp only [Box3.iter, List.mem_cons, List.not_mem_nil, or_false] at hx
  rcases hx with rfl | rfl
  · obtain ⟨t1, u1, v1, rfl⟩ := hc a1 m1
    obtain ⟨t2, u2, v2, rfl⟩ := hc a2 m2
    obtain ⟨t3, u3, v3, rfl⟩ := hc a3 m3
    exact ⟨⟨t1, u1, v1, e1.symm⟩, ⟨t2, u2, v2, e2.symm⟩, ⟨t3, u3, v3, e3.symm⟩⟩
  · obtain ⟨t4, u4, v4, rfl⟩ := hc a4 m4
    obtain ⟨t5, u5, v5, rfl⟩ := hc a5 m5
    obtain ⟨t6, u6, v6, rfl⟩ := hc a6 m6
    exact ⟨⟨t4, u4, v4, e4.symm⟩, ⟨t5, u5, v5, e5.symm⟩, ⟨t6, u6, v6, e6.symm⟩⟩

/-- degree elevation: the cubic curve `quadratic_to_cubic_bezier` builds is the quadratic curve -/
theorem elev_curve (s c e : V3) (t : Rat) : bezier4V s (elevV s c) (elevV e c) e t = bezier3V s c e t := by
  simp only [bezier4V, bezier3V, bezier4, bezier3, elevV, elev, V3.mk.injEq]
  refine ⟨by ring, by ring, by ring⟩

theorem elevV_inside (b : Box3) (s c : V3) (hs : b.inside s = true) (hc : b.inside c = true) : b.inside (elevV s c) = true := by
  have : elevV s c = segPoint s (.lineTo c) (2 / 3) := by
    simp only [elevV, elev, segPoint, V3.mk.injEq]
    refine ⟨by ring, by ring, by ring⟩
  rw [this]
  exact segPoint_inside b s (.lineTo c) (2 / 3) (by norm_num) (by norm_num) hs (by simpa [Cmd.verts] using hc)

/-- the boxes of the real code contain every curve segment of a path that passes the `abs_tol` tests exactly -/
theorem real_soundOn (tol : Rat) (sqrt : Rat → Option Rat) (p : Path) (htol : p.CurvesOK tol sqrt) :
    p.SoundOn (realBoxes tol sqrt) := by
  intro sc hsc
  have h := htol sc hsc
  rcases sc with ⟨s, c⟩
  cases c with
  | lineTo e => trivial
  | moveTo e => trivial
  | curve4To c1 c2 e => exact fun t h0 h1 => cubic_sound tol sqrt s c1 c2 e h t h0 h1
  | curve3To c e =>
    intro t h0 h1
    have := cubic_sound tol sqrt s (elevV s c) (elevV e c) e h t h0 h1
    rw [elev_curve] at this
    exact this

theorem real_inControl (tol : Rat) (sqrt : Rat → Option Rat) : (realBoxes tol sqrt).InControl := by
  constructor
  · intro b s c1 c2 e hs h1 h2 he
    exact cubic_in_control tol sqrt b s c1 c2 e hs h1 h2 he
  · intro b s c e hs hc he
    exact cubic_in_control tol sqrt b s _ _ e hs (elevV_inside b s c hs hc) (elevV_inside b e c he hc) he

theorem real_tight (tol : Rat) (sqrt : Rat → Option Rat) : (realBoxes tol sqrt).Tight := by
  constructor
  · intro s c1 c2 e; exact cubic_tight tol sqrt s c1 c2 e
  · intro s c e x hx
    have := cubic_tight tol sqrt s (elevV s c) (elevV e c) e x hx
    simpa only [elev_curve] using this

/-! ## tightness of `precise_bbox` -/

theorem segPoint_line_one (s e : V3) : segPoint s (.lineTo e) 1 = e := by
  cases e; simp only [segPoint, V3.mk.injEq]; refine ⟨by ring, by ring, by ring⟩

/-- every point the loop of `precise_bbox` appends has, on each axis, the coordinate of some point of the path -/
theorem loop_point_on_path (sb : SegBoxes) (ht : sb.Tight) (cs : List Cmd) (s : V3) (x : V3)
    (hx : x ∈ Path.preciseLoop sb s cs) :
    (∃ sc ∈ segsFrom s cs, ∃ t : Rat, 0 ≤ t ∧ t ≤ 1 ∧ x.x = (segPoint sc.1 sc.2 t).x) ∧
    (∃ sc ∈ segsFrom s cs, ∃ t : Rat, 0 ≤ t ∧ t ≤ 1 ∧ x.y = (segPoint sc.1 sc.2 t).y) ∧
    (∃ sc ∈ segsFrom s cs, ∃ t : Rat, 0 ≤ t ∧ t ≤ 1 ∧ x.z = (segPoint sc.1 sc.2 t).z) := by
  rw [preciseLoop_eq, List.mem_flatMap] at hx
  obtain ⟨⟨s', c⟩, hsc, hx⟩ := hx
  cases c with
  | lineTo e =>
    simp only [Path.preciseStep, List.mem_singleton] at hx
    subst hx
    have h := segPoint_line_one s' x
    exact ⟨⟨_, hsc, 1, by norm_num, le_rfl, by rw [h]⟩, ⟨_, hsc, 1, by norm_num, le_rfl, by rw [h]⟩,
      ⟨_, hsc, 1, by norm_num, le_rfl, by rw [h]⟩⟩
  | moveTo e =>
    simp only [Path.preciseStep, List.mem_singleton] at hx
    subst hx
    exact ⟨⟨_, hsc, 1, by norm_num, le_rfl, rfl⟩, ⟨_, hsc, 1, by norm_num, le_rfl, rfl⟩, ⟨_, hsc, 1, by norm_num, le_rfl, rfl⟩⟩
  | curve3To c e =>
    obtain ⟨⟨t1, a1, b1, e1⟩, ⟨t2, a2, b2, e2⟩, ⟨t3, a3, b3, e3⟩⟩ := ht.2 s' c e x (by simpa [Path.preciseStep] using hx)
    exact ⟨⟨_, hsc, t1, a1, b1, e1⟩, ⟨_, hsc, t2, a2, b2, e2⟩, ⟨_, hsc, t3, a3, b3, e3⟩⟩
  | curve4To c1 c2 e =>
    obtain ⟨⟨t1, a1, b1, e1⟩, ⟨t2, a2, b2, e2⟩, ⟨t3, a3, b3, e3⟩⟩ := ht.1 s' c1 c2 e x (by simpa [Path.preciseStep] using hx)
    exact ⟨⟨_, hsc, t1, a1, b1, e1⟩, ⟨_, hsc, t2, a2, b2, e2⟩, ⟨_, hsc, t3, a3, b3, e3⟩⟩

/-- precise mode is tight: with tight segment boxes every bound of `precise_bbox` is attained by a point of the path -/
theorem precise_tight (sb : SegBoxes) (ht : sb.Tight) (p : Path) (hne : p.cmds ≠ []) :
    ∃ lo hi, p.preciseBBox sb = .mk lo hi ∧
      (∃ q, OnPath p q ∧ q.x = lo.x) ∧ (∃ q, OnPath p q ∧ q.y = lo.y) ∧ (∃ q, OnPath p q ∧ q.z = lo.z) ∧
      (∃ q, OnPath p q ∧ q.x = hi.x) ∧ (∃ q, OnPath p q ∧ q.y = hi.y) ∧ (∃ q, OnPath p q ∧ q.z = hi.z) := by
  have hb : p.preciseBBox sb = extents3 (p.start :: Path.preciseLoop sb p.start p.cmds) := by
    simp [Path.preciseBBox, hne]
  obtain ⟨lo, hi, hbox, h1, h2, h3, h4, h5, h6⟩ := extents_tight (p.start :: Path.preciseLoop sb p.start p.cmds) (by simp)
  refine ⟨lo, hi, by rw [hb, hbox], ?_, ?_, ?_, ?_, ?_, ?_⟩
  · obtain ⟨x, hx, ex⟩ := h1
    rcases List.mem_cons.mp hx with rfl | hx
    · exact ⟨_, ⟨hne, Or.inl rfl⟩, ex⟩
    · obtain ⟨sc, hsc, t, t0, t1, et⟩ := (loop_point_on_path sb ht p.cmds p.start x hx).1
      exact ⟨_, ⟨hne, Or.inr ⟨sc, hsc, t, t0, t1, rfl⟩⟩, by rw [← et, ex]⟩
  · obtain ⟨x, hx, ex⟩ := h2
    rcases List.mem_cons.mp hx with rfl | hx
    · exact ⟨_, ⟨hne, Or.inl rfl⟩, ex⟩
    · obtain ⟨sc, hsc, t, t0, t1, et⟩ := (loop_point_on_path sb ht p.cmds p.start x hx).2.1
      exact ⟨_, ⟨hne, Or.inr ⟨sc, hsc, t, t0, t1, rfl⟩⟩, by rw [← et, ex]⟩
  · obtain ⟨x, hx, ex⟩ := h3
    rcases List.mem_cons.mp hx with rfl | hx
    · exact ⟨_, ⟨hne, Or.inl rfl⟩, ex⟩
    · obtain ⟨sc, hsc, t, t0, t1, et⟩ := (loop_point_on_path sb ht p.cmds p.start x hx).2.2
      exact ⟨_, ⟨hne, Or.inr ⟨sc, hsc, t, t0, t1, rfl⟩⟩, by rw [← et, ex]⟩
  · obtain ⟨x, hx, ex⟩ := h4
    rcases List.mem_cons.mp hx with rfl | hx
    · exact ⟨_, ⟨hne, Or.inl rfl⟩, ex⟩
    · obtain ⟨sc, hsc, t, t0, t1, et⟩ := (loop_point_on_path sb ht p.cmds p.start x hx).1
      exact ⟨_, ⟨hne, Or.inr ⟨sc, hsc, t, t0, t1, rfl⟩⟩, by rw [← et, ex]⟩
  · obtain ⟨x, hx, ex⟩ := h5
    rcases List.mem_cons.mp hx with rfl | hx
    · exact ⟨_, ⟨hne, Or.inl rfl⟩, ex⟩
    · obtain ⟨sc, hsc, t, t0, t1, et⟩ := (loop_point_on_path sb ht p.cmds p.start x hx).2.1
      exact ⟨_, ⟨hne, Or.inr ⟨sc, hsc, t, t0, t1, rfl⟩⟩, by rw [← et, ex]⟩
  · obtain ⟨x, hx, ex⟩ := h6
    rcases List.mem_cons.mp hx with rfl | hx
    · exact ⟨_, ⟨hne, Or.inl rfl⟩, ex⟩
    · obtain ⟨sc, hsc, t, t0, t1, et⟩ := (loop_point_on_path sb ht p.cmds p.start x hx).2.2
      exact ⟨_, ⟨hne, Or.inr ⟨sc, hsc, t, t0, t1, rfl⟩⟩, by rw [← et, ex]⟩


/-! ## tightness at any nesting depth -/

theorem onPath_map_inv (a : Aff) (p : Path) (q' : V3) (h : OnPath (p.map a) q') : ∃ q, OnPath p q ∧ q' = a.apply q := by
  obtain ⟨hne, h⟩ := h
  have hne' : p.cmds ≠ [] := by simpa [Path.map] using hne
  rcases h with rfl | ⟨sc, hsc, t, h0, h1, rfl⟩
  · exact ⟨p.start, ⟨hne', Or.inl rfl⟩, rfl⟩
  · simp only [Path.map, segsFrom_map, List.mem_map] at hsc
    obtain ⟨sc0, hsc0, rfl⟩ := hsc
    exact ⟨segPoint sc0.1 sc0.2 t, ⟨hne', Or.inr ⟨sc0, hsc0, t, h0, h1, rfl⟩⟩, segPoint_map a sc0.1 sc0.2 t⟩

/-- a corner of the precise box of a transformed leaf has, on each axis, the coordinate of the world image of a point
    of the leaf -/
theorem corner_attained (sb : SegBoxes) (ht : sb.Tight) (tp : Aff × Path) (hne : (tp.2.map tp.1).isEmpty = false)
    (pt : V3) (hpt : pt ∈ ((tp.2.map tp.1).preciseBBox sb).iter) :
    (∃ q, OnPath tp.2 q ∧ (tp.1.apply q).x = pt.x) ∧ (∃ q, OnPath tp.2 q ∧ (tp.1.apply q).y = pt.y) ∧
      (∃ q, OnPath tp.2 q ∧ (tp.1.apply q).z = pt.z) := by
  have hc : (tp.2.map tp.1).cmds ≠ [] := by
    simpa [Path.isEmpty, List.isEmpty_eq_false_iff] using hne
  obtain ⟨lo, hi, hb, ⟨q1, o1, e1⟩, ⟨q2, o2, e2⟩, ⟨q3, o3, e3⟩, ⟨q4, o4, e4⟩, ⟨q5, o5, e5⟩, ⟨q6, o6, e6⟩⟩ :=
    precise_tight sb ht (tp.2.map tp.1) hc
  rw [hb] at hpt
  simp only [Box3.iter, List.mem_cons, List.not_mem_nil, or_false] at hpt
  rcases hpt with rfl | rfl
  · obtain ⟨r1, s1, rfl⟩ := onPath_map_inv _ _ _ o1
    obtain ⟨r2, s2, rfl⟩ := onPath_map_inv _ _ _ o2
    obtain ⟨r3, s3, rfl⟩ := onPath_map_inv _ _ _ o3
    exact ⟨⟨r1, s1, e1⟩, ⟨r2, s2, e2⟩, ⟨r3, s3, e3⟩⟩
  · obtain ⟨r4, s4, rfl⟩ := onPath_map_inv _ _ _ o4
    obtain ⟨r5, s5, rfl⟩ := onPath_map_inv _ _ _ o5
    obtain ⟨r6, s6, rfl⟩ := onPath_map_inv _ _ _ o6
    exact ⟨⟨r4, s4, e4⟩, ⟨r5, s5, e5⟩, ⟨r6, s6, e6⟩⟩

/-- precise mode is tight at any nesting depth: every bound of the extents of a tree is the coordinate of the world
    image `T q` of a point `q` of some leaf (`T` the composed matrix of its ancestors) -/
theorem nested_tight (repr : Aff → Bool) (sb : SegBoxes) (ht : sb.Tight) (c : Cache) (f : Forest)
    (h : f.plainBlocks = true) (lo hi : V3) (hb : (extentsOf false c (toEnts repr sb false f)).1 = .mk lo hi) :
    (∃ tp ∈ placements Aff.one f, ∃ q, OnPath tp.2 q ∧ (tp.1.apply q).x = lo.x) ∧
    (∃ tp ∈ placements Aff.one f, ∃ q, OnPath tp.2 q ∧ (tp.1.apply q).y = lo.y) ∧
    (∃ tp ∈ placements Aff.one f, ∃ q, OnPath tp.2 q ∧ (tp.1.apply q).z = lo.z) ∧
    (∃ tp ∈ placements Aff.one f, ∃ q, OnPath tp.2 q ∧ (tp.1.apply q).x = hi.x) ∧
    (∃ tp ∈ placements Aff.one f, ∃ q, OnPath tp.2 q ∧ (tp.1.apply q).y = hi.y) ∧
    (∃ tp ∈ placements Aff.one f, ∃ q, OnPath tp.2 q ∧ (tp.1.apply q).z = hi.z) := by
  rw [nested_bbox repr sb false c f h, extendAll_eq] at hb
  simp only at hb
  have hne : (worldBoxes sb false f).flatMap Box3.iter ≠ [] := by
    intro he; rw [he] at hb; simp [extents3] at hb
  obtain ⟨lo', hi', hb', t1, t2, t3, t4, t5, t6⟩ := extents_tight _ hne
  rw [hb] at hb'
  simp only [Box3.mk.injEq] at hb'
  obtain ⟨rfl, rfl⟩ := hb'
  -- every listed corner belongs to the precise box of a transformed, non-empty leaf
  have src : ∀ pt ∈ (worldBoxes sb false f).flatMap Box3.iter, ∃ tp ∈ placements Aff.one f,
      (tp.2.map tp.1).isEmpty = false ∧ pt ∈ ((tp.2.map tp.1).preciseBBox sb).iter := by
    intro pt hpt
    simp only [worldBoxes, worldPaths, List.mem_flatMap, List.mem_map, List.mem_filter] at hpt
    obtain ⟨b, ⟨p', ⟨⟨tp, htp, rfl⟩, hne'⟩, rfl⟩, hpt⟩ := hpt
    refine ⟨tp, htp, by simpa using hne', ?_⟩
    simpa [Path.box] using hpt
  have use : ∀ pt ∈ (worldBoxes sb false f).flatMap Box3.iter,
      (∃ tp ∈ placements Aff.one f, ∃ q, OnPath tp.2 q ∧ (tp.1.apply q).x = pt.x) ∧
      (∃ tp ∈ placements Aff.one f, ∃ q, OnPath tp.2 q ∧ (tp.1.apply q).y = pt.y) ∧
      (∃ tp ∈ placements Aff.one f, ∃ q, OnPath tp.2 q ∧ (tp.1.apply q).z = pt.z) := by
    intro pt hpt
    obtain ⟨tp, htp, hne', hin⟩ := src pt hpt
    obtain ⟨⟨q1, o1, e1⟩, ⟨q2, o2, e2⟩, ⟨q3, o3, e3⟩⟩ := corner_attained sb ht tp hne' pt hin
    exact ⟨⟨tp, htp, q1, o1, e1⟩, ⟨tp, htp, q2, o2, e2⟩, ⟨tp, htp, q3, o3, e3⟩⟩
  obtain ⟨p1, m1, e1⟩ := t1
  obtain ⟨p2, m2, e2⟩ := t2
  obtain ⟨p3, m3, e3⟩ := t3
  obtain ⟨p4, m4, e4⟩ := t4
  obtain ⟨p5, m5, e5⟩ := t5
  obtain ⟨p6, m6, e6⟩ := t6
  refine ⟨?_, ?_, ?_, ?_, ?_, ?_⟩
  · rw [← e1]; exact (use p1 m1).1
  · rw [← e2]; exact (use p2 m2).2.1
  · rw [← e3]; exact (use p3 m3).2.2
  · rw [← e4]; exact (use p4 m4).1
  · rw [← e5]; exact (use p5 m5).2.1
  · rw [← e6]; exact (use p6 m6).2.2


/-! ## tiny coefficients: the `abs_tol` tests cost at most 5/3 * abs_tol

If `|a| < abs_tol` the code treats the derivative as linear, if also `|b| < abs_tol` as constant.  Compare the curve
with the curve `g` that has the same `p0`, `c` (and `b`) but exactly vanishing leading coefficient(s): the code collects
the same parameters for both, the exact statement holds for `g`, and the two curves differ by `(b/2) t^2 + (a/3) t^3`. -/

def ExtTol (p0 p1 p2 p3 : Rat) (cands : List Rat) (e t : Rat) : Prop :=
  (∃ w ∈ cands, bezier4 p0 p1 p2 p3 t ≤ bezier4 p0 p1 p2 p3 w + e) ∧
  (∃ w ∈ cands, bezier4 p0 p1 p2 p3 w - e ≤ bezier4 p0 p1 p2 p3 t)

theorem cands_unit (tol : Rat) (sqrt : Rat → Option Rat) (p0 p1 p2 p3 : Rat) :
    ∀ w ∈ 0 :: 1 :: axisParams tol sqrt p0 p1 p2 p3, 0 ≤ w ∧ w ≤ 1 := by
  intro w hw
  simp only [List.mem_cons] at hw
  rcases hw with rfl | rfl | hw
  · exact ⟨le_rfl, by norm_num⟩
  · exact ⟨by norm_num, le_rfl⟩
  · obtain ⟨a, b⟩ := axisParams_unit tol sqrt p0 p1 p2 p3 w hw
    exact ⟨le_of_lt a, le_of_lt b⟩

/-- transfer of the exact statement from a comparison curve `g` that stays within `e` of `f` on [0, 1] -/
theorem ext_transfer (p0 p1 p2 p3 q0 q1 q2 q3 : Rat) (cands : List Rat) (e t : Rat) (h0 : 0 ≤ t) (h1 : t ≤ 1)
    (hc : ∀ w ∈ cands, 0 ≤ w ∧ w ≤ 1)
    (hd : ∀ x : Rat, 0 ≤ x → x ≤ 1 → bezier4 p0 p1 p2 p3 x - bezier4 q0 q1 q2 q3 x ≤ e ∧
      -e ≤ bezier4 p0 p1 p2 p3 x - bezier4 q0 q1 q2 q3 x)
    (hg : Ext q0 q1 q2 q3 cands t) : ExtTol p0 p1 p2 p3 cands (2 * e) t := by
  obtain ⟨⟨w, hw, l1⟩, ⟨w', hw', l2⟩⟩ := hg
  have dt := hd t h0 h1
  have dw := hd w (hc w hw).1 (hc w hw).2
  have dw' := hd w' (hc w' hw').1 (hc w' hw').2
  exact ⟨⟨w, hw, by linarith [dt.1, dw.2]⟩, ⟨w', hw', by linarith [dt.2, dw'.1]⟩⟩

theorem rabs_lt (x tol : Rat) (h : rabs x < tol) : -tol < x ∧ x < tol := by
  unfold rabs at h
  split_ifs at h with hx
  · exact ⟨by linarith, by linarith⟩
  · exact ⟨by linarith [not_lt.mp hx], h⟩

theorem cube_bound (x a tol : Rat) (h0 : 0 ≤ x) (h1 : x ≤ 1) (ha : -tol < a ∧ a < tol) :
    x ^ 3 * (a / 3) ≤ tol / 3 ∧ -(tol / 3) ≤ x ^ 3 * (a / 3) := by
  have hx3 : 0 ≤ x ^ 3 := by positivity
  have hx3' : x ^ 3 ≤ 1 := by
    have : x ^ 3 ≤ 1 ^ 3 := pow_le_pow_left₀ h0 h1 3
    simpa using this
  constructor <;> nlinarith [ha.1, ha.2]

theorem sq_bound (x b tol : Rat) (h0 : 0 ≤ x) (h1 : x ≤ 1) (hb : -tol < b ∧ b < tol) :
    x ^ 2 * (b / 2) ≤ tol / 2 ∧ -(tol / 2) ≤ x ^ 2 * (b / 2) := by
  have hx2 : 0 ≤ x ^ 2 := by positivity
  have hx2' : x ^ 2 ≤ 1 := by
    have : x ^ 2 ≤ 1 ^ 2 := pow_le_pow_left₀ h0 h1 2
    simpa using this
  constructor <;> nlinarith [hb.1, hb.2]

/-- Without any assumption on the size of the coefficients: every value of the coordinate on [0, 1] is within
    `5/3 * abs_tol` of the range spanned by the candidates the code evaluates. -/
theorem axis_sound_tol (tol : Rat) (sqrt : Rat → Option Rat) (p0 p1 p2 p3 : Rat) (tpos : 0 < tol)
    (hs : AxisSqrtOK tol sqrt p0 p1 p2 p3) (t : Rat) (h0 : 0 ≤ t) (h1 : t ≤ 1) :
    ExtTol p0 p1 p2 p3 (0 :: 1 :: axisParams tol sqrt p0 p1 p2 p3) (5 / 3 * tol) t := by
  by_cases hat : rabs (3 * (-p0 + 3 * p1 - 3 * p2 + p3)) < tol
  · have ha := rabs_lt _ _ hat
    by_cases hbt : rabs (6 * (p0 - 2 * p1 + p2)) < tol
    · -- both coefficients below the tolerance: compare with the straight line p0 + c t
      have hb := rabs_lt _ _ hbt
      have ea : 3 * (-p0 + 3 * p1 - 3 * (2 * p1 - p0) + (3 * p1 - 2 * p0)) = 0 := by ring
      have eb : 6 * (p0 - 2 * p1 + (2 * p1 - p0)) = 0 := by ring
      have z : rabs 0 < tol := rabs_zero_lt tol tpos
      have hpar : axisParams tol sqrt p0 p1 (2 * p1 - p0) (3 * p1 - 2 * p0) = axisParams tol sqrt p0 p1 p2 p3 := by
        simp only [axisParams, ea, eb, z, hat, hbt, if_true]
      have hg := axis_sound_core tol sqrt p0 p1 (2 * p1 - p0) (3 * p1 - 2 * p0)
        ⟨tpos, fun _ => ea, fun _ _ => eb⟩ (by unfold AxisSqrtOK; rw [ea]; exact fun h => absurd z h) t h0 h1
      rw [hpar] at hg
      have := ext_transfer p0 p1 p2 p3 p0 p1 (2 * p1 - p0) (3 * p1 - 2 * p0) _ (5 / 6 * tol) t h0 h1
        (cands_unit tol sqrt p0 p1 p2 p3) (by
          intro x x0 x1
          have e : bezier4 p0 p1 p2 p3 x - bezier4 p0 p1 (2 * p1 - p0) (3 * p1 - 2 * p0) x =
              x ^ 2 * (6 * (p0 - 2 * p1 + p2) / 2) + x ^ 3 * (3 * (-p0 + 3 * p1 - 3 * p2 + p3) / 3) := by
            unfold bezier4; ring
          rw [e]
          obtain ⟨c1, c2⟩ := cube_bound x _ tol x0 x1 ha
          obtain ⟨s1, s2⟩ := sq_bound x _ tol x0 x1 hb
          constructor <;> linarith) hg
      have e2 : 2 * (5 / 6 * tol) = 5 / 3 * tol := by ring
      rwa [e2] at this
    · -- only the leading coefficient is below the tolerance: compare with the curve without the cubic term
      have ea : 3 * (-p0 + 3 * p1 - 3 * p2 + (p3 - 3 * (-p0 + 3 * p1 - 3 * p2 + p3) / 3)) = 0 := by ring
      have z : rabs 0 < tol := rabs_zero_lt tol tpos
      have hpar : axisParams tol sqrt p0 p1 p2 (p3 - 3 * (-p0 + 3 * p1 - 3 * p2 + p3) / 3) = axisParams tol sqrt p0 p1 p2 p3 := by
        simp only [axisParams, ea, z, hat, hbt, if_true, if_false]
      have hg := axis_sound_core tol sqrt p0 p1 p2 (p3 - 3 * (-p0 + 3 * p1 - 3 * p2 + p3) / 3)
        ⟨tpos, fun _ => ea, fun _ h => absurd h hbt⟩ (by unfold AxisSqrtOK; rw [ea]; exact fun h => absurd z h) t h0 h1
      rw [hpar] at hg
      have := ext_transfer p0 p1 p2 p3 p0 p1 p2 (p3 - 3 * (-p0 + 3 * p1 - 3 * p2 + p3) / 3) _ (tol / 3) t h0 h1
        (cands_unit tol sqrt p0 p1 p2 p3) (by
          intro x x0 x1
          have e : bezier4 p0 p1 p2 p3 x - bezier4 p0 p1 p2 (p3 - 3 * (-p0 + 3 * p1 - 3 * p2 + p3) / 3) x =
              x ^ 3 * (3 * (-p0 + 3 * p1 - 3 * p2 + p3) / 3) := by
            unfold bezier4; ring
          rw [e]
          exact cube_bound x _ tol x0 x1 ha) hg
      obtain ⟨⟨w, hw, l1⟩, ⟨w', hw', l2⟩⟩ := this
      exact ⟨⟨w, hw, by linarith⟩, ⟨w', hw', by linarith⟩⟩
  · -- the leading coefficient passes the test: the exact statement
    obtain ⟨⟨w, hw, l1⟩, ⟨w', hw', l2⟩⟩ := axis_sound_core tol sqrt p0 p1 p2 p3
      ⟨tpos, fun h => absurd h hat, fun h => absurd h hat⟩ hs t h0 h1
    exact ⟨⟨w, hw, by linarith⟩, ⟨w', hw', by linarith⟩⟩

/-- `cubic_bezier_bbox` grown by `5/3 * abs_tol` contains the whole curve, whatever the size of the coefficients
    (only the square roots that are taken have to be exact) -/
theorem cubic_sound_tol (tol : Rat) (sqrt : Rat → Option Rat) (p0 p1 p2 p3 : V3) (hok : CurveSqrtOK tol sqrt p0 p1 p2 p3)
    (t : Rat) (h0 : 0 ≤ t) (h1 : t ≤ 1) :
    ∃ g, (cubicBBox tol sqrt p0 p1 p2 p3).grow (5 / 3 * tol) = some g ∧ g.inside (bezier4V p0 p1 p2 p3 t) = true := by
  obtain ⟨tpos, hx, hy, hz⟩ := hok
  have hv : (0 : Rat) ≤ 5 / 3 * tol := by linarith
  obtain ⟨⟨wx, hwx, lx⟩, ⟨wx', hwx', lx'⟩⟩ := axis_sound_tol tol sqrt p0.x p1.x p2.x p3.x tpos hx t h0 h1
  obtain ⟨⟨wy, hwy, ly⟩, ⟨wy', hwy', ly'⟩⟩ := axis_sound_tol tol sqrt p0.y p1.y p2.y p3.y tpos hy t h0 h1
  obtain ⟨⟨wz, hwz, lz⟩, ⟨wz', hwz', lz'⟩⟩ := axis_sound_tol tol sqrt p0.z p1.z p2.z p3.z tpos hz t h0 h1
  have sx : ∀ w ∈ axisParams tol sqrt p0.x p1.x p2.x p3.x, w ∈ cubicParams tol sqrt p0 p1 p2 p3 := by
    intro w hw; simp [cubicParams, hw]
  have sy : ∀ w ∈ axisParams tol sqrt p0.y p1.y p2.y p3.y, w ∈ cubicParams tol sqrt p0 p1 p2 p3 := by
    intro w hw; simp [cubicParams, hw]
  have sz : ∀ w ∈ axisParams tol sqrt p0.z p1.z p2.z p3.z, w ∈ cubicParams tol sqrt p0 p1 p2 p3 := by
    intro w hw; simp [cubicParams, hw]
  have inb : ∀ x ∈ cubicPoints tol sqrt p0 p1 p2 p3, (cubicBBox tol sqrt p0 p1 p2 p3).inside x = true :=
    fun x hx => extents_contains_all _ x hx
  have hbx : ∃ lo hi, cubicBBox tol sqrt p0 p1 p2 p3 = .mk lo hi := ⟨_, _, rfl⟩
  obtain ⟨lo, hi, hb⟩ := hbx
  rw [hb] at inb ⊢
  have hn : ¬(5 / 3 * tol < 0 ∧ -(5 / 3 * tol) ≥ Box3.min3 (hi.sub lo) / 2) := fun h => absurd h.1 (not_lt.mpr hv)
  refine ⟨.mk (lo.add ⟨-(5 / 3 * tol), -(5 / 3 * tol), -(5 / 3 * tol)⟩) (hi.add ⟨5 / 3 * tol, 5 / 3 * tol, 5 / 3 * tol⟩),
    by simp only [Box3.grow, hn, if_false], ?_⟩
  have px := inb _ (cand_mem tol sqrt p0 p1 p2 p3 _ sx wx hwx)
  have px' := inb _ (cand_mem tol sqrt p0 p1 p2 p3 _ sx wx' hwx')
  have py := inb _ (cand_mem tol sqrt p0 p1 p2 p3 _ sy wy hwy)
  have py' := inb _ (cand_mem tol sqrt p0 p1 p2 p3 _ sy wy' hwy')
  have pz := inb _ (cand_mem tol sqrt p0 p1 p2 p3 _ sz wz hwz)
  have pz' := inb _ (cand_mem tol sqrt p0 p1 p2 p3 _ sz wz' hwz')
  rw [inside_mk_iff] at px px' py py' pz pz' ⊢
  simp only [bezier4V, V3.add] at px px' py py' pz pz' ⊢
  exact ⟨by linarith [px'.1], by linarith [px.2.1], by linarith [py'.2.2.1], by linarith [py.2.2.2.1],
    by linarith [pz'.2.2.2.2.1], by linarith [pz.2.2.2.2.2]⟩


/-! ## paths with the real curve boxes, no assumption on the coefficients: containment up to `5/3 * abs_tol` -/

theorem grow_eq_growBox (b : Box3) (e : Rat) (he : 0 ≤ e) : b.grow e = some (growBox b e) := by
  cases b with
  | empty => rfl
  | mk lo hi =>
    have hn : ¬(e < 0 ∧ -e ≥ Box3.min3 (hi.sub lo) / 2) := fun h => absurd h.1 (not_lt.mpr he)
    simp only [Box3.grow, hn, if_false, growBox]

/-- coordinatewise within `e` -/
def Near (e : Rat) (x' x : V3) : Prop :=
  x.x - e ≤ x'.x ∧ x'.x ≤ x.x + e ∧ x.y - e ≤ x'.y ∧ x'.y ≤ x.y + e ∧ x.z - e ≤ x'.z ∧ x'.z ≤ x.z + e

theorem near_self (e : Rat) (he : 0 ≤ e) (x : V3) : Near e x x :=
  ⟨by linarith, by linarith, by linarith, by linarith, by linarith, by linarith⟩

theorem near_inside (b : Box3) (e : Rat) (x' x : V3) (hb : b.inside x = true) (hn : Near e x' x) :
    (growBox b e).inside x' = true := by
  cases b with
  | empty => simp [Box3.inside] at hb
  | mk lo hi =>
    rw [inside_mk_iff] at hb
    obtain ⟨n1, n2, n3, n4, n5, n6⟩ := hn
    obtain ⟨b1, b2, b3, b4, b5, b6⟩ := hb
    simp only [growBox, inside_mk_iff, V3.add]
    exact ⟨by linarith, by linarith, by linarith, by linarith, by linarith, by linarith⟩

theorem growBox_iter_near (b : Box3) (e : Rat) (he : 0 ≤ e) : ∀ x' ∈ (growBox b e).iter, ∃ x ∈ b.iter, Near e x' x := by
  cases b with
  | empty => intro x' hx'; simp [growBox, Box3.iter] at hx'
  | mk lo hi =>
    intro x' hx'
    simp only [growBox, Box3.iter, List.mem_cons, List.not_mem_nil, or_false] at hx'
    rcases hx' with rfl | rfl
    · exact ⟨lo, by simp [Box3.iter], by simp only [Near, V3.add]; exact ⟨by linarith, by linarith, by linarith, by linarith, by linarith, by linarith⟩⟩
    · exact ⟨hi, by simp [Box3.iter], by simp only [Near, V3.add]; exact ⟨by linarith, by linarith, by linarith, by linarith, by linarith, by linarith⟩⟩

theorem loop_near (sb : SegBoxes) (e : Rat) (he : 0 ≤ e) (cs : List Cmd) : ∀ s : V3,
    ∀ x' ∈ Path.preciseLoop (sb.grown e) s cs, ∃ x ∈ Path.preciseLoop sb s cs, Near e x' x := by
  induction cs with
  | nil => intro s x' hx'; simp [Path.preciseLoop] at hx'
  | cons c r ih =>
    intro s x' hx'
    simp only [Path.preciseLoop, List.mem_append, preciseStep_pen] at hx' ⊢
    rcases hx' with hx' | hx'
    · cases c with
      | lineTo p => exact ⟨x', Or.inl (by simpa [Path.preciseStep] using hx'), near_self e he x'⟩
      | moveTo p => exact ⟨x', Or.inl (by simpa [Path.preciseStep] using hx'), near_self e he x'⟩
      | curve3To c p =>
        obtain ⟨x, hx, hn⟩ := growBox_iter_near (sb.bb3 s c p) e he x' (by simpa [Path.preciseStep, SegBoxes.grown] using hx')
        exact ⟨x, Or.inl (by simpa [Path.preciseStep] using hx), hn⟩
      | curve4To c1 c2 p =>
        obtain ⟨x, hx, hn⟩ := growBox_iter_near (sb.bb4 s c1 c2 p) e he x' (by simpa [Path.preciseStep, SegBoxes.grown] using hx')
        exact ⟨x, Or.inl (by simpa [Path.preciseStep] using hx), hn⟩
    · obtain ⟨x, hx, hn⟩ := ih c.endPoint x' hx'
      exact ⟨x, Or.inr hx, hn⟩

/-- the precise box computed from grown curve boxes lies in the grown precise box -/
theorem precise_grown_subset (sb : SegBoxes) (e : Rat) (he : 0 ≤ e) (p : Path) (q : V3)
    (hq : (p.preciseBBox (sb.grown e)).inside q = true) : (growBox (p.preciseBBox sb) e).inside q = true := by
  by_cases hne : p.cmds = []
  · simp [Path.preciseBBox, hne, Box3.inside] at hq
  · have hb : ∀ sb' : SegBoxes, p.preciseBBox sb' = extents3 (p.start :: Path.preciseLoop sb' p.start p.cmds) := by
      intro sb'; simp [Path.preciseBBox, hne]
    rw [hb] at hq ⊢
    refine inside_of_corners _ _ (extents_corners_inside _ _ ?_) q hq
    intro x' hx'
    rcases List.mem_cons.mp hx' with rfl | hx'
    · exact near_inside _ e _ _ (extents_contains_all _ _ (by simp)) (near_self e he _)
    · obtain ⟨x, hx, hn⟩ := loop_near sb e he p.cmds p.start x' hx'
      exact near_inside _ e _ _ (extents_contains_all _ _ (by simp [hx])) hn

/-- quantitative containment for a multi-path: segment boxes that contain their curves after growing by `e` give a
    precise box that contains the path after growing by `e` -/
theorem precise_contains_path_tol (sb : SegBoxes) (e : Rat) (he : 0 ≤ e) (p : Path) (hs : p.SoundOn (sb.grown e))
    (q : V3) (h : OnPath p q) :
    (p.preciseBBox sb).grow e = some (growBox (p.preciseBBox sb) e) ∧ (growBox (p.preciseBBox sb) e).inside q = true :=
  ⟨grow_eq_growBox _ e he, precise_grown_subset sb e he p q (precise_contains_path (sb.grown e) p hs q h)⟩

theorem real_soundOn_tol (tol : Rat) (sqrt : Rat → Option Rat) (p : Path) (hok : p.CurvesSqrtOK tol sqrt) :
    p.SoundOn ((realBoxes tol sqrt).grown (5 / 3 * tol)) := by
  intro sc hsc
  have h := hok sc hsc
  rcases sc with ⟨s, c⟩
  cases c with
  | lineTo e => trivial
  | moveTo e => trivial
  | curve4To c1 c2 e =>
    intro t h0 h1
    have tpos : (0 : Rat) ≤ 5 / 3 * tol := by have := h.1; linarith
    obtain ⟨g, hg, hin⟩ := cubic_sound_tol tol sqrt s c1 c2 e h t h0 h1
    rw [grow_eq_growBox _ _ tpos] at hg
    simp only [Option.some.injEq] at hg
    subst hg
    exact hin
  | curve3To c e =>
    intro t h0 h1
    have tpos : (0 : Rat) ≤ 5 / 3 * tol := by have := h.1; linarith
    obtain ⟨g, hg, hin⟩ := cubic_sound_tol tol sqrt s (elevV s c) (elevV e c) e h t h0 h1
    rw [grow_eq_growBox _ _ tpos] at hg
    simp only [Option.some.injEq] at hg
    subst hg
    rw [elev_curve] at hin
    exact hin


theorem growBox_mono (b B : Box3) (e : Rat) (hc : ∀ x ∈ b.iter, B.inside x = true) (q : V3)
    (hq : (growBox b e).inside q = true) : (growBox B e).inside q = true := by
  cases b with
  | empty => simp [growBox, Box3.inside] at hq
  | mk lo hi =>
    have hl := hc lo (by simp [Box3.iter])
    have hh := hc hi (by simp [Box3.iter])
    cases B with
    | empty => simp [Box3.inside] at hl
    | mk Lo Hi =>
      rw [inside_mk_iff] at hl hh
      simp only [growBox, inside_mk_iff, V3.add] at hq ⊢
      obtain ⟨l1, l2, l3, l4, l5, l6⟩ := hl
      obtain ⟨g1, g2, g3, g4, g5, g6⟩ := hh
      obtain ⟨q1, q2, q3, q4, q5, q6⟩ := hq
      exact ⟨by linarith, by linarith, by linarith, by linarith, by linarith, by linarith⟩

theorem preciseBBox_wf (sb : SegBoxes) (p : Path) : (p.preciseBBox sb).WF := by
  unfold Path.preciseBBox
  split
  · trivial
  · exact extents_wf _

/-- quantitative containment at any nesting depth: if the segment boxes contain their curves after growing by `e`,
    the extents of the tree grown by `e` contain the world image of every point of every leaf -/
theorem nested_contains_tol (repr : Aff → Bool) (sb : SegBoxes) (e : Rat) (he : 0 ≤ e) (c : Cache) (f : Forest)
    (hs : ∀ p ∈ worldPaths f, p.SoundOn (sb.grown e)) (h : f.plainBlocks = true)
    (tp : Aff × Path) (htp : tp ∈ placements Aff.one f) (q : V3) (hq : OnPath tp.2 q) :
    (growBox (extentsOf false c (toEnts repr sb false f)).1 e).inside (tp.1.apply q) = true := by
  rw [nested_bbox repr sb false c f h]
  have hon := onPath_map tp.1 tp.2 q hq
  have hne : (tp.2.map tp.1).isEmpty = false := by
    have := hon.1
    simp only [Path.isEmpty, List.isEmpty_eq_false_iff]
    exact this
  have hb : Path.box sb false (tp.2.map tp.1) ∈ worldBoxes sb false f := by
    simp only [worldBoxes, List.mem_map, List.mem_filter]
    exact ⟨_, ⟨mem_worldPaths f tp htp, by simp [hne]⟩, rfl⟩
  have h1 := (precise_contains_path_tol sb e he _ (hs _ (mem_worldPaths f tp htp)) _ hon).2
  have hbox : Path.box sb false (tp.2.map tp.1) = (tp.2.map tp.1).preciseBBox sb := by simp [Path.box]
  rw [hbox] at hb
  refine growBox_mono _ _ e ?_ _ h1
  intro x hx
  exact (extend_all_spec _).2 _ hb x (corners_inside _ (preciseBBox_wf sb _) x hx)


/-! ## fast mode is never smaller than precise mode, for a whole tree -/

theorem contains_imp (a : Box3) (lo hi : V3) (h : a.contains (.mk lo hi) = true) :
    ∀ x ∈ (Box3.mk lo hi).iter, a.inside x = true := by
  simp only [Box3.contains, Bool.and_eq_true] at h
  intro x hx
  simp only [Box3.iter, List.mem_cons, List.not_mem_nil, or_false] at hx
  rcases hx with rfl | rfl
  · exact h.1
  · exact h.2

/-- every point of the precise extents of a tree lies in its fast extents (segment boxes inside the control hull) -/
theorem nested_fast_contains_precise (repr : Aff → Bool) (sb : SegBoxes) (hc : sb.InControl) (c c' : Cache) (f : Forest)
    (h : f.plainBlocks = true) (q : V3) (hq : (extentsOf false c (toEnts repr sb false f)).1.inside q = true) :
    (extentsOf false c' (toEnts repr sb true f)).1.inside q = true := by
  rw [nested_bbox repr sb false c f h, extendAll_eq] at hq
  rw [nested_bbox repr sb true c' f h]
  simp only at hq ⊢
  -- every corner of a precise leaf box is inside the fast extents
  have hall : ∀ x ∈ (worldBoxes sb false f).flatMap Box3.iter, (extendAll (worldBoxes sb true f)).inside x = true := by
    intro x hx
    simp only [worldBoxes, List.mem_flatMap, List.mem_map, List.mem_filter] at hx
    obtain ⟨b, ⟨p, ⟨hp, hne⟩, rfl⟩, hxb⟩ := hx
    have hne' : p.cmds ≠ [] := by
      simpa [Path.isEmpty, List.isEmpty_eq_false_iff] using hne
    have hfb : Path.box sb true p ∈ worldBoxes sb true f := by
      simp only [worldBoxes, List.mem_map, List.mem_filter]
      exact ⟨p, ⟨hp, hne⟩, rfl⟩
    have hcon := fast_contains_precise_path sb hc p hne'
    have hpb : Path.box sb false p = p.preciseBBox sb := by simp [Path.box]
    have hfb' : Path.box sb true p = extents3 p.controlVertices := by simp [Path.box]
    rw [hpb] at hxb
    rw [hfb'] at hfb
    cases hb : p.preciseBBox sb with
    | empty => rw [hb] at hxb; simp [Box3.iter] at hxb
    | mk lo hi =>
      rw [hb] at hxb hcon
      exact (extend_all_spec _).2 _ hfb x (contains_imp _ lo hi hcon x hxb)
  exact inside_of_corners _ _ (extents_corners_inside _ _ hall) q hq

end EzdxfVerif.BBox.Lemmas

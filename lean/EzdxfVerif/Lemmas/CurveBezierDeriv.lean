/-
Helper lemmas for C13 (not counted): the derivative of the Bernstein polynomials, for the generic `Bezier` class.
`bernPoly n i = C(n,i)·X^i·(1−X)^(n−i) ∈ ℚ[X]`;  `X(1−X)·B' = (i − nX)·B`  (the factor `Bezier.derivative` uses between the
ends) and the values of `B'` at 0 and 1 (the closed end formulas).
-/
import EzdxfVerif.Lemmas.CurveBezier
import Mathlib.Algebra.Polynomial.Derivative

namespace EzdxfVerif.Lemmas.Curve
open EzdxfVerif.Curve Polynomial

noncomputable def bernPoly (n i : Nat) : ℚ[X] := C ((choose n i : Nat) : ℚ) * X ^ i * (1 - X) ^ (n - i)

theorem bernPoly_eval (n i : Nat) (t : Rat) : (bernPoly n i).eval t = bernstein n i t := by
  simp [bernPoly, bernstein]

/-- `X(1−X)·(c·X^i·(1−X)^m)' = (i − (i+m)X)·c·X^i·(1−X)^m` -/
theorem monomial_deriv_identity (c : ℚ) : ∀ (i m : Nat),
    X * (1 - X) * derivative (C c * X ^ i * (1 - X) ^ m : ℚ[X])
      = (C (i : ℚ) - C ((i + m : Nat) : ℚ) * X) * (C c * X ^ i * (1 - X) ^ m)
  | 0, 0 => by simp
  | 0, m + 1 => by
    simp only [pow_zero, mul_one, derivative_mul, derivative_C, zero_mul, zero_add, derivative_pow, derivative_sub,
      derivative_one, derivative_X, zero_sub, Nat.add_sub_cancel, Nat.cast_zero, C_0, Nat.zero_add]
    simp only [Nat.cast_succ, C_add, C_1]
    ring
  | i + 1, 0 => by
    simp only [pow_zero, mul_one, derivative_mul, derivative_C, zero_mul, zero_add, derivative_X_pow, Nat.add_sub_cancel,
      Nat.add_zero]
    simp only [Nat.cast_succ, C_add, C_1]
    ring
  | i + 1, m + 1 => by
    simp only [derivative_mul, derivative_C, zero_mul, zero_add, derivative_X_pow, derivative_pow, derivative_sub,
      derivative_one, derivative_X, zero_sub, Nat.add_sub_cancel]
    have e : ((i + 1 + (m + 1) : Nat) : ℚ) = (i : ℚ) + 1 + ((m : ℚ) + 1) := by push_cast; ring
    simp only [Nat.cast_succ, C_add, C_1, e]
    ring

theorem bernPoly_deriv_identity (n i : Nat) (hi : i ≤ n) :
    X * (1 - X) * derivative (bernPoly n i) = (C (i : ℚ) - C (n : ℚ) * X) * bernPoly n i := by
  have := monomial_deriv_identity ((choose n i : Nat) : ℚ) i (n - i)
  have e : i + (n - i) = n := by omega
  rw [e] at this
  exact this

/-- between the ends: the coefficient of `Bezier.derivative` is the derivative of the Bernstein polynomial -/
theorem bernPoly_deriv_eval (n i : Nat) (hi : i ≤ n) (t : Rat) (h0 : t ≠ 0) (h1 : t ≠ 1) :
    (derivative (bernPoly n i)).eval t = bezD1Coeff n t i := by
  have h := congrArg (Polynomial.eval t) (bernPoly_deriv_identity n i hi)
  simp only [eval_mul, eval_sub, eval_X, eval_one, eval_C, bernPoly_eval] at h
  have hd : t * (1 - t) ≠ 0 := mul_ne_zero h0 (sub_ne_zero.mpr (Ne.symm h1))
  simp only [bezD1Coeff]
  field_simp
  linear_combination h

/-- `X²(1−X)²·B'' = ((i − nX)² − nX² − i(1 − 2X))·B` -/
theorem bernPoly_deriv2_identity (n i : Nat) (hi : i ≤ n) :
    X ^ 2 * (1 - X) ^ 2 * derivative (derivative (bernPoly n i))
      = ((C (i : ℚ) - C (n : ℚ) * X) ^ 2 - C (n : ℚ) * X ^ 2 - C (i : ℚ) * (1 - 2 * X)) * bernPoly n i := by
  have h1 := bernPoly_deriv_identity n i hi
  have h2 := congrArg derivative h1
  simp only [derivative_mul, derivative_sub, derivative_X, derivative_C, derivative_one, zero_sub, zero_mul, zero_add] at h2
  linear_combination (X * (1 - X)) * h2 + (C (i : ℚ) - C (n : ℚ) * X - 1 + 2 * X) * h1

theorem bernPoly_deriv2_eval (n i : Nat) (hi : i ≤ n) (t : Rat) (h0 : t ≠ 0) (h1 : t ≠ 1) :
    (derivative (derivative (bernPoly n i))).eval t = bezD2Coeff n t i := by
  have h := congrArg (Polynomial.eval t) (bernPoly_deriv2_identity n i hi)
  simp only [eval_mul, eval_sub, eval_X, eval_one, eval_C, eval_pow, bernPoly_eval, eval_ofNat] at h
  have hd : t * t * (1 - t) * (1 - t) ≠ 0 :=
    mul_ne_zero (mul_ne_zero (mul_ne_zero h0 h0) (sub_ne_zero.mpr (Ne.symm h1))) (sub_ne_zero.mpr (Ne.symm h1))
  simp only [bezD2Coeff]
  field_simp
  linear_combination h

theorem choose_one : ∀ n : Nat, choose n 1 = n
  | 0 => rfl
  | n + 1 => by simp [choose, choose_one n, choose_zero_right]; omega

theorem choose_self : ∀ n : Nat, choose n n = 1
  | 0 => rfl
  | n + 1 => by simp [choose, choose_self n, choose_zero_of_lt n (n + 1) (by omega)]

theorem choose_pred : ∀ n : Nat, choose (n + 1) n = n + 1
  | 0 => rfl
  | n + 1 => by
    have h1 := choose_pred n
    have h2 := choose_self (n + 1)
    simp only [choose] at h1 h2 ⊢
    omega

/-- `B'_{i,n}(0)`: `−n, n, 0, 0, …` -/
theorem bernPoly_deriv_zero (n i : Nat) (hi : i ≤ n) :
    (derivative (bernPoly n i)).eval 0 = if i = 0 then -(n : ℚ) else if i = 1 then (n : ℚ) else 0 := by
  simp only [bernPoly, derivative_mul, derivative_C, zero_mul, zero_add, derivative_X_pow, derivative_pow, derivative_sub,
    derivative_one, derivative_X, zero_sub, eval_add, eval_mul, eval_C, eval_pow, eval_X, eval_sub, eval_one, eval_neg,
    eval_natCast, sub_zero, one_pow, mul_one]
  match i, hi with
  | 0, _ => simp [choose_zero_right]
  | 1, _ =>
    simp [choose_one]
  | i + 2, _ => simp

/-- `B'_{i,n}(1)`: `…, 0, −n, n` -/
theorem bernPoly_deriv_one (n i : Nat) (hi : i ≤ n) :
    (derivative (bernPoly n i)).eval 1 = if i = n then (n : ℚ) else if i + 1 = n then -(n : ℚ) else 0 := by
  simp only [bernPoly, derivative_mul, derivative_C, zero_mul, zero_add, derivative_X_pow, derivative_pow, derivative_sub,
    derivative_one, derivative_X, zero_sub, eval_add, eval_mul, eval_C, eval_pow, eval_X, eval_sub, eval_one, eval_neg,
    eval_natCast, sub_self, one_pow, mul_one]
  by_cases h1 : i = n
  · subst h1
    simp [choose_self]
  · rw [if_neg h1]
    by_cases h2 : i + 1 = n
    · subst h2
      simp [choose_pred]
    · rw [if_neg h2]
      have : n - i - 1 ≠ 0 := by omega
      have h3 : n - i ≠ 0 := by omega
      simp [h3, this]

/-- coordinate `π` of the curve as a polynomial: `Σ_i π(P_i)·B_{i,n}` -/
noncomputable def polySum (π : V3 → ℚ) (n : Nat) : Nat → List V3 → ℚ[X]
  | _, [] => 0
  | i, p :: ps => C (π p) * bernPoly n i + polySum π n (i + 1) ps

theorem polySum_eval (π : V3 → ℚ) (hz : π V3.zero = 0) (ha : ∀ a b, π (a.add b) = π a + π b)
    (hs : ∀ a s, π (a.scale s) = π a * s) (n : Nat) (t : Rat) :
    ∀ (l : List V3) (i : Nat), (polySum π n i l).eval t = π (curveSum (fun j => bernstein n j t) i l)
  | [], _ => by simp [polySum, curveSum, hz]
  | p :: ps, i => by
    simp only [polySum, curveSum, eval_add, eval_mul, eval_C, bernPoly_eval, ha, hs, polySum_eval π hz ha hs n t ps (i + 1)]

theorem polySum_deriv_eval (π : V3 → ℚ) (hz : π V3.zero = 0) (ha : ∀ a b, π (a.add b) = π a + π b)
    (hs : ∀ a s, π (a.scale s) = π a * s) (n : Nat) (t : Rat) :
    ∀ (l : List V3) (i : Nat), (derivative (polySum π n i l)).eval t
      = π (curveSum (fun j => (derivative (bernPoly n j)).eval t) i l)
  | [], _ => by simp [polySum, curveSum, hz]
  | p :: ps, i => by
    simp only [polySum, curveSum, derivative_add, derivative_mul, derivative_C, zero_mul, zero_add, eval_add, eval_mul,
      eval_C, ha, hs, polySum_deriv_eval π hz ha hs n t ps (i + 1)]

theorem polySum_deriv2_eval (π : V3 → ℚ) (hz : π V3.zero = 0) (ha : ∀ a b, π (a.add b) = π a + π b)
    (hs : ∀ a s, π (a.scale s) = π a * s) (n : Nat) (t : Rat) :
    ∀ (l : List V3) (i : Nat), (derivative (derivative (polySum π n i l))).eval t
      = π (curveSum (fun j => (derivative (derivative (bernPoly n j))).eval t) i l)
  | [], _ => by simp [polySum, curveSum, hz]
  | p :: ps, i => by
    simp only [polySum, curveSum, derivative_add, derivative_mul, derivative_C, zero_mul, zero_add, eval_add, eval_mul,
      eval_C, ha, hs, polySum_deriv2_eval π hz ha hs n t ps (i + 1)]

theorem curveSum_congr (f g : Nat → Rat) : ∀ (l : List V3) (k : Nat), (∀ i, k ≤ i → i < k + l.length → f i = g i) →
    curveSum f k l = curveSum g k l
  | [], _, _ => rfl
  | p :: ps, k, h => by
    simp only [curveSum, h k (le_refl _) (by simp)]
    rw [curveSum_congr f g ps (k + 1) (fun i h1 h2 => h i (by omega) (by simp at h2 ⊢; omega))]

theorem wsum_zero : ∀ n : Nat, wsum n (fun _ => (0 : Rat)) = 0
  | 0 => rfl
  | n + 1 => by simp [wsum, wsum_zero n]

theorem wsum_single : ∀ (n : Nat) (g : Nat → Rat) (a : Nat), a < n → (∀ j, j < n → j ≠ a → g j = 0) → wsum n g = g a
  | 0, _, _, h, _ => by omega
  | n + 1, g, a, ha, hz => by
    simp only [wsum]
    by_cases h : a = n
    · subst h
      rw [wsum_congr a g (fun _ => 0) (fun j hj => hz j (by omega) (by omega)), wsum_zero, zero_add]
    · rw [wsum_single n g a (by omega) (fun j hj hja => hz j (by omega) hja), hz n (by omega) (Ne.symm h), add_zero]

theorem wsum_two (n : Nat) (g : Nat → Rat) (a b : Nat) (hab : a ≠ b) (ha : a < n) (hb : b < n)
    (hz : ∀ j, j < n → j ≠ a → j ≠ b → g j = 0) : wsum n g = g a + g b := by
  have h1 := wsum_single n (fun j => if j = a then g a else 0) a ha (fun j _ hj => by simp [hj])
  have h2 := wsum_single n (fun j => if j = b then g b else 0) b hb (fun j _ hj => by simp [hj])
  have h3 := wsum_add_mul 1 1 n (fun j => if j = a then g a else 0) (fun j => if j = b then g b else 0)
  simp only [if_true] at h1 h2
  rw [h1, h2, one_mul, one_mul] at h3
  rw [← h3]
  apply wsum_congr
  intro j hj
  by_cases c1 : j = a
  · subst c1; simp [hab]
  · by_cases c2 : j = b
    · subst c2; simp [c1]
    · simp [c1, c2, hz j hj c1 c2]

end EzdxfVerif.Lemmas.Curve

/-
Causality of the tag pipeline of `safe_tag_loader` (tag_reorder_layer → filter_invalid_point_codes →
filter_invalid_handles → byte_tag_compiler): all four are streaming transducers, so the compiled tags that have been
emitted after the raw tags `P` were consumed are a prefix of the result for EVERY continuation `P ++ Q`
(and for both end-of-stream modes).  This lifts the crashed-writer clause of C07 from compiled tags to the raw tags
`bytes_loader` delivers, and with `loader_truncation` to bytes.  Counted statements are re-exported from Props/C07.lean.
-/
import EzdxfVerif.Model.Recover
namespace EzdxfVerif.Lemmas.RecoverCausal
open EzdxfVerif.Recover EzdxfVerif.Gen.RecoverTables

/-! ### tag_reorder_layer -/
def emitTR : Option (List RawTag) → List RawTag → List RawTag × Option (List RawTag)
  | col, [] => ([], col)
  | col, t :: r =>
    if t.code == 0 then
      let flushed := match col with
        | some c => fixCoordinateOrder c.reverse
        | none => []
      if s7 t.val == sLine then
        let p := emitTR (some [t]) r
        (flushed ++ p.1, p.2)
      else
        let p := emitTR none r
        (flushed ++ t :: p.1, p.2)
    else match col with
      | some c => emitTR (some (t :: c)) r
      | none =>
        let p := emitTR none r
        (t :: p.1, p.2)

theorem tagReorder_cons (col : Option (List RawTag)) (t : RawTag) (r : List RawTag) :
    tagReorder col (t :: r) =
      if t.code == 0 then
        (match col with | some c => fixCoordinateOrder c.reverse | none => []) ++
          (if s7 t.val == sLine then tagReorder (some [t]) r else t :: tagReorder none r)
      else match col with
        | some c => tagReorder (some (t :: c)) r
        | none => t :: tagReorder none r := by
  cases col <;> simp only [tagReorder] <;> split <;> (try split) <;> rfl

theorem emitTR_cons (col : Option (List RawTag)) (t : RawTag) (r : List RawTag) :
    emitTR col (t :: r) =
      if t.code == 0 then
        if s7 t.val == sLine then
          ((match col with | some c => fixCoordinateOrder c.reverse | none => []) ++ (emitTR (some [t]) r).1, (emitTR (some [t]) r).2)
        else ((match col with | some c => fixCoordinateOrder c.reverse | none => []) ++ t :: (emitTR none r).1, (emitTR none r).2)
      else match col with
        | some c => emitTR (some (t :: c)) r
        | none => (t :: (emitTR none r).1, (emitTR none r).2) := by
  cases col <;> simp only [emitTR] <;> split <;> (try split) <;> rfl

theorem tagReorder_append (P Q : List RawTag) : ∀ col,
    tagReorder col (P ++ Q) = (emitTR col P).1 ++ tagReorder (emitTR col P).2 Q := by
  induction P with
  | nil => intro col; simp [emitTR]
  | cons t r ih =>
    intro col
    simp only [List.cons_append]
    rw [tagReorder_cons, emitTR_cons]
    by_cases h0 : (t.code == 0) = true
    · simp only [h0, if_true]
      by_cases hl : (s7 t.val == sLine) = true
      · simp only [hl, if_true]
        rw [ih]; simp
      · have hl' : (s7 t.val == sLine) = false := by simpa using hl
        simp only [hl', Bool.false_eq_true, if_false]
        rw [ih]; simp
    · have h0' : (t.code == 0) = false := by simpa using h0
      simp only [h0', Bool.false_eq_true, if_false]
      cases col with
      | some c => simp only; rw [ih]
      | none => simp only; rw [ih]; simp

/-! ### filter_invalid_point_codes -/
structure FPS where
  exp : Int
  z : Int
  pt : List RawTag

def emitFP : Int → Int → List RawTag → List RawTag → List RawTag × FPS
  | exp, z, pt, [] => ([], ⟨exp, z, pt⟩)
  | exp, z, pt, t :: r =>
    let code := t.code
    let brk := !pt.isEmpty && code != exp
    let out := if brk && pt.length > 1 then pt.reverse else []
    let pt := if brk then [] else pt
    if isPointCode code then
      let p := emitFP (code + 10) (code + 20) (t :: pt) r
      (out ++ p.1, p.2)
    else if code == exp then
      let e := exp + 10
      let p := emitFP (if e > z then -1 else e) z (t :: pt) r
      (out ++ p.1, p.2)
    else if !isInvalidCode code then
      let p := emitFP exp z pt r
      (out ++ t :: p.1, p.2)
    else
      let p := emitFP exp z pt r
      (out ++ p.1, p.2)

theorem filterPoints_cons (flush : Bool) (exp z : Int) (pt : List RawTag) (t : RawTag) (r : List RawTag) :
    filterPoints flush exp z pt (t :: r) =
      (let code := t.code
       let brk := !pt.isEmpty && code != exp
       let out := if brk && pt.length > 1 then pt.reverse else []
       let pt := if brk then [] else pt
       if isPointCode code then out ++ filterPoints flush (code + 10) (code + 20) (t :: pt) r
       else if code == exp then
         let e := exp + 10
         out ++ filterPoints flush (if e > z then -1 else e) z (t :: pt) r
       else if !isInvalidCode code then out ++ t :: filterPoints flush exp z pt r
       else out ++ filterPoints flush exp z pt r) := by
  simp only [filterPoints]

theorem emitFP_cons (exp z : Int) (pt : List RawTag) (t : RawTag) (r : List RawTag) :
    emitFP exp z pt (t :: r) =
      (let code := t.code
       let brk := !pt.isEmpty && code != exp
       let out := if brk && pt.length > 1 then pt.reverse else []
       let pt := if brk then [] else pt
       if isPointCode code then
         (out ++ (emitFP (code + 10) (code + 20) (t :: pt) r).1, (emitFP (code + 10) (code + 20) (t :: pt) r).2)
       else if code == exp then
         let e := exp + 10
         (out ++ (emitFP (if e > z then -1 else e) z (t :: pt) r).1, (emitFP (if e > z then -1 else e) z (t :: pt) r).2)
       else if !isInvalidCode code then (out ++ t :: (emitFP exp z pt r).1, (emitFP exp z pt r).2)
       else (out ++ (emitFP exp z pt r).1, (emitFP exp z pt r).2)) := by
  simp only [emitFP]

theorem filterPoints_append (flush : Bool) (P Q : List RawTag) : ∀ exp z pt,
    filterPoints flush exp z pt (P ++ Q)
      = (emitFP exp z pt P).1 ++ filterPoints flush (emitFP exp z pt P).2.exp (emitFP exp z pt P).2.z (emitFP exp z pt P).2.pt Q := by
  induction P with
  | nil => intro exp z pt; simp [emitFP]
  | cons t r ih =>
    intro exp z pt
    simp only [List.cons_append]
    rw [filterPoints_cons, emitFP_cons]
    simp only
    split
    · rw [ih]; simp
    · split
      · rw [ih]; simp
      · split
        · rw [ih]; simp
        · rw [ih]; simp

/-! ### filter_invalid_handles -/
def emitFH : Int → List RawTag → List RawTag × Int
  | hc, [] => ([], hc)
  | hc, t :: r =>
    if t.code == 0 then
      let p := emitFH (if s7 t.val == sDimstyle then 105 else 5) r
      (t :: p.1, p.2)
    else if t.code == hc then
      if (pyIntHex t.val).isSome then
        let p := emitFH hc r
        (t :: p.1, p.2)
      else emitFH hc r
    else
      let p := emitFH hc r
      (t :: p.1, p.2)

theorem filterHandles_cons (hc : Int) (t : RawTag) (r : List RawTag) :
    filterHandles hc (t :: r) =
      if t.code == 0 then t :: filterHandles (if s7 t.val == sDimstyle then 105 else 5) r
      else if t.code == hc then
        if (pyIntHex t.val).isSome then t :: filterHandles hc r else filterHandles hc r
      else t :: filterHandles hc r := by
  simp only [filterHandles]

theorem emitFH_cons (hc : Int) (t : RawTag) (r : List RawTag) :
    emitFH hc (t :: r) =
      if t.code == 0 then
        (t :: (emitFH (if s7 t.val == sDimstyle then 105 else 5) r).1, (emitFH (if s7 t.val == sDimstyle then 105 else 5) r).2)
      else if t.code == hc then
        if (pyIntHex t.val).isSome then (t :: (emitFH hc r).1, (emitFH hc r).2) else emitFH hc r
      else (t :: (emitFH hc r).1, (emitFH hc r).2) := by
  simp only [emitFH]

theorem filterHandles_append (P Q : List RawTag) : ∀ hc,
    filterHandles hc (P ++ Q) = (emitFH hc P).1 ++ filterHandles (emitFH hc P).2 Q := by
  induction P with
  | nil => intro hc; simp [emitFH]
  | cons t r ih =>
    intro hc
    simp only [List.cons_append]
    rw [filterHandles_cons, emitFH_cons]
    split
    · rw [ih]; simp
    · split
      · split
        · rw [ih]; simp
        · rw [ih]
      · rw [ih]; simp

/-! ### byte_tag_compiler -/
def emitC (cfg : Cfg) (enc : Enc) : CP → List RawTag → Except PyErr (List CTag × CP)
  | st, [] => .ok ([], st)
  | st, t :: r =>
    match compileStep cfg enc st t with
    | .error e => .error e
    | .ok (out, st') =>
      match emitC cfg enc st' r with
      | .error e => .error e
      | .ok (ts, st'') => .ok (out ++ ts, st'')

theorem compileGo_cons (cfg : Cfg) (enc : Enc) (st : CP) (t : RawTag) (r : List RawTag) :
    compileGo cfg enc st (t :: r) =
      (match compileStep cfg enc st t with
       | .error e => .error e
       | .ok (out, st') =>
         match compileGo cfg enc st' r with
         | .error e => .error e
         | .ok ts => .ok (out ++ ts)) := by
  cases st <;> rfl

theorem emitC_cons (cfg : Cfg) (enc : Enc) (st : CP) (t : RawTag) (r : List RawTag) :
    emitC cfg enc st (t :: r) =
      (match compileStep cfg enc st t with
       | .error e => .error e
       | .ok (out, st') =>
         match emitC cfg enc st' r with
         | .error e => .error e
         | .ok (ts, st'') => .ok (out ++ ts, st'')) := by
  conv => lhs; unfold emitC

theorem compileGo_append (cfg : Cfg) (enc : Enc) (P Q : List RawTag) : ∀ st,
    compileGo cfg enc st (P ++ Q) =
      (match emitC cfg enc st P with
       | .error e => .error e
       | .ok (out, st') =>
         match compileGo cfg enc st' Q with
         | .error e => .error e
         | .ok ts => .ok (out ++ ts)) := by
  induction P with
  | nil =>
    intro st
    simp only [List.nil_append, emitC]
    cases compileGo cfg enc st Q <;> simp
  | cons t r ih =>
    intro st
    simp only [List.cons_append]
    rw [compileGo_cons, emitC_cons]
    cases hstep : compileStep cfg enc st t with
    | error e => rfl
    | ok p =>
      obtain ⟨out, st'⟩ := p
      simp only
      rw [ih st']
      cases hem : emitC cfg enc st' r with
      | error e => rfl
      | ok q =>
        obtain ⟨ts, st''⟩ := q
        simp only
        cases compileGo cfg enc st'' Q with
        | error e => rfl
        | ok ts2 => simp

/-! ### the whole pipeline -/

/-- the compiled tags emitted once the raw tags `P` are consumed (no end-of-stream handling): a function of `P` alone -/
def emitted (cfg : Cfg) (enc : Enc) (P : List RawTag) : Except PyErr (List CTag) :=
  let a := emitTR none P
  let b := emitFP (-1) 0 [] a.1
  let c := emitFH 5 b.1
  (emitC cfg enc .none c.1).map (·.1)

/-- **causality**: whatever follows `P` in the raw tag stream (and however the stream ends), if the pipeline returns,
    its result starts with `emitted P` -/
theorem pipeline_causal (cfg : Cfg) (enc : Enc) (P Q : List RawTag) (err : Option PyErr) (T : List CTag)
    (h : compile cfg enc (repairTags ⟨P ++ Q, err⟩) = .ok T) :
    ∃ out rest, emitted cfg enc P = .ok out ∧ T = out ++ rest := by
  unfold compile repairTags at h
  simp only at h
  rw [tagReorder_append, filterPoints_append, filterHandles_append, compileGo_append] at h
  unfold emitted
  simp only
  cases hem : emitC cfg enc CP.none (emitFH 5 (emitFP (-1) 0 [] (emitTR none P).1).1).1 with
  | error e => rw [hem] at h; simp at h
  | ok p =>
    obtain ⟨out, st'⟩ := p
    rw [hem] at h
    simp only at h
    split at h
    · simp at h
    · next ts _ =>
      simp only [Except.ok.injEq] at h
      exact ⟨out, ts, rfl, h.symm⟩

/-! ### detect_encoding decides within a prefix -/
theorem detectGo_causal (cfg : Cfg) (P Q : List RawTag) (term' : Option PyErr) (enc : Enc) :
    ∀ (e : Option Nat) (v : Option Str) (nx : Nat),
      -- decided before the end of P (a stream that ENDS after P with an exception would raise it)
      detectGo cfg (some .dxfStructureError) e v nx P = .ok enc →
      detectGo cfg term' e v nx (P ++ Q) = .ok enc := by
  induction P with
  | nil =>
    intro e v nx h1
    simp [detectGo] at h1
  | cons t r ih =>
    intro e v nx h1
    simp only [List.cons_append]
    unfold detectGo at h1 ⊢
    cases hu : detectUpd cfg e v nx t with
    | error x => rw [hu] at h1; simp at h1
    | ok p =>
      obtain ⟨e', v', nx'⟩ := p
      rw [hu] at h1
      simp only at h1 ⊢
      cases hd : detectDone e' v' with
      | some res => rw [hd] at h1; simp only at h1 ⊢; exact h1
      | none =>
        rw [hd] at h1
        simp only at h1 ⊢
        exact ih e' v' nx' h1

/-! ### behind a fault: from the next (0, ..) tag on the pipeline runs as if the rest were a file of its own -/

/-- `tag_reorder_layer` at a (0, ..) tag: the pending LINE collector is flushed, the rest does not depend on it -/
theorem tagReorder_zero (col : Option (List RawTag)) (z : RawTag) (B : List RawTag) (hz : z.code = 0) :
    tagReorder col (z :: B) =
      (match col with | some c => fixCoordinateOrder c.reverse | none => []) ++ tagReorder none (z :: B) := by
  have h0 : (z.code == 0) = true := by simp [hz]
  rw [tagReorder_cons, tagReorder_cons]
  simp only [h0, if_true, List.nil_append]

/-- the tags in front of the first point-code tag -/
def headPart (r : List RawTag) : List RawTag := r.takeWhile (fun t => !isPointCode t.code)

/-- `filter_invalid_point_codes` with nothing pending: the stale `expected_code` only matters if a tag in front of the
    next point-code tag carries exactly that code -/
theorem filterPoints_stale (flush : Bool) (r : List RawTag) : ∀ (exp z : Int),
    (∀ t ∈ headPart r, t.code ≠ exp ∧ t.code ≠ -1) →
    filterPoints flush exp z [] r = filterPoints flush (-1) 0 [] r := by
  induction r with
  | nil => intro exp z _; simp [filterPoints]
  | cons t r ih =>
    intro exp z h
    rw [filterPoints_cons, filterPoints_cons]
    simp only [List.isEmpty_nil, Bool.not_true, Bool.false_and, Bool.false_eq_true, if_false, List.nil_append]
    by_cases hp : isPointCode t.code = true
    · simp [hp]
    · have hp' : isPointCode t.code = false := by simpa using hp
      have hmem : t ∈ headPart (t :: r) := by simp [headPart, hp']
      obtain ⟨h1, h2⟩ := h t hmem
      have e1 : (t.code == exp) = false := by simpa using h1
      have e2 : (t.code == -1) = false := by simpa using h2
      have hrest : ∀ u ∈ headPart r, u.code ≠ exp ∧ u.code ≠ -1 := by
        intro u hu
        apply h u
        simp only [headPart, List.takeWhile_cons, hp', Bool.not_false, if_true, List.mem_cons]
        exact Or.inr hu
      simp only [hp', Bool.false_eq_true, if_false, e1, e2]
      rw [ih exp z hrest]

/-- ... at a (0, ..) tag with an arbitrary state: a pending point is flushed (if it is at least 2D), the tag passes -/
theorem filterPoints_zero (flush : Bool) (exp zz : Int) (pt : List RawTag) (z : RawTag) (r : List RawTag)
    (hz : z.code = 0) (hexp : exp ≠ 0) :
    filterPoints flush exp zz pt (z :: r) =
      (if !pt.isEmpty && pt.length > 1 then pt.reverse else []) ++ z :: filterPoints flush exp zz [] r := by
  rw [filterPoints_cons]
  have hp : isPointCode z.code = false := by rw [hz]; decide
  have hi : isInvalidCode z.code = false := by rw [hz]; decide
  have he : (z.code == exp) = false := by rw [hz]; simpa using hexp.symm
  have hne : (z.code != exp) = true := by simp [bne, he]
  simp only [hp, he, hi, hne, Bool.and_true, Bool.false_eq_true, if_false, Bool.not_false, if_true]
  cases pt with
  | nil => simp
  | cons a b => simp

/-- the expected code is never 0: it is -1 or comes from a point code (all >= 10) by adding 10 -/
def ExpOk (exp : Int) : Prop := exp = -1 ∨ exp ≥ 9

theorem pointCodes_ge : ∀ c : Int, isPointCode c = true → c ≥ 10 := by
  intro c h
  unfold isPointCode at h
  simp only [Bool.and_eq_true, decide_eq_true_eq] at h
  have hall : pointCodes.all (fun p => p ≥ 10) = true := by decide
  have := List.all_eq_true.1 hall c.toNat (by simpa using h.2)
  simp only [decide_eq_true_eq] at this
  omega

theorem emitFP_expOk (P : List RawTag) : ∀ exp z pt, ExpOk exp → ExpOk (emitFP exp z pt P).2.exp := by
  induction P with
  | nil => intro exp z pt h; simpa [emitFP] using h
  | cons t r ih =>
    intro exp z pt h
    rw [emitFP_cons]
    simp only
    split
    · next hp =>
      apply ih
      right
      have := pointCodes_ge t.code hp
      omega
    · split
      · apply ih
        split
        · left; rfl
        · right
          rcases h with h | h
          · omega
          · omega
      · split
        · exact ih _ _ _ h
        · exact ih _ _ _ h

theorem filterHandles_zero (hc : Int) (z : RawTag) (r : List RawTag) (hz : z.code = 0) :
    filterHandles hc (z :: r) = filterHandles 5 (z :: r) := by
  have h0 : (z.code == 0) = true := by simp [hz]
  rw [filterHandles_cons, filterHandles_cons]
  simp only [h0, if_true]

/-- the pending point of `byte_tag_compiler` always starts with a point code -/
def CPOk : CP → Prop
  | .none => True
  | .x x => isPointCode x.code = true
  | .xy x _ => isPointCode x.code = true

theorem compileStart_ok (cfg : Cfg) (enc : Enc) (t : RawTag) (out : List CTag) (st : CP)
    (h : compileStart cfg enc t = .ok (out, st)) : CPOk st := by
  unfold compileStart at h
  split at h
  · next hp => simp only [Except.ok.injEq, Prod.mk.injEq] at h; rw [← h.2]; exact hp
  · split at h
    · simp at h
    · simp only [Except.ok.injEq, Prod.mk.injEq] at h; rw [← h.2]; trivial

theorem compileStep_ok (cfg : Cfg) (enc : Enc) (st st' : CP) (t : RawTag) (out : List CTag) (hst : CPOk st)
    (h : compileStep cfg enc st t = .ok (out, st')) : CPOk st' := by
  unfold compileStep at h
  cases st with
  | none => exact compileStart_ok cfg enc t out st' h
  | x x0 =>
    simp only at h
    split at h
    · simp at h
    · simp only [Except.ok.injEq, Prod.mk.injEq] at h; rw [← h.2]; exact hst
  | xy x0 y0 =>
    simp only at h
    split at h
    · split at h
      · simp only [Except.ok.injEq, Prod.mk.injEq] at h; rw [← h.2]; trivial
      · simp at h
    · split at h
      · cases hcs : compileStart cfg enc t with
        | error e => rw [hcs] at h; simp at h
        | ok p =>
          rw [hcs] at h
          simp only [Except.ok.injEq, Prod.mk.injEq] at h
          rw [← h.2]
          exact compileStart_ok cfg enc t p.1 p.2 (by rw [hcs])
      · simp at h

theorem emitC_ok (cfg : Cfg) (enc : Enc) (P : List RawTag) : ∀ (st st' : CP) (out : List CTag), CPOk st →
    emitC cfg enc st P = .ok (out, st') → CPOk st' := by
  induction P with
  | nil => intro st st' out hst h; simp only [emitC, Except.ok.injEq, Prod.mk.injEq] at h; rw [← h.2]; exact hst
  | cons t r ih =>
    intro st st' out hst h
    rw [emitC_cons] at h
    cases hstep : compileStep cfg enc st t with
    | error e => rw [hstep] at h; simp at h
    | ok p =>
      obtain ⟨o1, s1⟩ := p
      rw [hstep] at h
      simp only at h
      cases hem : emitC cfg enc s1 r with
      | error e => rw [hem] at h; simp at h
      | ok q =>
        obtain ⟨o2, s2⟩ := q
        rw [hem] at h
        simp only [Except.ok.injEq, Prod.mk.injEq] at h
        rw [← h.2]
        exact ih s1 s2 o2 (compileStep_ok cfg enc st s1 t o1 hst hstep) hem

/-- `byte_tag_compiler` at a (0, ..) tag: a pending 2D point is emitted, then it continues as from the start -/
theorem compileGo_zero (cfg : Cfg) (enc : Enc) (st : CP) (hst : CPOk st) (z : RawTag) (r : List RawTag)
    (hz : z.code = 0) (ts : List CTag) (h : compileGo cfg enc st (z :: r) = .ok ts) :
    ∃ pre ts0, ts = pre ++ ts0 ∧ compileGo cfg enc .none (z :: r) = .ok ts0 := by
  cases st with
  | none => exact ⟨[], ts, rfl, h⟩
  | x x0 =>
    exfalso
    have hge := pointCodes_ge x0.code hst
    rw [compileGo_cons] at h
    have hne : (z.code != x0.code + 10) = true := by
      rw [hz]; simp only [bne_iff_ne, ne_eq]; omega
    simp [compileStep, hne] at h
  | xy x0 y0 =>
    have hge := pointCodes_ge x0.code hst
    rw [compileGo_cons] at h
    have hne : (z.code == x0.code + 20) = false := by
      rw [hz]; simp only [beq_eq_false_iff_ne, ne_eq]; omega
    simp only [compileStep, hne, Bool.false_eq_true, if_false] at h
    by_cases hf : floatsOk [x0.val, y0.val] = true
    · simp only [hf, if_true] at h
      cases hcs : compileStart cfg enc z with
      | error e => rw [hcs] at h; simp at h
      | ok p =>
        rw [hcs] at h
        simp only at h
        cases hgo : compileGo cfg enc p.2 r with
        | error e => rw [hgo] at h; simp at h
        | ok rest =>
          rw [hgo] at h
          simp only [Except.ok.injEq] at h
          refine ⟨[⟨x0.code, .vtx⟩], p.1 ++ rest, by rw [← h]; simp, ?_⟩
          rw [compileGo_cons]
          simp only [compileStep, hcs, hgo]
    · simp [hf] at h

theorem fixCoordinateOrder_head (z : RawTag) (body : List RawTag) (hz : z.code = 0) :
    ∃ r', fixCoordinateOrder (z :: body) = z :: r' := by
  have hzc : isCoordCode z.code = false := by rw [hz]; decide
  unfold fixCoordinateOrder
  simp only
  split
  · exact ⟨body, rfl⟩
  · simp only [List.filter_cons, hzc, Bool.not_false, if_true, Bool.false_eq_true, if_false, List.takeWhile_cons,
      List.length_cons, List.take_succ_cons, List.cons_append]
    exact ⟨_, rfl⟩

theorem tagReorder_some_shape (z : RawTag) (hz : z.code = 0) (B : List RawTag) : ∀ (c m : List RawTag),
    c.reverse = z :: m → tagReorder (some c) B = [] ∨ ∃ r', tagReorder (some c) B = z :: r' := by
  induction B with
  | nil => intro c m _; left; simp [tagReorder]
  | cons t r ih =>
    intro c m hc
    rw [tagReorder_cons]
    by_cases h0 : (t.code == 0) = true
    · right
      simp only [h0, if_true]
      obtain ⟨r', hr'⟩ := fixCoordinateOrder_head z m hz
      rw [hc, hr']
      exact ⟨_, rfl⟩
    · have h0' : (t.code == 0) = false := by simpa using h0
      simp only [h0', Bool.false_eq_true, if_false]
      exact ih (t :: c) (m ++ [t]) (by simp [hc])

theorem tagReorder_none_zero_shape (z : RawTag) (hz : z.code = 0) (B : List RawTag) :
    tagReorder none (z :: B) = [] ∨ ∃ r', tagReorder none (z :: B) = z :: r' := by
  have h0 : (z.code == 0) = true := by simp [hz]
  rw [tagReorder_cons]
  simp only [h0, if_true, List.nil_append]
  split
  · exact tagReorder_some_shape z hz B [z] [] rfl
  · right; exact ⟨_, rfl⟩

/-- the `expected_code` that `filter_invalid_point_codes` still holds when the raw tags `P` (and the flush of a pending
    LINE collector) have passed -/
def staleExp (P : List RawTag) : Int :=
  (emitFP (-1) 0 [] ((emitTR none P).1 ++
    (match (emitTR none P).2 with | some c => fixCoordinateOrder c.reverse | none => []))).2.exp

/-- **behind a damaged region**: `P` = everything up to a (0, ..) tag `z`, `B` = the rest.  If no tag between `z` and the
    next point-code tag carries the stale expected code (or the code -1), the result of the pipeline ends with exactly the
    compiled tags of `z :: B` taken as a stream of its own -/
theorem pipeline_split (cfg : Cfg) (enc : Enc) (P B : List RawTag) (z : RawTag) (hz : z.code = 0)
    (err : Option PyErr) (T : List CTag)
    (hstale : ∀ t ∈ headPart (tagReorder none (z :: B)).tail, t.code ≠ staleExp P ∧ t.code ≠ -1)
    (h : compile cfg enc (repairTags ⟨P ++ z :: B, err⟩) = .ok T) :
    ∃ M S, T = M ++ S ∧ compile cfg enc (repairTags ⟨z :: B, err⟩) = .ok S := by
  unfold compile repairTags at h ⊢
  simp only at h ⊢
  rw [tagReorder_append, tagReorder_zero _ z B hz, ← List.append_assoc, filterPoints_append] at h
  unfold staleExp at hstale
  generalize hP1 : (emitTR none P).1 ++ (match (emitTR none P).2 with | some c => fixCoordinateOrder c.reverse | none => []) = P1 at h hstale
  have hexp : ExpOk (emitFP (-1) 0 [] P1).2.exp := emitFP_expOk P1 (-1) 0 [] (Or.inl rfl)
  generalize hst : (emitFP (-1) 0 [] P1).2 = st at h hstale hexp
  generalize hb1 : (emitFP (-1) 0 [] P1).1 = b1 at h
  rcases tagReorder_none_zero_shape z hz B with hQ | ⟨r', hQ⟩
  · -- the rest is a LINE that is never flushed: nothing follows
    rw [hQ] at h ⊢
    refine ⟨T, [], by simp, ?_⟩
    simp [filterPoints, filterHandles, compileGo]
  · rw [hQ] at h hstale ⊢
    simp only [List.tail_cons] at hstale
    have hne : st.exp ≠ 0 := by
      rcases hexp with h1 | h1 <;> omega
    rw [filterPoints_zero _ _ _ _ z r' hz hne, filterPoints_stale _ r' st.exp st.z hstale] at h
    have hback : filterPoints err.isNone (-1) 0 [] (z :: r') = z :: filterPoints err.isNone (-1) 0 [] r' := by
      rw [filterPoints_zero _ _ _ _ z r' hz (by decide)]
      simp
    rw [hback]
    rw [← List.append_assoc, filterHandles_append, filterHandles_zero _ z _ hz, compileGo_append] at h
    cases hem : emitC cfg enc CP.none (emitFH 5 (b1 ++ if (!st.pt.isEmpty && decide (st.pt.length > 1)) = true then st.pt.reverse else [])).1 with
    | error e => rw [hem] at h; simp at h
    | ok q =>
      obtain ⟨out, cst⟩ := q
      rw [hem] at h
      simp only at h
      have hcok : CPOk cst := emitC_ok cfg enc _ CP.none cst out trivial hem
      rw [filterHandles_cons] at h ⊢
      have h0 : (z.code == 0) = true := by simp [hz]
      simp only [h0, if_true] at h ⊢
      cases hgo : compileGo cfg enc cst (z :: filterHandles (if (s7 z.val == sDimstyle) = true then 105 else 5)
          (filterPoints err.isNone (-1) 0 [] r')) with
      | error e => rw [hgo] at h; simp at h
      | ok ts =>
        rw [hgo] at h
        simp only [Except.ok.injEq] at h
        obtain ⟨pre, ts0, e1, e2⟩ := compileGo_zero cfg enc cst hcok z _ hz ts hgo
        exact ⟨out ++ pre, ts0, by rw [← h, e1]; simp, e2⟩

/-! ### bytes → raw tags for faults that keep the line pairing -/

/-- a physical line: content without LF, then LF -/
def IsLine (l : Bytes) : Prop := ∃ c, l = c ++ [10] ∧ ∀ b ∈ c, b ≠ 10

theorem splitLinesAux_line (c : Bytes) (hc : ∀ b ∈ c, b ≠ 10) (rest : Bytes) : ∀ cur : Bytes,
    splitLinesAux cur (c ++ [10] ++ rest) = (cur.reverse ++ c ++ [10]) :: splitLinesAux [] rest := by
  induction c with
  | nil =>
    intro cur
    simp only [List.nil_append, List.cons_append]
    conv => lhs; unfold splitLinesAux
    simp
  | cons b r ih =>
    intro cur
    have hb : (b == 10) = false := by simpa using hc b (by simp)
    simp only [List.cons_append]
    conv => lhs; unfold splitLinesAux
    simp only [hb, Bool.false_eq_true, if_false]
    have := ih (fun x hx => hc x (by simp [hx])) (b :: cur)
    simp only [List.append_assoc, List.cons_append, List.nil_append] at this ⊢
    rw [this]
    simp

theorem splitLines_lines (ls : List Bytes) (hl : ∀ l ∈ ls, IsLine l) (rest : Bytes) :
    splitLines (ls.flatten ++ rest) = ls ++ splitLines rest := by
  induction ls with
  | nil => simp
  | cons l r ih =>
    obtain ⟨c, rfl, hc⟩ := hl l (by simp)
    unfold splitLines at ih ⊢
    simp only [List.flatten_cons, List.append_assoc]
    have := splitLinesAux_line c hc (r.flatten ++ rest) []
    simp only [List.append_assoc, List.reverse_nil, List.nil_append] at this
    rw [this, ih (fun x hx => hl x (by simp [hx]))]
    simp

/-- a chunk of the file: complete (code line, value line) pairs whose codes parse and that hold no (0, EOF) tag -/
def PairOk (p : Bytes × Bytes) : Prop :=
  IsLine p.1 ∧ IsLine p.2 ∧ ∃ code, parseCode p.1 = some code ∧ ¬(code = 0 ∧ rstripCRLF p.2 = sEof)

def chunkLines (ps : List (Bytes × Bytes)) : List Bytes := ps.flatMap (fun p => [p.1, p.2])
def chunkBytes (ps : List (Bytes × Bytes)) : Bytes := (chunkLines ps).flatten

/-- the raw tags `bytes_loader` makes of a chunk (comments, code 999, are skipped) -/
def chunkTags (ps : List (Bytes × Bytes)) : List RawTag :=
  ps.filterMap (fun p => match parseCode p.1 with
    | some code => if code != 999 then some ⟨code, rstripCRLF p.2⟩ else none
    | none => none)

theorem chunkTags_cons (p : Bytes × Bytes) (r : List (Bytes × Bytes)) (code : Int) (hcode : parseCode p.1 = some code) :
    chunkTags (p :: r) = (if code != 999 then [⟨code, rstripCRLF p.2⟩] else []) ++ chunkTags r := by
  unfold chunkTags
  rw [List.filterMap_cons]
  simp only [hcode]
  cases h : code != 999 <;> simp

theorem bytesLoader_chunk (ps : List (Bytes × Bytes)) (hp : ∀ p ∈ ps, PairOk p) (rest : List Bytes) :
    bytesLoader (chunkLines ps ++ rest) = ⟨chunkTags ps ++ (bytesLoader rest).tags, (bytesLoader rest).err⟩ := by
  induction ps with
  | nil => simp [chunkLines, chunkTags]
  | cons p r ih =>
    obtain ⟨_, _, code, hcode, hne⟩ := hp p (by simp)
    have ih' := ih (fun x hx => hp x (by simp [hx]))
    have hl : chunkLines (p :: r) ++ rest = p.1 :: p.2 :: (chunkLines r ++ rest) := by simp [chunkLines]
    rw [hl]
    conv => lhs; unfold bytesLoader
    simp only [hcode]
    have heof : (code == 0 && rstripCRLF p.2 == sEof) = false := by
      cases h1 : code == 0
      · simp
      · cases h2 : rstripCRLF p.2 == sEof
        · simp
        · exact absurd ⟨eq_of_beq h1, eq_of_beq h2⟩ hne
    simp only [heof, Bool.false_eq_true, if_false]
    rw [ih']
    rw [chunkTags_cons p r code hcode]
    by_cases h9 : (code != 999) = true
    · simp [h9]
    · have h9' : (code != 999) = false := by simpa using h9
      simp [h9']

theorem isLine_chunk (ps : List (Bytes × Bytes)) (hp : ∀ p ∈ ps, PairOk p) : ∀ l ∈ chunkLines ps, IsLine l := by
  intro l hl
  unfold chunkLines at hl
  obtain ⟨p, hpm, hlp⟩ := List.mem_flatMap.1 hl
  obtain ⟨h1, h2, _⟩ := hp p hpm
  simp only [List.mem_cons, List.not_mem_nil, or_false] at hlp
  rcases hlp with rfl | rfl
  · exact h1
  · exact h2

/-- **bytes → raw tags**: a file made of the chunks `psA`, `psE` and the rest `bB` is loaded as the raw tags of the two
    chunks followed by the raw tags of the rest -/
theorem loader_region (psA psE : List (Bytes × Bytes)) (hA : ∀ p ∈ psA, PairOk p) (hE : ∀ p ∈ psE, PairOk p) (bB : Bytes) :
    bytesLoader (splitLines (chunkBytes psA ++ chunkBytes psE ++ bB)) =
      ⟨chunkTags psA ++ chunkTags psE ++ (bytesLoader (splitLines bB)).tags, (bytesLoader (splitLines bB)).err⟩ := by
  unfold chunkBytes
  rw [List.append_assoc, splitLines_lines _ (isLine_chunk psA hA), splitLines_lines _ (isLine_chunk psE hE),
    bytesLoader_chunk psA hA, bytesLoader_chunk psE hE]
  simp

/-! ### faults that break the pairing of code and value lines: the loader stops at the first non-integer "code" line -/

theorem bytesLoader_bad (bad : Bytes) (h : parseCode bad = none) (rest : List Bytes) :
    bytesLoader (bad :: rest) = ⟨[], some .dxfStructureError⟩ := by
  cases rest with
  | nil => simp [bytesLoader, h]
  | cons v r => simp [bytesLoader, h]

/-- a line sequence that holds well-formed pairs and then, at a CODE position, a line that is no integer: `bytes_loader`
    delivers the tags of the pairs and raises DXFStructureError there, whatever follows -/
theorem loader_stops (ps : List (Bytes × Bytes)) (hp : ∀ p ∈ ps, PairOk p) (bad : Bytes) (h : parseCode bad = none)
    (rest : List Bytes) :
    bytesLoader (chunkLines ps ++ bad :: rest) = ⟨chunkTags ps, some .dxfStructureError⟩ := by
  rw [bytesLoader_chunk ps hp, bytesLoader_bad bad h]
  simp

/-- the tag stream ended with an exception: `Recover.load_tags` (consumed completely) cannot return -/
theorem loadTags_not_ok (cfg : Cfg) (bytes : Bytes) (e : PyErr) (h : (bytesLoader (splitLines bytes)).err = some e)
    (T : List CTag) : loadTags cfg bytes ≠ .ok T := by
  unfold loadTags
  simp only
  cases detectEncoding cfg (bytesLoader (splitLines bytes)) with
  | error x => simp
  | ok enc =>
    simp only
    cases compile cfg enc (repairTags (bytesLoader (splitLines bytes))) with
    | error x => simp
    | ok ts => simp [h]

/-- every tag `bytes_loader` yields consumes two lines: the output is bounded by the input (no loop can run away) -/
theorem loader_bounded : ∀ ls : List Bytes, 2 * (bytesLoader ls).tags.length ≤ ls.length
  | [] => by simp [bytesLoader]
  | [c] => by
    simp only [bytesLoader]
    split <;> simp
  | c :: v :: rest => by
    have ih := loader_bounded rest
    simp only [bytesLoader]
    split
    · simp
    · split
      · split <;> simp <;> omega
      · split <;> simp <;> omega

/-- re-pairing after a lost VALUE line: the code line `c` now takes the next code line as its value, every following
    value line stands at a code position -/
def shiftPairs (c : Bytes) : List (Bytes × Bytes) → List (Bytes × Bytes) × Bytes
  | [] => ([], c)
  | (c1, v1) :: r => let p := shiftPairs v1 r; ((c, c1) :: p.1, p.2)

theorem shift_lines (ps : List (Bytes × Bytes)) : ∀ c : Bytes,
    c :: chunkLines ps = chunkLines (shiftPairs c ps).1 ++ [(shiftPairs c ps).2] := by
  induction ps with
  | nil => intro c; simp [shiftPairs, chunkLines]
  | cons p r ih =>
    intro c
    obtain ⟨c1, v1⟩ := p
    have := ih v1
    simp only [chunkLines, List.flatMap_cons, List.cons_append, List.nil_append, shiftPairs] at this ⊢
    rw [this]

/-! ### complete classification of `bytes_loader` on an arbitrary line list -/

/-- a (code line, value line) pair the loader passes: the code parses and the pair is not (0, EOF) -/
def CodeOk (p : Bytes × Bytes) : Prop := ∃ code, parseCode p.1 = some code ∧ ¬(code = 0 ∧ rstripCRLF p.2 = sEof)

theorem bytesLoader_chunk' (ps : List (Bytes × Bytes)) (hp : ∀ p ∈ ps, CodeOk p) (rest : List Bytes) :
    bytesLoader (chunkLines ps ++ rest) = ⟨chunkTags ps ++ (bytesLoader rest).tags, (bytesLoader rest).err⟩ := by
  induction ps with
  | nil => simp [chunkLines, chunkTags]
  | cons p r ih =>
    obtain ⟨code, hcode, hne⟩ := hp p (by simp)
    have ih' := ih (fun x hx => hp x (by simp [hx]))
    have hl : chunkLines (p :: r) ++ rest = p.1 :: p.2 :: (chunkLines r ++ rest) := by simp [chunkLines]
    rw [hl]
    conv => lhs; unfold bytesLoader
    simp only [hcode]
    have heof : (code == 0 && rstripCRLF p.2 == sEof) = false := by
      cases h1 : code == 0
      · simp
      · cases h2 : rstripCRLF p.2 == sEof
        · simp
        · exact absurd ⟨eq_of_beq h1, eq_of_beq h2⟩ hne
    simp only [heof, Bool.false_eq_true, if_false]
    rw [ih', chunkTags_cons p r code hcode]
    by_cases h9 : (code != 999) = true
    · simp [h9]
    · have h9' : (code != 999) = false := by simpa using h9
      simp [h9']

/-- how a run of `bytes_loader` ends -/
inductive LoaderEnd where
  | endOfLines                 -- the lines are used up (possibly one unpaired last line whose code parses)
  | eofTag                     -- a (0, EOF) tag: it is yielded, nothing behind it is read
  | badCode                    -- a line at a code position without an integer: DXFStructureError
  deriving DecidableEq, Repr

/-- **classification**: every line list is  pairs ++ tail ; the loader yields exactly the tags of the pairs (plus the EOF
    tag) and ends in one of three ways, determined by the tail -/
theorem loader_classification : ∀ ls : List Bytes, ∃ (ps : List (Bytes × Bytes)) (tail : List Bytes) (e : LoaderEnd),
    (∀ p ∈ ps, CodeOk p) ∧ ls = chunkLines ps ++ tail ∧
    (match e with
     | .endOfLines => (tail = [] ∨ ∃ c, tail = [c] ∧ (parseCode c).isSome = true) ∧ bytesLoader ls = ⟨chunkTags ps, none⟩
     | .eofTag => (∃ c v rest, tail = c :: v :: rest ∧ parseCode c = some 0 ∧ rstripCRLF v = sEof) ∧
         bytesLoader ls = ⟨chunkTags ps ++ [⟨0, sEof⟩], none⟩
     | .badCode => (∃ c rest, tail = c :: rest ∧ parseCode c = none) ∧ bytesLoader ls = ⟨chunkTags ps, some .dxfStructureError⟩)
  | [] => ⟨[], [], .endOfLines, by simp, by simp [chunkLines], by simp [bytesLoader, chunkTags]⟩
  | [c] => by
    cases h : parseCode c with
    | none => exact ⟨[], [c], .badCode, by simp, by simp [chunkLines], ⟨c, [], rfl, h⟩, by simp [bytesLoader, h, chunkTags]⟩
    | some code =>
      exact ⟨[], [c], .endOfLines, by simp, by simp [chunkLines], Or.inr ⟨c, rfl, by simp [h]⟩, by simp [bytesLoader, h, chunkTags]⟩
  | c :: v :: rest => by
    cases h : parseCode c with
    | none =>
      exact ⟨[], c :: v :: rest, .badCode, by simp, by simp [chunkLines], ⟨c, v :: rest, rfl, h⟩,
        by simp [bytesLoader, h, chunkTags]⟩
    | some code =>
      by_cases heof : code = 0 ∧ rstripCRLF v = sEof
      · obtain ⟨h0, hv⟩ := heof
        subst h0
        refine ⟨[], c :: v :: rest, .eofTag, by simp, by simp [chunkLines], ⟨c, v, rest, rfl, h, hv⟩, ?_⟩
        simp [bytesLoader, h, hv, chunkTags]
      · obtain ⟨ps, tail, e, hps, hls, hcase⟩ := loader_classification rest
        have hok : CodeOk (c, v) := ⟨code, h, heof⟩
        have hall : ∀ p ∈ (c, v) :: ps, CodeOk p := by
          intro p hp
          rcases List.mem_cons.1 hp with rfl | hp
          · exact hok
          · exact hps p hp
        have hlines : c :: v :: rest = chunkLines ((c, v) :: ps) ++ tail := by
          rw [hls]; simp [chunkLines]
        have hrun : bytesLoader (c :: v :: rest)
            = ⟨chunkTags [(c, v)] ++ (bytesLoader rest).tags, (bytesLoader rest).err⟩ := by
          have := bytesLoader_chunk' [(c, v)] (by intro p hp; simp only [List.mem_singleton] at hp; rw [hp]; exact hok) rest
          simpa [chunkLines] using this
        have hct : chunkTags ((c, v) :: ps) = chunkTags [(c, v)] ++ chunkTags ps := by
          simp [chunkTags, List.filterMap_cons]
          cases parseCode c <;> simp
          split <;> simp
        refine ⟨(c, v) :: ps, tail, e, hall, hlines, ?_⟩
        cases e with
        | endOfLines => exact ⟨hcase.1, by rw [hrun, hcase.2, hct]⟩
        | eofTag => exact ⟨hcase.1, by rw [hrun, hcase.2, hct]; simp⟩
        | badCode => exact ⟨hcase.1, by rw [hrun, hcase.2, hct]⟩

/-! ### `byte_tag_compiler` never yields more tags than it reads -/
def credit : CP → Nat
  | .none => 0
  | .x _ => 1
  | .xy _ _ => 2

theorem compileStart_len (cfg : Cfg) (enc : Enc) (t : RawTag) (out : List CTag) (st : CP)
    (h : compileStart cfg enc t = .ok (out, st)) : out.length + credit st ≤ 1 := by
  unfold compileStart at h
  split at h
  · simp only [Except.ok.injEq, Prod.mk.injEq] at h; rw [← h.1, ← h.2]; simp [credit]
  · split at h
    · simp at h
    · simp only [Except.ok.injEq, Prod.mk.injEq] at h; rw [← h.1, ← h.2]; simp [credit]

theorem compileStep_len (cfg : Cfg) (enc : Enc) (st st' : CP) (t : RawTag) (out : List CTag)
    (h : compileStep cfg enc st t = .ok (out, st')) : out.length + credit st' ≤ 1 + credit st := by
  unfold compileStep at h
  cases st with
  | none =>
    have := compileStart_len cfg enc t out st' h
    show out.length + credit st' ≤ 1 + 0
    omega
  | x x0 =>
    simp only at h
    split at h
    · simp at h
    · simp only [Except.ok.injEq, Prod.mk.injEq] at h; rw [← h.1, ← h.2]; simp [credit]
  | xy x0 y0 =>
    simp only at h
    split at h
    · split at h
      · simp only [Except.ok.injEq, Prod.mk.injEq] at h; rw [← h.1, ← h.2]; simp [credit]
      · simp at h
    · split at h
      · cases hcs : compileStart cfg enc t with
        | error e => rw [hcs] at h; simp at h
        | ok p =>
          rw [hcs] at h
          simp only [Except.ok.injEq, Prod.mk.injEq] at h
          have := compileStart_len cfg enc t p.1 p.2 (by rw [hcs])
          rw [← h.1, ← h.2]
          show (p.1.length + 1) + credit p.2 ≤ 1 + 2
          omega
      · simp at h

theorem compileGo_bounded (cfg : Cfg) (enc : Enc) (l : List RawTag) : ∀ (st : CP) (T : List CTag),
    compileGo cfg enc st l = .ok T → T.length ≤ l.length + credit st := by
  induction l with
  | nil =>
    intro st T h
    cases st with
    | none => simp [compileGo] at h; simp [h]
    | x a => simp [compileGo] at h; simp [h]
    | xy a b =>
      simp only [compileGo] at h
      split at h
      · simp only [Except.ok.injEq] at h; rw [← h]; simp [credit]
      · simp at h
  | cons t r ih =>
    intro st T h
    rw [compileGo_cons] at h
    cases hstep : compileStep cfg enc st t with
    | error e => rw [hstep] at h; simp at h
    | ok p =>
      obtain ⟨out, st'⟩ := p
      rw [hstep] at h
      simp only at h
      cases hgo : compileGo cfg enc st' r with
      | error e => rw [hgo] at h; simp at h
      | ok ts =>
        rw [hgo] at h
        simp only [Except.ok.injEq] at h
        have h1 := compileStep_len cfg enc st st' t out hstep
        have h2 := ih st' ts hgo
        rw [← h]
        simp only [List.length_append, List.length_cons]
        omega

end EzdxfVerif.Lemmas.RecoverCausal

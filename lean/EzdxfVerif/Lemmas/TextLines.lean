/-
Line ending helpers and `plain_text` (TEXT/ATTRIB) laws (lemmas for Props/C20).
-/
import EzdxfVerif.Lemmas.TextEditor
namespace EzdxfVerif.Text

theorem escape_chars (s : Str) : ∀ c ∈ escapeLineEndings s, c ≠ '\n' ∧ c ≠ '\r' := by
  induction s with
  | nil => simp [escapeLineEndings]
  | cons a t ih =>
    simp only [escapeLineEndings]
    split
    · exact ih
    · split
      · intro c hc
        simp only [List.mem_cons] at hc
        rcases hc with rfl | rfl | hc
        · decide
        · decide
        · exact ih c hc
      · rename_i h1 h2
        intro c hc
        simp only [List.mem_cons] at hc
        rcases hc with rfl | hc
        · exact ⟨h2, h1⟩
        · exact ih c hc

theorem escape_id (s : Str) (h : ∀ c ∈ s, c ≠ '\n' ∧ c ≠ '\r') : escapeLineEndings s = s := by
  induction s with
  | nil => rfl
  | cons a t ih =>
    have ha := h a (by simp)
    simp only [escapeLineEndings, ha.1, ha.2, ↓reduceIte]
    rw [ih (fun x hx => h x (by simp [hx]))]

/-- lines of plain characters: after `escape_dxf_line_endings` the content is in the agreement class and
    the fast decoder returns the text without CR -/
theorem escape_class_fast (sp : Special) (s : Str) (h : ∀ c ∈ s, isPlain c = true ∨ c = '\n' ∨ c = '\r') :
    caretDecode (escapeLineEndings s) = escapeLineEndings s ∧
    agreeClass sp (escapeLineEndings s) = true ∧
    fastLoop sp (escapeLineEndings s) = s.filter (· ≠ '\r') := by
  induction s with
  | nil => simp [escapeLineEndings, caretDecode, fastLoop_nil]; rw [agreeClass.eq_def]
  | cons a t ih =>
    obtain ⟨i1, i2, i3⟩ := ih (fun x hx => h x (by simp [hx]))
    simp only [escapeLineEndings]
    by_cases hr : a = '\r'
    · subst hr
      simp only [↓reduceIte]
      refine ⟨i1, i2, ?_⟩
      rw [i3]; simp
    · simp only [hr, ↓reduceIte]
      by_cases hn : a = '\n'
      · subst hn
        simp only [↓reduceIte]
        refine ⟨?_, ?_, ?_⟩
        · have := caretDecode_append_nocaret ['\\', 'P'] (escapeLineEndings t) (by simp)
          simpa [i1] using this
        · rw [agree_one sp 'P' _ (Or.inl rfl)]; exact i2
        · rw [fastLoop_P, i3]; simp
      · simp only [hn, ↓reduceIte]
        have hp : isPlain a = true := by
          rcases h a (by simp) with hp | hp | hp
          · exact hp
          · exact absurd hp hn
          · exact absurd hp hr
        obtain ⟨h0, h1, h2, h3, h4, h5⟩ := isPlain_spec hp
        refine ⟨?_, ?_, ?_⟩
        · have := caretDecode_append_nocaret [a] (escapeLineEndings t) (by simpa using h5)
          simpa [i1] using this
        · rw [agree_copy sp a _ h1 h2 h3 h4, i2]; simp [h0]
        · rw [fastLoop_copy sp a _ h1 h2 h3 h4, i3]; simp [hr]

/-! ### `fix_one_line_text` / `is_valid_one_line_text` -/

theorem rstripCaret_last (s : Str) : (rstripCaret s).getLast? ≠ some '^' := by
  unfold rstripCaret
  rw [List.getLast?_reverse]
  intro h
  have := List.head?_dropWhile_not (fun c => decide (c = '^')) s.reverse
  rw [h] at this
  simp at this

theorem rstripCaret_id (s : Str) (h : s.getLast? ≠ some '^') : rstripCaret s = s := by
  unfold rstripCaret
  have : s.reverse.dropWhile (fun c => decide (c = '^')) = s.reverse := by
    cases hr : s.reverse with
    | nil => rfl
    | cons a t =>
      have ha : a ≠ '^' := by
        intro ha
        apply h
        have : s.getLast? = s.reverse.head? := by rw [List.head?_reverse]
        rw [this, hr, ha]; rfl
      simp [List.dropWhile, ha]
  rw [this, List.reverse_reverse]

theorem rstripCaret_mem (s : Str) : ∀ c ∈ rstripCaret s, c ∈ s := by
  unfold rstripCaret
  intro c hc
  have := List.mem_reverse.mp hc
  have := (List.dropWhile_sublist _).subset this
  exact List.mem_reverse.mp this

theorem fixOneLine_valid (s : Str) : isValidOneLine (fixOneLine s) = true := by
  unfold isValidOneLine fixOneLine
  simp only [Bool.and_eq_true, List.all_eq_true, bne_iff_ne, ne_eq]
  refine ⟨?_, by simpa using rstripCaret_last _⟩
  intro c hc
  have := rstripCaret_mem _ c hc
  simp only [List.mem_filter, decide_eq_true_eq] at this
  exact ⟨this.1.2, this.2⟩

theorem fixOneLine_id (s : Str) (h : isValidOneLine s = true) : fixOneLine s = s := by
  unfold isValidOneLine at h
  simp only [Bool.and_eq_true, List.all_eq_true, bne_iff_ne, ne_eq] at h
  unfold fixOneLine
  have h1 : s.filter (fun c => decide (c ≠ '\n')) = s := List.filter_eq_self.mpr (fun c hc => by simpa using (h.1 c hc).1)
  have h2 : s.filter (fun c => decide (c ≠ '\r')) = s := List.filter_eq_self.mpr (fun c hc => by simpa using (h.1 c hc).2)
  rw [h1, h2]
  exact rstripCaret_id s (by simpa using h.2)

/-! ### `plain_text` -/

theorem plainTextLoop_id (sp : Special) (kou : Char → Bool) (s : Str) (h : ∀ c ∈ s, c ≠ '%') :
    plainTextLoop sp kou s = s := by
  induction s with
  | nil => rw [plainTextLoop.eq_def]
  | cons a t ih =>
    rw [plainTextLoop.eq_def]
    simp only [h a (by simp), ↓reduceIte]
    rw [ih (fun x hx => h x (by simp [hx]))]

theorem plainTextLoop_special (sp : Special) (kou : Char → Bool) (code l : Char) (r : Str) (h : sp code = some l) :
    plainTextLoop sp kou ('%' :: '%' :: code :: r) = l :: plainTextLoop sp kou r := by
  conv => lhs; rw [plainTextLoop.eq_def]
  simp [h]

theorem plainTextLoop_format (sp : Special) (kou : Char → Bool) (code : Char) (r : Str)
    (h : sp code = none) (hk : kou code = true) :
    plainTextLoop sp kou ('%' :: '%' :: code :: r) = plainTextLoop sp kou r := by
  conv => lhs; rw [plainTextLoop.eq_def]
  simp [h, hk]

theorem plainTextLoop_unknown (sp : Special) (kou : Char → Bool) (code : Char) (r : Str)
    (h : sp code = none) (hk : kou code = false) :
    plainTextLoop sp kou ('%' :: '%' :: code :: r) = '%' :: plainTextLoop sp kou ('%' :: code :: r) := by
  conv => lhs; rw [plainTextLoop.eq_def]
  simp [h, hk]

/-! ### export / load of the MTEXT content tags -/

theorem dropLast_getLast (l : List Str) : l.dropLast.flatten ++ l.getLast?.getD [] = l.flatten := by
  induction l with
  | nil => rfl
  | cons a t ih =>
    cases t with
    | nil => simp
    | cons b t' =>
      simp only [List.dropLast_cons₂, List.flatten_cons, List.getLast?_cons_cons, List.append_assoc]
      rw [ih]; simp

theorem export_tags_shape (chunks : List Str) :
    let tags := chunks.dropLast.map (fun c => ((3 : Nat), c)) ++ [(1, chunks.getLast?.getD [])]
    ((tags.filter (fun t => t.1 = 3)).map (·.2)).flatten = chunks.dropLast.flatten ∧
    ((tags.filter (fun t => t.1 = 1)).getLast?.map (·.2)).getD [] = chunks.getLast?.getD [] := by
  intro tags
  have h3 : tags.filter (fun t => t.1 = 3) = chunks.dropLast.map (fun c => ((3 : Nat), c)) := by
    simp only [tags, List.filter_append]
    have : (chunks.dropLast.map (fun c => ((3 : Nat), c))).filter (fun t => t.1 = 3)
        = chunks.dropLast.map (fun c => ((3 : Nat), c)) := by
      apply List.filter_eq_self.mpr
      intro a ha
      simp only [List.mem_map] at ha
      obtain ⟨c, _, rfl⟩ := ha
      simp
    rw [this]; simp
  have h1 : tags.filter (fun t => t.1 = 1) = [(1, chunks.getLast?.getD [])] := by
    simp only [tags, List.filter_append]
    have : (chunks.dropLast.map (fun c => ((3 : Nat), c))).filter (fun t => t.1 = 1) = [] := by
      apply List.filter_eq_nil_iff.mpr
      intro a ha
      simp only [List.mem_map] at ha
      obtain ⟨c, _, rfl⟩ := ha
      simp
    rw [this]; simp
  constructor
  · rw [h3]; simp [Function.comp_def]
  · rw [h1]; simp

end EzdxfVerif.Text
